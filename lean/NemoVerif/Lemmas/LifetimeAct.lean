/-
  C06 (wave 4) — the activation reference count never exceeds the number of LIVE activators.

  `liveRefs s E r`: number of occurrences of `r` in the `child_flow_uids` of the instances that are alive (neither STOPPED
  nor FINISHED) and not in the exempt list `E` — every executed `activate` statement whose StartFlow event was processed
  while the sender was alive leaves exactly one such entry (first activation: `_start_flow`; re-activation: the
  "already activated" branch), and nobody ever walks the child list of an ended instance again.
  `ActB s E B`: for every reference instance `r` (an instance whose parent is an instance of ANOTHER flow):
  `activated r ≤ liveRefs s E r + B r`.  The credit `B` and the exempt list carry the bound through the recursion of
  `_abort_flow` / `_finish_flow`: the instance being ended is exempt from the moment its child loop starts, the
  entries of the (copied) child list that have not been processed yet are the credit; each nested call
  `_abort_flow(child, deactivate_flow=True)` consumes one unit for that child (`abortFlow_actB`, one induction on the
  fuel, every hierarchy — cyclic too).
-/
import NemoVerif.Models.LifetimeAdm
import NemoVerif.Lemmas.LifetimeCount
import NemoVerif.Lemmas.LifetimeLinked
namespace NemoVerif.Lifetime

/-- a reference instance: its parent is an instance of another flow (not the main flow, not a restarted instance of an
    activated flow, which is a child of the reference instance of the same flow) -/
def IsRef (s : State) (f : Flow) : Prop := ∃ p pf, f.parent = some p ∧ s.flows p = some pf ∧ pf.flowId ≠ f.flowId

def ActB (s : State) (E : List Nat) (B : Nat → Nat) : Prop :=
  ∀ r f, s.flows r = some f → IsRef s f → f.activated ≤ liveRefs s E r + B r

/-- what `liveRefs` / `IsRef` read of a record -/
def rk (f : Flow) : Nat × Option Nat × List Nat × Bool := (f.flowId, f.parent, f.children, f.status.dead)

def RkEq (s s' : State) : Prop := s'.order = s.order ∧ ∀ v, (s'.flows v).map rk = (s.flows v).map rk

theorem RkEq.refl (s : State) : RkEq s s := ⟨rfl, fun _ => rfl⟩
theorem RkEq.trans {s1 s2 s3 : State} (a : RkEq s1 s2) (b : RkEq s2 s3) : RkEq s1 s3 :=
  ⟨b.1.trans a.1, fun v => (b.2 v).trans (a.2 v)⟩
theorem RkEq.of_flows_eq {s s' : State} (ho : s'.order = s.order) (h : s'.flows = s.flows) : RkEq s s' :=
  ⟨ho, fun v => by rw [h]⟩

theorem RkEq.back {s s' : State} (h : RkEq s s') {v : Nat} {f' : Flow} (hf : s'.flows v = some f') :
    ∃ f, s.flows v = some f ∧ rk f' = rk f := by
  have := h.2 v
  rw [hf] at this
  cases hs : s.flows v with
  | none => rw [hs] at this; cases this
  | some f => rw [hs] at this; exact ⟨f, rfl, Option.some.inj this⟩

theorem RkEq.fwd {s s' : State} (h : RkEq s s') {v : Nat} {f : Flow} (hf : s.flows v = some f) :
    ∃ f', s'.flows v = some f' ∧ rk f' = rk f := by
  have := h.2 v
  rw [hf] at this
  cases hs : s'.flows v with
  | none => rw [hs] at this; cases this
  | some f' => rw [hs] at this; exact ⟨f', rfl, Option.some.inj this⟩

theorem RkEq.refsOf_eq {s s' : State} (h : RkEq s s') (E : List Nat) (r q : Nat) : refsOf s' E r q = refsOf s E r q := by
  unfold refsOf
  have := h.2 q
  cases hs : s.flows q with
  | none => rw [hs] at this; cases hs' : s'.flows q with
    | none => rfl
    | some f' => rw [hs'] at this; cases this
  | some f =>
    obtain ⟨f', hf', e⟩ := h.fwd hs
    rw [hf']
    simp only [rk, Prod.mk.injEq] at e
    simp only [e.2.2.1, e.2.2.2]

theorem RkEq.liveRefs_eq {s s' : State} (h : RkEq s s') (E : List Nat) (r : Nat) : liveRefs s' E r = liveRefs s E r := by
  unfold liveRefs
  rw [h.1]
  exact congrArg List.sum (List.map_congr_left (fun q _ => h.refsOf_eq E r q))

theorem RkEq.isRef_back {s s' : State} (h : RkEq s s') {f f' : Flow} (e : rk f' = rk f) (hr : IsRef s' f') : IsRef s f := by
  obtain ⟨p, pf', hp, hpf, hne⟩ := hr
  obtain ⟨pf, hpf0, e2⟩ := h.back hpf
  simp only [rk, Prod.mk.injEq] at e e2
  exact ⟨p, pf, by rw [← e.2.1]; exact hp, hpf0, by rw [← e2.1, ← e.1]; exact hne⟩

/-- bookkeeping-only updates: `liveRefs` / `IsRef` unchanged; the counters may only move as the credits allow -/
theorem ActB.of_rk {s s' : State} {E : List Nat} {B B' : Nat → Nat} (hb : ActB s E B) (h : RkEq s s')
    (ha : ∀ r f f', s.flows r = some f → s'.flows r = some f' → IsRef s f → f'.activated + B r ≤ f.activated + B' r) :
    ActB s' E B' := by
  intro r f' hf' hr
  obtain ⟨f, hf, e⟩ := h.back hf'
  have hr0 := h.isRef_back e hr
  have h1 := hb r f hf hr0
  have h2 := ha r f f' hf hf' hr0
  rw [h.liveRefs_eq]
  omega

theorem ActB.of_rk_same {s s' : State} {E : List Nat} {B : Nat → Nat} (hb : ActB s E B) (h : RkEq s s')
    (ha : ∀ r f f', s.flows r = some f → s'.flows r = some f' → f'.activated ≤ f.activated) : ActB s' E B :=
  hb.of_rk h (fun r f f' hf hf' _ => by have := ha r f f' hf hf'; omega)

theorem ActB.weaken {s : State} {E : List Nat} {B B' : Nat → Nat} (hb : ActB s E B) (h : ∀ r, B r ≤ B' r) : ActB s E B' := by
  intro r f hf hr
  have := hb r f hf hr
  have := h r
  omega

/-! ### sums -/

theorem sum_le_add_one {l : List Nat} (g g' : Nat → Nat) (c k : Nat) (hn : l.Nodup)
    (h : ∀ v, v ∈ l → v ≠ c → g v ≤ g' v) (hc : g c ≤ g' c + k) : (l.map g).sum ≤ (l.map g').sum + k := by
  induction l with
  | nil => simp
  | cons w l ih =>
    simp only [List.map_cons, List.sum_cons]
    rw [List.nodup_cons] at hn
    by_cases hw : w = c
    · subst hw
      have : (l.map g).sum ≤ (l.map g').sum :=
        sum_map_mono g g' (fun v hv => h v (List.mem_cons_of_mem _ hv) (fun e => hn.1 (e ▸ hv)))
      omega
    · have := ih hn.2 (fun v hv => h v (List.mem_cons_of_mem _ hv))
      have := h w (List.mem_cons_self ..) hw
      omega

theorem sum_add_one_le {l : List Nat} (g g' : Nat → Nat) (u : Nat) (hu : u ∈ l)
    (h : ∀ v, v ∈ l → g v ≤ g' v) (hc : g u + 1 ≤ g' u) : (l.map g).sum + 1 ≤ (l.map g').sum := by
  induction l with
  | nil => cases hu
  | cons w l ih =>
    simp only [List.map_cons, List.sum_cons]
    cases hu with
    | head =>
      have : (l.map g).sum ≤ (l.map g').sum := sum_map_mono g g' (fun v hv => h v (List.mem_cons_of_mem _ hv))
      omega
    | tail _ h' =>
      have := ih h' (fun v hv => h v (List.mem_cons_of_mem _ hv))
      have := h w (List.mem_cons_self ..)
      omega

/-! ### identity part (flow id, parent pointer): what `IsRef` reads -/

def idk (f : Flow) : Nat × Option Nat := (f.flowId, f.parent)

def IdEq (s s' : State) : Prop := ∀ v, (s'.flows v).map idk = (s.flows v).map idk

theorem IdEq.back {s s' : State} (h : IdEq s s') {v : Nat} {f' : Flow} (hf : s'.flows v = some f') :
    ∃ f, s.flows v = some f ∧ idk f' = idk f := by
  have := h v
  rw [hf] at this
  cases hs : s.flows v with
  | none => rw [hs] at this; cases this
  | some f => rw [hs] at this; exact ⟨f, rfl, Option.some.inj this⟩

theorem IdEq.isRef_back {s s' : State} (h : IdEq s s') {f f' : Flow} (e : idk f' = idk f) (hr : IsRef s' f') : IsRef s f := by
  obtain ⟨p, pf', hp, hpf, hne⟩ := hr
  obtain ⟨pf, hpf0, e2⟩ := h.back hpf
  simp only [idk, Prod.mk.injEq] at e e2
  exact ⟨p, pf, by rw [← e.2]; exact hp, hpf0, by rw [← e2.1, ← e.1]; exact hne⟩

theorem RkEq.idEq {s s' : State} (h : RkEq s s') : IdEq s s' := by
  intro v
  have := h.2 v
  cases hs : s.flows v with
  | none => rw [hs] at this; cases hs' : s'.flows v with
    | none => rfl
    | some f' => rw [hs'] at this; cases this
  | some f =>
    obtain ⟨f', hf', e⟩ := h.fwd hs
    rw [hf']
    simp only [rk, Prod.mk.injEq] at e
    simp only [Option.map_some, idk, e.1, e.2.1]

theorem idEq_setFlow (s : State) (u : Nat) (f f' : Flow) (hf : s.flows u = some f) (e : idk f' = idk f) : IdEq s (setFlow s u f') := by
  intro v
  rw [setFlow_flows]
  split
  · next h => subst h; rw [hf]; simp only [Option.map_some, e]
  · rfl

/-- the general transfer lemma -/
theorem ActB.transfer {s s' : State} {E E' : List Nat} {B B' : Nat → Nat} (hb : ActB s E B) (hid : IdEq s s')
    (h : ∀ r f f', s.flows r = some f → s'.flows r = some f' → IsRef s f → f'.activated = 0 ∨
      f'.activated + liveRefs s E r + B r ≤ f.activated + liveRefs s' E' r + B' r) : ActB s' E' B' := by
  intro r f' hf' hr
  obtain ⟨f, hf, e⟩ := hid.back hf'
  have hr0 := hid.isRef_back e hr
  have h1 := hb r f hf hr0
  rcases h r f f' hf hf' hr0 with h2 | h2 <;> omega

theorem rk_setFlow (s : State) (u : Nat) (f f' : Flow) (hf : s.flows u = some f) (e : rk f' = rk f) : RkEq s (setFlow s u f') := by
  refine ⟨rfl, fun v => ?_⟩
  rw [setFlow_flows]
  split
  · next h => subst h; rw [hf]; simp only [Option.map_some, e]
  · rfl

theorem rk_modFlow (s : State) (u : Nat) (g : Flow → Flow) (hg : ∀ f, rk (g f) = rk f) : RkEq s (modFlow s u g) := by
  unfold modFlow
  split
  · next f hf => exact rk_setFlow s u f (g f) hf (hg f)
  · exact RkEq.refl s

/-! ### exempt instances -/

theorem refsOf_exempt_self (s : State) (E : List Nat) (r c : Nat) : refsOf s (c :: E) r c = 0 := by
  unfold refsOf
  split
  · simp
  · rfl

theorem refsOf_exempt_ne (s : State) (E : List Nat) (r c q : Nat) (h : q ≠ c) : refsOf s (c :: E) r q = refsOf s E r q := by
  unfold refsOf
  split
  · simp [h]
  · rfl

theorem refsOf_le_count (s : State) (E : List Nat) (r c : Nat) (f : Flow) (hf : s.flows c = some f) : refsOf s E r c ≤ f.children.count r := by
  unfold refsOf
  rw [hf]
  dsimp only
  split
  · exact Nat.le_refl _
  · exact Nat.zero_le _

/-- the instance whose child loop starts becomes exempt; its child-list entries become credit -/
theorem ActB.exempt {s : State} {E : List Nat} {B : Nat → Nat} (hn : s.order.Nodup) (c : Nat) (f : Flow) (hf : s.flows c = some f)
    (hb : ActB s E B) : ActB s (c :: E) (fun r => B r + f.children.count r) := by
  intro r g hg hr
  have h1 := hb r g hg hr
  have h2 : liveRefs s E r ≤ liveRefs s (c :: E) r + f.children.count r := by
    unfold liveRefs
    refine sum_le_add_one _ _ c _ hn (fun v _ hvc => ?_) ?_
    · rw [refsOf_exempt_ne s E r c v hvc]; exact Nat.le_refl _
    · have := refsOf_le_count s E r c f hf; omega
  show g.activated ≤ liveRefs s (c :: E) r + (B r + f.children.count r)
  omega

theorem liveRefs_unexempt (s : State) (E : List Nat) (c r : Nat) : liveRefs s (c :: E) r ≤ liveRefs s E r := by
  unfold liveRefs
  refine sum_map_mono _ _ (fun v _ => ?_)
  by_cases h : v = c
  · subst h; rw [refsOf_exempt_self]; exact Nat.zero_le _
  · rw [refsOf_exempt_ne s E r c v h]; exact Nat.le_refl _

theorem ActB.unexempt {s : State} {E : List Nat} {B : Nat → Nat} (c : Nat) (hb : ActB s (c :: E) B) : ActB s E B := by
  intro r f hf hr
  have := hb r f hf hr
  have := liveRefs_unexempt s E c r
  omega

/-- a record update of the exempt instance that keeps flow id and parent and does not raise the counter -/
theorem ActB.set_exempt {s : State} {E : List Nat} {B : Nat → Nat} (c : Nat) (f f' : Flow) (hf : s.flows c = some f)
    (e : idk f' = idk f) (ha : f'.activated ≤ f.activated) (hb : ActB s (c :: E) B) : ActB (setFlow s c f') (c :: E) B := by
  refine hb.transfer (idEq_setFlow s c f f' hf e) (fun r g g' hg hg' _ => Or.inr ?_)
  have hL : liveRefs (setFlow s c f') (c :: E) r = liveRefs s (c :: E) r := by
    unfold liveRefs
    rw [setFlow_order]
    refine congrArg List.sum (List.map_congr_left (fun q _ => ?_))
    by_cases hq : q = c
    · subst hq; rw [refsOf_exempt_self, refsOf_exempt_self]
    · unfold refsOf; rw [setFlow_flows_ne _ _ _ _ hq]
  have hact : g'.activated ≤ g.activated := by
    rw [setFlow_flows] at hg'
    split at hg'
    · next h => subst h; rw [hf] at hg; cases hg; cases hg'; exact ha
    · rw [hg] at hg'; cases hg'; exact Nat.le_refl _
  rw [hL]; omega

theorem ActB.mod_exempt {s : State} {E : List Nat} {B : Nat → Nat} (c : Nat) (g : Flow → Flow)
    (hg : ∀ f, idk (g f) = idk f ∧ (g f).activated ≤ f.activated) (hb : ActB s (c :: E) B) : ActB (modFlow s c g) (c :: E) B := by
  unfold modFlow
  split
  · next f hf => exact hb.set_exempt c f (g f) hf (hg f).1 (hg f).2
  · exact hb

/-! ### the straight-line pieces -/

theorem removeFromParent_actB {s : State} {E : List Nat} {B : Nat → Nat} (u : Nat) (s' : State)
    (h : removeFromParent s u = .ok s') (hb : ActB s E B) : ActB s' E B ∧ s'.order = s.order := by
  unfold removeFromParent at h
  split at h
  · cases h
  · next f hf =>
    split at h
    · next h0 =>
      split at h
      · cases h; exact ⟨hb, rfl⟩
      · next p _ =>
        split at h
        · cases h; exact ⟨hb, rfl⟩
        · next pf hpf =>
          split at h
          · cases h
            refine ⟨?_, rfl⟩
            have ha0 : f.activated = 0 := by simpa using h0
            refine hb.transfer (idEq_setFlow s p pf _ hpf rfl) (fun r g g' hg hg' _ => ?_)
            have hact : g'.activated = g.activated := by
              rw [setFlow_flows] at hg'
              split at hg'
              · next e => subst e; rw [hpf] at hg; cases hg; cases hg'; rfl
              · rw [hg] at hg'; cases hg'; rfl
            by_cases hru : r = u
            · subst hru; rw [hf] at hg; cases hg; left; rw [hact, ha0]
            · right
              have hL : liveRefs (setFlow s p { pf with children := pf.children.erase u }) E r = liveRefs s E r := by
                unfold liveRefs
                rw [setFlow_order]
                refine congrArg List.sum (List.map_congr_left (fun q _ => ?_))
                by_cases e : q = p
                · subst e; unfold refsOf; rw [setFlow_flows_same, hpf]; simp only [List.count_erase_of_ne hru]
                · unfold refsOf; rw [setFlow_flows_ne _ _ _ _ e]
              rw [hL, hact]; omega
          · cases h
    · cases h; exact ⟨hb, rfl⟩

theorem ActB.of_flows_eq {s s' : State} {E : List Nat} {B : Nat → Nat} (hb : ActB s E B) (ho : s'.order = s.order)
    (hf : s'.flows = s.flows) : ActB s' E B :=
  hb.of_rk_same (RkEq.of_flows_eq ho hf) (fun r g g' hg hg' => by rw [hf, hg] at hg'; cases hg'; exact Nat.le_refl _)

theorem ActB.modFlow_rk {s : State} {E : List Nat} {B : Nat → Nat} (hb : ActB s E B) (u : Nat) (g : Flow → Flow)
    (hg : ∀ f, rk (g f) = rk f ∧ (g f).activated ≤ f.activated) : ActB (modFlow s u g) E B := by
  refine hb.of_rk_same (rk_modFlow s u g (fun f => (hg f).1)) (fun r f f' hf hf' => ?_)
  by_cases e : r = u
  · subst e; rw [modFlow_flows_same, hf] at hf'; cases hf'; exact (hg f).2
  · rw [modFlow_flows_ne _ _ _ _ e, hf] at hf'; cases hf'; exact Nat.le_refl _

theorem restart_actB {s : State} {E : List Nat} {B : Nat → Nat} (u : Nat) (d : Bool) (s' : State)
    (h : restart s u d = .ok s') (hb : ActB s E B) : ActB s' E B ∧ s'.order = s.order := by
  unfold restart at h
  split at h
  · cases h
  · next f hf =>
    split at h
    · dsimp only at h
      split at h
      · cases h
      · next src _ =>
        cases h
        have b1 : ActB (pushLeft s (.startFlow f.flowId src f.activated u)) E B := hb.of_flows_eq rfl rfl
        exact ⟨b1.modFlow_rk u _ (fun _ => ⟨rfl, Nat.le_refl _⟩), by simp⟩
    · cases h; exact ⟨hb, rfl⟩

/-- the tail of `_abort_flow`, the instance being exempt -/
theorem abortTail_actB {s : State} {E : List Nat} {B : Nat → Nat} (u : Nat) (d : Bool) (s' : State)
    (h : abortTail s u d = .ok s') (hb : ActB s (u :: E) B) : ActB s' (u :: E) B ∧ s'.order = s.order := by
  unfold abortTail at h
  split at h
  · cases h
  · next f1 hf1 =>
    split at h
    · cases h
    · next s2 h2 =>
      obtain ⟨ho2, hf2⟩ := stopActions_out_frame _ _ _ h2
      have b2 : ActB s2 (u :: E) B := hb.of_flows_eq ho2 hf2
      have b3 := b2.mod_exempt u (fun f => { f with heads := 0 }) (fun _ => ⟨rfl, Nat.le_refl _⟩)
      dsimp only at h
      split at h
      · cases h
      · next s4 h4 =>
        obtain ⟨b4, ho4⟩ := removeFromParent_actB u s4 h4 b3
        have b5 := b4.mod_exempt u (fun f => { f with status := .stopped }) (fun _ => ⟨rfl, Nat.le_refl _⟩)
        have b6 : ActB (push (modFlow s4 u fun f => { f with status := .stopped }) (.flowFailed u)) (u :: E) B :=
          b5.of_flows_eq rfl rfl
        obtain ⟨b7, ho7⟩ := restart_actB u d s' h b6
        exact ⟨b7, by rw [ho7]; simp [ho4, ho2]⟩

/-- the tail of `_finish_flow`, the instance being exempt -/
theorem finishTail_actB {s : State} {E : List Nat} {B : Nat → Nat} (u : Nat) (d : Bool) (s' : State)
    (h : finishTail s u d = .ok s') (hb : ActB s (u :: E) B) : ActB s' (u :: E) B ∧ s'.order = s.order := by
  unfold finishTail at h
  split at h
  · cases h
  · next f1 hf1 =>
    split at h
    · cases h
    · next s2 h2 =>
      obtain ⟨ho2, hf2⟩ := stopActions_out_frame _ _ _ h2
      have b2 : ActB s2 (u :: E) B := hb.of_flows_eq ho2 hf2
      have b3 := b2.mod_exempt u (fun f => { f with heads := 0 }) (fun _ => ⟨rfl, Nat.le_refl _⟩)
      dsimp only at h
      split at h
      · cases h
        exact ⟨b3.mod_exempt u (fun f => { f with heads := 1, status := .waiting }) (fun _ => ⟨rfl, Nat.le_refl _⟩), by simp [ho2]⟩
      · have b4 := b3.mod_exempt u (fun f => { f with status := .finished }) (fun _ => ⟨rfl, Nat.le_refl _⟩)
        split at h
        · cases h
        · next s5 h5 =>
          obtain ⟨b5, ho5⟩ := removeFromParent_actB u s5 h5 b4
          have b6 : ActB (push s5 (.flowFinished u)) (u :: E) B := b5.of_flows_eq rfl rfl
          obtain ⟨b7, ho7⟩ := restart_actB u d s' h b6
          exact ⟨b7, by rw [ho7]; simp [ho5, ho2]⟩

/-! ### the recursion -/

/-- the unit of credit a call `_abort_flow(c, deactivate_flow = d)` consumes -/
def unit (d : Bool) (c r : Nat) : Nat := if d = true ∧ r = c then 1 else 0

/-- contract of the recursive-call parameter -/
def RecAct (d : Bool) (rec : State → Nat → Except Err State) : Prop :=
  ∀ (s : State) (c : Nat) (s' : State) (E : List Nat) (B : Nat → Nat), s.order.Nodup →
    ActB s E (fun r => B r + unit d c r) → rec s c = .ok s' → ActB s' E B ∧ s'.order = s.order

theorem not_isRef_of_childActivated (s : State) (f : Flow) (h : isChildActivated s f = true) : ¬ IsRef s f := by
  intro ⟨p, pf, hp, hpf, hne⟩
  unfold isChildActivated at h
  rw [hp] at h
  dsimp only at h
  rw [hpf] at h
  simp only [Bool.and_eq_true, beq_iff_eq] at h
  exact hne h.2.symm

theorem isRefActivated_false_of_isRef (s : State) (f : Flow) (hr : IsRef s f) (h : isRefActivated s f = .ok false) : f.activated = 0 := by
  obtain ⟨p, pf, hp, hpf, hne⟩ := hr
  unfold isRefActivated at h
  split at h
  · rw [hp] at h
    dsimp only at h
    rw [hpf] at h
    simp only [Except.ok.injEq, bne_eq_false_iff_eq] at h
    exact absurd h.symm hne
  · omega

theorem isRefActivated_true_pos (s : State) (f : Flow) (h : isRefActivated s f = .ok true) : f.activated > 0 := by
  unfold isRefActivated at h
  split at h
  · assumption
  · cases h

theorem childLoop_actB (rec : State → Nat → Except Err State) (hrec : RecAct true rec) : ∀ (l : List Nat) (s s' : State)
    (E : List Nat) (B : Nat → Nat), s.order.Nodup → ActB s E (fun r => B r + l.count r) → childLoop rec s l = .ok s' →
    ActB s' E B ∧ s'.order = s.order
  | [], s, s', E, B, _, hb, h => by
    simp only [childLoop] at h; cases h
    exact ⟨hb.weaken (fun r => by simp), rfl⟩
  | x :: xs, s, s', E, B, hn, hb, h => by
    simp only [childLoop] at h
    -- the credit of the head of the list, split off
    have hb' : ActB s E (fun r => (B r + xs.count r) + unit true x r) := by
      refine hb.weaken (fun r => ?_)
      simp only [List.count_cons, unit, true_and, beq_iff_eq]
      by_cases e : x = r
      · simp [e]; omega
      · have e' : ¬ r = x := fun h => e h.symm
        simp [e, e']
    -- the head is skipped: its unit of credit is not needed
    have hskip : (∀ f, s.flows x = some f → ¬ IsRef s f) → ActB s E (fun r => B r + xs.count r) := by
      intro hno r f hf hr
      have := hb' r f hf hr
      by_cases e : r = x
      · subst e; exact absurd hr (hno f hf)
      · simp only [unit, e, and_false, if_false] at this; exact this
    split at h
    · next hx => exact childLoop_actB rec hrec xs s s' E B hn (hskip (fun f hf => by rw [hx] at hf; cases hf)) h
    · next cf hx =>
      split at h
      · split at h
        · next s1 h1 =>
          obtain ⟨b1, ho1⟩ := hrec s x s1 E _ hn hb' h1
          obtain ⟨b2, ho2⟩ := childLoop_actB rec hrec xs s1 s' E B (by rw [ho1]; exact hn) b1 h
          exact ⟨b2, ho2.trans ho1⟩
        · cases h
      · next hca =>
        refine childLoop_actB rec hrec xs s s' E B hn (hskip (fun f hf => ?_)) h
        rw [hx] at hf; cases hf
        exact not_isRef_of_childActivated s cf (by simpa using hca)

theorem deactLoop_actB (rec : State → Nat → Except Err State) (hrec : RecAct true rec) (fid : Nat) : ∀ (l : List Nat) (s s' : State)
    (E : List Nat) (B : Nat → Nat), s.order.Nodup → ActB s E B → deactLoop rec fid s l = .ok s' →
    ActB s' E B ∧ s'.order = s.order
  | [], s, s', E, B, _, hb, h => by simp only [deactLoop] at h; cases h; exact ⟨hb, rfl⟩
  | c :: cs, s, s', E, B, hn, hb, h => by
    simp only [deactLoop] at h
    split at h
    · cases h
    · split at h
      · split at h
        · next s1 h1 =>
          obtain ⟨b1, ho1⟩ := hrec s c s1 E B hn (hb.weaken (fun r => Nat.le_add_right _ _)) h1
          have b2 : ActB (modFlow s1 c fun f => { f with activated := 0 }) E B :=
            b1.modFlow_rk c _ (fun _ => ⟨rfl, Nat.zero_le _⟩)
          obtain ⟨b3, ho3⟩ := deactLoop_actB rec hrec fid cs _ s' E B (by rw [modFlow_order, ho1]; exact hn) b2 h
          exact ⟨b3, by rw [ho3, modFlow_order, ho1]⟩
        · cases h
      · exact deactLoop_actB rec hrec fid cs s s' E B hn hb h

theorem deactivatePhase_actB (rec : State → Nat → Except Err State) (hrec : RecAct true rec) (s : State) (u : Nat) (d : Bool)
    (s1 : State) (b : Bool) (E : List Nat) (B : Nat → Nat) (hn : s.order.Nodup) (hb : ActB s E (fun r => B r + unit d u r))
    (h : deactivatePhase rec s u d = .ok (s1, b)) : ActB s1 E B ∧ s1.order = s.order := by
  unfold deactivatePhase at h
  split at h
  · cases h
  · next f hf =>
    split at h
    · cases h
    · next hra =>
      cases h
      refine ⟨?_, rfl⟩
      intro r g hg hr
      have := hb r g hg hr
      by_cases e : d = true ∧ r = u
      · obtain ⟨ed, er⟩ := e
        subst er; rw [hf] at hg; cases hg
        simp only [ed, if_true] at hra
        rw [isRefActivated_false_of_isRef s f hr hra]; exact Nat.zero_le _
      · simp only [unit, e, if_false] at this; exact this
    · next hra =>
      have hd : d = true := by
        cases d with
        | true => rfl
        | false => simp at hra
      subst hd
      simp only [if_true] at hra
      have hpos := isRefActivated_true_pos s f hra
      have b1 : ActB (setFlow s u { f with activated := f.activated - 1 }) E B := by
        refine hb.of_rk (rk_setFlow s u f _ hf rfl) (fun r g g' hg hg' _ => ?_)
        by_cases e : r = u
        · subst e; rw [hf] at hg; cases hg; rw [setFlow_flows_same] at hg'; cases hg'
          simp only [unit, and_self, if_true]; omega
        · rw [setFlow_flows_ne _ _ _ _ e, hg] at hg'; cases hg'
          simp only [unit, e, and_false, if_false]; omega
      split at h
      · dsimp only at h
        split at h
        · next s2 h2 =>
          cases h
          obtain ⟨b2, ho2⟩ := deactLoop_actB rec hrec f.flowId f.children (setFlow s u { f with activated := f.activated - 1 }) _ E B
            (by simpa using hn) b1 h2
          exact ⟨b2, by rw [ho2]; rfl⟩
        · cases h
      · cases h; exact ⟨b1, rfl⟩

theorem markNoRestart_actB {s : State} {E : List Nat} {B : Nat → Nat} (u : Nat) (hb : ActB s E B) : ActB (markNoRestart s u) E B := by
  unfold markNoRestart
  split
  · next f hf =>
    split
    · refine hb.of_rk_same (rk_setFlow s u f _ hf rfl) (fun r g g' hg hg' => ?_)
      by_cases e : r = u
      · subst e; rw [hf] at hg; cases hg; rw [setFlow_flows_same] at hg'; cases hg'; exact Nat.le_refl _
      · rw [setFlow_flows_ne _ _ _ _ e, hg] at hg'; cases hg'; exact Nat.le_refl _
    · exact hb
  · exact hb

theorem markNoRestart_order (s : State) (u : Nat) : (markNoRestart s u).order = s.order := by
  unfold markNoRestart; split
  · split <;> rfl
  · rfl

theorem abortBody_actB (rec : State → Nat → Except Err State) (hrec : RecAct true rec) (s : State) (u : Nat) (d : Bool) (s' : State)
    (E : List Nat) (B : Nat → Nat) (hn : s.order.Nodup) (hb : ActB s E B) (h : abortBody rec s u d = .ok s') :
    ActB s' E B ∧ s'.order = s.order := by
  rw [abortBody_eq] at h
  split at h
  · cases h
  · next f hf =>
    split at h
    · cases h; exact ⟨hb, rfl⟩
    · split at h
      · cases h
      · next s1 h1 =>
        have b0 := markNoRestart_actB u (hb.exempt hn u f hf)
        obtain ⟨b1, ho1⟩ := childLoop_actB rec hrec f.children _ s1 (u :: E) B (by rw [markNoRestart_order]; exact hn) b0 h1
        obtain ⟨b2, ho2⟩ := abortTail_actB u d s' h b1
        exact ⟨b2.unexempt u, by rw [ho2, ho1, markNoRestart_order]⟩

theorem finishBody_actB (rec : State → Nat → Except Err State) (hrec : RecAct true rec) (s : State) (u : Nat) (d : Bool) (s' : State)
    (E : List Nat) (B : Nat → Nat) (hn : s.order.Nodup) (hb : ActB s E B) (h : finishBody rec s u d = .ok s') :
    ActB s' E B ∧ s'.order = s.order := by
  rw [finishBody_eq] at h
  split at h
  · cases h
  · next f hf =>
    split at h
    · cases h; exact ⟨hb, rfl⟩
    · split at h
      · cases h
      · next s1 h1 =>
        obtain ⟨b1, ho1⟩ := childLoop_actB rec hrec f.children _ s1 (u :: E) B hn (hb.exempt hn u f hf) h1
        obtain ⟨b2, ho2⟩ := finishTail_actB u d s' h b1
        exact ⟨b2.unexempt u, by rw [ho2, ho1]⟩

/-- contract of `_abort_flow` at fuel `n` -/
def RecActN (n : Nat) : Prop :=
  ∀ (s : State) (c : Nat) (d : Bool) (s' : State) (E : List Nat) (B : Nat → Nat), s.order.Nodup →
    ActB s E (fun r => B r + unit d c r) → abortFlow n s c d = .ok s' → ActB s' E B ∧ s'.order = s.order

/-- **the induction on the fuel** (every hierarchy, cyclic ones too) -/
theorem abortFlow_actB : ∀ (n : Nat), RecActN n
  | 0 => by intro s c d s' E B _ _ h; simp [abortFlow] at h
  | n + 1 => by
    intro s c d s' E B hn hb h
    have hrec : RecAct true (fun s c => abortFlow n s c true) := fun s c s' E B hn hb h => abortFlow_actB n s c true s' E B hn hb h
    simp only [abortFlow] at h
    split at h
    · cases h
    · next s1 h1 => cases h; exact deactivatePhase_actB _ hrec s c d _ true E B hn hb h1
    · next s1 h1 =>
      obtain ⟨b1, ho1⟩ := deactivatePhase_actB _ hrec s c d s1 false E B hn hb h1
      obtain ⟨b2, ho2⟩ := abortBody_actB _ hrec s1 c d s' E B (by rw [ho1]; exact hn) b1 h
      exact ⟨b2, ho2.trans ho1⟩

theorem finishFlow_actB (n : Nat) (s : State) (u : Nat) (d : Bool) (s' : State) (E : List Nat) (B : Nat → Nat) (hn : s.order.Nodup)
    (hb : ActB s E (fun r => B r + unit d u r)) (h : finishFlow n s u d = .ok s') : ActB s' E B ∧ s'.order = s.order := by
  have hrec : RecAct true (fun s c => abortFlow n s c true) := fun s c s' E B hn hb h => abortFlow_actB n s c true s' E B hn hb h
  unfold finishFlow at h
  split at h
  · cases h
  · next s1 h1 => cases h; exact deactivatePhase_actB _ hrec s u d _ true E B hn hb h1
  · next s1 h1 =>
    obtain ⟨b1, ho1⟩ := deactivatePhase_actB _ hrec s u d s1 false E B hn hb h1
    obtain ⟨b2, ho2⟩ := finishBody_actB _ hrec s1 u d s' E B (by rw [ho1]; exact hn) b1 h
    exact ⟨b2, ho2.trans ho1⟩

theorem scopeFlowLoop_actB (rec : State → Nat → Except Err State) (hrec : RecAct false rec) : ∀ (l : List Nat) (s s' : State)
    (E : List Nat) (B : Nat → Nat), s.order.Nodup → ActB s E B → scopeFlowLoop rec s l = .ok s' → ActB s' E B ∧ s'.order = s.order
  | [], s, s', E, B, _, hb, h => by simp only [scopeFlowLoop] at h; cases h; exact ⟨hb, rfl⟩
  | c :: cs, s, s', E, B, hn, hb, h => by
    simp only [scopeFlowLoop] at h
    split at h
    · exact scopeFlowLoop_actB rec hrec cs s s' E B hn hb h
    · split at h
      · split at h
        · next s1 h1 =>
          obtain ⟨b1, ho1⟩ := hrec s c s1 E B hn (hb.weaken (fun r => Nat.le_add_right _ _)) h1
          obtain ⟨b2, ho2⟩ := scopeFlowLoop_actB rec hrec cs s1 s' E B (by rw [ho1]; exact hn) b1 h
          exact ⟨b2, ho2.trans ho1⟩
        · cases h
      · exact scopeFlowLoop_actB rec hrec cs s s' E B hn hb h

theorem endScope_actB (n : Nat) (s : State) (u nm : Nat) (s' : State) (E : List Nat) (B : Nat → Nat) (hn : s.order.Nodup)
    (hb : ActB s E B) (h : endScope n s u nm = .ok s') : ActB s' E B ∧ s'.order = s.order := by
  have hrec : RecAct false (fun s c => abortFlow n s c false) := fun s c s' E B hn hb h => abortFlow_actB n s c false s' E B hn hb h
  unfold endScope at h
  split at h
  · cases h
  · next f hf =>
    split at h
    · cases h
    · next fl al hsc =>
      simp only at h
      split at h
      · cases h
      · next s2 h2 =>
        have b0 : ActB (setFlow s u { f with scopes := scopeErase nm f.scopes }) E B := by
          refine hb.of_rk_same (rk_setFlow s u f _ hf rfl) (fun r g g' hg hg' => ?_)
          by_cases e : r = u
          · subst e; rw [hf] at hg; cases hg; rw [setFlow_flows_same] at hg'; cases hg'; exact Nat.le_refl _
          · rw [setFlow_flows_ne _ _ _ _ e, hg] at hg'; cases hg'; exact Nat.le_refl _
        obtain ⟨b1, ho1⟩ := scopeFlowLoop_actB _ hrec fl _ s2 E B (by simpa using hn) b0 h2
        obtain ⟨ho3, hf3⟩ := stopActions_out_frame _ _ _ h
        exact ⟨b1.of_flows_eq ho3 hf3, by rw [ho3, ho1]; rfl⟩

/-! ### the operation machine -/

/-- the invariant: no exempt instance, no credit -/
def ActCount (s : State) : Prop := ActB s [] (fun _ => 0)

/-- a dead sender changes nothing: its queued StartFlow is dropped, or (restart of an activated flow) only selects the
    instance that is created next -/
theorem processStartFlow_dead_sender (s : State) (fid : Nat) (known act hasInst : Bool) (source : Nat) (pm : Nat → Bool)
    (s' : State) (res : StartRes) (sf : Flow) (hsf : s.flows source = some sf) (hd : sf.status.dead = true)
    (h : processStartFlow s fid known act hasInst source pm = .ok (s', res)) : s' = s ∧ ∀ r, res ≠ .reused r := by
  unfold processStartFlow at h
  split at h
  · cases h; exact ⟨rfl, fun _ hh => by cases hh⟩
  · dsimp only at h
    rw [hsf] at h
    dsimp only at h
    split at h
    · cases h; exact ⟨rfl, fun _ hh => by cases hh⟩
    · next hg =>
      split at h
      · next r hr =>
        split at h
        · next hnc =>
          -- not the restart of an activated flow and the sender is dead: excluded by the guard
          exfalso
          apply hg
          have : (sf.status == .stopped || sf.status == .finished) = true := by
            cases hs : sf.status <;> simp [hs, FStatus.dead] at hd ⊢
          simp only [this, Bool.true_and]
          simp only [Bool.not_eq_true', beq_eq_false_iff_ne, ne_eq] at hnc
          simp [hnc]
        · cases h; exact ⟨rfl, fun _ hh => by cases hh⟩
      · cases h; exact ⟨rfl, fun _ hh => by cases hh⟩

theorem count_append_singleton (l : List Nat) (c r : Nat) : l.count r ≤ (l ++ [c]).count r := by
  rw [List.count_append]; exact Nat.le_add_right _ _

theorem ActCount.reactivate {s : State} (hb : ActCount s) (ho : OrdInv s) (fid : Nat) (known act hasInst : Bool) (source : Nat)
    (pm : Nat → Bool) (s' : State) (res : StartRes) (h : processStartFlow s fid known act hasInst source pm = .ok (s', res)) :
    ActCount s' := by
  rcases processStartFlow_effect s fid known act hasInst source pm s' res h with e | ⟨q, rf, sf, hrf, hsf, hfid, hne, _, e⟩
  · rw [e]; exact hb
  · cases hdead : sf.status.dead with
    | true => rw [(processStartFlow_dead_sender s fid known act hasInst source pm s' res sf hsf hdead h).1]; exact hb
    | false =>
      have hsq : source ≠ q := by
        intro e'; subst e'; rw [hrf] at hsf; cases hsf; exact hne hfid.symm
      have hs1 : (setFlow s q { rf with activated := rf.activated + 1 }).flows source = some sf := by
        rw [setFlow_flows_ne _ _ _ _ hsq]; exact hsf
      rw [e, modFlow_some _ _ _ _ hs1]
      -- records of the new state
      have hnew : ∀ v, (setFlow (setFlow s q { rf with activated := rf.activated + 1 }) source { sf with children := sf.children ++ [q] }).flows v =
          if v = source then some { sf with children := sf.children ++ [q] }
          else if v = q then some { rf with activated := rf.activated + 1 } else s.flows v := by
        intro v; rw [setFlow_flows]; split
        · rfl
        · rw [setFlow_flows]
      have hid : IdEq s (setFlow (setFlow s q { rf with activated := rf.activated + 1 }) source { sf with children := sf.children ++ [q] }) := by
        intro v
        rw [hnew]
        split
        · next e1 => subst e1; rw [hsf]; rfl
        · split
          · next e2 => subst e2; rw [hrf]; rfl
          · rfl
      suffices hsuf : ActCount (setFlow (setFlow s q { rf with activated := rf.activated + 1 }) source { sf with children := sf.children ++ [q] }) from
        hsuf.of_flows_eq rfl rfl
      refine hb.transfer hid (fun r g g' hg hg' _ => Or.inr ?_)
      -- every contribution grows
      have hmono : ∀ v, refsOf s [] r v ≤ refsOf (setFlow (setFlow s q { rf with activated := rf.activated + 1 }) source
          { sf with children := sf.children ++ [q] }) [] r v := by
        intro v
        unfold refsOf
        rw [hnew]
        by_cases e1 : v = source
        · subst e1; rw [hsf]; simp only [if_true, hdead]; exact count_append_singleton _ _ _
        · by_cases e2 : v = q
          · subst e2; simp only [e1, if_false, if_true, hrf]; exact Nat.le_refl _
          · simp only [e1, e2, if_false]; exact Nat.le_refl _
      rw [hnew] at hg'
      by_cases hrq : r = q
      · subst hrq
        rw [hrf] at hg; cases hg
        simp only [hsq.symm, if_false, if_true] at hg'; cases hg'
        -- the sender is alive and now lists `r` once more
        have hL : liveRefs s [] r + 1 ≤ liveRefs (setFlow (setFlow s r { rf with activated := rf.activated + 1 }) source
            { sf with children := sf.children ++ [r] }) [] r := by
          unfold liveRefs
          refine sum_add_one_le _ _ source (ho.mem hsf) (fun v _ => hmono v) ?_
          unfold refsOf
          rw [hnew, hsf]
          simp only [if_true, hdead, List.contains_nil, Bool.not_false, Bool.and_self, List.count_append, List.count_singleton, beq_self_eq_true]
          exact Nat.le_refl _
        show rf.activated + 1 + liveRefs s [] r + 0 ≤ rf.activated + liveRefs _ [] r + 0
        omega
      · have hact : g'.activated = g.activated := by
          by_cases e1 : r = source
          · subst e1; rw [hsf] at hg; cases hg; simp only [if_true] at hg'; cases hg'; rfl
          · simp only [e1, hrq, if_false] at hg'; rw [hg] at hg'; cases hg'; rfl
        have hL : liveRefs s [] r ≤ liveRefs (setFlow (setFlow s q { rf with activated := rf.activated + 1 }) source
            { sf with children := sf.children ++ [q] }) [] r := by
          unfold liveRefs
          exact sum_map_mono _ _ (fun v _ => hmono v)
        rw [hact]; omega

theorem ActCount.set_rk {s : State} (hb : ActCount s) (u : Nat) (f f' : Flow) (hf : s.flows u = some f) (e : rk f' = rk f)
    (ha : f'.activated ≤ f.activated) : ActCount (setFlow s u f') := by
  refine hb.of_rk_same (rk_setFlow s u f f' hf e) (fun r g g' hg hg' => ?_)
  by_cases e' : r = u
  · subst e'; rw [hf] at hg; cases hg; rw [setFlow_flows_same] at hg'; cases hg'; exact ha
  · rw [setFlow_flows_ne _ _ _ _ e', hg] at hg'; cases hg'; exact Nat.le_refl _

theorem ActCount.startChild {s : State} (hb : ActCount s) (ho : OrdInv s) (hl : LinkInv s) (c fid p k : Nat)
    (hadm : opAdm s (.startChild c fid p k) = true) : ActCount (applyOp s (.startChild c fid p k)) := by
  simp only [applyOp]
  split
  · next hc hp =>
    rename_i pf
    split
    · next hg =>
      simp only [Bool.and_eq_true, bne_iff_ne, ne_eq] at hg
      have hcp : c ≠ p := hg.1.2
      have hnew : ∀ v, (setFlow { setFlow s c { freshFlow fid with parent := some p, activated := k } with order := s.order ++ [c] } p
          { pf with children := pf.children ++ [c] }).flows v =
          if v = p then some { pf with children := pf.children ++ [c] }
          else if v = c then some { freshFlow fid with parent := some p, activated := k } else s.flows v := by
        intro v; rw [setFlow_flows]; split
        · rfl
        · show (setFlow s c _).flows v = _
          rw [setFlow_flows]
      have hord : (setFlow { setFlow s c { freshFlow fid with parent := some p, activated := k } with order := s.order ++ [c] } p
          { pf with children := pf.children ++ [c] }).order = s.order ++ [c] := rfl
      -- every old contribution grows
      have hmono : ∀ r v, v ∈ s.order → refsOf s [] r v ≤ refsOf (setFlow { setFlow s c { freshFlow fid with parent := some p, activated := k } with order := s.order ++ [c] } p
          { pf with children := pf.children ++ [c] }) [] r v := by
        intro r v hv
        have hvc : v ≠ c := by
          intro e; subst e
          have := ho.live v hv
          rw [hc] at this; cases this
        unfold refsOf
        rw [hnew]
        by_cases e1 : v = p
        · subst e1; rw [hp]; simp only [if_true]
          split
          · exact count_append_singleton _ _ _
          · exact Nat.le_refl _
        · simp only [e1, hvc, if_false]; exact Nat.le_refl _
      have hL : ∀ r, liveRefs s [] r ≤ liveRefs (setFlow { setFlow s c { freshFlow fid with parent := some p, activated := k } with order := s.order ++ [c] } p
          { pf with children := pf.children ++ [c] }) [] r := by
        intro r
        unfold liveRefs
        rw [hord, List.map_append, List.sum_append]
        have := sum_map_mono _ _ (fun v hv => hmono r v hv)
        omega
      -- `IsRef` of an old record is inherited from the old state
      have hisref : ∀ v f, s.flows v = some f → ∀ f', idk f' = idk f →
          IsRef (setFlow { setFlow s c { freshFlow fid with parent := some p, activated := k } with order := s.order ++ [c] } p
            { pf with children := pf.children ++ [c] }) f' → IsRef s f := by
        intro v f hf f' e ⟨p0, pf0, hp0, hpf0, hne⟩
        simp only [idk, Prod.mk.injEq] at e
        rw [e.2] at hp0
        obtain ⟨g, hg0⟩ := hl.parentLive v f p0 hf hp0
        rw [hnew] at hpf0
        by_cases e1 : p0 = p
        · subst e1; simp only [if_true] at hpf0; cases hpf0
          exact ⟨p0, pf, hp0, hp, by rw [← e.1]; exact hne⟩
        · have e2 : p0 ≠ c := by intro e'; subst e'; rw [hc] at hg0; cases hg0
          simp only [e1, e2, if_false] at hpf0
          exact ⟨p0, pf0, hp0, hpf0, by rw [← e.1]; exact hne⟩
      intro r f' hf' hr
      rw [hnew] at hf'
      by_cases e1 : r = p
      · subst e1; simp only [if_true] at hf'; cases hf'
        have := hb r pf hp (hisref r pf hp _ rfl hr)
        have := hL r
        simp only at *
        omega
      · by_cases e2 : r = c
        · subst e2; simp only [e1, if_false, if_true] at hf'; cases hf'
          -- the new instance: created by a listening instance of another flow, with `activated ≤ 1`
          obtain ⟨p0, pf0, hp0, hpf0, hne⟩ := hr
          simp only [Option.some.injEq] at hp0
          subst hp0
          rw [hnew] at hpf0
          simp only [if_true] at hpf0; cases hpf0
          have hne' : pf.flowId ≠ fid := by simpa [freshFlow] using hne
          have hk : k ≤ 1 := by
            simp only [opAdm, hp, Bool.or_eq_true, decide_eq_true_eq, beq_iff_eq] at hadm
            rcases hadm with h1 | h1
            · exact h1
            · exact absurd h1 hne'
          have hlist : pf.status.listening = true := by
            have h2 := hg.2
            simp only [Bool.or_eq_true, Bool.and_eq_true, beq_iff_eq, decide_eq_true_eq] at h2
            rcases h2 with h1 | h1
            · exact h1
            · exact absurd h1.1.2 hne'
          have hdead : pf.status.dead = false := by
            cases hs : pf.status <;> simp [hs, FStatus.listening, FStatus.dead] at hlist ⊢
          have h1 : refsOf (setFlow { setFlow s r { freshFlow fid with parent := some p, activated := k } with order := s.order ++ [r] } p
              { pf with children := pf.children ++ [r] }) [] r p ≤ liveRefs (setFlow { setFlow s r { freshFlow fid with parent := some p, activated := k } with order := s.order ++ [r] } p
              { pf with children := pf.children ++ [r] }) [] r := by
            unfold liveRefs
            refine le_sum_map _ p ?_
            rw [hord]; exact List.mem_append_left _ (ho.mem hp)
          have h2 : 1 ≤ refsOf (setFlow { setFlow s r { freshFlow fid with parent := some p, activated := k } with order := s.order ++ [r] } p
              { pf with children := pf.children ++ [r] }) [] r p := by
            unfold refsOf
            rw [hnew]
            simp only [if_true, hdead, List.contains_nil, Bool.not_false, Bool.and_self, List.count_append, List.count_singleton, beq_self_eq_true]
            omega
          exact Nat.le_trans hk (Nat.le_trans h2 (Nat.le_trans h1 (Nat.le_add_right _ _)))
        · simp only [e1, e2, if_false] at hf'
          have := hb r f' hf' (hisref r f' hf' _ rfl hr)
          have := hL r
          simp only at *
          omega
    · exact hb
  · exact hb

theorem statusStepOk_alive (a b : FStatus) (h : statusStepOk a b = true) : a.dead = false ∧ b.dead = false := by
  cases a <;> cases b <;> simp [statusStepOk, FStatus.dead] at h ⊢

theorem labelRestart_actCount {s : State} (hb : ActCount s) (u : Nat) (s' : State) (h : labelRestart s u = .ok s') : ActCount s' := by
  unfold labelRestart at h
  split at h
  · cases h
  · next f hf =>
    split at h
    · cases h; exact hb
    · cases h
      have b1 : ActCount (pushLeft s (.startFlow f.flowId u f.activated u)) := hb.of_flows_eq rfl rfl
      exact b1.modFlow_rk u _ (fun _ => ⟨rfl, Nat.le_refl _⟩)

/-- every admissible operation of the operation-sequence semantics preserves the bound -/
theorem ActCount.step (s : State) (op : IOp) (ho : OrdInv s) (hl : LinkInv s) (hadm : opAdm s op = true) (hb : ActCount s) :
    ActCount (applyOp s op) := by
  cases op with
  | abort n u d =>
    simp only [applyOp]
    cases h : abortFlow n s u d with
    | error e => exact hb
    | ok s' => exact (abortFlow_actB n s u d s' [] _ ho.nodup (hb.weaken (fun _ => Nat.zero_le _)) h).1
  | finish n u d =>
    simp only [applyOp]
    cases h : finishFlow n s u d with
    | error e => exact hb
    | ok s' => exact (finishFlow_actB n s u d s' [] _ ho.nodup (hb.weaken (fun _ => Nat.zero_le _)) h).1
  | endScope n u nm =>
    simp only [applyOp]
    cases h : endScope n s u nm with
    | error e => exact hb
    | ok s' => exact (endScope_actB n s u nm s' [] _ ho.nodup hb h).1
  | startChild c fid p k => exact hb.startChild ho hl c fid p k hadm
  | reactivate fid known act hasInst source pm =>
    simp only [applyOp]
    split
    · next s' r h => exact hb.reactivate ho fid known act hasInst source _ s' r h
    · exact hb
  | status u st =>
    simp only [applyOp]
    split
    · next f hf =>
      split
      · next hok =>
        obtain ⟨h1, h2⟩ := statusStepOk_alive _ _ hok
        exact hb.set_rk u f _ hf (by simp only [rk, h1, h2]) (Nat.le_refl _)
      · exact hb
    · exact hb
  | newAction u a =>
    simp only [applyOp]
    split
    · next f hf ha =>
      split
      · have b1 : ActCount (setFlow s u { f with actionUids := f.actionUids ++ [a] }) := hb.set_rk u f _ hf rfl (Nat.le_refl _)
        exact b1.of_flows_eq rfl rfl
      · exact hb
    · exact hb
  | startAction a =>
    simp only [applyOp]
    split
    · split
      · obtain ⟨hf, _, _, ho', _⟩ := update_rel (AEv.startOf a) (emit s (.start a))
        exact hb.of_flows_eq ho' hf
      · exact hb
    · exact hb
  | coWin loser a b =>
    simp only [applyOp]
    split
    · next f x hf hx =>
      split
      · have b1 : ActCount (setFlow s loser { f with actionUids := f.actionUids.map fun y => if y == b then a else y }) :=
          hb.set_rk loser f _ hf rfl (Nat.le_refl _)
        exact b1.of_flows_eq rfl rfl
      · exact hb
    · exact hb
  | event e =>
    by_cases hg : eventOk s e = true
    · have happ : applyOp s (.event e) = updateActionStatusByEvent s e := by simp only [applyOp, hg, if_true]
      rw [happ]
      obtain ⟨hf, _, _, ho', _⟩ := update_rel e s
      exact hb.of_flows_eq ho' hf
    · have happ : applyOp s (.event e) = s := by simp only [applyOp, hg]; rfl
      rw [happ]; exact hb
  | label u =>
    simp only [applyOp]
    cases h : labelRestart s u with
    | error e => exact hb
    | ok s' => exact labelRestart_actCount hb u s' h
  | frame u heads scopes =>
    simp only [applyOp]
    split
    · next f hf => exact hb.set_rk u f _ hf rfl (Nat.le_refl _)
    · exact hb
  | noRestart u =>
    simp only [applyOp]
    exact hb.modFlow_rk u _ (fun _ => ⟨rfl, Nat.le_refl _⟩)

theorem ActCount.init : ActCount initState := by
  intro r f hf ⟨p, pf, hp, _, _⟩
  simp only [initState] at hf
  split at hf
  · cases hf; simp [freshFlow] at hp
  · cases hf

/-! ### the executable form of the invariant (what the driver evaluates on real states) -/

theorem isRefB_of_isRef (s : State) (f : Flow) : IsRef s f ↔ isRefB s f = true := by
  unfold isRefB IsRef
  constructor
  · intro ⟨p, pf, hp, hpf, hne⟩
    rw [hp]; dsimp only; rw [hpf]; simpa using hne
  · intro h
    split at h
    · cases h
    · next p hp =>
      split at h
      · cases h
      · next pf hpf => exact ⟨p, pf, hp, hpf, by simpa using h⟩

theorem actCountB_of_actCount (s : State) (hb : ActCount s) : actCountB s = true := by
  unfold actCountB
  rw [List.all_eq_true]
  intro r _
  split
  · next f hf =>
    cases hr : isRefB s f with
    | false => rfl
    | true =>
      have := hb r f hf ((isRefB_of_isRef s f).2 hr)
      simp only [Bool.not_true, Bool.false_or, decide_eq_true_eq]
      omega
  · rfl

end NemoVerif.Lifetime
