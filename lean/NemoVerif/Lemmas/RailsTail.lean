/-
  C16 phase 4 — the tail of a REJECTING check rail on the GENERATED llm_flows.co program (input and output frames):
  `bot refuse to respond` → the extension flow `generate bot message` (`retrieve_relevant_chunks`, no retrieval rails,
  `generate_bot_message` with the predefined refusal ⇒ `$skip_output_rails = True`) → `BotMessage` → a fresh
  `process bot message` resets the flag and utters the refusal → the rail's `bot stop`.  Symbolic execution of
  `computeNextState`; the frames are the interrupted loop flow and its interrupted parent.
-/
import NemoVerif.Lemmas.RailsTurnPhases
namespace NemoVerif.RailsInterp
open NemoVerif.V1Interp
set_option linter.unusedSimpArgs false
set_option linter.unusedVariables false

def utterRefuse : Elem := Elem.runAction "utter" (some "refuse to respond") "" none
def utterStop : Elem := Elem.runAction "utter" (some "stop") "" none
def rrcAction : Elem := Elem.runAction "retrieve_relevant_chunks" none "{}" none
def gbmAction : Elem := Elem.runAction "generate_bot_message" none "{}" none

/-- the rail sub-flow of a check rail -/
def checkCfg (nm action : String) : FlowCfg :=
  { id := nm, elems := [Elem.runAction action none "{}" (some "allowed"), Elem.ifE (Expr.not (Expr.var "allowed")) 3, utterRefuse, utterStop],
    isSubflow := true }

theorem checkCfg_eq (tv : String) (r : IRail) (a : String → Bool) (h : r.kind = .check a) : IRail.cfg tv r = checkCfg r.name r.action := by
  simp [IRail.cfg, h, checkCfg, utterRefuse, utterStop]

def railFS (uc : Nat) (nm : String) (h : Int) : FS := { uid := uc, flowId := nm, head := h }

section
variable (rails : Cfgs) (hsub : ∀ r ∈ rails, r.isSubflow = true)

set_option maxRecDepth 8000 in
/-- the check rail's action answered `False`: `if not $allowed` is taken, the rail asks for `bot refuse to respond` -/
theorem TR_reject (hsub : ∀ r ∈ rails, r.isSubflow = true) (σ u : Ctx) (c u0 u1 uc : Nat) (h01 : u0 < u1) (h1c : u1 < uc) (nx : Option NextStep) (nm action : String)
    (hal : σ.get "allowed" = .bool false) (hfind : Cfgs.find (base ++ rails) nm = some (checkCfg nm action)) (hact : action ≠ "utter") :
    computeNextState true (base ++ rails)
      { ctx := σ, flows := [railFS uc nm 0, fsRIRint u1 uc, fsPUIint u0 u1], next := nx, upd := u, ctr := c } (.actionFinished action true)
    = .ok { ctx := σ.withEvent (.actionFinished action true), flows := [railFS uc nm 2, fsRIRint u1 uc, fsPUIint u0 u1],
            next := some { elem := utterRefuse, uid := uc, prio := 10000 }, upd := [], ctr := c } := by
  have hq : Quiet (.actionFinished action true) = true := by
    show (action != "utter") = true
    exact bne_iff_ne.mpr hact
  have ga := get_withEvent_plain σ (.actionFinished action true) "allowed" (by plain_tac)
  have b1 : (uc == u1) = false := beq_false_of_ne (by omega)
  have b2 : (u1 == uc) = false := beq_false_of_ne (by omega)
  have b3 : (uc == u0) = false := beq_false_of_ne (by omega)
  have b4 : (u0 == uc) = false := beq_false_of_ne (by omega)
  have b5 : (u0 == u1) = false := beq_false_of_ne (by omega)
  have b6 : (u1 == u0) = false := beq_false_of_ne (by omega)
  cns_simp [startNew_quiet rails hsub _ hq, hfind, checkCfg, railFS, fsRIRint, fsPUIint, ga, hal, utterRefuse, utterStop, WILDCARD, b1, b2, b3, b4, b5, b6]


theorem uid3 (u0 u1 uc : Nat) (h01 : u0 < u1) (h1c : u1 < uc) :
    (uc == u1) = false ∧ (u1 == uc) = false ∧ (uc == u0) = false ∧ (u0 == uc) = false ∧ (u0 == u1) = false ∧ (u1 == u0) = false :=
  ⟨beq_false_of_ne (by omega), beq_false_of_ne (by omega), beq_false_of_ne (by omega), beq_false_of_ne (by omega),
   beq_false_of_ne (by omega), beq_false_of_ne (by omega)⟩
theorem uid4 (u0 u1 uc c : Nat) (h01 : u0 < u1) (h1c : u1 < uc) (hcc : uc < c) :
    (c == uc) = false ∧ (c == u1) = false ∧ (c == u0) = false ∧ (uc == c) = false ∧ (u1 == c) = false ∧ (u0 == c) = false :=
  ⟨beq_false_of_ne (by omega), beq_false_of_ne (by omega), beq_false_of_ne (by omega), beq_false_of_ne (by omega),
   beq_false_of_ne (by omega), beq_false_of_ne (by omega)⟩

set_option maxRecDepth 8000 in
theorem S_gbm (σ : Ctx) (c : Nat) (i : String) (fl : List FS) (nx : NextStep) (hnx : nx.prio < 1000000) :
    startOne true (base ++ rails) (.botIntent i) { ctx := σ, flows := fl, next := some nx, upd := [], ctr := c } gbmCfg
    = .ok { ctx := σ, flows := fl ++ [{ uid := c, flowId := "generate bot message", head := 1 }],
            next := some { elem := rrcAction, uid := c, prio := 1000000 }, upd := [], ctr := c + 1 } := by
  rw [startOne_start _ _ _ gbmCfg _ _ gbm_elems rfl (by simp [isMatch, WILDCARD]) gbm_flags.2.2.2.1 (by simp [gbm_flags])]
  simp [gbm_elems, gbm_flags, SLIDE_FUEL, slide, sstep, initPrev, pyIndex, find_gbm, SUB_FUEL, slideWithSubflows,
    recordNextStep, isActionable, setAt, rrcAction, hnx, List.set_append]


theorem startNew_botIntent (hsub : ∀ r ∈ rails, r.isSubflow = true) (σ : Ctx) (c : Nat) (i : String) (fl : List FS) (nx : NextStep) (hnx : nx.prio < 1000000) :
    startNew true (base ++ rails) (.botIntent i) (base ++ rails) { ctx := σ, flows := fl, next := some nx, upd := [], ctr := c }
    = .ok { ctx := σ, flows := fl ++ [{ uid := c, flowId := "generate bot message", head := 1 }],
            next := some { elem := rrcAction, uid := c, prio := 1000000 }, upd := [], ctr := c + 1 } := by
  rw [startNew_rails rails hsub, startNew_base_eq]
  simp only [startOne_pui_no _ _ _ (show isMatch el0pui (.botIntent i) = false from rfl),
    startOne_rdr_no _ _ _ (show isMatch el0rdr (.botIntent i) = false from rfl),
    startOne_gns_no _ _ _ (show isMatch el0gns (.botIntent i) = false from rfl), S_gbm rails σ c i fl nx hnx,
    startOne_pbm_no _ _ _ (show isMatch el0pbm (.botIntent i) = false from rfl)]

set_option maxRecDepth 8000 in
theorem S_gbm_none (σ : Ctx) (c : Nat) (i : String) (fl : List FS) :
    startOne true (base ++ rails) (.botIntent i) { ctx := σ, flows := fl, next := none, upd := [], ctr := c } gbmCfg
    = .ok { ctx := σ, flows := fl ++ [{ uid := c, flowId := "generate bot message", head := 1 }],
            next := some { elem := rrcAction, uid := c, prio := 1000000 }, upd := [], ctr := c + 1 } := by
  rw [startOne_start _ _ _ gbmCfg _ _ gbm_elems rfl (by simp [isMatch, WILDCARD]) gbm_flags.2.2.2.1 (by simp [gbm_flags])]
  simp [gbm_elems, gbm_flags, SLIDE_FUEL, slide, sstep, initPrev, pyIndex, find_gbm, SUB_FUEL, slideWithSubflows,
    recordNextStep, isActionable, setAt, rrcAction, List.set_append]

theorem startNew_botIntent_none (hsub : ∀ r ∈ rails, r.isSubflow = true) (σ : Ctx) (c : Nat) (i : String) (fl : List FS) :
    startNew true (base ++ rails) (.botIntent i) (base ++ rails) { ctx := σ, flows := fl, next := none, upd := [], ctr := c }
    = .ok { ctx := σ, flows := fl ++ [{ uid := c, flowId := "generate bot message", head := 1 }],
            next := some { elem := rrcAction, uid := c, prio := 1000000 }, upd := [], ctr := c + 1 } := by
  rw [startNew_rails rails hsub, startNew_base_eq]
  simp only [startOne_pui_no _ _ _ (show isMatch el0pui (.botIntent i) = false from rfl),
    startOne_rdr_no _ _ _ (show isMatch el0rdr (.botIntent i) = false from rfl),
    startOne_gns_no _ _ _ (show isMatch el0gns (.botIntent i) = false from rfl), S_gbm_none rails σ c i fl,
    startOne_pbm_no _ _ _ (show isMatch el0pbm (.botIntent i) = false from rfl)]

set_option maxRecDepth 8000 in
/-- `bot refuse to respond`: the rail moves on to its `stop`; the extension flow `generate bot message` starts on the bot
    intent and (higher priority) asks for `retrieve_relevant_chunks` -/
theorem TR_refuse (hsub : ∀ r ∈ rails, r.isSubflow = true) (σ u : Ctx) (c u0 u1 uc : Nat) (h01 : u0 < u1) (h1c : u1 < uc) (hcc : uc < c)
    (nx : Option NextStep) (nm action : String)
    (hfind : Cfgs.find (base ++ rails) nm = some (checkCfg nm action)) :
    computeNextState true (base ++ rails)
      { ctx := σ, flows := [railFS uc nm 2, fsRIRint u1 uc, fsPUIint u0 u1], next := nx, upd := u, ctr := c } (.botIntent "refuse to respond")
    = .ok { ctx := σ.withEvent (.botIntent "refuse to respond"),
            flows := [railFS uc nm 3, fsRIRint u1 uc, fsPUIint u0 u1, { uid := c, flowId := "generate bot message", head := 1 }],
            next := some { elem := rrcAction, uid := c, prio := 1000000 }, upd := [], ctr := c + 1 } := by
  obtain ⟨b1, b2, b3, b4, b5, b6⟩ := uid3 u0 u1 uc h01 h1c
  obtain ⟨c1, c2, c3, c4, c5, c6⟩ := uid4 u0 u1 uc c h01 h1c hcc
  cns_simp [startNew_botIntent rails hsub, hfind, checkCfg, railFS, fsRIRint, fsPUIint, utterRefuse, utterStop, rrcAction, WILDCARD,
    b1, b2, b3, b4, b5, b6, c1, c2, c3, c4, c5, c6]


def railInt (uc ug : Nat) (nm : String) : FS := { uid := uc, flowId := nm, head := 3, status := .interrupted, interruptedBy := some ug }

set_option maxRecDepth 8000 in
/-- `retrieve_relevant_chunks` finished: the rail (waiting at `bot stop`) is aborted and, because the deciding flow is an
    extension flow beyond its first element, re-marked interrupted by it; no retrieval rails are configured, so
    `generate bot message` asks for `generate_bot_message` -/
theorem TR_rrc (hsub : ∀ r ∈ rails, r.isSubflow = true) (σ u : Ctx) (c u0 u1 uc ug : Nat) (h01 : u0 < u1) (h1c : u1 < uc) (hcc : uc < ug)
    (nx : Option NextStep) (nm action : String)
    (hfind : Cfgs.find (base ++ rails) nm = some (checkCfg nm action)) (hret : σ.get "config.rails.retrieval.flows" = .strs []) :
    computeNextState true (base ++ rails)
      { ctx := σ, flows := [railFS uc nm 3, fsRIRint u1 uc, fsPUIint u0 u1, { uid := ug, flowId := "generate bot message", head := 1 }],
        next := nx, upd := u, ctr := c } (.actionFinished "retrieve_relevant_chunks" true)
    = .ok { ctx := σ.withEvent (.actionFinished "retrieve_relevant_chunks" true),
            flows := [railInt uc ug nm, fsRIRint u1 uc, fsPUIint u0 u1, { uid := ug, flowId := "generate bot message", head := 5 }],
            next := some { elem := gbmAction, uid := ug, prio := 1000000 }, upd := [], ctr := c } := by
  obtain ⟨b1, b2, b3, b4, b5, b6⟩ := uid3 u0 u1 uc h01 h1c
  obtain ⟨c1, c2, c3, c4, c5, c6⟩ := uid4 u0 u1 uc ug h01 h1c hcc
  have hq : Quiet (.actionFinished "retrieve_relevant_chunks" true) = true := by decide
  have g1 := get_withEvent_plain σ (.actionFinished "retrieve_relevant_chunks" true) "config.rails.retrieval.flows" (by plain_tac)
  have ht : (V.strs []).truthy = false := rfl
  cns_simp [startNew_quiet rails hsub _ hq, hfind, checkCfg, railFS, railInt, fsRIRint, fsPUIint, utterRefuse, utterStop, rrcAction, gbmAction, WILDCARD,
    g1, hret, ht, b1, b2, b3, b4, b5, b6, c1, c2, c3, c4, c5, c6]

set_option maxRecDepth 8000 in
/-- `generate_bot_message` finished: the extension flow completes, the rail it had interrupted resumes and asks for `bot stop` -/
theorem TR_gbm_fin (hsub : ∀ r ∈ rails, r.isSubflow = true) (σ u : Ctx) (c u0 u1 uc ug : Nat) (h01 : u0 < u1) (h1c : u1 < uc) (hcc : uc < ug)
    (nx : Option NextStep) (nm action : String)
    (hfind : Cfgs.find (base ++ rails) nm = some (checkCfg nm action)) :
    computeNextState true (base ++ rails)
      { ctx := σ, flows := [railInt uc ug nm, fsRIRint u1 uc, fsPUIint u0 u1, { uid := ug, flowId := "generate bot message", head := 5 }],
        next := nx, upd := u, ctr := c } (.actionFinished "generate_bot_message" true)
    = .ok { ctx := σ.withEvent (.actionFinished "generate_bot_message" true),
            flows := [railFS uc nm 3, fsRIRint u1 uc, fsPUIint u0 u1, { uid := ug, flowId := "generate bot message", head := -6, status := .completed }],
            next := some { elem := utterStop, uid := uc, prio := 10000 }, upd := [], ctr := c } := by
  obtain ⟨b1, b2, b3, b4, b5, b6⟩ := uid3 u0 u1 uc h01 h1c
  obtain ⟨c1, c2, c3, c4, c5, c6⟩ := uid4 u0 u1 uc ug h01 h1c hcc
  have hq : Quiet (.actionFinished "generate_bot_message" true) = true := by decide
  cns_simp [startNew_quiet rails hsub _ hq, hfind, checkCfg, railFS, railInt, fsRIRint, fsPUIint, utterRefuse, utterStop, rrcAction, gbmAction, WILDCARD,
    b1, b2, b3, b4, b5, b6, c1, c2, c3, c4, c5, c6]


set_option maxRecDepth 8000 in
/-- `process bot message` starts on the predefined refusal with `$skip_output_rails` set: it resets the flag and utters -/
theorem S_pbm_skip (σ : Ctx) (c : Nat) (v : V) (fl : List FS) (nx : NextStep) (hnx : nx.prio < 1000000)
    (hsk : (σ.get "skip_output_rails").truthy = true) (ge : σ.get "event.text" = v) :
    startOne true (base ++ rails) (.other "BotMessage" [("text", v)]) { ctx := σ, flows := fl, next := some nx, upd := [], ctr := c } pbmCfg
    = .ok { ctx := (σ.set "bot_message" v).set "skip_output_rails" (.bool false),
            flows := fl ++ [{ uid := c, flowId := "process bot message", head := 12 }],
            next := some { elem := createSubaBot, uid := c, prio := 1000000 },
            upd := [("skip_output_rails", .bool false), ("bot_message", v)], ctr := c + 1 } := by
  rw [startOne_start _ _ _ pbmCfg _ _ pbm_elems rfl (by simp [isMatch, WILDCARD]) pbm_flags.2.2.2.1 (by simp [pbm_flags])]
  simp [pbm_elems, pbm_flags, SLIDE_FUEL, slide, sstep, initPrev, pyIndex, find_pbm, SUB_FUEL, slideWithSubflows,
    eval, get_set, ge, hsk, recordNextStep, isActionable, setAt, truthy_bool, set_nil, createSubaBot, hnx, List.set_append,
    set_cons_ne _ _ _ _ _ (show ("bot_message" != "skip_output_rails") = true by decide)]

set_option maxRecDepth 8000 in
/-- the `BotMessage` event carrying the refusal: the rail keeps waiting at `bot stop` (lower priority), `process bot message`
    starts and asks for the utterance -/
theorem TR_bm (hsub : ∀ r ∈ rails, r.isSubflow = true) (σ u : Ctx) (c u0 u1 uc : Nat) (h01 : u0 < u1) (h1c : u1 < uc) (hcc : uc < c)
    (nx : Option NextStep) (nm action : String) (v : V) (gfs : FS) (hg : gfs.status = .completed) (hgf : (Cfgs.find (base ++ rails) gfs.flowId).isSome = true)
    (hfind : Cfgs.find (base ++ rails) nm = some (checkCfg nm action)) (hsk : (σ.get "skip_output_rails").truthy = true) :
    computeNextState true (base ++ rails)
      { ctx := σ, flows := [railFS uc nm 3, fsRIRint u1 uc, fsPUIint u0 u1, gfs], next := nx, upd := u, ctr := c } (.other "BotMessage" [("text", v)])
    = .ok { ctx := ((σ.withEvent (.other "BotMessage" [("text", v)])).set "bot_message" v).set "skip_output_rails" (.bool false),
            flows := [railFS uc nm 3, fsRIRint u1 uc, fsPUIint u0 u1, { uid := c, flowId := "process bot message", head := 12 }],
            next := some { elem := createSubaBot, uid := c, prio := 1000000 },
            upd := [("skip_output_rails", .bool false), ("bot_message", v)], ctr := c + 1 } := by
  obtain ⟨b1, b2, b3, b4, b5, b6⟩ := uid3 u0 u1 uc h01 h1c
  obtain ⟨c1, c2, c3, c4, c5, c6⟩ := uid4 u0 u1 uc c h01 h1c hcc
  obtain ⟨gcfg, hgc⟩ := Option.isSome_iff_exists.mp hgf
  have g0 := get_withEvent_plain σ (.other "BotMessage" [("text", v)]) "skip_output_rails" (by plain_tac)
  have ge : (σ.withEvent (.other "BotMessage" [("text", v)])).get "event.text" = v := by
    simp [Ctx.withEvent, Event.props, Ctx.get, List.lookup]
  have hstart : ∀ (σ' : Ctx) (fl : List FS) (nx : NextStep), nx.prio < 1000000 → (σ'.get "skip_output_rails").truthy = true → σ'.get "event.text" = v →
      startNew true (base ++ rails) (.other "BotMessage" [("text", v)]) (base ++ rails) { ctx := σ', flows := fl, next := some nx, upd := [], ctr := c }
      = .ok { ctx := (σ'.set "bot_message" v).set "skip_output_rails" (.bool false), flows := fl ++ [{ uid := c, flowId := "process bot message", head := 12 }], next := some { elem := createSubaBot, uid := c, prio := 1000000 }, upd := [("skip_output_rails", .bool false), ("bot_message", v)], ctr := c + 1 } := by
    intro σ' fl nx hnx hs he
    rw [startNew_rails rails hsub, startNew_base_eq]
    simp only [startOne_pui_no _ _ _ (show isMatch el0pui (.other "BotMessage" [("text", v)]) = false from rfl),
      startOne_rdr_no _ _ _ (show isMatch el0rdr (.other "BotMessage" [("text", v)]) = false from rfl),
      startOne_gns_no _ _ _ (show isMatch el0gns (.other "BotMessage" [("text", v)]) = false from rfl),
      startOne_gbm_no _ _ _ (show isMatch el0gbm (.other "BotMessage" [("text", v)]) = false from rfl), S_pbm_skip rails σ' c v fl nx hnx hs he]
  cns_simp [hstart, hfind, hgc, hg, checkCfg, railFS, fsRIRint, fsPUIint, utterRefuse, utterStop, createSubaBot, WILDCARD, g0, ge, hsk,
    b1, b2, b3, b4, b5, b6, c1, c2, c3, c4, c5, c6]


set_option maxRecDepth 8000 in
/-- the utterance's `create event` finished: `process bot message` completes (an extension flow), the rail — aborted by
    the non-matching event — is re-activated and asks for `bot stop` again -/
theorem TR_ce (hsub : ∀ r ∈ rails, r.isSubflow = true) (σ u : Ctx) (c u0 u1 uc up : Nat) (h01 : u0 < u1) (h1c : u1 < uc) (hcc : uc < up)
    (nx : Option NextStep) (nm action : String)
    (hfind : Cfgs.find (base ++ rails) nm = some (checkCfg nm action)) :
    computeNextState true (base ++ rails)
      { ctx := σ, flows := [railFS uc nm 3, fsRIRint u1 uc, fsPUIint u0 u1, { uid := up, flowId := "process bot message", head := 12 }],
        next := nx, upd := u, ctr := c } (.actionFinished "create_event" true)
    = .ok { ctx := σ.withEvent (.actionFinished "create_event" true),
            flows := [railFS uc nm 3, fsRIRint u1 uc, fsPUIint u0 u1, { uid := up, flowId := "process bot message", head := -13, status := .completed }],
            next := some { elem := utterStop, uid := uc, prio := 10000 }, upd := [], ctr := c } := by
  obtain ⟨b1, b2, b3, b4, b5, b6⟩ := uid3 u0 u1 uc h01 h1c
  obtain ⟨c1, c2, c3, c4, c5, c6⟩ := uid4 u0 u1 uc up h01 h1c hcc
  cns_simp [startNew_quiet rails hsub _ quiet_ce, hfind, checkCfg, railFS, fsRIRint, fsPUIint, utterRefuse, utterStop, createSubaBot, WILDCARD,
    b1, b2, b3, b4, b5, b6, c1, c2, c3, c4, c5, c6]

set_option maxRecDepth 8000 in
/-- the `StartUtteranceBotAction` event: the rail still waits at `bot stop` (now the only candidate) -/
theorem TR_suba (hsub : ∀ r ∈ rails, r.isSubflow = true) (σ u : Ctx) (c u0 u1 uc : Nat) (h01 : u0 < u1) (h1c : u1 < uc)
    (nx : Option NextStep) (nm action : String) (v : V) (gfs : FS) (hg : gfs.status = .completed) (hgf : (Cfgs.find (base ++ rails) gfs.flowId).isSome = true)
    (hfind : Cfgs.find (base ++ rails) nm = some (checkCfg nm action)) :
    computeNextState true (base ++ rails)
      { ctx := σ, flows := [railFS uc nm 3, fsRIRint u1 uc, fsPUIint u0 u1, gfs], next := nx, upd := u, ctr := c }
      (.other "StartUtteranceBotAction" [("script", v)])
    = .ok { ctx := σ.withEvent (.other "StartUtteranceBotAction" [("script", v)]),
            flows := [railFS uc nm 3, fsRIRint u1 uc, fsPUIint u0 u1],
            next := some { elem := utterStop, uid := uc, prio := 9000 }, upd := [], ctr := c } := by
  obtain ⟨b1, b2, b3, b4, b5, b6⟩ := uid3 u0 u1 uc h01 h1c
  obtain ⟨gcfg, hgc⟩ := Option.isSome_iff_exists.mp hgf
  cns_simp [startNew_quiet rails hsub _ (quiet_suba v), hfind, hgc, hg, checkCfg, railFS, fsRIRint, fsPUIint, utterRefuse, utterStop, WILDCARD,
    b1, b2, b3, b4, b5, b6]

set_option maxRecDepth 8000 in
/-- `bot stop`: the interpreter accepts the event (the rail completes, `run input rails` resumes, `generate bot message`
    starts on the intent …) — the runtime then discards all flow states and ends the turn -/
theorem TR_stop (hsub : ∀ r ∈ rails, r.isSubflow = true) (σ u : Ctx) (c u0 u1 uc : Nat) (h01 : u0 < u1) (h1c : u1 < uc) (hcc : uc < c)
    (nx : Option NextStep) (nm action : String) (k : Nat) (hi : σ.get "i" = .int k)
    (hfind : Cfgs.find (base ++ rails) nm = some (checkCfg nm action)) :
    (match computeNextState true (base ++ rails)
      { ctx := σ, flows := [railFS uc nm 3, fsRIRint u1 uc, fsPUIint u0 u1], next := nx, upd := u, ctr := c } (.botIntent "stop") with
     | .ok _ => true | .error _ => false) = true := by
  obtain ⟨b1, b2, b3, b4, b5, b6⟩ := uid3 u0 u1 uc h01 h1c
  obtain ⟨c1, c2, c3, c4, c5, c6⟩ := uid4 u0 u1 uc c h01 h1c hcc
  have gi := get_withEvent_plain σ (.botIntent "stop") "i" (by plain_tac)
  cns_simp [startNew_botIntent_none rails hsub, hfind, checkCfg, railFS, fsRIRint, fsPUIint, fsRIR, utterRefuse, utterStop, rrcAction, createRailFinished, WILDCARD, gi, hi, V.num?,
    b1, b2, b3, b4, b5, b6, c1, c2, c3, c4, c5, c6]


/-! ### the same with the output frames -/

set_option maxRecDepth 8000 in
/-- the check rail's action answered `False`: `if not $allowed` is taken, the rail asks for `bot refuse to respond` -/
theorem TRO_reject (hsub : ∀ r ∈ rails, r.isSubflow = true) (σ u : Ctx) (c u0 u1 uc : Nat) (h01 : u0 < u1) (h1c : u1 < uc) (nx : Option NextStep) (nm action : String)
    (hal : σ.get "allowed" = .bool false) (hfind : Cfgs.find (base ++ rails) nm = some (checkCfg nm action)) (hact : action ≠ "utter") :
    computeNextState true (base ++ rails)
      { ctx := σ, flows := [railFS uc nm 0, fsRORint u1 uc, fsPBMint u0 u1], next := nx, upd := u, ctr := c } (.actionFinished action true)
    = .ok { ctx := σ.withEvent (.actionFinished action true), flows := [railFS uc nm 2, fsRORint u1 uc, fsPBMint u0 u1],
            next := some { elem := utterRefuse, uid := uc, prio := 10000 }, upd := [], ctr := c } := by
  have hq : Quiet (.actionFinished action true) = true := by
    show (action != "utter") = true
    exact bne_iff_ne.mpr hact
  have ga := get_withEvent_plain σ (.actionFinished action true) "allowed" (by plain_tac)
  have b1 : (uc == u1) = false := beq_false_of_ne (by omega)
  have b2 : (u1 == uc) = false := beq_false_of_ne (by omega)
  have b3 : (uc == u0) = false := beq_false_of_ne (by omega)
  have b4 : (u0 == uc) = false := beq_false_of_ne (by omega)
  have b5 : (u0 == u1) = false := beq_false_of_ne (by omega)
  have b6 : (u1 == u0) = false := beq_false_of_ne (by omega)
  cns_simp [startNew_quiet rails hsub _ hq, hfind, checkCfg, railFS, fsRORint, fsPBMint, ga, hal, utterRefuse, utterStop, WILDCARD, b1, b2, b3, b4, b5, b6]







set_option maxRecDepth 8000 in
/-- `bot refuse to respond`: the rail moves on to its `stop`; the extension flow `generate bot message` starts on the bot
    intent and (higher priority) asks for `retrieve_relevant_chunks` -/
theorem TRO_refuse (hsub : ∀ r ∈ rails, r.isSubflow = true) (σ u : Ctx) (c u0 u1 uc : Nat) (h01 : u0 < u1) (h1c : u1 < uc) (hcc : uc < c)
    (nx : Option NextStep) (nm action : String)
    (hfind : Cfgs.find (base ++ rails) nm = some (checkCfg nm action)) :
    computeNextState true (base ++ rails)
      { ctx := σ, flows := [railFS uc nm 2, fsRORint u1 uc, fsPBMint u0 u1], next := nx, upd := u, ctr := c } (.botIntent "refuse to respond")
    = .ok { ctx := σ.withEvent (.botIntent "refuse to respond"),
            flows := [railFS uc nm 3, fsRORint u1 uc, fsPBMint u0 u1, { uid := c, flowId := "generate bot message", head := 1 }],
            next := some { elem := rrcAction, uid := c, prio := 1000000 }, upd := [], ctr := c + 1 } := by
  obtain ⟨b1, b2, b3, b4, b5, b6⟩ := uid3 u0 u1 uc h01 h1c
  obtain ⟨c1, c2, c3, c4, c5, c6⟩ := uid4 u0 u1 uc c h01 h1c hcc
  cns_simp [startNew_botIntent rails hsub, hfind, checkCfg, railFS, fsRORint, fsPBMint, utterRefuse, utterStop, rrcAction, WILDCARD,
    b1, b2, b3, b4, b5, b6, c1, c2, c3, c4, c5, c6]



set_option maxRecDepth 8000 in
/-- `retrieve_relevant_chunks` finished: the rail (waiting at `bot stop`) is aborted and, because the deciding flow is an
    extension flow beyond its first element, re-marked interrupted by it; no retrieval rails are configured, so
    `generate bot message` asks for `generate_bot_message` -/
theorem TRO_rrc (hsub : ∀ r ∈ rails, r.isSubflow = true) (σ u : Ctx) (c u0 u1 uc ug : Nat) (h01 : u0 < u1) (h1c : u1 < uc) (hcc : uc < ug)
    (nx : Option NextStep) (nm action : String)
    (hfind : Cfgs.find (base ++ rails) nm = some (checkCfg nm action)) (hret : σ.get "config.rails.retrieval.flows" = .strs []) :
    computeNextState true (base ++ rails)
      { ctx := σ, flows := [railFS uc nm 3, fsRORint u1 uc, fsPBMint u0 u1, { uid := ug, flowId := "generate bot message", head := 1 }],
        next := nx, upd := u, ctr := c } (.actionFinished "retrieve_relevant_chunks" true)
    = .ok { ctx := σ.withEvent (.actionFinished "retrieve_relevant_chunks" true),
            flows := [railInt uc ug nm, fsRORint u1 uc, fsPBMint u0 u1, { uid := ug, flowId := "generate bot message", head := 5 }],
            next := some { elem := gbmAction, uid := ug, prio := 1000000 }, upd := [], ctr := c } := by
  obtain ⟨b1, b2, b3, b4, b5, b6⟩ := uid3 u0 u1 uc h01 h1c
  obtain ⟨c1, c2, c3, c4, c5, c6⟩ := uid4 u0 u1 uc ug h01 h1c hcc
  have hq : Quiet (.actionFinished "retrieve_relevant_chunks" true) = true := by decide
  have g1 := get_withEvent_plain σ (.actionFinished "retrieve_relevant_chunks" true) "config.rails.retrieval.flows" (by plain_tac)
  have ht : (V.strs []).truthy = false := rfl
  cns_simp [startNew_quiet rails hsub _ hq, hfind, checkCfg, railFS, railInt, fsRORint, fsPBMint, utterRefuse, utterStop, rrcAction, gbmAction, WILDCARD,
    g1, hret, ht, b1, b2, b3, b4, b5, b6, c1, c2, c3, c4, c5, c6]

set_option maxRecDepth 8000 in
/-- `generate_bot_message` finished: the extension flow completes, the rail it had interrupted resumes and asks for `bot stop` -/
theorem TRO_gbm_fin (hsub : ∀ r ∈ rails, r.isSubflow = true) (σ u : Ctx) (c u0 u1 uc ug : Nat) (h01 : u0 < u1) (h1c : u1 < uc) (hcc : uc < ug)
    (nx : Option NextStep) (nm action : String)
    (hfind : Cfgs.find (base ++ rails) nm = some (checkCfg nm action)) :
    computeNextState true (base ++ rails)
      { ctx := σ, flows := [railInt uc ug nm, fsRORint u1 uc, fsPBMint u0 u1, { uid := ug, flowId := "generate bot message", head := 5 }],
        next := nx, upd := u, ctr := c } (.actionFinished "generate_bot_message" true)
    = .ok { ctx := σ.withEvent (.actionFinished "generate_bot_message" true),
            flows := [railFS uc nm 3, fsRORint u1 uc, fsPBMint u0 u1, { uid := ug, flowId := "generate bot message", head := -6, status := .completed }],
            next := some { elem := utterStop, uid := uc, prio := 10000 }, upd := [], ctr := c } := by
  obtain ⟨b1, b2, b3, b4, b5, b6⟩ := uid3 u0 u1 uc h01 h1c
  obtain ⟨c1, c2, c3, c4, c5, c6⟩ := uid4 u0 u1 uc ug h01 h1c hcc
  have hq : Quiet (.actionFinished "generate_bot_message" true) = true := by decide
  cns_simp [startNew_quiet rails hsub _ hq, hfind, checkCfg, railFS, railInt, fsRORint, fsPBMint, utterRefuse, utterStop, rrcAction, gbmAction, WILDCARD,
    b1, b2, b3, b4, b5, b6, c1, c2, c3, c4, c5, c6]



set_option maxRecDepth 8000 in
/-- the `BotMessage` event carrying the refusal: the rail keeps waiting at `bot stop` (lower priority), `process bot message`
    starts and asks for the utterance -/
theorem TRO_bm (hsub : ∀ r ∈ rails, r.isSubflow = true) (σ u : Ctx) (c u0 u1 uc : Nat) (h01 : u0 < u1) (h1c : u1 < uc) (hcc : uc < c)
    (nx : Option NextStep) (nm action : String) (v : V) (gfs : FS) (hg : gfs.status = .completed) (hgf : (Cfgs.find (base ++ rails) gfs.flowId).isSome = true)
    (hfind : Cfgs.find (base ++ rails) nm = some (checkCfg nm action)) (hsk : (σ.get "skip_output_rails").truthy = true) :
    computeNextState true (base ++ rails)
      { ctx := σ, flows := [railFS uc nm 3, fsRORint u1 uc, fsPBMint u0 u1, gfs], next := nx, upd := u, ctr := c } (.other "BotMessage" [("text", v)])
    = .ok { ctx := ((σ.withEvent (.other "BotMessage" [("text", v)])).set "bot_message" v).set "skip_output_rails" (.bool false),
            flows := [railFS uc nm 3, fsRORint u1 uc, fsPBMint u0 u1, { uid := c, flowId := "process bot message", head := 12 }],
            next := some { elem := createSubaBot, uid := c, prio := 1000000 },
            upd := [("skip_output_rails", .bool false), ("bot_message", v)], ctr := c + 1 } := by
  obtain ⟨b1, b2, b3, b4, b5, b6⟩ := uid3 u0 u1 uc h01 h1c
  obtain ⟨c1, c2, c3, c4, c5, c6⟩ := uid4 u0 u1 uc c h01 h1c hcc
  obtain ⟨gcfg, hgc⟩ := Option.isSome_iff_exists.mp hgf
  have g0 := get_withEvent_plain σ (.other "BotMessage" [("text", v)]) "skip_output_rails" (by plain_tac)
  have ge : (σ.withEvent (.other "BotMessage" [("text", v)])).get "event.text" = v := by
    simp [Ctx.withEvent, Event.props, Ctx.get, List.lookup]
  have hstart : ∀ (σ' : Ctx) (fl : List FS) (nx : NextStep), nx.prio < 1000000 → (σ'.get "skip_output_rails").truthy = true → σ'.get "event.text" = v →
      startNew true (base ++ rails) (.other "BotMessage" [("text", v)]) (base ++ rails) { ctx := σ', flows := fl, next := some nx, upd := [], ctr := c }
      = .ok { ctx := (σ'.set "bot_message" v).set "skip_output_rails" (.bool false), flows := fl ++ [{ uid := c, flowId := "process bot message", head := 12 }], next := some { elem := createSubaBot, uid := c, prio := 1000000 }, upd := [("skip_output_rails", .bool false), ("bot_message", v)], ctr := c + 1 } := by
    intro σ' fl nx hnx hs he
    rw [startNew_rails rails hsub, startNew_base_eq]
    simp only [startOne_pui_no _ _ _ (show isMatch el0pui (.other "BotMessage" [("text", v)]) = false from rfl),
      startOne_rdr_no _ _ _ (show isMatch el0rdr (.other "BotMessage" [("text", v)]) = false from rfl),
      startOne_gns_no _ _ _ (show isMatch el0gns (.other "BotMessage" [("text", v)]) = false from rfl),
      startOne_gbm_no _ _ _ (show isMatch el0gbm (.other "BotMessage" [("text", v)]) = false from rfl), S_pbm_skip rails σ' c v fl nx hnx hs he]
  cns_simp [hstart, hfind, hgc, hg, checkCfg, railFS, fsRORint, fsPBMint, utterRefuse, utterStop, createSubaBot, WILDCARD, g0, ge, hsk,
    b1, b2, b3, b4, b5, b6, c1, c2, c3, c4, c5, c6]


set_option maxRecDepth 8000 in
/-- the utterance's `create event` finished: `process bot message` completes (an extension flow), the rail — aborted by
    the non-matching event — is re-activated and asks for `bot stop` again -/
theorem TRO_ce (hsub : ∀ r ∈ rails, r.isSubflow = true) (σ u : Ctx) (c u0 u1 uc up : Nat) (h01 : u0 < u1) (h1c : u1 < uc) (hcc : uc < up)
    (nx : Option NextStep) (nm action : String)
    (hfind : Cfgs.find (base ++ rails) nm = some (checkCfg nm action)) :
    computeNextState true (base ++ rails)
      { ctx := σ, flows := [railFS uc nm 3, fsRORint u1 uc, fsPBMint u0 u1, { uid := up, flowId := "process bot message", head := 12 }],
        next := nx, upd := u, ctr := c } (.actionFinished "create_event" true)
    = .ok { ctx := σ.withEvent (.actionFinished "create_event" true),
            flows := [railFS uc nm 3, fsRORint u1 uc, fsPBMint u0 u1, { uid := up, flowId := "process bot message", head := -13, status := .completed }],
            next := some { elem := utterStop, uid := uc, prio := 10000 }, upd := [], ctr := c } := by
  obtain ⟨b1, b2, b3, b4, b5, b6⟩ := uid3 u0 u1 uc h01 h1c
  obtain ⟨c1, c2, c3, c4, c5, c6⟩ := uid4 u0 u1 uc up h01 h1c hcc
  cns_simp [startNew_quiet rails hsub _ quiet_ce, hfind, checkCfg, railFS, fsRORint, fsPBMint, utterRefuse, utterStop, createSubaBot, WILDCARD,
    b1, b2, b3, b4, b5, b6, c1, c2, c3, c4, c5, c6]

set_option maxRecDepth 8000 in
/-- the `StartUtteranceBotAction` event: the rail still waits at `bot stop` (now the only candidate) -/
theorem TRO_suba (hsub : ∀ r ∈ rails, r.isSubflow = true) (σ u : Ctx) (c u0 u1 uc : Nat) (h01 : u0 < u1) (h1c : u1 < uc)
    (nx : Option NextStep) (nm action : String) (v : V) (gfs : FS) (hg : gfs.status = .completed) (hgf : (Cfgs.find (base ++ rails) gfs.flowId).isSome = true)
    (hfind : Cfgs.find (base ++ rails) nm = some (checkCfg nm action)) :
    computeNextState true (base ++ rails)
      { ctx := σ, flows := [railFS uc nm 3, fsRORint u1 uc, fsPBMint u0 u1, gfs], next := nx, upd := u, ctr := c }
      (.other "StartUtteranceBotAction" [("script", v)])
    = .ok { ctx := σ.withEvent (.other "StartUtteranceBotAction" [("script", v)]),
            flows := [railFS uc nm 3, fsRORint u1 uc, fsPBMint u0 u1],
            next := some { elem := utterStop, uid := uc, prio := 9000 }, upd := [], ctr := c } := by
  obtain ⟨b1, b2, b3, b4, b5, b6⟩ := uid3 u0 u1 uc h01 h1c
  obtain ⟨gcfg, hgc⟩ := Option.isSome_iff_exists.mp hgf
  cns_simp [startNew_quiet rails hsub _ (quiet_suba v), hfind, hgc, hg, checkCfg, railFS, fsRORint, fsPBMint, utterRefuse, utterStop, WILDCARD,
    b1, b2, b3, b4, b5, b6]

set_option maxRecDepth 8000 in
/-- `bot stop`: the interpreter accepts the event (the rail completes, `run output rails` resumes, `generate bot message`
    starts on the intent …) — the runtime then discards all flow states and ends the turn -/
theorem TRO_stop (hsub : ∀ r ∈ rails, r.isSubflow = true) (σ u : Ctx) (c u0 u1 uc : Nat) (h01 : u0 < u1) (h1c : u1 < uc) (hcc : uc < c)
    (nx : Option NextStep) (nm action : String) (k : Nat) (hi : σ.get "i" = .int k)
    (hfind : Cfgs.find (base ++ rails) nm = some (checkCfg nm action)) :
    (match computeNextState true (base ++ rails)
      { ctx := σ, flows := [railFS uc nm 3, fsRORint u1 uc, fsPBMint u0 u1], next := nx, upd := u, ctr := c } (.botIntent "stop") with
     | .ok _ => true | .error _ => false) = true := by
  obtain ⟨b1, b2, b3, b4, b5, b6⟩ := uid3 u0 u1 uc h01 h1c
  obtain ⟨c1, c2, c3, c4, c5, c6⟩ := uid4 u0 u1 uc c h01 h1c hcc
  have gi := get_withEvent_plain σ (.botIntent "stop") "i" (by plain_tac)
  cns_simp [startNew_botIntent_none rails hsub, hfind, checkCfg, railFS, fsRORint, fsPBMint, fsROR, utterRefuse, utterStop, rrcAction, createOutRailFinished, WILDCARD, gi, hi, V.num?,
    b1, b2, b3, b4, b5, b6, c1, c2, c3, c4, c5, c6]


end
end NemoVerif.RailsInterp
