/-
  C05, scores side for CHAINS of matches: `head.matching_scores` is a list of matcher scores `prio · (num/den)^k`
  (`MScore`, one per match since the external event); `_resolve_action_conflicts` compares the lists padded with the perfect
  score 1.0 from left to right.  Here: the exact (integer cross-multiplied) lexicographic order of padded chains and its
  equivalence with `lexLe` on the ranks the model works with.
-/
import NemoVerif.Lemmas.Conflict

namespace NemoVerif.Conflict
open List

/-- exact equality of two scores -/
def meq (num den : Nat) (a b : MScore) : Prop := ¬ mlt num den a b ∧ ¬ mlt num den b a

/-- `chain + [1.0] * (n - len(chain))` on exact scores -/
def padM (n : Nat) (v : List MScore) : List MScore := v ++ replicate (n - v.length) MScore.perfect

/-- exact strict lexicographic order of two chains (of equal length): the first position where they differ decides -/
def chainLt (num den : Nat) : List MScore → List MScore → Prop
  | a :: as, b :: bs => mlt num den a b ∨ (meq num den a b ∧ chainLt num den as bs)
  | _, _ => False

instance chainLtDec (num den : Nat) : ∀ X Y : List MScore, Decidable (chainLt num den X Y)
  | [], _ => isFalse (by simp [chainLt])
  | _ :: _, [] => isFalse (by simp [chainLt])
  | a :: as, b :: bs => by
    unfold chainLt meq
    have := chainLtDec num den as bs
    infer_instance

theorem padM_length (n : Nat) (v : List MScore) (h : v.length ≤ n) : (padM n v).length = n := by
  simp [padM]; omega

theorem padTo_map (r : MScore → Int) (n : Nat) (v : List MScore) :
    padTo (r MScore.perfect) n (v.map r) = (padM n v).map r := by
  simp [padTo, padM]

/-- on ranks that reflect the exact order of the scores that occur (`S`), Python's list comparison of the padded vectors IS
    the exact chain order -/
theorem lexLe_iff_not_chainLt (num den : Nat) (S : List MScore) (r : MScore → Int)
    (hr : ∀ x ∈ S, ∀ y ∈ S, (mlt num den x y ↔ r x < r y)) :
    ∀ (X Y : List MScore), X.length = Y.length → (∀ x ∈ X, x ∈ S) → (∀ y ∈ Y, y ∈ S) →
      (lexLe (Y.map r) (X.map r) = true ↔ ¬ chainLt num den X Y)
  | [], [], _, _, _ => by simp [lexLe, chainLt]
  | [], _ :: _, h, _, _ => by simp at h
  | _ :: _, [], h, _, _ => by simp at h
  | x :: xs, y :: ys, h, hX, hY => by
    have ih := lexLe_iff_not_chainLt num den S r hr xs ys (by simpa using h)
      (fun a ha => hX a (mem_cons_of_mem _ ha)) (fun a ha => hY a (mem_cons_of_mem _ ha))
    have hx := hX x mem_cons_self
    have hy := hY y mem_cons_self
    simp only [map_cons, lexLe, chainLt, meq, hr x hx y hy, hr y hy x hx]
    by_cases h1 : r y < r x
    · simp [h1]; omega
    · by_cases h2 : r x < r y
      · simp [h1, h2]
      · simp only [h1, h2, if_false, ih, not_false_eq_true, and_self, true_and, false_or]

theorem mem_padM {n : Nat} {v : List MScore} {S : List MScore} (hp : MScore.perfect ∈ S) (hv : ∀ x ∈ v, x ∈ S) :
    ∀ x ∈ padM n v, x ∈ S := by
  intro x hx
  simp only [padM, mem_append, mem_replicate] at hx
  rcases hx with h | h
  · exact hv x h
  · rw [h.2]; exact hp

/-- the first position (padded entries `getD … perfect` included) where two chains differ decides -/
theorem chainLt_of_first_diff (num den : Nat) : ∀ (i : Nat) (X Y : List MScore), X.length = Y.length → i < X.length →
    (∀ j, j < i → meq num den (X.getD j MScore.perfect) (Y.getD j MScore.perfect)) →
    mlt num den (X.getD i MScore.perfect) (Y.getD i MScore.perfect) → chainLt num den X Y
  | _, [], _, _, hi, _, _ => by simp at hi
  | _, _ :: _, [], h, _, _, _ => by simp at h
  | 0, x :: xs, y :: ys, _, _, _, hlt => by
    simp only [getD_cons_zero] at hlt
    exact Or.inl hlt
  | i + 1, x :: xs, y :: ys, h, hi, hpre, hlt => by
    refine Or.inr ⟨by simpa using hpre 0 (Nat.succ_pos i), ?_⟩
    refine chainLt_of_first_diff num den i xs ys (by simpa using h) (by simpa using hi) (fun j hj => ?_) (by simpa using hlt)
    simpa using hpre (j + 1) (Nat.succ_lt_succ hj)

theorem getD_padM (n : Nat) (v : List MScore) (j : Nat) : (padM n v).getD j MScore.perfect = v.getD j MScore.perfect := by
  unfold padM
  by_cases h : j < v.length
  · simp [getD_eq_getElem?_getD, getElem?_append_left h]
  · have h' : v.length ≤ j := Nat.le_of_not_lt h
    simp only [getD_eq_getElem?_getD, getElem?_append_right h', getElem?_replicate]
    have : v[j]? = none := getElem?_eq_none h'
    rw [this]
    split <;> rfl

end NemoVerif.Conflict
