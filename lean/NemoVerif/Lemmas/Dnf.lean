/-
  Helper lemmas for C07 (core Lean only).
-/
import NemoVerif.Models.Dnf
namespace NemoVerif.Dnf

/-! ### `normalize` computes the reference DNF -/

theorem atomsOf_map_atom (c : List Nat) : atomsOf (c.map G.atom) = c := by
  induction c with
  | nil => rfl
  | cons a c ih => simp [atomsOf, ih]

theorem toDnf_ofDnf (d : Clauses) : toDnf (ofDnf d) = d := by
  simp only [toDnf, ofDnf, G.elems, List.map_map]
  induction d with
  | nil => rfl
  | cons c d ih =>
    simp only [List.map_cons, Function.comp_apply, andOf, atomsOf_map_atom, List.cons.injEq, true_and]
    exact ih

theorem flattenOrList_ands (d : Clauses) : flattenOrList (d.map andOf) = d.map andOf := by
  induction d with
  | nil => rfl
  | cons c d ih => simp [andOf, flattenOrList, ih]

theorem flattenOrList_append_ands (d : Clauses) (rest : List G) :
    flattenOrList (d.map andOf ++ rest) = d.map andOf ++ flattenOrList rest := by
  induction d with
  | nil => rfl
  | cons c d ih => simp [andOf, flattenOrList, ih]

theorem distribute_eq (rs cs : Clauses) :
    distribute (rs.map andOf) (cs.map andOf) = (distributeC rs cs).map andOf := by
  simp only [distribute, distributeC, List.flatMap_map, List.map_flatMap, List.map_map]
  congr 1
  funext r
  congr 1
  funext c
  simp [andOf, G.elems]

mutual
theorem normalize_eq : ∀ g : G, normalize g = ofDnf (dnf g)
  | .atom n => by
    simp [normalize, dnf, flattenOr, distribute, ofDnf, andOf, G.elems, flattenOrList]
  | .or gs => by
    simp only [normalize, dnf, flattenOr, ofDnf, normOrElems_eq gs]
  | .and gs => by
    have h := normAndElems_eq gs [[]]
    simp only [List.map_cons, List.map_nil, andOf] at h
    simp only [normalize, dnf, flattenOr, ofDnf, h]
    rw [flattenOrList_ands]
theorem normOrElems_eq : ∀ gs : List G, flattenOrList (normOrElems gs) = (dnfOr gs).map andOf
  | [] => rfl
  | .atom n :: rest => by
    simp [normOrElems, flattenOrList, dnfOr, dnf, andOf, normOrElems_eq rest]
  | .and gs :: rest => by
    have h := normalize_eq (.and gs)
    simp only [normOrElems, dnfOr, h, ofDnf, flattenOrList, normOrElems_eq rest, List.map_append]
  | .or gs :: rest => by
    have h := normalize_eq (.or gs)
    simp only [normOrElems, dnfOr, h, ofDnf, flattenOrList, normOrElems_eq rest, List.map_append]
theorem normAndElems_eq : ∀ (gs : List G) (rs : Clauses),
    normAndElems gs (rs.map andOf) = (dnfAnd gs rs).map andOf
  | [], rs => rfl
  | .atom n :: rest, rs => by
    have h := distribute_eq rs [[n]]
    simp only [List.map_cons, List.map_nil, andOf] at h
    simp only [normAndElems, dnfAnd, dnf]
    rw [← normAndElems_eq rest]
    simp only [h]
  | .and gs :: rest, rs => by
    simp only [normAndElems, dnfAnd, normalize_eq (.and gs), ofDnf, G.elems, distribute_eq,
      normAndElems_eq rest]
  | .or gs :: rest, rs => by
    simp only [normAndElems, dnfAnd, normalize_eq (.or gs), ofDnf, G.elems, distribute_eq,
      normAndElems_eq rest]
end

/-! ### evaluation of the reference DNF -/

theorem evalDnf_append (a b : Clauses) (σ : Nat → Bool) :
    evalDnf (a ++ b) σ = (evalDnf a σ || evalDnf b σ) := by
  simp [evalDnf]

theorem evalDnf_map_append (r : List Nat) (cs : Clauses) (σ : Nat → Bool) :
    evalDnf (cs.map fun c => r ++ c) σ = (r.all σ && evalDnf cs σ) := by
  induction cs with
  | nil => simp [evalDnf]
  | cons c cs ih =>
    simp only [evalDnf, List.map_cons, List.any_cons, List.all_append] at ih ⊢
    rw [ih]
    cases r.all σ <;> simp

theorem evalDnf_distributeC (rs cs : Clauses) (σ : Nat → Bool) :
    evalDnf (distributeC rs cs) σ = (evalDnf rs σ && evalDnf cs σ) := by
  induction rs with
  | nil => simp [distributeC, evalDnf]
  | cons r rs ih =>
    have : distributeC (r :: rs) cs = (cs.map fun c => r ++ c) ++ distributeC rs cs := by
      simp [distributeC]
    rw [this, evalDnf_append, ih, evalDnf_map_append]
    simp only [evalDnf, List.any_cons]
    cases r.all σ <;> simp

mutual
theorem evalDnf_dnf (σ : Nat → Bool) : ∀ g : G, evalDnf (dnf g) σ = eval σ g
  | .atom n => by simp [dnf, evalDnf, eval]
  | .or gs => by simp only [dnf, eval, evalDnf_dnfOr σ gs]
  | .and gs => by
    simp only [dnf, eval, evalDnf_dnfAnd σ gs [[]]]
    simp [evalDnf]
theorem evalDnf_dnfOr (σ : Nat → Bool) : ∀ gs : List G, evalDnf (dnfOr gs) σ = evalAny σ gs
  | [] => by simp [dnfOr, evalDnf, evalAny]
  | g :: rest => by
    simp only [dnfOr, evalAny, evalDnf_append, evalDnf_dnf σ g, evalDnf_dnfOr σ rest]
theorem evalDnf_dnfAnd (σ : Nat → Bool) : ∀ (gs : List G) (rs : Clauses),
    evalDnf (dnfAnd gs rs) σ = (evalDnf rs σ && evalAll σ gs)
  | [], rs => by simp [dnfAnd, evalAll]
  | g :: rest, rs => by
    simp only [dnfAnd, evalAll, evalDnf_dnfAnd σ rest, evalDnf_distributeC, evalDnf_dnf σ g, Bool.and_assoc]
end

theorem evalDnf_mono (d : Clauses) (σ τ : Nat → Bool) (h : ∀ n, σ n = true → τ n = true)
    (hs : evalDnf d σ = true) : evalDnf d τ = true := by
  simp only [evalDnf, List.any_eq_true, List.all_eq_true] at hs ⊢
  obtain ⟨c, hc, hall⟩ := hs
  exact ⟨c, hc, fun a ha => h a (hall a ha)⟩

/-! ### the run-time abstraction -/

/-- satisfied by the set of the events in `P` -/
def sat (d : Clauses) (P : List Nat) : Bool := evalDnf d fun n => P.contains n

/-- atoms of a clause not yet received -/
def remaining (P : List Nat) (c : List Nat) : List Nat := c.filter fun a => !P.contains a

theorem remaining_nil (c : List Nat) : remaining [] c = c := by
  simp [remaining]

theorem stepBranch_remaining (e : Nat) (P c : List Nat) :
    stepBranch e (remaining P c) = remaining (P ++ [e]) c := by
  simp only [stepBranch, remaining, List.filter_filter]
  congr 1
  funext a
  simp only [List.contains_append, List.contains_cons, List.contains_nil, Bool.or_false, Bool.not_or]
  rw [Bool.and_comm]
  rfl

theorem remaining_isEmpty (P c : List Nat) :
    (remaining P c).isEmpty = c.all fun n => P.contains n := by
  induction c with
  | nil => rfl
  | cons a c ih =>
    simp only [remaining, List.filter_cons, List.all_cons] at ih ⊢
    cases h : P.contains a
    · simp
    · simpa using ih

theorem any_isEmpty_remaining (d : Clauses) (P : List Nat) :
    ((d.map (remaining P)).any List.isEmpty) = sat d P := by
  simp only [sat, evalDnf, List.any_map]
  congr 1
  funext c
  exact remaining_isEmpty P c

theorem map_stepBranch_remaining (e : Nat) (P : List Nat) (d : Clauses) :
    (d.map (remaining P)).map (stepBranch e) = d.map (remaining (P ++ [e])) := by
  simp only [List.map_map]
  congr 1
  funext c
  exact stepBranch_remaining e P c

theorem run_done (bs : Clauses) (es : List Nat) (k : Nat) :
    (run { branches := bs, done := true } es)[k]? ≠ some true := by
  induction es generalizing k with
  | nil => simp [run]
  | cons e es ih =>
    cases k with
    | zero => simp [run, step]
    | succ k => simpa [run, step] using ih k

/-- Invariant form of the run-time theorem: started after the events `P` (none of whose prefixes
    completed the group), the marker is emitted at index `k` of `es` iff `P ++ es[0..k]` is the first
    satisfying prefix. -/
theorem run_spec (d : Clauses) (es : List Nat) : ∀ (P : List Nat) (k : Nat),
    (run { branches := d.map (remaining P), done := false } es)[k]? = some true ↔
      (k < es.length ∧ sat d (P ++ es.take (k + 1)) = true ∧ ∀ j, j < k → sat d (P ++ es.take (j + 1)) = false) := by
  induction es with
  | nil => intro P k; simp [run]
  | cons e es ih =>
    intro P k
    have hstep : (d.map (remaining P)).map (stepBranch e) = d.map (remaining (P ++ [e])) :=
      map_stepBranch_remaining e P d
    have hany := any_isEmpty_remaining d (P ++ [e])
    cases k with
    | zero =>
      simp only [run, step, hstep, hany, Bool.false_eq_true, if_false]
      cases hs : sat d (P ++ [e]) <;> simp [hs]
    | succ k =>
      simp only [run, step, hstep, hany, Bool.false_eq_true, if_false]
      cases hs : sat d (P ++ [e]) with
      | true =>
        simp only [if_true, List.getElem?_cons_succ]
        constructor
        · intro h; exact absurd h (run_done _ _ _)
        · rintro ⟨_, _, hall⟩
          have := hall 0 (Nat.succ_pos k)
          simp [hs] at this
      | false =>
        simp only [Bool.false_eq_true, if_false, List.getElem?_cons_succ]
        rw [ih (P ++ [e]) k]
        have happ : ∀ j, P ++ (e :: es).take (j + 1 + 1) = (P ++ [e]) ++ es.take (j + 1) := by
          intro j; simp
        constructor
        · rintro ⟨hk, hsat, hall⟩
          refine ⟨by simpa using hk, by rw [happ]; exact hsat, ?_⟩
          intro j hj
          cases j with
          | zero => simpa using hs
          | succ j => rw [happ]; exact hall j (Nat.lt_of_succ_lt_succ hj)
        · rintro ⟨hk, hsat, hall⟩
          refine ⟨by simpa using hk, by rw [← happ]; exact hsat, ?_⟩
          intro j hj
          rw [← happ]; exact hall (j + 1) (Nat.succ_lt_succ hj)

/-! ### groups without empty `and` have no empty clause -/

theorem distributeC_nonempty (rs cs : Clauses) (hc : ∀ c ∈ cs, c ≠ []) : ∀ x ∈ distributeC rs cs, x ≠ [] := by
  intro x hx
  simp only [distributeC, List.mem_flatMap, List.mem_map] at hx
  obtain ⟨r, _, c, hc', rfl⟩ := hx
  intro h
  have := (List.append_eq_nil_iff.1 h).2
  exact hc c hc' this

mutual
theorem dnf_nonempty : ∀ g : G, g.noEmptyAnd = true → ∀ c ∈ dnf g, c ≠ []
  | .atom n, _ => by simp [dnf]
  | .or gs, h => by
    simp only [G.noEmptyAnd] at h
    simp only [dnf]
    exact dnfOr_nonempty gs h
  | .and gs, h => by
    simp only [G.noEmptyAnd, Bool.and_eq_true, Bool.not_eq_true', List.isEmpty_eq_false_iff] at h
    simp only [dnf]
    exact dnfAnd_nonempty gs [[]] h.2 (Or.inl h.1)
theorem dnfOr_nonempty : ∀ gs : List G, G.noEmptyAndAll gs = true → ∀ c ∈ dnfOr gs, c ≠ []
  | [], _ => by simp [dnfOr]
  | g :: rest, h => by
    simp only [G.noEmptyAndAll, Bool.and_eq_true] at h
    intro c hc
    simp only [dnfOr, List.mem_append] at hc
    rcases hc with hc | hc
    · exact dnf_nonempty g h.1 c hc
    · exact dnfOr_nonempty rest h.2 c hc
theorem dnfAnd_nonempty : ∀ (gs : List G) (rs : Clauses), G.noEmptyAndAll gs = true →
    (gs ≠ [] ∨ ∀ r ∈ rs, r ≠ []) → ∀ c ∈ dnfAnd gs rs, c ≠ []
  | [], rs, _, h => by
    rcases h with h | h
    · exact absurd rfl h
    · simpa [dnfAnd] using h
  | g :: rest, rs, hw, _ => by
    simp only [G.noEmptyAndAll, Bool.and_eq_true] at hw
    simp only [dnfAnd]
    exact dnfAnd_nonempty rest _ hw.2 (Or.inr (distributeC_nonempty rs (dnf g) (dnf_nonempty g hw.1)))
end

theorem toDnf_normalize_nonempty (g : G) (h : g.noEmptyAnd = true) : ∀ c ∈ toDnf (normalize g), c ≠ [] := by
  rw [normalize_eq, toDnf_ofDnf]
  exact dnf_nonempty g h

/-! ### small facts used by the property theorems -/

theorem dnfAnd_atoms (c : List Nat) : ∀ r : List Nat, dnfAnd (c.map G.atom) [r] = [r ++ c] := by
  induction c with
  | nil => intro r; simp [dnfAnd]
  | cons a c ih =>
    intro r
    simp only [List.map_cons, dnfAnd, dnf, distributeC, List.flatMap_cons, List.flatMap_nil, List.map_cons,
      List.map_nil, List.append_nil]
    rw [ih]
    simp

mutual
theorem eval_ofDnf_aux (σ : Nat → Bool) : ∀ c : List Nat, evalAll σ (c.map G.atom) = c.all σ
  | [] => rfl
  | a :: c => by simp [evalAll, eval, eval_ofDnf_aux σ c]
end

theorem eval_ofDnf (σ : Nat → Bool) (d : Clauses) : eval σ (ofDnf d) = evalDnf d σ := by
  simp only [ofDnf, eval]
  induction d with
  | nil => rfl
  | cons c d ih =>
    simp only [List.map_cons, evalAny, andOf, eval, eval_ofDnf_aux, ih, evalDnf, List.any_cons]

/-- least-index principle for decidable predicates on `Nat` -/
theorem exists_least (p : Nat → Bool) : ∀ n, p n = true → ∃ k, k ≤ n ∧ p k = true ∧ ∀ j, j < k → p j = false := by
  intro n
  induction n using Nat.strongRecOn with
  | _ n ih =>
    intro hn
    by_cases h : ∃ j, j < n ∧ p j = true
    · obtain ⟨j, hj, hpj⟩ := h
      obtain ⟨k, hk, hpk, hall⟩ := ih j hj hpj
      exact ⟨k, Nat.le_trans hk (Nat.le_of_lt hj), hpk, hall⟩
    · refine ⟨n, Nat.le_refl n, hn, ?_⟩
      intro j hj
      cases hp : p j
      · rfl
      · exact absurd ⟨j, hj, hp⟩ h

end NemoVerif.Dnf
