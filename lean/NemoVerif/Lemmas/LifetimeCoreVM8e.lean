/-
  C06 / refinement CoreVM → Lifetime, part 8e: `_start_flow` (run by `_handle_event_matching` when the head of a created instance
  matches its `StartFlow` event): the link of the instance to its parent IS `linkInst` on the abstraction.
-/
import NemoVerif.Lemmas.LifetimeCoreVM8d
namespace NemoVerif.Lifetime.Refine
open NemoVerif NemoVerif.CoreVM NemoVerif.CoreIndex NemoVerif.Lifetime

/-- the end of `CoreVM.startFlow`: loop id / activation count, positional parameters -/
def vmStartTail (f : FUid) (evArgs : List (String × Val)) (loopId : Option String) (activated : Int) : M Unit := do
  modInstX f fun x => { x with loopId := loopId, activated := activated }
  -- resolve positional flow parameters
  let x ← getInstX f
  let mut lastIdx : Int := -1
  let mut idx : Nat := 0
  for (argName, _) in x.arguments do
    lastIdx := idx
    match lookupArg s!"${idx}" evArgs with
    | some v => setCtxVar f (flowParamName argName) v
    | none => break
    idx := idx + 1
  if (lookupArg s!"${lastIdx + 1}" evArgs).isSome then
    pyRaise "ColangRuntimeError" s!"To many parameters provided in start of flow '{x.flowId}'"

/-- `CoreVM.startFlow` with its end as a function of its own -/
def vmStartFlow (f : FUid) (evArgs : List (String × Val)) : M Unit := do
  let r ← getRest
  if r.mainUid ≠ some f then
    let parent ← argStr evArgs "source_flow_instance_uid"
    let px ← getInstX parent
    modInstX f fun x => { x with parentUid := some parent }
    modInstX parent fun x => { x with childFlowUids := x.childFlowUids ++ [f] }
    let sh ← match lookupArg "source_head_uid" evArgs with
      | some (.str s) => pure (some s)
      | some .none => pure none
      | some _ => unsupported "non-string source_head_uid"
      | none => pyRaise "KeyError" "source_head_uid"
    modInstX f fun x => { x with parentHeadUid := sh }
    let cfg ← cfgOfInst f
    let loopId ← match cfg.loopId with
      | some "NEW" => do pure (some (← freshUid))
      | some l => pure (some l)
      | none => pure px.loopId
    let activated ← match lookupArg "activated" evArgs with
      | some (.bool true) => pure (1 : Int)
      | some (.bool false) => pure 0
      | some (.int n) => pure n
      | some .none => unsupported "activated=None"
      | some _ => unsupported "non-integer activated"
      | none => pure 0
    vmStartTail f evArgs loopId activated

theorem startFlow_eq (f : FUid) (evArgs : List (String × Val)) : startFlow f evArgs = vmStartFlow f evArgs := by
  unfold startFlow vmStartFlow vmStartTail
  rfl


variable (ν φ : String → Nat)

theorem lookup_vmMod (vm : VM) (f k : FUid) (g : InstX → InstX) :
    OMap.lookup k (vmMod vm f g).r.fx = if k = f then (OMap.lookup k vm.r.fx).map g else OMap.lookup k vm.r.fx :=
  lookup_modify f k g vm.r.fx

theorem vmStartTail_frame (hν : Function.Injective ν) (f : FUid) (args : List (String × Val)) (loopId : Option String) (n : Int)
    (vmK vm' : VM) (hw : WF vmK) (hn0 : 0 ≤ n) (xk : InstX) (hx : OMap.lookup f vmK.r.fx = some xk) (hargs : xk.arguments = [])
    (h : vmStartTail f args loopId n vmK = .ok () vm') :
    absVM ν φ vm' = modFlow (absVM ν φ vmK) (ν f) (fun fl => { fl with activated := n.toNat }) ∧ WF vm' := by
  unfold vmStartTail at h
  simp only [bind, EStateM.bind, modInstX_run] at h
  have hl : OMap.lookup f (vmMod vmK f fun x => { x with loopId := loopId, activated := n }).r.fx =
      some { xk with loopId := loopId, activated := n } := by
    rw [lookup_vmMod, if_pos rfl, hx]; rfl
  rw [getInstX_run_some f _ _ hl] at h
  simp only [hargs, List.forIn_nil, pure, EStateM.pure] at h
  split at h
  · cases h
  · cases h
    refine ⟨?_, hw.vmMod f _ (fun _ _ => hn0)⟩
    exact absVM_vmMod ν φ hν vmK f _ (fun fl => { fl with activated := n.toNat }) (fun u x => rfl)


/-- **`_start_flow` IS `linkInst`** for a `StartFlow` event as `flowStartEvent` builds it (`activated` an int ≥ 0, `source_head_uid` a
    string or None) and a flow without parameters (no positional arguments to resolve) -/
theorem corevm_startFlow_is_link (hν : Function.Injective ν) (f : FUid) (args : List (String × Val)) (vm vm' : VM) (n : Int)
    (parent : String) (osh : Option String) (hm : vm.r.mainUid ≠ some f)
    (hact : lookupArg "activated" args = some (.int n)) (hn0 : 0 ≤ n)
    (hsh : lookupArg "source_head_uid" args = some (optStrVal osh))
    (hsrc : lookupArg "source_flow_instance_uid" args = some (.str parent))
    (hw : WF vm) (hfp : f ≠ parent) (hnoargs : ∀ x, OMap.lookup f vm.r.fx = some x → x.arguments = [])
    (hrun : startFlow f args vm = .ok () vm') :
    (∃ x px, OMap.lookup f vm.r.fx = some x ∧ OMap.lookup parent vm.r.fx = some px) ∧
      absVM ν φ vm' = linkInst (absVM ν φ vm) (ν f) (ν parent) n.toNat ∧ WF vm' := by
  rw [startFlow_eq] at hrun
  unfold vmStartFlow at hrun
  simp only [bind, EStateM.bind] at hrun
  have hgr : getRest vm = .ok vm.r vm := rfl
  rw [hgr] at hrun
  have ha2 : ∀ s : VM, argStr args "source_flow_instance_uid" s = .ok parent s := by intro s; unfold argStr; rw [hsrc]; rfl
  simp only [hm, ne_eq, not_false_eq_true, if_true, hact, hsh, ha2, EStateM.bind, modInstX_run] at hrun
  cases hpx : OMap.lookup parent vm.r.fx with
  | none => rw [getInstX_run_none parent vm hpx] at hrun; cases hrun
  | some px =>
  rw [getInstX_run_some parent vm px hpx] at hrun
  simp only at hrun
  obtain ⟨g1, hg1⟩ : ∃ g1 : InstX → InstX, g1 = fun x => { x with parentUid := some parent } := ⟨_, rfl⟩
  obtain ⟨g2, hg2⟩ : ∃ g2 : InstX → InstX, g2 = fun x => { x with childFlowUids := x.childFlowUids ++ [f] } := ⟨_, rfl⟩
  rw [← hg1, ← hg2] at hrun
  cases osh <;> simp only [optStrVal, pure, EStateM.pure, EStateM.bind, modInstX_run] at hrun
  all_goals
    generalize hv3 : vmMod (vmMod (vmMod vm f g1) parent g2) f _ = vm3 at hrun
    -- facts about the state after the three record updates
    have w3 : WF vm3 := by
      rw [← hv3]
      exact ((hw.vmMod f g1 (fun x h => by rw [hg1]; exact h)).vmMod parent g2 (fun x h => by rw [hg2]; exact h)).vmMod f _ (fun _ h => h)
    have a3 : absVM ν φ vm3 = modFlow (modFlow (modFlow (absVM ν φ vm) (ν f) fun fl => { fl with parent := some (ν parent) }) (ν parent)
        fun fl => { fl with children := fl.children ++ [ν f] }) (ν f) fun fl => fl := by
      rw [← hv3]
      refine (absVM_vmMod ν φ hν _ f _ (fun fl => fl) ?_).trans ?_
      · intro u x; rfl
      · rw [absVM_vmMod ν φ hν _ parent g2 (fun fl => { fl with children := fl.children ++ [ν f] })
            (fun u x => by rw [hg2]; simp only [absFlow, List.map_append, List.map_cons, List.map_nil]),
          absVM_vmMod ν φ hν vm f g1 (fun fl => { fl with parent := some (ν parent) }) (fun u x => by rw [hg1]; rfl)]
    cases hx : OMap.lookup f vm.r.fx with
    | none =>
      have l3 : OMap.lookup f vm3.r.fx = none := by
        rw [← hv3]; simp only [lookup_vmMod, if_true, hfp, if_false, hx, Option.map_none]
      have : cfgOfInst f vm3 = .error (.py "KeyError" f) vm3 := by
        unfold cfgOfInst
        simp only [bind, EStateM.bind, getInstX_run_none f vm3 l3]
      rw [this] at hrun; cases hrun
    | some x =>
      have l3 : ∃ x3, OMap.lookup f vm3.r.fx = some x3 ∧ x3.arguments = [] := by
        rw [← hv3]
        simp only [lookup_vmMod, if_true, hfp, if_false, hx, Option.map_some]
        exact ⟨_, rfl, by rw [hg1]; exact hnoargs x hx⟩
      obtain ⟨x3, l3, ar3⟩ := l3
      refine ⟨⟨x, px, rfl, rfl⟩, ?_⟩
      cases hc : cfgOfInst f vm3 with
      | error e s => rw [hc] at hrun; cases hrun
      | ok cfg s =>
        have hs := readOnly_cfgOfInst f vm3 cfg s hc
        subst hs
        rw [hc] at hrun
        simp only at hrun
        have hcf : (absVM ν φ vm).flows (ν f) = some (absFlow ν φ vm f x) := by rw [absVM_flows ν φ hν, hx]; rfl
        have hpf : (absVM ν φ vm).flows (ν parent) = some (absFlow ν φ vm parent px) := by rw [absVM_flows ν φ hν, hpx]; rfl
        have hne : ν f ≠ ν parent := fun e => hfp (hν e)
        -- whatever the loop id is, the run ends with `vmStartTail` from `vm3` (or `vm3` with one more uid burnt)
        have fin : ∀ (L : Option String) (vmK : VM), WF vmK → absVM ν φ vmK = absVM ν φ s → OMap.lookup f vmK.r.fx = some x3 →
            vmStartTail f args L n vmK = .ok () vm' →
            absVM ν φ vm' = linkInst (absVM ν φ vm) (ν f) (ν parent) n.toNat ∧ WF vm' := by
          intro L vmK wK aK lK ht
          obtain ⟨a4, w4⟩ := vmStartTail_frame ν φ hν f args L n vmK vm' wK hn0 x3 lK ar3 ht
          refine ⟨?_, w4⟩
          rw [a4, aK, a3]
          exact linkInst_eq_mods _ (ν f) (ν parent) n.toNat _ _ hcf hpf hne
        cases hl : cfg.loopId with
        | none =>
          rw [hl] at hrun
          exact fin _ s w3 rfl l3 hrun
        | some l =>
          rw [hl] at hrun
          by_cases hnew : l = "NEW"
          · subst hnew
            simp only [EStateM.bind] at hrun
            obtain ⟨u, hu⟩ := freshUid_run s
            rw [hu] at hrun
            exact fin _ (vmFresh s) (w3.of_same rfl rfl rfl) (absVM_of_same ν φ s (vmFresh s) (fun _ => rfl) rfl rfl) l3 hrun
          · simp only at hrun
            exact fin _ s w3 rfl l3 hrun


/-- **creation followed by the link IS the operation `startChild` of the Lifetime machine** (when its guard holds) -/
theorem link_create_eq_startChild (s : State) (c fid p k : Nat) (pf : Flow) (hc : s.flows c = none) (hp : s.flows p = some pf)
    (hg : (unlisted s c && c != p && (pf.status.listening || (decide (k > 0) && pf.flowId == fid && decide (pf.activated > 0)))) = true) :
    linkInst (createInst s c fid) c p k = applyOp s (.startChild c fid p k) := by
  have hcp : c ≠ p := by
    simp only [Bool.and_eq_true, bne_iff_ne, ne_eq] at hg
    exact hg.1.2
  have hpc : p ≠ c := fun e => hcp e.symm
  have h1 : (createInst s c fid).flows c = some (freshFlow fid) := by rw [createInst_flows, if_pos rfl]
  have h2 : (createInst s c fid).flows p = some pf := by rw [createInst_flows, if_neg hpc]; exact hp
  simp only [linkInst, h1, h2, applyOp, hc, hp, hg, if_true]
  apply state_ext
  · funext v
    simp only [setFlow_flows, createInst]
    by_cases hv : v = p
    · simp only [hv, if_true]
    · simp only [hv, if_false]
      by_cases hv2 : v = c
      · simp only [hv2, if_true]
      · simp only [hv2, if_false]
  all_goals rfl

end NemoVerif.Lifetime.Refine
