/-
  C06, goal 4 (refinement `CoreVM → Lifetime`), fourth layer: `_finish_flow`.
-/
import NemoVerif.Lemmas.LifetimeCoreVM3
namespace NemoVerif.Lifetime.Refine
open NemoVerif NemoVerif.CoreVM NemoVerif.CoreIndex NemoVerif.Lifetime

/-- main-flow restart at the end of `_finish_flow` -/
def vmMainRestart (f : FUid) : M Unit := do
    let h ← freshUid
    let cfg ← cfgOfInst f
    let nm0 ← match elemAt cfg 0 with
      | some (.matchOp spec _) => pure spec.name
      | _ => pure none
    CoreVM.applyOp (.mainRestart f h nm0)
    modifyRest fun r => { r with hx := r.hx ++ [((f, h), {})] }
    let now := (← getRest).clock
    modInstX f fun x => { x with statusUpdated := now }

/-- the part of `CoreVM.finishFlow` after the child loop -/
def vmFinishTail (fuel : Nat) (f : FUid) (scores : List Score) (deactivate : Bool) : M Unit := do
  for au in (← getInstX f).actionUids do releaseAction au
  dropHeads f
  let x ← getInstX f
  if x.flowId = "main" then
    let h ← freshUid
    let cfg ← cfgOfInst f
    let nm0 ← match elemAt cfg 0 with
      | some (.matchOp spec _) => pure spec.name
      | _ => pure none
    CoreVM.applyOp (.mainRestart f h nm0)
    modifyRest fun r => { r with hx := r.hx ++ [((f, h), {})] }
    let now := (← getRest).clock
    modInstX f fun x => { x with statusUpdated := now }
    return
  CoreVM.setFlowStatus f .finished
  if x.activated = 0 then
    match x.parentUid with
    | some p =>
      if (← getInstX? p).isSome then
        let px ← getInstX p
        if !px.childFlowUids.contains f then pyRaise "ValueError" "list.remove(x): x not in list"
        modInstX p fun y => { y with childFlowUids := listRemoveFirst f y.childFlowUids }
    | none => pure ()
  let o ← flowObjOf f
  pushEvent { ev := flowFinishedEvent o [], scores := scores }
  logActionOrIntents fuel f scores
  restartActivated f scores deactivate

/-- the part of `CoreVM.finishFlow` after the deactivation block -/
def vmFinishBody (rec : FUid → M Unit) (fuel : Nat) (f : FUid) (scores : List Score) (deactivate : Bool) : M Unit := do
  let i ← getInst f
  if !i.status.listening then return
  for c in (← getInstX f).childFlowUids do
    if (← getInstX? c).isSome then
      if !(← CoreVM.isChildActivated c) then rec c
  vmFinishTail fuel f scores deactivate

theorem finishFlow_unfold (n : Nat) (f : FUid) (sc : List Score) (d : Bool) :
    CoreVM.finishFlow n f sc d =
      vmDeact " (model line 219)" (fun c => CoreVM.abortFlow n c sc true) f d (vmFinishBody (fun c => CoreVM.abortFlow n c sc true) n f sc d) := by
  unfold CoreVM.finishFlow vmDeact vmFinishBody vmFinishTail
  rfl

/-- the body of `_finish_flow` starts with a read of the flow's index entry: without a record it raises -/
theorem vmFinishBody_no_record (rec : FUid → M Unit) (fuel : Nat) (f : FUid) (sc : List Score) (d : Bool) (vm vm' : VM) (hw : WFI vm)
    (hx : OMap.lookup f vm.r.fx = none) : vmFinishBody rec fuel f sc d vm ≠ .ok () vm' := by
  intro h
  unfold vmFinishBody at h
  simp only [bind, EStateM.bind] at h
  rw [getInst_run_none f vm (wfi_lookup_none vm hw f hx)] at h
  cases h

/-! ### `cs`-congruence of the Lifetime `_finish_flow` pieces -/

/-- the part of `finishTail` after the stop-actions loop -/
def finRest (s2 : State) (isMain : Bool) (u : Nat) (d : Bool) : Except Err State :=
  if isMain then .ok (modFlow (modFlow s2 u fun f => { f with heads := 0 }) u fun f => { f with heads := 1, status := .waiting })
  else
    match removeFromParent (modFlow (modFlow s2 u fun f => { f with heads := 0 }) u fun f => { f with status := .finished }) u with
    | .error e => .error e
    | .ok s5 => restart (push s5 (.flowFinished u)) u d

theorem finishTail_eq (s : State) (u : Nat) (d : Bool) :
    finishTail s u d = match s.flows u with
      | none => .error .key
      | some f1 => match stopActions s f1.actionUids with
        | .error e => .error e
        | .ok s2 => finRest s2 f1.isMain u d := by
  unfold finishTail finRest; rfl

theorem cs_finRest (s : State) (m : Bool) (u : Nat) (d : Bool) : csE (finRest s m u d) = csE (finRest (cs s) m u d) := by
  unfold finRest
  cases m with
  | true => simp only [if_true, csE_ok, cs_modFlow, cs_cs]
  | false =>
    simp only [Bool.false_eq_true, if_false]
    rw [← cs_modFlow, ← cs_modFlow, cs_removeFromParent]
    cases h : removeFromParent (modFlow (modFlow s u fun f => { f with heads := 0 }) u fun f => { f with status := .finished }) u with
    | error e => rfl
    | ok s5 =>
      simp only [csE_ok]
      rw [cs_restart, cs_restart (push (cs s5) _)]
      rfl

theorem cs_finishTail (s : State) (u : Nat) (d : Bool) : csE (finishTail s u d) = csE (finishTail (cs s) u d) := by
  rw [finishTail_eq, finishTail_eq]
  simp only [cs_flows]
  cases hf : s.flows u with
  | none => rfl
  | some f1 =>
    simp only
    have h1 := cs_stopActions f1.actionUids s
    rcases csE_cases h1 with ⟨e, e1, e2⟩ | ⟨t, t', e1, e2, ht⟩
    · rw [e1, e2]
    · rw [e1, e2]
      simp only
      rw [cs_finRest t, ht, ← cs_finRest t']

theorem cs_finishBody (rec : State → Nat → Except Err State) (hrec : CsRec rec) (s : State) (u : Nat) (d : Bool) :
    csE (finishBody rec s u d) = csE (finishBody rec (cs s) u d) := by
  rw [finishBody_eq, finishBody_eq]
  simp only [cs_flows]
  cases hf : s.flows u with
  | none => rfl
  | some f =>
    simp only
    by_cases hg : (!f.status.listening) = true
    · simp only [hg, if_true, csE_ok, cs_cs]
    · simp only [hg, Bool.false_eq_true, if_false]
      have hr := cs_childLoop rec hrec f.children s (cs s) rfl
      rcases csE_cases hr with ⟨e, e1, e2⟩ | ⟨t, t', e1, e2, ht⟩
      · rw [e1, e2]
      · rw [e1, e2]
        simp only
        rw [cs_finishTail t, ht, ← cs_finishTail t']

/-! ### the index component: the main-flow restart -/

theorem headChanged_insts (s : IState) (k : Key) (fst : FlowStatus) (hst : HeadStatus) (el : Option String) :
    (headChanged s k fst hst el).insts = s.insts := by
  unfold headChanged
  simp only
  cases el with
  | none => exact rawRemove_insts s k
  | some nm =>
    simp only
    split
    · show (rawAdd (rawRemove s k) k nm).insts = s.insts
      unfold rawAdd
      exact rawRemove_insts s k
    · exact rawRemove_insts s k

theorem findInst_mainRestart (s : IState) (f f' : FUid) (h : HUid) (nm0 : Option String) :
    findInst (step s (.mainRestart f h nm0)) f' =
      (findInst s f').map fun i => if i.uid = f then { i with heads := [newHead h nm0], status := .waiting } else i := by
  simp only [step]
  cases hf : findInst s f with
  | none =>
    simp only
    cases h' : findInst s f' with
    | none => rfl
    | some i =>
      simp only [Option.map_some]
      have : i.uid ≠ f := by
        intro e
        have hu := findInst_uid _ _ _ h'
        rw [← e, hu] at hf
        rw [h'] at hf; cases hf
      simp [this]
  | some i0 =>
    simp only
    have := findInst_modifyInst (headChanged s (f, h) i0.status .active nm0) f f'
      (fun i => { i with heads := [newHead h nm0], status := .waiting }) (fun _ => rfl)
    rw [this]
    unfold findInst
    rw [headChanged_insts]

theorem mainRestart_uids (s : IState) (f : FUid) (h : HUid) (nm0 : Option String) :
    (step s (.mainRestart f h nm0)).insts.map (·.uid) = s.insts.map (·.uid) := by
  simp only [step]
  cases findInst s f with
  | none => rfl
  | some i0 =>
    simp only
    rw [modifyInst_uids _ f (fun i => { i with heads := [newHead h nm0], status := .waiting }) (fun _ => rfl), headChanged_insts]

/-! ### the pieces of the `_finish_flow` tail -/

variable (ν φ : String → Nat)

/-- the unlink block of `_finish_flow`: it uses the record read BEFORE the FINISHED mark -/
def vmUnlinkX (f : FUid) (x : InstX) : M Unit := do
    if x.activated = 0 then
      match x.parentUid with
      | some p =>
        if (← getInstX? p).isSome then
          let px ← getInstX p
          if !px.childFlowUids.contains f then pyRaise "ValueError" "list.remove(x): x not in list"
          modInstX p fun y => { y with childFlowUids := listRemoveFirst f y.childFlowUids }
      | none => pure ()

theorem vmUnlinkX_eq (f : FUid) (x x' : InstX) (vm : VM) (hx' : OMap.lookup f vm.r.fx = some x')
    (ha : x'.activated = x.activated) (hp : x'.parentUid = x.parentUid) : vmUnlinkX f x vm = vmUnlink f vm := by
  unfold vmUnlinkX vmUnlink
  simp only [bind, EStateM.bind, getInstX_run_some f vm x' hx', ha, hp, pure]
  by_cases h0 : x.activated = 0
  · simp only [h0, if_true]
    cases x.parentUid <;> rfl
  · simp only [h0, if_false]

/-- the non-main part of the tail, given the record `x` read after `heads.clear()` -/
def vmFinishRest (fuel : Nat) (f : FUid) (scores : List Score) (deactivate : Bool) (x : InstX) : M Unit := do
  CoreVM.setFlowStatus f .finished
  vmUnlinkX f x
  let o ← flowObjOf f
  pushEvent { ev := flowFinishedEvent o [], scores := scores }
  logActionOrIntents fuel f scores
  restartActivated f scores deactivate

theorem vmFinishTail_eq (fuel : Nat) (f : FUid) (sc : List Score) (d : Bool) :
    vmFinishTail fuel f sc d = (do
      forIn (← getInstX f).actionUids PUnit.unit releaseStep
      dropHeads f
      let x ← getInstX f
      if x.flowId = "main" then vmMainRestart f else vmFinishRest fuel f sc d x) := by
  funext vm
  unfold vmFinishTail vmMainRestart vmFinishRest vmUnlinkX
  simp only [bind, EStateM.bind, pure]
  have hrs : releaseStep = fun au __s => EStateM.bind (releaseAction au) fun __r => EStateM.pure (ForInStep.yield PUnit.unit) := rfl
  rw [hrs]
  cases getInstX f vm with
  | error e s => rfl
  | ok a s =>
    simp only
    cases forIn a.actionUids PUnit.unit
        (fun au __s => EStateM.bind (releaseAction au) fun __r => EStateM.pure (ForInStep.yield PUnit.unit)) s with
    | error e s1 => rfl
    | ok u1 s1 =>
      simp only
      cases dropHeads f s1 with
      | error e s2 => rfl
      | ok u2 s2 =>
        simp only
        cases getInstX f s2 with
        | error e s3 => rfl
        | ok x s3 =>
          simp only
          by_cases hm : x.flowId = "main"
          · simp only [hm, if_true, EStateM.bind]
            cases freshUid s3 with
            | error e s4 => rfl
            | ok h s4 =>
              simp only
              cases cfgOfInst f s4 with
              | error e s5 => rfl
              | ok cfg s5 =>
                simp only
                cases elemAt cfg 0 with
                | none => rfl
                | some pr =>
                  cases pr <;> rfl
          · simp only [hm, if_false, EStateM.bind]
            cases CoreVM.setFlowStatus f FlowStatus.finished s3 with
            | error e s4 => rfl
            | ok u4 s4 =>
              simp only
              by_cases h0 : x.activated = 0
              · simp only [h0, if_true]
                cases x.parentUid with
                | none => rfl
                | some p =>
                  simp only [bind_getInstX?]
                  cases OMap.lookup p s4.r.fx with
                  | none => rfl
                  | some px0 =>
                    simp only [Option.isSome_some, if_true, EStateM.bind]
                    cases getInstX p s4 with
                    | error e s5 => rfl
                    | ok px s5 =>
                      simp only
                      by_cases hc : (!px.childFlowUids.contains f) = true
                      · simp only [hc, if_true]; rfl
                      · simp only [hc, if_false]
                        rfl
              · simp only [h0, if_false]
                rfl

theorem setFlowStatus_lookup (f : FUid) (st : FlowStatus) (vm vm' : VM) (h : CoreVM.setFlowStatus f st vm = .ok () vm') :
    ∀ k, OMap.lookup k vm'.r.fx = if k = f then (OMap.lookup k vm.r.fx).map (fun x => { x with statusUpdated := vm.r.clock }) else OMap.lookup k vm.r.fx := by
  by_cases hg : (Op.setFlowStatus f st).guard vm.ixs.ix = true
  · have hrun' : CoreVM.setFlowStatus f st vm = .ok () (vmMod { vm with ixs := vm.ixs.apply (.setFlowStatus f st) hg } f
        (fun x => { x with statusUpdated := vm.r.clock })) := by
      unfold CoreVM.setFlowStatus
      simp only [bind, EStateM.bind, applyOp_run _ vm hg]
      rfl
    rw [h] at hrun'
    cases hrun'
    intro k
    exact lookup_modify f k _ vm.r.fx
  · obtain ⟨e, s, he⟩ := setFlowStatus_guardFailed f st vm hg
    rw [he] at h; cases h

theorem readOnly_cfgOfInst (f : FUid) : ReadOnly (cfgOfInst f) := by
  unfold cfgOfInst
  apply readOnly_bind _ _ (readOnly_getInstX f)
  intro x
  unfold getCfg
  intro vm a vm' h
  simp only [bind, EStateM.bind] at h
  have : getRest vm = .ok vm.r vm := rfl
  rw [this] at h
  simp only at h
  cases hp : vm.r.prog.find x.flowId with
  | none => rw [hp] at h; cases h
  | some c => rw [hp] at h; cases h; rfl

/-- the main-flow restart: fresh head, status WAITING -/
theorem vmMainRestart_refines (hν : Function.Injective ν) (f : FUid) (vm vm' : VM) (hw : WF vm) (x : InstX)
    (hx : OMap.lookup f vm.r.fx = some x) (h : vmMainRestart f vm = .ok () vm') :
    absVM ν φ vm' = modFlow (absVM ν φ vm) (ν f) (fun fl => { fl with heads := 1, status := .waiting }) ∧ WF vm' := by
  unfold vmMainRestart at h
  simp only [bind, EStateM.bind] at h
  have hfr : freshUid vm = .ok s!"u{vm.r.nextUid + 1}z" (vmFresh vm) := rfl
  rw [hfr] at h
  simp only at h
  cases hcfg : cfgOfInst f (vmFresh vm) with
  | error e s => rw [hcfg] at h; cases h
  | ok cfg s =>
    have := readOnly_cfgOfInst f _ cfg s hcfg
    subst this
    rw [hcfg] at h
    simp only at h
    -- the name oracle of element 0 is irrelevant for the abstraction
    obtain ⟨nm0, hnm⟩ : ∃ nm0 : Option String,
        (EStateM.bind (CoreVM.applyOp (Op.mainRestart f s!"u{vm.r.nextUid + 1}z" nm0)) fun _ =>
          EStateM.bind (modifyRest fun r => { r with hx := r.hx ++ [((f, s!"u{vm.r.nextUid + 1}z"), {})] }) fun _ =>
            EStateM.bind getRest fun r => modInstX f fun x => { x with statusUpdated := r.clock }) (vmFresh vm) = .ok () vm' := by
      cases hel : elemAt cfg 0 with
      | none => rw [hel] at h; exact ⟨none, h⟩
      | some pr =>
        rw [hel] at h
        cases pr <;> first | exact ⟨_, h⟩ | exact ⟨none, h⟩
    simp only [EStateM.bind] at hnm
    by_cases hg : (Op.mainRestart f s!"u{vm.r.nextUid + 1}z" nm0).guard (vmFresh vm).ixs.ix = true
    · rw [applyOp_run _ _ hg] at hnm
      simp only at hnm
      have hmr : modifyRest (fun r => { r with hx := r.hx ++ [((f, s!"u{vm.r.nextUid + 1}z"), {})] })
          { (vmFresh vm) with ixs := (vmFresh vm).ixs.apply (Op.mainRestart f s!"u{vm.r.nextUid + 1}z" nm0) hg } =
          .ok () { ({ (vmFresh vm) with ixs := (vmFresh vm).ixs.apply (Op.mainRestart f s!"u{vm.r.nextUid + 1}z" nm0) hg } : VM) with
            r := { (vmFresh vm).r with hx := (vmFresh vm).r.hx ++ [((f, s!"u{vm.r.nextUid + 1}z"), {})] } } := rfl
      rw [hmr] at hnm
      simp only at hnm
      obtain ⟨vmI, hvmI⟩ : ∃ vmI : VM, vmI = { ({ (vmFresh vm) with ixs := (vmFresh vm).ixs.apply (Op.mainRestart f s!"u{vm.r.nextUid + 1}z" nm0) hg } : VM) with
            r := { (vmFresh vm).r with hx := (vmFresh vm).r.hx ++ [((f, s!"u{vm.r.nextUid + 1}z"), {})] } } := ⟨_, rfl⟩
      rw [← hvmI] at hnm
      have hgr : getRest vmI = .ok vmI.r vmI := rfl
      rw [hgr] at hnm
      simp only [modInstX_run] at hnm
      cases hnm
      -- facts about vmI: index changed by mainRestart, fx / actions as in vm
      have hfxI : vmI.r.fx = vm.r.fx := by rw [hvmI]; rfl
      have hactI : vmI.r.actions = vm.r.actions := by rw [hvmI]; rfl
      have hfiI : ∀ k, findInst vmI.ixs.ix k = (findInst vm.ixs.ix k).map fun i =>
          if i.uid = f then { i with heads := [newHead s!"u{vm.r.nextUid + 1}z" nm0], status := .waiting } else i := by
        intro k; rw [hvmI]; exact findInst_mainRestart vm.ixs.ix f k _ nm0
      have huI : vmI.ixs.ix.insts.map (·.uid) = vm.ixs.ix.insts.map (·.uid) := by
        rw [hvmI]; exact mainRestart_uids vm.ixs.ix f _ nm0
      have wI : WF vmI := by
        refine ⟨?_, ⟨?_, ?_⟩, ?_, ?_⟩
        · intro k a ha; rw [hactI] at ha; exact hw.a k a ha
        · rw [huI, hfxI]; exact hw.i.1
        · rw [huI]; exact hw.i.2
        · intro k a ha; rw [hactI] at ha; exact hw.g k a ha
        · intro k y hy; rw [hfxI] at hy; exact hw.n k y hy
      refine ⟨?_, wI.vmMod f _ (fun _ h => h)⟩
      -- the abstraction
      rw [absVM_vmMod ν φ hν vmI f (fun y => { y with statusUpdated := vmI.r.clock }) (fun fl => fl) (fun _ _ => rfl)]
      have hid : modFlow (absVM ν φ vmI) (ν f) (fun fl => fl) = absVM ν φ vmI := by
        unfold modFlow
        split
        · next fl hfl =>
          apply state_ext <;> try rfl
          funext k
          rw [setFlow_flows]; split
          · next e => rw [e, hfl]
          · rfl
        · rfl
      rw [hid]
      obtain ⟨i, hi⟩ := wfi_findInst vm hw.i f x hx
      have hui := findInst_uid _ _ _ hi
      apply state_ext
      · funext n
        by_cases hn : ∃ k, ν k = n
        · obtain ⟨k, rfl⟩ := hn
          rw [absVM_flows ν φ hν, hfxI]
          by_cases hk : k = f
          · subst hk
            have hflk : (absVM ν φ vm).flows (ν k) = some (absFlow ν φ vm k x) := by rw [absVM_flows ν φ hν, hx]; rfl
            rw [modFlow_some _ _ _ _ hflk, setFlow_flows_same, hx]
            simp only [Option.map_some, absFlow, hfiI, hi, hui, if_true]
            rfl
          · have hne : ν k ≠ ν f := fun e => hk (hν e)
            rw [modFlow_flows_ne _ _ _ _ hne, absVM_flows ν φ hν]
            cases hxk : OMap.lookup k vm.r.fx with
            | none => rfl
            | some y =>
              simp only [Option.map_some, absFlow, hfiI]
              cases hik : findInst vm.ixs.ix k with
              | none => rfl
              | some ik =>
                have := findInst_uid _ _ _ hik
                have hne' : ¬ ik.uid = f := by rw [this]; exact hk
                simp [hne']
        · have hnone : ∀ (vm' : VM), (absVM ν φ vm').flows n = none := by
            intro vm'
            simp only [absVM]
            rw [List.find?_eq_none.2 (fun e _ => by simpa using fun h => hn ⟨e.1, h⟩)]
            rfl
          have hne : n ≠ ν f := fun e => hn ⟨f, e.symm⟩
          rw [hnone, modFlow_flows_ne _ _ _ _ hne, hnone]
      · have : (absVM ν φ vmI).actions = (absVM ν φ vm).actions := by simp only [absVM, hactI]
        rw [this]; unfold modFlow; split <;> rfl
      · have : (absVM ν φ vmI).order = (absVM ν φ vm).order := by simp only [absVM, hfxI]
        rw [this]; unfold modFlow; split <;> rfl
      · symm; unfold modFlow; split <;> rfl
      · symm; unfold modFlow; split <;> rfl
      · symm; unfold modFlow; split <;> rfl
    · have : CoreVM.applyOp (Op.mainRestart f s!"u{vm.r.nextUid + 1}z" nm0) (vmFresh vm) =
          .error (.guardFailed (opName (Op.mainRestart f s!"u{vm.r.nextUid + 1}z" nm0))) (vmFresh vm) := by
        unfold CoreVM.applyOp
        rw [dif_neg hg]
      rw [this] at hnm
      cases hnm

/-- hypothesis on `_log_action_or_intents`: it only pushes internal log events (true for flows without `@meta` tags:
    the function returns after looking up the flow config) -/
def LogInvisible (fuel : Nat) (f : FUid) (sc : List Score) : Prop :=
  ∀ vmA vmB, logActionOrIntents fuel f sc vmA = .ok () vmB → vmB.ixs = vmA.ixs ∧ vmB.r.fx = vmA.r.fx ∧ vmB.r.actions = vmA.r.actions

/-- **`corevm_finishTail_is_op`**: the straight-line tail of `CoreVM.finishFlow` IS `Lifetime.finishTail` (both the
    main-flow restart and the FINISHED branch), up to queue / outgoing events -/
theorem corevm_finishTail_is_op (hν : Function.Injective ν) (hφ : Function.Injective φ) (fuel : Nat) (f : FUid) (sc : List Score) (d : Bool)
    (hlog : LogInvisible fuel f sc) (vm vm' : VM) (hw : WF vm) (h : vmFinishTail fuel f sc d vm = .ok () vm') :
    ∃ t, finishTail (absVM ν φ vm) (ν f) d = .ok t ∧ absVM ν φ vm' = cs t ∧ WF vm' := by
  rw [vmFinishTail_eq] at h
  simp only [bind, EStateM.bind] at h
  cases hx : OMap.lookup f vm.r.fx with
  | none => rw [getInstX_run_none f vm hx] at h; cases h
  | some x =>
  rw [getInstX_run_some f vm x hx] at h
  simp only at h
  cases hloop : forIn x.actionUids PUnit.unit releaseStep vm with
  | error e s => rw [hloop] at h; cases h
  | ok u1 vm1 =>
  rw [hloop] at h
  simp only at h
  obtain ⟨t1, hs1, habs1, hw1, hix1, hfx1, hnm1⟩ := release_loop ν φ hν x.actionUids vm vm1 hw.a hw.i hw.g hloop
  have w1 : WF vm1 := by
    refine ⟨hw1, ?_, ?_, ?_⟩
    · unfold WFI; rw [hix1, hfx1]; exact hw.i
    · intro k a ha
      obtain ⟨y, hy, e⟩ := hnm1 k a ha
      rw [e]; exact hw.g k y hy
    · intro k x' hx'; rw [hfx1] at hx'; exact hw.n k x' hx'
  have habs1' : absVM ν φ vm1 = cs t1 := by
    have := congrArg cs habs1
    rw [cs_absVM] at this
    exact this
  obtain ⟨vm2, hrun2, hfx2, hact2, hfi2, habs2⟩ := dropHeads_abs ν φ hν f vm1
  rw [hrun2] at h
  simp only at h
  have w2 := wf_dropHeads w1 f hrun2
  have hx2 : OMap.lookup f vm2.r.fx = some x := by rw [hfx2, hfx1]; exact hx
  rw [getInstX_run_some f vm2 x hx2] at h
  simp only at h
  have hfl : (absVM ν φ vm).flows (ν f) = some (absFlow ν φ vm f x) := by rw [absVM_flows ν φ hν, hx]; rfl
  -- it suffices to analyse the rest from `absVM vm1`
  suffices hrest : ∃ t', finRest (absVM ν φ vm1) (x.flowId == "main") (ν f) d = .ok t' ∧ absVM ν φ vm' = cs t' ∧ WF vm' by
    obtain ⟨t', ht', ha', w'⟩ := hrest
    have hc := cs_finRest t1 (x.flowId == "main") (ν f) d
    rw [← habs1', ht'] at hc
    obtain ⟨t, ht, hct⟩ := csE_ok_inv hc
    refine ⟨t, ?_, by rw [ha', hct], w'⟩
    rw [finishTail_eq, hfl]
    simp only
    have hau : (absFlow ν φ vm f x).actionUids = x.actionUids.map ν := rfl
    have him : (absFlow ν φ vm f x).isMain = (x.flowId == "main") := rfl
    rw [hau, hs1, him]
    exact ht
  unfold finRest
  by_cases hm : x.flowId = "main"
  · -- the main flow restarts
    have hmb : (x.flowId == "main") = true := by simp [hm]
    simp only [hm, if_true] at h
    simp only [hmb, if_true]
    obtain ⟨ha, w'⟩ := vmMainRestart_refines ν φ hν f vm2 vm' w2 x hx2 h
    exact ⟨_, rfl, by rw [ha, habs2, cs_modFlow, cs_modFlow, cs_absVM], w'⟩
  · have hmb : (x.flowId == "main") = false := by simp [hm]
    simp only [hm, if_false] at h
    simp only [hmb, Bool.false_eq_true, if_false]
    unfold vmFinishRest at h
    simp only [bind, EStateM.bind] at h
    -- FINISHED mark
    cases hst : CoreVM.setFlowStatus f FlowStatus.finished vm2 with
    | error e s => rw [hst] at h; cases h
    | ok u3 vm3 =>
    rw [hst] at h
    simp only at h
    have hfi2' : ∃ i, findInst vm2.ixs.ix f = some i := by
      rw [hfi2]
      obtain ⟨i, hi1⟩ := wfi_findInst vm1 w1.i f x (by rw [hfx1]; exact hx)
      rw [hi1]; exact ⟨_, rfl⟩
    obtain ⟨hk3, hact3, hn3, habs3⟩ := setFlowStatus_abs ν φ hν f .finished vm2 vm3 hfi2' hst
    have w3 := wf_setFlowStatus w2 f .finished hst
    have hx3 : OMap.lookup f vm3.r.fx = some { x with statusUpdated := vm2.r.clock } := by
      have := setFlowStatus_lookup f .finished vm2 vm3 hst f
      simp only [if_true] at this
      rw [this, hx2]; rfl
    -- unlink
    rw [vmUnlinkX_eq f x _ vm3 hx3 rfl rfl] at h
    rcases vmUnlink_refines ν φ hν f vm3 _ hx3 (hw.n f x hx) with ⟨msg, herr, _⟩ | ⟨vm4, hrun4, hrm4, hix4, hact4, hk4⟩
    · rw [herr] at h; cases h
    rw [hrun4] at h
    simp only at h
    have w4 := wf_vmUnlink w3 f hrun4
    -- FlowFinished, log events
    cases hfo : flowObjOf f vm4 with
    | error e s => rw [hfo] at h; cases h
    | ok o s =>
    have := readOnly_flowObjOf f vm4 o s hfo
    subst this
    rw [hfo] at h
    simp only at h
    obtain ⟨vm5, hvm5⟩ : ∃ vm5 : VM, vm5 = { s with r := { s.r with queue := s.r.queue ++ [{ ev := flowFinishedEvent o [], scores := sc }] } } := ⟨_, rfl⟩
    have hpe : pushEvent { ev := flowFinishedEvent o [], scores := sc } s = .ok () vm5 := by rw [hvm5]; rfl
    rw [hpe] at h
    simp only at h
    have w5 : WF vm5 := by rw [hvm5]; exact w4.of_same rfl rfl rfl
    cases hlg : logActionOrIntents fuel f sc vm5 with
    | error e s6 => rw [hlg] at h; cases h
    | ok u6 vm6 =>
    rw [hlg] at h
    simp only at h
    obtain ⟨l1, l2, l3⟩ := hlog vm5 vm6 hlg
    have w6 : WF vm6 := w5.of_same l1 l2 l3
    have a6 : absVM ν φ vm6 = absVM ν φ s := by
      have : absVM ν φ vm6 = absVM ν φ vm5 := by
        simp only [absVM, absFlow, l1, l2, l3]
      rw [this, hvm5]; rfl
    -- restart
    have hx6 : ∃ x6, OMap.lookup f vm6.r.fx = some x6 ∧ 0 ≤ x6.activated := by
      have hmem : f ∈ vm6.r.fx.map (·.1) := by
        rw [l2, hvm5]
        show f ∈ s.r.fx.map (·.1)
        rw [hk4]
        exact mem_keys_of_lookup f vm3.r.fx _ hx3
      obtain ⟨x6, hx6⟩ := lookup_isSome_of_mem f vm6.r.fx hmem
      exact ⟨x6, hx6, w6.n f x6 hx6⟩
    obtain ⟨x6, hx6, hp6⟩ := hx6
    obtain ⟨t6, hr6, habs6, _, _, _⟩ := restartActivated_refines ν φ hν hφ f sc d vm6 vm' x6 hx6 hp6 h
    have w' := wf_restartActivated w6 f sc d h
    -- the Lifetime side
    have habs3' : absVM ν φ vm3 = modFlow (modFlow (absVM ν φ vm1) (ν f) fun fl => { fl with heads := 0 }) (ν f) fun fl => { fl with status := .finished } := by
      rw [habs3, habs2]; rfl
    rw [← habs3', hrm4]
    simp only
    have hc := cs_restart (push (absVM ν φ s) (IEv.flowFinished (ν f))) (ν f) d
    rw [cs_push, cs_absVM] at hc
    have hr6' : restart (absVM ν φ s) (ν f) d = .ok t6 := by rw [← a6]; exact hr6
    rw [hr6'] at hc
    simp only [csE_ok] at hc
    obtain ⟨t7, ht7, hct7⟩ := csE_ok_inv hc
    exact ⟨t7, ht7, by rw [habs6, hct7], w'⟩

/-- the body of `_finish_flow` (guard, child loop, tail) -/
theorem finishBody_refines (hν : Function.Injective ν) (hφ : Function.Injective φ) (rec : FUid → M Unit) (rec0 : State → Nat → Except Err State)
    (hrec : RefRec ν φ rec rec0) (hcs : CsRec rec0) (fuel : Nat) (f : FUid) (sc : List Score) (d : Bool)
    (hlog : LogInvisible fuel f sc) (vm vm' : VM) (hw : WF vm)
    (h : vmFinishBody rec fuel f sc d vm = .ok () vm') :
    ∃ t, finishBody rec0 (absVM ν φ vm) (ν f) d = .ok t ∧ absVM ν φ vm' = cs t ∧ WF vm' := by
  unfold vmFinishBody at h
  simp only [bind, EStateM.bind, pure] at h
  cases hfi : findInst vm.ixs.ix f with
  | none => rw [getInst_run_none f vm hfi] at h; cases h
  | some i =>
  rw [getInst_run_some f vm i hfi] at h
  simp only at h
  obtain ⟨x, hx⟩ := wfi_lookup vm hw.i f i hfi
  have hfl : (absVM ν φ vm).flows (ν f) = some (absFlow ν φ vm f x) := by rw [absVM_flows ν φ hν, hx]; rfl
  have hst : (absFlow ν φ vm f x).status = absStatus i.status := by simp only [absFlow, hfi]
  rw [finishBody_eq, hfl]
  simp only
  have hguard : (!(absFlow ν φ vm f x).status.listening) = (!i.status.listening) := by
    rw [hst, absStatus_listening]
  rw [hguard]
  by_cases hg : (!i.status.listening) = true
  · simp only [hg, if_true, EStateM.pure] at h ⊢
    cases h
    exact ⟨_, rfl, rfl, hw⟩
  · simp only [hg, Bool.false_eq_true, if_false] at h ⊢
    have h' : (EStateM.bind (getInstX f) fun x1 =>
        EStateM.bind (forIn x1.childFlowUids PUnit.unit (childStep rec)) fun _ => vmFinishTail fuel f sc d) vm = .ok () vm' := h
    simp only [EStateM.bind, getInstX_run_some f vm x hx] at h'
    cases hloop : forIn x.childFlowUids PUnit.unit (childStep rec) vm with
    | error e s => rw [hloop] at h'; cases h'
    | ok u2 vm2 =>
      rw [hloop] at h'
      simp only at h'
      obtain ⟨t2, h2, a2, w2⟩ := child_loop ν φ hν hφ rec rec0 hrec hcs x.childFlowUids vm vm2 hw hloop
      obtain ⟨t3, h3, a3, w3⟩ := corevm_finishTail_is_op ν φ hν hφ fuel f sc d hlog vm2 vm' w2 h'
      have hch : (absFlow ν φ vm f x).children = x.childFlowUids.map ν := rfl
      rw [hch, h2]
      simp only
      have hct := cs_finishTail t2 (ν f) d
      rw [← a2, h3] at hct
      obtain ⟨t4, h4, e4⟩ := csE_ok_inv hct
      exact ⟨t4, h4, by rw [a3, e4], w3⟩

/-- **`corevm_finish_is_op`**: every normally terminating run of `CoreVM.finishFlow` from a well-formed VM state IS a
    run of `Lifetime.finishFlow` on the abstract state (deactivation block, child loop with all nested `_abort_flow`
    calls, stop-actions loop, main-flow restart or FINISHED mark / unlink / restart), up to queue / outgoing events,
    provided the log step is invisible (`LogInvisible`: flows without `@meta` tags) -/
theorem corevm_finish_is_op (hν : Function.Injective ν) (hφ : Function.Injective φ) (n : Nat) (vm : VM) (f : FUid) (sc : List Score)
    (d : Bool) (vm' : VM) (hlog : LogInvisible n f sc) (hw : WF vm) (h : CoreVM.finishFlow n f sc d vm = .ok () vm') :
    ∃ t, Lifetime.finishFlow n (absVM ν φ vm) (ν f) d = .ok t ∧ absVM ν φ vm' = cs t ∧ WF vm' := by
  have hrec : RefRec ν φ (fun c => CoreVM.abortFlow n c sc true) (fun s c => Lifetime.abortFlow n s c true) :=
    fun vm c vm' hw h => corevm_abort_is_op ν φ hν hφ n vm c sc true vm' hw h
  have hcs : CsRec (fun s c => Lifetime.abortFlow n s c true) := fun s c => cs_abortFlow n s c true
  rw [finishFlow_unfold] at h
  unfold Lifetime.finishFlow
  rcases deact_refines ν φ hν hφ _ _ _ hrec hcs f d _ vm vm' hw (vmFinishBody_no_record _ n f sc d vm vm' hw.i) h with ⟨t1, h1, a1, w1⟩ | ⟨vmK, tK, hK, aK, wK, hk⟩
  · rw [h1]; exact ⟨t1, rfl, a1, w1⟩
  · rw [hK]
    simp only
    obtain ⟨t3, h3, a3, w3⟩ := finishBody_refines ν φ hν hφ _ _ hrec hcs n f sc d hlog vmK vm' wK hk
    have hct := cs_finishBody _ hcs tK (ν f) d
    rw [← aK, h3] at hct
    obtain ⟨t4, h4, e4⟩ := csE_ok_inv hct
    exact ⟨t4, h4, by rw [a3, e4], w3⟩

/-- `_log_action_or_intents` is invisible for a flow without `@meta` tags -/
theorem logInvisible_of_noMeta (fuel : Nat) (f : FUid) (sc : List Score)
    (hmeta : ∀ vm cfg vm', cfgOfInst f vm = .ok cfg vm' → cfg.metaTags = []) : LogInvisible fuel f sc := by
  intro vmA vmB h
  unfold logActionOrIntents at h
  simp only [bind, EStateM.bind] at h
  cases hc : cfgOfInst f vmA with
  | error e s => rw [hc] at h; cases h
  | ok cfg s =>
    have hs := readOnly_cfgOfInst f vmA cfg s hc
    subst hs
    rw [hc] at h
    have hm := hmeta _ cfg _ hc
    simp only [metaTag, hm, List.find?_nil, Option.map_none] at h
    cases h
    exact ⟨rfl, rfl, rfl⟩

/-- the hierarchy clauses of T2 hold along `CoreVM.finishFlow` -/
theorem corevm_finish_hierarchy_inv (hν : Function.Injective ν) (hφ : Function.Injective φ) (n : Nat) (vm : VM) (f : FUid)
    (sc : List Score) (d : Bool) (vm' : VM) (hlog : LogInvisible n f sc) (hw : WF vm) (hf : FlowInv (absVM ν φ vm))
    (hl : LinkInv (absVM ν φ vm)) (h : CoreVM.finishFlow n f sc d vm = .ok () vm') :
    FlowInv (absVM ν φ vm') ∧ LinkInv (absVM ν φ vm') ∧ WF vm' := by
  obtain ⟨t, ht, ha, w'⟩ := corevm_finish_is_op ν φ hν hφ n vm f sc d vm' hlog hw h
  rw [ha]
  exact ⟨FlowInv.cs (finish_flowInv hf n (ν f) d t ht), LinkInv.cs (finishFlow_linked n _ (ν f) d t hl ht), w'⟩

end NemoVerif.Lifetime.Refine
