/-
  C11 / T3 — the event layer of CoreVM on live and aged states (`Diag` = the same computation gives the same value / Python
  exception in both, or the model gives up): `evalIn`, `evalArgs`, `flowObjOf`, `FlowState.get_event`, `Action.get_event`,
  the throw-away objects, `resolveRef`, `get_event_name_from_element`, `get_event_from_element`.
-/
import NemoVerif.Lemmas.CleanUpBisimEval
open NemoVerif NemoVerif.CoreIndex NemoVerif.CoreVM NemoVerif.C11.Bisim

namespace NemoVerif.C11.Bisim

/-- `getInstX? uid >>= k` where `k` gives up on `none`: a discarded instance makes the aged run leave the model, a kept one
    hands related records to both -/
theorem diag_getInstX?_bind {rm α} (uid : FUid) (k : Option InstX → M α)
    (hnone : ∀ s, ∃ e, gaveUp e ∧ k none s = .error e s)
    (hsome : keepB rm uid = true → ∀ x x' s s', XRel rm s.r.clock s'.r.clock x x' → Aged rm s s' → Sim2U rm Eq (k (some x)) (k (some x')) s s') :
    Diag rm (getInstX? uid >>= k) := by
  intro s s' h
  refine Sim2U.bind (sim_getInstX? h uid) ?_
  intro o o' s1 s1' e1 e1' ho h1
  have hs1 : s1 = s := by cases e1; rfl
  have hs1' : s1' = s' := by cases e1'; rfl
  subst hs1; subst hs1'
  have giveUpR : ∀ (r : EStateM.Result VMErr VM α), OutU rm Eq r (k none s1') := by
    intro r
    obtain ⟨e, he, hk⟩ := hnone s1'
    rw [hk]; exact OutU.of_gaveUp_right he _
  by_cases hk : keepB rm uid = true
  · simp only [hk, if_true] at ho
    cases o <;> cases o' <;> simp only [ORel] at ho
    · exact giveUpR _
    · exact hsome hk _ _ _ _ ho h1
  · simp only [hk] at ho
    subst ho
    exact giveUpR _

/-- `state.actions.get(uid) >>= k` where `k` gives up on `none` -/
theorem diag_getAction?_bind {rm α} (uid : String) (k : Option Action → M α)
    (hnone : ∀ s, ∃ e, gaveUp e ∧ k none s = .error e s) (hsome : ∀ a, Diag rm (k (some a))) :
    Diag rm (getAction? uid >>= k) := by
  intro s s' h
  refine Sim2U.bind (sim_getAction? h uid) ?_
  intro o o' s1 s1' e1 e1' ho h1
  rcases ho with rfl | rfl
  · obtain ⟨e, he, hk⟩ := hnone s1'
    unfold Sim2U
    rw [hk]; exact OutU.of_gaveUp_right he _
  · cases o' with
    | none =>
      obtain ⟨e, he, hk⟩ := hnone s1'
      unfold Sim2U
      rw [hk]; exact OutU.of_gaveUp_right he _
    | some a => exact hsome a s1 s1' h1

/-- `getRest >>= k` where `k` looks at the event objects and the global context only -/
theorem diag_getRest_bind {rm α} (k : Rest → M α) (hk : ∀ r r' : Rest, r.events = r'.events → r.gctx = r'.gctx → k r = k r')
    (hd : ∀ r, Diag rm (k r)) : Diag rm (getRest >>= k) := by
  intro s s' h
  refine Sim2U.bind (ρ := fun r r' => r = s.r ∧ r' = s'.r) ⟨⟨rfl, rfl⟩, h⟩ ?_
  intro r r' s1 s1' e1 e1' hr h1
  obtain ⟨rfl, rfl⟩ := hr
  rw [hk s.r s'.r h.events.symm h.gctx.symm]
  exact hd _ s1 s1' h1

theorem diag_getCfg {rm} (n : String) : Diag rm (getCfg n) :=
  fun _ _ h => Sim2.toU (Sim2.of_rel (ro_getCfg n) (ro_getCfg n) h (h.rel_getCfg n))

/-- `eval_expression(expr, _get_eval_context(state, flow_state))` for a kept instance -/
theorem diag_evalIn {rm} {f : FUid} (hk : keepB rm f = true) (e : Expr) : Diag rm (evalIn f e) := by
  unfold CoreVM.evalIn
  exact Diag.bind (diag_getCtx hk) fun _ => (diag_eval _ _).1 _

theorem diag_evalEmpty {rm} (e : Expr) : Diag rm (evalEmpty e) := (diag_eval _ _).1 _

theorem diag_evalArgs {rm} {f : FUid} (hk : keepB rm f = true) (args : List (String × Expr)) : Diag rm (evalArgs f args) := by
  unfold CoreVM.evalArgs
  repeat' (first
    | exact Diag.pure _
    | exact diag_evalIn hk _
    | refine Diag.bind ?_ (fun _ => ?_)
    | refine Diag.forIn _ (fun _ _ => ?_) _ _
    | split
    | dsimp only)


theorem XRel.parentHeadUid {rm c c' x x'} (h : XRel rm c c' x x') : x'.parentHeadUid = x.parentHeadUid := by
  have := congrArg InstX.parentHeadUid h.eq
  simpa [agedX] using this
theorem XRel.priority {rm c c' x x'} (h : XRel rm c c' x x') : x'.priority = x.priority := by
  have := congrArg InstX.priority h.eq
  simpa [agedX] using this

/-- what `FlowState.get_event` needs to know about a kept instance -/
theorem diag_flowObjOf {rm} {f : FUid} (hk : keepB rm f = true) : Diag rm (flowObjOf f) := by
  intro s s' h
  unfold CoreVM.flowObjOf
  refine Sim2U.bind (Sim2.toU (Sim2.of_rel (ro_getInstX f) (ro_getInstX f) h (h.rel_getInstX hk))) ?_
  intro x x' s1 s1' e1 e1' hx h1
  simp only [hx.flowId, hx.arguments, hx.parentUid, hx.parentHeadUid, hx.hierPos, hx.activated]
  exact (Diag.bind (diag_getCtx hk) fun _ => Diag.pure _) s1 s1' h1

theorem diag_flowStartEvent {rm} (o : FlowObj) (args : List (String × Val)) : Diag rm (flowStartEvent o args) := by
  unfold CoreVM.flowStartEvent
  exact Diag.bind diag_freshUid fun _ => Diag.pure _

theorem diag_flowGetEvent {rm} (o : FlowObj) (name : String) (args : List (String × Val)) : Diag rm (flowGetEvent o name args) := by
  unfold CoreVM.flowGetEvent
  split
  all_goals first
    | exact diag_flowStartEvent _ _
    | exact Diag.pure _
    | exact Diag.throw _

theorem diag_pyRaise {rm α} (c m : String) : Diag rm (pyRaise c m : M α) := Diag.throw _
theorem diag_unsupported {rm α} (w : String) : Diag rm (unsupported w : M α) := Diag.throw _
theorem diag_valueErr {rm α} (m : String) : Diag rm (valueErr m : M α) := Diag.throw _

theorem diag_actionGetEvent {rm} (a : Action) (name : String) (args : List (String × Val)) : Diag rm (actionGetEvent a name args) := by
  unfold CoreVM.actionGetEvent
  repeat' (first
    | with_reducible exact Diag.pure _
    | with_reducible exact Diag.throw _
    | with_reducible exact diag_pyRaise _ _
    | with_reducible exact diag_unsupported _
    | with_reducible refine Diag.bind ?_ (fun _ => ?_)
    | split
    | dsimp only)

theorem diag_tempAction {rm} (name : String) (args : List (String × Val)) : Diag rm (tempAction name args) := by
  unfold CoreVM.tempAction
  exact Diag.bind diag_freshUid fun _ => Diag.pure _

theorem diag_instanceArguments {rm} (cfg : FlowCfg) (evArgs : List (String × Val)) : Diag rm (instanceArguments cfg evArgs) := by
  unfold CoreVM.instanceArguments
  repeat' (first
    | exact Diag.pure _
    | exact Diag.throw _
    | exact diag_evalEmpty _
    | refine Diag.bind ?_ (fun _ => ?_)
    | refine Diag.forIn _ (fun _ _ => ?_) _ _
    | split
    | dsimp only)

theorem diag_tempFlowObj {rm} (flowName : String) : Diag rm (tempFlowObj flowName) := by
  unfold CoreVM.tempFlowObj
  repeat' (first
    | exact Diag.pure _
    | exact Diag.throw _
    | exact diag_getCfg _
    | exact diag_freshUid
    | exact diag_instanceArguments _ _
    | refine Diag.bind ?_ (fun _ => ?_)
    | split
    | dsimp only)

theorem diag_resolveRef {rm} {f : FUid} (hk : keepB rm f = true) (spec : Spec) (v : String) : Diag rm (resolveRef f spec v) := by
  unfold CoreVM.resolveRef
  repeat' (first
    | exact Diag.pure _
    | exact Diag.throw _
    | exact diag_getCtx hk
    | refine Diag.bind ?_ (fun _ => ?_)
    | split
    | dsimp only)


/-- `get_event_name_from_element(state, flow_state, element)` for a kept instance -/
theorem diag_getEventName {rm} {f : FUid} (hk : keepB rm f = true) (spec : Spec) : Diag rm (getEventName f spec) := by
  unfold CoreVM.getEventName
  repeat' (first
    | with_reducible exact Diag.pure _
    | with_reducible exact Diag.throw _
    | with_reducible exact diag_pyRaise _ _
    | with_reducible exact diag_unsupported _
    | with_reducible exact diag_resolveRef hk _ _
    | with_reducible exact diag_actionGetEvent _ _ _
    | with_reducible exact diag_flowGetEvent _ _ _
    | with_reducible exact diag_tempFlowObj _
    | with_reducible exact diag_tempAction _ _
    | with_reducible exact diag_flowObjOf (by assumption)
    | refine diag_getAction?_bind _ _ (fun s => by refine ⟨_, ?_, rfl⟩; trivial) (fun a => ?_)
    | refine diag_getInstX?_bind _ _ (fun s => by refine ⟨_, ?_, rfl⟩; trivial) (fun hk' _ _ s s' _ h => (?_ : Diag rm _) s s' h)
    | refine diag_getRest_bind _ (fun r r' he hg => by simp only [he]) (fun r => ?_)
    | with_reducible refine Diag.bind ?_ (fun _ => ?_)
    | split
    | dsimp only)


/-- `get_event_from_element(state, flow_state, element)` for a kept instance -/
theorem diag_getEvent {rm} {f : FUid} (hk : keepB rm f = true) (spec : Spec) (isMatch : Bool) : Diag rm (getEvent f spec isMatch) := by
  unfold CoreVM.getEvent
  repeat' (first
    | with_reducible exact Diag.pure _
    | with_reducible exact Diag.throw _
    | with_reducible exact diag_pyRaise _ _
    | with_reducible exact diag_unsupported _
    | with_reducible exact diag_resolveRef hk _ _
    | with_reducible exact diag_evalArgs hk _
    | with_reducible exact diag_actionGetEvent _ _ _
    | with_reducible exact diag_flowGetEvent _ _ _
    | with_reducible exact diag_tempFlowObj _
    | with_reducible exact diag_tempAction _ _
    | with_reducible exact diag_flowObjOf (by assumption)
    | refine diag_getAction?_bind _ _ (fun s => by refine ⟨_, ?_, rfl⟩; trivial) (fun a => ?_)
    | refine diag_getInstX?_bind _ _ (fun s => by refine ⟨_, ?_, rfl⟩; trivial) (fun hk' _ _ s s' _ h => (?_ : Diag rm _) s s' h)
    | refine diag_getRest_bind _ (fun r r' he hg => by simp only [he]) (fun r => ?_)
    | with_reducible refine Diag.bind ?_ (fun _ => ?_)
    | split
    | dsimp only)

end NemoVerif.C11.Bisim
