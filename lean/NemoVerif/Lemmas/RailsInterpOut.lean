/-
  C16 phase 4 — the `while $i < len($output_flows)` loop of the GENERATED `run output rails`, called from the extension flow
  `process bot message`, for any number of rails (the output twin of `Lemmas/RailsInterp.lean`; same method).
-/
import NemoVerif.Lemmas.RailsInterpBase
namespace NemoVerif.RailsInterp
open NemoVerif.V1Interp

/-! ### the flow states of the loop -/

def fsROR (u : Nat) (h : Int) : FS := { uid := u, flowId := "run output rails", head := h }
def fsRORint (u uc : Nat) : FS := { uid := u, flowId := "run output rails", head := 7, status := .interrupted, interruptedBy := some uc }
def fsPBMint (u0 u1 : Nat) : FS := { uid := u0, flowId := "process bot message", head := 10, status := .interrupted, interruptedBy := some u1 }
def createStartOutRail : Elem := Elem.runAction "create_event" none "{\"event\": {\"_type\": \"StartOutputRail\", \"flow_id\": \"$triggered_output_rail\"}}" none
def createOutRailFinished : Elem := Elem.runAction "create_event" none "{\"event\": {\"_type\": \"OutputRailFinished\", \"flow_id\": \"$triggered_output_rail\"}}" none
def createOutRailsFinished : Elem := Elem.runAction "create_event" none "{\"event\": {\"_type\": \"OutputRailsFinished\"}}" none


/-! ### the transitions of one loop iteration (symbolic execution of `computeNextState` on the generated program) -/

set_option linter.unusedSimpArgs false
set_option linter.unusedVariables false

macro "interp_simpO" "[" ts:Lean.Parser.Tactic.simpLemma,* "]" : tactic =>
  `(tactic| simp [computeNextState, advanceAll, advanceOne, find_pbm, find_ror, find_rdr, SUB_FUEL, slideWithSubflows, SLIDE_FUEL, slide, sstep,
      ror_elems, ror_triggers, ror_flags, pbm_elems, pbm_triggers, pbm_flags, rdr_elems, rdr_triggers, rdr_flags,
      initPrev, recordNextStep, pyIndex, isActionable, isMatch, Event.triggers,
      markInterrupted, extensionInterrupt, resumeLoop, resumePass, setAt, eval, evalBin, V.truthy, V.pyLt, V.num?, pyLen,
      fsROR, fsRORint, fsPBMint, createStartOutRail, createOutRailFinished, createOutRailsFinished, get_set, $ts,*])

variable (rails : Cfgs) (hsub : ∀ r ∈ rails, r.isSubflow = true)

theorem TO_a4 (hsub : ∀ r ∈ rails, r.isSubflow = true) (σ u : Ctx) (c u0 u1 : Nat) (nx : Option NextStep) :
    computeNextState true (base ++ rails)
      { ctx := σ, flows := [fsROR u1 4, fsPBMint u0 u1], next := nx, upd := u, ctr := c } (.actionFinished "create_event" true)
    = .ok { ctx := σ.withEvent (.actionFinished "create_event" true), flows := [fsROR u1 5, fsPBMint u0 u1], next := none, upd := [], ctr := c } := by
  have hq : Quiet (.actionFinished "create_event" true) = true := by decide
  interp_simpO [startNew_quiet rails hsub _ hq]

theorem TO_a8 (hsub : ∀ r ∈ rails, r.isSubflow = true) (σ u : Ctx) (c u0 u1 uc : Nat) (nm : String) (hd : Int) (scfg : FlowCfg)
    (hfind : Cfgs.find (base ++ rails) nm = some scfg) (nx : Option NextStep) :
    computeNextState true (base ++ rails)
      { ctx := σ, flows := [{ uid := uc, flowId := nm, head := hd, status := .completed }, fsROR u1 8, fsPBMint u0 u1], next := nx, upd := u, ctr := c }
      (.actionFinished "create_event" true)
    = .ok { ctx := σ.withEvent (.actionFinished "create_event" true), flows := [fsROR u1 9, fsPBMint u0 u1], next := none, upd := [], ctr := c } := by
  have hq : Quiet (.actionFinished "create_event" true) = true := by decide
  interp_simpO [startNew_quiet rails hsub _ hq, hfind]

set_option maxRecDepth 8000 in
theorem TO_b (hsub : ∀ r ∈ rails, r.isSubflow = true) (σ u : Ctx) (c u0 u1 : Nat) (h01 : u0 < u1) (h1c : u1 < c) (nx : Option NextStep)
    (names : List String) (k : Nat) (nm : String) (r : IRail) (v : V)
    (hi : σ.get "i" = .int k) (hf : σ.get "output_flows" = .strs names) (hnm : names[k]? = some nm)
    (hfind : Cfgs.find (base ++ rails) nm = some (IRail.cfg "bot_message" r)) (hname : r.name = nm) :
    computeNextState true (base ++ rails)
      { ctx := σ, flows := [fsROR u1 5, fsPBMint u0 u1], next := nx, upd := u, ctr := c } (.other "StartOutputRail" [("flow_id", v)])
    = .ok { ctx := σ.withEvent (.other "StartOutputRail" [("flow_id", v)]),
            flows := [{ uid := c, flowId := nm, head := 0 }, fsRORint u1 c, fsPBMint u0 u1],
            next := some { elem := Elem.runAction r.action none "{}" (some (match r.kind with | .check _ => "allowed" | .rewrite _ => "bot_message")),
                           uid := c, prio := 10000 },
            upd := [], ctr := c + 1 } := by
  have hq : Quiet (.other "StartOutputRail" [("flow_id", v)]) = true := rfl
  have gi := get_withEvent_plain σ (.other "StartOutputRail" [("flow_id", v)]) "i" (by plain_tac)
  have gf := get_withEvent_plain σ (.other "StartOutputRail" [("flow_id", v)]) "output_flows" (by plain_tac)
  have hne1 : u0 ≠ u1 := by omega
  have hne2 : c ≠ u1 := by omega
  have hne3 : c ≠ u0 := by omega
  have b1 : (c == u1) = false := beq_false_of_ne hne2
  have b2 : (u1 == c) = false := beq_false_of_ne (Ne.symm hne2)
  have b3 : (c == u0) = false := beq_false_of_ne hne3
  have b4 : (u0 == c) = false := beq_false_of_ne (Ne.symm hne3)
  have b5 : (u0 == u1) = false := beq_false_of_ne hne1
  have b6 : (u1 == u0) = false := beq_false_of_ne (Ne.symm hne1)
  cases hk : r.kind <;>
  · simp [computeNextState, advanceAll, advanceOne, find_pbm, find_ror, find_rdr, SUB_FUEL, slideWithSubflows, SLIDE_FUEL, slide, sstep,
      ror_elems, ror_triggers, ror_flags, pbm_elems, pbm_triggers, pbm_flags,
      initPrev, recordNextStep, pyIndex, isActionable, isMatch, Event.triggers, eval, evalBin, V.truthy, V.pyLt, V.num?, pyLen,
      fsROR, fsRORint, fsPBMint, get_set, startNew_quiet rails hsub _ hq, gi, gf, hi, hf, pyGet_strs names k nm hnm, hfind, IRail.cfg, hk]
    simp [markInterrupted, extensionInterrupt, resumeLoop, resumePass, setAt, hfind, IRail.cfg, hk, b1, b2, b3, b4, b5, b6]

set_option maxRecDepth 8000 in
/-- the rail's action finished: a check rail that allows / a rewriting rail completes, `run output rails` resumes,
    increments `$i` exactly once and asks for the `OutputRailFinished` marker -/
theorem TO_c (hsub : ∀ r ∈ rails, r.isSubflow = true) (σ u : Ctx) (c u0 u1 uc : Nat) (h01 : u0 < u1) (h1c : u1 < uc) (nx : Option NextStep)
    (k : Nat) (nm : String) (r : IRail)
    (hi : σ.get "i" = .int k)
    (hpass : match r.kind with | .check _ => σ.get "allowed" = .bool true | .rewrite _ => True)
    (hfind : Cfgs.find (base ++ rails) nm = some (IRail.cfg "bot_message" r)) (hact : r.action ≠ "utter") :
    computeNextState true (base ++ rails)
      { ctx := σ, flows := [{ uid := uc, flowId := nm, head := 0 }, fsRORint u1 uc, fsPBMint u0 u1], next := nx, upd := u, ctr := c }
      (.actionFinished r.action true)
    = .ok { ctx := (σ.withEvent (.actionFinished r.action true)).set "i" (.int (k + 1)),
            flows := [{ uid := uc, flowId := nm, head := (match r.kind with | .check _ => -2 | .rewrite _ => -1), status := .completed },
                      fsROR u1 8, fsPBMint u0 u1],
            next := some { elem := createOutRailFinished, uid := u1, prio := 10000 },
            upd := [("i", .int (k + 1))], ctr := c } := by
  have hq : Quiet (.actionFinished r.action true) = true := by
    show (r.action != "utter") = true
    exact bne_iff_ne.mpr hact
  have gi := get_withEvent_plain σ (.actionFinished r.action true) "i" (by plain_tac)
  have ga := get_withEvent_plain σ (.actionFinished r.action true) "allowed" (by plain_tac)
  have hne1 : u0 ≠ u1 := by omega
  have hne2 : uc ≠ u1 := by omega
  have hne3 : uc ≠ u0 := by omega
  have b1 : (uc == u1) = false := beq_false_of_ne hne2
  have b2 : (u1 == uc) = false := beq_false_of_ne (Ne.symm hne2)
  have b3 : (uc == u0) = false := beq_false_of_ne hne3
  have b4 : (u0 == uc) = false := beq_false_of_ne (Ne.symm hne3)
  have b5 : (u0 == u1) = false := beq_false_of_ne hne1
  have b6 : (u1 == u0) = false := beq_false_of_ne (Ne.symm hne1)
  cases hk : r.kind <;> rw [hk] at hpass <;> simp only [] at hpass ⊢ <;>
  · simp [computeNextState, advanceAll, advanceOne, find_pbm, find_ror, find_rdr, SUB_FUEL, slideWithSubflows, SLIDE_FUEL, slide, sstep,
      ror_elems, ror_triggers, ror_flags, pbm_elems, pbm_triggers, pbm_flags,
      initPrev, recordNextStep, pyIndex, isActionable, isMatch, Event.triggers, eval, evalBin, V.truthy, V.pyLt, V.num?, pyLen,
      fsROR, fsRORint, fsPBMint, createOutRailFinished, get_set, startNew_quiet rails hsub _ hq, gi, ga, hi, hpass, hfind, IRail.cfg, hk]
    simp [markInterrupted, extensionInterrupt, resumeLoop, resumePass, setAt, hfind, IRail.cfg, hk, b1, b2, b3, b4, b5, b6,
      find_pbm, find_ror, SUB_FUEL, slideWithSubflows, SLIDE_FUEL, slide, sstep, ror_elems, ror_flags, initPrev, recordNextStep, pyIndex,
      isActionable, eval, evalBin, V.num?, get_set, gi, hi, fsROR, fsRORint, fsPBMint, createOutRailFinished]
    rfl

set_option maxRecDepth 8000 in
/-- the `OutputRailFinished` marker arrived and rails remain: back at the loop head with the next rail -/
theorem TO_d_cont (hsub : ∀ r ∈ rails, r.isSubflow = true) (σ u : Ctx) (c u0 u1 : Nat) (h01 : u0 < u1) (nx : Option NextStep)
    (names : List String) (k : Nat) (nm : String) (v : V)
    (hi : σ.get "i" = .int k) (hf : σ.get "output_flows" = .strs names) (hnm : names[k]? = some nm) :
    computeNextState true (base ++ rails)
      { ctx := σ, flows := [fsROR u1 9, fsPBMint u0 u1], next := nx, upd := u, ctr := c } (.other "OutputRailFinished" [("flow_id", v)])
    = .ok { ctx := ((σ.withEvent (.other "OutputRailFinished" [("flow_id", v)])).set "triggered_output_rail" .none).set "triggered_output_rail" (.str nm),
            flows := [fsROR u1 4, fsPBMint u0 u1],
            next := some { elem := createStartOutRail, uid := u1, prio := 10000 },
            upd := [("triggered_output_rail", .str nm)], ctr := c } := by
  have hq : Quiet (.other "OutputRailFinished" [("flow_id", v)]) = true := rfl
  have gi := get_withEvent_plain σ (.other "OutputRailFinished" [("flow_id", v)]) "i" (by plain_tac)
  have gf := get_withEvent_plain σ (.other "OutputRailFinished" [("flow_id", v)]) "output_flows" (by plain_tac)
  have hne1 : u0 ≠ u1 := by omega
  have b5 : (u0 == u1) = false := beq_false_of_ne hne1
  have b6 : (u1 == u0) = false := beq_false_of_ne (Ne.symm hne1)
  have hk : k < names.length := by
    rcases Nat.lt_or_ge k names.length with h' | h'
    · exact h'
    · rw [List.getElem?_eq_none h'] at hnm; cases hnm
  have hlt : ((k : Int) < (names.length : Int)) := by omega
  simp [computeNextState, advanceAll, advanceOne, find_pbm, find_ror, find_rdr, SUB_FUEL, slideWithSubflows, SLIDE_FUEL, slide, sstep,
      ror_elems, ror_triggers, ror_flags, pbm_elems, pbm_triggers, pbm_flags,
      initPrev, recordNextStep, pyIndex, isActionable, isMatch, Event.triggers, eval, evalBin, V.truthy, V.pyLt, V.num?, pyLen,
      fsROR, fsRORint, fsPBMint, createStartOutRail, get_set, startNew_quiet rails hsub _ hq, gi, gf, hi, hf, pyGet_strs names k nm hnm, hlt]
  simp [markInterrupted, extensionInterrupt, resumeLoop, resumePass, setAt, b5, b6, find_ror, ror_flags, fsROR, fsPBMint, createStartOutRail]
  simp [Ctx.set]

set_option maxRecDepth 8000 in
/-- the `OutputRailFinished` marker arrived and `$i = len($output_flows)`: the loop is left, `run output rails` completes,
    `process bot message` resumes and asks for the `OutputRailsFinished` marker -/
theorem TO_d_exit (hsub : ∀ r ∈ rails, r.isSubflow = true) (σ u : Ctx) (c u0 u1 : Nat) (h01 : u0 < u1) (nx : Option NextStep)
    (names : List String) (v : V)
    (hi : σ.get "i" = .int names.length) (hf : σ.get "output_flows" = .strs names) :
    computeNextState true (base ++ rails)
      { ctx := σ, flows := [fsROR u1 9, fsPBMint u0 u1], next := nx, upd := u, ctr := c } (.other "OutputRailFinished" [("flow_id", v)])
    = .ok { ctx := (σ.withEvent (.other "OutputRailFinished" [("flow_id", v)])).set "triggered_output_rail" .none,
            flows := [{ uid := u1, flowId := "run output rails", head := -3, status := .completed },
                      { uid := u0, flowId := "process bot message", head := 10 }],
            next := some { elem := createOutRailsFinished, uid := u0, prio := 1000000 },
            upd := [("triggered_output_rail", .none)], ctr := c } := by
  have hq : Quiet (.other "OutputRailFinished" [("flow_id", v)]) = true := rfl
  have gi := get_withEvent_plain σ (.other "OutputRailFinished" [("flow_id", v)]) "i" (by plain_tac)
  have gf := get_withEvent_plain σ (.other "OutputRailFinished" [("flow_id", v)]) "output_flows" (by plain_tac)
  have hne1 : u0 ≠ u1 := by omega
  have b5 : (u0 == u1) = false := beq_false_of_ne hne1
  have b6 : (u1 == u0) = false := beq_false_of_ne (Ne.symm hne1)
  simp [computeNextState, advanceAll, advanceOne, find_pbm, find_ror, find_rdr, SUB_FUEL, slideWithSubflows, SLIDE_FUEL, slide, sstep,
      ror_elems, ror_triggers, ror_flags, pbm_elems, pbm_triggers, pbm_flags,
      initPrev, recordNextStep, pyIndex, isActionable, isMatch, Event.triggers, eval, evalBin, V.truthy, V.pyLt, V.num?, pyLen,
      fsROR, fsRORint, fsPBMint, createOutRailsFinished, get_set, startNew_quiet rails hsub _ hq, gi, gf, hi, hf]
  simp [markInterrupted, extensionInterrupt, resumeLoop, resumePass, setAt, b5, b6, find_ror, find_pbm, ror_flags, pbm_flags, pbm_elems, fsROR, fsPBMint,
    createOutRailsFinished, SUB_FUEL, slideWithSubflows, SLIDE_FUEL, slide, sstep, initPrev, recordNextStep, pyIndex, isActionable]
  rfl


/-! ### one iteration, and the loop for any number of rails -/

/-- what the loop reads from the context: `$i`, `$output_flows`, `$user_message`, `$allowed` -/
def FactsO (σ : Ctx) (i : Nat) (names : List String) (um al : V) : Prop :=
  σ.get "i" = .int i ∧ σ.get "output_flows" = .strs names ∧ σ.get "bot_message" = um ∧ σ.get "allowed" = al

theorem FactsO.withActFin {σ i names um al} (h : FactsO σ i names um al) (n : String) (ok : Bool) :
    FactsO (σ.withEvent (.actionFinished n ok)) i names um al := by
  obtain ⟨h1, h2, h3, h4⟩ := h
  exact ⟨(get_withEvent_plain σ (.actionFinished n ok) "i" (by plain_tac)).trans h1, (get_withEvent_plain σ (.actionFinished n ok) "output_flows" (by plain_tac)).trans h2,
    (get_withEvent_plain σ (.actionFinished n ok) "bot_message" (by plain_tac)).trans h3, (get_withEvent_plain σ (.actionFinished n ok) "allowed" (by plain_tac)).trans h4⟩

theorem FactsO.withEv {σ i names um al} (h : FactsO σ i names um al) (ev : Event)
    (hp : plainFor ev "i" = true ∧ plainFor ev "output_flows" = true ∧ plainFor ev "bot_message" = true ∧ plainFor ev "allowed" = true) :
    FactsO (σ.withEvent ev) i names um al := by
  obtain ⟨g1, g2, g3, g4⟩ := h
  exact ⟨(get_withEvent_plain σ ev _ hp.1).trans g1, (get_withEvent_plain σ ev _ hp.2.1).trans g2,
    (get_withEvent_plain σ ev _ hp.2.2.1).trans g3, (get_withEvent_plain σ ev _ hp.2.2.2).trans g4⟩

theorem FactsO.withMarker {σ i names um al} (h : FactsO σ i names um al) (ty : String) (v : V)
    (h1 : ty ≠ "UserMessage") (h2 : ty ≠ "StartUtteranceBotAction") :
    FactsO (σ.withEvent (.other ty [("flow_id", v)])) i names um al := by
  have e : σ.withEvent (.other ty [("flow_id", v)]) = (Event.other ty [("flow_id", v)]).props ++ σ.filter fun kv => !kv.1.startsWith "event." := by
    unfold Ctx.withEvent
    split
    · rename_i h; cases h; exact absurd rfl h1
    · rename_i h; cases h; exact absurd rfl h2
    · rfl
  obtain ⟨g1, g2, g3, g4⟩ := h
  have key : ∀ k : String, (!k.startsWith "event.") = true → (k == "event.type") = false → (k == "event.flow_id") = false →
      (σ.withEvent (.other ty [("flow_id", v)])).get k = σ.get k := by
    intro k hk e1' e2'
    rw [e]
    exact (get_append_miss _ _ _ (by simp [Event.props, List.lookup, e1', e2'])).trans
      ((get_filter_key (fun s => !s.startsWith "event.") σ _).trans (if_pos hk))
  exact ⟨(key "i" (by decide +kernel) (by decide) (by decide)).trans g1, (key "output_flows" (by decide +kernel) (by decide) (by decide)).trans g2,
    (key "bot_message" (by decide +kernel) (by decide) (by decide)).trans g3, (key "allowed" (by decide +kernel) (by decide) (by decide)).trans g4⟩

theorem FactsO.setOther {σ i names um al} (h : FactsO σ i names um al) (k : String) (v : V)
    (hk : k ≠ "i" ∧ k ≠ "output_flows" ∧ k ≠ "bot_message" ∧ k ≠ "allowed") : FactsO (σ.set k v) i names um al := by
  obtain ⟨g1, g2, g3, g4⟩ := h
  obtain ⟨k1, k2, k3, k4⟩ := hk
  refine ⟨?_, ?_, ?_, ?_⟩ <;> rw [get_set] <;> simp [Ne.symm k1, Ne.symm k2, Ne.symm k3, Ne.symm k4, *]

theorem FactsO.setI {σ i names um al} (h : FactsO σ i names um al) (j : Nat) : FactsO (σ.set "i" (.int j)) j names um al := by
  obtain ⟨g1, g2, g3, g4⟩ := h
  refine ⟨?_, ?_, ?_, ?_⟩ <;> rw [get_set] <;> simp [*]

theorem FactsO.setAllowed {σ i names um al} (h : FactsO σ i names um al) (v : V) : FactsO (σ.set "allowed" v) i names um v := by
  obtain ⟨g1, g2, g3, g4⟩ := h
  refine ⟨?_, ?_, ?_, ?_⟩ <;> rw [get_set] <;> simp [*]

theorem FactsO.setBM {σ i names um al} (h : FactsO σ i names um al) (v : V) : FactsO (σ.set "bot_message" v) i names v al := by
  obtain ⟨g1, g2, g3, g4⟩ := h
  refine ⟨?_, ?_, ?_, ?_⟩ <;> rw [get_set] <;> simp [*]


/-- the interpreter state at the head of the `while` loop: `run output rails` waits at the `create event StartOutputRail`
    of iteration `$i`, `process bot message` waits for it -/
def headStateO (σ u : Ctx) (c u0 u1 : Nat) : State :=
  { ctx := σ, flows := [fsROR u1 4, fsPBMint u0 u1], next := some ⟨createStartOutRail, u1, 10000⟩, upd := u, ctr := c }

/-- the state after the loop: `run output rails` completed, `process bot message` asks for `OutputRailsFinished` -/
def exitStateO (σ : Ctx) (c u0 u1 : Nat) : State :=
  { ctx := σ, flows := [{ uid := u1, flowId := "run output rails", head := -3, status := .completed }, { uid := u0, flowId := "process bot message", head := 10 }],
    next := some ⟨createOutRailsFinished, u0, 1000000⟩, upd := [("triggered_output_rail", .none)], ctr := c }

def resultKeyO (r : IRail) : String := match r.kind with | .check _ => "allowed" | .rewrite _ => "bot_message"

/-- the events `generate_events` appends during ONE iteration for a rail whose action lets the loop continue:
    `res` = the `ContextUpdate` of the action's result key, absent when the value did not change -/
def iterEventsO (u : Ctx) (r : IRail) (res : Option V) (k : Nat) (v1 v2 : V) : List Event :=
  [.contextUpdate u, .startAction, .actionFinished "create_event" true, .other "StartOutputRail" [("flow_id", v1)], .startAction] ++
  (match res with | none => [] | some v => [.contextUpdate [(resultKeyO r, v)]]) ++
  [.actionFinished r.action true, .contextUpdate [("i", .int (k + 1))], .startAction, .actionFinished "create_event" true,
   .other "OutputRailFinished" [("flow_id", v2)]]

variable (rails : Cfgs)

/-- first half of an iteration: marker, sub-flow call; the interpreter now asks for the rail's action -/
theorem iter_callO (hsub : ∀ r ∈ rails, r.isSubflow = true) (σ u : Ctx) (c u0 u1 : Nat) (h01 : u0 < u1) (h1c : u1 < c)
    (names : List String) (k : Nat) (um al : V) (nm : String) (r : IRail) (v1 : V)
    (hF : FactsO (σ.update u) k names um al) (hnm : names[k]? = some nm)
    (hfind : Cfgs.find (base ++ rails) nm = some (IRail.cfg "bot_message" r)) (hname : r.name = nm) (rest : List Event) :
    ∃ σ2, FactsO σ2 k names um al ∧
      replay true (base ++ rails) ([.contextUpdate u, .startAction, .actionFinished "create_event" true, .other "StartOutputRail" [("flow_id", v1)], .startAction] ++ rest)
        (headStateO σ u c u0 u1)
      = replay true (base ++ rails) rest
        { ctx := σ2, flows := [{ uid := c, flowId := nm, head := 0 }, fsRORint u1 c, fsPBMint u0 u1],
          next := some { elem := Elem.runAction r.action none "{}" (some (resultKeyO r)), uid := c, prio := 10000 }, upd := [], ctr := c + 1 } := by
  refine ⟨((σ.update u).withEvent (.actionFinished "create_event" true)).withEvent (.other "StartOutputRail" [("flow_id", v1)]),
    (hF.withActFin _ _).withMarker _ _ (by decide) (by decide), ?_⟩
  simp only [List.cons_append, List.nil_append, headStateO]
  rw [replay_cons_ok _ _ _ _ _ (cns_ctx _ _ _) (by simp), replay_cons_ok _ _ _ _ _ (cns_start _ _) (by simp),
    replay_cons_ok _ _ _ _ _ (TO_a4 rails hsub _ _ _ _ _ _) (by simp)]
  have hF1 := hF.withActFin "create_event" true
  rw [replay_cons_ok _ _ _ _ _ (TO_b rails hsub _ _ c u0 u1 h01 h1c _ names k nm r v1 hF1.1 hF1.2.1 hnm hfind hname) (by simp),
    replay_cons_ok _ _ _ _ _ (cns_start _ _) (by simp)]
  rfl

/-- second half of an iteration: the rail's action finished without blocking; `$i` is incremented once, the finish
    marker is created, and the loop either continues with rail `k+1` or is left -/
theorem iter_returnO (hsub : ∀ r ∈ rails, r.isSubflow = true) (σ u : Ctx) (c u0 u1 uc : Nat) (h01 : u0 < u1) (h1c : u1 < uc) (nx : Option NextStep)
    (names : List String) (k : Nat) (um al : V) (nm : String) (r : IRail) (v2 : V)
    (hF : FactsO σ k names um al)
    (hpass : match r.kind with | .check _ => al = .bool true | .rewrite _ => True)
    (hfind : Cfgs.find (base ++ rails) nm = some (IRail.cfg "bot_message" r)) (hact : r.action ≠ "utter") (rest : List Event) :
    (∀ nm', names[k + 1]? = some nm' →
      ∃ σ', FactsO (σ'.update [("triggered_output_rail", .str nm')]) (k + 1) names um al ∧
        replay true (base ++ rails) ([.actionFinished r.action true, .contextUpdate [("i", .int (k + 1))], .startAction,
            .actionFinished "create_event" true, .other "OutputRailFinished" [("flow_id", v2)]] ++ rest)
          { ctx := σ, flows := [{ uid := uc, flowId := nm, head := 0 }, fsRORint u1 uc, fsPBMint u0 u1], next := nx, upd := u, ctr := c }
        = replay true (base ++ rails) rest (headStateO σ' [("triggered_output_rail", .str nm')] c u0 u1)) ∧
    (k + 1 = names.length →
      ∃ σ', FactsO σ' (k + 1) names um al ∧
        replay true (base ++ rails) ([.actionFinished r.action true, .contextUpdate [("i", .int (k + 1))], .startAction,
            .actionFinished "create_event" true, .other "OutputRailFinished" [("flow_id", v2)]] ++ rest)
          { ctx := σ, flows := [{ uid := uc, flowId := nm, head := 0 }, fsRORint u1 uc, fsPBMint u0 u1], next := nx, upd := u, ctr := c }
        = replay true (base ++ rails) rest (exitStateO σ' c u0 u1)) := by
  have hpass' : match r.kind with | .check _ => σ.get "allowed" = .bool true | .rewrite _ => True := by
    cases hk : r.kind <;> rw [hk] at hpass <;> simp only [] at hpass ⊢
    exact hF.2.2.2.trans hpass
  have hTOc := TO_c rails hsub σ u c u0 u1 uc h01 h1c nx k nm r hF.1 hpass' hfind hact
  have hne : Event.actionFinished r.action true ≠ .botIntent "stop" := by simp
  -- the contexts along the five events
  let σa := (σ.withEvent (.actionFinished r.action true)).set "i" (.int ((k : Int) + 1))
  let σb := σa.set "i" (.int ((k : Int) + 1))
  let σc := σb.withEvent (.actionFinished "create_event" true)
  let σd := σc.withEvent (.other "OutputRailFinished" [("flow_id", v2)])
  have hFb : FactsO σb (k + 1) names um al := ((hF.withActFin _ _).setI (k + 1)).setI (k + 1)
  have hFc : FactsO σc (k + 1) names um al := hFb.withActFin _ _
  have hFd : FactsO σd (k + 1) names um al := hFc.withMarker _ _ (by decide) (by decide)
  have hprefix : ∀ rest', replay true (base ++ rails) ([.actionFinished r.action true, .contextUpdate [("i", .int (k + 1))], .startAction,
            .actionFinished "create_event" true] ++ rest')
          { ctx := σ, flows := [{ uid := uc, flowId := nm, head := 0 }, fsRORint u1 uc, fsPBMint u0 u1], next := nx, upd := u, ctr := c }
        = replay true (base ++ rails) rest' { ctx := σc, flows := [fsROR u1 9, fsPBMint u0 u1], next := none, upd := [], ctr := c } := by
    intro rest'
    simp only [List.cons_append, List.nil_append]
    rw [replay_cons_ok _ _ _ _ _ hTOc hne, replay_cons_ok _ _ _ _ _ (cns_ctx _ _ _) (by simp), replay_cons_ok _ _ _ _ _ (cns_start _ _) (by simp)]
    simp only [update_single]
    rw [replay_cons_ok _ _ _ _ _ (TO_a8 rails hsub _ _ _ _ _ _ nm _ _ hfind _) (by simp)]
  constructor
  · intro nm' hnm'
    refine ⟨(σd.set "triggered_output_rail" .none).set "triggered_output_rail" (.str nm'), ?_, ?_⟩
    · rw [update_single]
      exact ((hFd.setOther _ _ (by decide)).setOther _ _ (by decide)).setOther _ _ (by decide)
    · have := hprefix ([.other "OutputRailFinished" [("flow_id", v2)]] ++ rest)
      simp only [List.cons_append, List.nil_append] at this ⊢
      rw [this, replay_cons_ok _ _ _ _ _ (TO_d_cont rails hsub _ _ c u0 u1 h01 _ names (k + 1) nm' v2 (by exact_mod_cast hFc.1) hFc.2.1 hnm') (by simp)]
      rfl
  · intro hlen
    refine ⟨σd.set "triggered_output_rail" .none, hFd.setOther _ _ (by decide), ?_⟩
    have := hprefix ([.other "OutputRailFinished" [("flow_id", v2)]] ++ rest)
    simp only [List.cons_append, List.nil_append] at this ⊢
    rw [this, replay_cons_ok _ _ _ _ _ (TO_d_exit rails hsub _ _ c u0 u1 h01 _ names v2 (by rw [← hlen]; exact_mod_cast hFc.1) hFc.2.1) (by simp)]
    rfl

/-- the events `generate_events` appends while the remaining rails `rs` (from index `k`) all let the message pass -/
inductive LoopRunO : List IRail → Nat → Ctx → V → V → List Event → Prop
  | last (r : IRail) (k : Nat) (u : Ctx) (um al : V) (res : Option V) (v1 v2 : V) (hp : passes r um) (hr : resOK r um al res) :
      LoopRunO [r] k u um al (iterEventsO u r res k v1 v2)
  | cons (r r' : IRail) (rs : List IRail) (k : Nat) (u : Ctx) (um al : V) (res : Option V) (v1 v2 : V) (es : List Event)
      (hp : passes r um) (hr : resOK r um al res)
      (hrest : LoopRunO (r' :: rs) (k + 1) [("triggered_output_rail", .str r'.name)] (stepVals r um al).1 (stepVals r um al).2 es) :
      LoopRunO (r :: r' :: rs) k u um al (iterEventsO u r res k v1 v2 ++ es)

def RailOKO (r : IRail) : Prop :=
  Cfgs.find (base ++ rails) r.name = some (IRail.cfg "bot_message" r) ∧ r.action ≠ "utter"

/-- one whole iteration for a passing rail, up to the two ways it can end -/
theorem iter_fullO (hsub : ∀ r ∈ rails, r.isSubflow = true) (σ u : Ctx) (c u0 u1 : Nat) (h01 : u0 < u1) (h1c : u1 < c)
    (names : List String) (k : Nat) (um al : V) (r : IRail) (res : Option V) (v1 v2 : V)
    (hF : FactsO (σ.update u) k names um al) (hnm : names[k]? = some r.name) (hok : RailOKO rails r)
    (hp : passes r um) (hr : resOK r um al res) (rest : List Event) :
    (∀ nm', names[k + 1]? = some nm' →
      ∃ σ', FactsO (σ'.update [("triggered_output_rail", .str nm')]) (k + 1) names (stepVals r um al).1 (stepVals r um al).2 ∧
        replay true (base ++ rails) (iterEventsO u r res k v1 v2 ++ rest) (headStateO σ u c u0 u1)
        = replay true (base ++ rails) rest (headStateO σ' [("triggered_output_rail", .str nm')] (c + 1) u0 u1)) ∧
    (k + 1 = names.length →
      ∃ σ', FactsO σ' (k + 1) names (stepVals r um al).1 (stepVals r um al).2 ∧
        replay true (base ++ rails) (iterEventsO u r res k v1 v2 ++ rest) (headStateO σ u c u0 u1)
        = replay true (base ++ rails) rest (exitStateO σ' (c + 1) u0 u1)) := by
  obtain ⟨hfind, hact⟩ := hok
  -- after the call
  have hcall := fun rest' => iter_callO rails hsub σ u c u0 u1 h01 h1c names k um al r.name r v1 hF hnm hfind rfl rest'
  -- the result update (if any) and the facts after it
  have hmid : ∀ σ2, FactsO σ2 k names um al → ∀ rest', ∃ σ3 nx, FactsO σ3 k names (stepVals r um al).1 (stepVals r um al).2 ∧
      replay true (base ++ rails) ((match res with | none => [] | some v => [Event.contextUpdate [(resultKeyO r, v)]]) ++ rest')
        { ctx := σ2, flows := [{ uid := c, flowId := r.name, head := 0 }, fsRORint u1 c, fsPBMint u0 u1],
          next := some { elem := Elem.runAction r.action none "{}" (some (resultKeyO r)), uid := c, prio := 10000 }, upd := [], ctr := c + 1 }
      = replay true (base ++ rails) rest'
        { ctx := σ3, flows := [{ uid := c, flowId := r.name, head := 0 }, fsRORint u1 c, fsPBMint u0 u1], next := nx, upd := [], ctr := c + 1 } := by
    intro σ2 hF2 rest'
    cases hres : res with
    | none =>
      refine ⟨σ2, _, ?_, rfl⟩
      rw [hres] at hr
      cases hk : r.kind with
      | check a =>
        simp only [resOK, hk, railResult] at hr
        simp only [passes, hk] at hp
        simp only [stepVals, hk]
        obtain ⟨g1, g2, g3, g4⟩ := hF2
        exact ⟨g1, g2, g3, by rw [g4, hr, hp]⟩
      | rewrite f =>
        simp only [resOK, hk, railResult] at hr
        simp only [stepVals, hk]
        obtain ⟨g1, g2, g3, g4⟩ := hF2
        exact ⟨g1, g2, by rw [g3]; exact hr, g4⟩
    | some v =>
      rw [hres] at hr
      simp only [resOK] at hr
      cases hk : r.kind with
      | check a =>
        simp only [passes, hk] at hp
        refine ⟨σ2.set "allowed" v, none, ?_, ?_⟩
        · simp only [stepVals, hk]
          have : v = .bool true := by rw [hr]; simp [railResult, hk, hp]
          rw [this]; exact hF2.setAllowed _
        · simp only [List.cons_append, List.nil_append]
          rw [replay_cons_ok _ _ _ _ _ (cns_ctx _ _ _) (by simp)]
          simp [resultKeyO, hk, update_single]
      | rewrite f =>
        refine ⟨σ2.set "bot_message" v, none, ?_, ?_⟩
        · simp only [stepVals, hk]
          have : v = .str (f (strOf um)) := by rw [hr]; simp [railResult, hk]
          rw [this]; exact hF2.setBM _
        · simp only [List.cons_append, List.nil_append]
          rw [replay_cons_ok _ _ _ _ _ (cns_ctx _ _ _) (by simp)]
          simp [resultKeyO, hk, update_single]
  have hpass : match r.kind with | .check _ => (stepVals r um al).2 = .bool true | .rewrite _ => True := by
    cases hk : r.kind <;> simp [stepVals, hk]
  have hsplit : ∀ rest', iterEventsO u r res k v1 v2 ++ rest' =
      [.contextUpdate u, .startAction, .actionFinished "create_event" true, .other "StartOutputRail" [("flow_id", v1)], .startAction] ++
      ((match res with | none => [] | some v => [Event.contextUpdate [(resultKeyO r, v)]]) ++
       ([.actionFinished r.action true, .contextUpdate [("i", .int (k + 1))], .startAction, .actionFinished "create_event" true,
         .other "OutputRailFinished" [("flow_id", v2)]] ++ rest')) := by
    intro rest'; simp [iterEventsO, List.append_assoc]
  constructor
  · intro nm' hnm'
    obtain ⟨σ2, hF2, e1⟩ := hcall ((match res with | none => [] | some v => [Event.contextUpdate [(resultKeyO r, v)]]) ++
       ([.actionFinished r.action true, .contextUpdate [("i", .int (k + 1))], .startAction, .actionFinished "create_event" true,
         .other "OutputRailFinished" [("flow_id", v2)]] ++ rest))
    obtain ⟨σ3, nx, hF3, e2⟩ := hmid σ2 hF2 ([.actionFinished r.action true, .contextUpdate [("i", .int (k + 1))], .startAction, .actionFinished "create_event" true,
         .other "OutputRailFinished" [("flow_id", v2)]] ++ rest)
    obtain ⟨σ', hF', e3⟩ := (iter_returnO rails hsub σ3 [] (c + 1) u0 u1 c h01 h1c nx names k _ _ r.name r v2 hF3 hpass hfind hact rest).1 nm' hnm'
    exact ⟨σ', hF', by rw [hsplit, e1, e2, e3]⟩
  · intro hlen
    obtain ⟨σ2, hF2, e1⟩ := hcall ((match res with | none => [] | some v => [Event.contextUpdate [(resultKeyO r, v)]]) ++
       ([.actionFinished r.action true, .contextUpdate [("i", .int (k + 1))], .startAction, .actionFinished "create_event" true,
         .other "OutputRailFinished" [("flow_id", v2)]] ++ rest))
    obtain ⟨σ3, nx, hF3, e2⟩ := hmid σ2 hF2 ([.actionFinished r.action true, .contextUpdate [("i", .int (k + 1))], .startAction, .actionFinished "create_event" true,
         .other "OutputRailFinished" [("flow_id", v2)]] ++ rest)
    obtain ⟨σ', hF', e3⟩ := (iter_returnO rails hsub σ3 [] (c + 1) u0 u1 c h01 h1c nx names k _ _ r.name r v2 hF3 hpass hfind hact rest).2 hlen
    exact ⟨σ', hF', by rw [hsplit, e1, e2, e3]⟩

/-- **The `while $i < len($output_flows)` loop of the generated `run output rails`, for ANY number of rails**: from the loop
    head at index `k` (interpreter state `headStateO`: position 4 of `run output rails`, `$i = k`, `$user_message = um`),
    replaying the events the runtime appends while the remaining rails `rs` let the message pass ends in `exitStateO`:
    `run output rails` completed, `process bot message` about to create `OutputRailsFinished`, `$i = len`, and
    `$user_message` / `$allowed` are what folding the rails over the text gives (`finalVals`).  Induction over the remaining
    rails; the invariant is `FactsO` + the shape of the flow states. -/
theorem output_rails_loop (hsub : ∀ r ∈ rails, r.isSubflow = true) (names : List String) (u0 u1 : Nat) (h01 : u0 < u1) :
    ∀ (rs : List IRail) (k : Nat) (u : Ctx) (um al : V) (es : List Event), LoopRunO rs k u um al es →
      names.drop k = rs.map (·.name) → (∀ r ∈ rs, RailOKO rails r) →
      ∀ (σ : Ctx) (c : Nat), u1 < c → FactsO (σ.update u) k names um al → ∀ rest : List Event,
      ∃ σ' c', FactsO σ' names.length names (finalVals rs um al).1 (finalVals rs um al).2 ∧
        replay true (base ++ rails) (es ++ rest) (headStateO σ u c u0 u1) = replay true (base ++ rails) rest (exitStateO σ' c' u0 u1) := by
  intro rs k u um al es hrun
  induction hrun with
  | last r k u um al res v1 v2 hp hr =>
    intro hnames hok σ c h1c hF rest
    obtain ⟨hnm, hdrop⟩ := drop_cons_facts names k r.name [] (by simpa using hnames)
    have hlen : k + 1 = names.length := by
      have h1 : names.length ≤ k + 1 := List.drop_eq_nil_iff.mp hdrop
      have h2 : k < names.length := by
        rcases Nat.lt_or_ge k names.length with h' | h'
        · exact h'
        · rw [List.getElem?_eq_none h'] at hnm; cases hnm
      omega
    obtain ⟨σ', hF', e⟩ := (iter_fullO rails hsub σ u c u0 u1 h01 h1c names k um al r res v1 v2 hF hnm (hok r (List.mem_cons_self ..)) hp hr rest).2 hlen
    exact ⟨σ', c + 1, by rw [← hlen]; exact hF', e⟩
  | cons r r' rs k u um al res v1 v2 es hp hr hrest ih =>
    intro hnames hok σ c h1c hF rest
    obtain ⟨hnm, hdrop⟩ := drop_cons_facts names k r.name ((r' :: rs).map (·.name)) (by simpa using hnames)
    obtain ⟨hnm', _⟩ := drop_cons_facts names (k + 1) r'.name (rs.map (·.name)) (by simpa using hdrop)
    obtain ⟨σ1, hF1, e1⟩ := (iter_fullO rails hsub σ u c u0 u1 h01 h1c names k um al r res v1 v2 hF hnm (hok r (List.mem_cons_self ..)) hp hr (es ++ rest)).1 r'.name hnm'
    obtain ⟨σ', c', hF', e2⟩ := ih (by simpa using hdrop) (fun x hx => hok x (List.mem_cons_of_mem _ hx)) σ1 (c + 1) (by omega) hF1 rest
    exact ⟨σ', c', hF', by rw [List.append_assoc, e1, e2]⟩


end NemoVerif.RailsInterp
