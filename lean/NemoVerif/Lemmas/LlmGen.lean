/-
  Lemmas about `Models/LlmGen.lean` (multi-step generation, single-call consumption, 2.x flow generation).
-/
import NemoVerif.Lemmas.LlmText
import NemoVerif.Models.LlmGen

namespace NemoVerif.LlmText
open NemoVerif.Py NemoVerif.Py.Str

/-! ### the shrink loop -/

theorem shrink_some (parses : Str → Bool) (lines : List Str) : ∀ (n : Nat) (body : Str), shrink parses lines n = some body →
    parses body = true ∧ ∃ k, 1 ≤ k ∧ k ≤ n ∧ body = join ['\n'] (lines.take k) ∧
      ∀ j, k < j → j ≤ n → parses (join ['\n'] (lines.take j)) = false
  | 0, body, h => by simp [shrink] at h
  | n + 1, body, h => by
    simp only [shrink] at h
    split at h
    · rename_i hp
      cases h
      exact ⟨hp, n + 1, by omega, Nat.le_refl _, rfl, fun j h1 h2 => by omega⟩
    · rename_i hp
      split at h
      · cases h
      · obtain ⟨hb, k, hk1, hk2, hbody, hmax⟩ := shrink_some parses lines n body h
        refine ⟨hb, k, hk1, by omega, hbody, ?_⟩
        intro j hj1 hj2
        by_cases hjn : j ≤ n
        · exact hmax j hj1 hjn
        · have : j = n + 1 := by omega
          subst this
          simpa using hp

theorem shrink_none (parses : Str → Bool) (lines : List Str) : ∀ (n : Nat), shrink parses lines n = none →
    ∀ j, 1 ≤ j → j ≤ n → parses (join ['\n'] (lines.take j)) = false
  | 0, _, j, h1, h2 => by omega
  | n + 1, h, j, h1, h2 => by
    simp only [shrink] at h
    split at h
    · cases h
    · rename_i hp
      split at h
      · rename_i hn
        have hn0 : n = 0 := by simpa using hn
        have : j = n + 1 := by omega
        subst this
        simpa using hp
      · by_cases hjn : j ≤ n
        · exact shrink_none parses lines n h j h1 hjn
        · have : j = n + 1 := by omega
          subst this
          simpa using hp

/-! ### multi-step -/

theorem orListen_ne_nil (l : List Ev) : orListen l ≠ [] := by
  unfold orListen
  split
  · simp
  · rename_i h
    intro hn; subst hn; simp at h

theorem orListen_cases (l : List Ev) : (l = [] ∧ orListen l = [.listen]) ∨ (l ≠ [] ∧ orListen l = l) := by
  unfold orListen
  cases l with
  | nil => left; simp
  | cons a t => right; simp

theorem multiStepNextStep_cases (parsesTop : Str → Bool) (p : Parser) (out : Str) :
    multiStepNextStep parsesTop p out = .botIntent generalResponse ∨
    ∃ body, multiStepNextStep parsesTop p out = .startFlow body ∧ parsesTop body = true := by
  unfold multiStepNextStep
  simp only
  cases h : shrink parsesTop (splitOn '\n' (p.apply out)) (splitOn '\n' (p.apply out)).length with
  | none => left; rfl
  | some body =>
    right
    exact ⟨body, rfl, (shrink_some _ _ _ _ h).1⟩

/-! ### single call -/

theorem reachesLlm_false_of_predefined (bms : List (Str × List Str)) (ctx : List (Str × CtxVal)) (bi : Str) (msgs : List Str)
    (h : lookup bi bms = some msgs) : reachesLlmBranch bms ctx bi = .ok false := by
  unfold reachesLlmBranch; rw [h]

theorem generateBotMessageSC_text_ne_nil (render : Str → Str) (bms : List (Str × List Str)) (ctx : List (Str × CtxVal))
    (bi : Str) (pick : Nat) (bi0 bm : Str) (hbm : bm ≠ []) (t : Except PyErr Str) (o : BotMsgOut)
    (h : generateBotMessageSC render bms ctx bi pick (some (bi0, bm)) t = .ok o) : o.text ≠ [] := by
  unfold generateBotMessageSC at h
  split at h
  · cases h
  · exact generateBotMessage_text_ne_nil _ _ _ _ _ _ _ h
  · simp only at h
    split at h
    · split at h
      · cases h
      · cases h; exact hbm
    · exact generateBotMessage_text_ne_nil _ _ _ _ _ _ _ h

theorem generateBotMessageSC_rendered (render : Str → Str) (bms : List (Str × List Str)) (ctx : List (Str × CtxVal))
    (bi : Str) (pick : Nat) (sc : Option (Str × Str)) (t : Except PyErr Str) (o : BotMsgOut)
    (h : generateBotMessageSC render bms ctx bi pick sc t = .ok o) :
    ∀ r ∈ o.rendered, ∃ msgs, (bi, msgs) ∈ bms ∧ r ∈ msgs := by
  unfold generateBotMessageSC at h
  split at h
  · cases h
  · exact generateBotMessage_rendered _ _ _ _ _ _ _ h
  · split at h
    · rename_i bi0 bm
      split at h
      · split at h
        · cases h
        · cases h; simp
      · exact generateBotMessage_rendered _ _ _ _ _ _ _ h
    · exact generateBotMessage_rendered _ _ _ _ _ _ _ h

/-! ### 2.x flow generation -/

theorem flowFromInstructions_ok (flowName result : Str) : ∃ o, flowFromInstructions flowName result = .ok o := by
  unfold flowFromInstructions
  obtain ⟨x, hx⟩ := first_splitOn_ok '\n' (removeLeadingEmptyLines result)
  simp only [hx]
  split <;> exact ⟨_, rfl⟩

theorem flowFromName_ok (name result : Str) : ∃ o, flowFromName name result = .ok o ∧ startsWith o (lit "flow ") = true := by
  unfold flowFromName
  obtain ⟨x, hx⟩ := first_splitOn_ok '\n' (removeLeadingEmptyLines result)
  simp only [hx]
  split
  · refine ⟨_, rfl, ?_⟩
    simp [startsWith, lit, List.isPrefixOf]
  · refine ⟨_, rfl, ?_⟩
    simp [startsWith, lit, List.isPrefixOf]

theorem flowContinuation_ok (escape : Str → Str) (uuid result : Str) : ∃ o, flowContinuation escape uuid result = .ok o := by
  unfold flowContinuation
  simp only
  split
  · exact ⟨_, rfl⟩
  · obtain ⟨x, hx⟩ := first_splitOn_ok '\n' (removeLeadingEmptyLines result)
    simp only [hx]
    exact ⟨_, rfl⟩

theorem indentLine_starts (l : Str) : startsWith (indentLine l) (lit "  ") = true := by
  unfold indentLine
  split
  · simp [startsWith, lit, List.isPrefixOf]
  · rename_i h
    simpa using h

theorem flowFromNld_ok (p : Parser) (uuid out : Str) : ∃ o, flowFromNld p uuid out = .ok o := by
  unfold flowFromNld
  obtain ⟨x, hx⟩ := first_splitOn_ok '\n' (removeLeadingEmptyLines (p.apply out))
  simp only [hx]
  split <;> (split <;> exact ⟨_, rfl⟩)

theorem postValueV2_ok (p : Parser) (lpl out : Str) : ∃ v, postValueV2 p lpl out = .ok v := by
  unfold postValueV2
  obtain ⟨v, hv⟩ := postValue_ok p out
  rw [hv]
  exact ⟨_, rfl⟩

/-! ### phase 4: `_process_start_flow` with its try/except, the `generate_events` loop -/

theorem processStartFlowE_cases {ε δ : Type} (parse : ParseOracle ε) (ns : Str → Except δ (List Ev)) (f b : Str) :
    (processStartFlowTry parse f (dynamicFlowSource f b) = .passed ∧ processStartFlowE parse ns f b = ns (dynamicFlowSource f b))
    ∨ (processStartFlowTry parse f (dynamicFlowSource f b) ≠ .passed ∧ processStartFlowE parse ns f b = .ok [.botIntent generalResponse]) := by
  unfold processStartFlowE
  cases h : processStartFlowTry parse f (dynamicFlowSource f b) <;> simp [h]

theorem tryPassed_iff {ε : Type} (parse : ParseOracle ε) (f src : Str) :
    processStartFlowTry parse f src = .passed ↔ parse src = .ok [f] := by
  unfold processStartFlowTry
  cases h : parse src with
  | error e => simp
  | ok flows =>
    match flows with
    | [] => simp [oneFlowWithId]
    | [g] => simp [oneFlowWithId]
    | _ :: _ :: _ => simp [oneFlowWithId]

theorem lastEv_append_some (a b : List Ev) (hb : b ≠ []) : lastEv (a ++ b) = lastEv b := by
  induction a with
  | nil => rfl
  | cons x xs ih =>
    cases hxs : xs ++ b with
    | nil => simp_all
    | cons y ys => simp only [List.cons_append, hxs, lastEv]; rw [← hxs]; exact ih

/-- outcome classes of the loop -/
theorem genLoop_spec {δ : Type} (step : List Ev → Except δ (List Ev)) :
    ∀ (fuel : Nat) (events new : List Ev),
      (∃ l, genLoop step fuel events new = .ok l ∧ l ≠ [] ∧ lastEv l = some .listen)
      ∨ genLoop step fuel events new = .error .tooManyEvents
      ∨ (∃ evs e, step evs = .error e ∧ genLoop step fuel events new = .error (.raised e)) := by
  intro fuel
  induction fuel with
  | zero => intro events new; right; left; rfl
  | succ n ih =>
    intro events new
    unfold genLoop
    cases hs : step events with
    | error e => right; right; exact ⟨events, e, hs, rfl⟩
    | ok next0 =>
      simp only
      split
      · rename_i hl
        left
        refine ⟨_, rfl, ?_, ?_⟩
        · have := orListen_ne_nil next0; intro h; simp_all
        · rw [lastEv_append_some _ _ (orListen_ne_nil next0)]; simpa using hl
      · split
        · right; left; rfl
        · exact ih _ _

theorem genLoop_tooMany_real {δ : Type} (step : List Ev → Except δ (List Ev)) :
    ∀ (fuel : Nat) (events new : List Ev), 102 ≤ fuel + new.length →
      genLoop step fuel events new = .error .tooManyEvents → ∃ extra, (new ++ extra).length > 100 := by
  intro fuel
  induction fuel with
  | zero => intro events new h _; exact ⟨[], by simp; omega⟩
  | succ n ih =>
    intro events new hlen h
    unfold genLoop at h
    cases hs : step events with
    | error e => simp [hs] at h
    | ok next0 =>
      simp only [hs] at h
      split at h
      · simp at h
      · split at h
        · rename_i hgt; exact ⟨orListen next0, hgt⟩
        · have hne := orListen_ne_nil next0
          have hpos : 0 < (orListen next0).length := List.length_pos_iff.2 hne
          obtain ⟨extra, hx⟩ := ih (events ++ orListen next0) (new ++ orListen next0) (by simp; omega) h
          exact ⟨orListen next0 ++ extra, by simpa [List.append_assoc] using hx⟩

theorem processStartFlowE_error {ε δ : Type} (parse : ParseOracle ε) (ns : Str → Except δ (List Ev)) (f b : Str) (d : δ)
    (h : processStartFlowE parse ns f b = .error d) :
    parse (dynamicFlowSource f b) = .ok [f] ∧ ns (dynamicFlowSource f b) = .error d := by
  rcases processStartFlowE_cases parse ns f b with ⟨hp, he⟩ | ⟨_, he⟩
  · exact ⟨(tryPassed_iff parse f _).1 hp, by rw [← he]; exact h⟩
  · rw [he] at h; cases h

theorem stepMS_error {ε δ : Type} (parse : ParseOracle ε) (ns : Str → Except δ (List Ev)) (cont : List Ev → Except δ (List Ev))
    (f : Str) (evs : List Ev) (d : δ) (h : stepMS parse ns cont f evs = .error d) :
    (∃ s, parse s = .ok [f] ∧ ns s = .error d) ∨ cont evs = .error d := by
  unfold stepMS at h
  split at h
  · left; exact ⟨_, processStartFlowE_error parse ns f _ d h⟩
  · right; exact h

/-! ### phase 4: the repaired loop; the `literal_eval` wrapper -/

theorem lastEv_internalError_listen (new : List Ev) : lastEv (new ++ (internalErrorEvents ++ [.listen])) = some .listen := by
  rw [lastEv_append_some _ _ (by simp [internalErrorEvents])]; rfl

theorem genLoopR_spec (step : List Ev → List Ev) :
    ∀ (fuel : Nat) (events new : List Ev), genLoopR step fuel events new ≠ [] ∧ lastEv (genLoopR step fuel events new) = some .listen := by
  intro fuel
  induction fuel with
  | zero =>
    intro events new
    exact ⟨by simp [genLoopR, internalErrorEvents], by simpa [genLoopR] using lastEv_internalError_listen new⟩
  | succ n ih =>
    intro events new
    unfold genLoopR
    simp only
    split
    · rename_i hl
      have hne := orListen_ne_nil (step events)
      exact ⟨by intro h; simp_all, by rw [lastEv_append_some _ _ hne]; simpa using hl⟩
    · split
      · exact ⟨by simp [internalErrorEvents], lastEv_internalError_listen _⟩
      · exact ih _ _

theorem generateValueV2R_spec {ε : Type} (literalEval : Str → Except ε Lit) (p : Parser) (lpl out : Str) :
    (∃ x, generateValueV2R literalEval p lpl out = .ok x ∧ x.isPlain = true)
    ∨ ∃ v, generateValueV2R literalEval p lpl out = .error (.invalidLlmResponse v) := by
  obtain ⟨v, hv⟩ := postValueV2_ok p lpl out
  unfold generateValueV2R
  simp only [hv]
  cases h : literalEval v with
  | error e => right; exact ⟨v, by simp⟩
  | ok x =>
    cases hp : x.isPlain with
    | true => left; exact ⟨x, by simp [hp], hp⟩
    | false => right; exact ⟨v, by simp [hp]⟩

theorem generateValueV2_spec {ε : Type} (literalEval : Str → Except ε Lit) (p : Parser) (lpl out : Str) :
    (∃ x, generateValueV2 literalEval p lpl out = .ok x)
    ∨ ∃ v, generateValueV2 literalEval p lpl out = .error (.invalidLlmResponse v) := by
  obtain ⟨v, hv⟩ := postValueV2_ok p lpl out
  unfold generateValueV2
  simp only [hv]
  cases h : literalEval v with
  | error e => right; exact ⟨v, by simp⟩
  | ok x => left; exact ⟨x, by simp⟩

/-! ### the guard `_is_plain_value` against the serialisation of the state (phase 6) -/

theorem Lit.allEncodableKV_of_strKeys : (kvs : List (Lit × Lit)) → kvs.all Lit.isStrKey = true → Lit.allEncodableKV kvs = Lit.allEncodableV kvs
  | [], _ => by simp [Lit.allEncodableKV, Lit.allEncodableV]
  | (k, v) :: xs, h => by
    simp only [List.all_cons, Bool.and_eq_true] at h
    have ih := Lit.allEncodableKV_of_strKeys xs h.2
    cases k <;> simp_all [Lit.isStrKey, Lit.allEncodableKV, Lit.allEncodableV, Lit.encodable]

mutual
/-- the guard accepts EXACTLY the values `encode_to_dict` accepts — at every position of the literal, dict keys included -/
theorem Lit.isPlain_eq_encodable : (x : Lit) → x.isPlain = x.encodable
  | .none | .bool _ | .int _ | .float _ | .str _ => by simp [Lit.isPlain, Lit.encodable]
  | .bytes _ | .complex _ | .ellipsis => by simp [Lit.isPlain, Lit.encodable]
  | .list l | .tuple l | .set l => by simp [Lit.isPlain, Lit.encodable, Lit.allPlain_eq l]
  | .dict kvs => by
    simp only [Lit.isPlain, Lit.encodable]
    rw [Lit.allPlainKV_eq kvs]
    split
    · rename_i h; exact Lit.allEncodableKV_of_strKeys kvs h
    · rfl
theorem Lit.allPlain_eq : (l : List Lit) → Lit.allPlain l = Lit.allEncodable l
  | [] => by simp [Lit.allPlain, Lit.allEncodable]
  | x :: xs => by simp [Lit.allPlain, Lit.allEncodable, Lit.isPlain_eq_encodable x, Lit.allPlain_eq xs]
theorem Lit.allPlainKV_eq : (l : List (Lit × Lit)) → Lit.allPlainKV l = Lit.allEncodableKV l
  | [] => by simp [Lit.allPlainKV, Lit.allEncodableKV]
  | (k, v) :: xs => by simp [Lit.allPlainKV, Lit.allEncodableKV, Lit.isPlain_eq_encodable k, Lit.isPlain_eq_encodable v, Lit.allPlainKV_eq xs]
end

theorem Lit.allPlain_mem : (l : List Lit) → Lit.allPlain l = true → ∀ x ∈ l, x.isPlain = true
  | [], _ => by simp
  | y :: ys, h => by
    simp only [Lit.allPlain, Bool.and_eq_true] at h
    intro x hx
    rcases List.mem_cons.mp hx with rfl | hx
    · exact h.1
    · exact Lit.allPlain_mem ys h.2 x hx

theorem Lit.allPlainKV_mem : (l : List (Lit × Lit)) → Lit.allPlainKV l = true → ∀ kv ∈ l, kv.1.isPlain = true ∧ kv.2.isPlain = true
  | [], _ => by simp
  | (k, v) :: ys, h => by
    simp only [Lit.allPlainKV, Bool.and_eq_true] at h
    intro x hx
    rcases List.mem_cons.mp hx with rfl | hx
    · exact ⟨h.1.1, h.1.2⟩
    · exact Lit.allPlainKV_mem ys h.2 x hx

theorem generateValueV2R_ok_plain {ε : Type} (literalEval : Str → Except ε Lit) (p : Parser) (lpl out : Str) (x : Lit)
    (h : generateValueV2R literalEval p lpl out = .ok x) : x.isPlain = true := by
  unfold generateValueV2R at h
  split at h
  · simp at h
  · split at h
    · simp at h
    · split at h
      · rename_i hp
        simp only [Except.ok.injEq] at h
        subst h
        exact hp
      · simp at h

theorem generateValueV2S_ok {ε : Type} (literalEval : Str → Except ε Lit) (p : Parser) (lpl out : Str) (x : Lit)
    (h : generateValueV2S literalEval p lpl out = .ok x) : x.isPlain = true ∧ x.printable = true := by
  unfold generateValueV2S at h
  split at h
  · simp at h
  · split at h
    · simp at h
    · split at h
      · rename_i hp
        simp only [Except.ok.injEq] at h
        subst h
        simpa using hp
      · simp at h

theorem generateValueV2S_spec {ε : Type} (literalEval : Str → Except ε Lit) (p : Parser) (lpl out : Str) :
    (∃ x, generateValueV2S literalEval p lpl out = .ok x)
    ∨ ∃ v, generateValueV2S literalEval p lpl out = .error (.invalidLlmResponse v) := by
  obtain ⟨v, hv⟩ := postValueV2_ok p lpl out
  unfold generateValueV2S
  simp only [hv]
  cases h : literalEval v with
  | error e => right; exact ⟨v, by simp⟩
  | ok x =>
    cases hp : (x.isPlain && x.printable) with
    | true => left; exact ⟨x, by simp [hp]⟩
    | false => right; exact ⟨v, by simp [hp]⟩

end NemoVerif.LlmText
