/-
  C07 (T2') — a pure and-group of any size over EVERY event sequence at the level of CoreVM's `slide`: `and_group_run` (induction over the
  events with `and_group_event`; the invariant "member heads on their `match` or parked, not all parked" is re-established by
  `GroupVM.p1Members_spec`).  The result is the clause machine `Dnf.run` on the one clause — i.e. the property statement
  (`run_spec`: first satisfying prefix) for and-groups, with `slide` of the interpreter model doing the work.
-/
import NemoVerif.Lemmas.GroupCoreVMLoop
import NemoVerif.Lemmas.Dnf
set_option linter.unusedSimpArgs false
namespace NemoVerif.CoreVM
open NemoVerif NemoVerif.CoreIndex
open NemoVerif.GroupVM (MLoc countWait p1Members QMs remMs mergingFrom QItem p1Members_spec mem_mergingFrom)

/-- the first MERGING member head -/
def firstMerging : List (HUid × Nat) → List (Nat × MLoc) → Option HUid
  | u :: _, (_, .merging) :: _ => some u.1
  | _ :: us, _ :: ms => firstMerging us ms
  | _, _ => none

theorem firstMerging_none_of_QMs : ∀ (us : List (HUid × Nat)) (ms : List (Nat × MLoc)), QMs ms → firstMerging us ms = none := by
  intro us
  induction us with
  | nil => intro ms _; cases ms <;> rfl
  | cons u us ih =>
    intro ms hq
    cases ms with
    | nil => rfl
    | cons m ms =>
      obtain ⟨a, l⟩ := m
      have hq' : QMs ms := fun x hx => hq x (List.mem_cons_of_mem _ hx)
      rcases hq (a, l) (by simp) with h | h <;> simp only at h <;> subst h <;> simp [firstMerging, ih ms hq']

theorem firstMerging_of_unique : ∀ (us : List (HUid × Nat)) (ms : List (Nat × MLoc)) (j : Nat) (uj : HUid × Nat) (a : Nat),
    us[j]? = some uj → ms[j]? = some (a, MLoc.merging) → (∀ j' m', ms[j']? = some m' → j' ≠ j → m'.2 ≠ MLoc.merging) →
    firstMerging us ms = some uj.1 := by
  intro us
  induction us with
  | nil => intro ms j uj a hu; simp at hu
  | cons u us ih =>
    intro ms j uj a hu hm hone
    cases ms with
    | nil => simp at hm
    | cons m ms =>
      cases j with
      | zero =>
        simp only [List.getElem?_cons_zero, Option.some.injEq] at hu hm
        subst hu; subst hm
        rfl
      | succ j =>
        simp only [List.getElem?_cons_succ] at hu hm
        obtain ⟨a0, l0⟩ := m
        have hl0 : l0 ≠ MLoc.merging := hone 0 (a0, l0) rfl (by omega)
        have := ih ms j uj a hu hm (fun j' m' h1 h2 => hone (j' + 1) m' (by simpa using h1) (by omega))
        cases l0 <;> simp_all [firstMerging]


theorem dnf_run_done (bs : Dnf.Clauses) : ∀ es : List Nat, Dnf.run { branches := bs, done := true } es = es.map fun _ => false := by
  intro es
  induction es with
  | nil => rfl
  | cons e es ih => simp [Dnf.run, Dnf.step, ih]

/-- the events of a sequence on a pure and-group, driven at the level of `slide`: per event the matching member heads are advanced
    (which heads these are is read off the `GroupVM` member states; in the interpreter it is the index that selects them); when a head
    became MERGING it is advanced again (`slide` → merge).  Returns, per event, whether the forking head was handed back. -/
def andDriver (fuel : Nat) (f : FUid) (us : List (HUid × Nat)) (n : Nat) : List (Nat × MLoc) → Bool → List Nat → M (List Bool)
  | _, _, [] => pure []
  | ms, true, _ :: es => do
    let r ← andDriver fuel f us n ms true es
    pure (false :: r)
  | ms, false, e :: es => do
    runMembers (fuel + 3) f (matchingU e us ms)
    match firstMerging us (p1Members e n [] ms) with
    | some h => do
      let nh ← slide (fuel + 4) f h
      let r ← andDriver fuel f us n (p1Members e n [] ms) true es
      pure ((!nh.isEmpty) :: r)
    | none => do
      let r ← andDriver fuel f us n (p1Members e n [] ms) false es
      pure (false :: r)

theorem andDriver_done (fuel : Nat) (f : FUid) (us : List (HUid × Nat)) (n : Nat) (ms : List (Nat × MLoc)) :
    ∀ (es : List Nat) (s : VM), andDriver fuel f us n ms true es s = .ok (es.map fun _ => false) s := by
  intro es
  induction es with
  | nil => intro s; rfl
  | cons e es ih => intro s; simp only [andDriver, bind, EStateM.bind, ih, pure, EStateM.pure, List.map_cons]

/-- **A pure and-group of any size, every event sequence, at the level of CoreVM's `slide`.**  Started between two events (member heads
    on their `match` elements or parked, at least one still on its `match`), the driver hands the forking head back exactly when the
    clause machine `Dnf.run` on the one clause `remMs ms` (the atoms not yet received) says so — i.e. at the first event after which
    every atom of the clause has been received (`group_completes_at_first_sat`), and never again. -/
theorem and_group_run (fuel : Nat) (f : FUid) (x : InstX) (cfg : FlowCfg) (l mu : String) (pe fp : Nat) (r : HUid)
    (us : List (HUid × Nat)) (n : Nat) (hown : x.ctxOwner = none) (C : ClauseShape cfg l mu pe n) (S : MembersShape cfg l pe us)
    (hndu : (r :: us.map (·.1)).Nodup) (hfu : OMap.lookup mu x.forkUids = some r) (hmu : mu ∉ us.map (·.1)) (hfp : fp ≠ pe + 2) :
    ∀ (es : List Nat) (s : VM) (i : Inst) (ms : List (Nat × MLoc)),
      FlowAt s f i x cfg → ms.length = n → us.length = n → QMs ms → remMs ms ≠ [] →
      hview i = (r, fp, HeadStatus.inactive) :: renderU (pe + 1) us ms →
      ((OMap.lookup (f, r) s.r.hx).getD {}).childHeadUids = us.map (·.1) →
      (∀ c ∈ us.map (·.1), ((OMap.lookup (f, c) s.r.hx).getD {}).childHeadUids = []) →
      ∃ s', andDriver fuel f us n ms false es s = .ok (Dnf.run { branches := [remMs ms], done := false } es) s' := by
  intro es
  induction es with
  | nil => intro s i ms _ _ _ _ _ _ _ _; exact ⟨s, rfl⟩
  | cons e es ih =>
    intro s i ms F hmn hun hq hrem hv hhx hleaf
    subst hmn
    obtain ⟨s1, i1, hrun, F1, hr1, hv1, hcomp⟩ := and_group_event fuel s f i x cfg l mu pe fp e r us ms F hown C S hun hndu hq hv hfu hhx hleaf hmu hfp
    have hspec := p1Members_spec e ms.length 0 ms [] hq (by intro m hm; cases hm) (by simp)
    have hrem' : remMs (p1Members e ms.length [] ms) = Dnf.stepBranch e (remMs ms) := by simpa [GroupVM.remMs_nil] using hspec.1
    simp only [andDriver, bind, EStateM.bind, hrun, Dnf.run, Dnf.step, Bool.false_eq_true, if_false, List.map_cons, List.map_nil,
      List.any_cons, List.any_nil, Bool.or_false, ← hrem']
    by_cases hdone : remMs (p1Members e ms.length [] ms) = []
    · -- the clause completes
      obtain ⟨j, uj, a, hju, hjm, s2, i2, x2, hsl, _, _, _⟩ := hcomp hdone hrem
      obtain ⟨j0, a0, hjm0, hmf⟩ := hspec.2.2.2 hdone hrem
      have hfm : firstMerging us (p1Members e ms.length [] ms) = some uj.1 := by
        apply firstMerging_of_unique us _ j uj a hju hjm
        intro j' m' hm' hne hmg
        have h1 : QItem.member 0 (0 + j') ∈ mergingFrom 0 0 (p1Members e ms.length [] ms) :=
          (mem_mergingFrom 0 _ 0 _).2 ⟨j', m'.1, rfl, by rw [hm']; cases m'; simp_all⟩
        have h2 : QItem.member 0 (0 + j) ∈ mergingFrom 0 0 (p1Members e ms.length [] ms) :=
          (mem_mergingFrom 0 _ 0 _).2 ⟨j, a, rfl, hjm⟩
        rw [hmf] at h1 h2
        simp at h1 h2
        omega
      simp only [hfm, hdone, List.isEmpty_nil, if_true, pure, EStateM.pure, dnf_run_done]
      refine ⟨s2, ?_⟩
      show EStateM.bind (slide (fuel + 4) f uj.1) _ s1 = _
      simp only [EStateM.bind, hsl, andDriver_done, EStateM.pure, List.isEmpty_cons, Bool.not_false]
    · -- not yet: the same situation with the new member states
      have hq' : QMs (p1Members e ms.length [] ms) := hspec.2.2.1 hdone
      have hfm : firstMerging us (p1Members e ms.length [] ms) = none := firstMerging_none_of_QMs us _ hq'
      have hne : (remMs (p1Members e ms.length [] ms)).isEmpty = false := by
        cases h : remMs (p1Members e ms.length [] ms) with
        | nil => exact absurd h hdone
        | cons _ _ => rfl
      obtain ⟨s', hs'⟩ := ih s1 i1 (p1Members e ms.length [] ms) F1 hspec.2.1 hun hq' hdone hv1 (by rw [hr1]; exact hhx) (by rw [hr1]; exact hleaf)
      simp only [hfm, hne, Bool.false_eq_true, if_false, pure, EStateM.pure]
      refine ⟨s', ?_⟩
      show EStateM.bind (andDriver fuel f us ms.length (p1Members e ms.length [] ms) false es) _ s1 = _
      simp only [EStateM.bind, hs', EStateM.pure]

end NemoVerif.CoreVM
