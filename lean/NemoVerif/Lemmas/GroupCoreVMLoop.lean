/-
  C07 (T2') — the MERGING LOOP over CoreVM's `slide` for or-groups of single atoms, for every tie-break: `or_merge_loop` (induction on
  the number of MERGING candidates: a head that is not picked becomes INACTIVE and the next one is advanced; the last remaining head
  needs no `random.choice`) and `or_group_event_all` (phase 1 + the loop).
-/
import NemoVerif.Lemmas.GroupCoreVMPick
set_option linter.unusedSimpArgs false
namespace NemoVerif.CoreVM
open NemoVerif NemoVerif.CoreIndex
open NemoVerif.GroupVM (Br)

/-- an INACTIVE head: `slide`'s step ends the loop at once -/
theorem slideStep_inactive (fuel : Nat) (s : VM) (f : FUid) (h : HUid) (i : Inst) (x : InstX) (cfg : FlowCfg) (hd : Head)
    (F : FlowAt s f i x cfg) (hh : i.findHead h = some hd) (hin : hd.status = .inactive) : slideStep fuel f h s = .ok (true, []) s := by
  unfold slideStep
  simp only [bind, EStateM.bind, cfgOfInst, getInstX, getInstX?, getRest, get, getThe, MonadStateOf.get, EStateM.get, pure, EStateM.pure,
    F.hx, getCfg, F.hc, getHead?, getIx, F.hi, Option.bind, hh, hin, decide_true, Bool.or_true, if_true]

/-- the uids of the MERGING branch heads, in order -/
def mergingUids : List (HUid × Nat) → List Br → List HUid
  | u :: us, .merging :: bs => u.1 :: mergingUids us bs
  | _ :: us, _ :: bs => mergingUids us bs
  | _, _ => []

/-- advance the MERGING heads in order until one of them hands back the forking head -/
def slideUntil (fuel : Nat) (f : FUid) : List HUid → M (List Key)
  | [] => pure []
  | h :: hs => do
    let nh ← slide fuel f h
    if nh.isEmpty then slideUntil fuel f hs else pure nh

/-- the recorded tie-breaks suffice for the candidates: an outcome for every pick among at least two heads, each in range -/
def Adequate : Nat → List Nat → Prop
  | 0, _ => True
  | 1, _ => True
  | n + 2, c :: cs => c < n + 2 ∧ (c = 0 ∨ Adequate (n + 1) cs)
  | _ + 2, [] => False

/-- the status of the children as the view shows it -/
theorem status_of_view (mg : Nat) (i : Inst) (r : HUid) (fp : Nat) (us : List (HUid × Nat)) (brs : List Br)
    (hv : hview i = (r, fp, HeadStatus.inactive) :: renderB mg us brs) (hlen : us.length = brs.length)
    (hndu : (r :: us.map (·.1)).Nodup) (j : Nat) (u : HUid × Nat) (b : Br) (hu : us[j]? = some u) (hb : brs[j]? = some b) :
    ∃ cd, i.findHead u.1 = some cd ∧ (cd.pos, cd.status) = brCore u.2 mg b := by
  have hndv : ((hview i).map (·.1)).Nodup := by
    rw [hv, List.map_cons, renderB_fst _ _ _ hlen]; exact hndu
  have e2 : (u.1, brCore u.2 mg b) ∈ hview i := by
    rw [hv]; exact List.mem_cons_of_mem _ (mem_renderB mg us brs j u b hu hb)
  obtain ⟨cd, hcd, h1, h2⟩ := findHead_of_mem_hview i hndv u.1 _ _ e2
  exact ⟨cd, hcd, Prod.ext h1 h2⟩


theorem filter_eq_mergingUids (P : HUid → Bool) : ∀ (us : List (HUid × Nat)) (brs : List Br), us.length = brs.length →
    (∀ (j : Nat) (u : HUid × Nat) (b : Br), us[j]? = some u → brs[j]? = some b → P u.1 = (match b with | Br.merging => true | _ => false)) →
    (us.map (·.1)).filter P = mergingUids us brs := by
  intro us
  induction us with
  | nil => intro brs _ _; cases brs <;> rfl
  | cons u us ih =>
    intro brs hl hp
    cases brs with
    | nil => simp at hl
    | cons b brs =>
      have h0 := hp 0 u b rfl rfl
      have ih' := ih brs (by simpa using hl) (fun j u' b' h1 h2 => hp (j + 1) u' b' (by simpa using h1) (by simpa using h2))
      simp only [List.map_cons, List.filter_cons, h0]
      cases b <;> simp [mergingUids, ih']

/-- the first MERGING branch: where it is, and what remains when it is lost -/
theorem mergingUids_head : ∀ (us : List (HUid × Nat)) (brs : List Br) (h : HUid) (t : List HUid), us.length = brs.length →
    mergingUids us brs = h :: t →
    ∃ (j : Nat) (u : HUid × Nat), us[j]? = some u ∧ u.1 = h ∧ brs[j]? = some Br.merging ∧ mergingUids us (brs.set j Br.lost) = t := by
  intro us
  induction us with
  | nil => intro brs h t _ hm; cases brs <;> simp [mergingUids] at hm
  | cons u us ih =>
    intro brs h t hl hm
    cases brs with
    | nil => simp at hl
    | cons b brs =>
      have hl' : us.length = brs.length := by simpa using hl
      cases b with
      | merging =>
        simp only [mergingUids, List.cons.injEq] at hm
        exact ⟨0, u, rfl, hm.1, rfl, by simp [mergingUids, hm.2]⟩
      | single a =>
        simp only [mergingUids] at hm
        obtain ⟨j, u', h1, h2, h3, h4⟩ := ih brs h t hl' hm
        exact ⟨j + 1, u', by simpa using h1, h2, by simpa using h3, by simp [mergingUids, h4]⟩
      | lost =>
        simp only [mergingUids] at hm
        obtain ⟨j, u', h1, h2, h3, h4⟩ := ih brs h t hl' hm
        exact ⟨j + 1, u', by simpa using h1, h2, by simpa using h3, by simp [mergingUids, h4]⟩
      | multi ms need =>
        simp only [mergingUids] at hm
        obtain ⟨j, u', h1, h2, h3, h4⟩ := ih brs h t hl' hm
        exact ⟨j + 1, u', by simpa using h1, h2, by simpa using h3, by simp [mergingUids, h4]⟩

theorem map_setStCore_of_not_mem (h : HUid) (st : HeadStatus) (l : List HCore) (hn : h ∉ l.map (·.1)) :
    l.map (setStCore h st) = l := by
  induction l with
  | nil => rfl
  | cons t l ih =>
    have h1 : t.1 ≠ h := fun e => hn (by simp [e])
    have h2 : h ∉ l.map (·.1) := fun e => hn (by simp only [List.map_cons, List.mem_cons]; exact Or.inr e)
    simp only [List.map_cons, ih h2, setStCore, h1, if_false]

/-- the view after a MERGING branch head has become INACTIVE -/
theorem renderB_set_lost (mg : Nat) : ∀ (us : List (HUid × Nat)) (brs : List Br) (j : Nat) (u : HUid × Nat),
    us.length = brs.length → (us.map (·.1)).Nodup → us[j]? = some u → brs[j]? = some Br.merging →
    (renderB mg us brs).map (setStCore u.1 .inactive) = renderB mg us (brs.set j Br.lost) := by
  intro us
  induction us with
  | nil => intro brs j u _ _ hu; simp at hu
  | cons u0 us ih =>
    intro brs j u hl hnd hu hb
    cases brs with
    | nil => simp at hl
    | cons b brs =>
      have hl' : us.length = brs.length := by simpa using hl
      have hnd' := List.nodup_cons.1 (by simpa using hnd : (u0.1 :: us.map (·.1)).Nodup)
      cases j with
      | zero =>
        simp only [List.getElem?_cons_zero, Option.some.injEq] at hu hb
        subst hu; subst hb
        simp only [renderB, List.zipWith_cons_cons, List.map_cons, List.set_cons_zero, setStCore, if_true]
        have h2 := map_setStCore_of_not_mem u0.1 .inactive (renderB mg us brs) (by rw [renderB_fst _ _ _ hl']; exact hnd'.1)
        simp only [renderB] at h2
        rw [h2]; rfl
      | succ j =>
        simp only [List.getElem?_cons_succ] at hu hb
        have hne : u0.1 ≠ u.1 := by
          intro e
          exact hnd'.1 (e ▸ List.mem_map.2 ⟨u, List.mem_of_getElem? hu, rfl⟩)
        have := ih brs j u hl' hnd'.2 hu hb
        simp only [renderB, List.zipWith_cons_cons, List.map_cons, List.set_cons_succ, setStCore, hne, if_false] at this ⊢
        rw [this]


theorem mergingUids_sublist : ∀ (us : List (HUid × Nat)) (brs : List Br), (mergingUids us brs).Sublist (us.map (·.1)) := by
  intro us
  induction us with
  | nil => intro brs; cases brs <;> simp [mergingUids]
  | cons u us ih =>
    intro brs
    cases brs with
    | nil => simp [mergingUids]
    | cons b brs =>
      cases b <;> simp only [mergingUids, List.map_cons]
      · exact (ih brs).cons _
      · exact (ih brs).cons _
      · exact (ih brs).cons₂ _
      · exact (ih brs).cons _

/-- after the merge only the forking head is left -/
theorem view_after_merge (r : HUid) (fp q : Nat) (L : List HCore) (cs : List HUid) (hr : r ∉ cs) (hL : ∀ t ∈ L, t.1 ∈ cs) :
    (((r, fp, HeadStatus.inactive) :: L).map (setCore r q .active)).filter (fun t => !cs.contains t.1) = [(r, q, HeadStatus.active)] := by
  have hr_not : cs.contains r = false := by simpa using hr
  simp only [List.map_cons, List.filter_cons, setCore, if_true, hr_not, Bool.not_false]
  congr 1
  apply List.filter_eq_nil_iff.2
  intro t ht
  obtain ⟨t0, ht0, rfl⟩ := List.mem_map.1 ht
  have hmem := hL t0 ht0
  have hne : t0.1 ≠ r := fun e => hr (e ▸ hmem)
  simp only [setCore, hne, if_false, Bool.not_eq_true', Bool.not_eq_false]
  simpa using hmem

/-- everything the merge lemmas need, in a form that survives a lost pick -/
structure OrMergeInv (s : VM) (f : FUid) (i : Inst) (x : InstX) (cfg : FlowCfg) (l mu : String) (pe fp : Nat) (r : HUid)
    (us : List (HUid × Nat)) (brs : List Br) (sc0 : List Score) : Prop where
  F : FlowAt s f i x cfg
  C : OrShape cfg l mu pe
  hv : hview i = (r, fp, HeadStatus.inactive) :: renderB (pe + 1) us brs
  hlen : us.length = brs.length
  hndu : (r :: us.map (·.1)).Nodup
  hfu : OMap.lookup mu x.forkUids = some r
  hhx : ((OMap.lookup (f, r) s.r.hx).getD {}).childHeadUids = us.map (·.1)
  hleaf : ∀ c ∈ us.map (·.1), ((OMap.lookup (f, c) s.r.hx).getD {}).childHeadUids = []
  hsc : ∀ c ∈ us.map (·.1), ((OMap.lookup (f, c) s.r.hx).getD {}).scores = sc0
  hmu : mu ∉ us.map (·.1)
  hfp : fp ≠ pe + 1
  hns : i.status ≠ .stopping


/-- what the merge lemmas need about the head `h = us[j]` that is advanced, derived from the invariant -/
theorem orMerge_args (s : VM) (f : FUid) (i : Inst) (x : InstX) (cfg : FlowCfg) (l mu : String) (pe fp : Nat) (r : HUid)
    (us : List (HUid × Nat)) (brs : List Br) (sc0 : List Score)
    (I : OrMergeInv s f i x cfg l mu pe fp r us brs sc0) (j : Nat) (u : HUid × Nat) (hu : us[j]? = some u) (hb : brs[j]? = some Br.merging) :
    ∃ hd rd, HeadAt s f u.1 i x cfg hd ∧ hd.pos = pe + 1 ∧ hd.status = .merging ∧ i.findHead r = some rd ∧ rd.pos = fp ∧
      rd.status = .inactive ∧ (∀ c ∈ us.map (·.1), ∃ cd, i.findHead c = some cd) ∧
      (us.map (·.1)).filter (fun c => (i.findHead c).map (·.status) == some HeadStatus.merging) = mergingUids us brs ∧
      u.1 ∈ us.map (·.1) ∧ r ≠ u.1 := by
  have hndv : ((hview i).map (·.1)).Nodup := by
    rw [I.hv, List.map_cons, renderB_fst _ _ _ I.hlen]; exact I.hndu
  obtain ⟨hd, hfh, hps⟩ := status_of_view (pe + 1) i r fp us brs I.hv I.hlen I.hndu j u Br.merging hu hb
  have hpos : hd.pos = pe + 1 := by have := congrArg Prod.fst hps; simpa [brCore] using this
  have hstat : hd.status = .merging := by have := congrArg Prod.snd hps; simpa [brCore] using this
  obtain ⟨rd, hfr, hrpos, hrstat⟩ := findHead_of_mem_hview i hndv r fp .inactive (by rw [I.hv]; simp)
  have hsz := I.C.hsize
  have hnd' := List.nodup_cons.1 I.hndu
  have humem : u.1 ∈ us.map (·.1) := List.mem_map.2 ⟨u, List.mem_of_getElem? hu, rfl⟩
  refine ⟨hd, rd, { hi := I.F.hi, hx := I.F.hx, hc := I.F.hc, hh := hfh, hlt := by rw [hpos]; exact hsz, hst := by rw [hstat]; decide },
    hpos, hstat, hfr, hrpos, hrstat, ?_, ?_, humem, fun e => hnd'.1 (e ▸ humem)⟩
  · intro c hc
    obtain ⟨u', hu', rfl⟩ := List.mem_map.1 hc
    obtain ⟨j', hj', hget⟩ := List.mem_iff_getElem.1 hu'
    have hj2 : j' < brs.length := by rw [← I.hlen]; exact hj'
    obtain ⟨cd, hcd, _⟩ := status_of_view (pe + 1) i r fp us brs I.hv I.hlen I.hndu j' u' brs[j']
      (by rw [List.getElem?_eq_getElem hj', hget]) (List.getElem?_eq_getElem hj2)
    exact ⟨cd, hcd⟩
  · apply filter_eq_mergingUids _ us brs I.hlen
    intro j' u' b' h1 h2
    obtain ⟨cd, hcd, hps'⟩ := status_of_view (pe + 1) i r fp us brs I.hv I.hlen I.hndu j' u' b' h1 h2
    have hst' := congrArg Prod.snd hps'
    simp only at hst'
    rw [hcd]
    cases b' <;> simp_all [brCore]

/-- **The merging loop on an or-group of single atoms, for every tie-break (CoreVM level).**  The MERGING branch heads `MH` (in order)
    are advanced one after the other with `slide`; a head that is not picked becomes INACTIVE, and the first head that is picked — at the
    latest the last remaining one, which needs no `random.choice` — merges: the forking head continues behind the group and every branch
    head is gone.  Whatever the recorded outcomes are (`Adequate`: present and in range), the group completes.  This is
    `GroupVM.mergeLoop` / `merging_always_completes` carried out by CoreVM's own `slide`. -/
theorem or_merge_loop (fuel : Nat) (f : FUid) (x : InstX) (cfg : FlowCfg) (l mu : String) (pe fp : Nat) (r : HUid)
    (us : List (HUid × Nat)) (sc0 : List Score) :
    ∀ (n : Nat) (MH : List HUid), MH.length = n + 1 → ∀ (s : VM) (i : Inst) (brs : List Br),
      OrMergeInv s f i x cfg l mu pe fp r us brs sc0 → mergingUids us brs = MH → Adequate (n + 1) s.r.choices →
      ∃ s' i' x', slideUntil (fuel + 4) f MH s = .ok [(f, r)] s' ∧ FlowAt s' f i' x' cfg ∧ x'.ctxOwner = x.ctxOwner ∧
        hview i' = [(r, pe + 1, HeadStatus.active)] := by
  intro n
  induction n with
  | zero =>
    intro MH hlen s i brs I hMH _
    obtain ⟨h, rfl⟩ : ∃ h, MH = [h] := by
      cases MH with
      | nil => simp at hlen
      | cons h t => cases t with
        | nil => exact ⟨h, rfl⟩
        | cons _ _ => simp at hlen
    obtain ⟨j, u, hu, rfl, hb, _⟩ := mergingUids_head us brs _ [] I.hlen hMH
    obtain ⟨hd, rd, H, hpos, hstat, hfr, hrpos, hrstat, hex, hfilt, humem, hrh⟩ := orMerge_args s f i x cfg l mu pe fp r us brs sc0 I j u hu hb
    have hnd' := List.nodup_cons.1 I.hndu
    obtain ⟨s1, i1, x1, hstep, F1, ho1, hv1, _⟩ := slideStep_merge_pick (fuel + 1) s f u.1 i x cfg hd rd mu r (us.map (·.1))
      H (by rw [hpos]; exact I.C.hm) hstat I.hfu hfr I.hhx I.hleaf hex [u.1] (by rw [hfilt, hMH]) (Or.inl rfl)
      hnd'.2 humem hrh (by rw [hrpos, hpos]; exact I.hfp) hrstat hnd'.1 I.hmu I.hns
    have hgone : i1.findHead u.1 = none := by
      cases hf : i1.findHead u.1 with
      | none => rfl
      | some cd =>
        have := mem_hview_of_findHead i1 u.1 cd hf
        rw [hv1] at this
        have hm := (List.mem_filter.1 this).2
        simp only [Bool.not_eq_true', List.contains_eq_mem, decide_eq_false_iff_not] at hm
        exact absurd humem hm
    have hstep2 := slideStep_gone (fuel + 2) s1 f u.1 i1 x1 cfg F1 hgone
    refine ⟨s1, i1, x1, ?_, F1, ho1, ?_⟩
    · simp only [slideUntil, slide, slideLoop, bind, EStateM.bind, hstep, hstep2, Bool.false_eq_true, if_false, if_true, pure, EStateM.pure,
        List.nil_append, List.append_nil, List.isEmpty_cons]
    · rw [hv1, I.hv, hpos]
      exact view_after_merge r fp (pe + 1) _ _ hnd'.1 (by
        intro t ht
        rw [← renderB_fst (pe + 1) us brs I.hlen]
        exact List.mem_map.2 ⟨t, ht, rfl⟩)
  | succ n ih =>
    intro MH hlen s i brs I hMH hadq
    obtain ⟨h, t, rfl⟩ : ∃ h t, MH = h :: t := by
      cases MH with
      | nil => simp at hlen
      | cons h t => exact ⟨h, t, rfl⟩
    have htlen : t.length = n + 1 := by simpa using hlen
    obtain ⟨j, u, hu, rfl, hb, htail⟩ := mergingUids_head us brs _ t I.hlen hMH
    obtain ⟨hd, rd, H, hpos, hstat, hfr, hrpos, hrstat, hex, hfilt, humem, hrh⟩ := orMerge_args s f i x cfg l mu pe fp r us brs sc0 I j u hu hb
    have hnd' := List.nodup_cons.1 I.hndu
    have hMHnd : (u.1 :: t).Nodup := by rw [← hMH]; exact (mergingUids_sublist us brs).nodup hnd'.2
    have hMHsub : ∀ k ∈ u.1 :: t, k ∈ us.map (·.1) := by
      intro k hk; rw [← hMH] at hk; exact (mergingUids_sublist us brs).subset hk
    -- the recorded tie-break for this pick
    obtain ⟨c, cs, hch, hclt, hrest⟩ : ∃ c cs, s.r.choices = c :: cs ∧ c < n + 2 ∧ (c = 0 ∨ Adequate (n + 1) cs) := by
      cases hcs : s.r.choices with
      | nil => rw [hcs] at hadq; exact absurd hadq (by simp [Adequate])
      | cons c cs => rw [hcs] at hadq; exact ⟨c, cs, rfl, hadq.1, hadq.2⟩
    have hlenMH : (u.1 :: t).length = n + 2 := by simp [htlen]
    by_cases hc0 : c = 0
    · -- picked: it merges
      subst hc0
      obtain ⟨s1, i1, x1, hstep, F1, ho1, hv1, _⟩ := slideStep_merge_pick (fuel + 1) s f u.1 i x cfg hd rd mu r (us.map (·.1))
        H (by rw [hpos]; exact I.C.hm) hstat I.hfu hfr I.hhx I.hleaf hex (u.1 :: t) (by rw [hfilt, hMH])
        (Or.inr ⟨0, cs, sc0, hch, by rw [hlenMH]; omega, rfl, by rw [hlenMH]; omega, fun k hk => I.hsc k (hMHsub k hk)⟩)
        hnd'.2 humem hrh (by rw [hrpos, hpos]; exact I.hfp) hrstat hnd'.1 I.hmu I.hns
      have hgone : i1.findHead u.1 = none := by
        cases hf : i1.findHead u.1 with
        | none => rfl
        | some cd =>
          have := mem_hview_of_findHead i1 u.1 cd hf
          rw [hv1] at this
          have hm := (List.mem_filter.1 this).2
          simp only [Bool.not_eq_true', List.contains_eq_mem, decide_eq_false_iff_not] at hm
          exact absurd humem hm
      have hstep2 := slideStep_gone (fuel + 2) s1 f u.1 i1 x1 cfg F1 hgone
      refine ⟨s1, i1, x1, ?_, F1, ho1, ?_⟩
      · simp only [slideUntil, slide, slideLoop, bind, EStateM.bind, hstep, hstep2, Bool.false_eq_true, if_false, if_true, pure,
          EStateM.pure, List.nil_append, List.append_nil, List.isEmpty_cons]
      · rw [hv1, I.hv, hpos]
        exact view_after_merge r fp (pe + 1) _ _ hnd'.1 (by
          intro t' ht'
          rw [← renderB_fst (pe + 1) us brs I.hlen]
          exact List.mem_map.2 ⟨t', ht', rfl⟩)
    · -- another head is picked: this one is lost, the loop goes on with the remaining candidates
      have hadq' : Adequate (n + 1) cs := by rcases hrest with h0 | h0; exact absurd h0 hc0; exact h0
      obtain ⟨c', rfl⟩ : ∃ c', c = c' + 1 := ⟨c - 1, by omega⟩
      have hc'lt : c' < t.length := by omega
      have hget : (u.1 :: t)[c' + 1]? = some t[c'] := by simp [List.getElem?_eq_getElem hc'lt]
      have hne : t[c'] ≠ u.1 := by
        intro e
        have := (List.nodup_cons.1 hMHnd).1
        exact this (e ▸ List.getElem_mem hc'lt)
      obtain ⟨s1, hg, hstep, hixs, hchoices, hhx1, hfx1, hprog1, _⟩ := slideStep_merge_lose (fuel + 1) s f u.1 i x cfg hd rd mu r
        (us.map (·.1)) H (by rw [hpos]; exact I.C.hm) hstat I.hfu hfr I.hhx I.hleaf hex (u.1 :: t) (by rw [hfilt, hMH])
        (c' + 1) cs sc0 t[c'] hch (by rw [hlenMH]; omega) hget hne (by rw [hlenMH]; omega) (fun k hk => I.hsc k (hMHsub k hk))
        hnd'.2 humem hrh (by rw [hrpos, hpos]; exact I.hfp) hrstat hnd'.1 I.hmu I.hns
      -- the state after the lost pick
      have hi1 := findInst_setStatus s.ixs.ix f u.1 i hd .inactive none H.hi H.hh (by rw [hstat]; decide)
      have F1 : FlowAt s1 f (i.modifyHead u.1 fun y => { y with status := .inactive, elem := none }) x cfg :=
        { hi := by rw [hixs]; exact hi1, hx := by rw [hfx1]; exact I.F.hx, hc := by rw [hprog1]; exact I.F.hc }
      have I1 : OrMergeInv s1 f (i.modifyHead u.1 fun y => { y with status := .inactive, elem := none }) x cfg l mu pe fp r us
          (brs.set j Br.lost) sc0 :=
        { F := F1, C := I.C
          hv := by
            rw [hview_setStatus, I.hv, List.map_cons, renderB_set_lost (pe + 1) us brs j u I.hlen hnd'.2 hu hb]
            simp [setStCore, hrh]
          hlen := by simp [I.hlen]
          hndu := I.hndu, hfu := I.hfu
          hhx := by rw [hhx1]; exact I.hhx
          hleaf := by rw [hhx1]; exact I.hleaf
          hsc := by rw [hhx1]; exact I.hsc
          hmu := I.hmu, hfp := I.hfp, hns := I.hns }
      obtain ⟨s', i', x', hrun, F', ho', hv'⟩ := ih t htlen s1 _ (brs.set j Br.lost) I1 htail (by rw [hchoices]; exact hadq')
      -- `slide` on the lost head hands nothing back
      have hh1 : (i.modifyHead u.1 fun y => { y with status := HeadStatus.inactive, elem := none }).findHead u.1
          = some { hd with status := .inactive, elem := none } := findHead_moved i u.1 hd _ (fun _ => rfl) H.hh
      have hstep2 := slideStep_inactive (fuel + 2) s1 f u.1 _ x cfg _ F1 hh1 rfl
      refine ⟨s', i', x', ?_, F', ho', hv'⟩
      simp only [slideUntil, slide, slideLoop, bind, EStateM.bind, hstep, hstep2, Bool.false_eq_true, if_false, if_true, pure,
        EStateM.pure, List.nil_append, List.append_nil, List.isEmpty_nil]
      exact hrun


open NemoVerif.GroupVM (p1Brs) in
/-- **One event on a pure or-group of single atoms at CoreVM level, any number of branches, EVERY tie-break.**  Phase 1
    (`or_group_phase1` = `GroupVM.p1Brs`), then the merging loop (`or_merge_loop`) over the branch heads that became MERGING — several
    when the same atom occurs more than once: whatever `random.choice` returns, the forking head continues behind the group and no
    branch head is left. -/
theorem or_group_event_all (fuel : Nat) (s : VM) (f : FUid) (i : Inst) (x : InstX) (cfg : FlowCfg) (l mu : String) (pe fp e : Nat)
    (r : HUid) (us : List (HUid × Nat)) (brs : List Br) (sc0 : List Score) (n : Nat)
    (I : OrMergeInv s f i x cfg l mu pe fp r us brs sc0) (hown : x.ctxOwner = none) (S : MembersShape cfg l pe us)
    (hnm : noMulti brs = true) (hl1 : (p1Brs e 0 brs).1.length = brs.length)
    (hMH : (mergingUids us (p1Brs e 0 brs).1).length = n + 1) (hadq : Adequate (n + 1) s.r.choices) :
    ∃ s1 i1 s2 i2 x2, runMembers (fuel + 2) f (matchingB e us brs) s = .ok () s1 ∧ FlowAt s1 f i1 x cfg ∧
      hview i1 = (r, fp, HeadStatus.inactive) :: renderB (pe + 1) us (p1Brs e 0 brs).1 ∧
      slideUntil (fuel + 4) f (mergingUids us (p1Brs e 0 brs).1) s1 = .ok [(f, r)] s2 ∧ FlowAt s2 f i2 x2 cfg ∧
      x2.ctxOwner = x.ctxOwner ∧ hview i2 = [(r, pe + 1, HeadStatus.active)] := by
  obtain ⟨s1, i1, hrun, F1, hr1, hv1, hst1⟩ : ∃ s1 i1, runMembers (fuel + 2) f (matchingB e us brs) s = .ok () s1 ∧ FlowAt s1 f i1 x cfg ∧
      s1.r = s.r ∧ hview i1 = (r, fp, HeadStatus.inactive) :: renderB (pe + 1) us (p1Brs e 0 brs).1 ∧ i1.status = i.status := by
    obtain ⟨s1, i1, hrun, F1, hr1, hv1, hst1⟩ := or_group_phase1 fuel s f i x cfg l mu pe e [(r, fp, HeadStatus.inactive)] us brs
      I.F hown I.C S I.hlen hnm (by simpa using I.hndu) (by simpa using I.hv)
    exact ⟨s1, i1, hrun, F1, hr1, by simpa using hv1, hst1⟩
  have hns1 : i1.status ≠ .stopping := by rw [hst1]; exact I.hns
  have I1 : OrMergeInv s1 f i1 x cfg l mu pe fp r us (p1Brs e 0 brs).1 sc0 :=
    { F := F1, C := I.C, hv := hv1, hlen := by rw [hl1]; exact I.hlen, hndu := I.hndu, hfu := I.hfu
      hhx := by rw [hr1]; exact I.hhx, hleaf := by rw [hr1]; exact I.hleaf, hsc := by rw [hr1]; exact I.hsc
      hmu := I.hmu, hfp := I.hfp, hns := hns1 }
  obtain ⟨s2, i2, x2, hsl, F2, ho2, hv2⟩ := or_merge_loop fuel f x cfg l mu pe fp r us sc0 n _ hMH s1 i1 _ I1 rfl (by rw [hr1]; exact hadq)
  exact ⟨s1, i1, s2, i2, x2, hrun, F1, hv1, hsl, F2, ho2, hv2⟩

end NemoVerif.CoreVM
