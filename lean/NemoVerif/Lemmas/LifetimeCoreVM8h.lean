/-
  C06 / refinement CoreVM → Lifetime, part 8h: two more elements of `slide` that are invisible to `absVM` — the conditional jump
  (`.goto`, the compiled form of `if` / `while`) and the assignment (`.assign`).  Both evaluate an expression: that the evaluation
  leaves index, instance table and action table alone is an explicit hypothesis (`ExprFrame`).
-/
import NemoVerif.Lemmas.LifetimeCoreVM8g
namespace NemoVerif.Lifetime.Refine
open NemoVerif NemoVerif.CoreVM NemoVerif.CoreIndex NemoVerif.Lifetime

def ExprFrame (f : FUid) (e : Expr) : Prop :=
  ∀ vm v vm', evalIn f e vm = .ok v vm' → vm'.ixs = vm.ixs ∧ vm'.r.fx = vm.r.fx ∧ vm'.r.actions = vm.r.actions

variable (ν φ : String → Nat)

theorem slideStep_goto_frame (fuel : Nat) (f : FUid) (h : HUid) (vm vm' : VM) (cfg : FlowCfg) (hd : Head) (e : Expr) (label : String)
    (r : Bool × List Key)
    (hcfg : cfgOfInst f vm = .ok cfg vm) (hhd : getHead? (f, h) vm = .ok (some hd) vm)
    (hpos : ¬ (hd.pos ≥ cfg.elements.size ∨ hd.status = .inactive))
    (hel : cfg.elements[hd.pos]! = .goto e label) (hw : WF vm) (hev : ExprFrame f e) (hro : ∀ p, NameRO f p)
    (hrun : slideStep fuel f h vm = .ok r vm') : absVM ν φ vm' = absVM ν φ vm ∧ WF vm' := by
  unfold slideStep at hrun
  simp only [bind, EStateM.bind, hcfg, hhd] at hrun
  have hp : (decide (hd.pos ≥ cfg.elements.size) || decide (hd.status = HeadStatus.inactive)) = false := by
    cases hb : (decide (hd.pos ≥ cfg.elements.size) || decide (hd.status = HeadStatus.inactive)) with
    | false => rfl
    | true => exact absurd (by simpa using hb) hpos
  rw [hp, hel] at hrun
  simp only [Bool.false_eq_true, if_false, EStateM.bind] at hrun
  cases hge : evalIn f e vm with
  | error e' s => rw [hge] at hrun; cases hrun
  | ok v vm1 =>
    rw [hge] at hrun
    obtain ⟨e1, e2, e3⟩ := hev _ _ _ hge
    have w1 : WF vm1 := hw.of_same e1 e2 e3
    have a1 : absVM ν φ vm1 = absVM ν φ vm := absVM_of_same ν φ vm vm1 (fun _ => by rw [e1]) e2 e3
    simp only at hrun
    have tail : ∀ p, (EStateM.bind (setHeadPos (f, h) p) fun _ => pure (false, [])) vm1 = .ok r vm' →
        absVM ν φ vm' = absVM ν φ vm ∧ WF vm' := by
      intro p ht
      simp only [EStateM.bind] at ht
      cases hsp : setHeadPos (f, h) p vm1 with
      | error e' s => rw [hsp] at ht; cases ht
      | ok u vm2 =>
        rw [hsp] at ht
        cases ht
        obtain ⟨a2, w2⟩ := setHeadPos_abs ν φ (f, h) p vm1 vm' w1 (hro p) hsp
        exact ⟨by rw [a2, a1], w2⟩
    by_cases ht : truthy v = true
    · simp only [ht, if_true] at hrun
      cases hlab : cfg.label label with
      | none => rw [hlab] at hrun; exact tail _ hrun
      | some p => rw [hlab] at hrun; exact tail _ hrun
    · simp only [ht, Bool.false_eq_true, if_false] at hrun
      exact tail _ hrun


theorem readOnly_getCtx (f : FUid) : ReadOnly (getCtx f) := by
  unfold getCtx
  apply readOnly_bind _ _ (readOnly_ctxHolder f)
  intro o
  apply readOnly_bind _ _ (readOnly_getInstX o)
  intro y
  exact readOnly_pure _

theorem slideStep_assign_frame (hν : Function.Injective ν) (fuel : Nat) (f : FUid) (h : HUid) (vm vm' : VM) (cfg : FlowCfg) (hd : Head)
    (key : String) (e : Expr) (r : Bool × List Key)
    (hcfg : cfgOfInst f vm = .ok cfg vm) (hhd : getHead? (f, h) vm = .ok (some hd) vm)
    (hpos : ¬ (hd.pos ≥ cfg.elements.size ∨ hd.status = .inactive))
    (hel : cfg.elements[hd.pos]! = .assign key e) (hw : WF vm) (hev : ExprFrame f e) (hro : NameRO f (hd.pos + 1))
    (hrun : slideStep fuel f h vm = .ok r vm') : absVM ν φ vm' = absVM ν φ vm ∧ WF vm' := by
  unfold slideStep at hrun
  simp only [bind, EStateM.bind, hcfg, hhd] at hrun
  have hp : (decide (hd.pos ≥ cfg.elements.size) || decide (hd.status = HeadStatus.inactive)) = false := by
    cases hb : (decide (hd.pos ≥ cfg.elements.size) || decide (hd.status = HeadStatus.inactive)) with
    | false => rfl
    | true => exact absurd (by simpa using hb) hpos
  rw [hp, hel] at hrun
  simp only [Bool.false_eq_true, if_false, EStateM.bind] at hrun
  cases hge : evalIn f e vm with
  | error e' s => rw [hge] at hrun; cases hrun
  | ok v vm1 =>
    rw [hge] at hrun
    obtain ⟨e1, e2, e3⟩ := hev _ _ _ hge
    have w1 : WF vm1 := hw.of_same e1 e2 e3
    have a1 : absVM ν φ vm1 = absVM ν φ vm := absVM_of_same ν φ vm vm1 (fun _ => by rw [e1]) e2 e3
    simp only at hrun
    cases hgc : getCtx f vm1 with
    | error e' s => rw [hgc] at hrun; cases hrun
    | ok ctx s =>
      have hs := readOnly_getCtx f vm1 ctx s hgc
      subst hs
      rw [hgc] at hrun
      simp only at hrun
      have tail : ∀ vmS : VM, WF vmS → absVM ν φ vmS = absVM ν φ vm →
          (EStateM.bind (setHeadPos (f, h) (hd.pos + 1)) fun _ => pure (false, [])) vmS = .ok r vm' →
          absVM ν φ vm' = absVM ν φ vm ∧ WF vm' := by
        intro vmS wS aS ht
        simp only [EStateM.bind] at ht
        cases hsp : setHeadPos (f, h) (hd.pos + 1) vmS with
        | error e' s' => rw [hsp] at ht; cases ht
        | ok u vm2 =>
          rw [hsp] at ht
          cases ht
          obtain ⟨a2, w2⟩ := setHeadPos_abs ν φ (f, h) (hd.pos + 1) vmS vm' wS hro hsp
          exact ⟨by rw [a2, aS], w2⟩
      split at hrun
      · -- a global variable: `state.context` (not abstracted)
        simp only [EStateM.bind] at hrun
        obtain ⟨vmG, hG, hGe⟩ : ∃ vmG : VM, (modifyRest fun r => { r with gctx := setArg key v r.gctx }) s = .ok () vmG ∧
            (vmG.ixs = s.ixs ∧ vmG.r.fx = s.r.fx ∧ vmG.r.actions = s.r.actions) := ⟨_, rfl, ⟨rfl, rfl, rfl⟩⟩
        rw [hG] at hrun
        exact tail vmG (w1.of_same hGe.1 hGe.2.1 hGe.2.2)
          (by rw [absVM_of_same ν φ s vmG (fun _ => by rw [hGe.1]) hGe.2.1 hGe.2.2, a1]) hrun
      · simp only [EStateM.bind] at hrun
        cases hsc : setCtxVar f key v s with
        | error e' s' => rw [hsc] at hrun; cases hrun
        | ok u vm2 =>
          rw [hsc] at hrun
          obtain ⟨a2, w2⟩ := setCtxVar_frame ν φ hν f key v s vm2 w1 hsc
          exact tail vm2 w2 (by rw [a2, a1]) hrun

end NemoVerif.Lifetime.Refine
