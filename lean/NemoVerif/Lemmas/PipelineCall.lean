/-
  C01–C03 — lemmas about the call-level model `Models/PipelineCall.lean` (calls that end by a propagated
  exception; the state handed to a call vs. the object the call mutates).
-/
import NemoVerif.Models.PipelineCall
import NemoVerif.Lemmas.PipelineV2

set_option linter.unusedSimpArgs false

namespace NemoVerif.PipelineCall
open NemoVerif NemoVerif.Pipeline

theorem objFor_false (slot : Slot) (given : HistV2) : objFor false slot given = given := by
  simp [objFor]

theorem slotAfterRaise_false (slot : Slot) (given o : HistV2) : slotAfterRaise false slot given o = slot := by
  simp [slotAfterRaise]

theorem raisedReply_raised : raisedReply.raised = true := rfl

/-- the call as the code is (`remember = false`) keeps nothing: the slot is what it was -/
theorem callV2_false_slot (cfg : Cfg) (slot : Slot) (given : HistV2) (t : Turn) (f : Fault) :
    (callV2 false cfg slot given t f).slot = slot := by
  by_cases h : (runObjV2 cfg (objFor false slot given) t f).2.1.raised = true
  · simp [callV2, h, slotAfterRaise_false]
  · simp [callV2, h]

/-- ... and it is a function of the state it was HANDED alone -/
theorem callV2_false_indep (cfg : Cfg) (slot slot' : Slot) (given : HistV2) (t : Turn) (f : Fault) :
    (callV2 false cfg slot given t f).steps = (callV2 false cfg slot' given t f).steps
    ∧ (callV2 false cfg slot given t f).reply = (callV2 false cfg slot' given t f).reply
    ∧ (callV2 false cfg slot given t f).saved = (callV2 false cfg slot' given t f).saved := by
  by_cases h : (runObjV2 cfg given t f).2.1.raised = true
  · simp [callV2, objFor_false, h]
  · simp [callV2, objFor_false, h]

theorem callV2_saved_none_iff (r : Bool) (cfg : Cfg) (slot : Slot) (given : HistV2) (t : Turn) (f : Fault) :
    (callV2 r cfg slot given t f).saved = none ↔ (callV2 r cfg slot given t f).reply.raised = true := by
  by_cases h : (runObjV2 cfg (objFor r slot given) t f).2.1.raised = true
  · simp [callV2, h]
  · simp [callV2, h]

/-- a call that does not raise IS the turn on (a new object holding) the given state -/
theorem callV2_false_completed (cfg : Cfg) (slot : Slot) (given : HistV2) (t : Turn) (f : Fault)
    (hc : (callV2 false cfg slot given t f).reply.raised = false) :
    (callV2 false cfg slot given t f).steps = (turnV2 cfg given t).1
    ∧ (callV2 false cfg slot given t f).reply = (turnV2 cfg given t).2.1
    ∧ (callV2 false cfg slot given t f).saved = some (turnV2 cfg given t).2.2 := by
  unfold callV2 at hc ⊢
  simp only [objFor_false] at hc ⊢
  unfold runObjV2 at hc ⊢
  cases hcut : f.cut (turnV2 cfg given t).1 with
  | some pre => simp [hcut, raisedReply] at hc
  | none =>
    simp only [hcut] at hc ⊢
    by_cases hr : (turnV2 cfg given t).2.1.raised = true
    · simp [hr] at hc
    · simp [hr]

/-- a raised call returns no text at all -/
theorem callV2_raised_texts (r : Bool) (cfg : Cfg) (slot : Slot) (given : HistV2) (t : Turn) (f : Fault)
    (hr : (callV2 r cfg slot given t f).reply.raised = true) : (callV2 r cfg slot given t f).reply.texts = [] := by
  unfold callV2 at hr ⊢
  unfold runObjV2 at hr ⊢
  cases hcut : f.cut (turnV2 cfg (objFor r slot given) t).1 with
  | some pre => simp [hcut, raisedReply]
  | none =>
    simp only [hcut] at hr ⊢
    by_cases h2 : (turnV2 cfg (objFor r slot given) t).2.1.raised = true
    · simp only [h2, if_true]
      have : (turnV2 cfg (objFor r slot given) t).2.1.texts = [] := by
        unfold turnV2 at h2 ⊢
        revert h2
        split
        · rename_i trIn h1 res heq
          cases res <;> simp [replyV2] <;> (try split) <;> simp_all [replyV2]
      simp [this]
    · simp [h2] at hr

/-- the state the caller holds after a call (what it was handed back, or what it held before) keeps
    `$output_rails_in_progress` unset -/
theorem callV2_false_next_orip (cfg : Cfg) (hfr : cfg.flagReset = true) (slot : Slot) (given : HistV2) (hor : given.orip = false)
    (t : Turn) (f : Fault) : ((callV2 false cfg slot given t f).saved.getD given).orip = false := by
  by_cases hr : (callV2 false cfg slot given t f).reply.raised = true
  · rw [(callV2_saved_none_iff false cfg slot given t f).mpr hr]; simpa using hor
  · have hc : (callV2 false cfg slot given t f).reply.raised = false := by simpa using hr
    rw [(callV2_false_completed cfg slot given t f hc).2.2]
    simpa using turnV2_orip cfg given t hfr hor

end NemoVerif.PipelineCall
