/-
  C10 on CoreVM: a conditional NO-PROPAGATION theorem.  For a faulty LEAF instance (no child flows, no actions, its own context,
  the parent — if any — exists and lists it when it is not activated) `_abort_flow` cannot raise, hence nothing Python-level
  leaves the `except` branch of `_advance_head_front`.  Hoare-style calculus `NP I I' x` (from `I`: no Python-level exception,
  normal return in `I'`) with value-aware read rules; the invariant `Leafish` is carried by a preservation relation `KL`.
-/
import NemoVerif.Lemmas.ErrFrameVM
set_option linter.unusedSimpArgs false
set_option linter.unusedVariables false
namespace NemoVerif.CoreVM
open NemoVerif NemoVerif.CoreIndex

/-! ### no propagation for a leaf instance: `_abort_flow` cannot raise -/

/-- not a Python-level exception -/
def NoPyR {α : Type} (r : EStateM.Result VMErr VM α) : Prop := ∀ c m s', r ≠ .error (.py c m) s'

/-- Hoare-style: from a state satisfying `I`, `x` does not end in a Python-level exception, and a normal return ends in `I'` -/
structure NP (I I' : VM → Prop) {α : Type} (x : M α) : Prop where
  app : ∀ s, I s → NoPyR (x s) ∧ ∀ a s', x s = .ok a s' → I' s'

theorem NP.pure {I : VM → Prop} {α : Type} (a : α) : NP I I (Pure.pure a : M α) :=
  ⟨fun s h => And.intro (by intro c m s' e; cases e) (by intro a s' e; cases e; exact h)⟩
theorem NP.throwOther {I I' : VM → Prop} {α : Type} (e : VMErr) (he : ∀ c m, e ≠ .py c m) : NP I I' (throw e : M α) :=
  ⟨fun s h => And.intro (by intro c m s' e'; cases e'; exact he _ _ rfl) (by intro a s' e'; cases e')⟩
theorem NP.unsupported {I I' : VM → Prop} {α : Type} (w : String) : NP I I' (unsupported w : M α) :=
  NP.throwOther _ (by intro c m h; cases h)
theorem NP.bind {I I' I'' : VM → Prop} {α β : Type} {x : M α} {f : α → M β} (hx : NP I I' x) (hf : ∀ a, NP I' I'' (f a)) :
    NP I I'' (x >>= f) := by
  refine ⟨fun s hI => ?_⟩
  obtain ⟨n1, i1⟩ := hx.app s hI
  cases hxs : x s with
  | ok a s1 =>
    rw [bind_ok_eq hxs]
    exact (hf a).app s1 (i1 a s1 hxs)
  | error e s1 =>
    rw [bind_err_eq hxs]
    rw [hxs] at n1
    exact And.intro (by intro c m s' h; cases h; exact n1 c m s1 rfl) (by intro a s' h; cases h)
theorem NP.pre {I J I' : VM → Prop} {α : Type} {x : M α} (h : NP J I' x) (hij : ∀ s, I s → J s) : NP I I' x :=
  ⟨fun s hI => h.app s (hij s hI)⟩
theorem NP.post {I I' J' : VM → Prop} {α : Type} {x : M α} (h : NP I I' x) (hij : ∀ s, I' s → J' s) : NP I J' x :=
  ⟨fun s hI => ⟨(h.app s hI).1, fun a s' e => hij s' ((h.app s hI).2 a s' e)⟩⟩

/-- from a relational preservation fact and a "cannot raise here" fact -/
theorem NP.of_pres {I : VM → Prop} {R : VM → VM → Prop} (hR : ∀ s s', I s → R s s' → I s') {α : Type} {x : M α}
    (hp : Pres R x) (hn : ∀ s, I s → NoPyR (x s)) : NP I I x :=
  ⟨fun s hI => ⟨hn s hI, fun a s' e => hR s s' hI (ok_of_pres hp e)⟩⟩

theorem NP.forIn_nil {I : VM → Prop} {α β : Type} (init : β) (body : α → β → M (ForInStep β)) :
    NP I I (ForIn.forIn ([] : List α) init body) := by
  simp only [List.forIn_nil]; exact NP.pure _

/-- the shape of a leaf instance: no child flows, no actions; its own context; the parent, if any, exists -/
structure LeafRec (par : Option FUid) (act : Int) (x : InstX) : Prop where
  kids : x.childFlowUids = []
  acts : x.actionUids = []
  par : x.parentUid = par
  act : x.activated = act
  own : x.ctxOwner = none

def Leafish (f : FUid) (par : Option FUid) (act : Int) (s : VM) : Prop :=
  (∃ x, OMap.lookup f s.r.fx = some x ∧ LeafRec par act x) ∧ (findInst s.ixs.ix f).isSome ∧
  ∀ p, par = some p → (OMap.lookup p s.r.fx).isSome

/-- `Leafish` plus: the parent lists the instance (needed by `parent.child_flow_uids.remove(uid)` when it is not activated) -/
def Leafish1 (f : FUid) (par : Option FUid) (act : Int) (s : VM) : Prop :=
  Leafish f par act s ∧ (act = 0 → ∀ p, par = some p → ∃ px, OMap.lookup p s.r.fx = some px ∧ f ∈ px.childFlowUids)


/-- the relation "being a leaf of this shape is preserved" -/
def KL (f : FUid) (s s' : VM) : Prop := ∀ par act, Leafish f par act s → Leafish f par act s'
theorem klPO (f : FUid) : PreOrd (KL f) := ⟨fun _ _ _ h => h, fun h1 h2 par act h => h2 par act (h1 par act h)⟩

theorem KL.uid (f : FUid) (s : VM) (n : Nat) : KL f s { s with r := { s.r with nextUid := n } } := fun _ _ h => h
theorem KL.of_same {f : FUid} {α : Type} {x : M α} (h : Pres Same x) : Pres (KL f) x := Pres.of_same (KL.uid f) h
theorem KL.of_neutral {f : FUid} {α : Type} {x : M α} (h : Pres Neutral x) : Pres (KL f) x := by
  refine ⟨fun s par act hl => ?_⟩
  obtain ⟨e1, e2, e3⟩ := h.app s
  unfold Leafish at *
  rw [e1, e2]; exact hl

theorem KL.modInstX (f g : FUid) (u : InstX → InstX) (hu : ∀ x par act, LeafRec par act x → LeafRec par act (u x)) :
    Pres (KL f) (modInstX g u) := by
  refine ⟨fun s par act hl => ?_⟩
  obtain ⟨⟨x, hx, hr⟩, hi, hp⟩ := hl
  simp only [outState, CoreVM.modInstX, CoreVM.modifyRest, modify, modifyGet, MonadStateOf.modifyGet, EStateM.modifyGet]
  refine ⟨?_, hi, fun p hpp => ?_⟩
  · simp only [OMap.lookup_modify]
    by_cases e : f = g
    · subst e; exact ⟨u x, by simp [hx], hu x par act hr⟩
    · exact ⟨x, by simp [e, hx], hr⟩
  · have := hp p hpp
    simp only [OMap.lookup_modify]
    split
    · rename_i e; subst e; cases hl : OMap.lookup p s.r.fx <;> simp_all
    · exact this

theorem KL.applyOp (f : FUid) (op : Op) (hne : ∀ g, op ≠ .removeInst g) : Pres (KL f) (applyOp op) := by
  refine ⟨fun s par act hl => ?_⟩
  unfold CoreVM.applyOp
  split
  · obtain ⟨hx, hi, hp⟩ := hl
    refine ⟨hx, ?_, hp⟩
    simp only [outState, IxS.apply]
    rw [findInst_isSome_iff] at hi ⊢
    exact instUids_step_mem _ _ hne f hi
  · exact hl


/-! #### computations that never raise a Python-level exception, from any state -/

def NeverPy {α : Type} (x : M α) : Prop := ∀ s, NoPyR (x s)

theorem NeverPy.pure {α : Type} (a : α) : NeverPy (Pure.pure a : M α) := fun s c m s' e => by cases e
theorem NeverPy.bind {α β : Type} {x : M α} {f : α → M β} (hx : NeverPy x) (hf : ∀ a, NeverPy (f a)) : NeverPy (x >>= f) := by
  intro s c m s' e
  rcases bind_err e with h | ⟨a, s1, _, h⟩
  · exact hx s c m s' h
  · exact hf a s1 c m s' h
theorem NeverPy.modifyRest (g : Rest → Rest) : NeverPy (CoreVM.modifyRest g) := fun s c m s' e => by cases e
theorem NeverPy.getRest : NeverPy getRest := fun s c m s' e => by cases e
theorem NeverPy.getIx : NeverPy getIx := fun s c m s' e => by cases e
theorem NeverPy.applyOp (op : Op) : NeverPy (applyOp op) := by
  intro s c m s' e
  unfold CoreVM.applyOp at e
  split at e <;> cases e
theorem NeverPy.modInstX (f : FUid) (u) : NeverPy (modInstX f u) := NeverPy.modifyRest _
theorem NeverPy.pushEvent (e : Event) : NeverPy (pushEvent e) := NeverPy.modifyRest _
theorem NeverPy.pushLeftEvent (e : Event) : NeverPy (pushLeftEvent e) := NeverPy.modifyRest _
theorem NeverPy.freshUid : NeverPy freshUid := by
  unfold CoreVM.freshUid
  exact NeverPy.bind NeverPy.getRest (fun _ => NeverPy.bind (NeverPy.modifyRest _) (fun _ => NeverPy.pure _))
theorem NeverPy.dropHeads (f : FUid) : NeverPy (dropHeads f) := by
  unfold CoreVM.dropHeads
  refine NeverPy.bind NeverPy.getIx (fun ix => ?_)
  exact NeverPy.bind (NeverPy.applyOp _) (fun _ => NeverPy.modifyRest _)
theorem NeverPy.setFlowStatus (f : FUid) (st : FlowStatus) : NeverPy (setFlowStatus f st) := by
  unfold CoreVM.setFlowStatus
  exact NeverPy.bind (NeverPy.applyOp _) (fun _ => NeverPy.bind NeverPy.getRest (fun _ => NeverPy.modInstX _ _))
theorem NeverPy.flowStartEvent (o : FlowObj) (a) : NeverPy (flowStartEvent o a) := by
  unfold CoreVM.flowStartEvent
  exact NeverPy.bind NeverPy.freshUid (fun _ => NeverPy.pure _)

theorem NP.of_never {f : FUid} {par : Option FUid} {act : Int} {α : Type} {x : M α} (hp : Pres (KL f) x) (hn : NeverPy x) :
    NP (Leafish f par act) (Leafish f par act) x :=
  NP.of_pres (R := KL f) (fun s s' hI hR => hR par act hI) hp (fun s _ => hn s)


theorem KL.modifyRest_fx (f : FUid) (g : Rest → Rest) (hfx : ∀ r, (g r).fx = r.fx) : Pres (KL f) (CoreVM.modifyRest g) := by
  refine ⟨fun s par act hl => ?_⟩
  simp only [outState, CoreVM.modifyRest, modify, modifyGet, MonadStateOf.modifyGet, EStateM.modifyGet]
  unfold Leafish at *
  simp only [hfx]; exact hl

/-- record updates that keep the leaf shape -/
syntax "leafrec_tac" : tactic
macro_rules | `(tactic| leafrec_tac) => `(tactic| (intro x par act h; exact ⟨h.kids, h.acts, h.par, h.act, h.own⟩))

syntax "kl_leaf" : tactic
macro_rules | `(tactic| kl_leaf) => `(tactic| first
  | (apply KL.of_same; same_leaf)
  | (apply KL.of_neutral; neutral_leaf)
  | (refine KL.modInstX _ _ _ ?_; leafrec_tac)
  | exact KL.applyOp _ _ (fun _ h => Op.noConfusion h)
  | (refine KL.modifyRest_fx _ _ ?_; intro r; rfl))

theorem KL.dropHeads (f g : FUid) : Pres (KL f) (dropHeads g) := by
  unfold CoreVM.dropHeads; pres_search (KL f) (klPO f) (kl_leaf)
theorem KL.setFlowStatus (f g : FUid) (st : FlowStatus) : Pres (KL f) (setFlowStatus g st) := by
  unfold CoreVM.setFlowStatus; pres_search (KL f) (klPO f) (kl_leaf)
theorem KL.restartActivated (f g : FUid) (sc : List Score) (d : Bool) : Pres (KL f) (restartActivated g sc d) := by
  unfold CoreVM.restartActivated; pres_search (KL f) (klPO f) (kl_leaf)


/-- the same for `Leafish1` (used up to `parent.child_flow_uids.remove`) -/
def KL1 (f : FUid) (s s' : VM) : Prop := ∀ par act, Leafish1 f par act s → Leafish1 f par act s'
theorem kl1PO (f : FUid) : PreOrd (KL1 f) := ⟨fun _ _ _ h => h, fun h1 h2 par act h => h2 par act (h1 par act h)⟩

theorem KL1.of_fx_same {f : FUid} {α : Type} {x : M α} (h : Pres (KL f) x) (hfx : ∀ s, (outState (x s)).r.fx = s.r.fx) :
    Pres (KL1 f) x := by
  refine ⟨fun s par act hl => ?_⟩
  refine ⟨h.app s par act hl.1, fun ha p hp => ?_⟩
  rw [hfx s]; exact hl.2 ha p hp

theorem fx_same_of_neutral {α : Type} {x : M α} (h : Pres Neutral x) (s : VM) : (outState (x s)).r.fx = s.r.fx := (h.app s).2.1
theorem fx_same_of_same {α : Type} {x : M α} (h : Pres Same x) (s : VM) : (outState (x s)).r.fx = s.r.fx := by
  obtain ⟨n, e⟩ := h.app s; rw [e]

theorem KL1.modInstX_flag (f g : FUid) :
    Pres (KL1 f) (modInstX g fun x => { x with newInstanceStarted := true }) := by
  refine ⟨fun s par act hl => ?_⟩
  refine ⟨(KL.modInstX f g _ (by leafrec_tac)).app s par act hl.1, fun ha p hp => ?_⟩
  obtain ⟨px, hpx, hmem⟩ := hl.2 ha p hp
  simp only [outState, CoreVM.modInstX, CoreVM.modifyRest, modify, modifyGet, MonadStateOf.modifyGet, EStateM.modifyGet,
    OMap.lookup_modify]
  split
  · rename_i e; subst e; exact ⟨{ px with newInstanceStarted := true }, by rw [hpx]; rfl, hmem⟩
  · exact ⟨px, hpx, hmem⟩

def FxSame (s s' : VM) : Prop := s'.r.fx = s.r.fx
theorem fxSamePO : PreOrd FxSame := ⟨fun _ => rfl, fun h1 h2 => by unfold FxSame at *; rw [h2, h1]⟩
theorem FxSame.applyOp (op : Op) : Pres FxSame (applyOp op) := by
  refine ⟨fun s => ?_⟩
  unfold CoreVM.applyOp
  split <;> rfl
theorem FxSame.dropHeads (f : FUid) : Pres FxSame (dropHeads f) := by
  unfold CoreVM.dropHeads
  refine Pres.bind fxSamePO (Pres.getIx fxSamePO) (fun ix => ?_)
  refine Pres.bind fxSamePO (FxSame.applyOp _) (fun _ => ?_)
  exact ⟨fun s => rfl⟩

section leaf
variable {f : FUid} {par : Option FUid} {act : Int}

theorem leaf_getInstX {s : VM} (h : Leafish f par act s) : ∃ x, getInstX f s = .ok x s ∧ LeafRec par act x := by
  obtain ⟨⟨x, hx, hr⟩, _, _⟩ := h
  exact ⟨x, by simp [getInstX, getInstX?, getRest, bind, EStateM.bind, get, getThe, MonadStateOf.get, EStateM.get, pure, EStateM.pure, hx], hr⟩

theorem leaf_getInst {s : VM} (h : Leafish f par act s) : ∃ i, getInst f s = .ok i s := by
  obtain ⟨_, hi, _⟩ := h
  obtain ⟨i, hi⟩ := Option.isSome_iff_exists.mp hi
  exact ⟨i, by simp [getInst, getInst?, getIx, bind, EStateM.bind, get, getThe, MonadStateOf.get, EStateM.get, pure, EStateM.pure, hi,
    Functor.map, EStateM.map]⟩

theorem eval_getInstX? {s : VM} {p : FUid} {o : Option InstX} (h : OMap.lookup p s.r.fx = o) : getInstX? p s = .ok o s := by
  simp [getInstX?, getRest, bind, EStateM.bind, get, getThe, MonadStateOf.get, EStateM.get, pure, EStateM.pure, h,
    Functor.map, EStateM.map]

theorem eval_getInstX {s : VM} {p : FUid} {px : InstX} (h : OMap.lookup p s.r.fx = some px) : getInstX p s = .ok px s := by
  unfold getInstX
  rw [bind_ok_eq (eval_getInstX? h)]; rfl

theorem NP.read_f {I I' : VM → Prop} {β : Type} (hI : ∀ s, I s → Leafish f par act s) (k : InstX → M β)
    (hk : ∀ x, LeafRec par act x → NP I I' (k x)) : NP I I' (getInstX f >>= k) := by
  refine ⟨fun s h => ?_⟩
  obtain ⟨x, hx, hr⟩ := leaf_getInstX (hI s h)
  rw [bind_ok_eq hx]
  exact (hk x hr).app s h

theorem NP.read_inst {I I' : VM → Prop} {β : Type} (hI : ∀ s, I s → Leafish f par act s) (k : Inst → M β)
    (hk : ∀ i, NP I I' (k i)) : NP I I' (getInst f >>= k) := by
  refine ⟨fun s h => ?_⟩
  obtain ⟨i, hi⟩ := leaf_getInst (hI s h)
  rw [bind_ok_eq hi]
  exact (hk i).app s h

theorem NP.read_parent? {I I' : VM → Prop} {β : Type} (hI : ∀ s, I s → Leafish f par act s) {p : FUid} (hp : par = some p)
    (k : Option InstX → M β) (hk : ∀ px, NP I I' (k (some px))) : NP I I' (getInstX? p >>= k) := by
  refine ⟨fun s h => ?_⟩
  obtain ⟨_, _, hpp⟩ := hI s h
  obtain ⟨px, hpx⟩ := Option.isSome_iff_exists.mp (hpp p hp)
  rw [bind_ok_eq (eval_getInstX? hpx)]
  exact (hk px).app s h

theorem NP.read_parent1 {I I' : VM → Prop} {β : Type} (hI : ∀ s, I s → Leafish1 f par act s) {p : FUid} (hp : par = some p)
    (hact : act = 0) (k : InstX → M β) (hk : ∀ px, f ∈ px.childFlowUids → NP I I' (k px)) : NP I I' (getInstX p >>= k) := by
  refine ⟨fun s h => ?_⟩
  obtain ⟨_, hc⟩ := hI s h
  obtain ⟨px, hpx, hmem⟩ := hc hact p hp
  rw [bind_ok_eq (eval_getInstX hpx)]
  exact (hk px hmem).app s h

theorem NP.ite {I I' : VM → Prop} {α : Type} {c : Prop} [Decidable c] {x y : M α} (hx : NP I I' x) (hy : NP I I' y) :
    NP I I' (if c then x else y) := by
  split <;> assumption


theorem np_isReferenceActivated : NP (Leafish f par act) (Leafish f par act) (isReferenceActivated f) := by
  unfold CoreVM.isReferenceActivated
  refine NP.read_f (fun _ h => h) _ (fun x hr => ?_)
  split
  · exact NP.pure _
  · rename_i p heq
    have hp : par = some p := by rw [← hr.par]; exact heq
    split
    · refine NP.read_parent? (fun _ h => h) hp _ (fun px => ?_)
      exact NP.pure _
    · exact NP.pure _

theorem np_failedEvent (sc : List Score) : NP (Leafish f par act) (Leafish f par act) (failedEvent f sc) := by
  unfold CoreVM.failedEvent CoreVM.flowObjOf CoreVM.getCtx CoreVM.ctxHolder
  simp only [bind_assoc, pure_bind]
  refine NP.read_f (fun _ h => h) _ (fun x hr => ?_)
  refine NP.read_f (fun _ h => h) _ (fun x2 hr2 => ?_)
  simp only [hr2.own, pure_bind]
  refine NP.read_f (fun _ h => h) _ (fun x3 hr3 => ?_)
  exact NP.pure _


theorem np_restartActivated (sc : List Score) :
    NP (Leafish f par act) (Leafish f par act) (restartActivated f sc false) := by
  unfold CoreVM.restartActivated CoreVM.flowObjOf CoreVM.getCtx CoreVM.ctxHolder
  simp only [bind_assoc, pure_bind]
  refine NP.read_f (fun _ h => h) _ (fun x hr => ?_)
  split
  · refine NP.read_f (fun _ h => h) _ (fun x1 hr1 => ?_)
    refine NP.read_f (fun _ h => h) _ (fun x2 hr2 => ?_)
    simp only [hr2.own, pure_bind]
    refine NP.read_f (fun _ h => h) _ (fun x3 hr3 => ?_)
    refine NP.bind (NP.of_never (KL.of_same (Same.flowStartEvent _ _)) (NeverPy.flowStartEvent _ _)) (fun e => ?_)
    have tail : ∀ ev : Event, NP (Leafish f par act) (Leafish f par act) (do
        pushLeftEvent ev
        modInstX f fun x => { x with newInstanceStarted := true }) := fun ev =>
      NP.bind (NP.of_never (KL.of_neutral (Neutral.pushLeftEvent _)) (NeverPy.pushLeftEvent _))
        (fun _ => NP.of_never (KL.modInstX _ _ _ (by leafrec_tac)) (NeverPy.modInstX _ _))
    split
    · rename_i p heq
      have hp : par = some p := by rw [← hr.par]; exact heq
      refine NP.read_parent? (fun _ h => h) hp _ (fun px => ?_)
      exact tail _
    · exact tail _
  · exact NP.pure _


theorem NP.lift1 {α : Type} {x : M α} (h : NP (Leafish f par act) (Leafish f par act) x) (hp : Pres (KL1 f) x) :
    NP (Leafish1 f par act) (Leafish1 f par act) x :=
  ⟨fun s h1 => And.intro (h.app s h1.1).1 (fun a s' e => ok_of_pres hp e par act h1)⟩

theorem np_tail (sc : List Score) : NP (Leafish f par act) (Leafish f par act) (do
    setFlowStatus f FlowStatus.stopped
    let e ← failedEvent f sc
    pushEvent e
    restartActivated f sc false) :=
  NP.bind (NP.of_never (KL.setFlowStatus f f _) (NeverPy.setFlowStatus _ _)) (fun _ =>
    NP.bind (np_failedEvent sc) (fun e =>
      NP.bind (NP.of_never (KL.of_neutral (Neutral.pushEvent e)) (NeverPy.pushEvent e)) (fun _ => np_restartActivated sc)))

theorem np_unlink (p : FUid) : NP (Leafish1 f par act) (Leafish f par act)
    (modInstX p fun y => { y with childFlowUids := listRemoveFirst f y.childFlowUids }) :=
  NP.pre (NP.of_never (KL.modInstX f p _ (by
      intro x par act h
      exact ⟨by show listRemoveFirst f x.childFlowUids = []; rw [h.kids]; rfl, h.acts, h.par, h.act, h.own⟩))
    (NeverPy.modInstX _ _)) (fun _ h => h.1)

/-- **`_abort_flow` on a leaf instance never raises** (no child flows, no actions, own context, the parent — if any — exists and,
    when the instance is not activated, lists it): no Python-level exception leaves it, from any such state, for any fuel. -/
theorem abortFlow_leaf_no_py (fuel : Nat) (sc : List Score) :
    NP (Leafish1 f par act) (Leafish f par act) (abortFlow (fuel + 1) f sc false) := by
  unfold CoreVM.abortFlow
  simp only [deactivatesRef_false, pure_bind, Bool.false_and, Bool.false_eq_true, if_false]
  refine NP.read_inst (fun _ h => h.1) _ (fun i => ?_)
  split
  · exact NP.post (NP.pure _) (fun s h => h.1)
  · refine NP.read_f (fun _ h => h.1) _ (fun x0 hr0 => ?_)
    have hdrop : NP (Leafish1 f par act) (Leafish1 f par act) (dropHeads f) :=
      NP.lift1 (NP.of_never (KL.dropHeads f f) (NeverPy.dropHeads f))
        (KL1.of_fx_same (KL.dropHeads f f) (fun s => (FxSame.dropHeads f).app s))
    have body : NP (Leafish1 f par act) (Leafish f par act) (do
        let x1 ← getInstX f
        forIn x1.childFlowUids PUnit.unit fun c __s => do
          let o ← getInstX? c
          if o.isSome = true then do
            let b ← isChildActivated c
            if (!b) = true then do
              abortFlow fuel c sc true
              pure (ForInStep.yield PUnit.unit)
            else pure (ForInStep.yield PUnit.unit)
          else pure (ForInStep.yield PUnit.unit)
        let x2 ← getInstX f
        forIn x2.actionUids PUnit.unit fun au __s => do
          releaseAction au
          pure (ForInStep.yield PUnit.unit)
        dropHeads f
        let x ← getInstX f
        if x.activated = 0 then
          match x.parentUid with
          | some p => do
            let o ← getInstX? p
            if o.isSome = true then do
              let px ← getInstX p
              if (!px.childFlowUids.contains f) = true then do
                pyRaise "ValueError" "list.remove(x): x not in list"
                modInstX p fun y => { y with childFlowUids := listRemoveFirst f y.childFlowUids }
                setFlowStatus f FlowStatus.stopped
                let e ← failedEvent f sc
                pushEvent e
                restartActivated f sc false
              else do
                modInstX p fun y => { y with childFlowUids := listRemoveFirst f y.childFlowUids }
                setFlowStatus f FlowStatus.stopped
                let e ← failedEvent f sc
                pushEvent e
                restartActivated f sc false
            else do
              setFlowStatus f FlowStatus.stopped
              let e ← failedEvent f sc
              pushEvent e
              restartActivated f sc false
          | none => do
            setFlowStatus f FlowStatus.stopped
            let e ← failedEvent f sc
            pushEvent e
            restartActivated f sc false
        else do
          setFlowStatus f FlowStatus.stopped
          let e ← failedEvent f sc
          pushEvent e
          restartActivated f sc false) := by
      refine NP.read_f (fun _ h => h.1) _ (fun x1 hr1 => ?_)
      rw [hr1.kids]
      refine NP.bind (NP.forIn_nil _ _) (fun _ => ?_)
      refine NP.read_f (fun _ h => h.1) _ (fun x2 hr2 => ?_)
      rw [hr2.acts]
      refine NP.bind (NP.forIn_nil _ _) (fun _ => ?_)
      refine NP.bind hdrop (fun _ => ?_)
      refine NP.read_f (fun _ h => h.1) _ (fun x hr => ?_)
      have tl := NP.pre (np_tail (f := f) (par := par) (act := act) sc) (fun _ (h : Leafish1 f par act _) => h.1)
      split
      · rename_i hact0
        have hact : act = 0 := by rw [← hr.act]; exact hact0
        split
        · rename_i p heq
          have hp : par = some p := by rw [← hr.par]; exact heq
          refine NP.read_parent? (fun _ h => h.1) hp _ (fun px0 => ?_)
          simp only [Option.isSome_some, if_true]
          refine NP.read_parent1 (fun _ h => h) hp hact _ (fun px hmem => ?_)
          have hc : px.childFlowUids.contains f = true := by simpa using hmem
          simp only [hc, Bool.not_true, Bool.false_eq_true, if_false]
          exact NP.bind (np_unlink p) (fun _ => np_tail sc)
        · exact tl
      · exact tl
    split
    · refine NP.bind (NP.lift1 (NP.of_never (KL.modInstX f f _ (by leafrec_tac)) (NeverPy.modInstX _ _)) (KL1.modInstX_flag f f)) (fun _ => ?_)
      exact body
    · exact body


theorem np_errPrefix (k : Key) (hk : k.1 = f) (c m : String) (b : Bool) :
    NP (Leafish1 f par act) (Leafish1 f par act) (errPrefix k c m b) := by
  unfold CoreVM.errPrefix
  subst hk
  have l1 : ∀ {α : Type} {x : M α}, Pres Neutral x → NeverPy x → NP (Leafish1 k.1 par act) (Leafish1 k.1 par act) x :=
    fun hp hn => NP.lift1 (NP.of_never (KL.of_neutral hp) hn) (KL1.of_fx_same (KL.of_neutral hp) (fx_same_of_neutral hp))
  refine NP.bind (l1 (Neutral.pushEvent _) (NeverPy.pushEvent _)) (fun _ => ?_)
  refine NP.bind (l1 (Neutral.modifyRest _ (fun _ => rfl) (fun _ => rfl)) (NeverPy.modifyRest _)) (fun _ => ?_)
  have hs : NP (Leafish1 k.1 par act) (Leafish1 k.1 par act) (headScores k) :=
    NP.lift1 (NP.of_pres (R := KL k.1) (fun s s' hI hR => hR par act hI) (KL.of_same (Same.headScores k))
        (fun s _ c m s' e => by
          simp [headScores, getHeadX, getRest, bind, EStateM.bind, get, getThe, MonadStateOf.get, EStateM.get, pure, EStateM.pure,
            Functor.map, EStateM.map] at e))
      (KL1.of_fx_same (KL.of_same (Same.headScores k)) (fx_same_of_same (Same.headScores k)))
  refine NP.read_f (fun _ h => h.1) _ (fun x hr => ?_)
  split
  · refine NP.bind (NP.lift1 (NP.of_never (KL.modInstX k.1 k.1 _ (by leafrec_tac)) (NeverPy.modInstX _ _)) (KL1.modInstX_flag k.1 k.1)) (fun _ => hs)
  · exact hs

/-- **a faulty LEAF flow never lets anything Python-level out of the `except` branch** -/
theorem errHandler_leaf_no_py (fuel : Nat) (k : Key) (hk : k.1 = f) (c m : String) (b : Bool) (s2 : VM)
    (hl : Leafish1 f par act s2) : NoPyR (errHandler (fuel + 1) k c m b s2) := by
  rw [errHandler_eq]
  have h : NP (Leafish1 f par act) (Leafish f par act) (do
      let sc ← errPrefix k c m b
      abortFlow (fuel + 1) k.1 sc false
      let _ ← getIx
      return ([] : List Key)) := by
    refine NP.bind (np_errPrefix k hk c m b) (fun sc => ?_)
    rw [hk]
    refine NP.bind (abortFlow_leaf_no_py fuel sc) (fun _ => ?_)
    exact NP.bind (NP.of_never (KL.of_same ⟨fun s => ⟨s.r.nextUid, rfl⟩⟩) NeverPy.getIx) (fun _ => NP.pure _)
  exact (h.app s2 hl).1

end leaf

end NemoVerif.CoreVM
