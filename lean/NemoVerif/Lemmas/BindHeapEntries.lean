/-
  C08 — generic induction over the callee-entry trace of `hexec`; return members are fresh in every call of every history.
-/
import NemoVerif.Lemmas.BindHeap
namespace NemoVerif.Bind
open NemoVerif

/-- every entry recorded on the way from `s` to `s'` satisfies `Q` -/
def EntriesQ (Q : Entry → Prop) (s s' : HSt) : Prop := ∀ e ∈ s'.entries, e ∈ s.entries ∨ Q e

theorem EntriesQ.of_eq {Q : Entry → Prop} {s s' : HSt} (h : s'.entries = s.entries) : EntriesQ Q s s' :=
  fun _ he => Or.inl (h ▸ he)

theorem EntriesQ.trans {Q : Entry → Prop} {a b c : HSt} (h1 : EntriesQ Q a b) (h2 : EntriesQ Q b c) : EntriesQ Q a c := fun e he =>
  match h2 e he with
  | .inl hb => h1 e hb
  | .inr ok => .inr ok

/-- generic form of the induction behind `defaults_fresh`: a property of callee entries that holds for the entry
    of every single call holds for every entry recorded during a whole execution -/
theorem hexec_entriesQ (Q : Entry → Prop) (flows : List (String × HFlowDef))
    (hQ : ∀ (h : Heap) (g c : Ctx) (u : Nat) (form : CallForm) (flow : String) (pos : List Expr) (named : List (String × Expr)) (n : Nat) (d : HFlowDef) (f0 f1 : Inst),
      findHFlow flow flows = some d →
      createFlowInstance flow (allocDefaults (userArgsH h g c pos named).1 d.params).2
        (allocDefaults (allocDefaults (userArgsH h g c pos named).1 d.params).1 d.rets).2 (startArgs (userArgsH h g c pos named).2 form flow n u) = .ok f0 →
      startFlow false (startArgs (userArgsH h g c pos named).2 form flow n u) f0 = .ok f1 →
      Q (Entry.mk n flow (userArgsH h g c pos named).2
        (derefCtx (allocDefaults (allocDefaults (userArgsH h g c pos named).1 d.params).1 d.rets).1 f1.context))) :
    ∀ (fuel : Nat) (s : HSt) (u : Nat) (body : List HStmt), EntriesQ Q s (hexec flows fuel s u body).1
  | 0, s, u, body => by simp only [hexec]; exact .of_eq rfl
  | fuel + 1, s, u, [] => by simp only [hexec]; exact .of_eq rfl
  | fuel + 1, s, u, stmt :: rest => by
    cases stmt with
    | assign k e =>
      simp only [hexec]
      exact EntriesQ.trans (.of_eq rfl) (hexec_entriesQ Q flows hQ fuel _ u rest)
    | global x =>
      simp only [hexec]
      exact EntriesQ.trans (.of_eq rfl) (hexec_entriesQ Q flows hQ fuel _ u rest)
    | ret e => simp only [hexec]; exact .of_eq rfl
    | send name args =>
      simp only [hexec]
      exact EntriesQ.trans (.of_eq rfl) (hexec_entriesQ Q flows hQ fuel _ u rest)
    | block => simp only [hexec]; exact .of_eq rfl
    | «mut» x path m ret =>
      simp only [hexec]
      split
      · split
        · exact .of_eq rfl
        · split
          · exact .of_eq rfl
          · exact EntriesQ.trans (.of_eq rfl) (hexec_entriesQ Q flows hQ fuel _ u rest)
      · exact .of_eq rfl
    | call form retVar flow pos named =>
      simp only [hexec]
      split
      · exact .of_eq rfl
      · rename_i d hd
        split
        · exact .of_eq rfl
        · rename_i f0 hf0
          split
          · exact .of_eq rfl
          · rename_i f1 hf1
            -- the new entry obeys the rule
            have hnew : EntriesQ Q s { (s.addInst s.st.next f1 (allocDefaults (allocDefaults (userArgsH s.heap s.st.globals (s.st.ctxOf u) pos named).1 d.params).1 d.rets).1) with
                entries := s.entries ++ [Entry.mk s.st.next flow (userArgsH s.heap s.st.globals (s.st.ctxOf u) pos named).2
                  (derefCtx (allocDefaults (allocDefaults (userArgsH s.heap s.st.globals (s.st.ctxOf u) pos named).1 d.params).1 d.rets).1 f1.context)] } := by
              intro e he
              simp only [List.mem_append, List.mem_singleton] at he
              rcases he with he | he
              · exact .inl he
              · right
                subst he
                exact hQ _ _ _ u form flow pos named s.st.next d f0 f1 hd hf0 hf1
            have g2 := hnew.trans (hexec_entriesQ Q flows hQ fuel _ s.st.next d.body)
            split
            · exact g2
            · exact g2
            · exact g2
            · split
              · exact g2
              · split
                · exact g2.trans (hexec_entriesQ Q flows hQ fuel _ u rest)
                · split
                  · exact g2
                  · split
                    · exact g2
                    · split
                      · exact g2.trans (hexec_entriesQ Q flows hQ fuel _ u rest)
                      · split
                        · exact g2
                        · exact g2.trans (EntriesQ.trans (.of_eq rfl) (hexec_entriesQ Q flows hQ fuel _ u rest))


/-- the statement's rule for return members, on one recorded callee entry -/
def EntryRetOK (flows : List (String × HFlowDef)) (e : Entry) : Prop :=
  ∀ d, findHFlow e.flow flows = some d → ∀ k, WellFormedCall d.params d.rets e.ua k → (pnames d.rets).Nodup →
    ∀ j (hj : j < d.rets.length), lookup (.name d.rets[j].name) e.ctx = some d.rets[j].dfltVal

theorem hexec_entriesRetOK (flows : List (String × HFlowDef)) (fuel : Nat) (s : HSt) (u : Nat) (body : List HStmt) :
    EntriesQ (EntryRetOK flows) s (hexec flows fuel s u body).1 := by
  refine hexec_entriesQ (EntryRetOK flows) flows ?_ fuel s u body
  intro h g c u form flow pos named n d f0 f1 hd hf0 hf1 d' hd' k hwf hrn j hj
  simp only at hd'
  rw [hd] at hd'
  injection hd' with hd'
  subst hd'
  obtain ⟨g0, g1, e0, e1, hspec⟩ := return_members_fresh_call_core (userArgsH h g c pos named).1 d.params d.rets _ k form flow n u hwf hrn
  rw [hf0] at e0
  injection e0 with e0
  subst e0
  rw [hf1] at e1
  injection e1 with e1
  subst e1
  exact (hspec j hj).1

end NemoVerif.Bind
