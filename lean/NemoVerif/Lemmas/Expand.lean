/-
  Lemmas for C12 (Colang 2.x part): the expansion model produces closed programs with fresh labels.
  Part 1: the invariant and its algebra (append, constant pieces, checker clauses under append / context).
-/
import NemoVerif.Models.Expand
import NemoVerif.Lemmas.Closed
namespace NemoVerif.Expand
open NemoVerif.Closed

/-! ### checker clauses: monotone in the context, compositional under append -/

theorem mergeForkOK_mono : ∀ (p : List (Prim Lbl)) (s s' : List Lbl), (∀ x ∈ s, x ∈ s') →
    mergeForkOK s p = true → mergeForkOK s' p = true := by
  intro p
  induction p with
  | nil => intro s s' _ _; rfl
  | cons e r ih =>
    intro s s' hs h
    cases e with
    | fork u ls =>
      simp only [mergeForkOK] at h ⊢
      exact ih (u :: s) (u :: s') (by intro x hx; rcases List.mem_cons.1 hx with hx | hx; exact hx ▸ List.mem_cons_self; exact List.mem_cons_of_mem _ (hs x hx)) h
    | merge u =>
      simp only [mergeForkOK, Bool.and_eq_true, List.contains_iff_mem] at h ⊢
      exact ⟨hs u h.1, ih s s' hs h.2⟩
    | _ => simp only [mergeForkOK] at h ⊢; exact ih s s' hs h

theorem mergeForkOK_append : ∀ (a b : List (Prim Lbl)) (s : List Lbl),
    mergeForkOK s a = true → mergeForkOK s b = true → mergeForkOK s (a ++ b) = true := by
  intro a
  induction a with
  | nil => intro b s _ hb; exact hb
  | cons e r ih =>
    intro b s ha hb
    cases e with
    | fork u ls =>
      simp only [List.cons_append, mergeForkOK] at ha ⊢
      exact ih b (u :: s) ha (mergeForkOK_mono b s (u :: s) (fun x hx => List.mem_cons_of_mem _ hx) hb)
    | merge u =>
      simp only [List.cons_append, mergeForkOK, Bool.and_eq_true] at ha ⊢
      exact ⟨ha.1, ih b s ha.2 hb⟩
    | _ => simp only [List.cons_append, mergeForkOK] at ha ⊢; exact ih b s ha hb

theorem scopeOpenedOK_mono : ∀ (p : List (Prim Lbl)) (s s' : List Lbl), (∀ x ∈ s, x ∈ s') →
    scopeOpenedOK s p = true → scopeOpenedOK s' p = true := by
  intro p
  induction p with
  | nil => intro s s' _ _; rfl
  | cons e r ih =>
    intro s s' hs h
    cases e with
    | beginScope u =>
      simp only [scopeOpenedOK] at h ⊢
      exact ih (u :: s) (u :: s') (by intro x hx; rcases List.mem_cons.1 hx with hx | hx; exact hx ▸ List.mem_cons_self; exact List.mem_cons_of_mem _ (hs x hx)) h
    | endScope u =>
      simp only [scopeOpenedOK, Bool.and_eq_true, List.contains_iff_mem] at h ⊢
      exact ⟨hs u h.1, ih s s' hs h.2⟩
    | _ => simp only [scopeOpenedOK] at h ⊢; exact ih s s' hs h

theorem scopeOpenedOK_append : ∀ (a b : List (Prim Lbl)) (s : List Lbl),
    scopeOpenedOK s a = true → scopeOpenedOK s b = true → scopeOpenedOK s (a ++ b) = true := by
  intro a
  induction a with
  | nil => intro b s _ hb; exact hb
  | cons e r ih =>
    intro b s ha hb
    cases e with
    | beginScope u =>
      simp only [List.cons_append, scopeOpenedOK] at ha ⊢
      exact ih b (u :: s) ha (scopeOpenedOK_mono b s (u :: s) (fun x hx => List.mem_cons_of_mem _ hx) hb)
    | endScope u =>
      simp only [List.cons_append, scopeOpenedOK, Bool.and_eq_true] at ha ⊢
      exact ⟨ha.1, ih b s ha.2 hb⟩
    | _ => simp only [List.cons_append, scopeOpenedOK] at ha ⊢; exact ih b s ha hb

theorem scopeClosedOK_append : ∀ (a b : List (Prim Lbl)),
    scopeClosedOK a = true → scopeClosedOK b = true → scopeClosedOK (a ++ b) = true := by
  intro a
  induction a with
  | nil => intro b _ hb; exact hb
  | cons e r ih =>
    intro b ha hb
    cases e with
    | beginScope u =>
      simp only [List.cons_append, scopeClosedOK, Bool.and_eq_true, List.contains_iff_mem] at ha ⊢
      exact ⟨List.mem_append_left _ ha.1, ih b ha.2 hb⟩
    | _ => simp only [List.cons_append, scopeClosedOK] at ha ⊢; exact ih b ha hb

/-! ### the invariant -/

/-- invariant of a generated piece `r = g c`: `ext` are the labels it may target without defining them
    (the labels of the enclosing loop, the end label of the enclosing template, …) -/
structure Inv (ext : List Lbl) (c : Nat) (r : List (Prim Lbl) × Nat) : Prop where
  mono : c ≤ r.2
  prim : ∀ e ∈ r.1, e.isPrimitive = true
  tgt : ∀ e ∈ r.1, ∀ l ∈ e.targets, Prim.label l ∈ r.1 ∨ l ∈ ext
  /-- fresh-label lemma: every label defined by the piece carries a counter value drawn while generating it -/
  fresh : ∀ l, Prim.label l ∈ r.1 → c ≤ l.2 ∧ l.2 < r.2
  mf : mergeForkOK [] r.1 = true
  so : scopeOpenedOK [] r.1 = true
  sc : scopeClosedOK r.1 = true

def GenOK (ext : List Lbl) (g : Gen) : Prop := ∀ c, Inv ext c (g c)

theorem inv_nil (ext : List Lbl) (c : Nat) : Inv ext c ([], c) :=
  ⟨Nat.le_refl _, by simp, by simp, by simp, rfl, rfl, rfl⟩

theorem inv_append (ext : List Lbl) (c c1 c2 : Nat) (a b : List (Prim Lbl))
    (ha : Inv ext c (a, c1)) (hb : Inv ext c1 (b, c2)) : Inv ext c (a ++ b, c2) := by
  have m1 := ha.mono; have m2 := hb.mono
  simp only at m1 m2
  refine ⟨by simp only; omega, ?_, ?_, ?_, mergeForkOK_append _ _ _ ha.mf hb.mf, scopeOpenedOK_append _ _ _ ha.so hb.so,
    scopeClosedOK_append _ _ ha.sc hb.sc⟩
  · intro e he
    rcases List.mem_append.1 he with he | he
    · exact ha.prim e he
    · exact hb.prim e he
  · intro e he l hl
    rcases List.mem_append.1 he with he | he
    · rcases ha.tgt e he l hl with h | h
      · exact Or.inl (List.mem_append_left _ h)
      · exact Or.inr h
    · rcases hb.tgt e he l hl with h | h
      · exact Or.inl (List.mem_append_right _ h)
      · exact Or.inr h
  · intro l hl
    rcases List.mem_append.1 hl with hl | hl
    · have := ha.fresh l hl; simp only at this ⊢; omega
    · have := hb.fresh l hl; simp only at this ⊢; omega

theorem inv_ext_mono (ext ext' : List Lbl) (h : ∀ l ∈ ext, l ∈ ext') (c : Nat) (r : List (Prim Lbl) × Nat)
    (hr : Inv ext c r) : Inv ext' c r :=
  ⟨hr.mono, hr.prim, fun e he l hl => (hr.tgt e he l hl).imp id (h l), hr.fresh, hr.mf, hr.so, hr.sc⟩

/-- the counter may have advanced further (uids drawn and not used for labels) -/
theorem inv_widen (ext : List Lbl) (c0 c c1 c2 : Nat) (p : List (Prim Lbl)) (h : Inv ext c (p, c1)) (h0 : c0 ≤ c) (h2 : c1 ≤ c2) :
    Inv ext c0 (p, c2) := by
  have m := h.mono; simp only at m
  exact ⟨by simp only; omega, h.prim, h.tgt, fun l hl => by have := h.fresh l hl; simp only at this ⊢; omega, h.mf, h.so, h.sc⟩

/-- elements that carry no label, no target and no fork / merge / scope bookkeeping -/
def leaf (e : Prim Lbl) : Bool :=
  match e with
  | .specOp op g rv => !g && !rv && (op == "send" || op == "match" || op == "_new_action_instance")
  | .assign nld => !nld
  | .other _ => true
  | .ret => true
  | .abort => true
  | .waitHeads _ => true
  | _ => false

theorem leaf_checks : ∀ (ps : List (Prim Lbl)) (s : List Lbl), ps.all leaf = true →
    mergeForkOK s ps = true ∧ scopeOpenedOK s ps = true ∧ scopeClosedOK ps = true := by
  intro ps
  induction ps with
  | nil => intro s _; exact ⟨rfl, rfl, rfl⟩
  | cons e r ih =>
    intro s h
    simp only [List.all_cons, Bool.and_eq_true] at h
    have := ih s h.2
    cases e <;> simp [leaf] at h <;> simp [mergeForkOK, scopeOpenedOK, scopeClosedOK, this]

theorem inv_leaves (ext : List Lbl) (c : Nat) (ps : List (Prim Lbl)) (h : ps.all leaf = true) : Inv ext c (ps, c) := by
  have hl : ∀ e ∈ ps, leaf e = true := by simpa [List.all_eq_true] using h
  obtain ⟨h1, h2, h3⟩ := leaf_checks ps [] h
  refine ⟨Nat.le_refl _, ?_, ?_, ?_, h1, h2, h3⟩
  · intro e he; have := hl e he; cases e <;> simp [leaf] at this <;> simp [Prim.isPrimitive, this]
  · intro e he l hl'; have := hl e he; cases e <;> simp [leaf] at this <;> simp [Prim.targets] at hl'
  · intro l hl'; have := hl _ hl'; simp [leaf] at this

theorem genConst_ok (ext : List Lbl) (ps : List (Prim Lbl)) (h : ps.all leaf = true) : GenOK ext (genConst ps) :=
  fun c => inv_leaves ext c ps h

theorem all_leaf_append (a b : List (Prim Lbl)) (ha : a.all leaf = true) (hb : b.all leaf = true) :
    (a ++ b).all leaf = true := by simp [List.all_append, ha, hb]

theorem startAtom_leaf (k : AtomK) : (startAtom k).all leaf = true := by cases k <;> decide

theorem startAll_leaf : ∀ (cl : Clause), (startAll cl).all leaf = true := by
  intro cl
  induction cl with
  | nil => rfl
  | cons a r ih =>
    have : startAll (a :: r) = startAtom a.k ++ startAll r := by simp [startAll]
    rw [this]; exact all_leaf_append _ _ (startAtom_leaf _) ih

theorem replicate_leaf (n : Nat) (e : Prim Lbl) (h : leaf e = true) : (List.replicate n e).all leaf = true := by
  simp [List.all_eq_true]; exact Or.inr h

theorem refAssigns_leaf (cl : Clause) : (refAssigns cl).all leaf = true := by
  simp [refAssigns, List.all_eq_true, pAssign, leaf]

/-! ### Part 2: the fork / merge / wait templates -/

theorem itemLabels_spec (pre : Nat → String) (b : Nat) : ∀ (n i : Nat),
    (itemLabels pre b i n).length = n ∧ ∀ l ∈ itemLabels pre b i n, b + i ≤ l.2 ∧ l.2 < b + i + n := by
  intro n
  induction n with
  | zero => intro i; simp [itemLabels]
  | succ n ih =>
    intro i
    obtain ⟨h1, h2⟩ := ih (i + 1)
    refine ⟨by simp [itemLabels, h1], ?_⟩
    intro l hl
    simp only [itemLabels, List.mem_cons] at hl
    rcases hl with hl | hl
    · subst hl; simp only; omega
    · have := h2 l hl; omega

structure ItemsInv (ext : List Lbl) (e : Lbl) (ls : List Lbl) (c : Nat) (r : List (Prim Lbl) × Nat) : Prop where
  mono : c ≤ r.2
  prim : ∀ x ∈ r.1, x.isPrimitive = true
  tgt : ∀ x ∈ r.1, ∀ l ∈ x.targets, Prim.label l ∈ r.1 ∨ l = e ∨ l ∈ ext
  defd : ∀ l ∈ ls, Prim.label l ∈ r.1
  fresh : ∀ l, Prim.label l ∈ r.1 → l ∈ ls ∨ (c ≤ l.2 ∧ l.2 < r.2)
  mf : ∀ s, mergeForkOK s r.1 = true
  so : ∀ s, scopeOpenedOK s r.1 = true
  sc : scopeClosedOK r.1 = true

theorem forkItems_inv (ext : List Lbl) (e : Lbl) : ∀ (ls : List Lbl) (gens : List Gen) (c : Nat),
    ls.length = gens.length → (∀ g ∈ gens, GenOK ext g) → ItemsInv ext e ls c (forkItems e ls gens c) := by
  intro ls
  induction ls with
  | nil =>
    intro gens c _ _
    cases gens <;> exact ⟨Nat.le_refl _, by simp [forkItems], by simp [forkItems], by simp, by simp [forkItems],
      fun _ => rfl, fun _ => rfl, rfl⟩
  | cons l ls ih =>
    intro gens c hlen hg
    cases gens with
    | nil => simp at hlen
    | cons g gs =>
      simp only [forkItems, List.cons_append]
      have ha := hg g (by simp) c
      have hr := ih gs (g c).2 (by simpa using hlen) (fun g' hg' => hg g' (List.mem_cons_of_mem _ hg'))
      have m1 := ha.mono; have m2 := hr.mono
      refine ⟨by simp only; omega, ?_, ?_, ?_, ?_, ?_, ?_, ?_⟩
      · intro x hx
        simp only [List.mem_cons, List.mem_append] at hx
        rcases hx with rfl | hx | rfl | hx
        · rfl
        · exact ha.prim x hx
        · rfl
        · exact hr.prim x hx
      · intro x hx t ht
        simp only [List.mem_cons, List.mem_append] at hx ⊢
        rcases hx with rfl | hx | rfl | hx
        · simp [Prim.targets] at ht
        · rcases ha.tgt x hx t ht with h | h
          · exact Or.inl (Or.inr (Or.inl h))
          · exact Or.inr (Or.inr h)
        · simp [Prim.targets] at ht; exact Or.inr (Or.inl ht)
        · rcases hr.tgt x hx t ht with h | h
          · exact Or.inl (Or.inr (Or.inr (Or.inr h)))
          · exact Or.inr h
      · intro t ht
        simp only [List.mem_cons, List.mem_append] at ht ⊢
        rcases ht with rfl | ht
        · exact Or.inl rfl
        · exact Or.inr (Or.inr (Or.inr (hr.defd t ht)))
      · intro t ht
        simp only [List.mem_cons, List.mem_append] at ht ⊢
        rcases ht with ht | ht | ht | ht
        · cases ht; exact Or.inl (Or.inl rfl)
        · have := ha.fresh t ht; exact Or.inr (by omega)
        · cases ht
        · rcases hr.fresh t ht with h | h
          · exact Or.inl (Or.inr h)
          · exact Or.inr (by omega)
      · intro s
        simp only [mergeForkOK]
        apply mergeForkOK_append _ _ _ (mergeForkOK_mono _ [] s (by simp) ha.mf)
        simp only [mergeForkOK]; exact hr.mf s
      · intro s
        simp only [scopeOpenedOK]
        apply scopeOpenedOK_append _ _ _ (scopeOpenedOK_mono _ [] s (by simp) ha.so)
        simp only [scopeOpenedOK]; exact hr.so s
      · simp only [scopeClosedOK]
        apply scopeClosedOK_append _ _ ha.sc
        simp only [scopeClosedOK]; exact hr.sc

theorem header_prim (v : Variant) (u f s : Lbl) (ls : List Lbl) : ∀ x ∈ header v u f s ls, x.isPrimitive = true := by
  cases v <;> simp [header, Prim.isPrimitive]

theorem header_tgt (v : Variant) (u f s : Lbl) (ls : List Lbl) :
    ∀ x ∈ header v u f s ls, ∀ l ∈ x.targets, l = f ∨ l ∈ ls := by
  cases v <;> simp [header, Prim.targets] <;> exact ⟨fun a b h => Or.inl h, fun a b h => Or.inr h⟩

theorem header_nolabel (v : Variant) (u f s : Lbl) (ls : List Lbl) (l : Lbl) : Prim.label l ∉ header v u f s ls := by
  cases v <;> simp [header]

theorem trailer_prim (v : Variant) (u f e s : Lbl) (n : Nat) : ∀ x ∈ trailer v u f e s n, x.isPrimitive = true := by
  cases v <;> simp [trailer, Prim.isPrimitive]

theorem trailer_tgt (v : Variant) (u f e s : Lbl) (n : Nat) : ∀ x ∈ trailer v u f e s n, x.targets = [] := by
  cases v <;> simp [trailer, Prim.targets]

theorem trailer_labels (v : Variant) (u f e s : Lbl) (n : Nat) (l : Lbl) :
    Prim.label l ∈ trailer v u f e s n ↔ l = f ∨ l = e := by
  cases v <;> simp [trailer]

theorem template_mf (v : Variant) (u f e s : Lbl) (ls : List Lbl) (n : Nat) (items : List (Prim Lbl))
    (hi : ∀ t, mergeForkOK t items = true) : mergeForkOK [] (header v u f s ls ++ items ++ trailer v u f e s n) = true := by
  cases v <;> simp only [header, List.nil_append, List.cons_append, List.append_assoc, mergeForkOK] <;>
    apply mergeForkOK_append _ _ _ (hi _) <;> simp [trailer, mergeForkOK]

theorem template_so (v : Variant) (u f e s : Lbl) (ls : List Lbl) (n : Nat) (items : List (Prim Lbl))
    (hi : ∀ t, scopeOpenedOK t items = true) : scopeOpenedOK [] (header v u f s ls ++ items ++ trailer v u f e s n) = true := by
  cases v <;> simp only [header, List.nil_append, List.cons_append, List.append_assoc, scopeOpenedOK] <;>
    apply scopeOpenedOK_append _ _ _ (hi _) <;> simp [trailer, scopeOpenedOK]

theorem template_sc (v : Variant) (u f e s : Lbl) (ls : List Lbl) (n : Nat) (items : List (Prim Lbl))
    (hi : scopeClosedOK items = true) : scopeClosedOK (header v u f s ls ++ items ++ trailer v u f e s n) = true := by
  cases v
  · simp only [header, List.nil_append, List.cons_append, List.append_assoc, scopeClosedOK]
    exact scopeClosedOK_append _ _ hi (by simp [trailer, scopeClosedOK])
  · simp only [header, List.nil_append, List.cons_append, List.append_assoc, scopeClosedOK]
    exact scopeClosedOK_append _ _ hi (by simp [trailer, scopeClosedOK])
  · simp only [header, List.nil_append, List.cons_append, List.append_assoc, scopeClosedOK, Bool.and_eq_true,
      List.contains_iff_mem]
    exact ⟨by simp [trailer], scopeClosedOK_append _ _ hi (by simp [trailer, scopeClosedOK])⟩

theorem forkTemplate_ok (ext : List Lbl) (v : Variant) (pre : Nat → String) (gens : List Gen)
    (hg : ∀ g ∈ gens, GenOK ext g) : GenOK ext (forkTemplate v pre gens) := by
  intro c
  unfold forkTemplate
  obtain ⟨hlen, hrange⟩ := itemLabels_spec pre (c + 4) gens.length 0
  have hi := forkItems_inv ext ("end_label_", c + 2) (itemLabels pre (c + 4) 0 gens.length) gens (c + 4 + gens.length) hlen hg
  have m := hi.mono
  refine ⟨by simp only; omega, ?_, ?_, ?_, template_mf _ _ _ _ _ _ _ _ hi.mf, template_so _ _ _ _ _ _ _ _ hi.so,
    template_sc _ _ _ _ _ _ _ _ hi.sc⟩
  · intro x hx
    simp only [List.mem_append] at hx
    rcases hx with (hx | hx) | hx
    · exact header_prim _ _ _ _ _ x hx
    · exact hi.prim x hx
    · exact trailer_prim _ _ _ _ _ _ x hx
  · intro x hx l hl
    simp only [List.mem_append] at hx ⊢
    rcases hx with (hx | hx) | hx
    · rcases header_tgt _ _ _ _ _ x hx l hl with h | h
      · exact Or.inl (Or.inr ((trailer_labels _ _ _ _ _ _ _).2 (Or.inl h)))
      · exact Or.inl (Or.inl (Or.inr (hi.defd l h)))
    · rcases hi.tgt x hx l hl with h | h | h
      · exact Or.inl (Or.inl (Or.inr h))
      · exact Or.inl (Or.inr ((trailer_labels _ _ _ _ _ _ _).2 (Or.inr h)))
      · exact Or.inr h
    · rw [trailer_tgt _ _ _ _ _ _ x hx] at hl; simp at hl
  · intro l hl
    simp only [List.mem_append] at hl
    rcases hl with (hl | hl) | hl
    · exact absurd hl (header_nolabel _ _ _ _ _ _)
    · rcases hi.fresh l hl with h | h
      · have := hrange l h; simp only; omega
      · simp only at h ⊢; omega
    · rcases (trailer_labels _ _ _ _ _ _ _).1 hl with h | h <;> subst h <;> simp only <;> omega

/-! ### Part 3: groups -/

theorem matchClause_ok (ext : List Lbl) (n : Nat) : GenOK ext (matchClause n) := by
  unfold matchClause
  split
  · exact genConst_ok ext _ (by decide)
  · apply forkTemplate_ok
    intro g hg
    rw [List.mem_replicate] at hg
    rw [hg.2]; exact genConst_ok _ _ (by decide)

theorem orGroup_ok (ext : List Lbl) (v : Variant) (bodies : List Gen) (h : ∀ g ∈ bodies, GenOK ext g) :
    GenOK ext (orGroup v bodies) := by
  unfold orGroup
  split
  · exact h _ (by simp)
  · exact forkTemplate_ok ext v _ _ h

theorem matchGroup_ok (ext : List Lbl) (d : List Nat) : GenOK ext (matchGroup d) := by
  apply orGroup_ok; intro g hg; simp only [List.mem_map] at hg; obtain ⟨n, _, rfl⟩ := hg; exact matchClause_ok ext n

theorem sendGroup_ok (ext : List Lbl) (d : List Nat) : GenOK ext (sendGroup d) := by
  apply orGroup_ok; intro g hg; simp only [List.mem_map] at hg; obtain ⟨n, _, rfl⟩ := hg
  exact genConst_ok ext _ (replicate_leaf n _ (by decide))

theorem startGroup_ok (ext : List Lbl) (d : DNF) : GenOK ext (startGroup d) := by
  apply orGroup_ok; intro g hg; simp only [List.mem_map] at hg; obtain ⟨cl, _, rfl⟩ := hg
  exact genConst_ok ext _ (startAll_leaf cl)

theorem awaitClause_ok (ext : List Lbl) (cl : Clause) : GenOK ext (awaitClause cl) := by
  intro c
  unfold awaitClause
  have h1 := inv_leaves ext c (startAll cl) (startAll_leaf cl)
  have h2 := matchClause_ok ext cl.length c
  have h3 := inv_leaves ext (matchClause cl.length c).2 (refAssigns cl) (refAssigns_leaf cl)
  exact inv_append _ _ _ _ _ _ (inv_append _ _ _ _ _ _ h1 h2) h3

theorem awaitGroup_ok (ext : List Lbl) (d : DNF) : GenOK ext (awaitGroup d) := by
  apply orGroup_ok; intro g hg; simp only [List.mem_map] at hg; obtain ⟨cl, _, rfl⟩ := hg
  exact awaitClause_ok ext cl

theorem whenClause_ok (ext : List Lbl) (cl : Clause) : GenOK ext (whenClause cl) := by
  intro c
  unfold whenClause
  have h1 := inv_leaves ext c (startAll (cl.filter fun a => a.k != .ev)) (startAll_leaf _)
  have h2 := matchClause_ok ext cl.length c
  have h3 : ((if (cl.filter fun a => a.k != .ev).isEmpty then [] else refAssigns (cl.filter fun a => a.k != .ev)) : List (Prim Lbl)).all leaf = true := by
    split
    · rfl
    · exact refAssigns_leaf _
  exact inv_append _ _ _ _ _ _ (inv_append _ _ _ _ _ _ h1 h2) (inv_leaves ext _ _ h3)

/-! ### Part 4: `when` — pieces that live inside the statement's scope `("scope_", S)` and cases fork `u` -/

structure WInv (ext : List Lbl) (S : Nat) (u : Lbl) (c : Nat) (r : List (Prim Lbl) × Nat) : Prop where
  mono : c ≤ r.2
  prim : ∀ e ∈ r.1, e.isPrimitive = true
  tgt : ∀ e ∈ r.1, ∀ l ∈ e.targets, Prim.label l ∈ r.1 ∨ l ∈ ext
  fresh : ∀ l, Prim.label l ∈ r.1 → l.2 = S ∨ (c ≤ l.2 ∧ l.2 < r.2)
  mf : ∀ s, u ∈ s → mergeForkOK s r.1 = true
  so : ∀ s, ("scope_", S) ∈ s → scopeOpenedOK s r.1 = true
  sc : scopeClosedOK r.1 = true

theorem winv_of_inv (ext : List Lbl) (S : Nat) (u : Lbl) (c : Nat) (r : List (Prim Lbl) × Nat) (h : Inv ext c r) :
    WInv ext S u c r :=
  ⟨h.mono, h.prim, h.tgt, fun l hl => Or.inr (h.fresh l hl), fun s _ => mergeForkOK_mono _ [] s (by simp) h.mf,
    fun s _ => scopeOpenedOK_mono _ [] s (by simp) h.so, h.sc⟩

theorem winv_append (ext : List Lbl) (S : Nat) (u : Lbl) (c c1 c2 : Nat) (a b : List (Prim Lbl))
    (ha : WInv ext S u c (a, c1)) (hb : WInv ext S u c1 (b, c2)) : WInv ext S u c (a ++ b, c2) := by
  have m1 := ha.mono; have m2 := hb.mono
  simp only at m1 m2
  refine ⟨by simp only; omega, ?_, ?_, ?_, fun s hs => mergeForkOK_append _ _ _ (ha.mf s hs) (hb.mf s hs),
    fun s hs => scopeOpenedOK_append _ _ _ (ha.so s hs) (hb.so s hs), scopeClosedOK_append _ _ ha.sc hb.sc⟩
  · intro e he
    rcases List.mem_append.1 he with he | he
    · exact ha.prim e he
    · exact hb.prim e he
  · intro e he l hl
    rcases List.mem_append.1 he with he | he
    · rcases ha.tgt e he l hl with h | h
      · exact Or.inl (List.mem_append_left _ h)
      · exact Or.inr h
    · rcases hb.tgt e he l hl with h | h
      · exact Or.inl (List.mem_append_right _ h)
      · exact Or.inr h
  · intro l hl
    rcases List.mem_append.1 hl with hl | hl
    · rcases ha.fresh l hl with h | h
      · exact Or.inl h
      · simp only at h ⊢; exact Or.inr (by omega)
    · rcases hb.fresh l hl with h | h
      · exact Or.inl h
      · simp only at h ⊢; exact Or.inr (by omega)

/-- targets may also be resolved by labels that the surrounding piece defines -/
theorem winv_ext (ext ext' : List Lbl) (S : Nat) (u : Lbl) (c : Nat) (r : List (Prim Lbl) × Nat)
    (h : WInv ext S u c r) (hsub : ∀ l ∈ ext, l ∈ ext') : WInv ext' S u c r :=
  ⟨h.mono, h.prim, fun e he l hl => (h.tgt e he l hl).imp id (hsub l), h.fresh, h.mf, h.so, h.sc⟩

/-- a concrete chunk of the template: labels carry the statement uid, merges name the cases fork, scopes the statement scope -/
def chunkOK (S : Nat) (u : Lbl) (e : Prim Lbl) : Prop :=
  match e with
  | .merge u' => u' = u
  | .endScope n => n = ("scope_", S)
  | .label l => l.2 = S
  | .fork _ _ => False
  | .beginScope _ => False
  | _ => True

theorem chunk_checks (S : Nat) (u : Lbl) : ∀ (ps : List (Prim Lbl)), (∀ e ∈ ps, chunkOK S u e) →
    (∀ s, u ∈ s → mergeForkOK s ps = true) ∧ (∀ s, ("scope_", S) ∈ s → scopeOpenedOK s ps = true) ∧ scopeClosedOK ps = true := by
  intro ps
  induction ps with
  | nil => intro _; exact ⟨fun _ _ => rfl, fun _ _ => rfl, rfl⟩
  | cons e r ih =>
    intro h
    obtain ⟨i1, i2, i3⟩ := ih (fun x hx => h x (List.mem_cons_of_mem _ hx))
    have he := h e (by simp)
    cases e <;> simp only [chunkOK] at he <;>
      simp only [mergeForkOK, scopeOpenedOK, scopeClosedOK, Bool.and_eq_true, List.contains_iff_mem] <;>
      first
        | exact ⟨i1, i2, i3⟩
        | exact ⟨fun s hs => ⟨he ▸ hs, i1 s hs⟩, i2, i3⟩
        | exact ⟨i1, fun s hs => ⟨he ▸ hs, i2 s hs⟩, i3⟩
        | exact absurd he id

theorem winv_chunk (ext : List Lbl) (S : Nat) (u : Lbl) (c : Nat) (ps : List (Prim Lbl))
    (hp : ∀ x ∈ ps, x.isPrimitive = true) (ht : ∀ x ∈ ps, ∀ l ∈ x.targets, Prim.label l ∈ ps ∨ l ∈ ext)
    (hk : ∀ x ∈ ps, chunkOK S u x) : WInv ext S u c (ps, c) := by
  obtain ⟨h1, h2, h3⟩ := chunk_checks S u ps hk
  exact ⟨Nat.le_refl _, hp, ht, fun l hl => Or.inl (hk _ hl), h1, h2, h3⟩

theorem winv_resolve (a : Lbl) (ext : List Lbl) (S : Nat) (u : Lbl) (c : Nat) (r : List (Prim Lbl) × Nat)
    (h : WInv (a :: ext) S u c r) (ha : Prim.label a ∈ r.1) : WInv ext S u c r :=
  ⟨h.mono, h.prim, fun e he l hl => by
      rcases h.tgt e he l hl with h1 | h1
      · exact Or.inl h1
      · rcases List.mem_cons.1 h1 with h1 | h1
        · exact Or.inl (h1 ▸ ha)
        · exact Or.inr h1, h.fresh, h.mf, h.so, h.sc⟩

theorem winv_fork (ext : List Lbl) (S : Nat) (u gu : Lbl) (gl : List Lbl) (c : Nat) (r : List (Prim Lbl) × Nat)
    (h : WInv ext S u c r) (hd : ∀ l ∈ gl, Prim.label l ∈ r.1 ∨ l ∈ ext) : WInv ext S u c (.fork gu gl :: r.1, r.2) := by
  refine ⟨h.mono, ?_, ?_, ?_, ?_, ?_, ?_⟩
  · intro e he; rcases List.mem_cons.1 he with he | he
    · subst he; rfl
    · exact h.prim e he
  · intro e he l hl
    rcases List.mem_cons.1 he with he | he
    · subst he; simp only [Prim.targets] at hl
      exact (hd l hl).imp (List.mem_cons_of_mem _) id
    · exact (h.tgt e he l hl).imp (List.mem_cons_of_mem _) id
  · intro l hl
    rcases List.mem_cons.1 hl with hl | hl
    · cases hl
    · exact h.fresh l hl
  · intro s hs; simp only [mergeForkOK]; exact h.mf (gu :: s) (List.mem_cons_of_mem _ hs)
  · intro s hs; simp only [scopeOpenedOK]; exact h.so s hs
  · simp only [scopeClosedOK]; exact h.sc

theorem groupLabelsOf_mem (S i : Nat) : ∀ (n g : Nat) (l : Lbl), l ∈ groupLabelsOf S i g n →
    ∃ k, g ≤ k ∧ k < g + n ∧ l = ("group_" ++ caseLetter i ++ "_" ++ toString k ++ "_label_", S) := by
  intro n
  induction n with
  | zero => intro g l h; simp [groupLabelsOf] at h
  | succ n ih =>
    intro g l h
    simp only [groupLabelsOf, List.mem_cons] at h
    rcases h with h | h
    · exact ⟨g, Nat.le_refl _, by omega, h⟩
    · obtain ⟨k, h1, h2, h3⟩ := ih (g + 1) l h
      exact ⟨k, by omega, by omega, h3⟩

/-- the groups of a case -/
theorem whenGroups_inv (ext : List Lbl) (S : Nat) (u : Lbl) (i ng : Nat) (thenG : Gen) (hthen : GenOK ext thenG) :
    ∀ (cls : List Clause) (g c : Nat),
      WInv (("when_end_label_", S) :: ("when_else_label_", S) :: ext) S u c (whenGroups S u i ng thenG g cls c) ∧
      (∀ k, g ≤ k → k < g + cls.length →
        Prim.label ("group_" ++ caseLetter i ++ "_" ++ toString k ++ "_label_", S) ∈ (whenGroups S u i ng thenG g cls c).1) ∧
      (cls ≠ [] → Prim.label ("failure_case_" ++ caseLetter i ++ "_label_", S) ∈ (whenGroups S u i ng thenG g cls c).1) := by
  intro cls
  induction cls with
  | nil =>
    intro g c
    refine ⟨⟨Nat.le_refl _, by simp [whenGroups], by simp [whenGroups], by simp [whenGroups], fun _ _ => rfl, fun _ _ => rfl, rfl⟩,
      ?_, by simp⟩
    intro k h1 h2; simp at h2; omega
  | cons cl cls ih =>
    intro g c
    simp only [whenGroups]
    have hsub : ∀ l ∈ ext, l ∈ ("when_end_label_", S) :: ("when_else_label_", S) :: ext :=
      fun l hl => List.mem_cons_of_mem _ (List.mem_cons_of_mem _ hl)
    obtain ⟨ihw, ihd, _⟩ := ih (g + 1) (thenG (whenClause cl c).2).2
    have A := winv_chunk (("when_end_label_", S) :: ("when_else_label_", S) :: ext) S u c
      [.label ("group_" ++ caseLetter i ++ "_" ++ toString g ++ "_label_", S)]
      (by simp [Prim.isPrimitive]) (by simp [Prim.targets]) (by simp [chunkOK])
    have B := winv_of_inv _ S u c _ (whenClause_ok (("when_end_label_", S) :: ("when_else_label_", S) :: ext) cl c)
    have C1 := winv_chunk (("when_end_label_", S) :: ("when_else_label_", S) :: ext) S u (whenClause cl c).2
      [.jump ("case_" ++ caseLetter i ++ "_label_", S), .label ("case_" ++ caseLetter i ++ "_label_", S), .merge u, .catchFail none,
       .endScope ("scope_", S)]
      (by simp [Prim.isPrimitive]) (by simp [Prim.targets]) (by simp [chunkOK])
    have D := winv_ext _ _ S u _ _ (winv_of_inv ext S u _ _ (hthen (whenClause cl c).2)) hsub
    have C2 := winv_chunk (("when_end_label_", S) :: ("when_else_label_", S) :: ext) S u (thenG (whenClause cl c).2).2
      [.jump ("when_end_label_", S), .label ("failure_case_" ++ caseLetter i ++ "_label_", S), .waitHeads ng, .catchFail none,
       .jump ("when_else_label_", S)]
      (by simp [Prim.isPrimitive]) (by simp [Prim.targets]) (by simp [chunkOK])
    refine ⟨winv_append _ _ _ _ _ _ _ _ (winv_append _ _ _ _ _ _ _ _ (winv_append _ _ _ _ _ _ _ _
      (winv_append _ _ _ _ _ _ _ _ (winv_append _ _ _ _ _ _ _ _ A B) C1) D) C2) ihw, ?_, ?_⟩
    · intro k h1 h2
      by_cases hk : k = g
      · subst hk; simp
      · have := ihd k (by omega) (by simp at h2; omega)
        simp only [List.mem_append]; exact Or.inr this
    · intro _; simp

theorem whenElse_inv (ext : List Lbl) (S : Nat) (u : Lbl) (ncases : Nat) (hasElse : Bool) (elseG : Gen)
    (helse : GenOK ext elseG) (c : Nat) :
    WInv ext S u c (whenElse S u ncases hasElse elseG c) ∧
    Prim.label ("when_else_label_", S) ∈ (whenElse S u ncases hasElse elseG c).1 ∧
    Prim.label ("when_end_label_", S) ∈ (whenElse S u ncases hasElse elseG c).1 ∧
    Prim.endScope ("scope_", S) ∈ (whenElse S u ncases hasElse elseG c).1 := by
  unfold whenElse
  have A := winv_chunk ext S u c [.label ("when_else_label_", S), .waitHeads ncases, .merge u, .endScope ("scope_", S)]
    (by simp [Prim.isPrimitive]) (by simp [Prim.targets]) (by simp [chunkOK])
  cases hasElse with
  | false =>
    simp only [Bool.false_eq_true, if_false]
    have B := winv_chunk ext S u c [.abort] (by simp [Prim.isPrimitive]) (by simp [Prim.targets]) (by simp [chunkOK])
    have C := winv_chunk ext S u c [.label ("when_end_label_", S)] (by simp [Prim.isPrimitive]) (by simp [Prim.targets]) (by simp [chunkOK])
    exact ⟨winv_append _ _ _ _ _ _ _ _ (winv_append _ _ _ _ _ _ _ _ A B) C, by simp, by simp, by simp⟩
  | true =>
    simp only [if_true]
    have B := winv_chunk ext S u c [.jump ("when_else_statement_label_", S), .label ("when_else_statement_label_", S)]
      (by simp [Prim.isPrimitive]) (by simp [Prim.targets]) (by simp [chunkOK])
    have D := winv_of_inv ext S u c _ (helse c)
    have C := winv_chunk ext S u (elseG c).2 [.label ("when_end_label_", S)] (by simp [Prim.isPrimitive]) (by simp [Prim.targets]) (by simp [chunkOK])
    exact ⟨winv_append _ _ _ _ _ _ _ _ (winv_append _ _ _ _ _ _ _ _ A (winv_append _ _ _ _ _ _ _ _ B D)) C, by simp, by simp, by simp⟩

theorem whenCase_inv (ext : List Lbl) (S : Nat) (u : Lbl) (i ncases : Nat) (gu : Lbl) (d : DNF) (hd : d ≠ []) (hasElse : Bool)
    (thenG elseG : Gen) (hthen : GenOK ext thenG) (helse : GenOK ext elseG) (c : Nat) :
    WInv ext S u c (whenCase S u i ncases gu d hasElse thenG elseG c) ∧
    Prim.label ("init_case_" ++ caseLetter i ++ "_label_", S) ∈ (whenCase S u i ncases gu d hasElse thenG elseG c).1 ∧
    Prim.endScope ("scope_", S) ∈ (whenCase S u i ncases gu d hasElse thenG elseG c).1 := by
  unfold whenCase
  obtain ⟨gw, gd, gf⟩ := whenGroups_inv ext S u i d.length thenG hthen d 0 c
  obtain ⟨ew, e1, e2, e3⟩ := whenElse_inv ext S u ncases hasElse elseG helse (whenGroups S u i d.length thenG 0 d c).2
  have hsub2 : ∀ l ∈ ("when_end_label_", S) :: ("when_else_label_", S) :: ext, l ∈ ("failure_case_" ++ caseLetter i ++ "_label_", S) :: ("when_end_label_", S) :: ("when_else_label_", S) :: ext :=
    fun l hl => List.mem_cons_of_mem _ hl
  have hsub1 : ∀ l ∈ ext, l ∈ ("failure_case_" ++ caseLetter i ++ "_label_", S) :: ("when_end_label_", S) :: ("when_else_label_", S) :: ext :=
    fun l hl => List.mem_cons_of_mem _ (List.mem_cons_of_mem _ (List.mem_cons_of_mem _ hl))
  have body := winv_append _ _ _ _ _ _ _ _ (winv_ext _ _ S u _ _ gw hsub2) (winv_ext _ _ S u _ _ ew hsub1)
  have t1 := winv_fork _ S u gu (groupLabelsOf S i 0 d.length) c _ body (by
    intro l hl
    obtain ⟨k, h1, h2, h3⟩ := groupLabelsOf_mem S i d.length 0 l hl
    subst h3
    exact Or.inl (List.mem_append_left _ (gd k h1 (by omega))))
  have hdr := winv_chunk (("failure_case_" ++ caseLetter i ++ "_label_", S) :: ("when_end_label_", S) :: ("when_else_label_", S) :: ext) S u c
    [.label ("init_case_" ++ caseLetter i ++ "_label_", S), .catchFail (some ("failure_case_" ++ caseLetter i ++ "_label_", S))]
    (by simp [Prim.isPrimitive]) (by simp [Prim.targets]) (by simp [chunkOK])
  have all := winv_append _ _ _ _ _ _ _ _ hdr t1
  have r1 := winv_resolve ("failure_case_" ++ caseLetter i ++ "_label_", S) _ S u c _ all
    (List.mem_append_right _ (List.mem_cons_of_mem _ (List.mem_append_left _ (gf hd))))
  have r2 := winv_resolve ("when_end_label_", S) _ S u c _ r1
    (List.mem_append_right _ (List.mem_cons_of_mem _ (List.mem_append_right _ e2)))
  have r3 := winv_resolve ("when_else_label_", S) _ S u c _ r2
    (List.mem_append_right _ (List.mem_cons_of_mem _ (List.mem_append_right _ e1)))
  refine ⟨r3, List.mem_cons_self, ?_⟩
  exact List.mem_cons_of_mem _ (List.mem_cons_of_mem _ (List.mem_cons_of_mem _ (List.mem_append_right _ e3)))

theorem initLabelsOf_mem (S : Nat) : ∀ (n i : Nat) (l : Lbl), l ∈ initLabelsOf S i n →
    ∃ k, i ≤ k ∧ k < i + n ∧ l = ("init_case_" ++ caseLetter k ++ "_label_", S) := by
  intro n
  induction n with
  | zero => intro i l h; simp [initLabelsOf] at h
  | succ n ih =>
    intro i l h
    simp only [initLabelsOf, List.mem_cons] at h
    rcases h with h | h
    · exact ⟨i, Nat.le_refl _, by omega, h⟩
    · obtain ⟨k, h1, h2, h3⟩ := ih (i + 1) l h
      exact ⟨k, by omega, by omega, h3⟩

theorem expandCases_inv (ext : List Lbl) (cb : Option (Lbl × Lbl)) (S : Nat) (u : Lbl) (ncases : Nat) (hasElse : Bool)
    (elseG : Gen) (helse : GenOK ext elseG) :
    ∀ (thens : List (List Stmt)) (specs : List DNF) (i c : Nat), specs.length = thens.length → (∀ d ∈ specs, d ≠ []) →
      (∀ t ∈ thens, GenOK ext (fun k => expand cb t k)) →
      WInv ext S u c (expandCases cb S u ncases hasElse elseG i specs thens c) ∧
      (∀ k, i ≤ k → k < i + specs.length →
        Prim.label ("init_case_" ++ caseLetter k ++ "_label_", S) ∈ (expandCases cb S u ncases hasElse elseG i specs thens c).1) ∧
      (specs ≠ [] → Prim.endScope ("scope_", S) ∈ (expandCases cb S u ncases hasElse elseG i specs thens c).1) := by
  intro thens
  induction thens with
  | nil =>
    intro specs i c hlen _ _
    cases specs with
    | cons d ds => simp at hlen
    | nil =>
      unfold expandCases
      refine ⟨⟨Nat.le_refl _, by simp, by simp, by simp, fun _ _ => rfl, fun _ _ => rfl, rfl⟩, ?_, by simp⟩
      intro k h1 h2; simp at h2; omega
  | cons t ts ih =>
    intro specs i c hlen hd ht
    cases specs with
    | nil => simp at hlen
    | cons d ds =>
      unfold expandCases
      obtain ⟨cw, ci, ce⟩ := whenCase_inv ext S u i ncases ("", S + 2 + i) d (hd d (by simp)) hasElse (fun k => expand cb t k) elseG
        (ht t (by simp)) helse c
      obtain ⟨rw', ri, _⟩ := ih ds (i + 1) (whenCase S u i ncases ("", S + 2 + i) d hasElse (fun k => expand cb t k) elseG c).2
        (by simpa using hlen) (fun d' hd' => hd d' (List.mem_cons_of_mem _ hd')) (fun t' ht' => ht t' (List.mem_cons_of_mem _ ht'))
      refine ⟨winv_append _ _ _ _ _ _ _ _ cw rw', ?_, fun _ => List.mem_append_left _ ce⟩
      intro k h1 h2
      by_cases hk : k = i
      · subst hk; exact List.mem_append_left _ ci
      · exact List.mem_append_right _ (ri k (by omega) (by simp at h2; omega))

/-- the whole `when` statement -/
theorem when_inv (ext : List Lbl) (cb : Option (Lbl × Lbl)) (specs : List DNF) (thens : List (List Stmt)) (hasElse : Bool)
    (elseG : Gen) (helse : GenOK ext elseG) (hne : specs ≠ []) (hlen : specs.length = thens.length) (hd : ∀ d ∈ specs, d ≠ [])
    (ht : ∀ t ∈ thens, GenOK ext (fun k => expand cb t k)) (c : Nat) :
    Inv ext c ([.beginScope ("scope_", c), .fork ("", c + 1) (initLabelsOf c 0 specs.length)] ++
        (expandCases cb c ("", c + 1) specs.length hasElse elseG 0 specs thens (c + 2 + specs.length)).1,
      (expandCases cb c ("", c + 1) specs.length hasElse elseG 0 specs thens (c + 2 + specs.length)).2) := by
  obtain ⟨w, wi, we⟩ := expandCases_inv ext cb c ("", c + 1) specs.length hasElse elseG helse thens specs 0 (c + 2 + specs.length) hlen hd ht
  have m := w.mono
  refine ⟨by simp only; omega, ?_, ?_, ?_, ?_, ?_, ?_⟩
  · intro e he
    simp only [List.cons_append, List.nil_append, List.mem_cons] at he
    rcases he with rfl | rfl | he
    · rfl
    · rfl
    · exact w.prim e he
  · intro e he l hl
    simp only [List.cons_append, List.nil_append, List.mem_cons] at he ⊢
    rcases he with rfl | rfl | he
    · simp [Prim.targets] at hl
    · simp only [Prim.targets] at hl
      obtain ⟨k, h1, h2, h3⟩ := initLabelsOf_mem c specs.length 0 l hl
      subst h3
      exact Or.inl (Or.inr (Or.inr (wi k h1 h2)))
    · exact (w.tgt e he l hl).imp (fun h => Or.inr (Or.inr h)) id
  · intro l hl
    simp only [List.cons_append, List.nil_append, List.mem_cons] at hl
    rcases hl with hl | hl | hl
    · cases hl
    · cases hl
    · rcases w.fresh l hl with h | h
      · simp only; omega
      · simp only at h ⊢; omega
  · simp only [List.cons_append, List.nil_append, mergeForkOK]; exact w.mf _ (by simp)
  · simp only [List.cons_append, List.nil_append, scopeOpenedOK]; exact w.so _ (by simp)
  · simp only [List.cons_append, List.nil_append, scopeClosedOK, Bool.and_eq_true, List.contains_iff_mem]
    exact ⟨List.mem_cons_of_mem _ (we hne), w.sc⟩

/-! ### Part 5: control flow -/

theorem inv_resolve (a : Lbl) (ext : List Lbl) (c : Nat) (r : List (Prim Lbl) × Nat)
    (h : Inv (a :: ext) c r) (ha : Prim.label a ∈ r.1) : Inv ext c r :=
  ⟨h.mono, h.prim, fun e he l hl => by
      rcases h.tgt e he l hl with h1 | h1
      · exact Or.inl h1
      · rcases List.mem_cons.1 h1 with h1 | h1
        · exact Or.inl (h1 ▸ ha)
        · exact Or.inr h1, h.fresh, h.mf, h.so, h.sc⟩

/-- gotos and labels around a body: `pre ++ body ++ post` where `pre`, `post` only hold `goto` / `label` elements whose
    label uids lie in `[c, c0)` and whose targets are in `ext'` -/
theorem inv_frame (ext' : List Lbl) (c c0 : Nat) (pre post : List (Prim Lbl)) (body : List (Prim Lbl) × Nat)
    (hb : Inv ext' c0 body) (hc : c ≤ c0)
    (hpre : ∀ e ∈ pre ++ post, (∃ l, (e = .goto l ∨ e = .jump l) ∧ l ∈ ext') ∨ (∃ l, e = .label l ∧ c ≤ l.2 ∧ l.2 < body.2)) :
    Inv ext' c (pre ++ body.1 ++ post, body.2) := by
  have m := hb.mono
  have chk : ∀ (ps : List (Prim Lbl)), (∀ e ∈ ps, (∃ l, (e = Prim.goto l ∨ e = Prim.jump l) ∧ l ∈ ext') ∨ (∃ l, e = Prim.label l ∧ c ≤ l.2 ∧ l.2 < body.2)) →
      ∀ s, mergeForkOK s ps = true ∧ scopeOpenedOK s ps = true ∧ scopeClosedOK ps = true := by
    intro ps
    induction ps with
    | nil => intro _ s; exact ⟨rfl, rfl, rfl⟩
    | cons e r ih =>
      intro h s
      have := ih (fun x hx => h x (List.mem_cons_of_mem _ hx)) s
      rcases h e (by simp) with ⟨l, (rfl | rfl), _⟩ | ⟨l, rfl, _⟩ <;> simpa [mergeForkOK, scopeOpenedOK, scopeClosedOK] using this
  have cpre := chk pre (fun e he => hpre e (List.mem_append_left _ he))
  have cpost := chk post (fun e he => hpre e (List.mem_append_right _ he))
  refine ⟨by simp only; omega, ?_, ?_, ?_, ?_, ?_, ?_⟩
  · intro e he
    simp only [List.mem_append] at he
    rcases he with (he | he) | he
    · rcases hpre e (List.mem_append_left _ he) with ⟨l, (rfl | rfl), _⟩ | ⟨l, rfl, _⟩ <;> rfl
    · exact hb.prim e he
    · rcases hpre e (List.mem_append_right _ he) with ⟨l, (rfl | rfl), _⟩ | ⟨l, rfl, _⟩ <;> rfl
  · intro e he t ht
    simp only [List.mem_append] at he ⊢
    rcases he with (he | he) | he
    · rcases hpre e (List.mem_append_left _ he) with ⟨l, (rfl | rfl), hl⟩ | ⟨l, rfl, _⟩
      · simp [Prim.targets] at ht; subst ht; exact Or.inr hl
      · simp [Prim.targets] at ht; subst ht; exact Or.inr hl
      · simp [Prim.targets] at ht
    · exact (hb.tgt e he t ht).imp (fun h => Or.inl (Or.inr h)) id
    · rcases hpre e (List.mem_append_right _ he) with ⟨l, (rfl | rfl), hl⟩ | ⟨l, rfl, _⟩
      · simp [Prim.targets] at ht; subst ht; exact Or.inr hl
      · simp [Prim.targets] at ht; subst ht; exact Or.inr hl
      · simp [Prim.targets] at ht
  · intro t ht
    simp only [List.mem_append] at ht
    rcases ht with (ht | ht) | ht
    · rcases hpre _ (List.mem_append_left _ ht) with ⟨l, h, _⟩ | ⟨l, h, h1, h2⟩
      · rcases h with h | h <;> cases h
      · cases h; simp only; omega
    · have := hb.fresh t ht; simp only at this ⊢; omega
    · rcases hpre _ (List.mem_append_right _ ht) with ⟨l, h, _⟩ | ⟨l, h, h1, h2⟩
      · rcases h with h | h <;> cases h
      · cases h; simp only; omega
  · exact mergeForkOK_append _ _ _ (mergeForkOK_append _ _ _ (cpre []).1 hb.mf) (cpost []).1
  · exact scopeOpenedOK_append _ _ _ (scopeOpenedOK_append _ _ _ (cpre []).2.1 hb.so) (cpost []).2.1
  · exact scopeClosedOK_append _ _ (scopeClosedOK_append _ _ (cpre []).2.2 hb.sc) (cpost []).2.2

theorem inv_jump (ext : List Lbl) (c : Nat) (e : Prim Lbl) (he : (∃ o, e = .brk o) ∨ (∃ o, e = .cont o))
    (ht : ∀ l ∈ e.targets, l ∈ ext) : Inv ext c ([e], c) := by
  refine ⟨Nat.le_refl _, ?_, ?_, ?_, ?_, ?_, ?_⟩
  · intro x hx; simp at hx; subst hx; rcases he with ⟨o, rfl⟩ | ⟨o, rfl⟩ <;> rfl
  · intro x hx l hl; simp at hx; subst hx; exact Or.inr (ht l hl)
  · intro l hl; simp at hl; rcases he with ⟨o, rfl⟩ | ⟨o, rfl⟩ <;> cases hl
  · rcases he with ⟨o, rfl⟩ | ⟨o, rfl⟩ <;> rfl
  · rcases he with ⟨o, rfl⟩ | ⟨o, rfl⟩ <;> rfl
  · rcases he with ⟨o, rfl⟩ | ⟨o, rfl⟩ <;> rfl

theorem while_inv (ext : List Lbl) (c : Nat) (body : List (Prim Lbl) × Nat)
    (hb : Inv [("_while_begin_", c), ("_while_end_", c)] (c + 1) body) :
    Inv ext c ([.label ("_while_begin_", c), .goto ("_while_end_", c)] ++ body.1 ++
      [.jump ("_while_begin_", c), .label ("_while_end_", c)], body.2) := by
  have m := hb.mono
  have f := inv_frame [("_while_begin_", c), ("_while_end_", c)] c (c + 1)
    [.label ("_while_begin_", c), .goto ("_while_end_", c)] [.jump ("_while_begin_", c), .label ("_while_end_", c)] body hb (by omega)
    (by
      intro e he
      simp only [List.cons_append, List.nil_append, List.mem_cons, List.not_mem_nil, or_false] at he
      rcases he with rfl | rfl | rfl | rfl
      · exact Or.inr ⟨_, rfl, by simp only; omega⟩
      · exact Or.inl ⟨_, Or.inl rfl, by simp⟩
      · exact Or.inl ⟨_, Or.inr rfl, by simp⟩
      · exact Or.inr ⟨_, rfl, by simp only; omega⟩)
  have r1 := inv_resolve _ _ _ _ f (by simp)
  have r2 := inv_resolve _ _ _ _ r1 (by simp)
  exact inv_ext_mono [] ext (by simp) _ _ r2

theorem if_inv_noelse (ext : List Lbl) (c : Nat) (te : List (Prim Lbl) × Nat) (ht : Inv ext (c + 2) te) :
    Inv ext c ([.goto ("if_end_label_", c + 1)] ++ te.1 ++ [.label ("if_end_label_", c + 1)], te.2) := by
  have m := ht.mono
  have f := inv_frame (("if_end_label_", c + 1) :: ext) c (c + 2) [.goto ("if_end_label_", c + 1)] [.label ("if_end_label_", c + 1)] te
    (inv_ext_mono _ _ (fun l hl => List.mem_cons_of_mem _ hl) _ _ ht) (by omega)
    (by
      intro e he
      simp only [List.cons_append, List.nil_append, List.mem_cons, List.not_mem_nil, or_false] at he
      rcases he with rfl | rfl
      · exact Or.inl ⟨_, Or.inl rfl, by simp⟩
      · exact Or.inr ⟨_, rfl, by simp only; omega⟩)
  exact inv_resolve _ _ _ _ f (by simp)

theorem if_inv_else (ext : List Lbl) (c : Nat) (te fe : List (Prim Lbl) × Nat) (ht : Inv ext (c + 2) te)
    (hf : Inv ext te.2 fe) :
    Inv ext c ([.goto ("if_else_body_label_", c)] ++ te.1 ++
      [.jump ("if_end_label_", c + 1), .label ("if_else_body_label_", c)] ++ fe.1 ++ [.label ("if_end_label_", c + 1)], fe.2) := by
  have m1 := ht.mono; have m2 := hf.mono
  have hsub : ∀ l ∈ ext, l ∈ ("if_end_label_", c + 1) :: ("if_else_body_label_", c) :: ext :=
    fun l hl => List.mem_cons_of_mem _ (List.mem_cons_of_mem _ hl)
  have f1 := inv_frame (("if_end_label_", c + 1) :: ("if_else_body_label_", c) :: ext) c (c + 2)
    [.goto ("if_else_body_label_", c)] [.jump ("if_end_label_", c + 1), .label ("if_else_body_label_", c)] te
    (inv_ext_mono _ _ hsub _ _ ht) (by omega)
    (by
      intro e he
      simp only [List.cons_append, List.nil_append, List.mem_cons, List.not_mem_nil, or_false] at he
      rcases he with rfl | rfl | rfl
      · exact Or.inl ⟨_, Or.inl rfl, by simp⟩
      · exact Or.inl ⟨_, Or.inr rfl, by simp⟩
      · exact Or.inr ⟨_, rfl, by simp only; omega⟩)
  have both := inv_append _ _ _ _ _ _ f1 (inv_ext_mono _ _ hsub _ _ hf)
  have f2 := inv_frame (("if_end_label_", c + 1) :: ("if_else_body_label_", c) :: ext) c c [] [.label ("if_end_label_", c + 1)]
    (_, fe.2) both (Nat.le_refl _)
    (by
      intro e he
      simp only [List.nil_append, List.mem_cons, List.not_mem_nil, or_false] at he
      subst he
      exact Or.inr ⟨_, rfl, by simp only; omega⟩)
  have r1 := inv_resolve _ _ _ _ f2 (by simp)
  exact inv_resolve _ _ _ _ r1 (by simp)

theorem flatten_replicate_leaf (n : Nat) (ps : List (Prim Lbl)) (h : ps.all leaf = true) :
    (List.replicate n ps).flatten.all leaf = true := by
  induction n with
  | zero => rfl
  | succ n ih => rw [List.replicate_succ, List.flatten_cons]; exact all_leaf_append _ _ h ih

theorem cbList_snd (cb : Option (Lbl × Lbl)) : ∀ l ∈ (Prim.brk (cb.map (·.2)) : Prim Lbl).targets, l ∈ cbList cb := by
  intro l hl; cases cb with
  | none => simp [Prim.targets] at hl
  | some be => obtain ⟨b, e⟩ := be; simp [Prim.targets] at hl; subst hl; simp [cbList]

theorem cbList_fst (cb : Option (Lbl × Lbl)) : ∀ l ∈ (Prim.cont (cb.map (·.1)) : Prim Lbl).targets, l ∈ cbList cb := by
  intro l hl; cases cb with
  | none => simp [Prim.targets] at hl
  | some be => obtain ⟨b, e⟩ := be; simp [Prim.targets] at hl; subst hl; simp [cbList]

mutual
  theorem expand_inv : ∀ (cb : Option (Lbl × Lbl)) (ss : List Stmt) (c : Nat), wfList ss = true →
      Inv (cbList cb) c (expand cb ss c)
    | cb, [], c, _ => by unfold expand; exact inv_nil _ c
    | cb, s :: r, c, h => by
      unfold wfList at h
      simp only [Bool.and_eq_true] at h
      unfold expand
      exact inv_append _ c _ _ _ _ (expandStmt_inv cb s c h.1) (expand_inv cb r _ h.2)
  theorem expandStmt_inv : ∀ (cb : Option (Lbl × Lbl)) (s : Stmt) (c : Nat), wfStmt s = true →
      Inv (cbList cb) c (expandStmt cb s c)
    | cb, .send, c, _ => by unfold expandStmt; exact inv_leaves _ c _ (by decide)
    | cb, .matchEv, c, _ => by unfold expandStmt; exact inv_leaves _ c _ (by decide)
    | cb, .assign, c, _ => by unfold expandStmt; exact inv_leaves _ c _ (by decide)
    | cb, .other k, c, _ => by unfold expandStmt; exact inv_leaves _ c _ (by simp [leaf])
    | cb, .ret, c, _ => by unfold expandStmt; exact inv_leaves _ c _ (by decide)
    | cb, .abort, c, _ => by unfold expandStmt; exact inv_leaves _ c _ (by decide)
    | cb, .brk, c, _ => by unfold expandStmt; exact inv_jump _ c _ (Or.inl ⟨_, rfl⟩) (cbList_snd cb)
    | cb, .cont, c, _ => by unfold expandStmt; exact inv_jump _ c _ (Or.inr ⟨_, rfl⟩) (cbList_fst cb)
    | cb, .whileS b, c, h => by
      unfold wfStmt at h
      unfold expandStmt
      exact while_inv _ c _ (expand_inv (some (("_while_begin_", c), ("_while_end_", c))) b (c + 1) h)
    | cb, .ifS t f, c, h => by
      unfold wfStmt at h
      simp only [Bool.and_eq_true] at h
      unfold expandStmt
      by_cases hf : f.isEmpty = true
      · simp only [hf, if_true]
        exact if_inv_noelse _ c _ (expand_inv cb t (c + 2) h.1)
      · simp only [hf]
        exact if_inv_else _ c _ _ (expand_inv cb t (c + 2) h.1) (expand_inv cb f _ h.2)
    | cb, .matchG d, c, _ => by unfold expandStmt; exact matchGroup_ok _ d c
    | cb, .sendG d, c, _ => by unfold expandStmt; exact sendGroup_ok _ d c
    | cb, .startS d, c, _ => by unfold expandStmt; exact startGroup_ok _ d c
    | cb, .awaitOne k rv, c, _ => by
      unfold expandStmt
      apply inv_leaves
      apply all_leaf_append _ _ (all_leaf_append _ _ (startAtom_leaf k) (by decide))
      cases rv <;> decide
    | cb, .awaitG d, c, _ => by unfold expandStmt; exact awaitGroup_ok _ d c
    | cb, .activateS n, c, _ => by unfold expandStmt; exact inv_leaves _ c _ (flatten_replicate_leaf n _ (by decide))
    | cb, .deactivateS n, c, _ => by unfold expandStmt; exact inv_leaves _ c _ (replicate_leaf n _ (by decide))
    | cb, .nld, c, _ => by unfold expandStmt; exact inv_leaves _ c _ (by decide)
    | cb, .whenS specs thens els hasElse, c, h => by
      unfold wfStmt at h
      simp only [Bool.and_eq_true, Bool.not_eq_true', beq_iff_eq, List.all_eq_true] at h
      obtain ⟨⟨⟨⟨h1, h2⟩, h3⟩, h4⟩, h5⟩ := h
      unfold expandStmt
      exact when_inv _ cb specs thens hasElse _ (fun k => expand_inv cb els k h5) (by intro he; simp [he] at h1) h2
        (fun d hd he => by have := h3 d hd; simp [he] at this) (fun t ht k => expandLists_inv cb thens h4 t ht k) c
  theorem expandLists_inv : ∀ (cb : Option (Lbl × Lbl)) (ts : List (List Stmt)), wfLists ts = true →
      ∀ t ∈ ts, ∀ c, Inv (cbList cb) c (expand cb t c)
    | cb, [], _ => by intro t ht; simp at ht
    | cb, t0 :: ts, h => by
      unfold wfLists at h
      simp only [Bool.and_eq_true] at h
      intro t ht c
      rcases List.mem_cons.1 ht with ht | ht
      · rw [ht]; exact expand_inv cb t0 c h.1
      · exact expandLists_inv cb ts h.2 t ht c
end

/-! ### closedness of the expansion of a whole flow -/

theorem closed_of_inv (r : List (Prim Lbl) × Nat) (c : Nat) (h : Inv [] c r) : Closed r.1 := by
  apply (closed_iff r.1).1
  simp only [closed, Bool.and_eq_true]
  refine ⟨⟨⟨⟨?_, ?_⟩, h.mf⟩, h.so⟩, h.sc⟩
  · rw [targetsDefined_iff]
    intro e he l hl
    rcases h.tgt e he l hl with h1 | h1
    · exact h1
    · simp at h1
  · rw [allPrimitive_iff]; exact h.prim

end NemoVerif.Expand
