/-
  Lemmas for C12 (Colang 2.x part): the expansion model produces closed programs with fresh, distinct labels.
-/
import NemoVerif.Models.Expand
import NemoVerif.Lemmas.Closed
namespace NemoVerif.Expand
open NemoVerif.Closed

/-- `l` is one of the labels of the enclosing loop -/
def InCb (cb : Option (Lbl × Lbl)) (l : Lbl) : Prop := ∃ b e, cb = some (b, e) ∧ (l = b ∨ l = e)

def Plain (e : Prim Lbl) : Prop :=
  (∀ u, e ≠ .merge u) ∧ (∀ n, e ≠ .beginScope n) ∧ (∀ n, e ≠ .endScope n)

/-- invariant of `expand cb ss c = r` -/
structure Inv (cb : Option (Lbl × Lbl)) (c : Nat) (r : List (Prim Lbl) × Nat) : Prop where
  mono : c ≤ r.2
  prim : ∀ e ∈ r.1, e.isPrimitive = true
  tgt : ∀ e ∈ r.1, ∀ l ∈ e.targets, Prim.label l ∈ r.1 ∨ InCb cb l
  plain : ∀ e ∈ r.1, Plain e
  /-- fresh-label lemma: every label defined by the expansion carries a counter value drawn during this expansion -/
  fresh : ∀ l, Prim.label l ∈ r.1 → c ≤ l.2 ∧ l.2 < r.2

theorem inv_nil (cb : Option (Lbl × Lbl)) (c : Nat) : Inv cb c ([], c) :=
  ⟨Nat.le_refl _, by simp, by simp, by simp, by simp⟩

theorem inv_append (cb : Option (Lbl × Lbl)) (c c1 c2 : Nat) (a b : List (Prim Lbl))
    (ha : Inv cb c (a, c1)) (hb : Inv cb c1 (b, c2)) : Inv cb c (a ++ b, c2) := by
  have m1 := ha.mono; have m2 := hb.mono
  simp only at m1 m2
  refine ⟨by simp only; omega, ?_, ?_, ?_, ?_⟩
  · intro e he
    rcases List.mem_append.1 he with he | he
    · exact ha.prim e he
    · exact hb.prim e he
  · intro e he l hl
    rcases List.mem_append.1 he with he | he
    · rcases ha.tgt e he l hl with h | h
      · exact Or.inl (List.mem_append_left _ h)
      · exact Or.inr h
    · rcases hb.tgt e he l hl with h | h
      · exact Or.inl (List.mem_append_right _ h)
      · exact Or.inr h
  · intro e he
    rcases List.mem_append.1 he with he | he
    · exact ha.plain e he
    · exact hb.plain e he
  · intro l hl
    rcases List.mem_append.1 hl with hl | hl
    · have := ha.fresh l hl; simp only at this ⊢; omega
    · have := hb.fresh l hl; simp only at this ⊢; omega

/-- a single element that is primitive, defines no label and only targets the enclosing loop's labels -/
theorem inv_single (cb : Option (Lbl × Lbl)) (c : Nat) (e : Prim Lbl) (hp : e.isPrimitive = true)
    (ht : ∀ l ∈ e.targets, InCb cb l) (hpl : Plain e) (hnl : ∀ l, e ≠ .label l) : Inv cb c ([e], c) := by
  refine ⟨Nat.le_refl _, ?_, ?_, ?_, ?_⟩
  · intro x hx; simp at hx; subst hx; exact hp
  · intro x hx l hl; simp at hx; subst hx; exact Or.inr (ht l hl)
  · intro x hx; simp at hx; subst hx; exact hpl
  · intro l hl; simp at hl; exact absurd hl.symm (hnl l)

theorem plain_label (l : Lbl) : Plain (.label l) := (by refine ⟨?_, ?_, ?_⟩ <;> intro u h <;> cases h)
theorem plain_goto (l : Lbl) : Plain (.goto l) := (by refine ⟨?_, ?_, ?_⟩ <;> intro u h <;> cases h)

theorem while_inv (cb : Option (Lbl × Lbl)) (c : Nat) (body : List (Prim Lbl) × Nat)
    (hb : Inv (some (("_while_begin_", c), ("_while_end_", c))) (c + 1) body) :
    Inv cb c ([.label ("_while_begin_", c), .goto ("_while_end_", c)] ++ body.1 ++
      [.goto ("_while_begin_", c), .label ("_while_end_", c)], body.2) := by
  have m := hb.mono
  refine ⟨by simp only; omega, ?_, ?_, ?_, ?_⟩
  · intro e he
    simp only [List.mem_append, List.mem_cons, List.not_mem_nil, or_false] at he
    rcases he with (((rfl | rfl) | he) | (rfl | rfl))
    · rfl
    · rfl
    · exact hb.prim e he
    · rfl
    · rfl
  · intro e he l hl
    left
    simp only [List.mem_append, List.mem_cons, List.not_mem_nil, or_false] at he ⊢
    rcases he with (((rfl | rfl) | he) | (rfl | rfl))
    · simp [Prim.targets] at hl
    · simp [Prim.targets] at hl; subst hl; simp
    · rcases hb.tgt e he l hl with h | ⟨b, e', hcb, h⟩
      · exact Or.inl (Or.inr h)
      · simp only [Option.some.injEq, Prod.mk.injEq] at hcb
        obtain ⟨rfl, rfl⟩ := hcb
        rcases h with rfl | rfl
        · simp
        · simp
    · simp [Prim.targets] at hl; subst hl; simp
    · simp [Prim.targets] at hl
  · intro e he
    simp only [List.mem_append, List.mem_cons, List.not_mem_nil, or_false] at he
    rcases he with (((rfl | rfl) | he) | (rfl | rfl))
    · exact plain_label _
    · exact plain_goto _
    · exact hb.plain e he
    · exact plain_goto _
    · exact plain_label _
  · intro l hl
    simp only [List.mem_append, List.mem_cons, List.not_mem_nil, or_false] at hl
    rcases hl with (((h | h) | h) | (h | h))
    · cases h; simp only; omega
    · cases h
    · have := hb.fresh l h; simp only at this ⊢; omega
    · cases h
    · cases h; simp only; omega

theorem if_inv_noelse (cb : Option (Lbl × Lbl)) (c : Nat) (te : List (Prim Lbl) × Nat) (ht : Inv cb (c + 2) te) :
    Inv cb c ([.goto ("if_end_label_", c + 1)] ++ te.1 ++ [.label ("if_end_label_", c + 1)], te.2) := by
  have m := ht.mono
  refine ⟨by simp only; omega, ?_, ?_, ?_, ?_⟩
  · intro e he
    simp only [List.mem_append, List.mem_cons, List.not_mem_nil, or_false] at he
    rcases he with ((rfl | he) | rfl)
    · rfl
    · exact ht.prim e he
    · rfl
  · intro e he l hl
    simp only [List.mem_append, List.mem_cons, List.not_mem_nil, or_false] at he ⊢
    rcases he with ((rfl | he) | rfl)
    · simp [Prim.targets] at hl; subst hl; simp
    · rcases ht.tgt e he l hl with h | h
      · exact Or.inl (Or.inl (Or.inr h))
      · exact Or.inr h
    · simp [Prim.targets] at hl
  · intro e he
    simp only [List.mem_append, List.mem_cons, List.not_mem_nil, or_false] at he
    rcases he with ((rfl | he) | rfl)
    · exact plain_goto _
    · exact ht.plain e he
    · exact plain_label _
  · intro l hl
    simp only [List.mem_append, List.mem_cons, List.not_mem_nil, or_false] at hl
    rcases hl with ((h | h) | h)
    · cases h
    · have := ht.fresh l h; simp only at this ⊢; omega
    · cases h; simp only; omega

theorem if_inv_else (cb : Option (Lbl × Lbl)) (c : Nat) (te fe : List (Prim Lbl) × Nat) (ht : Inv cb (c + 2) te)
    (hf : Inv cb te.2 fe) :
    Inv cb c ([.goto ("if_else_body_label_", c)] ++ te.1 ++
      [.goto ("if_end_label_", c + 1), .label ("if_else_body_label_", c)] ++ fe.1 ++ [.label ("if_end_label_", c + 1)], fe.2) := by
  have m1 := ht.mono; have m2 := hf.mono
  refine ⟨by simp only; omega, ?_, ?_, ?_, ?_⟩
  · intro e he
    simp only [List.mem_append, List.mem_cons, List.not_mem_nil, or_false] at he
    rcases he with ((((rfl | he) | (rfl | rfl)) | he) | rfl)
    · rfl
    · exact ht.prim e he
    · rfl
    · rfl
    · exact hf.prim e he
    · rfl
  · intro e he l hl
    simp only [List.mem_append, List.mem_cons, List.not_mem_nil, or_false] at he ⊢
    rcases he with ((((rfl | he) | (rfl | rfl)) | he) | rfl)
    · simp [Prim.targets] at hl; subst hl; simp
    · rcases ht.tgt e he l hl with h | h
      · exact Or.inl (Or.inl (Or.inl (Or.inl (Or.inr h))))
      · exact Or.inr h
    · simp [Prim.targets] at hl; subst hl; simp
    · simp [Prim.targets] at hl
    · rcases hf.tgt e he l hl with h | h
      · exact Or.inl (Or.inl (Or.inr h))
      · exact Or.inr h
    · simp [Prim.targets] at hl
  · intro e he
    simp only [List.mem_append, List.mem_cons, List.not_mem_nil, or_false] at he
    rcases he with ((((rfl | he) | (rfl | rfl)) | he) | rfl)
    · exact plain_goto _
    · exact ht.plain e he
    · exact plain_goto _
    · exact plain_label _
    · exact hf.plain e he
    · exact plain_label _
  · intro l hl
    simp only [List.mem_append, List.mem_cons, List.not_mem_nil, or_false] at hl
    rcases hl with ((((h | h) | (h | h)) | h) | h)
    · cases h
    · have := ht.fresh l h; simp only at this ⊢; omega
    · cases h
    · cases h; simp only; omega
    · have := hf.fresh l h; simp only at this ⊢; omega
    · cases h; simp only; omega

theorem plain_simple (e : Prim Lbl) (h1 : ∀ u, e ≠ .merge u) (h2 : ∀ n, e ≠ .beginScope n) (h3 : ∀ n, e ≠ .endScope n) :
    Plain e := ⟨h1, h2, h3⟩

mutual
  theorem expand_inv : ∀ (cb : Option (Lbl × Lbl)) (ss : List Stmt) (c : Nat), Inv cb c (expand cb ss c)
    | cb, [], c => by unfold expand; exact inv_nil cb c
    | cb, s :: r, c => by
      unfold expand
      exact inv_append cb c _ _ _ _ (expandStmt_inv cb s c) (expand_inv cb r _)
  theorem expandStmt_inv : ∀ (cb : Option (Lbl × Lbl)) (s : Stmt) (c : Nat), Inv cb c (expandStmt cb s c)
    | cb, .send, c => by
      unfold expandStmt
      exact inv_single cb c _ rfl (by simp [Prim.targets]) (by refine ⟨?_, ?_, ?_⟩ <;> intro u h <;> cases h) (by intro l h; cases h)
    | cb, .matchEv, c => by
      unfold expandStmt
      exact inv_single cb c _ rfl (by simp [Prim.targets]) (by refine ⟨?_, ?_, ?_⟩ <;> intro u h <;> cases h) (by intro l h; cases h)
    | cb, .assign, c => by
      unfold expandStmt
      exact inv_single cb c _ rfl (by simp [Prim.targets]) (by refine ⟨?_, ?_, ?_⟩ <;> intro u h <;> cases h) (by intro l h; cases h)
    | cb, .other k, c => by
      unfold expandStmt
      exact inv_single cb c _ rfl (by simp [Prim.targets]) (by refine ⟨?_, ?_, ?_⟩ <;> intro u h <;> cases h) (by intro l h; cases h)
    | cb, .ret, c => by
      unfold expandStmt
      exact inv_single cb c _ rfl (by simp [Prim.targets]) (by refine ⟨?_, ?_, ?_⟩ <;> intro u h <;> cases h) (by intro l h; cases h)
    | cb, .abort, c => by
      unfold expandStmt
      exact inv_single cb c _ rfl (by simp [Prim.targets]) (by refine ⟨?_, ?_, ?_⟩ <;> intro u h <;> cases h) (by intro l h; cases h)
    | cb, .brk, c => by
      unfold expandStmt
      refine inv_single cb c _ rfl ?_ (by refine ⟨?_, ?_, ?_⟩ <;> intro u h <;> cases h) (by intro l h; cases h)
      intro l hl
      cases cb with
      | none => simp [Prim.targets] at hl
      | some be => simp [Prim.targets] at hl; exact ⟨be.1, be.2, rfl, Or.inr hl⟩
    | cb, .cont, c => by
      unfold expandStmt
      refine inv_single cb c _ rfl ?_ (by refine ⟨?_, ?_, ?_⟩ <;> intro u h <;> cases h) (by intro l h; cases h)
      intro l hl
      cases cb with
      | none => simp [Prim.targets] at hl
      | some be => simp [Prim.targets] at hl; exact ⟨be.1, be.2, rfl, Or.inl hl⟩
    | cb, .whileS b, c => by
      unfold expandStmt
      exact while_inv cb c _ (expand_inv _ b (c + 1))
    | cb, .ifS t f, c => by
      unfold expandStmt
      by_cases hf : f.isEmpty = true
      · simp only [hf, if_true]
        exact if_inv_noelse cb c _ (expand_inv cb t (c + 2))
      · simp only [hf]
        exact if_inv_else cb c _ _ (expand_inv cb t (c + 2)) (expand_inv cb f _)
end

/-! ### distinct labels -/

theorem mem_labelsOf (l : Lbl) : ∀ (p : List (Prim Lbl)), l ∈ labelsOf p ↔ Prim.label l ∈ p := by
  intro p
  induction p with
  | nil => simp [labelsOf]
  | cons e r ih =>
    cases e with
    | label n =>
      simp only [labelsOf, List.mem_cons, ih]
      constructor
      · rintro (h | h)
        · left; rw [h]
        · right; exact h
      · rintro (h | h)
        · left; cases h; rfl
        · right; exact h
    | _ => simp [labelsOf, ih]

theorem labelsOf_append (a b : List (Prim Lbl)) : labelsOf (a ++ b) = labelsOf a ++ labelsOf b := by
  induction a with
  | nil => rfl
  | cons e r ih => cases e <;> simp [labelsOf, ih]

/-- labels of two consecutive expansions cannot collide: their counter ranges are disjoint -/
theorem nodup_append_of_ranges (a b : List (Prim Lbl)) (c c1 c2 : Nat)
    (ha : (labelsOf a).Nodup) (hb : (labelsOf b).Nodup)
    (fa : ∀ l, Prim.label l ∈ a → c ≤ l.2 ∧ l.2 < c1) (fb : ∀ l, Prim.label l ∈ b → c1 ≤ l.2 ∧ l.2 < c2) :
    (labelsOf (a ++ b)).Nodup := by
  rw [labelsOf_append, List.nodup_append]
  refine ⟨ha, hb, ?_⟩
  intro x hx y hy hxy
  subst hxy
  have h1 := fa x ((mem_labelsOf x a).1 hx)
  have h2 := fb x ((mem_labelsOf x b).1 hy)
  omega

mutual
  theorem expand_nodup : ∀ (cb : Option (Lbl × Lbl)) (ss : List Stmt) (c : Nat), (labelsOf (expand cb ss c).1).Nodup
    | cb, [], c => by unfold expand; simp [labelsOf]
    | cb, s :: r, c => by
      unfold expand
      exact nodup_append_of_ranges _ _ c _ _ (expandStmt_nodup cb s c) (expand_nodup cb r _)
        (expandStmt_inv cb s c).fresh (expand_inv cb r _).fresh
  theorem expandStmt_nodup : ∀ (cb : Option (Lbl × Lbl)) (s : Stmt) (c : Nat), (labelsOf (expandStmt cb s c).1).Nodup
    | cb, .send, c => by unfold expandStmt; simp [labelsOf]
    | cb, .matchEv, c => by unfold expandStmt; simp [labelsOf]
    | cb, .assign, c => by unfold expandStmt; simp [labelsOf]
    | cb, .other k, c => by unfold expandStmt; simp [labelsOf]
    | cb, .ret, c => by unfold expandStmt; simp [labelsOf]
    | cb, .abort, c => by unfold expandStmt; simp [labelsOf]
    | cb, .brk, c => by unfold expandStmt; simp [labelsOf]
    | cb, .cont, c => by unfold expandStmt; simp [labelsOf]
    | cb, .whileS b, c => by
      unfold expandStmt
      have hb := expand_nodup (some (("_while_begin_", c), ("_while_end_", c))) b (c + 1)
      have fb := (expand_inv (some (("_while_begin_", c), ("_while_end_", c))) b (c + 1)).fresh
      have e1 : ∀ body : List (Prim Lbl), labelsOf ([.label ("_while_begin_", c), .goto ("_while_end_", c)] ++ body ++
          [.goto ("_while_begin_", c), .label ("_while_end_", c)]) = ("_while_begin_", c) :: (labelsOf body ++ [("_while_end_", c)]) := by
        intro body; simp [labelsOf_append, labelsOf]
      simp only
      rw [e1, List.nodup_cons, List.nodup_append]
      refine ⟨?_, hb, by simp, ?_⟩
      · intro h
        rcases List.mem_append.1 h with h | h
        · have := fb _ ((mem_labelsOf _ _).1 h); simp only at this; omega
        · simp at h
      · intro x hx y hy hxy
        subst hxy
        have := fb _ ((mem_labelsOf _ _).1 hx)
        simp only [List.mem_singleton] at hy
        subst hy; simp only at this; omega
    | cb, .ifS t f, c => by
      unfold expandStmt
      have ht := expand_nodup cb t (c + 2)
      have it := expand_inv cb t (c + 2)
      by_cases hf : f.isEmpty = true
      · simp only [hf, if_true]
        have e1 : ∀ te : List (Prim Lbl), labelsOf ([.goto ("if_end_label_", c + 1)] ++ te ++ [.label ("if_end_label_", c + 1)])
            = labelsOf te ++ [("if_end_label_", c + 1)] := by
          intro te; simp [labelsOf_append, labelsOf]
        rw [e1, List.nodup_append]
        refine ⟨ht, by simp, ?_⟩
        intro x hx y hy hxy
        subst hxy
        simp only [List.mem_singleton] at hy
        subst hy
        have := it.fresh _ ((mem_labelsOf _ _).1 hx); simp only at this; omega
      · simp only [hf]
        have hfn := expand_nodup cb f (expand cb t (c + 2)).2
        have ifn := expand_inv cb f (expand cb t (c + 2)).2
        have m1 := it.mono
        have e1 : ∀ te fe : List (Prim Lbl), labelsOf ([.goto ("if_else_body_label_", c)] ++ te ++
            [.goto ("if_end_label_", c + 1), .label ("if_else_body_label_", c)] ++ fe ++ [.label ("if_end_label_", c + 1)])
            = labelsOf te ++ (("if_else_body_label_", c) :: (labelsOf fe ++ [("if_end_label_", c + 1)])) := by
          intro te fe; simp [labelsOf_append, labelsOf]
        simp only [Bool.false_eq_true, if_false]
        rw [e1, List.nodup_append, List.nodup_cons, List.nodup_append]
        refine ⟨ht, ⟨?_, hfn, by simp, ?_⟩, ?_⟩
        · intro h
          rcases List.mem_append.1 h with h | h
          · have := ifn.fresh _ ((mem_labelsOf _ _).1 h); simp only at this; omega
          · simp at h
        · intro x hx y hy hxy
          subst hxy
          simp only [List.mem_singleton] at hy
          subst hy
          have := ifn.fresh _ ((mem_labelsOf _ _).1 hx); simp only at this; omega
        · intro x hx y hy hxy
          subst hxy
          have h1 := it.fresh _ ((mem_labelsOf _ _).1 hx)
          rcases List.mem_cons.1 hy with hy | hy
          · subst hy; (try simp at h1) <;> (try omega)
          · rcases List.mem_append.1 hy with hy | hy
            · have h2 := ifn.fresh _ ((mem_labelsOf _ _).1 hy); omega
            · simp only [List.mem_singleton] at hy
              subst hy; (try simp at h1) <;> (try omega)
end

/-! ### closedness of the expansion of a whole flow -/

theorem closed_of_inv (r : List (Prim Lbl) × Nat) (c : Nat) (h : Inv none c r) : Closed r.1 := by
  refine ⟨?_, h.prim, ?_, ?_, ?_⟩
  · intro e he l hl
    rcases h.tgt e he l hl with h1 | ⟨b, e', hcb, _⟩
    · exact h1
    · cases hcb
  · intro pre u post hp
    exact absurd rfl ((h.plain (.merge u) (by rw [hp]; simp)).1 u)
  · intro pre n post hp
    exact absurd rfl ((h.plain (.endScope n) (by rw [hp]; simp)).2.2 n)
  · intro pre n post hp
    exact absurd rfl ((h.plain (.beginScope n) (by rw [hp]; simp)).2.1 n)

end NemoVerif.Expand
