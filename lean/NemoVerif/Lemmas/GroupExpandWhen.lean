/-
  Helper lemmas for C07: the checker `readBackWhen` inverts the mirror of `_expand_when_stmt_element`.
-/
import NemoVerif.Models.GroupExpandWhen
import NemoVerif.Lemmas.GroupExpandAwait
namespace NemoVerif.GroupExpand
open NemoVerif.Dnf

theorem readAndItemsP_andItemsP (e : Nat) (tail : List Prim) :
    ∀ (ls : List Nat) (ms : List Prim), ls.length = ms.length → (∀ m ∈ ms, isMatchPrim m = true) →
      readAndItemsP ls (andItemsP e ls ms ++ tail) = some (ms.map (fun m => (m, e)), tail) := by
  intro ls
  induction ls with
  | nil =>
    intro ms h _
    cases ms with
    | nil => simp [andItemsP, readAndItemsP]
    | cons a c => simp at h
  | cons l ls ih =>
    intro ms h hm
    cases ms with
    | nil => simp at h
    | cons a c =>
      have h' : ls.length = c.length := by simpa using h
      have ha : isMatchPrim a = true := hm a (by simp)
      have hc : ∀ m ∈ c, isMatchPrim m = true := fun m hmem => hm m (by simp [hmem])
      simp [andItemsP, readAndItemsP, ih c h' hc, ha]

theorem readAndP_expandAndP (ms : List Prim) (hm : ∀ m ∈ ms, isMatchPrim m = true) (k : Nat) (rest : List Prim) :
    readAndP ((expandAndP ms k).1 ++ rest) = some (ms, rest) := by
  cases ms with
  | nil =>
    simp [expandAndP, readAndP, freshLabels, andItemsP, readAndItemsP, andTrailer]
  | cons a t =>
    cases t with
    | nil =>
      have ha : isMatchPrim a = true := hm a (by simp)
      cases a <;> simp_all [expandAndP, readAndP, isMatchPrim]
    | cons b t =>
      have hl : (freshLabels (k + 3) (a :: b :: t).length).length = (a :: b :: t).length := freshLabels_length _ _
      have h := readAndItemsP_andItemsP (k + 2) (andTrailer k (k + 1) (k + 2) (a :: b :: t).length ++ rest)
        (freshLabels (k + 3) (a :: b :: t).length) (a :: b :: t) hl hm
      simp only [expandAndP, List.cons_append, List.nil_append, List.append_assoc, readAndP, h]
      simp [andTrailer, freshLabels_length, Function.comp_def]

theorem readStarts_expandAndP (ms : List Prim) (hm : ∀ m ∈ ms, isMatchPrim m = true) (k : Nat) (rest : List Prim) :
    readStarts ((expandAndP ms k).1 ++ rest) = ([], (expandAndP ms k).1 ++ rest) := by
  cases ms with
  | nil => simp [expandAndP, readStarts]
  | cons a t =>
    cases t with
    | nil =>
      have ha : isMatchPrim a = true := hm a (by simp)
      cases a <;> simp_all [expandAndP, readStarts, isMatchPrim]
    | cons b t => simp [expandAndP, readStarts]

theorem whenMatchItems_isMatch (isFlow : Nat → Bool) :
    ∀ (c : List Nat) (k : Nat), ∀ m ∈ whenMatchItems isFlow c k, isMatchPrim m = true := by
  intro c
  induction c with
  | nil => intro k m h; simp [whenMatchItems] at h
  | cons a c ih =>
    intro k m h
    simp only [whenMatchItems] at h
    split at h
    · rcases List.mem_cons.1 h with rfl | h'
      · rfl
      · exact ih _ m h'
    · rcases List.mem_cons.1 h with rfl | h'
      · rfl
      · exact ih _ m h'

theorem itemsToClause_whenMatchItems (isFlow : Nat → Bool) :
    ∀ (c : List Nat) (k : Nat),
      itemsToClause ((c.filter isFlow).zip (startRefs (c.filter isFlow) k)) (whenMatchItems isFlow c k) = some c := by
  intro c
  induction c with
  | nil => intro k; simp [whenMatchItems, startRefs, itemsToClause]
  | cons a c ih =>
    intro k
    by_cases ha : isFlow a = true
    · simp [whenMatchItems, ha, List.filter, startRefs, itemsToClause, ih (k + 3)]
    · have ha' : isFlow a = false := by simpa using ha
      have := ih k
      cases hz : (c.filter isFlow).zip (startRefs (c.filter isFlow) k) with
      | nil => simp [whenMatchItems, ha', List.filter, itemsToClause, hz] at this ⊢; rw [this]
      | cons p ps => simp [whenMatchItems, ha', List.filter, itemsToClause, hz] at this ⊢; rw [this]

theorem readWhenClause_expand (isFlow : Nat → Bool) (c : List Nat) (k : Nat) (rest : List Prim) :
    readWhenClause ((expandWhenClause isFlow c k).1 ++ rest) = some (c, rest) := by
  simp only [readWhenClause, expandWhenClause, List.append_assoc]
  rw [readStarts_startBlocks _ (readStarts_expandAndP _ (whenMatchItems_isMatch isFlow c k) _ _)]
  simp only [readAndP_expandAndP _ (whenMatchItems_isMatch isFlow c k), itemsToClause_whenMatchItems]

theorem stripPrefix_append (b rest : List Prim) : stripPrefix b (b ++ rest) = some rest := by
  induction b with
  | nil => rfl
  | cons x b ih => simp [stripPrefix, ih]

theorem readWhenGroups_whenGroups (isFlow : Nat → Bool) (nm : WNames) (caseL failL n : Nat) (body tail : List Prim) :
    ∀ (ls : List Nat) (d : Clauses) (k : Nat), ls.length = d.length →
      readWhenGroups nm.s nm.u failL n body ls ((whenGroups isFlow nm caseL failL n body ls d k).1 ++ tail)
        = some (d.map (fun c => (c, (caseL, nm.endL, nm.elseL))), tail) := by
  intro ls
  induction ls with
  | nil =>
    intro d k h
    cases d with
    | nil => simp [whenGroups, readWhenGroups]
    | cons c d => simp at h
  | cons l ls ih =>
    intro d k h
    cases d with
    | nil => simp at h
    | cons c d =>
      have h' : ls.length = d.length := by simpa using h
      have hA := readWhenClause_expand isFlow c k
        (whenGroupTail nm caseL failL n body ++ ((whenGroups isFlow nm caseL failL n body ls d (expandWhenClause isFlow c k).2).1 ++ tail))
      simp only [whenGroups, List.cons_append, List.append_assoc, readWhenGroups, beq_self_eq_true, if_true]
      rw [hA]
      simp only [whenGroupTail, List.cons_append, List.nil_append, List.append_assoc, beq_self_eq_true, Bool.and_self, if_true,
        stripPrefix_append]
      simp [ih d _ h']

theorem readWhenElse_whenElse (nm : WNames) (nCases : Nat) (els : Option (List Prim)) (rest : List Prim) :
    readWhenElse nm.s nm.u nCases els (whenElse nm nCases els ++ rest) = some ((nm.elseL, nm.endL), rest) := by
  cases els with
  | none => simp [whenElse, readWhenElse]
  | some b => simp [whenElse, readWhenElse, stripPrefix_append]

theorem all_targets (d : Clauses) (caseL e el : Nat) :
    (d.map (fun c => (c, ((caseL, e, el) : WTargets)))).all
      (fun x => x.2.1 == (((d.map (fun c => (c, ((caseL, e, el) : WTargets)))).head?.map (·.2.1)).getD 0) && x.2.2.1 == e && x.2.2.2 == el) = true := by
  cases d with
  | nil => rfl
  | cons c d => simp

theorem readWhenCase_whenCase (isFlow : Nat → Bool) (nm : WNames) (nCases : Nat) (els : Option (List Prim))
    (initL : Nat) (d : Clauses) (body : List Prim) (k : Nat) (rest : List Prim) :
    readWhenCase nm.s nm.u nCases els initL body ((whenCase isFlow nm nCases els initL d body k).1 ++ rest)
      = some ((d, (nm.elseL, nm.endL)), rest) := by
  have hg := readWhenGroups_whenGroups isFlow nm (k + 1) k d.length body (whenElse nm nCases els ++ rest)
    (freshLabels (k + 3) d.length) d (k + 3 + d.length) (freshLabels_length _ _)
  simp only [whenCase, List.cons_append, List.append_assoc, readWhenCase, beq_self_eq_true, if_true, freshLabels_length]
  rw [hg]
  simp only [readWhenElse_whenElse, all_targets, if_true]
  simp [Function.comp_def]

theorem readWhenCases_whenCases (isFlow : Nat → Bool) (nm : WNames) (nCases : Nat) (els : Option (List Prim)) (tail : List Prim) :
    ∀ (ls : List Nat) (cs : List (Clauses × List Prim)) (k : Nat), ls.length = cs.length →
      readWhenCases nm.s nm.u nCases els ls (cs.map (·.2)) ((whenCases isFlow nm nCases els ls cs k).1 ++ tail)
        = some (cs.map (fun c => (c.1, (nm.elseL, nm.endL))), tail) := by
  intro ls
  induction ls with
  | nil =>
    intro cs k h
    cases cs with
    | nil => simp [whenCases, readWhenCases]
    | cons c cs => simp at h
  | cons l ls ih =>
    intro cs k h
    cases cs with
    | nil => simp at h
    | cons c cs =>
      have h' : ls.length = cs.length := by simpa using h
      simp only [whenCases, List.map_cons, List.append_assoc, readWhenCases]
      rw [readWhenCase_whenCase]
      simp [ih cs _ h']

theorem all_same (cs : List (Clauses × List Prim)) (p : Nat × Nat) :
    (cs.map (fun c => (c.1, p))).all (fun x => x.2 == (((cs.map (fun c => (c.1, p))).head?.map (·.2)).getD (0, 0))) = true := by
  cases cs with
  | nil => rfl
  | cons c cs => simp

theorem readBackWhen_expandWhenClauses (isFlow : Nat → Bool) (cases : List (Clauses × List Prim)) (els : Option (List Prim)) (k : Nat) :
    readBackWhen (cases.map (·.2)) els (expandWhenClauses isFlow cases els k).1 = some (cases.map (·.1)) := by
  have h := readWhenCases_whenCases isFlow { s := k, u := k + 1, elseL := k + 2, elseS := k + 3, endL := k + 4 } cases.length els []
    (freshLabels (k + 5) cases.length) cases (k + 5 + cases.length) (freshLabels_length _ _)
  simp only [List.append_nil] at h
  simp only [expandWhenClauses, readBackWhen, freshLabels_length, h, all_same, if_true]
  simp [Function.comp_def]

end NemoVerif.GroupExpand
