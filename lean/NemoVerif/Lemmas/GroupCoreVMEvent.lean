/-
  C07 (T2') — ONE EVENT on a pure and-group, composed from the segments, over CoreVM's own `slide`:
  phase 1 (`and_clause_phase1`) and, when the clause completes, phase 2 (`and_clause_completes`) — what `GroupVM.stepEvent` does on a
  group without or-level; the fact that phase 1 leaves exactly one MERGING head and no lost head comes from `GroupVM`'s own lemmas
  (`p1Members_spec`).
-/
import NemoVerif.Lemmas.GroupCoreVMMerge
import NemoVerif.Lemmas.GroupVM
set_option linter.unusedSimpArgs false
namespace NemoVerif.CoreVM
open NemoVerif NemoVerif.CoreIndex
open NemoVerif.GroupVM (MLoc countWait p1Members QMs remMs mergingFrom QItem p1Members_spec mem_mergingFrom)

/-- phase 1 never produces a lost head -/
theorem p1Members_not_lost (e need : Nat) : ∀ (todo pre : List (Nat × MLoc)),
    (∀ m ∈ todo, m.2 ≠ MLoc.lost) → (∀ m ∈ pre, m.2 ≠ MLoc.lost) → ∀ m ∈ p1Members e need pre todo, m.2 ≠ MLoc.lost := by
  intro todo
  induction todo with
  | nil => intro pre _ hp m hm; exact hp m (by simpa [p1Members] using hm)
  | cons x rest ih =>
    intro pre ht hp
    have hrest : ∀ m ∈ rest, m.2 ≠ MLoc.lost := fun m hm => ht m (by simp [hm])
    obtain ⟨a, l⟩ := x
    have hl : l ≠ MLoc.lost := ht (a, l) (by simp)
    cases l with
    | atMatch =>
      simp only [p1Members]
      split
      · apply ih _ hrest
        intro m hm
        rcases List.mem_append.1 hm with h | h
        · exact hp m h
        · simp only [List.mem_singleton] at h; subst h; simp only; split <;> simp
      · apply ih _ hrest
        intro m hm
        rcases List.mem_append.1 hm with h | h
        · exact hp m h
        · simp only [List.mem_singleton] at h; subst h; simp
    | atWait =>
      simp only [p1Members]
      apply ih _ hrest
      intro m hm
      rcases List.mem_append.1 hm with h | h
      · exact hp m h
      · simp only [List.mem_singleton] at h; subst h; simp
    | merging =>
      simp only [p1Members]
      apply ih _ hrest
      intro m hm
      rcases List.mem_append.1 hm with h | h
      · exact hp m h
      · simp only [List.mem_singleton] at h; subst h; simp
    | lost => exact absurd rfl hl


/-- **One event on a pure and-group at CoreVM level (any size).**  Between two events the member heads are on their `match`
    elements or parked (`QMs ms`), the forking head `r` is INACTIVE.  Advancing the heads that wait on `match e` yields
    `GroupVM.p1Members e n [] ms` (phase 1); if that completes the clause, `slide` on the one MERGING head merges: `r` continues
    ACTIVE on `MergeHeads`, all member heads are gone (phase 2) — `GroupVM.stepEvent` on a group without or-level, by CoreVM's own
    `slide`. -/
theorem and_group_event (fuel : Nat) (s : VM) (f : FUid) (i : Inst) (x : InstX) (cfg : FlowCfg) (l mu : String) (pe fp e : Nat)
    (r : HUid) (us : List (HUid × Nat)) (ms : List (Nat × MLoc))
    (F : FlowAt s f i x cfg) (hown : x.ctxOwner = none) (C : ClauseShape cfg l mu pe ms.length) (S : MembersShape cfg l pe us)
    (hlen : us.length = ms.length) (hndu : (r :: us.map (·.1)).Nodup) (hq : QMs ms)
    (hv : hview i = (r, fp, HeadStatus.inactive) :: renderU (pe + 1) us ms)
    (hfu : OMap.lookup mu x.forkUids = some r)
    (hhx : ((OMap.lookup (f, r) s.r.hx).getD {}).childHeadUids = us.map (·.1))
    (hleaf : ∀ c ∈ us.map (·.1), ((OMap.lookup (f, c) s.r.hx).getD {}).childHeadUids = [])
    (hmu : mu ∉ us.map (·.1)) (hfp : fp ≠ pe + 2) :
    ∃ s1 i1, runMembers (fuel + 3) f (matchingU e us ms) s = .ok () s1 ∧ FlowAt s1 f i1 x cfg ∧ s1.r = s.r ∧
      hview i1 = (r, fp, HeadStatus.inactive) :: renderU (pe + 1) us (p1Members e ms.length [] ms) ∧
      (remMs (p1Members e ms.length [] ms) = [] → remMs ms ≠ [] →
        ∃ (j : Nat) (uj : HUid × Nat) (a : Nat), us[j]? = some uj ∧ (p1Members e ms.length [] ms)[j]? = some (a, MLoc.merging) ∧
          ∃ s2 i2 x2, slide (fuel + 4) f uj.1 s1 = .ok [(f, r)] s2 ∧ FlowAt s2 f i2 x2 cfg ∧ x2.ctxOwner = x.ctxOwner ∧
            hview i2 = [(r, pe + 2, HeadStatus.active)]) := by
  obtain ⟨s1, i1, hrun, F1, hr1, hv1⟩ := and_clause_phase1 fuel s f i x cfg l mu pe ms.length e [(r, fp, HeadStatus.inactive)] us ms
    F hown C S hlen (by simpa using hndu) (by simp [liveAt]) (by simpa using hv)
  refine ⟨s1, i1, hrun, F1, hr1, by simpa using hv1, ?_⟩
  intro hdone hsome
  have hspec := p1Members_spec e ms.length 0 ms [] hq (by intro m hm; cases hm) (by simp)
  obtain ⟨j, a, hjm, hmf⟩ := hspec.2.2.2 hdone hsome
  have hl' : (p1Members e ms.length [] ms).length = ms.length := hspec.2.1
  have hjlt : j < us.length := by
    rcases Nat.lt_or_ge j (p1Members e ms.length [] ms).length with h | h
    · omega
    · rw [List.getElem?_eq_none h] at hjm; cases hjm
  refine ⟨j, us[j], a, List.getElem?_eq_getElem hjlt, hjm, ?_⟩
  have hnl := p1Members_not_lost e ms.length ms []
    (by intro m hm; rcases hq m hm with h | h <;> (rw [h]; decide)) (by intro m hm; cases hm)
  obtain ⟨s2, i2, x2, hsl, F2, ho2, hv2, _⟩ := and_clause_completes fuel s1 f i1 x cfg l mu pe ms.length fp r us
    (p1Members e ms.length [] ms) j us[j] a F1 C (by simpa using hv1) (by rw [hl']; exact hlen) hndu
    (List.getElem?_eq_getElem hjlt) hjm
    (by
      intro j' m' hm' hne
      have h1 : m'.2 ≠ MLoc.lost := hnl m' (List.mem_of_getElem? hm')
      have h2 : m'.2 ≠ MLoc.merging := by
        intro hmg
        have : QItem.member 0 (0 + j') ∈ mergingFrom 0 0 (p1Members e ms.length [] ms) :=
          (mem_mergingFrom 0 _ 0 _).2 ⟨j', m'.1, rfl, by rw [hm']; cases m'; simp_all⟩
        rw [hmf] at this
        simp at this
        exact hne this
      cases hm2 : m'.2 <;> simp_all)
    hfu (by rw [hr1]; exact hhx) (by rw [hr1]; exact hleaf) hmu hfp
  exact ⟨s2, i2, x2, hsl, F2, ho2, hv2⟩

/-! ### or-group of single atoms -/

open NemoVerif.GroupVM (Br) in
section
/-- an entry of the rendered branches -/
theorem mem_renderB (wp : Nat) : ∀ (us : List (HUid × Nat)) (ms : List Br) (j : Nat) (u : HUid × Nat) (m : Br),
    us[j]? = some u → ms[j]? = some m → (u.1, brCore u.2 wp m) ∈ renderB wp us ms := by
  intro us
  induction us with
  | nil => intro ms j u m hu; simp at hu
  | cons u0 us ih =>
    intro ms j u m hu hm
    cases ms with
    | nil => simp at hm
    | cons m0 ms =>
      cases j with
      | zero =>
        simp only [List.getElem?_cons_zero, Option.some.injEq] at hu hm
        subst hu; subst hm
        simp [renderB]
      | succ j =>
        simp only [List.getElem?_cons_succ] at hu hm
        have := ih ms j u m hu hm
        simp only [renderB, List.zipWith_cons_cons, List.mem_cons] at this ⊢
        exact Or.inr this

/-- every entry of the rendered branches comes from a branch -/
theorem of_mem_renderB (wp : Nat) : ∀ (us : List (HUid × Nat)) (ms : List Br) (t : HCore),
    t ∈ renderB wp us ms → ∃ (j : Nat) (u : HUid × Nat) (m : Br), us[j]? = some u ∧ ms[j]? = some m ∧ t = (u.1, brCore u.2 wp m) := by
  intro us
  induction us with
  | nil => intro ms t h; simp [renderB] at h
  | cons u0 us ih =>
    intro ms t h
    cases ms with
    | nil => simp [renderB] at h
    | cons m0 ms =>
      simp only [renderB, List.zipWith_cons_cons, List.mem_cons] at h
      rcases h with rfl | h
      · exact ⟨0, u0, m0, rfl, rfl, rfl⟩
      · obtain ⟨j, u, m, h1, h2, h3⟩ := ih ms t h
        exact ⟨j + 1, u, m, by rw [List.getElem?_cons_succ]; exact h1, by rw [List.getElem?_cons_succ]; exact h2, h3⟩


/-- **A branch of an or-group of single atoms completes (phase 2 at CoreVM level, one MERGING branch head).**  After phase 1
    exactly one branch head `h = us[j]` is MERGING on the or-level `MergeHeads`, the others are still ACTIVE on their `match`, the
    forking head `r` is INACTIVE.  `slide` on `h` merges: `r` continues ACTIVE on the `MergeHeads` element, every branch head is gone,
    `[r]` is handed back — `GroupVM.mergeStep (.branch j)` with a single candidate (`random.choice` is not called).  Any number of
    branches.  (Several branches MERGING in the same event — the same atom twice — need `random.choice`; tied by execution.) -/
theorem or_branch_completes (fuel : Nat) (s : VM) (f : FUid) (i : Inst) (x : InstX) (cfg : FlowCfg) (l mu : String) (pe fp : Nat)
    (r : HUid) (us : List (HUid × Nat)) (ms : List Br) (j : Nat) (uj : HUid × Nat)
    (F : FlowAt s f i x cfg) (C : OrShape cfg l mu pe)
    (hv : hview i = (r, fp, HeadStatus.inactive) :: renderB (pe + 1) us ms)
    (hlen : us.length = ms.length) (hndu : (r :: us.map (·.1)).Nodup)
    (hju : us[j]? = some uj) (hjm : ms[j]? = some Br.merging)
    (hone : ∀ j' m', ms[j']? = some m' → j' ≠ j → ∃ a, m' = Br.single a)
    (hfu : OMap.lookup mu x.forkUids = some r)
    (hhx : ((OMap.lookup (f, r) s.r.hx).getD {}).childHeadUids = us.map (·.1))
    (hleaf : ∀ c ∈ us.map (·.1), ((OMap.lookup (f, c) s.r.hx).getD {}).childHeadUids = [])
    (hmu : mu ∉ us.map (·.1)) (hfp : fp ≠ pe + 1) :
    ∃ s' i' x', slide (fuel + 4) f uj.1 s = .ok [(f, r)] s' ∧ FlowAt s' f i' x' cfg ∧ x'.ctxOwner = x.ctxOwner ∧
      hview i' = [(r, pe + 1, HeadStatus.active)] ∧ s'.r.nextUid = s.r.nextUid ∧ i'.status = i.status ∧ s'.r.cleared = s.r.cleared ∧
      (∃ y', OMap.lookup (f, r) s'.r.hx = some y' ∧ y'.catchLabels = ((OMap.lookup (f, uj.1) s.r.hx).getD {}).catchLabels) ∧
      s'.r.queue = s.r.queue := by
  have hndv : ((hview i).map (·.1)).Nodup := by
    rw [hv, List.map_cons, renderB_fst _ _ _ hlen]; exact hndu
  -- the merging head and the forking head
  have hmem_h : (uj.1, pe + 1, HeadStatus.merging) ∈ hview i := by
    rw [hv]; exact List.mem_cons_of_mem _ (mem_renderB (pe + 1) us ms j uj Br.merging hju hjm)
  obtain ⟨hd, hfh, hpos, hstat⟩ := findHead_of_mem_hview i hndv uj.1 (pe + 1) .merging hmem_h
  obtain ⟨rd, hfr, hrpos, hrstat⟩ := findHead_of_mem_hview i hndv r fp .inactive (by rw [hv]; simp)
  have hsz := C.hsize
  have H : HeadAt s f uj.1 i x cfg hd :=
    { hi := F.hi, hx := F.hx, hc := F.hc, hh := hfh, hlt := by rw [hpos]; exact hsz, hst := by rw [hstat]; decide }
  have hujmem : uj.1 ∈ us.map (·.1) := List.mem_map.2 ⟨uj, List.mem_of_getElem? hju, rfl⟩
  have hnd' := List.nodup_cons.1 hndu
  have hrh : r ≠ uj.1 := fun e => hnd'.1 (e ▸ hujmem)
  -- every child head exists; its status
  have hchild : ∀ c ∈ us.map (·.1), ∃ (j' : Nat) (u' : HUid × Nat) (m' : Br), us[j']? = some u' ∧ ms[j']? = some m' ∧ u'.1 = c := by
    intro c hc
    obtain ⟨u', hu', rfl⟩ := List.mem_map.1 hc
    obtain ⟨j', hj', hget⟩ := List.mem_iff_getElem.1 hu'
    have hj2 : j' < ms.length := by omega
    exact ⟨j', u', ms[j'], by simp [hget.symm ▸ List.getElem?_eq_getElem hj'], List.getElem?_eq_getElem hj2, rfl⟩
  have hentry : ∀ c ∈ us.map (·.1), ∀ cd, i.findHead c = some cd →
      ∃ (j' : Nat) (u' : HUid × Nat) (m' : Br), us[j']? = some u' ∧ ms[j']? = some m' ∧ u'.1 = c ∧
        (cd.pos, cd.status) = brCore u'.2 (pe + 1) m' := by
    intro c hc cd hcd
    obtain ⟨j', u', m', h1, h2, h3⟩ := hchild c hc
    refine ⟨j', u', m', h1, h2, h3, ?_⟩
    have e1 : (c, cd.pos, cd.status) ∈ hview i := mem_hview_of_findHead i c cd hcd
    have e2 : (u'.1, brCore u'.2 (pe + 1) m') ∈ hview i := by
      rw [hv]; exact List.mem_cons_of_mem _ (mem_renderB (pe + 1) us ms j' u' m' h1 h2)
    have := eq_of_mem_of_nodup_map (fun (t : HCore) => t.1) (hview i) hndv _ e1 _ e2 (by simp [h3])
    simp only [Prod.mk.injEq] at this
    exact this.2
  have huniq : ∀ j' (u' : HUid × Nat), us[j']? = some u' → u'.1 = uj.1 → j' = j := by
    intro j' u' h1 h2
    have hnu := hnd'.2
    have hj'lt : j' < us.length := by
      rcases Nat.lt_or_ge j' us.length with h | h
      · exact h
      · rw [List.getElem?_eq_none h] at h1; cases h1
    have hjlt : j < us.length := by
      rcases Nat.lt_or_ge j us.length with h | h
      · exact h
      · rw [List.getElem?_eq_none h] at hju; cases hju
    have e1 : (us.map (·.1))[j']'(by simpa using hj'lt) = u'.1 := by
      simp only [List.getElem_map]; rw [List.getElem?_eq_getElem hj'lt] at h1; cases h1; rfl
    have e2 : (us.map (·.1))[j]'(by simpa using hjlt) = uj.1 := by
      simp only [List.getElem_map]; rw [List.getElem?_eq_getElem hjlt] at hju; cases hju; rfl
    exact (List.getElem_inj hnu).1 (by rw [e1, e2, h2])
  obtain ⟨s1, i1, x1, hstep, F1, ho1, hv1, hn1⟩ := slideStep_merge_merging (fuel + 1) s f uj.1 i x cfg hd rd mu r (us.map (·.1))
    H (by rw [hpos]; exact C.hm) hstat hfu hfr hhx hleaf
    (by
      intro c hc
      obtain ⟨j', u', m', h1, h2, h3⟩ := hchild c hc
      have e2 : (u'.1, brCore u'.2 (pe + 1) m') ∈ hview i := by
        rw [hv]; exact List.mem_cons_of_mem _ (mem_renderB (pe + 1) us ms j' u' m' h1 h2)
      obtain ⟨cd, hcd, _, _⟩ := findHead_of_mem_hview i hndv u'.1 _ _ e2
      exact ⟨cd, by rw [← h3]; exact hcd⟩)
    (by
      intro c hc cd hcd
      obtain ⟨j', u', m', h1, h2, h3, h4⟩ := hentry c hc cd hcd
      constructor
      · intro hmg
        by_cases hjj : j' = j
        · subst hjj; rw [hju] at h1; cases h1; exact h3.symm
        · obtain ⟨a', hl⟩ := hone j' m' h2 hjj
          rw [hl] at h4; simp [brCore] at h4; rw [h4.2] at hmg; cases hmg
      · intro hch
        have hjj := huniq j' u' h1 (by rw [h3, hch])
        subst hjj
        rw [hjm] at h2; cases h2
        simp [brCore] at h4; exact h4.2)
    hnd'.2 hujmem hrh (by rw [hrpos, hpos]; exact hfp) hrstat hnd'.1 hmu
    (by
      intro c hc cd hcd hch
      obtain ⟨j', u', m', h1, h2, h3, h4⟩ := hentry c hc cd hcd
      have hjj : j' ≠ j := by
        intro e; subst e; rw [hju] at h1; cases h1; exact hch h3.symm
      obtain ⟨a', hl⟩ := hone j' m' h2 hjj
      rw [hl] at h4; simp [brCore] at h4; rw [h4.2]; decide)
  -- the merged head is gone: the loop of `slide` ends
  have hgone : i1.findHead uj.1 = none := by
    cases hf : i1.findHead uj.1 with
    | none => rfl
    | some cd =>
      have := mem_hview_of_findHead i1 uj.1 cd hf
      rw [hv1] at this
      have hm := (List.mem_filter.1 this).2
      simp only [Bool.not_eq_true', List.contains_eq_mem, decide_eq_false_iff_not] at hm
      exact absurd hujmem hm
  have hstep2 := slideStep_gone (fuel + 2) s1 f uj.1 i1 x1 cfg F1 hgone
  refine ⟨s1, i1, x1, ?_, F1, ho1, ?_, hn1⟩
  · simp only [slide, slideLoop, bind, EStateM.bind, hstep, hstep2, Bool.false_eq_true, if_false, if_true, pure, EStateM.pure,
      List.nil_append, List.append_nil]
  · rw [hv1, hv, hpos]
    simp only [List.map_cons, List.filter_cons, setCore, if_true]
    have hr_not : (us.map (·.1)).contains r = false := by
      simpa using hnd'.1
    simp only [hr_not, Bool.not_false, if_true]
    congr 1
    apply List.filter_eq_nil_iff.2
    intro t ht
    obtain ⟨t0, ht0, rfl⟩ := List.mem_map.1 ht
    obtain ⟨j', u', m', h1, _, h3⟩ := of_mem_renderB (pe + 1) us ms t0 ht0
    subst h3
    have hu'mem : u'.1 ∈ us.map (·.1) := List.mem_map.2 ⟨u', List.mem_of_getElem? h1, rfl⟩
    have hne : u'.1 ≠ r := fun e => hnd'.1 (e ▸ hu'mem)
    simp only [setCore, hne, if_false, Bool.not_eq_true', Bool.not_eq_false]
    simpa using hu'mem


open NemoVerif.GroupVM (p1Brs) in
/-- **One event on a pure or-group of single atoms at CoreVM level (any number of branches)**, when one branch matches: phase 1
    (`or_group_phase1`) then phase 2 (`or_branch_completes`). -/
theorem or_group_event (fuel : Nat) (s : VM) (f : FUid) (i : Inst) (x : InstX) (cfg : FlowCfg) (l mu : String) (pe fp e : Nat)
    (r : HUid) (us : List (HUid × Nat)) (brs : List Br) (j : Nat) (uj : HUid × Nat)
    (F : FlowAt s f i x cfg) (hown : x.ctxOwner = none) (C : OrShape cfg l mu pe) (S : MembersShape cfg l pe us)
    (hlen : us.length = brs.length) (hnm : noMulti brs = true) (hndu : (r :: us.map (·.1)).Nodup)
    (hv : hview i = (r, fp, HeadStatus.inactive) :: renderB (pe + 1) us brs)
    (hju : us[j]? = some uj) (hjm : (p1Brs e 0 brs).1[j]? = some Br.merging)
    (hone : ∀ j' m', (p1Brs e 0 brs).1[j']? = some m' → j' ≠ j → ∃ a, m' = Br.single a)
    (hl1 : (p1Brs e 0 brs).1.length = brs.length)
    (hfu : OMap.lookup mu x.forkUids = some r)
    (hhx : ((OMap.lookup (f, r) s.r.hx).getD {}).childHeadUids = us.map (·.1))
    (hleaf : ∀ c ∈ us.map (·.1), ((OMap.lookup (f, c) s.r.hx).getD {}).childHeadUids = [])
    (hmu : mu ∉ us.map (·.1)) (hfp : fp ≠ pe + 1) :
    ∃ s1 i1 s2 i2 x2, runMembers (fuel + 2) f (matchingB e us brs) s = .ok () s1 ∧ FlowAt s1 f i1 x cfg ∧
      hview i1 = (r, fp, HeadStatus.inactive) :: renderB (pe + 1) us (p1Brs e 0 brs).1 ∧
      slide (fuel + 4) f uj.1 s1 = .ok [(f, r)] s2 ∧ FlowAt s2 f i2 x2 cfg ∧ x2.ctxOwner = x.ctxOwner ∧
      hview i2 = [(r, pe + 1, HeadStatus.active)] := by
  obtain ⟨s1, i1, hrun, F1, hr1, hv1, _⟩ := or_group_phase1 fuel s f i x cfg l mu pe e [(r, fp, HeadStatus.inactive)] us brs
    F hown C S hlen hnm (by simpa using hndu) (by simpa using hv)
  obtain ⟨s2, i2, x2, hsl, F2, ho2, hv2, _⟩ := or_branch_completes fuel s1 f i1 x cfg l mu pe fp r us (p1Brs e 0 brs).1 j uj
    F1 C (by simpa using hv1) (by rw [hl1]; exact hlen) hndu hju hjm hone hfu (by rw [hr1]; exact hhx) (by rw [hr1]; exact hleaf) hmu hfp
  exact ⟨s1, i1, s2, i2, x2, hrun, F1, by simpa using hv1, hsl, F2, ho2, hv2⟩

end

end NemoVerif.CoreVM
