/-
  C06 — the repaired recursion (`Models/LifetimeV.lean`, fixes/C06-activation-cycle.diff) terminates on EVERY
  hierarchy, cyclic `child_flow_uids` included: `abortFlowV_no_fuel`.
  Measure `mu s` = #(instances in the iteration order that are not yet in `in_progress`) + #(instances with
  `activated > 0`); both components only shrink inside the recursion (`After`), every nested call is issued after
  the caller either entered `in_progress` or brought its own reference count from > 0 to 0.
-/
import NemoVerif.Lemmas.LifetimeGen
namespace NemoVerif.Lifetime

/-! ### `busy` is not touched by the as-is pieces -/

@[simp] theorem setFlow_busy (s u f) : (setFlow s u f).busy = s.busy := rfl
@[simp] theorem setAction_busy (s a x) : (setAction s a x).busy = s.busy := rfl
@[simp] theorem push_busy (s e) : (push s e).busy = s.busy := rfl
@[simp] theorem pushLeft_busy (s e) : (pushLeft s e).busy = s.busy := rfl
@[simp] theorem emit_busy (s e) : (emit s e).busy = s.busy := rfl
@[simp] theorem modFlow_busy (s u g) : (modFlow s u g).busy = s.busy := by
  unfold modFlow; split <;> rfl

theorem updActs_busy (e : AEv) : ∀ (l : List Nat) (s : State), (updActs e s l).busy = s.busy
  | [], s => rfl
  | a :: as, s => by
    simp only [updActs]
    split
    · split
      · rw [updActs_busy e as]; rfl
      · exact updActs_busy e as s
    · exact updActs_busy e as s

theorem updFlows_busy (e : AEv) : ∀ (l : List Nat) (s : State), (updFlows e s l).busy = s.busy
  | [], s => rfl
  | u :: us, s => by
    simp only [updFlows]
    split
    · split
      · rw [updFlows_busy e us, updActs_busy]
      · exact updFlows_busy e us s
    · exact updFlows_busy e us s

theorem stopAction1_busy (s : State) (a : Nat) (t : State) (h : stopAction1 s a = .ok t) : t.busy = s.busy := by
  unfold stopAction1 at h
  split at h
  · cases h
  · split at h
    · dsimp only at h
      split at h
      · cases h
        unfold generateUmim updateActionStatusByEvent
        rw [updFlows_busy]; rfl
      · cases h; rfl
    · cases h; rfl

theorem stopActions_busy : ∀ (l : List Nat) (s t : State), stopActions s l = .ok t → t.busy = s.busy
  | [], s, t, h => by simp only [stopActions] at h; cases h; rfl
  | a :: as, s, t, h => by
    simp only [stopActions] at h
    split at h
    · next s1 h1 => rw [stopActions_busy as s1 t h, stopAction1_busy s a s1 h1]
    · cases h

theorem removeFromParent_busy (s : State) (u : Nat) (s' : State) (h : removeFromParent s u = .ok s') : s'.busy = s.busy := by
  unfold removeFromParent at h
  split at h
  · cases h
  · split at h
    · split at h
      · cases h; rfl
      · split at h
        · cases h; rfl
        · split at h
          · cases h; rfl
          · cases h
    · cases h; rfl

theorem restart_busy (s : State) (u : Nat) (d : Bool) (s' : State) (h : restart s u d = .ok s') : s'.busy = s.busy := by
  unfold restart at h
  split at h
  · cases h
  · split at h
    · dsimp only at h
      split at h
      · cases h
      · cases h; simp
    · cases h; rfl

/-! ### the measure -/

def actPos (s : State) (v : Nat) : Bool :=
  match s.flows v with
  | some f => decide (0 < f.activated)
  | none => false

def isFree (s : State) (v : Nat) : Bool := !s.busy.contains v

/-- #(instances not yet in progress) + #(instances with a positive reference count) -/
def mu (s : State) : Nat := (s.order.filter (isFree s)).length + (s.order.filter (actPos s)).length

/-- every live instance is in the iteration order -/
def Dom (s : State) : Prop := ∀ v, (s.flows v).isSome = true → v ∈ s.order

theorem filter_length_mono {l : List Nat} (p p' : Nat → Bool) (h : ∀ v, p' v = true → p v = true) :
    (l.filter p').length ≤ (l.filter p).length := by
  induction l with
  | nil => simp
  | cons w l ih =>
    by_cases h1 : p' w = true
    · rw [List.filter_cons, List.filter_cons, if_pos h1, if_pos (h w h1), List.length_cons, List.length_cons]; omega
    · by_cases h2 : p w = true
      · rw [List.filter_cons, List.filter_cons, if_neg h1, if_pos h2, List.length_cons]; omega
      · rw [List.filter_cons, List.filter_cons, if_neg h1, if_neg h2]; exact ih

theorem filter_length_lt {l : List Nat} (p p' : Nat → Bool) (u : Nat) (hu : u ∈ l) (hp : p u = true) (hp' : p' u = false)
    (h : ∀ v, p' v = true → p v = true) : (l.filter p').length < (l.filter p).length := by
  induction l with
  | nil => cases hu
  | cons w l ih =>
    by_cases hw : w = u
    · subst hw
      have hn : ¬ p' w = true := by rw [hp']; simp
      have := filter_length_mono (l := l) p p' h
      rw [List.filter_cons, List.filter_cons, if_neg hn, if_pos hp, List.length_cons]; omega
    · have hu' : u ∈ l := by
        cases hu with
        | head => exact absurd rfl hw
        | tail _ h' => exact h'
      have := ih hu'
      by_cases h1 : p' w = true
      · rw [List.filter_cons, List.filter_cons, if_pos h1, if_pos (h w h1), List.length_cons, List.length_cons]; omega
      · by_cases h2 : p w = true
        · rw [List.filter_cons, List.filter_cons, if_neg h1, if_pos h2, List.length_cons]; omega
        · rw [List.filter_cons, List.filter_cons, if_neg h1, if_neg h2]; exact this

/-- `s` comes after `s0` inside the recursion: same order and domain, `in_progress` grew, no reference count rose from 0 -/
structure After (s0 s : State) : Prop where
  order : s.order = s0.order
  busy : ∀ v, s0.busy.contains v = true → s.busy.contains v = true
  act : ∀ v, actPos s v = true → actPos s0 v = true
  dom : ∀ v, (s.flows v).isSome = (s0.flows v).isSome

theorem After.refl (s : State) : After s s := ⟨rfl, fun _ h => h, fun _ h => h, fun _ => rfl⟩

theorem After.trans {s1 s2 s3 : State} (a : After s1 s2) (b : After s2 s3) : After s1 s3 :=
  ⟨b.order.trans a.order, fun v h => b.busy v (a.busy v h), fun v h => a.act v (b.act v h), fun v => (b.dom v).trans (a.dom v)⟩

theorem After.mu_le {s0 s : State} (h : After s0 s) : mu s ≤ mu s0 := by
  unfold mu
  rw [h.order]
  have h1 := filter_length_mono (l := s0.order) (isFree s0) (isFree s) (fun v hv => by
    simp only [isFree, Bool.not_eq_true'] at hv ⊢
    cases hb : s0.busy.contains v with
    | false => rfl
    | true => rw [h.busy v hb] at hv; cases hv)
  have h2 := filter_length_mono (l := s0.order) (actPos s0) (actPos s) h.act
  omega

theorem After.domOK {s0 s : State} (h : After s0 s) (hd : Dom s0) : Dom s := by
  intro v hv
  rw [h.order]; exact hd v (by rw [← h.dom]; exact hv)

/-- same order, same `busy`, same reference counts -/
def ActEq (s s' : State) : Prop :=
  s'.order = s.order ∧ s'.busy = s.busy ∧ ∀ v, (s'.flows v).map (·.activated) = (s.flows v).map (·.activated)

theorem ActEq.refl (s : State) : ActEq s s := ⟨rfl, rfl, fun _ => rfl⟩
theorem ActEq.trans {s1 s2 s3 : State} (a : ActEq s1 s2) (b : ActEq s2 s3) : ActEq s1 s3 :=
  ⟨b.1.trans a.1, b.2.1.trans a.2.1, fun v => (b.2.2 v).trans (a.2.2 v)⟩

theorem ActEq.after {s s' : State} (h : ActEq s s') : After s s' := by
  refine ⟨h.1, fun v hv => by rw [h.2.1]; exact hv, ?_, ?_⟩
  · intro v hv
    have := h.2.2 v
    unfold actPos at hv ⊢
    cases h1 : s'.flows v with
    | none => rw [h1] at hv; cases hv
    | some f' =>
      rw [h1] at hv this
      cases h2 : s.flows v with
      | none => rw [h2] at this; cases this
      | some f =>
        rw [h2] at this
        simp only [Option.map_some, Option.some.injEq] at this
        simp only [← this]; exact hv
  · intro v
    have := h.2.2 v
    cases h1 : s'.flows v <;> cases h2 : s.flows v <;> rw [h1, h2] at this <;> simp at this ⊢

theorem ActEq.of_flows_eq {s s' : State} (ho : s'.order = s.order) (hb : s'.busy = s.busy) (hf : s'.flows = s.flows) : ActEq s s' :=
  ⟨ho, hb, fun v => by rw [hf]⟩

theorem actEq_setFlow (s : State) (u : Nat) (f f' : Flow) (hf : s.flows u = some f) (ha : f'.activated = f.activated) :
    ActEq s (setFlow s u f') := by
  refine ⟨rfl, rfl, fun v => ?_⟩
  rw [setFlow_flows]; split
  · next e => subst e; rw [hf]; simp [ha]
  · rfl

theorem actEq_modFlow (s : State) (u : Nat) (g : Flow → Flow) (hg : ∀ f, (g f).activated = f.activated) : ActEq s (modFlow s u g) := by
  cases hf : s.flows u with
  | none => rw [modFlow_none _ _ _ hf]; exact ActEq.refl s
  | some f => rw [modFlow_some _ _ _ _ hf]; exact actEq_setFlow s u f (g f) hf (hg f)

theorem removeFromParent_order' (s : State) (u : Nat) (s' : State) (h : removeFromParent s u = .ok s') : s'.order = s.order := by
  unfold removeFromParent at h
  split at h
  · cases h
  · split at h
    · split at h
      · cases h; rfl
      · split at h
        · cases h; rfl
        · split at h
          · cases h; rfl
          · cases h
    · cases h; rfl

theorem removeFromParent_actEq (s : State) (u : Nat) (s' : State) (h : removeFromParent s u = .ok s') : ActEq s s' := by
  refine ⟨removeFromParent_order' s u s' h, removeFromParent_busy s u s' h, fun v => ?_⟩
  rcases (removeFromParent_flows s u s' h).2.2.2 v with e | ⟨pf, e1, e2⟩
  · rw [e]
  · rw [e1, e2]; rfl

theorem restart_actEq (s : State) (u : Nat) (d : Bool) (s' : State) (h : restart s u d = .ok s') : ActEq s s' := by
  refine ⟨(restart_frame s u d s' h).2.2, restart_busy s u d s' h, fun v => ?_⟩
  obtain ⟨f, hf, h1 | h1⟩ := restart_spec s u d s' h
  · obtain ⟨_, _, _, _, hu, hne⟩ := h1
    by_cases hv : v = u
    · subst hv; rw [hu, hf]; rfl
    · rw [hne v hv]
  · rw [h1.2]

theorem stopActions_actEq (s : State) (l : List Nat) (s' : State) (h : stopActions s l = .ok s') : ActEq s s' :=
  ActEq.of_flows_eq (stopActions_frame l s s' h).2.2 (stopActions_busy l s s' h) (stopActions_frame l s s' h).1

theorem abortTail_actEq (s : State) (u : Nat) (d : Bool) (s' : State) (h : abortTail s u d = .ok s') : ActEq s s' := by
  unfold abortTail at h
  split at h
  · cases h
  · split at h
    · cases h
    · next s2 h2 =>
      dsimp only at h
      split at h
      · cases h
      · next s4 h4 =>
        have k2 := stopActions_actEq _ _ _ h2
        have k3 := actEq_modFlow s2 u (fun f => { f with heads := 0 }) (fun _ => rfl)
        have k4 := removeFromParent_actEq _ _ _ h4
        have k5 := actEq_modFlow s4 u (fun f => { f with status := .stopped }) (fun _ => rfl)
        have k6 : ActEq (modFlow s4 u fun f => { f with status := .stopped })
            (push (modFlow s4 u fun f => { f with status := .stopped }) (.flowFailed u)) := ⟨rfl, rfl, fun _ => rfl⟩
        exact ((((k2.trans k3).trans k4).trans k5).trans k6).trans (restart_actEq _ _ _ _ h)

theorem finishTail_actEq (s : State) (u : Nat) (d : Bool) (s' : State) (h : finishTail s u d = .ok s') : ActEq s s' := by
  unfold finishTail at h
  split at h
  · cases h
  · split at h
    · cases h
    · next s2 h2 =>
      dsimp only at h
      have k2 := stopActions_actEq _ _ _ h2
      have k3 := actEq_modFlow s2 u (fun f => { f with heads := 0 }) (fun _ => rfl)
      split at h
      · cases h
        exact (k2.trans k3).trans (actEq_modFlow _ u (fun f => { f with heads := 1, status := .waiting }) (fun _ => rfl))
      · split at h
        · cases h
        · next s5 h5 =>
          have k4 := actEq_modFlow (modFlow s2 u fun f => { f with heads := 0 }) u (fun f => { f with status := .finished }) (fun _ => rfl)
          have k5 := removeFromParent_actEq _ _ _ h5
          have k6 : ActEq s5 (push s5 (.flowFinished u)) := ⟨rfl, rfl, fun _ => rfl⟩
          exact ((((k2.trans k3).trans k4).trans k5).trans k6).trans (restart_actEq _ _ _ _ h)

theorem after_decr (s : State) (u : Nat) (f : Flow) (hf : s.flows u = some f) :
    After s (setFlow s u { f with activated := f.activated - 1 }) := by
  refine ⟨rfl, fun _ h => h, ?_, ?_⟩
  · intro v hv
    by_cases e : v = u
    · subst e
      simp only [actPos, setFlow_flows_same, decide_eq_true_eq] at hv
      simp only [actPos, hf, decide_eq_true_eq]; omega
    · simp only [actPos, setFlow_flows_ne _ _ _ _ e] at hv
      simp only [actPos]; exact hv
  · intro v
    rw [setFlow_flows]; split
    · next e => subst e; rw [hf]; rfl
    · rfl

theorem after_zero (s : State) (c : Nat) : After s (modFlow s c fun f => { f with activated := 0 }) := by
  cases hf : s.flows c with
  | none => rw [modFlow_none _ _ _ hf]; exact After.refl s
  | some f =>
    rw [modFlow_some _ _ _ _ hf]
    refine ⟨rfl, fun _ h => h, ?_, ?_⟩
    · intro v hv
      by_cases e : v = c
      · subst e
        simp [actPos, setFlow_flows_same] at hv
      · simp only [actPos, setFlow_flows_ne _ _ _ _ e] at hv
        simp only [actPos]; exact hv
    · intro v
      rw [setFlow_flows]; split
      · next e => subst e; rw [hf]; rfl
      · rfl

theorem markNoRestart_actEq (s : State) (u : Nat) : ActEq s (markNoRestart s u) := by
  unfold markNoRestart
  split
  · next f hf =>
    split
    · exact actEq_setFlow s u f { f with nis := true } hf rfl
    · exact ActEq.refl s
  · exact ActEq.refl s

theorem after_markBusy (s : State) (u : Nat) : After s (markBusy s u) :=
  ⟨rfl, fun v h => by simp only [markBusy, List.contains_cons, Bool.or_eq_true]; exact Or.inr h, fun _ h => h, fun _ => rfl⟩

/-- `After s0` is preserved by every piece of the recursion -/
theorem after_closed (s0 : State) : Closed (After s0) where
  decr := fun s u f hp hf => hp.trans (after_decr s u f hf)
  zero := fun s c hp => hp.trans (after_zero s c)
  mark := fun s u hp => hp.trans (markNoRestart_actEq s u).after
  abortTail := fun s u d s' hp h => hp.trans (abortTail_actEq s u d s' h).after
  finishTail := fun s u d s' hp h => hp.trans (finishTail_actEq s u d s' h).after
  scopes := fun s u f sc hp hf => hp.trans (actEq_setFlow s u f { f with scopes := sc } hf rfl).after
  stopActions := fun s l s' hp h => hp.trans (stopActions_actEq s l s' h).after

theorem abortFlowV_after (n : Nat) (s : State) (u : Nat) (d : Bool) (s' : State) (h : abortFlowV n s u d = .ok s') : After s s' :=
  abortFlowV_closed (after_closed s) (fun t v hp => hp.trans (after_markBusy t v)) n s u d s' (After.refl s) h

/-! ### no fuel exhaustion -/

section
variable (n : Nat) (rec : State → Nat → Except Err State)
  (hnf : ∀ s c, Dom s → mu s < n → rec s c ≠ .error .fuel)
  (hafter : ∀ s c s', rec s c = .ok s' → After s s')

include hnf hafter in
theorem childLoop_nf : ∀ (l : List Nat) (s : State), Dom s → mu s < n → childLoop rec s l ≠ .error .fuel
  | [], s, _, _ => by simp [childLoop]
  | c :: cs, s, hd, hm => by
    simp only [childLoop]
    split
    · exact childLoop_nf cs s hd hm
    · split
      · split
        · next s1 h1 =>
          have ha := hafter s c s1 h1
          exact childLoop_nf cs s1 (ha.domOK hd) (Nat.lt_of_le_of_lt ha.mu_le hm)
        · next e he => intro h; cases h; exact hnf s c hd hm he
      · exact childLoop_nf cs s hd hm

include hnf hafter in
theorem deactLoop_nf (fid : Nat) : ∀ (l : List Nat) (s : State), Dom s → mu s < n → deactLoop rec fid s l ≠ .error .fuel
  | [], s, _, _ => by simp [deactLoop]
  | c :: cs, s, hd, hm => by
    simp only [deactLoop]
    split
    · simp
    · split
      · split
        · next s1 h1 =>
          have ha := (hafter s c s1 h1).trans (after_zero s1 c)
          exact deactLoop_nf fid cs _ (ha.domOK hd) (Nat.lt_of_le_of_lt ha.mu_le hm)
        · next e he => intro h; cases h; exact hnf s c hd hm he
      · exact deactLoop_nf fid cs s hd hm

end

theorem isRefActivated_pos (s : State) (f : Flow) (h : isRefActivated s f = .ok true) : 0 < f.activated := by
  unfold isRefActivated at h
  split at h
  · next hp => simpa using hp
  · cases h

theorem mu_decr_lt (s : State) (u : Nat) (f : Flow) (hd : Dom s) (hf : s.flows u = some f) (hpos : 0 < f.activated)
    (hz : f.activated - 1 = 0) : mu (setFlow s u { f with activated := f.activated - 1 }) < mu s := by
  have ha := after_decr s u f hf
  unfold mu
  rw [setFlow_order]
  have h1 := filter_length_mono (l := s.order) (isFree s) (isFree (setFlow s u { f with activated := f.activated - 1 }))
    (fun v hv => hv)
  have h2 := filter_length_lt (l := s.order) (actPos s) (actPos (setFlow s u { f with activated := f.activated - 1 })) u
    (hd u (by rw [hf]; rfl)) (by simp [actPos, hf, hpos]) (by simp [actPos, hz]) ha.act
  omega

theorem mu_markBusy_lt (s : State) (u : Nat) (hd : Dom s) (hl : (s.flows u).isSome = true) (hb : s.busy.contains u = false) :
    mu (markBusy s u) < mu s := by
  unfold mu
  have h1 := filter_length_lt (l := s.order) (isFree s) (isFree (markBusy s u)) u (hd u hl)
    (by simp only [isFree, hb]; rfl) (by simp [isFree, markBusy])
    (fun v hv => by
      simp only [isFree, markBusy, List.contains_cons, Bool.not_eq_true', Bool.or_eq_false_iff] at hv ⊢
      exact hv.2)
  have h2 := filter_length_mono (l := s.order) (actPos s) (actPos (markBusy s u)) (fun v hv => hv)
  show ((markBusy s u).order.filter _).length + ((markBusy s u).order.filter _).length < _
  have : (markBusy s u).order = s.order := rfl
  rw [this]
  omega

theorem abortTail_no_fuel (s : State) (u : Nat) (d : Bool) : abortTail s u d ≠ .error .fuel := by
  unfold abortTail
  split
  · simp
  · split
    · next e he => intro h; cases h; exact stopActions_no_fuel _ _ he
    · dsimp only
      split
      · next e he => intro h; cases h; exact removeFromParent_no_fuel _ _ he
      · exact restart_no_fuel _ _ _

theorem finishTail_no_fuel (s : State) (u : Nat) (d : Bool) : finishTail s u d ≠ .error .fuel := by
  unfold finishTail
  split
  · simp
  · split
    · next e he => intro h; cases h; exact stopActions_no_fuel _ _ he
    · dsimp only
      split
      · simp
      · split
        · next e he => intro h; cases h; exact removeFromParent_no_fuel _ _ he
        · exact restart_no_fuel _ _ _

/-- the deactivation block at level `n + 1` (nested calls at level `n`) -/
theorem deactivatePhase_nf (n : Nat) (rec : State → Nat → Except Err State)
    (hnf : ∀ s c, Dom s → mu s < n → rec s c ≠ .error .fuel) (hafter : ∀ s c s', rec s c = .ok s' → After s s')
    (s : State) (u : Nat) (d : Bool) (hd : Dom s) (hm : mu s < n + 1) : deactivatePhase rec s u d ≠ .error .fuel := by
  unfold deactivatePhase
  split
  · simp
  · next f hf =>
    split
    · next e he =>
      intro h; cases h
      split at he
      · exact isRefActivated_no_fuel s f he
      · cases he
    · simp
    · next hr =>
      have hpos : 0 < f.activated := by
        split at hr
        · exact isRefActivated_pos s f hr
        · cases hr
      dsimp only
      split
      · next hz =>
        have hz' : f.activated - 1 = 0 := by simpa using hz
        have hlt := mu_decr_lt s u f hd hf hpos hz'
        have hd1 : Dom (setFlow s u { f with activated := f.activated - 1 }) := (after_decr s u f hf).domOK hd
        split
        · simp
        · next e he =>
          intro h; cases h
          exact deactLoop_nf n rec hnf hafter f.flowId f.children _ hd1 (by omega) he
      · simp

theorem abortBody_nf (n : Nat) (rec : State → Nat → Except Err State)
    (hnf : ∀ s c, Dom s → mu s < n → rec s c ≠ .error .fuel) (hafter : ∀ s c s', rec s c = .ok s' → After s s')
    (s : State) (u : Nat) (d : Bool) (hd : Dom s) (hm : mu s < n) : abortBody rec s u d ≠ .error .fuel := by
  rw [abortBody_eq]
  split
  · simp
  · split
    · simp
    · have ha := (markNoRestart_actEq s u).after
      split
      · next e he =>
        intro h; cases h
        exact childLoop_nf n rec hnf hafter _ _ (ha.domOK hd) (Nat.lt_of_le_of_lt ha.mu_le hm) he
      · exact abortTail_no_fuel _ _ _

theorem finishBody_nf (n : Nat) (rec : State → Nat → Except Err State)
    (hnf : ∀ s c, Dom s → mu s < n → rec s c ≠ .error .fuel) (hafter : ∀ s c s', rec s c = .ok s' → After s s')
    (s : State) (u : Nat) (d : Bool) (hd : Dom s) (hm : mu s < n) : finishBody rec s u d ≠ .error .fuel := by
  rw [finishBody_eq]
  split
  · simp
  · split
    · simp
    · split
      · next e he =>
        intro h; cases h
        exact childLoop_nf n rec hnf hafter _ _ hd hm he
      · exact finishTail_no_fuel _ _ _

/-- **termination of the repaired recursion**: for EVERY state (cyclic child graphs included) fuel above the measure
    is never exhausted -/
theorem abortFlowV_no_fuel : ∀ (n : Nat) (s : State) (u : Nat) (d : Bool), Dom s → mu s < n → abortFlowV n s u d ≠ .error .fuel
  | 0, s, u, d, _, hm => by omega
  | n + 1, s, u, d, hd, hm => by
    have hnf : ∀ s c, Dom s → mu s < n → abortFlowV n s c true ≠ .error .fuel := fun s c hd hm => abortFlowV_no_fuel n s c true hd hm
    have hafter : ∀ s c s', abortFlowV n s c true = .ok s' → After s s' := fun s c s' h => abortFlowV_after n s c true s' h
    simp only [abortFlowV]
    split
    · next e he => intro h; cases h; exact deactivatePhase_nf n _ hnf hafter s u d hd hm he
    · simp
    · next s1 h1 =>
      have ha : After s s1 :=
        deactivatePhase_closedR (after_closed s) _ (fun t c t' hp h => hp.trans (hafter t c t' h)) s u d s1 false (After.refl s) h1
      have hd1 := ha.domOK hd
      have hm1 : mu s1 < n + 1 := Nat.lt_of_le_of_lt ha.mu_le hm
      unfold abortBodyV
      split
      · simp
      · next f hf =>
        split
        · simp
        · split
          · simp
          · next hb =>
            have hlt := mu_markBusy_lt s1 u hd1 (by rw [hf]; rfl) (by simpa using hb)
            exact abortBody_nf n _ hnf hafter _ u d ((after_markBusy s1 u).domOK hd1) (by omega)

theorem mu_le_twice (s : State) : mu s ≤ 2 * s.order.length := by
  unfold mu
  have h1 := List.length_filter_le (isFree s) s.order
  have h2 := List.length_filter_le (actPos s) s.order
  omega

/-- fuel `2·#instances + 1` suffices for an outermost repaired `_abort_flow`, whatever the hierarchy looks like -/
theorem abortTopV_fuel_sufficient (n : Nat) (s : State) (u : Nat) (d : Bool) (hd : Dom s) (hn : 2 * s.order.length < n) :
    abortTopV n s u d ≠ .error .fuel := by
  unfold abortTopV
  refine abortFlowV_no_fuel n _ u d (fun v hv => hd v hv) ?_
  have := mu_le_twice { s with busy := [] }
  exact Nat.lt_of_le_of_lt this hn

theorem finishFlowV_fuel_sufficient (n : Nat) (s : State) (u : Nat) (d : Bool) (hd : Dom s) (hn : 2 * s.order.length < n) :
    finishFlowV n s u d ≠ .error .fuel := by
  have hnf : ∀ s c, Dom s → mu s < n → abortFlowV n s c true ≠ .error .fuel := fun s c hd hm => abortFlowV_no_fuel n s c true hd hm
  have hafter : ∀ s c s', abortFlowV n s c true = .ok s' → After s s' := fun s c s' h => abortFlowV_after n s c true s' h
  have hm0 : mu { s with busy := [u] } < n := Nat.lt_of_le_of_lt (mu_le_twice { s with busy := [u] }) hn
  have hd0 : Dom { s with busy := [u] } := fun v hv => hd v hv
  unfold finishFlowV
  split
  · next e he => intro h; cases h; exact deactivatePhase_nf n _ hnf hafter _ u d hd0 (by omega) he
  · simp
  · next s1 h1 =>
    have ha : After { s with busy := [u] } s1 :=
      deactivatePhase_closedR (after_closed _) _ (fun t c t' hp h => hp.trans (hafter t c t' h)) _ u d s1 false (After.refl _) h1
    exact finishBody_nf n _ hnf hafter s1 u d (ha.domOK hd0) (Nat.lt_of_le_of_lt ha.mu_le hm0)

/-! ### invariants that only concern actions and outgoing events -/

theorem stopActions_of_step (P : State → Prop) (hstop : ∀ s a t, P s → stopAction1 s a = .ok t → P t) :
    ∀ (l : List Nat) (s s' : State), P s → stopActions s l = .ok s' → P s'
  | [], s, s', hp, h => by simp only [stopActions] at h; cases h; exact hp
  | a :: as, s, s', hp, h => by
    simp only [stopActions] at h
    split at h
    · next s1 h1 => exact stopActions_of_step P hstop as s1 s' (hstop s a s1 hp h1) h
    · cases h

/-- a predicate that only reads the action table and the `Stop` counts, and is preserved by one iteration of the
    stop-actions loop, is preserved by every piece of the recursion -/
theorem closed_of_actionOnly (P : State → Prop)
    (hframe : ∀ s s', P s → s'.actions = s.actions → (∀ a, stops a s'.out = stops a s.out) → P s')
    (hstop : ∀ s a t, P s → stopAction1 s a = .ok t → P t) : Closed P ∧ ClosedBusy P := by
  have hrm : ∀ s u s', P s → removeFromParent s u = .ok s' → P s' := fun s u s' hp h =>
    hframe s s' hp (removeFromParent_flows s u s' h).2.1 (fun _ => by rw [(removeFromParent_flows s u s' h).2.2.1])
  have hrs : ∀ s u d s', P s → restart s u d = .ok s' → P s' := fun s u d s' hp h =>
    hframe s s' hp (restart_frame s u d s' h).1 (fun _ => by rw [(restart_frame s u d s' h).2.1])
  have hmod : ∀ s u g, P s → P (modFlow s u g) := fun s u g hp =>
    hframe s _ hp (modFlow_actions s u g) (fun _ => by rw [modFlow_out])
  refine ⟨⟨?_, ?_, ?_, ?_, ?_, ?_, ?_⟩, ⟨?_, ?_⟩⟩
  · exact fun s u f hp _ => hframe s _ hp rfl (fun _ => rfl)
  · exact fun s c hp => hmod s c _ hp
  · exact fun s u hp => hframe s _ hp (markNoRestart_frame s u).1 (fun _ => by rw [(markNoRestart_frame s u).2.1])
  · intro s u d s' hp h
    unfold abortTail at h
    split at h
    · cases h
    · split at h
      · cases h
      · next s2 h2 =>
        dsimp only at h
        split at h
        · cases h
        · next s4 h4 =>
          have p2 := stopActions_of_step P hstop _ _ _ hp h2
          have p4 := hrm _ _ _ (hmod s2 u _ p2) h4
          have p6 : P (push (modFlow s4 u fun f => { f with status := .stopped }) (.flowFailed u)) :=
            hframe _ _ (hmod s4 u _ p4) rfl (fun _ => rfl)
          exact hrs _ _ _ _ p6 h
  · intro s u d s' hp h
    unfold finishTail at h
    split at h
    · cases h
    · split at h
      · cases h
      · next s2 h2 =>
        dsimp only at h
        have p2 := stopActions_of_step P hstop _ _ _ hp h2
        have p3 := hmod s2 u (fun f => { f with heads := 0 }) p2
        split at h
        · cases h; exact hmod _ u _ p3
        · split at h
          · cases h
          · next s5 h5 =>
            have p5 := hrm _ _ _ (hmod _ u (fun f => { f with status := .finished }) p3) h5
            have p6 : P (push s5 (.flowFinished u)) := hframe _ _ p5 rfl (fun _ => rfl)
            exact hrs _ _ _ _ p6 h
  · exact fun s u f sc hp _ => hframe s _ hp rfl (fun _ => rfl)
  · exact fun s l s' hp h => stopActions_of_step P hstop l s s' hp h
  · exact fun s u hp => hframe s _ hp rfl (fun _ => rfl)
  · exact fun s l hp => hframe s _ hp rfl (fun _ => rfl)

theorem actInv_closed : Closed ActInv ∧ ClosedBusy ActInv :=
  closed_of_actionOnly ActInv (fun _ _ hp ha ho => hp.congr ha ho) (fun _ _ _ hp h => stopAction1_actInv hp h)

theorem stopInv_closed : Closed StopInv ∧ ClosedBusy StopInv :=
  closed_of_actionOnly StopInv (fun _ _ hp ha ho => hp.of_frame ha ho) (fun _ _ _ hp h => stopAction1_StopInv hp h)

/-- the action part of the invariant is preserved by every operation of `applyOp` (no hypothesis on the hierarchy) -/
theorem ActInv.step (s : State) (op : IOp) (hi : ActInv s) : ActInv (applyOp s op) := by
  cases op with
  | abort n u d =>
    simp only [applyOp]
    cases h : abortFlow n s u d with
    | error e => exact hi
    | ok s' => exact (abortFlow_steps n s u d s' h).actInv hi
  | finish n u d =>
    simp only [applyOp]
    cases h : finishFlow n s u d with
    | error e => exact hi
    | ok s' => exact (finishFlow_steps n s u d s' h).actInv hi
  | endScope n u nm =>
    simp only [applyOp]
    cases h : endScope n s u nm with
    | error e => exact hi
    | ok s' => exact (endScope_steps n s u nm s' h).actInv hi
  | startChild c fid p k =>
    simp only [applyOp]
    split
    · split
      · exact hi.congr rfl (fun _ => rfl)
      · exact hi
    · exact hi
  | reactivate fid known act hasInst source pm =>
    simp only [applyOp]
    split
    · next s' r h =>
      rcases processStartFlow_effect s fid known act hasInst source _ s' r h with e | ⟨_, _, _, _, _, _, _, _, e⟩
      · rw [e]; exact hi
      · rw [e]; exact hi.congr (by simp) (fun _ => by simp)
    · exact hi
  | status u st =>
    simp only [applyOp]
    split
    · split
      · exact hi.congr rfl (fun _ => rfl)
      · exact hi
    · exact hi
  | newAction u a =>
    simp only [applyOp]
    split
    · next f hf ha =>
      split
      · refine ⟨?_, ?_⟩
        · intro b y hy hr hs
          by_cases hb : b = a
          · subst hb; rw [setAction_actions_same] at hy; cases hy; simp [AStatus.running] at hr
          · rw [setAction_actions_ne _ _ _ _ hb] at hy; exact hi.act1 b y hy hr hs
        · intro b y hy hs
          by_cases hb : b = a
          · subst hb; rw [setAction_actions_same] at hy; cases hy; cases hs
          · rw [setAction_actions_ne _ _ _ _ hb] at hy; exact hi.act0 b y hy hs
      · exact hi
    · exact hi
  | startAction a =>
    simp only [applyOp]
    split
    · split
      · exact startAction_actInv hi a
      · exact hi
    · exact hi
  | coWin loser a b =>
    simp only [applyOp]
    split
    · next f x hf hx =>
      split
      · refine ⟨?_, ?_⟩
        · intro v y hy hr hs
          simp only at hy
          split at hy
          · cases hy
          · by_cases hva : v = a
            · subst hva
              rw [setAction_actions_same] at hy; cases hy
              have := hi.act1 v x hx hr hs
              simp; omega
            · rw [setAction_actions_ne _ _ _ _ hva] at hy; exact hi.act1 v y hy hr hs
        · intro v y hy hs
          simp only at hy
          split at hy
          · cases hy
          · by_cases hva : v = a
            · subst hva
              rw [setAction_actions_same] at hy; cases hy
              exact hi.act0 v x hx hs
            · rw [setAction_actions_ne _ _ _ _ hva] at hy; exact hi.act0 v y hy hs
      · exact hi
    · exact hi
  | event e =>
    by_cases hg : eventOk s e = true
    · have happ : applyOp s (.event e) = updateActionStatusByEvent s e := by simp only [applyOp, hg, if_true]
      rw [happ]
      simp only [eventOk, Bool.and_eq_true] at hg
      refine update_actInv hi e hg.1 ?_
      intro x hx
      have := hg.2
      rw [hx] at this
      simpa using this
    · have happ : applyOp s (.event e) = s := by simp only [applyOp, hg]; rfl
      rw [happ]; exact hi
  | label u =>
    simp only [applyOp]
    cases h : labelRestart s u with
    | error e => exact hi
    | ok s' =>
      have hfr : s'.actions = s.actions ∧ s'.out = s.out := by
        unfold labelRestart at h
        split at h
        · cases h
        · split at h
          · cases h; exact ⟨rfl, rfl⟩
          · cases h; simp
      show ActInv s'
      exact hi.congr hfr.1 (fun _ => by rw [hfr.2])
  | frame u heads scopes =>
    simp only [applyOp]
    split
    · exact hi.congr rfl (fun _ => rfl)
    · exact hi
  | noRestart u =>
    simp only [applyOp]
    exact hi.congr (by simp) (fun _ => by simp)

end NemoVerif.Lifetime
