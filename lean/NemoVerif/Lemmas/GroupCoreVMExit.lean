/-
  C07 (T2') — the EXIT segment over CoreVM's `slide`: behind the group's last `MergeHeads` come `CatchPatternFailure(None)` and the element
  after the group statement (the marker `send`); `group_exit`: the forking head, advanced once more, pops the failure label and
  stops on the marker element.
-/
import NemoVerif.Lemmas.GroupCoreVMOrRun
set_option linter.unusedSimpArgs false
namespace NemoVerif.CoreVM
open NemoVerif NemoVerif.CoreIndex

theorem evalArgs_nil (f : FUid) (s : VM) : evalArgs f [] s = .ok [] s := by
  simp only [evalArgs, forIn, List.forIn_nil, bind, EStateM.bind, pure, EStateM.pure]
  rfl

theorem getEvent_plain_name (f : FUid) (spec : Spec) (n : String) (hp : PlainSpec spec n) (hargs : spec.args = []) (s : VM) :
    ∃ e, getEvent f spec false s = .ok e s ∧ e.name = n := by
  obtain ⟨h1, h2, h3⟩ := hp
  simp only [getEvent, h1, h2, h3, hargs, bind, EStateM.bind, evalArgs_nil, pure, EStateM.pure]
  split
  · exact ⟨_, rfl, rfl⟩
  · split
    · exact ⟨_, rfl, rfl⟩
    · exact ⟨_, rfl, rfl⟩

/-- `CatchPatternFailure(None)`: the innermost failure label is popped (not index-relevant) and the head moves on -/
theorem slideStep_catch_pop (fuel : Nat) (s : VM) (f : FUid) (h : HUid) (i : Inst) (x : InstX) (cfg : FlowCfg) (hd : Head)
    (H : HeadAt s f h i x cfg hd) (hel : cfg.elements[hd.pos]! = .catchFail none) (hnm : NotMatchAt cfg (hd.pos + 1))
    (hcl : ((OMap.lookup (f, h) s.r.hx).getD {}).catchLabels.isEmpty = false) :
    ∃ s1 hg, slideStep fuel f h s = .ok (false, []) s1 ∧ s1.ixs = s.ixs.apply (.setPos f h (hd.pos + 1) none) hg ∧
      s1.r.fx = s.r.fx ∧ s1.r.prog = s.r.prog ∧ s1.r.nextUid = s.r.nextUid ∧ s1.r.cleared = s.r.cleared ∧ s1.r.queue = s.r.queue := by
  have hge : decide (hd.pos ≥ cfg.elements.size) = false := by simp; exact H.hlt
  have hin : decide (hd.status = HeadStatus.inactive) = false := by simp [H.hst]
  unfold slideStep
  simp only [bind, EStateM.bind, cfgOfInst, getInstX, getInstX?, getRest, get, getThe, MonadStateOf.get, EStateM.get, pure, EStateM.pure,
    H.hx, getCfg, H.hc, getHead?, getIx, H.hi, Option.bind, H.hh, hge, hin, Bool.or_false, Bool.false_eq_true, if_false, hel,
    getHeadX, hcl, modHeadX, modifyRest, modify, modifyGet, MonadStateOf.modifyGet, EStateM.modifyGet]
  generalize ht : ({ ixs := s.ixs, r := _ } : VM) = t
  have e1 : t.ixs = s.ixs := by rw [← ht]
  have e2 : t.r.fx = s.r.fx := by rw [← ht]
  have e3 : t.r.prog = s.r.prog := by rw [← ht]
  have e4 : t.r.nextUid = s.r.nextUid := by rw [← ht]
  have e5 : t.r.cleared = s.r.cleared := by rw [← ht]
  have e6 : t.r.queue = s.r.queue := by rw [← ht]
  have Ft : FlowAt t f i x cfg := { hi := by rw [e1]; exact H.hi, hx := by rw [e2]; exact H.hx, hc := by rw [e3]; exact H.hc }
  obtain ⟨hg, hset⟩ := setHeadPos_ok t f h i x cfg hd (hd.pos + 1) Ft H.hh (by omega) hnm
  rw [hset]
  exact ⟨_, by rw [← e1]; exact hg, rfl, by simp only [e1], e2, e3, e4, e5, e6⟩

/-- `slide` stops on a `send` of an event that is not internal (the marker after the group) -/
theorem slide_at_send (fuel : Nat) (s : VM) (f : FUid) (h : HUid) (i : Inst) (x : InstX) (cfg : FlowCfg) (hd : Head)
    (spec : Spec) (n : String)
    (H : HeadAt s f h i x cfg hd) (hel : cfg.elements[hd.pos]! = .sendOp spec) (hp : PlainSpec spec n) (hargs : spec.args = [])
    (hint : internalEvents.contains n = false) :
    slide (fuel + 1) f h s = .ok [] s := by
  have hge : decide (hd.pos ≥ cfg.elements.size) = false := by simp; exact H.hlt
  have hin : decide (hd.status = HeadStatus.inactive) = false := by simp [H.hst]
  obtain ⟨e, he, hen⟩ := getEvent_plain_name f spec n hp hargs s
  have : slideStep fuel f h s = .ok (true, []) s := by
    unfold slideStep
    simp only [bind, EStateM.bind, cfgOfInst, getInstX, getInstX?, getRest, get, getThe, MonadStateOf.get, EStateM.get, pure, EStateM.pure,
      H.hx, getCfg, H.hc, getHead?, getIx, H.hi, Option.bind, H.hh, hge, hin, Bool.or_false, Bool.false_eq_true, if_false, hel, he, hen,
      hint, Bool.not_false, if_true]
  simp only [slide, slideLoop, bind, EStateM.bind, this, if_true, pure, EStateM.pure, List.append_nil]


/-- **Exit segment.**  The forking head, back ACTIVE on the group's last `MergeHeads`, is advanced (`head.position += 1; slide`): over
    `CatchPatternFailure(None)` (the group's failure label is popped) onto the element after the group statement — here the marker
    `send`, on which `slide` stops.  The element after the group is reached; only this head's position changes. -/
theorem group_exit (fuel : Nat) (s : VM) (f : FUid) (h : HUid) (i : Inst) (x : InstX) (cfg : FlowCfg) (hd : Head)
    (spec : Spec) (n : String)
    (H : HeadAt s f h i x cfg hd) (hsz : hd.pos + 2 < cfg.elements.size)
    (hc1 : cfg.elements[hd.pos + 1]! = .catchFail none) (hc2 : cfg.elements[hd.pos + 2]! = .sendOp spec)
    (hp : PlainSpec spec n) (hargs : spec.args = []) (hint : internalEvents.contains n = false)
    (hcl : ((OMap.lookup (f, h) s.r.hx).getD {}).catchLabels.isEmpty = false) :
    ∃ s' i', advanceMember (fuel + 2) f h s = .ok [] s' ∧ FlowAt s' f i' x cfg ∧ hview i' = (hview i).map (setPosCore h (hd.pos + 2)) ∧
      s'.r.cleared = s.r.cleared ∧ s'.r.queue = s.r.queue := by
  have hnm1 : NotMatchAt cfg (hd.pos + 1) := notMatchAt_of cfg (hd.pos + 1) _ (by omega) hc1 rfl
  have hnm2 : NotMatchAt cfg (hd.pos + 2) := notMatchAt_of cfg (hd.pos + 2) _ hsz hc2 rfl
  obtain ⟨hg0, h0⟩ := setHeadPos_ok s f h i x cfg hd (hd.pos + 1) H.toFlowAt H.hh (by omega) hnm1
  have H0 := headAt_setPos s f h i x cfg hd (hd.pos + 1) H (by omega) (by omega) hg0
  obtain ⟨s1, hg1, hstep1, hix1, hfx1, hprog1, _, hclr1, hq1⟩ := slideStep_catch_pop (fuel + 1) _ f h _ x cfg _ H0 hc1 hnm2 hcl
  have hi1 := findInst_setPos _ f h _ { hd with pos := hd.pos + 1, elem := none } (hd.pos + 1 + 1) none H0.hi H0.hh (by simp)
  have H1 : HeadAt s1 f h ((i.modifyHead h fun y => { y with pos := hd.pos + 1, elem := none }).modifyHead h
      fun y => { y with pos := hd.pos + 1 + 1, elem := none }) x cfg { hd with pos := hd.pos + 1 + 1, elem := none } :=
    { hi := by rw [hix1]; exact hi1, hx := by rw [hfx1]; exact H.hx, hc := by rw [hprog1]; exact H.hc,
      hh := findHead_moved (i.modifyHead h fun y => { y with pos := hd.pos + 1, elem := none }) h
        { hd with pos := hd.pos + 1, elem := none } (fun y => { y with pos := hd.pos + 1 + 1, elem := none }) (fun _ => rfl) H0.hh,
      hlt := by simpa using hsz, hst := H.hst }
  have hsl := slide_at_send fuel s1 f h _ x cfg _ spec n H1 hc2 hp hargs hint
  refine ⟨s1, _, ?_, H1.toFlowAt, ?_, hclr1, hq1⟩
  · simp only [advanceMember, bind, EStateM.bind, getHead?, getIx, get, getThe, MonadStateOf.get, EStateM.get, pure, EStateM.pure,
      H.hi, Option.bind, H.hh, h0, slide, slideLoop, hstep1, Bool.false_eq_true, if_false, List.nil_append]
    have := hsl
    simp only [slide] at this
    exact this
  · rw [hview_setPos, hview_setPos, List.map_map]
    apply List.map_congr_left
    intro t _
    simp only [Function.comp, setPosCore_comp]

end NemoVerif.CoreVM
