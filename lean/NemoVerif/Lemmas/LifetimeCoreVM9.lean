/-
  C06 / refinement CoreVM → Lifetime, part 9: the refined CoreVM steps packaged as ONE relation, and the hierarchy part of the
  lifetime invariant along every sequence of such steps.

  `RefinedOpStep ν φ vm vm'` : `vm'` is reached from `vm` by a normally terminating run of one of the CoreVM functions that are refined
  to operations of the Lifetime machine (outermost `abortFlow` / `finishFlow`; the `EndScope`, `BeginScope`, label and effect-free
  elements of `slideStep`; the processing of `StopFlow` / `FinishFlow` events in all their forms and of a `StartFlow` that does not
  create an instance; `setFlowStatus`; `updateActionStatusByEvent`), under the explicit hypotheses of the respective refinement theorem.
  `RefinedStep` : a `RefinedOpStep`, or `addNewFlowInstance` (= `createInst`), or `startFlow` of an isolated instance (= `linkInst`);
  the Lifetime machine has creation + `_start_flow` as ONE operation (`IOp.startChild`).
  `refinedStep_is_op`            : every such step IS a sequence of covered operations / a creation on the abstraction (up to `cs`).
  `corevm_hierarchy_invariant_partial` : `FlowInv ∧ LinkInv` of the abstraction and `WF` are preserved along every sequence of
  refined steps.  PARTIAL: the full statement (`corevm_lifetime_invariant`) would quantify over all steps of
  `CoreVM.runToCompletion`; the steps that are not refined (new-action / `Start` / conflict resolution sites, head movement in
  general) are not in the relation.
-/
import NemoVerif.Lemmas.LifetimeCoreVM8h
namespace NemoVerif.Lifetime.Refine
open NemoVerif NemoVerif.CoreVM NemoVerif.CoreIndex NemoVerif.Lifetime

variable (ν φ : String → Nat)

inductive RefinedOpStep : VM → VM → Prop
  | abort (n : Nat) (f : FUid) (sc : List Score) (d : Bool) (vm vm' : VM) :
      CoreVM.abortFlow n f sc d vm = .ok () vm' → RefinedOpStep vm vm'
  | finish (n : Nat) (f : FUid) (sc : List Score) (d : Bool) (vm vm' : VM) :
      LogInvisible n f sc → CoreVM.finishFlow n f sc d vm = .ok () vm' → RefinedOpStep vm vm'
  | endScope (fuel : Nat) (f : FUid) (h : HUid) (cfg : FlowCfg) (hd : Head) (name : String) (r : Bool × List Key) (vm vm' : VM) :
      cfgOfInst f vm = .ok cfg vm → getHead? (f, h) vm = .ok (some hd) vm →
      ¬ (hd.pos ≥ cfg.elements.size ∨ hd.status = .inactive) → cfg.elements[hd.pos]! = .endScope name →
      (∀ x, OMap.lookup f vm.r.fx = some x → (x.scopes.map (·.1)).Nodup) → NameRO f (hd.pos + 1) →
      slideStep fuel f h vm = .ok r vm' → RefinedOpStep vm vm'
  | label (fuel : Nat) (f : FUid) (h : HUid) (cfg : FlowCfg) (hd : Head) (r : Bool × List Key) (vm vm' : VM) :
      cfgOfInst f vm = .ok cfg vm → getHead? (f, h) vm = .ok (some hd) vm →
      ¬ (hd.pos ≥ cfg.elements.size ∨ hd.status = .inactive) → cfg.elements[hd.pos]! = .label "start_new_flow_instance" →
      NameRO f (hd.pos + 1) →
      slideStep fuel f h vm = .ok r vm' → RefinedOpStep vm vm'
  | newAction (fuel : Nat) (f : FUid) (h : HUid) (cfg : FlowCfg) (hd : Head) (spec : Spec) (r : Bool × List Key) (vm vm' : VM) :
      cfgOfInst f vm = .ok cfg vm → getHead? (f, h) vm = .ok (some hd) vm →
      ¬ (hd.pos ≥ cfg.elements.size ∨ hd.status = .inactive) → cfg.elements[hd.pos]! = .newAction spec →
      EvalFrame f spec.args →
      (∀ args vmA, evalArgs f spec.args vm = .ok args vmA → OMap.lookup s!"u{vmA.r.nextUid + 1}z" vm.r.actions = none) →
      (∀ nm, spec.name = some nm → GoodStop nm) → NameRO f (hd.pos + 1) →
      slideStep fuel f h vm = .ok r vm' → RefinedOpStep vm vm'
  | send (fuel : Nat) (f : FUid) (h : HUid) (cfg : FlowCfg) (hd : Head) (spec : Spec) (r : Bool × List Key) (vm vm' : VM) :
      cfgOfInst f vm = .ok cfg vm → getHead? (f, h) vm = .ok (some hd) vm →
      ¬ (hd.pos ≥ cfg.elements.size ∨ hd.status = .inactive) → cfg.elements[hd.pos]! = .sendOp spec →
      EventFrame f spec → NameRO f (hd.pos + 1) →
      slideStep fuel f h vm = .ok r vm' → RefinedOpStep vm vm'
  | goto (fuel : Nat) (f : FUid) (h : HUid) (cfg : FlowCfg) (hd : Head) (e : Expr) (label : String) (r : Bool × List Key) (vm vm' : VM) :
      cfgOfInst f vm = .ok cfg vm → getHead? (f, h) vm = .ok (some hd) vm →
      ¬ (hd.pos ≥ cfg.elements.size ∨ hd.status = .inactive) → cfg.elements[hd.pos]! = .goto e label →
      ExprFrame f e → (∀ p, NameRO f p) →
      slideStep fuel f h vm = .ok r vm' → RefinedOpStep vm vm'
  | assign (fuel : Nat) (f : FUid) (h : HUid) (cfg : FlowCfg) (hd : Head) (key : String) (e : Expr) (r : Bool × List Key) (vm vm' : VM) :
      cfgOfInst f vm = .ok cfg vm → getHead? (f, h) vm = .ok (some hd) vm →
      ¬ (hd.pos ≥ cfg.elements.size ∨ hd.status = .inactive) → cfg.elements[hd.pos]! = .assign key e →
      ExprFrame f e → NameRO f (hd.pos + 1) →
      slideStep fuel f h vm = .ok r vm' → RefinedOpStep vm vm'
  | labelOther (fuel : Nat) (f : FUid) (h : HUid) (cfg : FlowCfg) (hd : Head) (name : String) (r : Bool × List Key) (vm vm' : VM) :
      cfgOfInst f vm = .ok cfg vm → getHead? (f, h) vm = .ok (some hd) vm →
      ¬ (hd.pos ≥ cfg.elements.size ∨ hd.status = .inactive) → cfg.elements[hd.pos]! = .label name →
      name ≠ "start_new_flow_instance" → NameRO f (hd.pos + 1) →
      slideStep fuel f h vm = .ok r vm' → RefinedOpStep vm vm'
  | beginScope (fuel : Nat) (f : FUid) (h : HUid) (cfg : FlowCfg) (hd : Head) (name : String) (r : Bool × List Key) (vm vm' : VM) :
      cfgOfInst f vm = .ok cfg vm → getHead? (f, h) vm = .ok (some hd) vm →
      ¬ (hd.pos ≥ cfg.elements.size ∨ hd.status = .inactive) → cfg.elements[hd.pos]! = .beginScope name →
      NameRO f (hd.pos + 1) →
      slideStep fuel f h vm = .ok r vm' → RefinedOpStep vm vm'
  | other (fuel : Nat) (f : FUid) (h : HUid) (cfg : FlowCfg) (hd : Head) (r : Bool × List Key) (vm vm' : VM) :
      cfgOfInst f vm = .ok cfg vm → getHead? (f, h) vm = .ok (some hd) vm →
      ¬ (hd.pos ≥ cfg.elements.size ∨ hd.status = .inactive) → cfg.elements[hd.pos]! = .other →
      NameRO f (hd.pos + 1) →
      slideStep fuel f h vm = .ok r vm' → RefinedOpStep vm vm'
  | status (f : FUid) (st : FlowStatus) (i : Inst) (vm vm' : VM) :
      findInst vm.ixs.ix f = some i → statusStepOk (absStatus i.status) (absStatus st) = true →
      CoreVM.setFlowStatus f st vm = .ok () vm' → RefinedOpStep vm vm'
  | event (e : Match.Ev) (vm vm' : VM) :
      eventOk (absVM ν φ vm) (absEv ν e) = true →
      CoreVM.updateActionStatusByEvent e vm = .ok () vm' → RefinedOpStep vm vm'
  | stopEvent (fuel : Nat) (event : Event) (uid : String) (r : Event × List String) (vm vm' : VM) :
      event.ev.name = "StopFlow" → lookupArg "flow_instance_uid" event.ev.args = some (.str uid) →
      processInternalEvent fuel event vm = .ok r vm' → RefinedOpStep vm vm'
  | stopIdEvent (fuel : Nat) (event : Event) (fid : String) (r : Event × List String) (vm vm' : VM) :
      event.ev.name = "StopFlow" → lookupArg "flow_instance_uid" event.ev.args = none →
      lookupArg "flow_id" event.ev.args = some (.str fid) →
      processInternalEvent fuel event vm = .ok r vm' → RefinedOpStep vm vm'
  | finishIdEvent (fuel : Nat) (event : Event) (fid : String) (r : Event × List String) (vm vm' : VM) :
      event.ev.name = "FinishFlow" → lookupArg "flow_instance_uid" event.ev.args = none →
      lookupArg "flow_id" event.ev.args = some (.str fid) → (∀ u, LogInvisible fuel u event.scores) →
      processInternalEvent fuel event vm = .ok r vm' → RefinedOpStep vm vm'
  | finishEvent (fuel : Nat) (event : Event) (uid : String) (r : Event × List String) (vm vm' : VM) :
      event.ev.name = "FinishFlow" → lookupArg "flow_instance_uid" event.ev.args = some (.str uid) →
      LogInvisible fuel uid event.scores →
      processInternalEvent fuel event vm = .ok r vm' → RefinedOpStep vm vm'
  | startEvent (fuel : Nat) (event : Event) (flowId src : String) (r : Event × List String) (pm : List Nat) (vm vm' : VM) :
      event.ev.name = "StartFlow" → lookupArg "flow_id" event.ev.args = some (.str flowId) →
      lookupArg "source_flow_instance_uid" event.ev.args = some (.str src) →
      ((vm.r.prog.find flowId).isSome && decide (flowId ≠ "main")) = true →
      RefAgree ν φ vm flowId event.ev.args (fun u => pm.contains u) →
      processInternalEvent fuel event vm = .ok r vm' → r.2 ≠ [] → RefinedOpStep vm vm'

/-- the operations of the Lifetime machine that refined CoreVM steps map to -/
def Covered : IOp → Prop
  | .abort .. | .finish .. | .endScope .. | .label .. | .reactivate .. | .frame .. | .status .. | .event .. | .newAction .. => True
  | _ => False

theorem okOr_ok (s t : State) (r : Except Err State) (h : r = .ok t) : okOr s r = t := by rw [h]; rfl

/-- every refined CoreVM step IS one operation of the Lifetime machine on the abstraction -/
theorem refinedOpStep_is_op (hν : Function.Injective ν) (hφ : Function.Injective φ) (vm vm' : VM) (hw : WF vm)
    (h : RefinedOpStep ν φ vm vm') : WF vm' ∧ ∃ ops : List IOp, (∀ op ∈ ops, Covered op) ∧ absVM ν φ vm' = cs (ops.foldl applyOp (absVM ν φ vm)) := by
  cases h with
  | abort n f sc d _ _ hr =>
    obtain ⟨t, ht, ha, w'⟩ := corevm_abort_is_op ν φ hν hφ n vm f sc d vm' hw hr
    exact ⟨w', [.abort n (ν f) d], (by intro op hop; simp only [List.mem_singleton] at hop; subst hop; trivial), by simp only [List.foldl, applyOp, okOr_ok _ t _ ht]; exact ha⟩
  | finish n f sc d _ _ hlog hr =>
    obtain ⟨t, ht, ha, w'⟩ := corevm_finish_is_op ν φ hν hφ n vm f sc d vm' hlog hw hr
    exact ⟨w', [.finish n (ν f) d], (by intro op hop; simp only [List.mem_singleton] at hop; subst hop; trivial), by simp only [List.foldl, applyOp, okOr_ok _ t _ ht]; exact ha⟩
  | endScope fuel f h cfg hd name r _ _ hcfg hhd hpos hel hsn hro hr =>
    obtain ⟨_, t, ht, ha, w'⟩ := corevm_slideStep_endScope_is_op ν φ hν hφ fuel f h vm vm' cfg hd name r hcfg hhd hpos hel hw hsn hro hr
    exact ⟨w', [.endScope fuel (ν f) (ν name)], (by intro op hop; simp only [List.mem_singleton] at hop; subst hop; trivial), by simp only [List.foldl, applyOp, okOr_ok _ t _ ht]; exact ha⟩
  | label fuel f h cfg hd r _ _ hcfg hhd hpos hel hro hr =>
    rw [slideStep_label fuel f h vm cfg hd _ hcfg hhd hpos hel] at hr
    simp only [bind, EStateM.bind] at hr
    cases hv : vmLabel f h "start_new_flow_instance" hd.pos vm with
    | error e s => rw [hv] at hr; cases hr
    | ok u vm1 =>
      rw [hv] at hr
      obtain ⟨t, ht, ha, w'⟩ := corevm_label_is_op ν φ hν f h hd.pos vm vm1 hw hro hv
      cases hr
      exact ⟨w', [.label (ν f)], (by intro op hop; simp only [List.mem_singleton] at hop; subst hop; trivial), by simp only [List.foldl, applyOp, okOr_ok _ t _ ht]; exact ha⟩
  | newAction fuel f h cfg hd spec r _ _ hcfg hhd hpos hel hev hfresh hgood hro hr =>
    rw [slideStep_newAction fuel f h vm cfg hd spec hcfg hhd hpos hel] at hr
    simp only [bind, EStateM.bind] at hr
    cases hv : vmNewAction f h spec hd.pos vm with
    | error e s => rw [hv] at hr; cases hr
    | ok u vm1 =>
      rw [hv] at hr
      have hxf : ∃ x, OMap.lookup f vm.r.fx = some x := by
        unfold cfgOfInst at hcfg
        simp only [bind, EStateM.bind] at hcfg
        cases hx : OMap.lookup f vm.r.fx with
        | none => rw [getInstX_run_none f vm hx] at hcfg; cases hcfg
        | some x => exact ⟨x, rfl⟩
      obtain ⟨w', a, heads, scopes, ha⟩ := corevm_newAction_is_ops ν φ hν f h spec hd.pos vm vm1 hw hev hfresh hgood hxf hro hv
      cases hr
      refine ⟨w', [.newAction (ν f) (ν a), .frame (ν f) heads scopes], ?_, ha⟩
      intro op hop
      simp only [List.mem_cons, List.mem_singleton, List.not_mem_nil, or_false] at hop
      rcases hop with e | e <;> subst e <;> trivial
  | send fuel f h cfg hd spec r _ _ hcfg hhd hpos hel hev hro hr =>
    obtain ⟨ha, w'⟩ := slideStep_send_frame ν φ fuel f h vm vm' cfg hd spec r hcfg hhd hpos hel hw hev hro hr
    exact ⟨w', [], (by intro op hop; cases hop), by rw [ha]; rfl⟩
  | goto fuel f h cfg hd e label r _ _ hcfg hhd hpos hel hev hro hr =>
    obtain ⟨ha, w'⟩ := slideStep_goto_frame ν φ fuel f h vm vm' cfg hd e label r hcfg hhd hpos hel hw hev hro hr
    exact ⟨w', [], (by intro op hop; cases hop), by rw [ha]; rfl⟩
  | assign fuel f h cfg hd key e r _ _ hcfg hhd hpos hel hev hro hr =>
    obtain ⟨ha, w'⟩ := slideStep_assign_frame ν φ hν fuel f h vm vm' cfg hd key e r hcfg hhd hpos hel hw hev hro hr
    exact ⟨w', [], (by intro op hop; cases hop), by rw [ha]; rfl⟩
  | labelOther fuel f h cfg hd name r _ _ hcfg hhd hpos hel hname hro hr =>
    rw [slideStep_label fuel f h vm cfg hd _ hcfg hhd hpos hel] at hr
    simp only [bind, EStateM.bind] at hr
    cases hv : vmLabel f h name hd.pos vm with
    | error e s => rw [hv] at hr; cases hr
    | ok u vm1 =>
      rw [hv] at hr
      obtain ⟨ha, w'⟩ := corevm_label_other_frame ν φ f h name hd.pos vm vm1 hw hname hro hv
      cases hr
      exact ⟨w', [], (by intro op hop; cases hop), by rw [ha]; rfl⟩
  | beginScope fuel f h cfg hd name r _ _ hcfg hhd hpos hel hro hr =>
    rw [slideStep_beginScope fuel f h vm cfg hd name hcfg hhd hpos hel] at hr
    simp only [bind, EStateM.bind] at hr
    cases hv : vmBeginScope f h name hd.pos vm with
    | error e s => rw [hv] at hr; cases hr
    | ok u vm1 =>
      rw [hv] at hr
      obtain ⟨x, _, w', ha⟩ := corevm_beginScope_is_op ν φ hν f h name hd.pos vm vm1 hw hro hv
      cases hr
      exact ⟨w', [.frame (ν f) (absFlow ν φ vm f x).heads
          (if (OMap.lookup name x.scopes).isNone then (absFlow ν φ vm f x).scopes ++ [(ν name, [], [])] else (absFlow ν φ vm f x).scopes)],
        (by intro op hop; simp only [List.mem_singleton] at hop; subst hop; trivial), ha⟩
  | other fuel f h cfg hd r _ _ hcfg hhd hpos hel hro hr =>
    rw [slideStep_other fuel f h vm cfg hd hcfg hhd hpos hel] at hr
    simp only [bind, EStateM.bind] at hr
    cases hv : setHeadPos (f, h) (hd.pos + 1) vm with
    | error e s => rw [hv] at hr; cases hr
    | ok u vm1 =>
      rw [hv] at hr
      obtain ⟨ha, w'⟩ := corevm_other_frame ν φ f h hd.pos vm vm1 hw hro hv
      cases hr
      exact ⟨w', [], (by intro op hop; cases hop), by rw [ha]; rfl⟩
  | status f st i _ _ hfi hok hr =>
    obtain ⟨_, _, _, ha⟩ := setFlowStatus_abs ν φ hν f st vm vm' ⟨i, hfi⟩ hr
    refine ⟨wf_setFlowStatus hw f st hr, [.status (ν f) (absStatus st)], (by intro op hop; simp only [List.mem_singleton] at hop; subst hop; trivial), ?_⟩
    obtain ⟨x, hx⟩ := wfi_lookup vm hw.i f i hfi
    have hfl : (absVM ν φ vm).flows (ν f) = some (absFlow ν φ vm f x) := by rw [absVM_flows ν φ hν, hx]; rfl
    have hstat : (absFlow ν φ vm f x).status = absStatus i.status := by simp only [absFlow, hfi]
    rw [ha]
    simp only [List.foldl, applyOp, hfl, hstat, hok, if_true]
    unfold modFlow
    rw [hfl]
    rfl
  | event e _ _ hok hr =>
    obtain ⟨vm2, hrun, wa, hix, hfx, ha⟩ := corevm_update_is_op ν φ hν e vm hw.a hw.i
    rw [hrun] at hr
    cases hr
    have hn := update_names ν hν e vm vm' hw.a hw.i hrun
    refine ⟨⟨wa, ?_, ?_, ?_⟩, [.event (absEv ν e)], (by intro op hop; simp only [List.mem_singleton] at hop; subst hop; trivial), ?_⟩
    · unfold WFI; rw [hix, hfx]; exact hw.i
    · intro k a hk
      obtain ⟨y, hy, e'⟩ := hn k a hk
      rw [e']; exact hw.g k y hy
    · intro k x hk; rw [hfx] at hk; exact hw.n k x hk
    · simp only [List.foldl, applyOp, hok, if_true]
      rw [ha, cs_update, cs_absVM]
  | stopEvent fuel event uid r _ _ hname huid hr =>
    obtain ⟨_, t, ht, ha, w'⟩ := corevm_stopflow_event_is_op ν φ hν hφ fuel event vm vm' uid r hname huid hw hr
    refine ⟨w', ?_⟩
    unfold stopEventOp at ht
    cases hfl : (absVM ν φ vm).flows (ν uid) with
    | none => rw [hfl] at ht; cases ht; exact ⟨[], (by intro op hop; cases hop), ha⟩
    | some fl =>
      rw [hfl] at ht
      simp only at ht
      split at ht
      · cases ht; exact ⟨[], (by intro op hop; cases hop), ha⟩
      · simp only [Bool.false_eq_true, if_false] at ht
        exact ⟨[.abort fuel (ν uid) (decide (fl.activated > 0))], (by intro op hop; simp only [List.mem_singleton] at hop; subst hop; trivial), by simp only [List.foldl, applyOp, okOr_ok _ t _ ht]; exact ha⟩
  | stopIdEvent fuel event fid r _ _ hname huid hfid hr =>
    obtain ⟨w', ops, hops, ha⟩ := corevm_stopflow_id_event_is_ops ν φ hν hφ fuel event vm vm' fid r hname huid hfid hw hr
    refine ⟨w', ops, ?_, ha⟩
    intro op hop
    have := hops op hop
    cases op <;> first | trivial | exact absurd this (by simp [IsAbort])
  | finishIdEvent fuel event fid r _ _ hname huid hfid hlog hr =>
    obtain ⟨w', ops, hops, ha⟩ := corevm_finishflow_id_event_is_ops ν φ hν hφ fuel event vm vm' fid r hname huid hfid hw hlog hr
    refine ⟨w', ops, ?_, ha⟩
    intro op hop
    have := hops op hop
    cases op <;> first | trivial | exact absurd this (by simp [IsFinish])
  | finishEvent fuel event uid r _ _ hname huid hlog hr =>
    obtain ⟨_, t, ht, ha, w'⟩ := corevm_finishflow_event_is_op ν φ hν hφ fuel event vm vm' uid r hname huid hw hlog hr
    refine ⟨w', ?_⟩
    unfold stopEventOp at ht
    cases hfl : (absVM ν φ vm).flows (ν uid) with
    | none => rw [hfl] at ht; cases ht; exact ⟨[], (by intro op hop; cases hop), ha⟩
    | some fl =>
      rw [hfl] at ht
      simp only at ht
      split at ht
      · cases ht; exact ⟨[], (by intro op hop; cases hop), ha⟩
      · simp only [if_true] at ht
        exact ⟨[.finish fuel (ν uid) false], (by intro op hop; simp only [List.mem_singleton] at hop; subst hop; trivial), by simp only [List.foldl, applyOp, okOr_ok _ t _ ht]; exact ha⟩
  | startEvent fuel event flowId src r pm _ _ hname hfid hsrc hknown href hr hne =>
    obtain ⟨t, res, ht, _, ha, w'⟩ := corevm_startflow_nocreate_is_op ν φ hν hφ fuel event vm vm' flowId src r _ hname hfid hsrc hknown hw href hr hne
    exact ⟨w', [.reactivate (φ flowId) true (actArg event.ev.args) (OMap.lookup flowId vm.r.idStates).isSome (ν src) pm], (by intro op hop; simp only [List.mem_singleton] at hop; subst hop; trivial),
      by simp only [List.foldl, applyOp, ht]; exact ha⟩


theorem labelRestart_core' (s : State) (u : Nat) (s' : State) (h : labelRestart s u = .ok s') :
    s'.order = s.order ∧ ∀ v, (s'.flows v).map core = (s.flows v).map core := by
  unfold labelRestart at h
  split at h
  · cases h
  · next f hf =>
    split at h
    · cases h; exact ⟨rfl, fun _ => rfl⟩
    · cases h
      have hf' : (pushLeft s (.startFlow f.flowId u f.activated u)).flows u = some f := hf
      rw [modFlow_some _ _ _ _ hf']
      refine ⟨rfl, ?_⟩
      intro v
      have := core_setFlow (pushLeft s (.startFlow f.flowId u f.activated u)) u f { f with nis := true } hf' rfl v
      simpa using this

theorem flowInv_step_covered (s : State) (op : IOp) (hi : FlowInv s) (hc : Covered op) : FlowInv (applyOp s op) := by
  cases op with
  | abort n u d =>
    simp only [applyOp]
    cases h : abortFlow n s u d with
    | error e => exact hi
    | ok s' => exact abort_flowInv hi n u d s' h
  | finish n u d =>
    simp only [applyOp]
    cases h : finishFlow n s u d with
    | error e => exact hi
    | ok s' => exact finish_flowInv hi n u d s' h
  | endScope n u nm =>
    simp only [applyOp]
    cases h : Lifetime.endScope n s u nm with
    | error e => exact hi
    | ok s' => exact endScope_flowInv hi n u nm s' h
  | label u =>
    simp only [applyOp]
    cases h : labelRestart s u with
    | error e => exact hi
    | ok s' =>
      obtain ⟨ho, hcr⟩ := labelRestart_core' s u s' h
      exact hi.of_core ho hcr
  | reactivate fid known act hasInst source pm =>
    simp only [applyOp]
    split
    · next s' r h => exact reactivate_flowInv hi fid known act hasInst source _ s' r h
    · exact hi
  | frame u heads scopes =>
    simp only [applyOp]
    split
    · next f hf => exact hi.of_core rfl (core_setFlow s u f _ hf rfl)
    · exact hi
  | status u st =>
    simp only [applyOp]
    split
    · next f hf =>
      split
      · next hok => exact status_flowInv hi u f st hf hok
      · exact hi
    · exact hi
  | newAction u a =>
    simp only [applyOp]
    split
    · next f hf ha =>
      split
      · have h1 : FlowInv (setFlow s u { f with actionUids := f.actionUids ++ [a] }) :=
          hi.of_core rfl (core_setFlow s u f _ hf rfl)
        exact h1.of_flows_eq rfl rfl
      · exact hi
    · exact hi
  | event e =>
    by_cases hg : eventOk s e = true
    · have happ : applyOp s (.event e) = updateActionStatusByEvent s e := by simp only [applyOp, hg, if_true]
      rw [happ]
      obtain ⟨hf, _, _, ho, _⟩ := update_rel e s
      exact hi.of_flows_eq ho hf
    · have happ : applyOp s (.event e) = s := by simp only [applyOp, hg]; rfl
      rw [happ]; exact hi
  | _ => exact absurd hc (by simp [Covered])

/-- a refined CoreVM step: one of the operation steps above, or the creation of an instance (`add_new_flow_instance`) at a uid that
    no instance lists as a child -/
inductive RefinedStep : VM → VM → Prop
  | op {vm vm' : VM} : RefinedOpStep ν φ vm vm' → RefinedStep vm vm'
  | create (uid : FUid) (cfg : FlowCfg) (hp : String) (args : List (String × Val)) (vm vm' : VM) :
      lookupArg "context" args = none → ArgsFrame cfg args → cfg.id ≠ "main" → unlisted (absVM ν φ vm) (ν uid) = true →
      addNewFlowInstance uid cfg hp args vm = .ok () vm' → RefinedStep vm vm'
  | link (f : FUid) (args : List (String × Val)) (n : Int) (parent : String) (osh : Option String) (cf pf : Flow) (vm vm' : VM) :
      vm.r.mainUid ≠ some f → lookupArg "activated" args = some (.int n) → 0 ≤ n →
      lookupArg "source_head_uid" args = some (optStrVal osh) →
      lookupArg "source_flow_instance_uid" args = some (.str parent) → f ≠ parent →
      (∀ x, OMap.lookup f vm.r.fx = some x → x.arguments = []) →
      (absVM ν φ vm).flows (ν f) = some cf → (absVM ν φ vm).flows (ν parent) = some pf →
      cf.children = [] → cf.isMain = false → unlisted (absVM ν φ vm) (ν f) = true →
      (pf.status.listening = true ∨ 0 < n.toNat) →
      startFlow f args vm = .ok () vm' → RefinedStep vm vm'

/-- every refined CoreVM step IS a sequence of covered operations of the Lifetime machine on the abstraction, or the creation of an
    isolated instance -/
theorem refinedStep_is_op (hν : Function.Injective ν) (hφ : Function.Injective φ) (vm vm' : VM) (hw : WF vm)
    (h : RefinedStep ν φ vm vm') : WF vm' ∧
      ((∃ ops : List IOp, (∀ op ∈ ops, Covered op) ∧ absVM ν φ vm' = cs (ops.foldl applyOp (absVM ν φ vm))) ∨
       (∃ c fid, (absVM ν φ vm).flows c = none ∧ unlisted (absVM ν φ vm) c = true ∧
          absVM ν φ vm' = createInst (absVM ν φ vm) c fid) ∨
       (∃ c p k cf pf, (absVM ν φ vm).flows c = some cf ∧ (absVM ν φ vm).flows p = some pf ∧ cf.children = [] ∧ cf.isMain = false ∧
          unlisted (absVM ν φ vm) c = true ∧ c ≠ p ∧ (pf.status.listening = true ∨ 0 < k) ∧
          absVM ν φ vm' = linkInst (absVM ν φ vm) c p k)) := by
  cases h with
  | op h0 =>
    obtain ⟨w, ops, hc, ha⟩ := refinedOpStep_is_op ν φ hν hφ vm vm' hw h0
    exact ⟨w, Or.inl ⟨ops, hc, ha⟩⟩
  | create uid cfg hp args _ _ hctx hargs hmain hul hr =>
    obtain ⟨h1, h2, h3⟩ := corevm_addNewFlowInstance_is_create ν φ hν uid cfg hp args vm vm' hw hctx hargs hmain hr
    exact ⟨h3, Or.inr (Or.inl ⟨ν uid, φ cfg.id, h1, hul, h2⟩)⟩
  | link f args n parent osh cf pf _ _ hm hact hn0 hsh hsrc hfp hna hcf hpf hch hmn hul hg hr =>
    obtain ⟨_, h2, h3⟩ := corevm_startFlow_is_link ν φ hν f args vm vm' n parent osh hm hact hn0 hsh hsrc hw hfp hna hr
    exact ⟨h3, Or.inr (Or.inr ⟨ν f, ν parent, n.toNat, cf, pf, hcf, hpf, hch, hmn, hul, fun e => hfp (hν e), hg, h2⟩)⟩

/-- reachability by refined CoreVM steps -/
inductive RefinedSteps : VM → VM → Prop
  | refl (vm : VM) : RefinedSteps vm vm
  | tail {vm vm1 vm2 : VM} : RefinedSteps vm vm1 → RefinedStep ν φ vm1 vm2 → RefinedSteps vm vm2

/-- **the hierarchy part of the lifetime invariant along refined CoreVM steps** (PARTIAL — see the header): if the abstraction of a
    well-formed VM state satisfies `FlowInv` (children form, restarted instances under their reference instance, main flow a root, …)
    and `LinkInv` (every listening instance is listed by its parent — the parent-pointer form of the lifetime clause), so does the
    abstraction of every state reached by refined steps. -/
theorem corevm_hierarchy_invariant_partial (hν : Function.Injective ν) (hφ : Function.Injective φ) (vm vm' : VM)
    (hw : WF vm) (hf : FlowInv (absVM ν φ vm)) (hl : LinkInv (absVM ν φ vm)) (h : RefinedSteps ν φ vm vm') :
    WF vm' ∧ FlowInv (absVM ν φ vm') ∧ LinkInv (absVM ν φ vm') := by
  induction h with
  | refl => exact ⟨hw, hf, hl⟩
  | tail _ hstep ih =>
    obtain ⟨w1, f1, l1⟩ := ih
    obtain ⟨w2, hcase⟩ := refinedStep_is_op ν φ hν hφ _ _ w1 hstep
    rcases hcase with ⟨ops, hcov, habs⟩ | ⟨c, fid, hc0, hul, habs⟩ | ⟨c, p, k, cf, pf, hcf, hpf, hch, hmn, hul, hcp, hg, habs⟩
    · have key : ∀ (ops : List IOp) (s : State), (∀ op ∈ ops, Covered op) → FlowInv s → LinkInv s →
          FlowInv (ops.foldl applyOp s) ∧ LinkInv (ops.foldl applyOp s) := by
        intro ops
        induction ops with
        | nil => intro s _ a b; exact ⟨a, b⟩
        | cons op ops ih2 =>
          intro s hc a b
          exact ih2 _ (fun o ho => hc o (List.mem_cons_of_mem _ ho))
            (flowInv_step_covered s op a (hc op (List.mem_cons_self ..))) (LinkInv.step s op b)
      obtain ⟨f2, l2⟩ := key ops _ hcov f1 l1
      rw [habs]
      exact ⟨w2, FlowInv.cs f2, LinkInv.cs l2⟩
    · rw [habs]
      exact ⟨w2, createInst_flowInv _ c fid f1 hc0 hul, createInst_linkInv _ c fid l1 hc0⟩
    · rw [habs]
      exact ⟨w2, linkInst_flowInv _ c p k cf pf f1 hcf hpf hch hmn hul hcp hg, linkInst_linkInv _ c p k cf pf l1 hcf hpf hch hmn hcp⟩

/-! ### non-vacuity: `vmEx` satisfies the hypotheses, and a refined step leaves it -/

theorem vmEx_flows (v : Nat) (f : Flow) (h : (absVM ν φ vmEx).flows v = some f) :
    f.children = [] ∧ f.parent = none ∧ f.isMain = false ∧ v = ν "a" := by
  simp only [absVM, vmEx, List.find?] at h
  split at h
  · next hv =>
    simp only [Option.map_some, Option.some.injEq] at h
    subst h
    simp only [decide_eq_true_eq] at hv
    exact ⟨rfl, rfl, rfl, hv.symm⟩
  · cases h

theorem vmEx_flowInv : FlowInv (absVM ν φ vmEx) := by
  refine ⟨?_, ?_, ?_, ?_, ?_⟩
  · intro p pf c cf hp hc; rw [(vmEx_flows ν φ p pf hp).1] at hc; cases hc
  · intro p pf c cf hp hc; rw [(vmEx_flows ν φ p pf hp).1] at hc; cases hc
  · intro p pf c cf hp hc; rw [(vmEx_flows ν φ p pf hp).1] at hc; cases hc
  · intro v f hv _; exact (vmEx_flows ν φ v f hv).2.1
  · intro v f hv; rw [(vmEx_flows ν φ v f hv).2.2.2]; simp [absVM, vmEx]

theorem vmEx_linkInv : LinkInv (absVM ν φ vmEx) := by
  refine ⟨?_, ?_, ?_⟩
  · intro c cf p pf hc _ hp; rw [(vmEx_flows ν φ c cf hc).2.1] at hp; cases hp
  · intro c cf p hc hp; rw [(vmEx_flows ν φ c cf hc).2.1] at hp; cases hp
  · intro v f hv _; exact (vmEx_flows ν φ v f hv).2.1

theorem vmEx_refined : ∃ vm', RefinedSteps ν φ vmEx vm' ∧ RefinedStep ν φ vmEx vm' := by
  cases h : CoreVM.abortFlow 3 "a" [] false vmEx with
  | ok u vm' => exact ⟨vm', .tail (.refl _) (.op (.abort 3 "a" [] false _ _ h)), .op (.abort 3 "a" [] false _ _ h)⟩
  | error e s =>
    have : (match CoreVM.abortFlow 3 "a" [] false vmEx with | .ok _ _ => true | .error _ _ => false) = true := by rfl
    rw [h] at this; cases this


/-! ### an injective numbering of strings exists (non-vacuity of the hypotheses on `ν`, `φ`) -/

def encL : List Char → Nat
  | [] => 0
  | c :: l => encL l * 1114112 + c.toNat + 1

theorem char_lt (c : Char) : c.toNat < 1114112 := by
  have := c.valid
  simp only [Char.toNat]
  rcases this with h | h
  · have : c.val.toNat < 55296 := h
    omega
  · have : c.val.toNat < 1114112 := h.2
    omega

theorem encL_inj : ∀ l1 l2 : List Char, encL l1 = encL l2 → l1 = l2
  | [], [], _ => rfl
  | [], c :: l, h => by simp only [encL] at h; omega
  | c :: l, [], h => by simp only [encL] at h; omega
  | c1 :: l1, c2 :: l2, h => by
    simp only [encL] at h
    have h1 := char_lt c1
    have h2 := char_lt c2
    have hl : encL l1 = encL l2 := by omega
    have hc : c1.toNat = c2.toNat := by omega
    rw [encL_inj l1 l2 hl]
    have : c1 = c2 := Char.toNat_inj.mp hc
    rw [this]

/-- a concrete injective numbering of uids / flow ids -/
def enc (s : String) : Nat := encL s.toList

theorem enc_inj : Function.Injective enc := by
  intro a b h
  exact String.toList_inj.mp (encL_inj _ _ h)

end NemoVerif.Lifetime.Refine
