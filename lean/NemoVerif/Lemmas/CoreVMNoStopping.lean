/-
  C09 / CoreVM — `no_stopping_at_exit`, assembled: the body of `run_to_completion` keeps "no instance is STOPPING",
  so the exit assertion of the model never fires from such a state.
-/
import NemoVerif.Lemmas.CoreVMStopIter
import NemoVerif.Lemmas.CoreVMExit
open NemoVerif NemoVerif.CoreIndex
open Std.Do
set_option mvcgen.warning false
namespace NemoVerif.CoreVM

/-- `_advance_head_front`, normal-return half -/
theorem advanceHeadFront_keepsOk_stop (A : List FUid) (fuel : Nat) (heads : List Key) :
    KeepsOk (stopInv A) (advanceHeadFront fuel heads) := by
  have h := fn_of_triple (advStop fuel A heads)
  apply triple_of_fn
  · exact h.1
  · intros; trivial

/-- the body of `run_to_completion` (clean-up and the three nested loops) never leaves an instance STOPPING -/
theorem runBody_no_stopping (fuel : Nat) (ev : Match.Ev) (s s' : VM) (h : NoStopping s.ixs.ix)
    (heq : runBody fuel ev s = .ok () s') : NoStopping s'.ixs.ix := by
  have hb := fn_of_triple (runBody_stop (advanceHeadFront_keepsOk_stop []) fuel ev)
  exact (stopSub_nil_iff _).1 (hb.1 s () s' ((stopSub_nil_iff _).2 h) heq)

/-- hence the exit assertion of the model is redundant: whenever the body returns normally, so does `runToCompletion`,
    in the same state -/
theorem runToCompletion_of_runBody (fuel : Nat) (ev : Match.Ev) (s s' : VM) (h : NoStopping s.ixs.ix)
    (heq : runBody fuel ev s = .ok () s') : runToCompletion fuel ev s = .ok () s' := by
  rw [runToCompletion_eq, bind_eval_ok heq]
  exact exitAssertion_passes s' (runBody_no_stopping fuel ev s s' h heq)

/-- and a normal return of `runToCompletion` is a normal return of its body -/
theorem runBody_of_runToCompletion (fuel : Nat) (ev : Match.Ev) (s s' : VM)
    (heq : runToCompletion fuel ev s = .ok () s') : runBody fuel ev s = .ok () s' := by
  rw [runToCompletion_eq] at heq
  cases hb : runBody fuel ev s with
  | error e s1 => rw [bind_eval_err hb] at heq; cases heq
  | ok u s1 =>
    rw [bind_eval_ok hb] at heq
    unfold exitAssertion at heq
    rw [bind_eval_ok (show getIx s1 = .ok s1.ixs.ix s1 from rfl)] at heq
    split at heq
    · simp [throw, throwThe, MonadExceptOf.throw, EStateM.throw] at heq
    · cases heq; rfl


/-! ### every reachable state -/
section init
attribute [local spec] forInL_keeps mapM_keeps getRest_keeps getIx_keeps pyRaise_keeps unsupported_keeps modifyRest_keeps freshUid_keeps getInst?_keeps getInst_keeps getInstX?_keeps getInstX_keeps modInstX_keeps ctxHolder_keeps getCtx_keeps setCtxVar_keeps getHead?_keeps getHeadX_keeps modHeadX_keeps getCfg_keeps cfgOfInst_keeps getAction?_keeps setAction_keeps pushEvent_keeps pushLeftEvent_keeps

/-- `initialize_state` never makes an instance STOPPING -/
theorem initializeState_stop (A : List FUid) : Keeps (stopInv A) initializeState := by
  have h1 := addNewFlowInstance_keeps (stopInv A) (stopInv_hall A)
  unfold initializeState
  mvcgen [h1]
  all_goals (first | rest_frame | (intros; trivial) | skip)
end init

/-- the states of a run of the model: `initialize_state` on an empty state for program `p`, then any number of external
    events processed by `runToCompletion` (any fuel, any recorded tie-breaks / clock installed in between) -/
inductive Reach (p : Prog) : VM → Prop
  | init (s : VM) (h : initializeState ({ r := { prog := p } } : VM) = .ok () s) : Reach p s
  | event (s s' : VM) (fuel : Nat) (ev : Match.Ev) (hs : Reach p s) (h : runToCompletion fuel ev s = .ok () s') : Reach p s'
  /-- the driver installs the recorded tie-break outcomes and the clock between events: any update of `Rest` -/
  | env (s : VM) (g : Rest → Rest) (hs : Reach p s) : Reach p { s with r := g s.r }

/-- **in every reachable state of the model no instance is STOPPING** -/
theorem reach_no_stopping (p : Prog) (s : VM) (h : Reach p s) : NoStopping s.ixs.ix := by
  induction h with
  | init s h =>
    have hk := (fn_of_triple (initializeState_stop [])).1 _ () s (by intro i hi; cases hi) h
    exact (stopSub_nil_iff _).1 hk
  | event s s' fuel ev _ h ih =>
    exact runBody_no_stopping fuel ev s s' ih (runBody_of_runToCompletion fuel ev s s' h)
  | env s g _ ih => exact ih


end NemoVerif.CoreVM
