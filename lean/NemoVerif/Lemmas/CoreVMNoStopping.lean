/-
  C09 / CoreVM — `no_stopping_at_exit`, assembled: the body of `run_to_completion` keeps "no instance is STOPPING",
  so the exit assertion of the model never fires from such a state.
-/
import NemoVerif.Lemmas.CoreVMStopIter
import NemoVerif.Lemmas.CoreVMExit
open NemoVerif NemoVerif.CoreIndex
open Std.Do
set_option mvcgen.warning false
namespace NemoVerif.CoreVM

/-- `_advance_head_front`, normal-return half -/
theorem advanceHeadFront_keepsOk_stop (A : List FUid) (fuel : Nat) (heads : List Key) :
    KeepsOk (stopInv A) (advanceHeadFront fuel heads) := by
  have h := fn_of_triple (advStop fuel A heads)
  apply triple_of_fn
  · exact h.1
  · intros; trivial

/-- the body of `run_to_completion` (clean-up and the three nested loops) never leaves an instance STOPPING -/
theorem runBody_no_stopping (fuel : Nat) (ev : Match.Ev) (s s' : VM) (h : NoStopping s.ixs.ix)
    (heq : runBody fuel ev s = .ok () s') : NoStopping s'.ixs.ix := by
  have hb := fn_of_triple (runBody_stop (advanceHeadFront_keepsOk_stop []) fuel ev)
  exact (stopSub_nil_iff _).1 (hb.1 s () s' ((stopSub_nil_iff _).2 h) heq)

/-- hence the exit assertion of the model is redundant: whenever the body returns normally, so does `runToCompletion`,
    in the same state -/
theorem runToCompletion_of_runBody (fuel : Nat) (ev : Match.Ev) (s s' : VM) (h : NoStopping s.ixs.ix)
    (heq : runBody fuel ev s = .ok () s') : runToCompletion fuel ev s = .ok () s' := by
  rw [runToCompletion_eq, bind_eval_ok heq]
  exact exitAssertion_passes s' (runBody_no_stopping fuel ev s s' h heq)

/-- and a normal return of `runToCompletion` is a normal return of its body -/
theorem runBody_of_runToCompletion (fuel : Nat) (ev : Match.Ev) (s s' : VM)
    (heq : runToCompletion fuel ev s = .ok () s') : runBody fuel ev s = .ok () s' := by
  rw [runToCompletion_eq] at heq
  cases hb : runBody fuel ev s with
  | error e s1 => rw [bind_eval_err hb] at heq; cases heq
  | ok u s1 =>
    rw [bind_eval_ok hb] at heq
    unfold exitAssertion at heq
    rw [bind_eval_ok (show getIx s1 = .ok s1.ixs.ix s1 from rfl)] at heq
    split at heq
    · simp [throw, throwThe, MonadExceptOf.throw, EStateM.throw] at heq
    · cases heq; rfl

end NemoVerif.CoreVM
