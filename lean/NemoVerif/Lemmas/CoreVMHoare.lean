/-
  C09 / CoreVM — a small Hoare logic for the model monad `M = EStateM VMErr VM`, on top of `Std.Do`
  (`mvcgen`).  A `StInv` is a predicate on model states that is kept by every update of `Rest` that leaves the
  program and the flow ids of the instances alone (`RestFrame`) and by the index operations it names
  (`okOp`); `Keeps I x` says that the computation `x` keeps it on EVERY outcome (normal return and raised
  error — the state at the raise is what `attemptPy` continues with, as Python does).
-/
import NemoVerif.Models.CoreVM
import NemoVerif.Lemmas.CoreVMInsts
import Std.Do
import Std.Tactic.Do

open NemoVerif NemoVerif.CoreIndex
open Std.Do
set_option mvcgen.warning false

namespace NemoVerif.CoreVM

/-! ### triples ⇄ plain statements about the state function -/

theorem triple_of_fn {α} (x : M α) (P : VM → Prop) (Qok : α → VM → Prop) (Qerr : VMErr → VM → Prop)
    (hok : ∀ s a s', P s → x s = .ok a s' → Qok a s') (herr : ∀ s e s', P s → x s = .error e s' → Qerr e s') :
    ⦃fun s => ⌜P s⌝⦄ x ⦃post⟨fun a s => ⌜Qok a s⌝, fun e s => ⌜Qerr e s⌝⟩⦄ := by
  intro s hp
  simp only [wp, PredTrans.apply, EStateM.run]
  split <;> rename_i heq
  · exact hok _ _ _ hp heq
  · exact herr _ _ _ hp heq

theorem fn_of_triple {α} {x : M α} {P : VM → Prop} {Qok : α → VM → Prop} {Qerr : VMErr → VM → Prop}
    (h : ⦃fun s => ⌜P s⌝⦄ x ⦃post⟨fun a s => ⌜Qok a s⌝, fun e s => ⌜Qerr e s⌝⟩⦄) :
    (∀ s a s', P s → x s = .ok a s' → Qok a s') ∧ (∀ s e s', P s → x s = .error e s' → Qerr e s') := by
  constructor
  · intro s a s' hp heq
    have := h s hp
    simp only [wp, PredTrans.apply, EStateM.run] at this
    rw [heq] at this; exact this
  · intro s a s' hp heq
    have := h s hp
    simp only [wp, PredTrans.apply, EStateM.run] at this
    rw [heq] at this; exact this

/-! ### state invariants -/

/-- the flow id of every instance (what `cfgOfInst` reads) -/
def flowIds (r : Rest) : List (FUid × String) := r.fx.map fun e => (e.1, e.2.flowId)

/-- an update of `Rest` that does not change the program and keeps the flow id of every instance it already
    knows (it may ADD instances: `add_new_flow_instance`) -/
def RestFrame (g : Rest → Rest) : Prop :=
  ∀ r, (g r).prog = r.prog ∧ ∀ f id, OMap.lookup f (flowIds r) = some id → OMap.lookup f (flowIds (g r)) = some id

theorem RestFrame.of_eq {g : Rest → Rest} (h : ∀ r, (g r).prog = r.prog ∧ flowIds (g r) = flowIds r) : RestFrame g := by
  intro r; refine ⟨(h r).1, ?_⟩; rw [(h r).2]; intro f id hh; exact hh

structure StInv where
  J : VM → Prop
  okOp : Op → Prop
  frame : ∀ s g, J s → RestFrame g → J { s with r := g s.r }
  step : ∀ s op (hg : op.guard s.ixs.ix = true), J s → okOp op → J { s with ixs := s.ixs.apply op hg }

/-- `x` keeps the invariant, whether it returns or raises -/
abbrev Keeps (I : StInv) {α} (x : M α) : Prop :=
  ⦃fun s => ⌜I.J s⌝⦄ x ⦃post⟨fun _ s => ⌜I.J s⌝, fun _ s => ⌜I.J s⌝⟩⦄

/-- fill every loop invariant with the state-only invariant, then close the verification conditions -/
macro "keeps_close" I:term : tactic => `(tactic| (
  all_goals (try (exact (⟨fun _ s => ⌜($I).J s⌝, fun _ s => ⌜($I).J s⌝, ()⟩)))
  all_goals (try (first | exact ExceptConds.entails.refl _ | (intros; first | assumption | (dsimp only at *; assumption))))))

theorem flowIds_modify (f : FUid) (g : InstX → InstX) (hg : ∀ x, (g x).flowId = x.flowId) (fx : List (FUid × InstX)) :
    (OMap.modify f g fx).map (fun e => (e.1, e.2.flowId)) = fx.map fun e => (e.1, e.2.flowId) := by
  induction fx with
  | nil => rfl
  | cons e rest ih =>
    obtain ⟨k, v⟩ := e
    simp only [OMap.modify]
    split <;> simp [hg, ih]

theorem flowIds_map (g : FUid × InstX → InstX) (hg : ∀ e, (g e).flowId = e.2.flowId) (fx : List (FUid × InstX)) :
    (fx.map fun e => (e.1, g e)).map (fun e => (e.1, e.2.flowId)) = fx.map fun e => (e.1, e.2.flowId) := by
  induction fx with
  | nil => rfl
  | cons e rest ih => simp [hg, ih]

/-- closes `RestFrame (fun r => { r with … })` for updates that do not touch `prog` / flow ids -/
macro "rest_frame" : tactic => `(tactic| (
  intros
  first
  | trivial
  | rfl
  | (apply RestFrame.of_eq; intro r
     first
     | exact ⟨rfl, rfl⟩
     | (refine ⟨rfl, ?_⟩; simp only [flowIds]; exact flowIds_modify _ _ (fun _ => rfl) _)
     | (refine ⟨rfl, ?_⟩; simp only [flowIds]; exact flowIds_map _ (fun _ => rfl) _))))

/-- `forIn` over a list in the model monad under a name of its own, so that `mvcgen` uses the state-only loop rule
    `forInL_keeps` (rewrite with `simp only [forIn_eq_forInL]` first) -/
def forInL {α β} (l : List α) (init : β) (f : α → β → M (ForInStep β)) : M β := forIn l init f
theorem forIn_eq_forInL {α β} (l : List α) (init : β) (f : α → β → M (ForInStep β)) : forIn l init f = forInL l init f := rfl

section base
variable (I : StInv)

theorem forInL_keeps {α β} (l : List α) (init : β) (f : α → β → M (ForInStep β))
    (hf : ∀ a b, Keeps I (f a b)) : Keeps I (forInL l init f) := by
  unfold forInL
  induction l generalizing init with
  | nil => simp only [List.forIn_nil]; mvcgen
  | cons a rest ih =>
    simp only [List.forIn_cons]
    mvcgen [hf, ih]
attribute [local spec] forInL_keeps

theorem mapM_keeps {α β} (f : α → M β) (hf : ∀ a, Keeps I (f a)) (l : List α) : Keeps I (l.mapM f) := by
  induction l with
  | nil => simp only [List.mapM_nil]; mvcgen
  | cons a rest ih => simp only [List.mapM_cons]; mvcgen [hf, ih]
attribute [local spec] mapM_keeps

theorem getRest_keeps : Keeps I getRest := by
  unfold getRest; mvcgen
attribute [local spec] getRest_keeps
theorem getIx_keeps : Keeps I getIx := by
  unfold getIx; mvcgen
attribute [local spec] getIx_keeps
theorem pyRaise_keeps {α} (c m : String) : Keeps I (pyRaise c m : M α) := by
  unfold pyRaise; mvcgen
attribute [local spec] pyRaise_keeps
theorem unsupported_keeps {α} (c : String) : Keeps I (unsupported c : M α) := by
  unfold unsupported; mvcgen
attribute [local spec] unsupported_keeps

theorem modifyRest_keeps (g : Rest → Rest) (hg : RestFrame g) : Keeps I (modifyRest g) := by
  unfold modifyRest; mvcgen
  rename_i s h t
  exact I.frame s g h hg
attribute [local spec] modifyRest_keeps

theorem applyOp_keeps (op : Op) (h : I.okOp op) : Keeps I (applyOp op) := by
  apply triple_of_fn
  · intro s a s' hs heq
    unfold applyOp at heq
    split at heq
    · cases heq; exact I.step _ _ _ hs h
    · cases heq
  · intro s a s' hs heq
    unfold applyOp at heq
    split at heq
    · cases heq
    · cases heq; exact hs

theorem freshUid_keeps : Keeps I freshUid := by
  unfold freshUid; mvcgen; rest_frame
attribute [local spec] freshUid_keeps
theorem getInst?_keeps (f) : Keeps I (getInst? f) := by
  unfold getInst?; mvcgen
attribute [local spec] getInst?_keeps
theorem getInst_keeps (f) : Keeps I (getInst f) := by
  unfold getInst; mvcgen
attribute [local spec] getInst_keeps
theorem getInstX?_keeps (f) : Keeps I (getInstX? f) := by
  unfold getInstX?; mvcgen
attribute [local spec] getInstX?_keeps
theorem getInstX_keeps (f) : Keeps I (getInstX f) := by
  unfold getInstX; mvcgen
attribute [local spec] getInstX_keeps
theorem modInstX_keeps (f) (g : InstX → InstX) (hg : ∀ x, (g x).flowId = x.flowId) : Keeps I (modInstX f g) := by
  unfold modInstX; mvcgen
  intros; apply RestFrame.of_eq; intro r; refine ⟨rfl, ?_⟩; simp only [flowIds]; exact flowIds_modify _ _ hg _
attribute [local spec] modInstX_keeps
theorem ctxHolder_keeps (f) : Keeps I (ctxHolder f) := by
  unfold ctxHolder; mvcgen
attribute [local spec] ctxHolder_keeps
theorem getCtx_keeps (f) : Keeps I (getCtx f) := by
  unfold getCtx; mvcgen
attribute [local spec] getCtx_keeps
theorem setCtxVar_keeps (f k v) : Keeps I (setCtxVar f k v) := by
  unfold setCtxVar; mvcgen; rest_frame
attribute [local spec] setCtxVar_keeps
theorem getHead?_keeps (k) : Keeps I (getHead? k) := by
  unfold getHead?; mvcgen
attribute [local spec] getHead?_keeps
theorem getHeadX_keeps (k) : Keeps I (getHeadX k) := by
  unfold getHeadX; mvcgen
attribute [local spec] getHeadX_keeps
theorem modHeadX_keeps (k g) : Keeps I (modHeadX k g) := by
  unfold modHeadX; mvcgen; rest_frame
attribute [local spec] modHeadX_keeps
theorem getCfg_keeps (f) : Keeps I (getCfg f) := by
  unfold getCfg; mvcgen
attribute [local spec] getCfg_keeps
theorem cfgOfInst_keeps (f) : Keeps I (cfgOfInst f) := by
  unfold cfgOfInst; mvcgen
attribute [local spec] cfgOfInst_keeps
theorem getAction?_keeps (f) : Keeps I (getAction? f) := by
  unfold getAction?; mvcgen
attribute [local spec] getAction?_keeps
theorem setAction_keeps (f) : Keeps I (setAction f) := by
  unfold setAction; mvcgen; rest_frame
attribute [local spec] setAction_keeps
theorem pushEvent_keeps (e) : Keeps I (pushEvent e) := by
  unfold pushEvent; mvcgen; rest_frame
attribute [local spec] pushEvent_keeps
theorem pushLeftEvent_keeps (e) : Keeps I (pushLeftEvent e) := by
  unfold pushLeftEvent; mvcgen; rest_frame
attribute [local spec] pushLeftEvent_keeps


/-! ### the expression evaluator never touches the index, the program or the flow ids -/

theorem valueErr_keeps {α} (m : String) : Keeps I (valueErr m : M α) := by
  unfold valueErr; mvcgen
attribute [local spec] valueErr_keeps
theorem lookupVar_keeps (c n) : Keeps I (lookupVar c n) := by
  unfold lookupVar; mvcgen
attribute [local spec] lookupVar_keeps
theorem attrOf_keeps (v a l) : Keeps I (attrOf v a l) := by
  unfold attrOf; mvcgen
attribute [local spec] attrOf_keeps

theorem evalExpr_evalBase_keeps (c : EvalCtx) : ∀ fuel, (∀ e, Keeps I (evalExpr c fuel e)) ∧ (∀ e, Keeps I (evalBase c fuel e))
  | 0 => by
    constructor <;> intro e
    · unfold evalExpr; mvcgen
    · unfold evalBase; mvcgen
  | fuel + 1 => by
    obtain ⟨ih1, ih2⟩ := evalExpr_evalBase_keeps c fuel
    constructor <;> intro e
    · unfold evalExpr
      simp only [forIn_eq_forInL]
      mvcgen [ih1, ih2]
    · unfold evalBase
      mvcgen [ih1, ih2]

theorem evalExpr_keeps (c fuel e) : Keeps I (evalExpr c fuel e) := (evalExpr_evalBase_keeps I c fuel).1 e
attribute [local spec] evalExpr_keeps
theorem evalIn_keeps (f e) : Keeps I (evalIn f e) := by
  unfold evalIn; mvcgen
attribute [local spec] evalIn_keeps
theorem evalEmpty_keeps (e) : Keeps I (evalEmpty e) := by
  unfold evalEmpty; mvcgen
attribute [local spec] evalEmpty_keeps
theorem evalArgs_keeps (f a) : Keeps I (evalArgs f a) := by
  unfold evalArgs; simp only [forIn_eq_forInL]; mvcgen
attribute [local spec] evalArgs_keeps

end base
end NemoVerif.CoreVM
