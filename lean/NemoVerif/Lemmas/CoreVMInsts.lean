/-
  C09 / CoreVM — the instance list of the index state under every operation, as a function of the
  instance list alone (the two dispatch maps never influence instances, heads, positions or statuses).
  Used by the invariants of `Lemmas/CoreVMInv*.lean` (NoStopping, Parked / PendingCovers).
-/
import NemoVerif.Lemmas.CoreIndex

namespace NemoVerif.CoreIndex

def mapInst (l : List Inst) (f : FUid) (g : Inst → Inst) : List Inst := l.map fun i => if i.uid = f then g i else i

def findI (l : List Inst) (f : FUid) : Option Inst := l.find? (·.uid = f)

def touchInsts (l : List Inst) (f : FUid) (h : HUid) (g : Head → Head) : List Inst :=
  match findI l f with
  | none => l
  | some i =>
    match i.findHead h with
    | none => l
    | some _ => mapInst l f fun i => i.modifyHead h g

/-- the instance list after an operation -/
def stepInsts (l : List Inst) : Op → List Inst
  | .addInst f h nm0 => l ++ [{ uid := f, status := .waiting, heads := [newHead h nm0] }]
  | .setPos f h p nm =>
    match (findI l f).bind (·.findHead h) with
    | none => l
    | some hd => if hd.pos = p then l else touchInsts l f h fun x => { x with pos := p, elem := nm }
  | .setStatus f h st nm =>
    match (findI l f).bind (·.findHead h) with
    | none => l
    | some hd => if hd.status = st then l else touchInsts l f h fun x => { x with status := st, elem := nm }
  | .fork f h' nm0 p nm =>
    let l1 := mapInst l f fun i => { i with heads := i.heads ++ [newHead h' nm0] }
    if p = 0 then l1 else touchInsts l1 f h' fun x => { x with pos := p, elem := nm }
  | .delHead f h => mapInst l f fun i => { i with heads := i.heads.filter (·.uid ≠ h) }
  | .dropHeads f =>
    match findI l f with
    | none => l
    | some _ => mapInst l f fun i => { i with heads := [] }
  | .rmHead _ _ => l
  | .clearHeads f => mapInst l f fun i => { i with heads := [] }
  | .mainRestart f h nm0 =>
    match findI l f with
    | none => l
    | some _ => mapInst l f fun i => { i with heads := [newHead h nm0], status := .waiting }
  | .setFlowStatus f st => mapInst l f fun i => { i with status := st }
  | .removeInst f => l.filter (·.uid ≠ f)

theorem insts_touchHead (s : IState) (f : FUid) (h : HUid) (g : Head → Head) :
    (touchHead s f h g).insts = touchInsts s.insts f h g := by
  unfold touchHead touchInsts findI
  show (match findInst s f with | none => s | some i => _).insts = match findInst s f with | none => s.insts | some i => _
  cases findInst s f with
  | none => rfl
  | some i =>
    simp only
    cases i.findHead h with
    | none => rfl
    | some hd => simp only [insts_headChanged]; rfl

theorem insts_foldl_rawRemove (f : FUid) (hs : List Head) (s : IState) :
    (hs.foldl (fun acc hd => rawRemove acc (f, hd.uid)) s).insts = s.insts := (foldl_rawRemove_spec f hs s).1

theorem insts_step (s : IState) (op : Op) : (step s op).insts = stepInsts s.insts op := by
  cases op with
  | addInst f h nm0 => simp only [step, stepInsts, insts_headChanged]
  | setPos f h p nm =>
    simp only [step, stepInsts]
    show (match (findInst s f).bind (·.findHead h) with | none => s | some hd => _).insts = match (findInst s f).bind (·.findHead h) with | none => s.insts | some hd => _
    cases (findInst s f).bind (·.findHead h) with
    | none => rfl
    | some hd => simp only; split <;> simp [insts_touchHead]
  | setStatus f h st nm =>
    simp only [step, stepInsts]
    show (match (findInst s f).bind (·.findHead h) with | none => s | some hd => _).insts = match (findInst s f).bind (·.findHead h) with | none => s.insts | some hd => _
    cases (findInst s f).bind (·.findHead h) with
    | none => rfl
    | some hd => simp only; split <;> simp [insts_touchHead]
  | fork f h' nm0 p nm =>
    simp only [step, stepInsts]
    split
    · rfl
    · rw [insts_touchHead]; rfl
  | delHead f h => rfl
  | dropHeads f =>
    simp only [step, stepInsts]
    show (match findInst s f with | none => s | some i => _).insts = match findInst s f with | none => s.insts | some i => _
    cases findInst s f with
    | none => rfl
    | some i => simp only [modifyInst, insts_foldl_rawRemove]; rfl
  | rmHead f h => simp only [step, stepInsts, insts_rawRemove]
  | clearHeads f => rfl
  | mainRestart f h nm0 =>
    simp only [step, stepInsts]
    show (match findInst s f with | none => s | some i => _).insts = match findInst s f with | none => s.insts | some i => _
    cases findInst s f with
    | none => rfl
    | some i => simp only [modifyInst, insts_headChanged]; rfl
  | setFlowStatus f st => rfl
  | removeInst f => rfl

end NemoVerif.CoreIndex
