/-
  C11 — the link between the two readings of `encode_to_dict`:
    T1  `Serialize.encode : PV → J`   sharing-free, no identities        (theorem `roundtrip_tree`)
    T2  `Shared.encodeC : CV → J`     identity-labelled, with `refs`     (theorem `roundtrip_shared`)

  `erase : CV → Option PV` forgets the identities (and reads the tags back as Python kinds).  On a TREE-SHAPED labelled value
  (no identity occurs twice, none is registered yet) both encoders write the JSON text of the SAME abstract encoding
  `skel t` (every object a definition, no reference):

      encodeC refs t  = render  (skel t)      (`encodeC_tree`)      — with `__id` on every definition, lists marked
      encode (erase t) = renderT (skel t)     (`erase_encode`)      — the same text without the identity bookkeeping

  `render` and `renderT` differ in `wrapDef` vs `wrapT` only.  Not proved here: the decode half
  (`decode (renderT e) = erase (decodeS e)`), which would make `roundtrip_tree` a corollary of `roundtrip_shared`.
-/
import NemoVerif.Lemmas.Serialize
import NemoVerif.Lemmas.SerializeShared

namespace NemoVerif.Shared
open NemoVerif.Serialize NemoVerif.Refs

/-! ### the T1 rendering of an abstract encoding -/

/-- `wrapDef` without the identity bookkeeping: no `__id`, a list is a plain JSON array -/
def wrapT (tag : Tag) (ys : List J) : J :=
  match tag with
  | .list => .arr ys
  | _ => .obj (("__type", .str tag.tyName) :: tag.body ys)

mutual
def renderT : CE → J
  | .leaf s => s.toJ
  | .seq ys => .arr (renderTList ys)
  | .defn _ tag ys => wrapT tag (renderTList ys)
  | .ref i => refJ i
def renderTList : List CE → List J
  | [] => []
  | y :: ys => renderT y :: renderTList ys
end

-- the reference-free abstract encoding of a labelled value: every object a definition
mutual
def skel : CV → CE
  | .leaf s => .leaf s
  | .seq xs => .seq (skelList xs)
  | .node i tag kids => .defn i tag (skelList kids)
def skelList : List CV → List CE
  | [] => []
  | x :: xs => skel x :: skelList xs
end

/-! ### forgetting the identities -/

def Scalar.toPV : Scalar → PV
  | .none => .none | .bool b => .bool b | .int i => .int i | .flt f => .flt f | .str s => .str s

def zipStr : List String → List PV → List (Key × PV)
  | k :: ks, v :: vs => (.str k, v) :: zipStr ks vs
  | _, _ => []

/-- `k₁, v₁, k₂, v₂, …` → the dict items (the keys must be hashable) -/
def pairKeys : List PV → Option (List (Key × PV))
  | [] => some []
  | k :: v :: rest =>
    match keyOfPV k, pairKeys rest with
    | .ok key, some kvs => some ((key, v) :: kvs)
    | _, _ => none
  | [_] => none

def actionKeys : List String := ["uid", "name", "flow_uid", "status", "context", "start_event_arguments", "flow_scope_count"]

/-- the Python value a tag and its (already erased) children stand for; `none` when the tag does not fit the children
    or is not the one the encoder would have chosen (an item-list dict whose keys are all strings) -/
def eraseTag (tag : Tag) (vs : List PV) : Option PV :=
  match tag with
  | .list => some (.list vs)
  | .tuple => some (.tuple vs)
  | .set => some (.set vs)
  | .deque => some (.deque vs)
  | .dictStr keys => if keys.length = vs.length then some (.dict (zipStr keys vs)) else none
  | .dictItems =>
    match pairKeys vs with
    | some kvs => if allStr kvs then none else some (.dict kvs)
    | none => none
  | .data cls keys =>
    if cls = "Action" then
      if keys = actionKeys then
        match vs with
        | [.str uid, .str name, .none, .str st, ctx, args, .int sc] => some (.action uid name none st ctx args sc)
        | [.str uid, .str name, .str fu, .str st, ctx, args, .int sc] => some (.action uid name (some fu) st ctx args sc)
        | _ => none
      else none
    else if keys.length = vs.length then
      (if cls = "RailsConfig" then some (.railsConfig (zipStr keys vs)) else some (.data cls (zipStr keys vs)))
    else none
  | .enum cls name => if vs.isEmpty then some (.enum cls name) else none
  | .datetime iso => if vs.isEmpty then some (.datetime iso) else none
  | .specType v => if vs.isEmpty then some (.specType v) else none
  | .regex p f => if vs.isEmpty then some (.regex p f) else none
  | .cmp op v => if vs.isEmpty then some (.cmp op v.toPV) else none

mutual
def erase : CV → Option PV
  | .leaf s => some s.toPV
  | .seq xs => match eraseList xs with
    | some vs => some (.list vs)
    | none => none
  | .node _ tag kids => match eraseList kids with
    | some vs => eraseTag tag vs
    | none => none
def eraseList : List CV → Option (List PV)
  | [] => some []
  | x :: xs => match erase x, eraseList xs with
    | some v, some vs => some (v :: vs)
    | _, _ => none
end


/-! ### what the T1 encoder writes for an erased value -/

theorem scalar_encode (s : Scalar) : encode s.toPV = .ok s.toJ := by
  cases s <;> simp [Scalar.toPV, Scalar.toJ, encode]

theorem allStr_zipStr : (keys : List String) → (vs : List PV) → allStr (zipStr keys vs) = true
  | [], _ => by simp [zipStr, allStr]
  | _ :: _, [] => by simp [zipStr, allStr]
  | k :: ks, v :: vs => by simp [zipStr, allStr, Key.isStr, allStr_zipStr ks vs]

/-- string-keyed dict values: the encoder writes the children under their keys -/
theorem encodeVals_zipStr : (keys : List String) → (vs : List PV) → keys.length = vs.length → ∀ o,
    encodeVals (zipStr keys vs) = .ok o → ∃ ys, encodeList vs = .ok ys ∧ o = zipKeys keys ys
  | [], [], _, o, h => by
    simp [zipStr, encodeVals] at h
    exact ⟨[], by simp [encodeList], by simp [zipKeys, ← h]⟩
  | [], _ :: _, hl, _, _ => by simp at hl
  | _ :: _, [], hl, _, _ => by simp at hl
  | k :: ks, v :: vs, hl, o, h => by
    simp only [zipStr, encodeVals, bind, Except.bind] at h
    cases hv : encode v with
    | error e => rw [hv] at h; cases h
    | ok y =>
      rw [hv] at h
      simp only at h
      cases hr : encodeVals (zipStr ks vs) with
      | error e => rw [hr] at h; cases h
      | ok o' =>
        rw [hr] at h
        simp only [pure, Except.pure] at h
        injection h with h
        obtain ⟨ys, h1, h2⟩ := encodeVals_zipStr ks vs (by simpa using hl) o' hr
        exact ⟨y :: ys, by simp [encodeList, hv, h1, bind, Except.bind, pure, Except.pure], by simp [zipKeys, ← h, h2, keyName]⟩

theorem encodeKvs_zipStr : (keys : List String) → (vs : List PV) → keys.length = vs.length → ∀ o,
    encodeKvs (zipStr keys vs) = .ok o → ∃ ys, encodeList vs = .ok ys ∧ o = zipKeys keys ys
  | [], [], _, o, h => by
    simp [zipStr, encodeKvs] at h
    exact ⟨[], by simp [encodeList], by simp [zipKeys, ← h]⟩
  | [], _ :: _, hl, _, _ => by simp at hl
  | _ :: _, [], hl, _, _ => by simp at hl
  | k :: ks, v :: vs, hl, o, h => by
    simp only [zipStr, encodeKvs, bind, Except.bind, keyStr] at h
    cases hv : encode v with
    | error e => rw [hv] at h; cases h
    | ok y =>
      rw [hv] at h
      simp only at h
      cases hr : encodeKvs (zipStr ks vs) with
      | error e => rw [hr] at h; cases h
      | ok o' =>
        rw [hr] at h
        simp only [pure, Except.pure] at h
        injection h with h
        obtain ⟨ys, h1, h2⟩ := encodeKvs_zipStr ks vs (by simpa using hl) o' hr
        exact ⟨y :: ys, by simp [encodeList, hv, h1, bind, Except.bind, pure, Except.pure], by simp [zipKeys, ← h, h2]⟩


theorem atomOfPV_toPV {p : PV} {a : Atom} (h : atomOfPV p = some a) : p = a.toPV := by
  cases p <;> simp [atomOfPV] at h <;> subst h <;> rfl

theorem atomsOfPVs_toPV : (xs : List PV) → (as : List Atom) → atomsOfPVs xs = some as → xs = as.map Atom.toPV
  | [], as, h => by simp [atomsOfPVs] at h; subst h; rfl
  | x :: xs, as, h => by
    simp only [atomsOfPVs] at h
    cases h1 : atomOfPV x with
    | none => rw [h1] at h; simp at h
    | some a =>
      cases h2 : atomsOfPVs xs with
      | none => rw [h1, h2] at h; simp at h
      | some as' =>
        rw [h1, h2] at h
        simp only [Option.some.injEq] at h
        subst h
        simp [atomOfPV_toPV h1, ← atomsOfPVs_toPV xs as' h2]

theorem keyOfPV_toPV {p : PV} {k : Key} (h : keyOfPV p = .ok k) : p = k.toPV := by
  cases p with
  | tuple xs =>
    simp only [keyOfPV] at h
    cases ha : atomsOfPVs xs with
    | none => rw [ha] at h; cases h
    | some as =>
      rw [ha] at h
      injection h with h
      subst h
      simp [Key.toPV, ← atomsOfPVs_toPV xs as ha]
  | none => simp [keyOfPV] at h; subst h; rfl
  | bool b => simp [keyOfPV] at h; subst h; rfl
  | int i => simp [keyOfPV] at h; subst h; rfl
  | str s => simp [keyOfPV] at h; subst h; rfl
  | _ => simp [keyOfPV] at h

/-- item-list dicts: the encoder writes `[encode k, encode v]` pairs, i.e. the children two by two -/
theorem encodeItems_pairs : (vs : List PV) → ∀ kvs items, pairKeys vs = some kvs → encodeItems kvs = .ok items →
    ∃ ys, encodeList vs = .ok ys ∧ items = pairUp ys
  | [], kvs, items, hp, he => by
    simp [pairKeys] at hp
    subst hp
    simp [encodeItems] at he
    exact ⟨[], by simp [encodeList], by simp [pairUp, ← he]⟩
  | [_], kvs, items, hp, _ => by simp [pairKeys] at hp
  | k :: v :: rest, kvs, items, hp, he => by
    simp only [pairKeys] at hp
    cases hk : keyOfPV k with
    | error e => rw [hk] at hp; simp at hp
    | ok key =>
      cases hr : pairKeys rest with
      | none => rw [hk, hr] at hp; simp at hp
      | some kvs' =>
        rw [hk, hr] at hp
        simp only [Option.some.injEq] at hp
        subst hp
        simp only [encodeItems, bind, Except.bind] at he
        cases hv : encode v with
        | error e => rw [hv] at he; cases he
        | ok y =>
          rw [hv] at he
          simp only at he
          cases hi : encodeItems kvs' with
          | error e => rw [hi] at he; cases he
          | ok items' =>
            rw [hi] at he
            simp only [pure, Except.pure] at he
            injection he with he
            obtain ⟨ys, h1, h2⟩ := encodeItems_pairs rest kvs' items' hr hi
            have hke : encode k = .ok (encodeKey key) := by rw [keyOfPV_toPV hk]; exact encodeKey_spec key
            exact ⟨encodeKey key :: y :: ys, by simp [encodeList, hke, hv, h1, bind, Except.bind, pure, Except.pure],
              by simp [pairUp, ← he, h2]⟩

theorem numJ_scalar (s : Scalar) (j : J) (h : numJ s.toPV = some j) : j = s.toJ := by
  cases s <;> simp [Scalar.toPV, numJ] at h <;> simp [Scalar.toJ, ← h]


theorem encodeList_ok_cons {x : PV} {xs : List PV} {ys : List J} (h : encodeList (x :: xs) = .ok ys) :
    ∃ y ys', encode x = .ok y ∧ encodeList xs = .ok ys' ∧ ys = y :: ys' := by
  simp only [encodeList, bind, Except.bind] at h
  cases hx : encode x with
  | error e => rw [hx] at h; cases h
  | ok y =>
    rw [hx] at h
    simp only at h
    cases hr : encodeList xs with
    | error e => rw [hr] at h; cases h
    | ok ys' =>
      rw [hr] at h
      simp only [pure, Except.pure] at h
      injection h with h
      exact ⟨y, ys', rfl, rfl, h.symm⟩

/-- what the T1 encoder writes for the value a tag stands for, given what it writes for the children -/
theorem eraseTag_encode (tag : Tag) (vs : List PV) (v : PV) (j : J) (hv : eraseTag tag vs = some v) (hj : encode v = .ok j) :
    ∃ ys, encodeList vs = .ok ys ∧ j = wrapT tag ys := by
  cases tag with
  | list =>
    simp only [eraseTag, Option.some.injEq] at hv; subst hv
    simp only [encode, bind, Except.bind] at hj
    cases he : encodeList vs with
    | error e => rw [he] at hj; cases hj
    | ok ys => rw [he] at hj; simp only [pure, Except.pure] at hj; injection hj with hj; exact ⟨ys, rfl, by simp [wrapT, ← hj]⟩
  | tuple =>
    simp only [eraseTag, Option.some.injEq] at hv; subst hv
    simp only [encode, bind, Except.bind] at hj
    cases he : encodeList vs with
    | error e => rw [he] at hj; cases hj
    | ok ys =>
      rw [he] at hj; simp only [pure, Except.pure] at hj; injection hj with hj
      exact ⟨ys, rfl, by simp [wrapT, Tag.tyName, Tag.body, wrap, ← hj]⟩
  | set =>
    simp only [eraseTag, Option.some.injEq] at hv; subst hv
    simp only [encode, bind, Except.bind] at hj
    cases he : encodeList vs with
    | error e => rw [he] at hj; cases hj
    | ok ys =>
      rw [he] at hj; simp only [pure, Except.pure] at hj; injection hj with hj
      exact ⟨ys, rfl, by simp [wrapT, Tag.tyName, Tag.body, wrap, ← hj]⟩
  | deque =>
    simp only [eraseTag, Option.some.injEq] at hv; subst hv
    simp only [encode, bind, Except.bind] at hj
    cases he : encodeList vs with
    | error e => rw [he] at hj; cases hj
    | ok ys =>
      rw [he] at hj; simp only [pure, Except.pure] at hj; injection hj with hj
      exact ⟨ys, rfl, by simp [wrapT, Tag.tyName, Tag.body, wrap, ← hj]⟩
  | dictStr keys =>
    simp only [eraseTag] at hv
    split at hv
    · rename_i hl
      injection hv with hv; subst hv
      simp only [encode, allStr_zipStr, if_true, bind, Except.bind] at hj
      cases he : encodeVals (zipStr keys vs) with
      | error e => rw [he] at hj; cases hj
      | ok o =>
        rw [he] at hj; simp only [pure, Except.pure] at hj; injection hj with hj
        obtain ⟨ys, h1, h2⟩ := encodeVals_zipStr keys vs hl o he
        exact ⟨ys, h1, by simp [wrapT, Tag.tyName, Tag.body, wrap, ← hj, h2]⟩
    · cases hv
  | dictItems =>
    simp only [eraseTag] at hv
    cases hp : pairKeys vs with
    | none => rw [hp] at hv; cases hv
    | some kvs =>
      rw [hp] at hv
      simp only at hv
      split at hv
      · cases hv
      · rename_i hns
        injection hv with hv; subst hv
        simp only [encode, hns, bind, Except.bind] at hj
        cases he : encodeItems kvs with
        | error e => rw [he] at hj; simp at hj
        | ok items =>
          rw [he] at hj; simp only [pure, Except.pure, Bool.false_eq_true, if_false] at hj; injection hj with hj
          obtain ⟨ys, h1, h2⟩ := encodeItems_pairs vs kvs items hp he
          exact ⟨ys, h1, by simp [wrapT, Tag.tyName, Tag.body, ← hj, h2]⟩
  | data cls keys =>
    simp only [eraseTag] at hv
    split at hv
    · rename_i hcls
      subst hcls
      split at hv
      · rename_i hkeys
        subst hkeys
        have act : ∀ uid name fu st ctx args sc, encode (.action uid name fu st ctx args sc) = .ok j →
            ∃ c a, encode ctx = .ok c ∧ encode args = .ok a ∧
              j = wrap "Action" (.obj [("uid", .str uid), ("name", .str name), ("flow_uid", optStrJ fu), ("status", .str st),
                ("context", c), ("start_event_arguments", a), ("flow_scope_count", .int sc)]) := by
          intro uid name fu st ctx args sc h
          simp only [encode, bind, Except.bind] at h
          cases hc : encode ctx with
          | error e => rw [hc] at h; cases h
          | ok c =>
            rw [hc] at h; simp only at h
            cases ha : encode args with
            | error e => rw [ha] at h; cases h
            | ok a =>
              rw [ha] at h; simp only [pure, Except.pure] at h; injection h with h
              exact ⟨c, a, rfl, rfl, h.symm⟩
        split at hv
        · rename_i uid name st ctx args sc
          injection hv with hv; subst hv
          obtain ⟨c, a, hc, ha, hjj⟩ := act _ _ _ _ _ _ _ hj
          refine ⟨[.str uid, .str name, .null, .str st, c, a, .int sc], ?_, ?_⟩
          · simp [encodeList, encode, hc, ha, bind, Except.bind, pure, Except.pure]
          · simp [hjj, wrapT, Tag.tyName, Tag.body, wrap, zipKeys, actionKeys, optStrJ]
        · rename_i uid name fu st ctx args sc
          injection hv with hv; subst hv
          obtain ⟨c, a, hc, ha, hjj⟩ := act _ _ _ _ _ _ _ hj
          refine ⟨[.str uid, .str name, .str fu, .str st, c, a, .int sc], ?_, ?_⟩
          · simp [encodeList, encode, hc, ha, bind, Except.bind, pure, Except.pure]
          · simp [hjj, wrapT, Tag.tyName, Tag.body, wrap, zipKeys, actionKeys, optStrJ]
        · cases hv
      · cases hv
    · split at hv
      · rename_i hl
        split at hv
        · rename_i hrc
          subst hrc
          injection hv with hv; subst hv
          simp only [encode, bind, Except.bind] at hj
          cases he : encodeKvs (zipStr keys vs) with
          | error e => rw [he] at hj; cases hj
          | ok o =>
            rw [he] at hj; simp only [pure, Except.pure] at hj; injection hj with hj
            obtain ⟨ys, h1, h2⟩ := encodeKvs_zipStr keys vs hl o he
            exact ⟨ys, h1, by simp [wrapT, Tag.tyName, Tag.body, wrap, ← hj, h2]⟩
        · injection hv with hv; subst hv
          simp only [encode, bind, Except.bind] at hj
          cases he : encodeKvs (zipStr keys vs) with
          | error e => rw [he] at hj; cases hj
          | ok o =>
            rw [he] at hj; simp only [pure, Except.pure] at hj; injection hj with hj
            obtain ⟨ys, h1, h2⟩ := encodeKvs_zipStr keys vs hl o he
            exact ⟨ys, h1, by simp [wrapT, Tag.tyName, Tag.body, wrap, ← hj, h2]⟩
      · cases hv
  | enum c n =>
    simp only [eraseTag] at hv
    split at hv
    · rename_i he
      injection hv with hv; subst hv
      have : vs = [] := by simpa using he
      subst this
      simp only [encode] at hj; injection hj with hj
      exact ⟨[], by simp [encodeList], by simp [wrapT, Tag.tyName, Tag.body, ← hj]⟩
    · cases hv
  | datetime iso =>
    simp only [eraseTag] at hv
    split at hv
    · rename_i he
      injection hv with hv; subst hv
      have : vs = [] := by simpa using he
      subst this
      simp only [encode] at hj; injection hj with hj
      exact ⟨[], by simp [encodeList], by simp [wrapT, Tag.tyName, Tag.body, wrap, ← hj]⟩
    · cases hv
  | specType sv =>
    simp only [eraseTag] at hv
    split at hv
    · rename_i he
      injection hv with hv; subst hv
      have : vs = [] := by simpa using he
      subst this
      simp only [encode] at hj; injection hj with hj
      exact ⟨[], by simp [encodeList], by simp [wrapT, Tag.tyName, Tag.body, wrap, ← hj]⟩
    · cases hv
  | regex p f =>
    simp only [eraseTag] at hv
    split at hv
    · rename_i he
      injection hv with hv; subst hv
      have : vs = [] := by simpa using he
      subst this
      simp only [encode] at hj; injection hj with hj
      exact ⟨[], by simp [encodeList], by simp [wrapT, Tag.tyName, Tag.body, ← hj]⟩
    · cases hv
  | cmp op sv =>
    simp only [eraseTag] at hv
    split at hv
    · rename_i he
      injection hv with hv; subst hv
      have : vs = [] := by simpa using he
      subst this
      simp only [encode] at hj
      split at hj
      · cases hn : numJ sv.toPV with
        | none => rw [hn] at hj; cases hj
        | some j' =>
          rw [hn] at hj; injection hj with hj
          exact ⟨[], by simp [encodeList], by simp [wrapT, Tag.tyName, Tag.body, ← hj, numJ_scalar sv j' hn]⟩
      · cases hj
    · cases hv


/-! ### erasing the identities commutes with encoding -/
mutual
/-- **`erase_encode`**: whatever the sharing-free encoder (T1) writes for the erased value is the T1 rendering of the
    reference-free abstract encoding of the labelled value -/
theorem erase_encode : (t : CV) → ∀ v j, erase t = some v → encode v = .ok j → j = renderT (skel t)
  | .leaf s, v, j, hv, hj => by
    simp only [erase, Option.some.injEq] at hv; subst hv
    rw [scalar_encode] at hj; injection hj with hj
    simp [skel, renderT, ← hj]
  | .seq xs, v, j, hv, hj => by
    simp only [erase] at hv
    cases hx : eraseList xs with
    | none => rw [hx] at hv; cases hv
    | some vs =>
      rw [hx] at hv; injection hv with hv; subst hv
      simp only [encode, bind, Except.bind] at hj
      cases he : encodeList vs with
      | error e => rw [he] at hj; cases hj
      | ok ys =>
        rw [he] at hj; simp only [pure, Except.pure] at hj; injection hj with hj
        simp [skel, renderT, ← hj, eraseList_encode xs vs ys hx he]
  | .node i tag kids, v, j, hv, hj => by
    simp only [erase] at hv
    cases hx : eraseList kids with
    | none => rw [hx] at hv; cases hv
    | some vs =>
      rw [hx] at hv
      obtain ⟨ys, h1, h2⟩ := eraseTag_encode tag vs v j hv hj
      simp [skel, renderT, h2, eraseList_encode kids vs ys hx h1]
theorem eraseList_encode : (xs : List CV) → ∀ vs js, eraseList xs = some vs → encodeList vs = .ok js → js = renderTList (skelList xs)
  | [], vs, js, hv, hj => by
    simp only [eraseList, Option.some.injEq] at hv; subst hv
    simp [encodeList] at hj
    simp [skelList, renderTList, ← hj]
  | x :: xs, vs, js, hv, hj => by
    simp only [eraseList] at hv
    cases h1 : erase x with
    | none => rw [h1] at hv; simp at hv
    | some v =>
      cases h2 : eraseList xs with
      | none => rw [h1, h2] at hv; simp at hv
      | some vs' =>
        rw [h1, h2] at hv; simp only [Option.some.injEq] at hv; subst hv
        obtain ⟨y, ys', hy, hys, hjs⟩ := encodeList_ok_cons hj
        subst hjs
        simp [skelList, renderTList, erase_encode x v y h1 hy, eraseList_encode xs vs' ys' h2 hys]
end


/-! ### on a tree-shaped value the encoder with `refs` never writes a reference -/
mutual
def ids : CV → List Nat
  | .leaf _ => []
  | .seq xs => idsList xs
  | .node i _ kids => i :: idsList kids
def idsList : List CV → List Nat
  | [] => []
  | x :: xs => ids x ++ idsList xs
end

/-- no identity occurs twice and none is registered yet -/
def TreeShaped (refs : List Nat) (t : CV) : Prop := (ids t).Nodup ∧ ∀ i ∈ ids t, i ∉ refs

mutual
theorem encodeS_refs_sub : (t : CV) → ∀ refs j, j ∈ (encodeS refs t).2 → j ∈ refs ∨ j ∈ ids t
  | .leaf s, refs, j, h => by simp [encodeS] at h; exact .inl h
  | .seq xs, refs, j, h => by
    simp only [encodeS] at h
    simpa [ids] using encodeSList_refs_sub xs refs j h
  | .node i tag kids, refs, j, h => by
    simp only [encodeS] at h
    split at h
    · exact .inl h
    · simp only [List.mem_cons] at h
      rcases h with h | h
      · exact .inr (by simp [ids, h])
      · rcases encodeSList_refs_sub kids refs j h with h | h
        · exact .inl h
        · exact .inr (by simp [ids, h])
theorem encodeSList_refs_sub : (xs : List CV) → ∀ refs j, j ∈ (encodeSList refs xs).2 → j ∈ refs ∨ j ∈ idsList xs
  | [], refs, j, h => by simp [encodeSList] at h; exact .inl h
  | x :: xs, refs, j, h => by
    simp only [encodeSList] at h
    rcases encodeSList_refs_sub xs _ j h with h | h
    · rcases encodeS_refs_sub x refs j h with h | h
      · exact .inl h
      · exact .inr (by simp [idsList, h])
    · exact .inr (by simp [idsList, h])
end

mutual
theorem encodeS_tree : (t : CV) → ∀ refs, (ids t).Nodup → (∀ i ∈ ids t, i ∉ refs) → (encodeS refs t).1 = skel t
  | .leaf s, refs, _, _ => by simp [encodeS, skel]
  | .seq xs, refs, hn, hf => by
    simp only [encodeS, skel]
    rw [encodeSList_tree xs refs (by simpa [ids] using hn) (by simpa [ids] using hf)]
  | .node i tag kids, refs, hn, hf => by
    simp only [ids, List.nodup_cons] at hn
    have hi : i ∉ refs := hf i (by simp [ids])
    simp only [encodeS, hi, if_false, skel]
    rw [encodeSList_tree kids refs hn.2 (fun j hj => hf j (by simp [ids, hj]))]
theorem encodeSList_tree : (xs : List CV) → ∀ refs, (idsList xs).Nodup → (∀ i ∈ idsList xs, i ∉ refs) →
    (encodeSList refs xs).1 = skelList xs
  | [], refs, _, _ => by simp [encodeSList, skelList]
  | x :: xs, refs, hn, hf => by
    simp only [idsList, List.nodup_append] at hn
    simp only [encodeSList, skelList]
    rw [encodeS_tree x refs hn.1 (fun j hj => hf j (by simp [idsList, hj]))]
    rw [encodeSList_tree xs _ hn.2.1 ?_]
    intro j hj hmem
    rcases encodeS_refs_sub x refs j hmem with h | h
    · exact hf j (by simp [idsList, hj]) h
    · exact hn.2.2 j h j hj rfl
end

/-- **both encoders write the same abstract encoding**: on a tree-shaped labelled value the encoder with `refs` (T2) writes
    `render (skel t)`, the sharing-free encoder (T1) writes `renderT (skel t)` for the erased value -/
theorem encodeC_tree (t : CV) (refs : List Nat) (h : TreeShaped refs t) : (encodeC refs t).1 = render (skel t) := by
  rw [encodeC_refines, encodeS_tree t refs h.1 h.2]

end NemoVerif.Shared
