/-
  C08 — progress of the caller: `exec` keeps `flowId` / `arguments` of every instance; the two internal-event
  matches of `$x = await f` succeed for a flow without parameters (through the C04 matcher model).
-/
import NemoVerif.Lemmas.Bind
namespace NemoVerif.Bind
open NemoVerif

/-! ### `exec` never changes the identity (`flowId`, `arguments`) of an instance -/

def SameShape (l l' : List (Nat × Inst)) : Prop :=
  ∀ w f, findInst w l = some f → ∃ f', findInst w l' = some f' ∧ f'.arguments = f.arguments ∧ f'.flowId = f.flowId

theorem SameShape.refl (l : List (Nat × Inst)) : SameShape l l := fun _ f h => ⟨f, h, rfl, rfl⟩

theorem SameShape.trans {a b c : List (Nat × Inst)} (h1 : SameShape a b) (h2 : SameShape b c) : SameShape a c := by
  intro w f hf
  obtain ⟨f1, hf1, a1, i1⟩ := h1 w f hf
  obtain ⟨f2, hf2, a2, i2⟩ := h2 w f1 hf1
  exact ⟨f2, hf2, a2.trans a1, i2.trans i1⟩

theorem sameShape_setCtx (s : St) (u : Nat) (g c : Ctx) : SameShape s.insts (s.setCtx u g c).insts := by
  intro w f hf
  unfold St.setCtx
  cases hu : findInst u s.insts with
  | none => exact ⟨f, hf, rfl, rfl⟩
  | some fu =>
    simp only
    by_cases hw : w = u
    · subst hw
      rw [hu] at hf; cases hf
      exact ⟨_, findInst_replace_eq w _ f _ hu, rfl, rfl⟩
    · exact ⟨f, by rw [findInst_replace_ne u w _ hw]; exact hf, rfl, rfl⟩

theorem sameShape_add (l : List (Nat × Inst)) (n : Nat) (f : Inst) : SameShape l (l ++ [(n, f)]) :=
  fun w f' h => ⟨f', findInst_append_some w f' (n, f) l h, rfl, rfl⟩

theorem exec_sameShape (flows : List (String × FlowDef)) : ∀ (fuel : Nat) (s : St) (u : Nat) (body : List Stmt),
    SameShape s.insts (exec flows fuel s u body).1.insts
  | 0, s, u, body => by simp only [exec]; exact .refl _
  | fuel + 1, s, u, [] => by simp only [exec]; exact .refl _
  | fuel + 1, s, u, stmt :: rest => by
    cases stmt with
    | assign k e => simp only [exec]; exact (sameShape_setCtx s u _ _).trans (exec_sameShape flows fuel _ u rest)
    | global x => simp only [exec]; exact (sameShape_setCtx s u _ _).trans (exec_sameShape flows fuel _ u rest)
    | ret e => simp only [exec]; exact sameShape_setCtx s u _ _
    | send name args =>
      simp only [exec]
      exact exec_sameShape flows fuel { s with out := s.out ++ [(name, args.map fun ke => (ke.1, s.evalIn u ke.2))] } u rest
    | block => simp only [exec]; exact .refl _
    | call form retVar flow pos named =>
      simp only [exec]
      split
      · exact .refl _
      · rename_i d _
        split
        · exact .refl _
        · rename_i f0 _
          split
          · exact sameShape_add _ _ _
          · rename_i f1 _
            have g2 := (sameShape_add s.insts s.next f1).trans (exec_sameShape flows fuel { s with insts := s.insts ++ [(s.next, f1)], next := s.next + 1 } s.next d.body)
            split
            · exact g2
            · exact g2
            · exact g2
            · split
              · exact g2
              · split
                · exact g2.trans (exec_sameShape flows fuel _ u rest)
                · split
                  · exact g2
                  · split
                    · exact g2
                    · split
                      · exact g2.trans (exec_sameShape flows fuel _ u rest)
                      · split
                        · exact g2
                        · exact g2.trans ((sameShape_setCtx _ u _ _).trans (exec_sameShape flows fuel _ u rest))

/-- a flow without parameters called without arguments: the caller's `match FlowStarted(flow_id=.., flow_instance_uid=..)`
    accepts the callee's FlowStarted event, whatever the callee's context holds -/
theorem handshake_noargs (n : Nat) (f : Inst) (ha : f.arguments = []) :
    handshake (matchArgs [] f.flowId n) n f = true := by
  simp [handshake, evMatches, flowObj, matchArgs, Bind.set, toDict, keyStr, uidVal, ha,
    Match.refEvent, Match.FlowObj.matchEvent, Match.eventScore, Match.eventCore, Generated.C04.evFlowStarted,
    Generated.C04.internalEventsAll, Generated.C04.argumentFilter, Generated.C04.evStartFlow, Generated.C04.evFlowFinished,
    Generated.C04.evFlowFailed, Match.dictUpdate, Match.lookup, Match.score, Match.scoreDict, Val.isInstanceOfTypeOf,
    Val.pyType, PyType.isSub, Val.scalarEq]

/-- … and `match $ref.Finished()` accepts its FlowFinished event, whatever the returned value is
    (`return_value` is one of the keys the comparison skips) -/
theorem finishedMatch_noargs (n : Nat) (f : Inst) (ha : f.arguments = []) : finishedMatch n f = true := by
  simp only [finishedMatch, evMatches, flowObj, toDict, ha, List.map_nil]
  cases hr : lookup returnKey f.context <;>
  simp [Match.refEvent, Match.FlowObj.matchEvent, Match.eventScore, Match.eventCore, Generated.C04.evFlowStarted,
    Generated.C04.internalEventsAll, Generated.C04.argumentFilter, Generated.C04.evStartFlow, Generated.C04.evFlowFinished,
    Generated.C04.evFlowFailed, Match.dictUpdate, Match.lookup, Match.score, Match.scoreDict, Val.isInstanceOfTypeOf,
    Val.pyType, PyType.isSub, Val.scalarEq, Match.setKey]


theorem findInst_append_new' (n : Nat) (f : Inst) : ∀ l : List (Nat × Inst), (∀ x ∈ uids l, x < n) → findInst n (l ++ [(n, f)]) = some f
  | [], _ => by simp [findInst]
  | (u', f') :: r, h => by
    have h1 : u' ≠ n := Nat.ne_of_lt (h u' (by simp [uids]))
    simp only [List.cons_append, findInst, h1, if_false]
    exact findInst_append_new' n f r (fun x hx => h x (by simp only [uids, List.map_cons, List.mem_cons] at hx ⊢; exact Or.inr hx))

/-- **Progress of the caller, full strength for flows without parameters** (`$x = await f`, no arguments):
    if the callee's synchronous run ends `finished` with `_return_value = v`, the `await` returns — the caller
    continues with the statements after the call in the state the callee left, and `$x` reads `v`.  No
    hypothesis about the two internal-event matches: they are PROVED to succeed (`handshake_noargs`,
    `finishedMatch_noargs`, through the C04 matcher model), using that `exec` never changes an instance's
    `flowId` / `arguments` (`exec_sameShape`). -/
theorem await_progress_noargs_core (flows : List (String × FlowDef)) (fuel : Nat) (s : St) (u : Nat) (x flow : String)
    (rest : List Stmt) (body : List Stmt) (s2 : St) (v : Val) (hfresh : Fresh s)
    (hd : findFlow flow flows = some { params := [], rets := [], body := body })
    (hrun : exec flows fuel { s with insts := s.insts ++ [(s.next, { flowId := flow, arguments := [], context := [], parent := some (uidVal u) })], next := s.next + 1 }
        s.next body = (s2, .finished))
    (hret : lookup returnKey (s2.ctxOf s.next) = some v) :
    exec flows (fuel + 1) s u (.call .await (some x) flow [] [] :: rest) =
      exec flows fuel (s2.setCtx u (assignCtx x v s2.globals (s2.ctxOf u)).1 (assignCtx x v s2.globals (s2.ctxOf u)).2) u rest ∧
    evalVar (assignCtx x v s2.globals (s2.ctxOf u)).1 (assignCtx x v s2.globals (s2.ctxOf u)).2 x = v := by
  refine ⟨?_, evalVar_assignCtx x v _ _⟩
  have hc : createFlowInstance flow [] [] (startArgs (userArgs s.globals (s.ctxOf u) [] []) .await flow s.next u)
      = .ok { flowId := flow, arguments := [], context := [] } := by
    simp [createFlowInstance, startCtx, startArgs, matchArgs, userArgs, posArgs, update, Bind.set, lookup, bindNamed, bindPos, bindRet]
  have hs : startFlow false (startArgs (userArgs s.globals (s.ctxOf u) [] []) .await flow s.next u)
      { flowId := flow, arguments := [], context := [] } = .ok { flowId := flow, arguments := [], context := [], parent := some (uidVal u) } := by
    simp [startFlow, startArgs, matchArgs, userArgs, posArgs, update, Bind.set, lookup, has, startLoop, keys]
  -- the callee instance after its run: same flowId, same (empty) arguments
  have hshape := exec_sameShape flows fuel { s with insts := s.insts ++ [(s.next, { flowId := flow, arguments := [], context := [], parent := some (uidVal u) })], next := s.next + 1 } s.next body
  rw [hrun] at hshape
  obtain ⟨f2, hf2, ha2, hi2⟩ := hshape s.next _ (findInst_append_new' s.next _ s.insts hfresh)
  simp only at ha2 hi2
  have hctx : s2.ctxOf s.next = f2.context := ctxOf_of_find hf2
  rw [hctx] at hret
  have hhs : handshake (matchArgs (userArgs s2.globals (s2.ctxOf u) [] []) flow s.next) s.next f2 = true := by
    have := handshake_noargs s.next f2 ha2
    rw [hi2] at this
    simpa [userArgs, posArgs, update] using this
  have hfm := finishedMatch_noargs s.next f2 ha2
  have hfin : lookup (.name "return_value") (finishedArgs (uidVal s.next) f2) = some v := by
    simp [finishedArgs, hret, lookup_set_eq]
  simp only [exec, hd, hc, hs, hrun, hf2, Option.getD_some, hhs, hfm, captureReturn, hfin]
  simp

end NemoVerif.Bind
