/-
  C06 / refinement CoreVM → Lifetime, part 8f: the `_new_action_instance` element of `slide` (`slideStep`, case `.newAction spec`)
  IS `IOp.newAction` followed by `IOp.frame` (the scopes the head is in get the new action).
-/
import NemoVerif.Lemmas.LifetimeCoreVM8e
namespace NemoVerif.Lifetime.Refine
open NemoVerif NemoVerif.CoreVM NemoVerif.CoreIndex NemoVerif.Lifetime

/-- loop body of "register the action in all scopes of the head" -/
def scopeAddStep (f : FUid) (u : String) (sc : String) (_ : PUnit) : M (ForInStep PUnit) := do
  let x ← getInstX f
  match OMap.lookup sc x.scopes with
  | some _ => modInstX f fun x => { x with scopes := OMap.modify sc (fun p => (p.1, p.2 ++ [u])) x.scopes }
  | none => pyRaise "KeyError" s!"{sc} (model line 335)"
  pure (ForInStep.yield PUnit.unit)

/-- the `.newAction spec` branch of `slideStep` -/
def vmNewAction (f : FUid) (h : HUid) (spec : Spec) (pos : Nat) : M Unit := do
  let k : Key := (f, h)
  let args ← evalArgs f spec.args
  let name ← match spec.name with
    | some nm => pure nm
    | none => pyRaise "AssertionError" "action without name"
  let u ← freshUid
  CoreVM.setAction { uid := u, name := name, flowUid := some f, startArgs := args }
  modInstX f fun x => { x with actionUids := x.actionUids ++ [u] }
  let hx ← getHeadX k
  let _ ← forIn hx.scopeUids PUnit.unit (scopeAddStep f u)
  match spec.ref with
  | some r => setCtxVar f r (.ref "action" u)
  | none => pyRaise "AssertionError" "_new_action_instance without reference"
  setHeadPos k (pos + 1)

theorem ebind_assoc' {α β γ : Type} (m : M α) (k : α → M β) (g : β → M γ) :
    EStateM.bind (EStateM.bind m k) g = EStateM.bind m fun a => EStateM.bind (k a) g := ebind_assoc m k g

theorem slideStep_newAction (fuel : Nat) (f : FUid) (h : HUid) (vm : VM) (cfg : FlowCfg) (hd : Head) (spec : Spec)
    (hcfg : cfgOfInst f vm = .ok cfg vm) (hhd : getHead? (f, h) vm = .ok (some hd) vm)
    (hpos : ¬ (hd.pos ≥ cfg.elements.size ∨ hd.status = .inactive))
    (hel : cfg.elements[hd.pos]! = .newAction spec) :
    slideStep fuel f h vm = (do vmNewAction f h spec hd.pos; return (false, [])) vm := by
  unfold slideStep
  simp only [bind, EStateM.bind, hcfg, hhd]
  have hp : (decide (hd.pos ≥ cfg.elements.size) || decide (hd.status = HeadStatus.inactive)) = false := by
    cases hb : (decide (hd.pos ≥ cfg.elements.size) || decide (hd.status = HeadStatus.inactive)) with
    | false => rfl
    | true => exact absurd (by simpa using hb) hpos
  rw [hp, hel]
  simp only [Bool.false_eq_true, if_false]
  unfold vmNewAction
  show _ = EStateM.bind _ (fun _ => pure (false, [])) vm
  simp only [bind, ebind_assoc]
  cases spec.name <;> cases spec.ref <;> simp only [ebind_assoc] <;> rfl


variable (ν φ : String → Nat)

theorem modFlow_modFlow (s : State) (u : Nat) (g1 g2 : Flow → Flow) :
    modFlow (modFlow s u g1) u g2 = modFlow s u (fun fl => g2 (g1 fl)) := by
  apply state_ext
  · funext v
    simp only [modFlow_flows]
    by_cases hv : v = u
    · simp only [hv, if_true, Option.map_map]; rfl
    · simp only [hv, if_false]
  all_goals simp only [(modFlow_rest _ _ _).1, (modFlow_rest _ _ _).2.1, (modFlow_rest _ _ _).2.2.1,
      (modFlow_rest _ _ _).2.2.2.1, (modFlow_rest _ _ _).2.2.2.2]

theorem modFlow_id (s : State) (u : Nat) : modFlow s u (fun fl => fl) = s := by
  apply state_ext
  · funext v
    simp only [modFlow_flows]
    split
    · next e => rw [e]; simp
    · rfl
  all_goals simp only [(modFlow_rest _ _ _).1, (modFlow_rest _ _ _).2.1, (modFlow_rest _ _ _).2.2.1,
      (modFlow_rest _ _ _).2.2.2.1, (modFlow_rest _ _ _).2.2.2.2]

theorem map_modify_scopes (hν : Function.Injective ν) (sc u : String) : ∀ (l : List (String × List String × List String)),
    (OMap.modify sc (fun p => (p.1, p.2 ++ [u])) l).map (fun e => (ν e.1, e.2.1.map ν, e.2.2.map ν)) =
      (l.map fun e => (ν e.1, e.2.1.map ν, e.2.2.map ν)).map fun e => if e.1 = ν sc then (e.1, e.2.1, e.2.2 ++ [ν u]) else e
  | [] => rfl
  | (k, v) :: l => by
    simp only [OMap.modify, List.map_cons]
    by_cases hk : k = sc
    · subst hk
      simp only [if_true, List.map_cons, List.map_append, List.map_nil]
      rw [map_modify_scopes hν k u l]
    · have : ¬ ν k = ν sc := fun e => hk (hν e)
      simp only [hk, this, if_false, List.map_cons]
      rw [map_modify_scopes hν sc u l]

/-- a record update that only touches `scopes` -/
def ScopesOnly (g : Flow → Flow) : Prop := ∀ fl, g fl = { fl with scopes := (g fl).scopes }

theorem scopeAdd_loop (hν : Function.Injective ν) (f : FUid) (u : String) : ∀ (l : List String) (vm vm' : VM), WF vm →
    forIn l PUnit.unit (scopeAddStep f u) vm = .ok PUnit.unit vm' →
    ∃ g, ScopesOnly g ∧ absVM ν φ vm' = modFlow (absVM ν φ vm) (ν f) g ∧ WF vm'
  | [], vm, vm', hw, h => by
    rw [List.forIn_nil] at h
    cases h
    exact ⟨fun fl => fl, fun _ => rfl, (modFlow_id _ _).symm, hw⟩
  | sc :: l, vm, vm', hw, h => by
    rw [List.forIn_cons] at h
    simp only [bind, EStateM.bind, scopeAddStep] at h
    cases hx : OMap.lookup f vm.r.fx with
    | none => rw [getInstX_run_none f vm hx] at h; cases h
    | some x =>
      rw [getInstX_run_some f vm x hx] at h
      simp only at h
      cases hs : OMap.lookup sc x.scopes with
      | none => rw [hs] at h; cases h
      | some v =>
        rw [hs] at h
        simp only [EStateM.bind, modInstX_run, pure, EStateM.pure] at h
        have w1 : WF (vmMod vm f fun x => { x with scopes := OMap.modify sc (fun p => (p.1, p.2 ++ [u])) x.scopes }) :=
          hw.vmMod f _ (fun _ h => h)
        obtain ⟨g2, hg2, a2, w2⟩ := scopeAdd_loop hν f u l _ vm' w1 h
        refine ⟨fun fl => g2 { fl with scopes := fl.scopes.map fun e => if e.1 = ν sc then (e.1, e.2.1, e.2.2 ++ [ν u]) else e }, ?_, ?_, w2⟩
        · intro fl
          have := hg2 { fl with scopes := fl.scopes.map fun e => if e.1 = ν sc then (e.1, e.2.1, e.2.2 ++ [ν u]) else e }
          show g2 _ = _
          rw [this]
        · rw [a2, absVM_vmMod ν φ hν vm f _
            (fun fl => { fl with scopes := fl.scopes.map fun e => if e.1 = ν sc then (e.1, e.2.1, e.2.2 ++ [ν u]) else e })
            (fun u' x' => by simp only [absFlow, map_modify_scopes ν hν sc u]), modFlow_modFlow]

theorem setCtxVar_frame (hν : Function.Injective ν) (f : FUid) (k : String) (v : Val) (vm vm' : VM) (hw : WF vm)
    (h : setCtxVar f k v vm = .ok () vm') : absVM ν φ vm' = absVM ν φ vm ∧ WF vm' := by
  unfold setCtxVar at h
  simp only [bind, EStateM.bind] at h
  cases ho : ctxHolder f vm with
  | error e s => rw [ho] at h; cases h
  | ok o s =>
    have hs := readOnly_ctxHolder f vm o s ho
    subst hs
    rw [ho] at h
    simp only [modInstX_run] at h
    cases h
    refine ⟨?_, hw.vmMod o _ (fun _ h => h)⟩
    refine (absVM_vmMod ν φ hν s o _ (fun fl => fl) ?_).trans (modFlow_id _ _)
    intro u x; rfl


/-- hypothesis: evaluating the argument expressions of the action leaves index, instance table and action table alone -/
def EvalFrame (f : FUid) (args : List (String × Expr)) : Prop :=
  ∀ vm r vm', evalArgs f args vm = .ok r vm' → vm'.ixs = vm.ixs ∧ vm'.r.fx = vm.r.fx ∧ vm'.r.actions = vm.r.actions

/-- **`_new_action_instance` IS `IOp.newAction` followed by `IOp.frame`** (the action is created INITIALIZED with count 0 and appended
    to `action_uids`; the scopes the head is in get the action).  Hypotheses: the argument evaluation is a frame, the uid the
    constructor draws is not in the action table, the `Stop…` name of the action is well-behaved, the instance exists. -/
theorem corevm_newAction_is_ops (hν : Function.Injective ν) (f : FUid) (h : HUid) (spec : Spec) (pos : Nat) (vm vm' : VM) (hw : WF vm)
    (hev : EvalFrame f spec.args)
    (hfresh : ∀ args vmA, evalArgs f spec.args vm = .ok args vmA → OMap.lookup s!"u{vmA.r.nextUid + 1}z" vm.r.actions = none)
    (hgood : ∀ nm, spec.name = some nm → GoodStop nm) (hxf : ∃ x, OMap.lookup f vm.r.fx = some x) (hro : NameRO f (pos + 1))
    (hrun : vmNewAction f h spec pos vm = .ok () vm') :
    WF vm' ∧ ∃ u heads scopes,
      absVM ν φ vm' = cs (applyOp (applyOp (absVM ν φ vm) (.newAction (ν f) (ν u))) (.frame (ν f) heads scopes)) := by
  obtain ⟨x, hx⟩ := hxf
  unfold vmNewAction at hrun
  simp only [bind, EStateM.bind] at hrun
  cases hea : evalArgs f spec.args vm with
  | error e s => rw [hea] at hrun; cases hrun
  | ok args vmA =>
  rw [hea] at hrun
  obtain ⟨e1, e2, e3⟩ := hev _ _ _ hea
  have hfr := hfresh args vmA hea
  cases hnm : spec.name with
  | none => rw [hnm] at hrun; cases hrun
  | some nm =>
  rw [hnm] at hrun
  simp only [pure, EStateM.pure, EStateM.bind] at hrun
  have hfu : freshUid vmA = .ok s!"u{vmA.r.nextUid + 1}z" (vmFresh vmA) := rfl
  rw [hfu] at hrun
  obtain ⟨u, hu⟩ : ∃ u : String, u = s!"u{vmA.r.nextUid + 1}z" := ⟨_, rfl⟩
  rw [← hu] at hrun hfr
  simp only [setAction_run, modInstX_run] at hrun
  obtain ⟨a, ha⟩ : ∃ a : CoreVM.Action, a = { uid := u, name := nm, flowUid := some f, startArgs := args } := ⟨_, rfl⟩
  rw [← ha] at hrun
  have hau : a.uid = u := by rw [ha]
  -- the state after creating the action and appending its uid
  have wF : WF (vmFresh vmA) := hw.of_same e1 e2 e3
  have aF : absVM ν φ (vmFresh vmA) = absVM ν φ vm := absVM_of_same ν φ vm (vmFresh vmA) (fun _ => by rw [show (vmFresh vmA).ixs = vm.ixs from e1]) e2 e3
  have w1 : WF (vmSetAction (vmFresh vmA) a) := by
    refine ⟨vmSetAction_wfa _ a wF.a, wF.i, ?_, wF.n⟩
    intro k y hk
    have hk' : OMap.lookup k (OMap.insert a.uid a (vmFresh vmA).r.actions) = some y := hk
    by_cases hka : k = a.uid
    · rw [hka, lookup_insert_same] at hk'
      cases hk'
      rw [ha]; exact hgood nm hnm
    · rw [lookup_insert_ne a.uid k a hka] at hk'
      exact wF.g k y hk'
  have w2 : WF (vmMod (vmSetAction (vmFresh vmA) a) f fun x => { x with actionUids := x.actionUids ++ [u] }) := w1.vmMod f _ (fun _ h => h)
  obtain ⟨hx0, hhx⟩ : ∃ hx0, getHeadX (f, h) (vmMod (vmSetAction (vmFresh vmA) a) f fun x => { x with actionUids := x.actionUids ++ [u] })
      = .ok hx0 (vmMod (vmSetAction (vmFresh vmA) a) f fun x => { x with actionUids := x.actionUids ++ [u] }) := ⟨_, rfl⟩
  rw [hhx] at hrun
  simp only at hrun
  cases hl : forIn hx0.scopeUids PUnit.unit (scopeAddStep f u)
      (vmMod (vmSetAction (vmFresh vmA) a) f fun x => { x with actionUids := x.actionUids ++ [u] }) with
  | error e s => rw [hl] at hrun; cases hrun
  | ok u3 vm3 =>
  rw [hl] at hrun
  simp only at hrun
  obtain ⟨g, hg, a3, w3⟩ := scopeAdd_loop ν φ hν f u hx0.scopeUids _ vm3 w2 hl
  cases hrf : spec.ref with
  | none => rw [hrf] at hrun; cases hrun
  | some r =>
  rw [hrf] at hrun
  simp only [EStateM.bind] at hrun
  cases hsc : setCtxVar f r (Val.ref "action" u) vm3 with
  | error e s => rw [hsc] at hrun; cases hrun
  | ok u4 vm4 =>
  rw [hsc] at hrun
  simp only at hrun
  obtain ⟨a4, w4⟩ := setCtxVar_frame ν φ hν f r _ vm3 vm4 w3 hsc
  obtain ⟨a5, w5⟩ := setHeadPos_abs ν φ (f, h) (pos + 1) vm4 vm' w4 hro hrun
  refine ⟨w5, u, ((fun fl : Flow => { fl with actionUids := fl.actionUids ++ [ν u] }) (absFlow ν φ vm f x)).heads,
    (g ((fun fl : Flow => { fl with actionUids := fl.actionUids ++ [ν u] }) (absFlow ν φ vm f x))).scopes, ?_⟩
  -- the abstract state after `newAction`
  have hfl : (absVM ν φ vm).flows (ν f) = some (absFlow ν φ vm f x) := by rw [absVM_flows ν φ hν, hx]; rfl
  have hac : (absVM ν φ vm).actions (ν u) = none := by rw [absVM_actions ν φ hν, hfr]; rfl
  have hnew : applyOp (absVM ν φ vm) (.newAction (ν f) (ν u)) =
      Lifetime.setAction (setFlow (absVM ν φ vm) (ν f) { absFlow ν φ vm f x with actionUids := (absFlow ν φ vm f x).actionUids ++ [ν u] })
        (ν u) ⟨.initialized, 0⟩ := by
    simp only [applyOp, hfl, hac]
    rfl
  have h2 : absVM ν φ (vmMod (vmSetAction (vmFresh vmA) a) f fun x => { x with actionUids := x.actionUids ++ [u] }) =
      applyOp (absVM ν φ vm) (.newAction (ν f) (ν u)) := by
    rw [hnew, absVM_vmMod ν φ hν _ f _ (fun fl => { fl with actionUids := fl.actionUids ++ [ν u] })
      (fun u' x' => by simp only [absFlow, List.map_append, List.map_cons, List.map_nil]),
      absVM_vmSetAction ν φ hν, aF, hau]
    have saf : ∀ (t : State) (b : Nat) (y : Lifetime.Action), (Lifetime.setAction t b y).flows = t.flows := fun _ _ _ => rfl
    apply state_ext
    · funext v
      simp only [modFlow_flows, setFlow_flows, saf, hfl]
      by_cases hv : v = ν f
      · simp only [hv, if_true, Option.map_some]
      · simp only [hv, if_false]
    · simp only [(modFlow_rest _ _ _).1]
      rw [ha]; rfl
    all_goals simp only [(modFlow_rest _ _ _).2.1, (modFlow_rest _ _ _).2.2.1, (modFlow_rest _ _ _).2.2.2.1,
      (modFlow_rest _ _ _).2.2.2.2] <;> rfl
  have hfl1 : (applyOp (absVM ν φ vm) (.newAction (ν f) (ν u))).flows (ν f) =
      some { absFlow ν φ vm f x with actionUids := (absFlow ν φ vm f x).actionUids ++ [ν u] } := by
    rw [hnew]
    show (setFlow _ _ _).flows (ν f) = _
    rw [setFlow_flows, if_pos rfl]
  have hfin : absVM ν φ vm' = applyOp (applyOp (absVM ν φ vm) (.newAction (ν f) (ν u))) (.frame (ν f)
      ((fun fl : Flow => { fl with actionUids := fl.actionUids ++ [ν u] }) (absFlow ν φ vm f x)).heads
      (g ((fun fl : Flow => { fl with actionUids := fl.actionUids ++ [ν u] }) (absFlow ν φ vm f x))).scopes) := by
    rw [a5, a4, a3, h2]
    generalize applyOp (absVM ν φ vm) (.newAction (ν f) (ν u)) = S at hfl1 ⊢
    simp only [applyOp, hfl1]
    unfold modFlow
    rw [hfl1]
    simp only
    congr 1
    exact hg _
  have := congrArg cs hfin
  rw [cs_absVM] at this
  exact this

end NemoVerif.Lifetime.Refine
