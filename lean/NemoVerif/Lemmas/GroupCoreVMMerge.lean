/-
  C07 (T2') — the MERGE segment over CoreVM's `slide`: a MERGING head `h` on `MergeHeads u` that is the only MERGING head among the
  children `cs` of the forking head `r` (the situation at the end of an and-clause: every other member is parked on
  `WaitForHeads`): `slideStep_merge_merging` — `get_child_head_uids` (no nested forks), the scope loop, the existence check, the
  candidate list (= `[h]`, so `random.choice` is not called), `h` INACTIVE, the forking head continues ACTIVE at `h`'s position, EVERY
  child head is deleted (`delLoop_spec`: status INACTIVE, `delHead` with its guard "not in the reverse map", HeadX and fork
  registration erased), the fork registration is removed; the result is `(continue, [r])`.  Any number of children.
-/
import NemoVerif.Lemmas.GroupCoreVMFork
set_option linter.unusedSimpArgs false
namespace NemoVerif.CoreVM
open NemoVerif NemoVerif.CoreIndex

theorem nameFor_inactive (s : VM) (f : FUid) (i : Inst) (p : Nat) (hi : findInst s.ixs.ix f = some i) :
    nameFor f p .inactive s = .ok none s := by
  unfold nameFor
  simp only [bind, EStateM.bind, getInst, getInst?, getIx, get, getThe, MonadStateOf.get, EStateM.get, pure, EStateM.pure, hi]
  rfl

/-- `head.status = INACTIVE` (any position): nothing, or ONE guarded `setStatus` -/
theorem setHeadStatus_inactive_ok (s : VM) (f : FUid) (h : HUid) (i : Inst) (hd : Head)
    (hi : findInst s.ixs.ix f = some i) (hh : i.findHead h = some hd) (hne : hd.status ≠ .inactive) :
    ∃ hg, setHeadStatus (f, h) .inactive s = .ok () { s with ixs := s.ixs.apply (.setStatus f h .inactive none) hg } := by
  have hg : (Op.setStatus f h .inactive none).guard s.ixs.ix = true := by
    simp [Op.guard, hi, hh]
  refine ⟨hg, ?_⟩
  unfold setHeadStatus
  simp only [bind, EStateM.bind, getIx, get, getThe, MonadStateOf.get, EStateM.get, pure, EStateM.pure, getHead?,
    hi, Option.bind, hh, hne, if_false, attemptPy, tryCatch, tryCatchThe, MonadExceptOf.tryCatch, EStateM.tryCatch,
    nameFor_inactive s f i hd.pos hi]
  unfold applyOp
  rw [dif_pos hg]

theorem setHeadStatus_noop (s : VM) (f : FUid) (h : HUid) (i : Inst) (hd : Head) (st : HeadStatus)
    (hi : findInst s.ixs.ix f = some i) (hh : i.findHead h = some hd) (he : hd.status = st) :
    setHeadStatus (f, h) st s = .ok () s := by
  unfold setHeadStatus
  simp only [bind, EStateM.bind, getIx, get, getThe, MonadStateOf.get, EStateM.get, pure, EStateM.pure, getHead?,
    hi, Option.bind, hh, he, if_true]

/-- after `head.status = INACTIVE` the head is not in the reverse map -/
theorem reg_setStatus_inactive (ix : IState) (f : FUid) (h : HUid) (i : Inst) (hd : Head)
    (hi : findInst ix f = some i) (hh : i.findHead h = some hd) (hne : hd.status ≠ .inactive) :
    reg (step ix (.setStatus f h .inactive none)) (f, h) = none ∧
    ∀ k, k ≠ (f, h) → reg (step ix (.setStatus f h .inactive none)) k = reg ix k := by
  simp only [step, hi, Option.bind, hh, hne, if_false]
  rw [touchHead_found _ hi hh]
  constructor
  · rw [reg_headChanged]; simp [regTarget_eq]
  · intro k hk
    rw [reg_headChanged]; simp [hk]

theorem filter_modifyHead (i : Inst) (h : HUid) (g : Head → Head) (hg : ∀ y, (g y).uid = y.uid) :
    (i.modifyHead h g).heads.filter (fun o => decide (o.uid ≠ h)) = i.heads.filter (fun o => decide (o.uid ≠ h)) := by
  unfold Inst.modifyHead
  simp only
  induction i.heads with
  | nil => rfl
  | cons o l ih =>
    simp only [List.map_cons]
    by_cases e : o.uid = h
    · have e' : (g o).uid = h := by rw [hg]; exact e
      simp only [e, if_true]
      rw [List.filter_cons_of_neg (by simp [e']), List.filter_cons_of_neg (by simp [e]), ih]
    · simp only [e, if_false]
      rw [List.filter_cons_of_pos (by simp [e]), List.filter_cons_of_pos (by simp [e]), ih]

theorem findInst_delHead (ix : IState) (f : FUid) (h : HUid) (i : Inst) (hi : findInst ix f = some i) :
    findInst (step ix (.delHead f h)) f = some { i with heads := i.heads.filter (·.uid ≠ h) } := by
  simp only [step]
  have := findInst_modifyInst ix f f (fun i => { i with heads := i.heads.filter (·.uid ≠ h) }) (fun _ => rfl)
  rw [this]; simp [hi]


theorem reg_setPos_other (ix : IState) (f : FUid) (h : HUid) (p : Nat) (nm : Option String) (k : Key) (hk : k ≠ (f, h)) :
    reg (step ix (.setPos f h p nm)) k = reg ix k := by
  simp only [step]
  split
  · rfl
  · split
    · rfl
    · rename_i hd heq _
      cases hi : findInst ix f with
      | none => simp [hi] at heq
      | some i =>
        simp only [hi, Option.bind] at heq
        rw [touchHead_found _ hi heq, reg_headChanged]; simp [hk]

theorem reg_setStatus_other (ix : IState) (f : FUid) (h : HUid) (st : HeadStatus) (nm : Option String) (k : Key) (hk : k ≠ (f, h)) :
    reg (step ix (.setStatus f h st nm)) k = reg ix k := by
  simp only [step]
  split
  · rfl
  · split
    · rfl
    · rename_i hd heq _
      cases hi : findInst ix f with
      | none => simp [hi] at heq
      | some i =>
        simp only [hi, Option.bind] at heq
        rw [touchHead_found _ hi heq, reg_headChanged]; simp [hk]

theorem lookup_eraseAll {α : Type} (u : String) : ∀ (cs : List String) (m : List (String × α)), u ∉ cs →
    OMap.lookup u (cs.foldl (fun m c => OMap.erase c m) m) = OMap.lookup u m := by
  intro cs
  induction cs with
  | nil => intro m _; rfl
  | cons c cs ih =>
    intro m hu
    have h1 : u ≠ c := fun e => hu (by simp [e])
    have h2 : u ∉ cs := fun e => hu (by simp [e])
    simp only [List.foldl_cons]
    rw [ih _ h2, OMap.lookup_erase]; simp [h1]

theorem applyOp_ok (op : Op) (t : VM) (hg : op.guard t.ixs.ix = true) :
    applyOp op t = .ok () { t with ixs := t.ixs.apply op hg } := by
  unfold applyOp; rw [dif_pos hg]

/-- what one iteration of the "remove all the merged heads" loop is required to do (proved of the real loop body below) -/
def DelIter (body : HUid → PUnit → M (ForInStep PUnit)) (f : FUid) (cfg : FlowCfg) : Prop :=
  ∀ (u : HUid) (s : VM) (i : Inst) (x : InstX) (cd : Head),
    FlowAt s f i x cfg → i.findHead u = some cd → (cd.status = .inactive → reg s.ixs.ix (f, u) = none) →
    ∃ s1 x1, body u PUnit.unit s = .ok (.yield PUnit.unit) s1 ∧
      FlowAt s1 f { i with heads := i.heads.filter (·.uid ≠ u) } x1 cfg ∧ x1.ctxOwner = x.ctxOwner ∧ x1.flowId = x.flowId ∧
      (∀ k, k ≠ (f, u) → reg s1.ixs.ix k = reg s.ixs.ix k) ∧ s1.r.nextUid = s.r.nextUid ∧
      x1.forkUids = OMap.erase u x.forkUids ∧ (∀ k, k ≠ (f, u) → OMap.lookup k s1.r.hx = OMap.lookup k s.r.hx) ∧
      s1.r.cleared = s.r.cleared ∧ s1.r.queue = s.r.queue

theorem delLoop_spec (body : HUid → PUnit → M (ForInStep PUnit)) (f : FUid) (cfg : FlowCfg) (hiter : DelIter body f cfg) :
    ∀ (cs : List HUid) (s : VM) (i : Inst) (x : InstX), cs.Nodup → FlowAt s f i x cfg →
      (∀ c ∈ cs, ∃ cd, i.findHead c = some cd ∧ (cd.status = .inactive → reg s.ixs.ix (f, c) = none)) →
      ∃ s' x', forIn cs PUnit.unit body s = .ok PUnit.unit s' ∧
        FlowAt s' f { i with heads := i.heads.filter fun o => !cs.contains o.uid } x' cfg ∧
        x'.ctxOwner = x.ctxOwner ∧ x'.flowId = x.flowId ∧ s'.r.nextUid = s.r.nextUid ∧
        x'.forkUids = cs.foldl (fun m c => OMap.erase c m) x.forkUids ∧
        (∀ k, (∀ c ∈ cs, k ≠ (f, c)) → OMap.lookup k s'.r.hx = OMap.lookup k s.r.hx) ∧ s'.r.cleared = s.r.cleared ∧
        s'.r.queue = s.r.queue := by
  intro cs
  induction cs with
  | nil =>
    intro s i x _ F _
    refine ⟨s, x, rfl, ?_, rfl, rfl, rfl, rfl, fun _ _ => rfl, rfl, rfl⟩
    have : ({ i with heads := i.heads.filter fun o => !([] : List HUid).contains o.uid } : Inst) = i := by
      cases i; simp
    rw [this]; exact F
  | cons u cs ih =>
    intro s i x hnd F hall
    obtain ⟨cd, hcd, hreg⟩ := hall u (by simp)
    obtain ⟨s1, x1, hb, F1, ho1, hf1, hreg1, hn1, hfu1, hhx1, hcl1, hq1⟩ := hiter u s i x cd F hcd hreg
    have hnd' := List.nodup_cons.1 hnd
    have hall1 : ∀ c ∈ cs, ∃ cd, ({ i with heads := i.heads.filter (·.uid ≠ u) } : Inst).findHead c = some cd ∧
        (cd.status = .inactive → reg s1.ixs.ix (f, c) = none) := by
      intro c hc
      obtain ⟨cd', hcd', hreg'⟩ := hall c (by simp [hc])
      have hcu : c ≠ u := fun e => hnd'.1 (e ▸ hc)
      refine ⟨cd', by rw [findHead_filter]; simp [hcu, hcd'], fun hin => ?_⟩
      rw [hreg1 (f, c) (by simp [hcu])]
      exact hreg' hin
    obtain ⟨s', x', hrun, F', ho', hf', hn', hfu', hhx', hcl', hq'⟩ := ih s1 _ x1 hnd'.2 F1 hall1
    refine ⟨s', x', ?_, ?_, by rw [ho', ho1], by rw [hf', hf1], by rw [hn', hn1], by rw [hfu', hfu1]; rfl,
      fun k hk => by rw [hhx' k (fun c hc => hk c (by simp [hc])), hhx1 k (hk u (by simp))], by rw [hcl', hcl1], by rw [hq', hq1]⟩
    · simp only [List.forIn_cons, bind, EStateM.bind, hb, hrun]
    · have : ({ i with heads := i.heads.filter fun o => !(u :: cs).contains o.uid } : Inst)
          = { ({ i with heads := i.heads.filter (·.uid ≠ u) } : Inst) with
              heads := ({ i with heads := i.heads.filter (·.uid ≠ u) } : Inst).heads.filter fun o => !cs.contains o.uid } := by
        simp only [List.filter_filter]
        congr 1
        apply List.filter_congr
        intro o _
        simp only [List.contains_cons, Bool.not_or, ne_eq, decide_not, Bool.and_comm]
        congr 2
      rw [this]; exact F'

/-- a `for` loop whose iterations read the state only -/
theorem forIn_readonly {α β : Type} (body : α → β → M (ForInStep β)) (s : VM) :
    ∀ (l : List α) (b : β), (∀ a ∈ l, ∀ b, ∃ b', body a b s = .ok (.yield b') s) → ∃ b', forIn l b body s = .ok b' s := by
  intro l
  induction l with
  | nil => intro b _; exact ⟨b, rfl⟩
  | cons a l ih =>
    intro b hb
    obtain ⟨b1, h1⟩ := hb a (by simp) b
    obtain ⟨b2, h2⟩ := ih b1 (fun a' ha' => hb a' (by simp [ha']))
    exact ⟨b2, by simp only [List.forIn_cons, bind, EStateM.bind, h1, h2]⟩

/-- … with the result computed by a fold -/
theorem forIn_readonly_fold {α β : Type} (body : α → β → M (ForInStep β)) (g : β → α → β) (s : VM) :
    ∀ (l : List α) (b : β), (∀ a ∈ l, ∀ b, body a b s = .ok (.yield (g b a)) s) → forIn l b body s = .ok (l.foldl g b) s := by
  intro l
  induction l with
  | nil => intro b _; rfl
  | cons a l ih =>
    intro b hb
    have h1 := hb a (by simp) b
    have h2 := ih (g b a) (fun a' ha' => hb a' (by simp [ha']))
    simp only [List.forIn_cons, bind, EStateM.bind, h1, h2, List.foldl_cons]

/-- the children of a fork head none of which has forked itself: `get_child_head_uids` returns them as they are -/
theorem childHeadUids_flat (fuel : Nat) (s : VM) (f : FUid) (r : HUid) (cs : List HUid)
    (hcs : ((OMap.lookup (f, r) s.r.hx).getD {}).childHeadUids = cs)
    (hleaf : ∀ c ∈ cs, ((OMap.lookup (f, c) s.r.hx).getD {}).childHeadUids = []) :
    childHeadUids (fuel + 2) f r s = .ok cs s := by
  have hchild : ∀ c ∈ cs, childHeadUids (fuel + 1) f c s = .ok [] s := by
    intro c hc
    rw [childHeadUids]
    simp only [bind, EStateM.bind, getHeadX, getRest, get, getThe, MonadStateOf.get, EStateM.get, pure, EStateM.pure, hleaf c hc]
    rfl
  rw [childHeadUids]
  simp only [bind, EStateM.bind, getHeadX, getRest, get, getThe, MonadStateOf.get, EStateM.get, pure, EStateM.pure, hcs]
  rw [forIn_readonly_fold _ (fun o c => o ++ [c]) s cs []]
  · have : ∀ (l acc : List HUid), l.foldl (fun o c => o ++ [c]) acc = acc ++ l := by
      intro l; induction l with
      | nil => intro acc; simp
      | cons a l ih => intro acc; simp [ih]
    simp [this]
  · intro c hc out
    simp only [bind, EStateM.bind, getHead?, getIx, get, getThe, MonadStateOf.get, EStateM.get, pure, EStateM.pure]
    split
    · show EStateM.bind (childHeadUids (fuel + 1) f c) _ s = _
      simp only [EStateM.bind, hchild c hc, List.append_nil, pure, EStateM.pure]
    · rfl


theorem filter_eq_singleton (h : HUid) : ∀ (l : List HUid), l.Nodup → h ∈ l → l.filter (fun c => decide (c = h)) = [h] := by
  intro l
  induction l with
  | nil => intro _ hm; cases hm
  | cons a l ih =>
    intro hnd hm
    have hnd' := (List.nodup_cons.1 hnd)
    by_cases e : a = h
    · subst e
      rw [List.filter_cons_of_pos (by simp)]
      congr 1
      apply List.filter_eq_nil_iff.2
      intro c hc
      have : c ≠ a := fun e => hnd'.1 (e ▸ hc)
      simpa using this
    · rw [List.filter_cons_of_neg (by simpa using e)]
      rcases List.mem_cons.1 hm with rfl | hm'
      · exact absurd rfl e
      · exact ih hnd'.2 hm'

theorem foldl_merging (f : FUid) (h : HUid) (st : HUid → Bool) :
    ∀ (l : List HUid) (acc : List Key), (∀ c ∈ l, st c = decide (c = h)) →
      l.foldl (fun acc c => if st c = true then acc ++ [(f, c)] else acc) acc = acc ++ (l.filter fun c => decide (c = h)).map fun c => (f, c) := by
  intro l
  induction l with
  | nil => intro acc _; simp
  | cons a l ih =>
    intro acc hst
    simp only [List.foldl_cons, ih _ (fun c hc => hst c (by simp [hc])), hst a (by simp)]
    by_cases e : a = h
    · simp [e]
    · simp [e]

theorem setStCore_fst (h : HUid) (st : HeadStatus) (t : HCore) : (setStCore h st t).1 = t.1 := by
  simp only [setStCore]; split <;> rfl
theorem setPosCore_fst (h : HUid) (p : Nat) (t : HCore) : (setPosCore h p t).1 = t.1 := by
  simp only [setPosCore]; split <;> rfl
theorem setCore_fst (h : HUid) (p : Nat) (st : HeadStatus) (t : HCore) : (setCore h p st t).1 = t.1 := by
  simp only [setCore]; split <;> rfl

theorem filter_map_congr_uid (cs : List HUid) (g1 g2 : HCore → HCore)
    (h1 : ∀ t, (g1 t).1 = t.1) (h2 : ∀ t, (g2 t).1 = t.1) (heq : ∀ t, cs.contains t.1 = false → g1 t = g2 t) :
    ∀ l : List HCore, (l.map g1).filter (fun t => !cs.contains t.1) = (l.map g2).filter (fun t => !cs.contains t.1) := by
  intro l
  induction l with
  | nil => rfl
  | cons t l ih =>
    simp only [List.map_cons, List.filter_cons, h1, h2, ih]
    cases hc : cs.contains t.1 with
    | true => simp
    | false => simp [heq t hc]

theorem hview_filter (i : Inst) (cs : List HUid) :
    hview { i with heads := i.heads.filter fun o => !cs.contains o.uid } = (hview i).filter (fun t => !cs.contains t.1) := by
  simp only [hview, List.filter_map]
  rfl

theorem slideStep_merge_merging (fuel : Nat) (s : VM) (f : FUid) (h : HUid) (i : Inst) (x : InstX) (cfg : FlowCfg) (hd rd : Head)
    (u : String) (r : HUid) (cs : List HUid)
    (H : HeadAt s f h i x cfg hd) (hel : cfg.elements[hd.pos]! = .merge u) (hm : hd.status = .merging)
    (hfu : OMap.lookup u x.forkUids = some r) (hroot : i.findHead r = some rd)
    (hcs : ((OMap.lookup (f, r) s.r.hx).getD {}).childHeadUids = cs)
    (hleaf : ∀ c ∈ cs, ((OMap.lookup (f, c) s.r.hx).getD {}).childHeadUids = [])
    (hex : ∀ c ∈ cs, ∃ cd, i.findHead c = some cd)
    (hmerg : ∀ c ∈ cs, ∀ cd, i.findHead c = some cd → (cd.status = .merging ↔ c = h)) (hnd : cs.Nodup) (hmem : h ∈ cs)
    (hrh : r ≠ h) (hrpos : rd.pos ≠ hd.pos) (hrst : rd.status = .inactive) (hrcs : r ∉ cs) (hucs : u ∉ cs)
    (hact : ∀ c ∈ cs, ∀ cd, i.findHead c = some cd → c ≠ h → cd.status ≠ .inactive) :
    ∃ s' i' x', slideStep (fuel + 2) f h s = .ok (false, [(f, r)]) s' ∧ FlowAt s' f i' x' cfg ∧ x'.ctxOwner = x.ctxOwner ∧
      hview i' = ((hview i).map (setCore r hd.pos .active)).filter (fun t => !cs.contains t.1) ∧
      s'.r.nextUid = s.r.nextUid ∧ i'.status = i.status ∧ s'.r.cleared = s.r.cleared ∧
      (∃ y', OMap.lookup (f, r) s'.r.hx = some y' ∧ y'.catchLabels = ((OMap.lookup (f, h) s.r.hx).getD {}).catchLabels) ∧
      s'.r.queue = s.r.queue := by
  have hge : decide (hd.pos ≥ cfg.elements.size) = false := by simp; exact H.hlt
  unfold slideStep
  simp only [bind, EStateM.bind, cfgOfInst, getInstX, getInstX?, getRest, get, getThe, MonadStateOf.get, EStateM.get, pure, EStateM.pure,
    H.hx, getCfg, H.hc, getHead?, getIx, H.hi, Option.bind, H.hh, hge, Bool.false_or, hel,
    hm, show decide (HeadStatus.merging = HeadStatus.inactive) = false from by decide, Bool.false_eq_true, if_false,
    show (HeadStatus.merging = HeadStatus.active) = False from by simp, hfu, hroot, Option.isNone_some,
    childHeadUids_flat fuel s f r cs hcs hleaf, getHeadX, hcs, if_true]
  -- loop 1: the scope uids of the children (read-only)
  generalize hL1 : (forIn cs ([] : List String) _ : M (List String)) s = R1
  have h1 : ∃ sc, R1 = EStateM.Result.ok sc s := by
    rw [← hL1]
    apply forIn_readonly
    intro c hc acc
    obtain ⟨cd, hcd⟩ := hex c hc
    simp only [bind, EStateM.bind, get, getThe, MonadStateOf.get, EStateM.get, pure, EStateM.pure, H.hi, hcd, Option.isNone_some,
      Bool.false_eq_true, if_false]
    obtain ⟨v, hv⟩ := forIn_readonly (fun (sc : String) (__s : List String) =>
        (if (!__s.contains sc) = true then EStateM.pure (ForInStep.yield (__s ++ [sc])) else EStateM.pure (ForInStep.yield __s) : M _)) s
      ((OMap.lookup (f, c) s.r.hx).getD {}).scopeUids acc (by
        intro a _ b
        by_cases hb : (!b.contains a) = true
        · exact ⟨_, by simp only [hb, if_true]; rfl⟩
        · exact ⟨_, by simp only [hb, if_false]; rfl⟩)
    exact ⟨v, by rw [hv]⟩
  obtain ⟨sc, rfl⟩ := h1
  clear hL1
  simp only []
  -- loop 2: every other child head exists (read-only)
  generalize hL2 : (forIn cs PUnit.unit _ : M PUnit) s = R2
  have h2 : ∃ v, R2 = EStateM.Result.ok v s := by
    rw [← hL2]
    apply forIn_readonly
    intro c hc acc
    obtain ⟨cd, hcd⟩ := hex c hc
    by_cases e : c ≠ h
    · exact ⟨PUnit.unit, by
        simp only [e, if_true, bind, EStateM.bind, get, getThe, MonadStateOf.get, EStateM.get, pure, EStateM.pure, H.hi, hcd,
          Option.isNone_some, Bool.false_eq_true, if_false, ne_eq, not_false_eq_true]⟩
    · exact ⟨PUnit.unit, by simp only [e, if_false, pure, EStateM.pure]⟩
  obtain ⟨v2, rfl⟩ := h2
  clear hL2
  simp only []
  -- loop 3: the MERGING heads among the children: exactly this head
  generalize hL3 : (forIn cs ([] : List Key) _ : M (List Key)) s = R3
  have h3 : R3 = EStateM.Result.ok [(f, h)] s := by
    rw [← hL3]
    rw [forIn_readonly_fold _ (fun acc c => if ((i.findHead c).map (·.status) == some HeadStatus.merging) = true then acc ++ [(f, c)] else acc) s cs []]
    · congr 1
      rw [foldl_merging f h (fun c => (i.findHead c).map (·.status) == some HeadStatus.merging)]
      · rw [filter_eq_singleton h cs hnd hmem]; rfl
      · intro c hc
        obtain ⟨cd, hcd⟩ := hex c hc
        have := hmerg c hc cd hcd
        by_cases e : c = h
        · subst e
          simp only [H.hh, Option.map_some, hm, beq_self_eq_true, decide_true]
        · have hne : cd.status ≠ HeadStatus.merging := fun hh => e (this.1 hh)
          simp [hcd, hne, e]
    · intro c hc acc
      obtain ⟨cd, hcd⟩ := hex c hc
      simp only [bind, EStateM.bind, get, getThe, MonadStateOf.get, EStateM.get, pure, EStateM.pure, H.hi, hcd, Option.map_some]
      by_cases e : cd.status = HeadStatus.merging
      · simp only [e, if_true, beq_self_eq_true]; rfl
      · have : (some cd.status == some HeadStatus.merging) = false := by simpa using e
        simp only [e, if_false, this, Bool.false_eq_true]; rfl
  subst h3
  clear hL3
  simp only [List.length_singleton, gt_iff_lt, Nat.lt_irrefl, if_false]
  -- the head gives up: INACTIVE
  obtain ⟨hg8, h8⟩ := setHeadStatus_inactive_ok s f h i hd H.hi H.hh (by rw [hm]; decide)
  simp only [bind, EStateM.bind, h8, if_true, pure, EStateM.pure, get, getThe, MonadStateOf.get, EStateM.get]
  have hnm : NotMatchAt cfg hd.pos := notMatchAt_of cfg hd.pos _ H.hlt hel rfl
  -- the states and instances along the way
  have hi8 := findInst_setStatus s.ixs.ix f h i hd .inactive none H.hi H.hh (by rw [hm]; decide)
  have F8 : FlowAt { s with ixs := s.ixs.apply (.setStatus f h .inactive none) hg8 } f
      (i.modifyHead h fun y => { y with status := .inactive, elem := none }) x cfg := { hi := hi8, hx := H.hx, hc := H.hc }
  have hr8 : (i.modifyHead h fun y => { y with status := HeadStatus.inactive, elem := none }).findHead r = some rd := by
    rw [findHead_other i h r (fun y => { y with status := HeadStatus.inactive, elem := none }) (fun _ => rfl) hrh]; exact hroot
  -- the forking head takes over at the position of the merged head
  obtain ⟨hg9, h9⟩ := setHeadPos_ok _ f r _ x cfg rd hd.pos F8 hr8 hrpos hnm
  have hi9 := findInst_setPos _ f r _ rd hd.pos none hi8 hr8 hrpos
  have F9 : FlowAt { ixs := IxS.apply (s.ixs.apply (.setStatus f h .inactive none) hg8) (.setPos f r hd.pos none) hg9, r := s.r } f
      ((i.modifyHead h fun y => { y with status := .inactive, elem := none }).modifyHead r fun y => { y with pos := hd.pos, elem := none })
      x cfg := { hi := hi9, hx := H.hx, hc := H.hc }
  have hr9 := findHead_moved (i.modifyHead h fun y => { y with status := HeadStatus.inactive, elem := none }) r rd
    (fun y => { y with pos := hd.pos, elem := none }) (fun _ => rfl) hr8
  obtain ⟨hg10, h10⟩ := setHeadStatus_ok _ f r _ x cfg _ .active F9 hr9 (by simp [hrst]) hnm
  have hi10 := findInst_setStatus _ f r _ _ .active none hi9 hr9 (by simp [hrst])
  rw [h9]
  simp only []
  rw [h10]
  simp only [modHeadX, modifyRest, modify, modifyGet, MonadStateOf.modifyGet, EStateM.modifyGet]
  generalize hbody : (fun (u : HUid) (__s : PUnit) => _) = body
  have hiter : DelIter body f cfg := by
    intro c t it xt cd Ft hcd hreg
    rw [← hbody]
    simp only [bind, EStateM.bind, get, getThe, MonadStateOf.get, EStateM.get, pure, EStateM.pure, Ft.hi, hcd, Option.isNone_some,
      Bool.false_eq_true, if_false]
    by_cases hin : cd.status = HeadStatus.inactive
    · -- already INACTIVE: no index operation for the status
      rw [setHeadStatus_noop t f c it cd .inactive Ft.hi hcd hin]
      have hgd : (Op.delHead f c).guard t.ixs.ix = true := by simp [Op.guard, hreg hin]
      simp only []
      rw [applyOp_ok _ t hgd]
      simp only [modInstX, modifyRest, modify, modifyGet, MonadStateOf.modifyGet, EStateM.modifyGet]
      refine ⟨_, { xt with forkUids := OMap.erase c xt.forkUids }, rfl, ?_, rfl, rfl, ?_, rfl, rfl,
        fun k hk => by simp only [OMap.lookup_erase, hk, if_false], rfl, rfl⟩
      · exact { hi := findInst_delHead t.ixs.ix f c it Ft.hi, hx := lookup_modify_self f _ t.r.fx xt Ft.hx, hc := Ft.hc }
      · intro k _; rfl
    · obtain ⟨hgs, hss⟩ := setHeadStatus_inactive_ok t f c it cd Ft.hi hcd hin
      have hregs := reg_setStatus_inactive t.ixs.ix f c it cd Ft.hi hcd hin
      have his := findInst_setStatus t.ixs.ix f c it cd .inactive none Ft.hi hcd hin
      rw [hss]
      have hgd : (Op.delHead f c).guard ({ t with ixs := t.ixs.apply (.setStatus f c .inactive none) hgs } : VM).ixs.ix = true := by
        show (Op.delHead f c).guard (step t.ixs.ix (.setStatus f c .inactive none)) = true
        simp [Op.guard, hregs.1]
      simp only []
      rw [applyOp_ok _ _ hgd]
      simp only [modInstX, modifyRest, modify, modifyGet, MonadStateOf.modifyGet, EStateM.modifyGet]
      refine ⟨_, { xt with forkUids := OMap.erase c xt.forkUids }, rfl, ?_, rfl, rfl, ?_, rfl, rfl,
        fun k hk => by simp only [OMap.lookup_erase, hk, if_false], rfl, rfl⟩
      · refine { hi := ?_, hx := lookup_modify_self f _ t.r.fx xt Ft.hx, hc := Ft.hc }
        have := findInst_delHead _ f c _ his
        rw [filter_modifyHead it c (fun y => { y with status := HeadStatus.inactive, elem := none }) (fun _ => rfl)] at this
        exact this
      · intro k hk
        show reg (step (step t.ixs.ix (.setStatus f c .inactive none)) (.delHead f c)) k = reg t.ixs.ix k
        simp only [step, reg_modifyInst]
        exact hregs.2 k hk
  generalize hs11 : (VM.mk _ _) = s11
  have e1 : s11.ixs.ix = step (step (step s.ixs.ix (.setStatus f h .inactive none)) (.setPos f r hd.pos none)) (.setStatus f r .active none) := by
    rw [← hs11]; rfl
  have e2 : s11.r.fx = s.r.fx := by rw [← hs11]
  have e3 : s11.r.prog = s.r.prog := by rw [← hs11]
  have e4 : s11.r.nextUid = s.r.nextUid := by rw [← hs11]
  have e5 : s11.r.cleared = s.r.cleared := by rw [← hs11]
  have e7 : s11.r.queue = s.r.queue := by rw [← hs11]
  have e6 : ∃ y', OMap.lookup (f, r) s11.r.hx = some y' ∧ y'.catchLabels = ((OMap.lookup (f, h) s.r.hx).getD {}).catchLabels := by
    rw [← hs11]
    simp only [OMap.lookup_modify, if_true]
    cases hlk0 : OMap.lookup (f, r) s.r.hx with
    | none =>
      rw [hlk0] at hcs
      have : cs = [] := hcs.symm
      rw [this] at hmem; cases hmem
    | some y => exact ⟨_, rfl, rfl⟩
  have F11 : FlowAt s11 f _ x cfg := { hi := by rw [e1]; exact hi10, hx := by rw [e2]; exact H.hx, hc := by rw [e3]; exact H.hc }
  -- the children as the deletion loop finds them
  have hchildren : ∀ c ∈ cs, ∃ cd, (((i.modifyHead h fun y => { y with status := HeadStatus.inactive, elem := none }).modifyHead r
        fun y => { y with pos := hd.pos, elem := none }).modifyHead r fun y => { y with status := HeadStatus.active, elem := none }).findHead c = some cd ∧
      (cd.status = .inactive → reg s11.ixs.ix (f, c) = none) := by
    intro c hc
    have hcr : c ≠ r := fun e => hrcs (e ▸ hc)
    rw [findHead_other _ r c (fun y => { y with status := HeadStatus.active, elem := none }) (fun _ => rfl) hcr,
      findHead_other _ r c (fun y => { y with pos := hd.pos, elem := none }) (fun _ => rfl) hcr]
    by_cases hch : c = h
    · subst hch
      refine ⟨_, findHead_moved i c hd _ (fun _ => rfl) H.hh, fun _ => ?_⟩
      rw [e1, reg_setStatus_other _ f r _ _ _ (by simp [hrh.symm]), reg_setPos_other _ f r _ _ _ (by simp [hrh.symm])]
      exact (reg_setStatus_inactive s.ixs.ix f c i hd H.hi H.hh (by rw [hm]; decide)).1
    · obtain ⟨cd, hcd⟩ := hex c hc
      rw [findHead_other i h c (fun y => { y with status := HeadStatus.inactive, elem := none }) (fun _ => rfl) hch]
      exact ⟨cd, hcd, fun hin => absurd hin (hact c hc cd hcd hch)⟩
  obtain ⟨s12, x12, hrun, F12, ho12, hf12, hn12, hfu12, hhx12, hcl12, hq12⟩ := delLoop_spec body f cfg hiter cs s11 _ x hnd F11 hchildren
  rw [hrun]
  have hlk : OMap.lookup u x12.forkUids = some r := by rw [hfu12, lookup_eraseAll u cs _ hucs]; exact hfu
  simp only [getInstX, getInstX?, getRest, bind, EStateM.bind, get, getThe, MonadStateOf.get, EStateM.get, pure, EStateM.pure, F12.hx, hlk,
    Option.isNone_some, Bool.false_eq_true, if_false, modInstX, modifyRest, modify, modifyGet, MonadStateOf.modifyGet, EStateM.modifyGet]
  refine ⟨_, _, { x12 with forkUids := OMap.erase u x12.forkUids }, rfl,
    { hi := F12.hi, hx := lookup_modify_self f _ s12.r.fx x12 F12.hx, hc := F12.hc }, ho12, ?_, by rw [← e4]; exact hn12, rfl,
    by rw [← e5]; exact hcl12, ?_, by rw [← e7]; exact hq12⟩
  rotate_left
  · obtain ⟨y', hy1, hy2⟩ := e6
    refine ⟨y', ?_, hy2⟩
    show OMap.lookup (f, r) s12.r.hx = some y'
    rw [hhx12 (f, r) (fun c hc e => hrcs (by cases e; exact hc))]; exact hy1
  rw [hview_filter, hview_setStatus, hview_setPos, hview_setStatus, List.map_map, List.map_map]
  apply filter_map_congr_uid
  · intro t; simp only [Function.comp, setStCore_fst, setPosCore_fst]
  · intro t; exact setCore_fst _ _ _ t
  · intro t ht
    have hth : t.1 ≠ h := by
      intro e
      have : cs.contains t.1 = true := by rw [e]; simpa using hmem
      rw [ht] at this; cases this
    simp only [Function.comp, setStCore, setPosCore, setCore, hth, if_false]
    split <;> simp_all

/-! ### the clause completes: phase 2 of an and-group -/

open NemoVerif.GroupVM (MLoc countWait p1Members)

/-- a head that has been merged away: `slide`'s step ends the loop -/
theorem slideStep_gone (fuel : Nat) (s : VM) (f : FUid) (h : HUid) (i : Inst) (x : InstX) (cfg : FlowCfg)
    (F : FlowAt s f i x cfg) (hh : i.findHead h = none) : slideStep fuel f h s = .ok (true, []) s := by
  unfold slideStep
  simp only [bind, EStateM.bind, cfgOfInst, getInstX, getInstX?, getRest, get, getThe, MonadStateOf.get, EStateM.get, pure, EStateM.pure,
    F.hx, getCfg, F.hc, getHead?, getIx, F.hi, Option.bind, hh]

/-- an entry of the rendered members -/
theorem mem_renderU (wp : Nat) : ∀ (us : List (HUid × Nat)) (ms : List (Nat × MLoc)) (j : Nat) (u : HUid × Nat) (m : Nat × MLoc),
    us[j]? = some u → ms[j]? = some m → (u.1, mlocCore u.2 wp m.2) ∈ renderU wp us ms := by
  intro us
  induction us with
  | nil => intro ms j u m hu; simp at hu
  | cons u0 us ih =>
    intro ms j u m hu hm
    cases ms with
    | nil => simp at hm
    | cons m0 ms =>
      cases j with
      | zero =>
        simp only [List.getElem?_cons_zero, Option.some.injEq] at hu hm
        subst hu; subst hm
        simp [renderU]
      | succ j =>
        simp only [List.getElem?_cons_succ] at hu hm
        have := ih ms j u m hu hm
        simp only [renderU, List.zipWith_cons_cons, List.mem_cons] at this ⊢
        exact Or.inr this

/-- every entry of the rendered members comes from a member -/
theorem of_mem_renderU (wp : Nat) : ∀ (us : List (HUid × Nat)) (ms : List (Nat × MLoc)) (t : HCore),
    t ∈ renderU wp us ms → ∃ (j : Nat) (u : HUid × Nat) (m : Nat × MLoc), us[j]? = some u ∧ ms[j]? = some m ∧ t = (u.1, mlocCore u.2 wp m.2) := by
  intro us
  induction us with
  | nil => intro ms t h; simp [renderU] at h
  | cons u0 us ih =>
    intro ms t h
    cases ms with
    | nil => simp [renderU] at h
    | cons m0 ms =>
      simp only [renderU, List.zipWith_cons_cons, List.mem_cons] at h
      rcases h with rfl | h
      · exact ⟨0, u0, m0, rfl, rfl, rfl⟩
      · obtain ⟨j, u, m, h1, h2, h3⟩ := ih ms t h
        exact ⟨j + 1, u, m, by rw [List.getElem?_cons_succ]; exact h1, by rw [List.getElem?_cons_succ]; exact h2, h3⟩


/-- **The and-clause completes (phase 2 at CoreVM level).**  After phase 1 exactly one member head `h = us[j]` is MERGING (it passed
    `WaitForHeads`), the others are still ACTIVE on their `match` or parked on the wait element, the forking head `r` is INACTIVE.
    `slide` on `h` merges: `r` continues ACTIVE on the `MergeHeads` element, every member head is gone, `[r]` is handed back.
    This is `GroupVM.mergeStep (.member 0 j)` for a group without or-level.  Any clause size. -/
theorem and_clause_completes (fuel : Nat) (s : VM) (f : FUid) (i : Inst) (x : InstX) (cfg : FlowCfg) (l mu : String) (pe n fp : Nat)
    (r : HUid) (us : List (HUid × Nat)) (ms : List (Nat × MLoc)) (j : Nat) (uj : HUid × Nat) (a : Nat)
    (F : FlowAt s f i x cfg) (C : ClauseShape cfg l mu pe n)
    (hv : hview i = (r, fp, HeadStatus.inactive) :: renderU (pe + 1) us ms)
    (hlen : us.length = ms.length) (hndu : (r :: us.map (·.1)).Nodup)
    (hju : us[j]? = some uj) (hjm : ms[j]? = some (a, MLoc.merging))
    (hone : ∀ j' m', ms[j']? = some m' → j' ≠ j → m'.2 = MLoc.atWait ∨ m'.2 = MLoc.atMatch)
    (hfu : OMap.lookup mu x.forkUids = some r)
    (hhx : ((OMap.lookup (f, r) s.r.hx).getD {}).childHeadUids = us.map (·.1))
    (hleaf : ∀ c ∈ us.map (·.1), ((OMap.lookup (f, c) s.r.hx).getD {}).childHeadUids = [])
    (hmu : mu ∉ us.map (·.1)) (hfp : fp ≠ pe + 2) :
    ∃ s' i' x', slide (fuel + 4) f uj.1 s = .ok [(f, r)] s' ∧ FlowAt s' f i' x' cfg ∧ x'.ctxOwner = x.ctxOwner ∧
      hview i' = [(r, pe + 2, HeadStatus.active)] ∧ s'.r.nextUid = s.r.nextUid ∧ i'.status = i.status ∧ s'.r.cleared = s.r.cleared ∧
      (∃ y', OMap.lookup (f, r) s'.r.hx = some y' ∧ y'.catchLabels = ((OMap.lookup (f, uj.1) s.r.hx).getD {}).catchLabels) ∧
      s'.r.queue = s.r.queue := by
  have hndv : ((hview i).map (·.1)).Nodup := by
    rw [hv, List.map_cons, renderU_fst _ _ _ hlen]; exact hndu
  -- the merging head and the forking head
  have hmem_h : (uj.1, pe + 2, HeadStatus.merging) ∈ hview i := by
    rw [hv]; exact List.mem_cons_of_mem _ (mem_renderU (pe + 1) us ms j uj (a, MLoc.merging) hju hjm)
  obtain ⟨hd, hfh, hpos, hstat⟩ := findHead_of_mem_hview i hndv uj.1 (pe + 2) .merging hmem_h
  obtain ⟨rd, hfr, hrpos, hrstat⟩ := findHead_of_mem_hview i hndv r fp .inactive (by rw [hv]; simp)
  have hsz := C.hsize
  have H : HeadAt s f uj.1 i x cfg hd :=
    { hi := F.hi, hx := F.hx, hc := F.hc, hh := hfh, hlt := by rw [hpos]; exact hsz, hst := by rw [hstat]; decide }
  have hujmem : uj.1 ∈ us.map (·.1) := List.mem_map.2 ⟨uj, List.mem_of_getElem? hju, rfl⟩
  have hnd' := List.nodup_cons.1 hndu
  have hrh : r ≠ uj.1 := fun e => hnd'.1 (e ▸ hujmem)
  -- every child head exists; its status
  have hchild : ∀ c ∈ us.map (·.1), ∃ (j' : Nat) (u' : HUid × Nat) (m' : Nat × MLoc), us[j']? = some u' ∧ ms[j']? = some m' ∧ u'.1 = c := by
    intro c hc
    obtain ⟨u', hu', rfl⟩ := List.mem_map.1 hc
    obtain ⟨j', hj', hget⟩ := List.mem_iff_getElem.1 hu'
    have hj2 : j' < ms.length := by omega
    exact ⟨j', u', ms[j'], by simp [hget.symm ▸ List.getElem?_eq_getElem hj'], List.getElem?_eq_getElem hj2, rfl⟩
  have hentry : ∀ c ∈ us.map (·.1), ∀ cd, i.findHead c = some cd →
      ∃ (j' : Nat) (u' : HUid × Nat) (m' : Nat × MLoc), us[j']? = some u' ∧ ms[j']? = some m' ∧ u'.1 = c ∧
        (cd.pos, cd.status) = mlocCore u'.2 (pe + 1) m'.2 := by
    intro c hc cd hcd
    obtain ⟨j', u', m', h1, h2, h3⟩ := hchild c hc
    refine ⟨j', u', m', h1, h2, h3, ?_⟩
    have e1 : (c, cd.pos, cd.status) ∈ hview i := mem_hview_of_findHead i c cd hcd
    have e2 : (u'.1, mlocCore u'.2 (pe + 1) m'.2) ∈ hview i := by
      rw [hv]; exact List.mem_cons_of_mem _ (mem_renderU (pe + 1) us ms j' u' m' h1 h2)
    have := eq_of_mem_of_nodup_map (fun (t : HCore) => t.1) (hview i) hndv _ e1 _ e2 (by simp [h3])
    simp only [Prod.mk.injEq] at this
    exact this.2
  have huniq : ∀ j' (u' : HUid × Nat), us[j']? = some u' → u'.1 = uj.1 → j' = j := by
    intro j' u' h1 h2
    have hnu := hnd'.2
    have hj'lt : j' < us.length := by
      rcases Nat.lt_or_ge j' us.length with h | h
      · exact h
      · rw [List.getElem?_eq_none h] at h1; cases h1
    have hjlt : j < us.length := by
      rcases Nat.lt_or_ge j us.length with h | h
      · exact h
      · rw [List.getElem?_eq_none h] at hju; cases hju
    have e1 : (us.map (·.1))[j']'(by simpa using hj'lt) = u'.1 := by
      simp only [List.getElem_map]; rw [List.getElem?_eq_getElem hj'lt] at h1; cases h1; rfl
    have e2 : (us.map (·.1))[j]'(by simpa using hjlt) = uj.1 := by
      simp only [List.getElem_map]; rw [List.getElem?_eq_getElem hjlt] at hju; cases hju; rfl
    exact (List.getElem_inj hnu).1 (by rw [e1, e2, h2])
  obtain ⟨s1, i1, x1, hstep, F1, ho1, hv1, hn1⟩ := slideStep_merge_merging (fuel + 1) s f uj.1 i x cfg hd rd mu r (us.map (·.1))
    H (by rw [hpos]; exact C.hm) hstat hfu hfr hhx hleaf
    (by
      intro c hc
      obtain ⟨j', u', m', h1, h2, h3⟩ := hchild c hc
      have e2 : (u'.1, mlocCore u'.2 (pe + 1) m'.2) ∈ hview i := by
        rw [hv]; exact List.mem_cons_of_mem _ (mem_renderU (pe + 1) us ms j' u' m' h1 h2)
      obtain ⟨cd, hcd, _, _⟩ := findHead_of_mem_hview i hndv u'.1 _ _ e2
      exact ⟨cd, by rw [← h3]; exact hcd⟩)
    (by
      intro c hc cd hcd
      obtain ⟨j', u', m', h1, h2, h3, h4⟩ := hentry c hc cd hcd
      constructor
      · intro hmg
        by_cases hjj : j' = j
        · subst hjj; rw [hju] at h1; cases h1; exact h3.symm
        · rcases hone j' m' h2 hjj with hl | hl <;> (rw [hl] at h4; simp [mlocCore] at h4; rw [h4.2] at hmg; cases hmg)
      · intro hch
        have hjj := huniq j' u' h1 (by rw [h3, hch])
        subst hjj
        rw [hjm] at h2; cases h2
        simp [mlocCore] at h4; exact h4.2)
    hnd'.2 hujmem hrh (by rw [hrpos, hpos]; exact hfp) hrstat hnd'.1 hmu
    (by
      intro c hc cd hcd hch
      obtain ⟨j', u', m', h1, h2, h3, h4⟩ := hentry c hc cd hcd
      have hjj : j' ≠ j := by
        intro e; subst e; rw [hju] at h1; cases h1; exact hch h3.symm
      rcases hone j' m' h2 hjj with hl | hl <;> (rw [hl] at h4; simp [mlocCore] at h4; rw [h4.2]; decide))
  -- the merged head is gone: the loop of `slide` ends
  have hgone : i1.findHead uj.1 = none := by
    cases hf : i1.findHead uj.1 with
    | none => rfl
    | some cd =>
      have := mem_hview_of_findHead i1 uj.1 cd hf
      rw [hv1] at this
      have hm := (List.mem_filter.1 this).2
      simp only [Bool.not_eq_true', List.contains_eq_mem, decide_eq_false_iff_not] at hm
      exact absurd hujmem hm
  have hstep2 := slideStep_gone (fuel + 2) s1 f uj.1 i1 x1 cfg F1 hgone
  refine ⟨s1, i1, x1, ?_, F1, ho1, ?_, hn1⟩
  · simp only [slide, slideLoop, bind, EStateM.bind, hstep, hstep2, Bool.false_eq_true, if_false, if_true, pure, EStateM.pure,
      List.nil_append, List.append_nil]
  · rw [hv1, hv, hpos]
    simp only [List.map_cons, List.filter_cons, setCore, if_true]
    have hr_not : (us.map (·.1)).contains r = false := by
      simpa using hnd'.1
    simp only [hr_not, Bool.not_false, if_true]
    congr 1
    apply List.filter_eq_nil_iff.2
    intro t ht
    obtain ⟨t0, ht0, rfl⟩ := List.mem_map.1 ht
    obtain ⟨j', u', m', h1, _, h3⟩ := of_mem_renderU (pe + 1) us ms t0 ht0
    subst h3
    have hu'mem : u'.1 ∈ us.map (·.1) := List.mem_map.2 ⟨u', List.mem_of_getElem? h1, rfl⟩
    have hne : u'.1 ≠ r := fun e => hnd'.1 (e ▸ hu'mem)
    simp only [setCore, hne, if_false, Bool.not_eq_true', Bool.not_eq_false]
    simpa using hu'mem

end NemoVerif.CoreVM
