/-
  C13 — helper lemmas about `Models/CommentStrip.lean`.
-/
import NemoVerif.Models.CommentStrip

namespace NemoVerif.CommentStrip

theorem scan_append (a r : List Char) : ∀ b, scan b (a ++ r) = scan b a ++ scan (endState b a) r := by
  induction a with
  | nil => intro b; cases b <;> simp [scan, endState]
  | cons c cs ih =>
    intro b
    cases b
    · by_cases h : c = '#' <;> simp [scan, endState, h, ih]
    · by_cases h : c = '\n' <;> simp [scan, endState, h, ih]

theorem endState_append (a r : List Char) : ∀ b, endState b (a ++ r) = endState (endState b a) r := by
  induction a with
  | nil => intro b; cases b <;> simp [endState]
  | cons c cs ih =>
    intro b
    cases b
    · by_cases h : c = '#' <;> simp [endState, h, ih]
    · by_cases h : c = '\n' <;> simp [endState, h, ih]

/-- outside a comment a text without `#` is copied verbatim and leaves the scanner outside -/
theorem scan_false_nohash : ∀ s : List Char, '#' ∉ s → scan false s = s ∧ endState false s = false := by
  intro s
  induction s with
  | nil => intro _; simp [scan, endState]
  | cons c cs ih =>
    intro h
    have hc : c ≠ '#' := fun e => h (by simp [e])
    have hcs : '#' ∉ cs := fun m => h (List.mem_cons_of_mem _ m)
    simp [scan, endState, hc, ih hcs]

/-- inside a comment a text without a line break is deleted and leaves the scanner inside -/
theorem scan_true_nonl : ∀ s : List Char, '\n' ∉ s → scan true s = [] ∧ endState true s = true := by
  intro s
  induction s with
  | nil => intro _; simp [scan, endState]
  | cons c cs ih =>
    intro h
    have hc : c ≠ '\n' := fun e => h (by simp [e])
    have hcs : '\n' ∉ cs := fun m => h (List.mem_cons_of_mem _ m)
    simp [scan, endState, hc, ih hcs]

theorem scan_no_hash (s : List Char) : ∀ b, '#' ∉ scan b s := by
  induction s with
  | nil => intro b; cases b <;> simp [scan]
  | cons c cs ih =>
    intro b
    cases b
    · by_cases h : c = '#'
      · simp [scan, h, ih]
      · simp only [scan, h, if_false, List.mem_cons, not_or]
        exact ⟨fun e => h e.symm, ih false⟩
    · by_cases h : c = '\n'
      · simp only [scan, h, if_true, List.mem_cons, not_or]
        exact ⟨by decide, ih false⟩
      · simp [scan, h, ih]

theorem scan_length_le (s : List Char) : ∀ b, (scan b s).length ≤ s.length := by
  induction s with
  | nil => intro b; cases b <;> simp [scan]
  | cons c cs ih =>
    intro b
    cases b
    · by_cases h : c = '#'
      · simp only [scan, h, if_true, List.length_cons]; exact Nat.le_succ_of_le (ih true)
      · simp only [scan, h, if_false, List.length_cons]; exact Nat.succ_le_succ (ih false)
    · by_cases h : c = '\n'
      · simp only [scan, h, if_true, List.length_cons]; exact Nat.succ_le_succ (ih false)
      · simp only [scan, h, if_false, List.length_cons]; exact Nat.le_succ_of_le (ih true)

/-- line breaks are never deleted: the output has as many lines as the input -/
theorem scan_count_nl (s : List Char) : ∀ b, (scan b s).count '\n' = s.count '\n' := by
  induction s with
  | nil => intro b; cases b <;> simp [scan]
  | cons c cs ih =>
    intro b
    cases b
    · by_cases h : c = '#'
      · have : ('#' : Char) ≠ '\n' := by decide
        simp [scan, h, ih, List.count_cons, this]
      · simp [scan, h, ih, List.count_cons]
    · by_cases h : c = '\n'
      · simp [scan, h, ih, List.count_cons]
      · simp [scan, h, ih, List.count_cons, h]

/-- the machine computes `scan`, and needs exactly one step per character plus the final one -/
theorem run_eq (s : List Char) : ∀ (b : Bool) (acc : List Char) (fuel : Nat), s.length < fuel →
    run fuel ⟨b, s, acc⟩ = some (acc.reverse ++ scan b s) := by
  induction s with
  | nil =>
    intro b acc fuel hf
    cases fuel with
    | zero => omega
    | succ n => cases b <;> simp [run, step, scan]
  | cons c cs ih =>
    intro b acc fuel hf
    cases fuel with
    | zero => omega
    | succ n =>
      have hn : cs.length < n := by simp at hf; omega
      cases b
      · by_cases h : c = '#'
        · subst h; simp [run, step, scan, ih true acc n hn]
        · simp [run, step, scan, h, ih false (c :: acc) n hn]
      · by_cases h : c = '\n'
        · subst h; simp [run, step, scan, ih false ('\n' :: acc) n hn]
        · simp [run, step, scan, h, ih true acc n hn]

/-- with too little fuel the machine does not end (the bound of `run_eq` is exact) -/
theorem run_out_of_fuel (s : List Char) : ∀ (b : Bool) (acc : List Char) (fuel : Nat), fuel ≤ s.length →
    run fuel ⟨b, s, acc⟩ = none := by
  induction s with
  | nil =>
    intro b acc fuel hf
    have : fuel = 0 := by simpa using hf
    subst this; rfl
  | cons c cs ih =>
    intro b acc fuel hf
    cases fuel with
    | zero => rfl
    | succ n =>
      have hn : n ≤ cs.length := by simp at hf; omega
      cases b
      · by_cases h : c = '#'
        · subst h; simp [run, step, ih true acc n hn]
        · simp [run, step, h, ih false (c :: acc) n hn]
      · by_cases h : c = '\n'
        · subst h; simp [run, step, ih false ('\n' :: acc) n hn]
        · simp [run, step, h, ih true acc n hn]

end NemoVerif.CommentStrip
