/-
  Lemmas for C12 (Colang 2.x part): correctness of the closedness checker, the label table and the
  safety of the look-ups performed by the model of `slide`.
-/
import NemoVerif.Models.Closed
namespace NemoVerif.Closed
variable {L : Type} [DecidableEq L]

/-! ### label table -/

theorem labelsFrom_lookup (l : L) : ∀ (p : List (Prim L)) (i : Nat) (acc : List (L × Nat)),
    (labelsFrom i p acc).lookup l =
      match lastLabel l p with
      | some k => some (i + k)
      | none => acc.lookup l := by
  intro p
  induction p with
  | nil => intro i acc; simp [labelsFrom, lastLabel]
  | cons e r ih =>
    intro i acc
    have key : ∀ acc', (labelsFrom (i + 1) r acc').lookup l =
        match lastLabel l r with
        | some k => some (i + 1 + k)
        | none => acc'.lookup l := fun acc' => ih (i + 1) acc'
    by_cases he : e = .label l
    · subst he
      simp only [labelsFrom, lastLabel]
      rw [key]
      cases hr : lastLabel l r with
      | some k => simp; omega
      | none => simp [List.lookup]
    · cases e with
      | label n =>
        have hn : n ≠ l := fun h => he (by rw [h])
        simp only [labelsFrom, lastLabel]
        rw [key]
        cases hr : lastLabel l r with
        | some k => simp; omega
        | none =>
          have : (l == n) = false := by simp; exact fun h => hn h.symm
          simp [List.lookup, this, he]
      | _ =>
        simp only [labelsFrom, lastLabel]
        rw [key]
        cases hr : lastLabel l r with
        | some k => simp; omega
        | none => simp

/-- the dict built by `initialize_flow` answers with the index of the LAST `Label l` -/
theorem lookupLabel_eq_lastLabel (p : List (Prim L)) (l : L) : lookupLabel p l = lastLabel l p := by
  unfold lookupLabel labelTable
  rw [labelsFrom_lookup]
  cases lastLabel l p <;> simp [List.lookup]

theorem lastLabel_some (l : L) : ∀ (p : List (Prim L)) (i : Nat), lastLabel l p = some i →
    i < p.length ∧ p[i]? = some (.label l) ∧ ∀ j, i < j → p[j]? ≠ some (.label l) := by
  intro p
  induction p with
  | nil => intro i h; simp [lastLabel] at h
  | cons e r ih =>
    intro i h
    simp only [lastLabel] at h
    cases hr : lastLabel l r with
    | some k =>
      rw [hr] at h
      simp at h
      subst h
      obtain ⟨h1, h2, h3⟩ := ih k hr
      refine ⟨by simp; omega, by simpa using h2, ?_⟩
      intro j hj
      cases j with
      | zero => omega
      | succ j' => simpa using h3 j' (by omega)
    | none =>
      rw [hr] at h
      by_cases he : e = .label l
      · simp [he] at h
        subst h
        refine ⟨by simp, by simp [he], ?_⟩
        intro j hj
        cases j with
        | zero => omega
        | succ j' =>
          simp only [List.getElem?_cons_succ]
          intro hc
          -- a later occurrence would make `lastLabel l r` defined
          have : ∀ (q : List (Prim L)) (m : Nat), q[m]? = some (.label l) → lastLabel l q ≠ none := by
            intro q
            induction q with
            | nil => intro m hm; simp at hm
            | cons a q ihq =>
              intro m hm
              simp only [lastLabel]
              cases m with
              | zero =>
                simp at hm
                cases hq : lastLabel l q <;> simp [hm]
              | succ m' =>
                simp at hm
                have := ihq m' hm
                cases hq : lastLabel l q with
                | none => exact absurd hq this
                | some _ => simp
          exact this r j' hc hr
      · simp [he] at h

theorem lastLabel_defined (l : L) : ∀ (p : List (Prim L)), Prim.label l ∈ p → ∃ i, lastLabel l p = some i := by
  intro p
  induction p with
  | nil => intro h; simp at h
  | cons e r ih =>
    intro h
    simp only [lastLabel]
    cases hr : lastLabel l r with
    | some k => exact ⟨k + 1, rfl⟩
    | none =>
      rcases List.mem_cons.1 h with h | h
      · exact ⟨0, by simp [h]⟩
      · obtain ⟨i, hi⟩ := ih h
        rw [hr] at hi
        cases hi

/-- a defined label is found, at a position inside the flow that holds that label, and it is the last one -/
theorem lookupLabel_of_mem (p : List (Prim L)) (l : L) (h : Prim.label l ∈ p) :
    ∃ i, lookupLabel p l = some i ∧ i < p.length ∧ p[i]? = some (.label l) ∧
      ∀ j, i < j → p[j]? ≠ some (.label l) := by
  obtain ⟨i, hi⟩ := lastLabel_defined l p h
  exact ⟨i, by rw [lookupLabel_eq_lastLabel, hi], lastLabel_some l p i hi⟩

theorem lookupLabel_some_mem (p : List (Prim L)) (l : L) (i : Nat) (h : lookupLabel p l = some i) :
    Prim.label l ∈ p := by
  rw [lookupLabel_eq_lastLabel] at h
  obtain ⟨_, h2, _⟩ := lastLabel_some l p i h
  exact List.mem_of_getElem? h2

/-! ### checker correctness, clause by clause -/

theorem targetsDefined_iff (p : List (Prim L)) :
    targetsDefined p = true ↔ ∀ e ∈ p, ∀ l ∈ e.targets, Prim.label l ∈ p := by
  simp [targetsDefined, List.all_eq_true]

omit [DecidableEq L] in
theorem allPrimitive_iff (p : List (Prim L)) :
    allPrimitive p = true ↔ ∀ e ∈ p, e.isPrimitive = true := by
  simp [allPrimitive, List.all_eq_true]

theorem cons_eq_append_cons {α : Type} (e x : α) (r pre post : List α) :
    e :: r = pre ++ x :: post ↔ (pre = [] ∧ e = x ∧ r = post) ∨ ∃ pre', pre = e :: pre' ∧ r = pre' ++ x :: post := by
  cases pre with
  | nil => simp
  | cons a pre' =>
    simp only [List.cons_append, List.cons.injEq, List.cons_ne_nil, false_and, false_or]
    constructor
    · rintro ⟨rfl, h⟩; exact ⟨pre', ⟨rfl, rfl⟩, h⟩
    · rintro ⟨w, ⟨rfl, rfl⟩, h⟩; exact ⟨rfl, h⟩

theorem mergeForkOK_iff : ∀ (p : List (Prim L)) (seen : List L),
    mergeForkOK seen p = true ↔
      ∀ pre u post, p = pre ++ Prim.merge u :: post → u ∈ seen ∨ ∃ ls, Prim.fork u ls ∈ pre := by
  intro p
  induction p with
  | nil => intro seen; simp [mergeForkOK]
  | cons e r ih =>
    intro seen
    have generic : (∀ u, e ≠ .merge u) → (∀ u ls, e ≠ .fork u ls) → mergeForkOK seen (e :: r) = mergeForkOK seen r →
        (mergeForkOK seen (e :: r) = true ↔
          ∀ pre u post, e :: r = pre ++ Prim.merge u :: post → u ∈ seen ∨ ∃ ls, Prim.fork u ls ∈ pre) := by
      intro hm hf heq
      rw [heq, ih]
      constructor
      · intro h pre u post hp
        rcases (cons_eq_append_cons _ _ _ _ _).1 hp with ⟨_, he, _⟩ | ⟨pre', rfl, hr⟩
        · exact absurd he (hm u)
        · rcases h pre' u post hr with h | ⟨ls, h⟩
          · exact Or.inl h
          · exact Or.inr ⟨ls, List.mem_cons_of_mem _ h⟩
      · intro h pre u post hp
        rcases h (e :: pre) u post (by simp [hp]) with h | ⟨ls, h⟩
        · exact Or.inl h
        · rcases List.mem_cons.1 h with h | h
          · exact absurd h.symm (hf u ls)
          · exact Or.inr ⟨ls, h⟩
    cases e with
    | fork u0 ls0 =>
      simp only [mergeForkOK]
      rw [ih]
      constructor
      · intro h pre u post hp
        rcases (cons_eq_append_cons _ _ _ _ _).1 hp with ⟨_, he, _⟩ | ⟨pre', rfl, hr⟩
        · cases he
        · rcases h pre' u post hr with h | ⟨ls, h⟩
          · rcases List.mem_cons.1 h with h | h
            · subst h; exact Or.inr ⟨ls0, by simp⟩
            · exact Or.inl h
          · exact Or.inr ⟨ls, List.mem_cons_of_mem _ h⟩
      · intro h pre u post hp
        rcases h (.fork u0 ls0 :: pre) u post (by simp [hp]) with h | ⟨ls, h⟩
        · exact Or.inl (List.mem_cons_of_mem _ h)
        · rcases List.mem_cons.1 h with h | h
          · cases h; exact Or.inl (by simp)
          · exact Or.inr ⟨ls, h⟩
    | merge u0 =>
      simp only [mergeForkOK, Bool.and_eq_true, List.contains_iff_mem]
      rw [ih]
      constructor
      · rintro ⟨h0, h⟩ pre u post hp
        rcases (cons_eq_append_cons _ _ _ _ _).1 hp with ⟨_, he, _⟩ | ⟨pre', rfl, hr⟩
        · cases he; exact Or.inl h0
        · rcases h pre' u post hr with h | ⟨ls, h⟩
          · exact Or.inl h
          · exact Or.inr ⟨ls, List.mem_cons_of_mem _ h⟩
      · intro h
        refine ⟨?_, ?_⟩
        · rcases h [] u0 r rfl with h | ⟨ls, h⟩
          · exact h
          · simp at h
        · intro pre u post hp
          rcases h (.merge u0 :: pre) u post (by simp [hp]) with h | ⟨ls, h⟩
          · exact Or.inl h
          · rcases List.mem_cons.1 h with h | h
            · cases h
            · exact Or.inr ⟨ls, h⟩
    | _ => exact generic (by intro u h; cases h) (by intro u ls h; cases h) (by simp [mergeForkOK])

theorem scopeOpenedOK_iff : ∀ (p : List (Prim L)) (seen : List L),
    scopeOpenedOK seen p = true ↔
      ∀ pre n post, p = pre ++ Prim.endScope n :: post → n ∈ seen ∨ Prim.beginScope n ∈ pre := by
  intro p
  induction p with
  | nil => intro seen; simp [scopeOpenedOK]
  | cons e r ih =>
    intro seen
    have generic : (∀ u, e ≠ .endScope u) → (∀ u, e ≠ .beginScope u) → scopeOpenedOK seen (e :: r) = scopeOpenedOK seen r →
        (scopeOpenedOK seen (e :: r) = true ↔
          ∀ pre n post, e :: r = pre ++ Prim.endScope n :: post → n ∈ seen ∨ Prim.beginScope n ∈ pre) := by
      intro hm hf heq
      rw [heq, ih]
      constructor
      · intro h pre u post hp
        rcases (cons_eq_append_cons _ _ _ _ _).1 hp with ⟨_, he, _⟩ | ⟨pre', rfl, hr⟩
        · exact absurd he (hm u)
        · rcases h pre' u post hr with h | h
          · exact Or.inl h
          · exact Or.inr (List.mem_cons_of_mem _ h)
      · intro h pre u post hp
        rcases h (e :: pre) u post (by simp [hp]) with h | h
        · exact Or.inl h
        · rcases List.mem_cons.1 h with h | h
          · exact absurd h.symm (hf u)
          · exact Or.inr h
    cases e with
    | beginScope u0 =>
      simp only [scopeOpenedOK]
      rw [ih]
      constructor
      · intro h pre u post hp
        rcases (cons_eq_append_cons _ _ _ _ _).1 hp with ⟨_, he, _⟩ | ⟨pre', rfl, hr⟩
        · cases he
        · rcases h pre' u post hr with h | h
          · rcases List.mem_cons.1 h with h | h
            · subst h; exact Or.inr (by simp)
            · exact Or.inl h
          · exact Or.inr (List.mem_cons_of_mem _ h)
      · intro h pre u post hp
        rcases h (.beginScope u0 :: pre) u post (by simp [hp]) with h | h
        · exact Or.inl (List.mem_cons_of_mem _ h)
        · rcases List.mem_cons.1 h with h | h
          · cases h; exact Or.inl (by simp)
          · exact Or.inr h
    | endScope u0 =>
      simp only [scopeOpenedOK, Bool.and_eq_true, List.contains_iff_mem]
      rw [ih]
      constructor
      · rintro ⟨h0, h⟩ pre u post hp
        rcases (cons_eq_append_cons _ _ _ _ _).1 hp with ⟨_, he, _⟩ | ⟨pre', rfl, hr⟩
        · cases he; exact Or.inl h0
        · rcases h pre' u post hr with h | h
          · exact Or.inl h
          · exact Or.inr (List.mem_cons_of_mem _ h)
      · intro h
        refine ⟨?_, ?_⟩
        · rcases h [] u0 r rfl with h | h
          · exact h
          · simp at h
        · intro pre u post hp
          rcases h (.endScope u0 :: pre) u post (by simp [hp]) with h | h
          · exact Or.inl h
          · rcases List.mem_cons.1 h with h | h
            · cases h
            · exact Or.inr h
    | _ => exact generic (by intro u h; cases h) (by intro u h; cases h) (by simp [scopeOpenedOK])

theorem scopeClosedOK_iff : ∀ (p : List (Prim L)),
    scopeClosedOK p = true ↔
      ∀ pre n post, p = pre ++ Prim.beginScope n :: post → Prim.endScope n ∈ post := by
  intro p
  induction p with
  | nil => simp [scopeClosedOK]
  | cons e r ih =>
    have generic : (∀ u, e ≠ .beginScope u) → scopeClosedOK (e :: r) = scopeClosedOK r →
        (scopeClosedOK (e :: r) = true ↔
          ∀ pre n post, e :: r = pre ++ Prim.beginScope n :: post → Prim.endScope n ∈ post) := by
      intro hm heq
      rw [heq, ih]
      constructor
      · intro h pre u post hp
        rcases (cons_eq_append_cons _ _ _ _ _).1 hp with ⟨_, he, _⟩ | ⟨pre', rfl, hr⟩
        · exact absurd he (hm u)
        · exact h pre' u post hr
      · intro h pre u post hp
        exact h (e :: pre) u post (by simp [hp])
    cases e with
    | beginScope u0 =>
      simp only [scopeClosedOK, Bool.and_eq_true, List.contains_iff_mem]
      rw [ih]
      constructor
      · rintro ⟨h0, h⟩ pre u post hp
        rcases (cons_eq_append_cons _ _ _ _ _).1 hp with ⟨_, he, hr⟩ | ⟨pre', rfl, hr⟩
        · cases he; subst hr; exact h0
        · exact h pre' u post hr
      · intro h
        exact ⟨h [] u0 r rfl, fun pre u post hp => h (.beginScope u0 :: pre) u post (by simp [hp])⟩
    | _ => exact generic (by intro u h; cases h) (by simp [scopeClosedOK])

/-- the executable checker decides the declarative property -/
theorem closed_iff (p : List (Prim L)) : closed p = true ↔ Closed p := by
  simp only [closed, Bool.and_eq_true]
  rw [targetsDefined_iff, allPrimitive_iff, mergeForkOK_iff, scopeOpenedOK_iff, scopeClosedOK_iff]
  constructor
  · rintro ⟨⟨⟨⟨h1, h2⟩, h3⟩, h4⟩, h5⟩
    refine ⟨h1, h2, ?_, ?_, h5⟩
    · intro pre u post hp
      rcases h3 pre u post hp with h | h
      · simp at h
      · exact h
    · intro pre u post hp
      rcases h4 pre u post hp with h | h
      · simp at h
      · exact h
  · intro h
    exact ⟨⟨⟨⟨h.targets, h.primitive⟩, fun pre u post hp => Or.inr (h.merge_fork pre u post hp)⟩,
      fun pre u post hp => Or.inr (h.scope_opened pre u post hp)⟩, h.scope_closed⟩

/-! ### safety of the look-ups -/

theorem lookupAll_of_defined (p : List (Prim L)) : ∀ (ls : List L), (∀ l ∈ ls, Prim.label l ∈ p) →
    ∃ is, lookupAll p ls = some is ∧ ∀ i ∈ is, i < p.length := by
  intro ls
  induction ls with
  | nil => intro _; exact ⟨[], rfl, by simp⟩
  | cons l ls ih =>
    intro h
    obtain ⟨i, hi, hlt, _⟩ := lookupLabel_of_mem p l (h l (by simp))
    obtain ⟨is, his, hb⟩ := ih (fun l' hl' => h l' (List.mem_cons_of_mem _ hl'))
    refine ⟨i :: is, by simp [lookupAll, hi, his], ?_⟩
    intro j hj
    rcases List.mem_cons.1 hj with hj | hj
    · subst hj; exact hlt
    · exact hb j hj

theorem jumpTo_safe (p : List (Prim L)) (h : Head L) (l : L) (hh : HeadOK p h) (hl : Prim.label l ∈ p) :
    ∃ h', jumpTo p h l = .next [h'] ∧ HeadOK p h' ∧ 0 < h'.pos ∧ p[h'.pos - 1]? = some (.label l) := by
  obtain ⟨i, hi, hlt, hat, _⟩ := lookupLabel_of_mem p l hl
  refine ⟨{ h with pos := i + 1 }, by simp [jumpTo, hi], ⟨Nat.succ_le_of_lt hlt, hh.2⟩, by simp, by simpa using hat⟩

/-- one step of the look-up model on a closed program never raises KeyError, never meets an invalid
    goto label, and all continuing heads are again inside the flow with defined handler labels -/
theorem step_safe (p : List (Prim L)) (hc : Closed p) (h : Head L) (hh : HeadOK p h) (c : Bool) :
    match step p h c with
    | .next hs => ∀ h' ∈ hs, HeadOK p h'
    | .keyError => False
    | .invalidLabel => False
    | _ => True := by
  unfold step
  cases hp : p[h.pos]? with
  | none => simp
  | some e =>
    have hmem : e ∈ p := List.mem_of_getElem? hp
    have hlt : h.pos < p.length := by
      rcases List.getElem?_eq_some_iff.1 hp with ⟨hl, _⟩
      exact hl
    have hnext : HeadOK p { h with pos := h.pos + 1 } := ⟨hlt, hh.2⟩
    cases e with
    | goto l =>
      have hl := hc.targets _ hmem l (by simp [Prim.targets])
      obtain ⟨i, hi, hilt, _⟩ := lookupLabel_of_mem p l hl
      cases c with
      | true =>
        simp [hi]
        exact ⟨Nat.succ_le_of_lt hilt, hh.2⟩
      | false => simpa using hnext
    | fork u ls =>
      obtain ⟨is, his, hb⟩ := lookupAll_of_defined p ls (fun l hl => hc.targets _ hmem l (by simpa [Prim.targets] using hl))
      simp [his]
      intro i hi
      exact ⟨Nat.le_of_lt (hb i hi), hh.2⟩
    | abort =>
      cases hcat : h.handlers with
      | nil => simp
      | cons l rest =>
        obtain ⟨h', e', hok, _⟩ := jumpTo_safe p h l hh (hh.2 l (by simp [hcat]))
        simp [e']
        exact hok
    | brk o =>
      cases o with
      | none => simpa using hnext
      | some l =>
        obtain ⟨h', e', hok, _⟩ := jumpTo_safe p h l hh (hc.targets _ hmem l (by simp [Prim.targets]))
        simp [e']
        exact hok
    | cont o =>
      cases o with
      | none => simpa using hnext
      | some l =>
        obtain ⟨h', e', hok, _⟩ := jumpTo_safe p h l hh (hc.targets _ hmem l (by simp [Prim.targets]))
        simp [e']
        exact hok
    | catchFail o =>
      cases o with
      | some l =>
        simp
        refine ⟨hlt, ?_⟩
        intro l' hl'
        rcases List.mem_cons.1 hl' with hl' | hl'
        · subst hl'; exact hc.targets _ hmem _ (by simp [Prim.targets])
        · exact hh.2 l' hl'
      | none =>
        cases hcat : h.handlers with
        | nil => simp
        | cons l rest =>
          simp
          refine ⟨hlt, ?_⟩
          intro l' hl'
          exact hh.2 l' (by simp [hcat, hl'])
    | ret => simp
    | specOp op g rv =>
      cases c with
      | true => simpa using hnext
      | false =>
        cases hcat : h.handlers with
        | nil => simp
        | cons l rest =>
          obtain ⟨i, hi, hilt, _⟩ := lookupLabel_of_mem p l (hh.2 l (by simp [hcat]))
          simp [hi]
          exact ⟨Nat.le_of_lt hilt, by rw [← hcat]; exact hh.2⟩
    | beginScope n =>
      by_cases hn : n ∈ h.scopes
      · simp [hn]
      · simp [hn]; exact hnext
    | endScope n => simp; exact hnext
    | _ => simpa using hnext

theorem runPath_reach (p : List (Prim L)) : ∀ (cs : List (Bool × Nat)) (h h' : Head L),
    Reach p h → runPath p h cs = some h' → Reach p h' := by
  intro cs
  induction cs with
  | nil => intro h h' hr he; simp [runPath] at he; subst he; exact hr
  | cons ck rest ih =>
    intro h h' hr he
    obtain ⟨c, k⟩ := ck
    simp only [runPath] at he
    cases hs : step p h c with
    | next hs' =>
      rw [hs] at he
      simp only at he
      cases hk : hs'[k]? with
      | none => rw [hk] at he; cases he
      | some h1 =>
        rw [hk] at he
        exact ih h1 h' (Reach.step h c hs' h1 hr hs (List.mem_of_getElem? hk)) he
    | finished => rw [hs] at he; cases he
    | keyError => rw [hs] at he; cases he
    | invalidLabel => rw [hs] at he; cases he
    | popEmpty => rw [hs] at he; cases he
    | scopeError => rw [hs] at he; cases he

theorem reach_ok (p : List (Prim L)) (hc : Closed p) (h : Head L) (hr : Reach p h) : HeadOK p h := by
  induction hr with
  | start => exact ⟨Nat.zero_le _, by simp⟩
  | step h c hs h' _ hstep hmem ih =>
    have := step_safe p hc h ih c
    rw [hstep] at this
    exact this h' hmem

/-- a set of heads that passes `closedUnder` is an inductive invariant of the look-up model -/
theorem closedUnder_sound (p : List (Prim L)) (S : List (Head L)) (hS : closedUnder p S = true) (h : Head L)
    (hr : Reach p h) : h ∈ S ∧ ∀ c, step p h c ≠ .keyError ∧ step p h c ≠ .invalidLabel ∧ step p h c ≠ .scopeError := by
  simp only [closedUnder, Bool.and_eq_true, List.contains_iff_mem, List.all_eq_true] at hS
  obtain ⟨h0, hall⟩ := hS
  have key : ∀ x, x ∈ S → ∀ c, (step p x c ≠ .keyError ∧ step p x c ≠ .invalidLabel ∧ step p x c ≠ .scopeError) ∧
      ∀ hs, step p x c = .next hs → ∀ y ∈ hs, y ∈ S := by
    intro x hx c
    have := hall x hx c (by cases c <;> simp)
    cases hst : step p x c with
    | next hs =>
      rw [hst] at this
      simp only [List.all_eq_true, List.contains_iff_mem] at this
      exact ⟨⟨by simp, by simp, by simp⟩, fun hs' he y hy => by cases he; exact this y hy⟩
    | keyError => rw [hst] at this; simp at this
    | invalidLabel => rw [hst] at this; simp at this
    | scopeError => rw [hst] at this; simp at this
    | finished => exact ⟨⟨by simp, by simp, by simp⟩, fun hs he => by cases he⟩
    | popEmpty => exact ⟨⟨by simp, by simp, by simp⟩, fun hs he => by cases he⟩
  have mem : h ∈ S := by
    induction hr with
    | start => exact h0
    | step x c hs y _ hstep hy ih => exact (key x ih c).2 hs hstep y hy
  exact ⟨mem, fun c => (key h mem c).1⟩

end NemoVerif.Closed
