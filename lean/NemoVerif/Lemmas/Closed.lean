/-
  Lemmas for C12 (Colang 2.x part): correctness of the closedness checker, the label table and the
  safety of the look-ups performed by the model of `slide`.
-/
import NemoVerif.Models.Closed
namespace NemoVerif.Closed
variable {L : Type} [DecidableEq L]

/-! ### label table -/

theorem labelsFrom_lookup (l : L) : ∀ (p : List (Prim L)) (i : Nat) (acc : List (L × Nat)),
    (labelsFrom i p acc).lookup l =
      match lastLabel l p with
      | some k => some (i + k)
      | none => acc.lookup l := by
  intro p
  induction p with
  | nil => intro i acc; simp [labelsFrom, lastLabel]
  | cons e r ih =>
    intro i acc
    have key : ∀ acc', (labelsFrom (i + 1) r acc').lookup l =
        match lastLabel l r with
        | some k => some (i + 1 + k)
        | none => acc'.lookup l := fun acc' => ih (i + 1) acc'
    by_cases he : e = .label l
    · subst he
      simp only [labelsFrom, lastLabel]
      rw [key]
      cases hr : lastLabel l r with
      | some k => simp; omega
      | none => simp [List.lookup]
    · cases e with
      | label n =>
        have hn : n ≠ l := fun h => he (by rw [h])
        simp only [labelsFrom, lastLabel]
        rw [key]
        cases hr : lastLabel l r with
        | some k => simp; omega
        | none =>
          have : (l == n) = false := by simp; exact fun h => hn h.symm
          simp [List.lookup, this, he]
      | _ =>
        simp only [labelsFrom, lastLabel]
        rw [key]
        cases hr : lastLabel l r with
        | some k => simp; omega
        | none => simp

/-- the dict built by `initialize_flow` answers with the index of the LAST `Label l` -/
theorem lookupLabel_eq_lastLabel (p : List (Prim L)) (l : L) : lookupLabel p l = lastLabel l p := by
  unfold lookupLabel labelTable
  rw [labelsFrom_lookup]
  cases lastLabel l p <;> simp [List.lookup]

theorem lastLabel_some (l : L) : ∀ (p : List (Prim L)) (i : Nat), lastLabel l p = some i →
    i < p.length ∧ p[i]? = some (.label l) ∧ ∀ j, i < j → p[j]? ≠ some (.label l) := by
  intro p
  induction p with
  | nil => intro i h; simp [lastLabel] at h
  | cons e r ih =>
    intro i h
    simp only [lastLabel] at h
    cases hr : lastLabel l r with
    | some k =>
      rw [hr] at h
      simp at h
      subst h
      obtain ⟨h1, h2, h3⟩ := ih k hr
      refine ⟨by simp; omega, by simpa using h2, ?_⟩
      intro j hj
      cases j with
      | zero => omega
      | succ j' => simpa using h3 j' (by omega)
    | none =>
      rw [hr] at h
      by_cases he : e = .label l
      · simp [he] at h
        subst h
        refine ⟨by simp, by simp [he], ?_⟩
        intro j hj
        cases j with
        | zero => omega
        | succ j' =>
          simp only [List.getElem?_cons_succ]
          intro hc
          -- a later occurrence would make `lastLabel l r` defined
          have : ∀ (q : List (Prim L)) (m : Nat), q[m]? = some (.label l) → lastLabel l q ≠ none := by
            intro q
            induction q with
            | nil => intro m hm; simp at hm
            | cons a q ihq =>
              intro m hm
              simp only [lastLabel]
              cases m with
              | zero =>
                simp at hm
                cases hq : lastLabel l q <;> simp [hm]
              | succ m' =>
                simp at hm
                have := ihq m' hm
                cases hq : lastLabel l q with
                | none => exact absurd hq this
                | some _ => simp
          exact this r j' hc hr
      · simp [he] at h

theorem lastLabel_defined (l : L) : ∀ (p : List (Prim L)), Prim.label l ∈ p → ∃ i, lastLabel l p = some i := by
  intro p
  induction p with
  | nil => intro h; simp at h
  | cons e r ih =>
    intro h
    simp only [lastLabel]
    cases hr : lastLabel l r with
    | some k => exact ⟨k + 1, rfl⟩
    | none =>
      rcases List.mem_cons.1 h with h | h
      · exact ⟨0, by simp [h]⟩
      · obtain ⟨i, hi⟩ := ih h
        rw [hr] at hi
        cases hi

/-- a defined label is found, at a position inside the flow that holds that label, and it is the last one -/
theorem lookupLabel_of_mem (p : List (Prim L)) (l : L) (h : Prim.label l ∈ p) :
    ∃ i, lookupLabel p l = some i ∧ i < p.length ∧ p[i]? = some (.label l) ∧
      ∀ j, i < j → p[j]? ≠ some (.label l) := by
  obtain ⟨i, hi⟩ := lastLabel_defined l p h
  exact ⟨i, by rw [lookupLabel_eq_lastLabel, hi], lastLabel_some l p i hi⟩

theorem lookupLabel_some_mem (p : List (Prim L)) (l : L) (i : Nat) (h : lookupLabel p l = some i) :
    Prim.label l ∈ p := by
  rw [lookupLabel_eq_lastLabel] at h
  obtain ⟨_, h2, _⟩ := lastLabel_some l p i h
  exact List.mem_of_getElem? h2

/-! ### checker correctness, clause by clause -/

theorem targetsDefined_iff (p : List (Prim L)) :
    targetsDefined p = true ↔ ∀ e ∈ p, ∀ l ∈ e.targets, Prim.label l ∈ p := by
  simp [targetsDefined, List.all_eq_true]

omit [DecidableEq L] in
theorem allPrimitive_iff (p : List (Prim L)) :
    allPrimitive p = true ↔ ∀ e ∈ p, e.isPrimitive = true := by
  simp [allPrimitive, List.all_eq_true]

theorem cons_eq_append_cons {α : Type} (e x : α) (r pre post : List α) :
    e :: r = pre ++ x :: post ↔ (pre = [] ∧ e = x ∧ r = post) ∨ ∃ pre', pre = e :: pre' ∧ r = pre' ++ x :: post := by
  cases pre with
  | nil => simp
  | cons a pre' =>
    simp only [List.cons_append, List.cons.injEq, List.cons_ne_nil, false_and, false_or]
    constructor
    · rintro ⟨rfl, h⟩; exact ⟨pre', ⟨rfl, rfl⟩, h⟩
    · rintro ⟨w, ⟨rfl, rfl⟩, h⟩; exact ⟨rfl, h⟩

theorem mergeForkOK_iff : ∀ (p : List (Prim L)) (seen : List L),
    mergeForkOK seen p = true ↔
      ∀ pre u post, p = pre ++ Prim.merge u :: post → u ∈ seen ∨ ∃ ls, Prim.fork u ls ∈ pre := by
  intro p
  induction p with
  | nil => intro seen; simp [mergeForkOK]
  | cons e r ih =>
    intro seen
    have generic : (∀ u, e ≠ .merge u) → (∀ u ls, e ≠ .fork u ls) → mergeForkOK seen (e :: r) = mergeForkOK seen r →
        (mergeForkOK seen (e :: r) = true ↔
          ∀ pre u post, e :: r = pre ++ Prim.merge u :: post → u ∈ seen ∨ ∃ ls, Prim.fork u ls ∈ pre) := by
      intro hm hf heq
      rw [heq, ih]
      constructor
      · intro h pre u post hp
        rcases (cons_eq_append_cons _ _ _ _ _).1 hp with ⟨_, he, _⟩ | ⟨pre', rfl, hr⟩
        · exact absurd he (hm u)
        · rcases h pre' u post hr with h | ⟨ls, h⟩
          · exact Or.inl h
          · exact Or.inr ⟨ls, List.mem_cons_of_mem _ h⟩
      · intro h pre u post hp
        rcases h (e :: pre) u post (by simp [hp]) with h | ⟨ls, h⟩
        · exact Or.inl h
        · rcases List.mem_cons.1 h with h | h
          · exact absurd h.symm (hf u ls)
          · exact Or.inr ⟨ls, h⟩
    cases e with
    | fork u0 ls0 =>
      simp only [mergeForkOK]
      rw [ih]
      constructor
      · intro h pre u post hp
        rcases (cons_eq_append_cons _ _ _ _ _).1 hp with ⟨_, he, _⟩ | ⟨pre', rfl, hr⟩
        · cases he
        · rcases h pre' u post hr with h | ⟨ls, h⟩
          · rcases List.mem_cons.1 h with h | h
            · subst h; exact Or.inr ⟨ls0, by simp⟩
            · exact Or.inl h
          · exact Or.inr ⟨ls, List.mem_cons_of_mem _ h⟩
      · intro h pre u post hp
        rcases h (.fork u0 ls0 :: pre) u post (by simp [hp]) with h | ⟨ls, h⟩
        · exact Or.inl (List.mem_cons_of_mem _ h)
        · rcases List.mem_cons.1 h with h | h
          · cases h; exact Or.inl (by simp)
          · exact Or.inr ⟨ls, h⟩
    | merge u0 =>
      simp only [mergeForkOK, Bool.and_eq_true, List.contains_iff_mem]
      rw [ih]
      constructor
      · rintro ⟨h0, h⟩ pre u post hp
        rcases (cons_eq_append_cons _ _ _ _ _).1 hp with ⟨_, he, _⟩ | ⟨pre', rfl, hr⟩
        · cases he; exact Or.inl h0
        · rcases h pre' u post hr with h | ⟨ls, h⟩
          · exact Or.inl h
          · exact Or.inr ⟨ls, List.mem_cons_of_mem _ h⟩
      · intro h
        refine ⟨?_, ?_⟩
        · rcases h [] u0 r rfl with h | ⟨ls, h⟩
          · exact h
          · simp at h
        · intro pre u post hp
          rcases h (.merge u0 :: pre) u post (by simp [hp]) with h | ⟨ls, h⟩
          · exact Or.inl h
          · rcases List.mem_cons.1 h with h | h
            · cases h
            · exact Or.inr ⟨ls, h⟩
    | _ => exact generic (by intro u h; cases h) (by intro u ls h; cases h) (by simp [mergeForkOK])

theorem scopeOpenedOK_iff : ∀ (p : List (Prim L)) (seen : List L),
    scopeOpenedOK seen p = true ↔
      ∀ pre n post, p = pre ++ Prim.endScope n :: post → n ∈ seen ∨ Prim.beginScope n ∈ pre := by
  intro p
  induction p with
  | nil => intro seen; simp [scopeOpenedOK]
  | cons e r ih =>
    intro seen
    have generic : (∀ u, e ≠ .endScope u) → (∀ u, e ≠ .beginScope u) → scopeOpenedOK seen (e :: r) = scopeOpenedOK seen r →
        (scopeOpenedOK seen (e :: r) = true ↔
          ∀ pre n post, e :: r = pre ++ Prim.endScope n :: post → n ∈ seen ∨ Prim.beginScope n ∈ pre) := by
      intro hm hf heq
      rw [heq, ih]
      constructor
      · intro h pre u post hp
        rcases (cons_eq_append_cons _ _ _ _ _).1 hp with ⟨_, he, _⟩ | ⟨pre', rfl, hr⟩
        · exact absurd he (hm u)
        · rcases h pre' u post hr with h | h
          · exact Or.inl h
          · exact Or.inr (List.mem_cons_of_mem _ h)
      · intro h pre u post hp
        rcases h (e :: pre) u post (by simp [hp]) with h | h
        · exact Or.inl h
        · rcases List.mem_cons.1 h with h | h
          · exact absurd h.symm (hf u)
          · exact Or.inr h
    cases e with
    | beginScope u0 =>
      simp only [scopeOpenedOK]
      rw [ih]
      constructor
      · intro h pre u post hp
        rcases (cons_eq_append_cons _ _ _ _ _).1 hp with ⟨_, he, _⟩ | ⟨pre', rfl, hr⟩
        · cases he
        · rcases h pre' u post hr with h | h
          · rcases List.mem_cons.1 h with h | h
            · subst h; exact Or.inr (by simp)
            · exact Or.inl h
          · exact Or.inr (List.mem_cons_of_mem _ h)
      · intro h pre u post hp
        rcases h (.beginScope u0 :: pre) u post (by simp [hp]) with h | h
        · exact Or.inl (List.mem_cons_of_mem _ h)
        · rcases List.mem_cons.1 h with h | h
          · cases h; exact Or.inl (by simp)
          · exact Or.inr h
    | endScope u0 =>
      simp only [scopeOpenedOK, Bool.and_eq_true, List.contains_iff_mem]
      rw [ih]
      constructor
      · rintro ⟨h0, h⟩ pre u post hp
        rcases (cons_eq_append_cons _ _ _ _ _).1 hp with ⟨_, he, _⟩ | ⟨pre', rfl, hr⟩
        · cases he; exact Or.inl h0
        · rcases h pre' u post hr with h | h
          · exact Or.inl h
          · exact Or.inr (List.mem_cons_of_mem _ h)
      · intro h
        refine ⟨?_, ?_⟩
        · rcases h [] u0 r rfl with h | h
          · exact h
          · simp at h
        · intro pre u post hp
          rcases h (.endScope u0 :: pre) u post (by simp [hp]) with h | h
          · exact Or.inl h
          · rcases List.mem_cons.1 h with h | h
            · cases h
            · exact Or.inr h
    | _ => exact generic (by intro u h; cases h) (by intro u h; cases h) (by simp [scopeOpenedOK])

theorem scopeClosedOK_iff : ∀ (p : List (Prim L)),
    scopeClosedOK p = true ↔
      ∀ pre n post, p = pre ++ Prim.beginScope n :: post → Prim.endScope n ∈ post := by
  intro p
  induction p with
  | nil => simp [scopeClosedOK]
  | cons e r ih =>
    have generic : (∀ u, e ≠ .beginScope u) → scopeClosedOK (e :: r) = scopeClosedOK r →
        (scopeClosedOK (e :: r) = true ↔
          ∀ pre n post, e :: r = pre ++ Prim.beginScope n :: post → Prim.endScope n ∈ post) := by
      intro hm heq
      rw [heq, ih]
      constructor
      · intro h pre u post hp
        rcases (cons_eq_append_cons _ _ _ _ _).1 hp with ⟨_, he, _⟩ | ⟨pre', rfl, hr⟩
        · exact absurd he (hm u)
        · exact h pre' u post hr
      · intro h pre u post hp
        exact h (e :: pre) u post (by simp [hp])
    cases e with
    | beginScope u0 =>
      simp only [scopeClosedOK, Bool.and_eq_true, List.contains_iff_mem]
      rw [ih]
      constructor
      · rintro ⟨h0, h⟩ pre u post hp
        rcases (cons_eq_append_cons _ _ _ _ _).1 hp with ⟨_, he, hr⟩ | ⟨pre', rfl, hr⟩
        · cases he; subst hr; exact h0
        · exact h pre' u post hr
      · intro h
        exact ⟨h [] u0 r rfl, fun pre u post hp => h (.beginScope u0 :: pre) u post (by simp [hp])⟩
    | _ => exact generic (by intro u h; cases h) (by simp [scopeClosedOK])

/-- the executable checker decides the declarative property -/
theorem closed_iff (p : List (Prim L)) : closed p = true ↔ Closed p := by
  simp only [closed, Bool.and_eq_true]
  rw [targetsDefined_iff, allPrimitive_iff, mergeForkOK_iff, scopeOpenedOK_iff, scopeClosedOK_iff]
  constructor
  · rintro ⟨⟨⟨⟨h1, h2⟩, h3⟩, h4⟩, h5⟩
    refine ⟨h1, h2, ?_, ?_, h5⟩
    · intro pre u post hp
      rcases h3 pre u post hp with h | h
      · simp at h
      · exact h
    · intro pre u post hp
      rcases h4 pre u post hp with h | h
      · simp at h
      · exact h
  · intro h
    exact ⟨⟨⟨⟨h.targets, h.primitive⟩, fun pre u post hp => Or.inr (h.merge_fork pre u post hp)⟩,
      fun pre u post hp => Or.inr (h.scope_opened pre u post hp)⟩, h.scope_closed⟩

/-! ### safety of the look-ups -/

theorem lookupAll_of_defined (p : List (Prim L)) : ∀ (ls : List L), (∀ l ∈ ls, Prim.label l ∈ p) →
    ∃ is, lookupAll p ls = some is ∧ ∀ i ∈ is, i < p.length := by
  intro ls
  induction ls with
  | nil => intro _; exact ⟨[], rfl, by simp⟩
  | cons l ls ih =>
    intro h
    obtain ⟨i, hi, hlt, _⟩ := lookupLabel_of_mem p l (h l (by simp))
    obtain ⟨is, his, hb⟩ := ih (fun l' hl' => h l' (List.mem_cons_of_mem _ hl'))
    refine ⟨i :: is, by simp [lookupAll, hi, his], ?_⟩
    intro j hj
    rcases List.mem_cons.1 hj with hj | hj
    · subst hj; exact hlt
    · exact hb j hj

theorem jumpTo_safe (p : List (Prim L)) (h : Head L) (l : L) (hh : HeadOK p h) (hl : Prim.label l ∈ p) :
    ∃ h', jumpTo p h l = .next [h'] ∧ HeadOK p h' ∧ 0 < h'.pos ∧ p[h'.pos - 1]? = some (.label l) := by
  obtain ⟨i, hi, hlt, hat, _⟩ := lookupLabel_of_mem p l hl
  refine ⟨{ h with pos := i + 1 }, by simp [jumpTo, hi], ⟨Nat.succ_le_of_lt hlt, hh.2⟩, by simp, by simpa using hat⟩

/-- one step of the look-up model on a closed program never raises KeyError, never meets an invalid
    goto label, and all continuing heads are again inside the flow with defined handler labels -/
theorem step_safe (p : List (Prim L)) (hc : Closed p) (h : Head L) (hh : HeadOK p h) (c : Bool) :
    match step p h c with
    | .next hs => ∀ h' ∈ hs, HeadOK p h'
    | .keyError => False
    | .invalidLabel => False
    | _ => True := by
  unfold step
  cases hp : p[h.pos]? with
  | none => simp
  | some e =>
    have hmem : e ∈ p := List.mem_of_getElem? hp
    have hlt : h.pos < p.length := by
      rcases List.getElem?_eq_some_iff.1 hp with ⟨hl, _⟩
      exact hl
    have hnext : HeadOK p { h with pos := h.pos + 1 } := ⟨hlt, hh.2⟩
    cases e with
    | goto l =>
      have hl := hc.targets _ hmem l (by simp [Prim.targets])
      obtain ⟨i, hi, hilt, _⟩ := lookupLabel_of_mem p l hl
      cases c with
      | true =>
        simp [hi]
        exact ⟨Nat.succ_le_of_lt hilt, hh.2⟩
      | false => simpa using hnext
    | jump l =>
      have hl := hc.targets _ hmem l (by simp [Prim.targets])
      obtain ⟨i, hi, hilt, _⟩ := lookupLabel_of_mem p l hl
      simp [hi]
      exact ⟨Nat.succ_le_of_lt hilt, hh.2⟩
    | fork u ls =>
      obtain ⟨is, his, hb⟩ := lookupAll_of_defined p ls (fun l hl => hc.targets _ hmem l (by simpa [Prim.targets] using hl))
      simp [his]
      intro i hi
      exact ⟨Nat.le_of_lt (hb i hi), hh.2⟩
    | abort =>
      cases hcat : h.handlers with
      | nil => simp
      | cons l rest =>
        obtain ⟨h', e', hok, _⟩ := jumpTo_safe p h l hh (hh.2 l (by simp [hcat]))
        simp [e']
        exact hok
    | brk o =>
      cases o with
      | none => simpa using hnext
      | some l =>
        obtain ⟨h', e', hok, _⟩ := jumpTo_safe p h l hh (hc.targets _ hmem l (by simp [Prim.targets]))
        simp [e']
        exact hok
    | cont o =>
      cases o with
      | none => simpa using hnext
      | some l =>
        obtain ⟨h', e', hok, _⟩ := jumpTo_safe p h l hh (hc.targets _ hmem l (by simp [Prim.targets]))
        simp [e']
        exact hok
    | catchFail o =>
      cases o with
      | some l =>
        simp
        refine ⟨hlt, ?_⟩
        intro l' hl'
        rcases List.mem_cons.1 hl' with hl' | hl'
        · subst hl'; exact hc.targets _ hmem _ (by simp [Prim.targets])
        · exact hh.2 l' hl'
      | none =>
        cases hcat : h.handlers with
        | nil => simp
        | cons l rest =>
          simp
          refine ⟨hlt, ?_⟩
          intro l' hl'
          exact hh.2 l' (by simp [hcat, hl'])
    | ret => simp
    | specOp op g rv =>
      cases c with
      | true => simpa using hnext
      | false =>
        cases hcat : h.handlers with
        | nil => simp
        | cons l rest =>
          obtain ⟨i, hi, hilt, _⟩ := lookupLabel_of_mem p l (hh.2 l (by simp [hcat]))
          simp [hi]
          exact ⟨Nat.le_of_lt hilt, by rw [← hcat]; exact hh.2⟩
    | beginScope n =>
      by_cases hn : n ∈ h.scopes
      · simp [hn]
      · simp [hn]; exact hnext
    | endScope n => simp; exact hnext
    | _ => simpa using hnext

theorem runPath_reach (p : List (Prim L)) : ∀ (cs : List (Bool × Nat)) (h h' : Head L),
    Reach p h → runPath p h cs = some h' → Reach p h' := by
  intro cs
  induction cs with
  | nil => intro h h' hr he; simp [runPath] at he; subst he; exact hr
  | cons ck rest ih =>
    intro h h' hr he
    obtain ⟨c, k⟩ := ck
    simp only [runPath] at he
    cases hs : step p h c with
    | next hs' =>
      rw [hs] at he
      simp only at he
      cases hk : hs'[k]? with
      | none => rw [hk] at he; cases he
      | some h1 =>
        rw [hk] at he
        exact ih h1 h' (Reach.step h c hs' h1 hr hs (List.mem_of_getElem? hk)) he
    | finished => rw [hs] at he; cases he
    | keyError => rw [hs] at he; cases he
    | invalidLabel => rw [hs] at he; cases he
    | popEmpty => rw [hs] at he; cases he
    | scopeError => rw [hs] at he; cases he

theorem reach_ok (p : List (Prim L)) (hc : Closed p) (h : Head L) (hr : Reach p h) : HeadOK p h := by
  induction hr with
  | start => exact ⟨Nat.zero_le _, by simp⟩
  | step h c hs h' _ hstep hmem ih =>
    have := step_safe p hc h ih c
    rw [hstep] at this
    exact this h' hmem

/-- a set of heads that passes `closedUnder` is an inductive invariant of the look-up model -/
theorem closedUnder_sound (p : List (Prim L)) (S : List (Head L)) (hS : closedUnder p S = true) (h : Head L)
    (hr : Reach p h) : h ∈ S ∧ ∀ c, step p h c ≠ .keyError ∧ step p h c ≠ .invalidLabel ∧ step p h c ≠ .scopeError := by
  simp only [closedUnder, Bool.and_eq_true, List.contains_iff_mem, List.all_eq_true] at hS
  obtain ⟨h0, hall⟩ := hS
  have key : ∀ x, x ∈ S → ∀ c, (step p x c ≠ .keyError ∧ step p x c ≠ .invalidLabel ∧ step p x c ≠ .scopeError) ∧
      ∀ hs, step p x c = .next hs → ∀ y ∈ hs, y ∈ S := by
    intro x hx c
    have := hall x hx c (by cases c <;> simp)
    cases hst : step p x c with
    | next hs =>
      rw [hst] at this
      simp only [List.all_eq_true, List.contains_iff_mem] at this
      exact ⟨⟨by simp, by simp, by simp⟩, fun hs' he y hy => by cases he; exact this y hy⟩
    | keyError => rw [hst] at this; simp at this
    | invalidLabel => rw [hst] at this; simp at this
    | scopeError => rw [hst] at this; simp at this
    | finished => exact ⟨⟨by simp, by simp, by simp⟩, fun hs he => by cases he⟩
    | popEmpty => exact ⟨⟨by simp, by simp, by simp⟩, fun hs he => by cases he⟩
  have mem : h ∈ S := by
    induction hr with
    | start => exact h0
    | step x c hs y _ hstep hy ih => exact (key x ih c).2 hs hstep y hy
  exact ⟨mem, fun c => (key h mem c).1⟩

/-! ### soundness of state annotations -/

theorem chain_drop (R : L → St L → Prop) (ex : St L) : ∀ (ap : List (APrim L)) (i : Nat),
    Chain R ap ex → Chain R (ap.drop i) ex := by
  intro ap
  induction ap with
  | nil => intro i _; simp [Chain]
  | cons a r ih =>
    intro i h
    cases i with
    | zero => simpa using h
    | succ i => simp only [List.drop_succ_cons]; exact ih i (by obtain ⟨e, st⟩ := a; exact h.2)

/-- the head's state is the annotation of its position -/
def StAt (ap : List (APrim L)) (ex : St L) (h : Head L) : Prop :=
  h.pos ≤ ap.length ∧ entryOf (ap.drop h.pos) ex = ⟨h.handlers, h.scopes⟩

theorem annot_at (ap : List (APrim L)) (ex : St L) (hch : Chain (LabSt ap) ap ex) (i : Nat) (e : Prim L) (st : St L)
    (hi : ap[i]? = some (e, st)) : okStep (LabSt ap) e st (entryOf (ap.drop (i + 1)) ex) := by
  have hlt : i < ap.length := (List.getElem?_eq_some_iff.1 hi).1
  have hd : ap.drop i = (e, st) :: ap.drop (i + 1) := by
    rw [List.drop_eq_getElem_cons hlt]
    congr 1
    exact (List.getElem?_eq_some_iff.1 hi).2
  have := chain_drop (LabSt ap) ex ap i hch
  rw [hd] at this
  exact this.1

theorem annot_jump (ap : List (APrim L)) (ex : St L) (hch : Chain (LabSt ap) ap ex) (l : L) (st : St L)
    (hR : LabSt ap l st) (j : Nat) (hj : lookupLabel (ap.map Prod.fst) l = some j) :
    StAt ap ex { pos := j, handlers := st.h, scopes := st.s } ∧ StAt ap ex { pos := j + 1, handlers := st.h, scopes := st.s } := by
  rw [lookupLabel_eq_lastLabel] at hj
  obtain ⟨hlt, hat, _⟩ := lastLabel_some l _ j hj
  rw [List.getElem?_map] at hat
  cases hx : ap[j]? with
  | none => rw [hx] at hat; simp at hat
  | some x =>
    rw [hx] at hat
    obtain ⟨e, st'⟩ := x
    simp at hat
    subst hat
    have hst : st' = st := hR st' (List.mem_of_getElem? hx)
    subst hst
    have hlt' : j < ap.length := (List.getElem?_eq_some_iff.1 hx).1
    have hd : ap.drop j = (Prim.label l, st') :: ap.drop (j + 1) := by
      rw [List.drop_eq_getElem_cons hlt']
      congr 1
      exact (List.getElem?_eq_some_iff.1 hx).2
    have hok := annot_at ap ex hch j _ _ hx
    simp only [okStep] at hok
    refine ⟨⟨Nat.le_of_lt hlt', ?_⟩, ⟨hlt', ?_⟩⟩
    · simp only; rw [hd]; rfl
    · simp only; rw [hok]

/-- one step preserves the annotation invariant and cannot be the scope error -/
theorem annot_step (ap : List (APrim L)) (ex : St L) (hch : Chain (LabSt ap) ap ex) (h : Head L) (hh : StAt ap ex h) (c : Bool) :
    step (ap.map Prod.fst) h c ≠ .scopeError ∧
    ∀ hs, step (ap.map Prod.fst) h c = .next hs → ∀ h' ∈ hs, StAt ap ex h' := by
  obtain ⟨hle, hst⟩ := hh
  unfold step
  cases hp : (ap.map Prod.fst)[h.pos]? with
  | none => simp
  | some e =>
    rw [List.getElem?_map] at hp
    cases hx : ap[h.pos]? with
    | none => rw [hx] at hp; simp at hp
    | some x =>
      rw [hx] at hp
      obtain ⟨e', st⟩ := x
      simp at hp
      subst hp
      have hlt : h.pos < ap.length := (List.getElem?_eq_some_iff.1 hx).1
      have hd : ap.drop h.pos = (e', st) :: ap.drop (h.pos + 1) := by
        rw [List.drop_eq_getElem_cons hlt]
        congr 1
        exact (List.getElem?_eq_some_iff.1 hx).2
      rw [hd] at hst
      simp only [entryOf] at hst
      have hok := annot_at ap ex hch h.pos _ _ hx
      have hsth : st.h = h.handlers := by rw [hst]
      have hsts : st.s = h.scopes := by rw [hst]
      -- the successor at `pos + 1` with new state `nxt`
      have next_ok : ∀ (hs' : List L) (sc' : List L), entryOf (ap.drop (h.pos + 1)) ex = ⟨hs', sc'⟩ →
          StAt ap ex { pos := h.pos + 1, handlers := hs', scopes := sc' } :=
        fun hs' sc' he => ⟨hlt, by simp only; rw [he]⟩
      have jump_ok : ∀ l, LabSt ap l st → ∀ j, lookupLabel (ap.map Prod.fst) l = some j →
          StAt ap ex { pos := j, handlers := h.handlers, scopes := h.scopes } ∧
          StAt ap ex { pos := j + 1, handlers := h.handlers, scopes := h.scopes } := by
        intro l hR j hj
        have := annot_jump ap ex hch l st hR j hj
        rw [hsth, hsts] at this
        exact this
      cases e' with
      | goto l =>
        simp only [okStep] at hok
        cases c with
        | false =>
          simp
          have := next_ok st.h st.s (by rw [hok.2])
          rw [hsth, hsts] at this; exact this
        | true =>
          simp only [if_true]
          cases hl : lookupLabel (ap.map Prod.fst) l with
          | none => simp
          | some j =>
            simp
            exact (jump_ok l hok.1 j hl).2
      | jump l =>
        simp only [okStep] at hok
        simp only
        cases hl : lookupLabel (ap.map Prod.fst) l with
        | none => simp
        | some j =>
          simp
          exact (jump_ok l hok j hl).2
      | fork u ls =>
        simp only [okStep] at hok
        simp only
        cases hl : lookupAll (ap.map Prod.fst) ls with
        | none => simp
        | some is =>
          simp
          intro i hi
          -- every looked-up index belongs to some label of `ls`
          have : ∀ (ls : List L) (is : List Nat), lookupAll (ap.map Prod.fst) ls = some is → ∀ i ∈ is,
              ∃ l ∈ ls, lookupLabel (ap.map Prod.fst) l = some i := by
            intro ls
            induction ls with
            | nil => intro is h i hi; simp [lookupAll] at h; subst h; simp at hi
            | cons l ls ih =>
              intro is h i hi
              simp only [lookupAll] at h
              cases h1 : lookupLabel (ap.map Prod.fst) l with
              | none => rw [h1] at h; simp at h
              | some k =>
                cases h2 : lookupAll (ap.map Prod.fst) ls with
                | none => rw [h1, h2] at h; simp at h
                | some ks =>
                  rw [h1, h2] at h
                  simp at h; subst h
                  rcases List.mem_cons.1 hi with hi | hi
                  · subst hi; exact ⟨l, by simp, h1⟩
                  · obtain ⟨l', hl', hk⟩ := ih ks h2 i hi
                    exact ⟨l', List.mem_cons_of_mem _ hl', hk⟩
          obtain ⟨l, hl', hk⟩ := this ls is hl i hi
          exact (jump_ok l (hok l hl') i hk).1
      | abort =>
        simp only [okStep] at hok
        simp only
        cases hcat : h.handlers with
        | nil => simp
        | cons l rest =>
          simp only [jumpTo]
          cases hl : lookupLabel (ap.map Prod.fst) l with
          | none => simp
          | some j =>
            simp
            exact (jump_ok l (hok l rest (by rw [hsth, hcat])) j hl).2
      | brk o =>
        cases o with
        | none =>
          simp only [okStep] at hok
          simp
          have := next_ok st.h st.s (by rw [hok])
          rw [hsth, hsts] at this; exact this
        | some l =>
          simp only [okStep] at hok
          simp only [jumpTo]
          cases hl : lookupLabel (ap.map Prod.fst) l with
          | none => simp
          | some j => simp; exact (jump_ok l hok j hl).2
      | cont o =>
        cases o with
        | none =>
          simp only [okStep] at hok
          simp
          have := next_ok st.h st.s (by rw [hok])
          rw [hsth, hsts] at this; exact this
        | some l =>
          simp only [okStep] at hok
          simp only [jumpTo]
          cases hl : lookupLabel (ap.map Prod.fst) l with
          | none => simp
          | some j => simp; exact (jump_ok l hok j hl).2
      | catchFail o =>
        cases o with
        | some l =>
          simp only [okStep] at hok
          simp
          have := next_ok (l :: st.h) st.s (by rw [hok])
          rw [hsth, hsts] at this; exact this
        | none =>
          simp only [okStep] at hok
          simp only
          cases hcat : h.handlers with
          | nil => simp
          | cons x rest =>
            simp
            have := next_ok rest st.s (by rw [hok x rest (by rw [hsth, hcat])])
            rw [hsts] at this; exact this
      | specOp op g rv =>
        simp only [okStep] at hok
        cases c with
        | true =>
          simp
          have := next_ok st.h st.s (by rw [hok.1])
          rw [hsth, hsts] at this; exact this
        | false =>
          simp only [Bool.false_eq_true, if_false]
          cases hcat : h.handlers with
          | nil => simp
          | cons l rest =>
            simp only
            cases hl : lookupLabel (ap.map Prod.fst) l with
            | none => simp
            | some j =>
              simp
              have := (jump_ok l (hok.2 l rest (by rw [hsth, hcat])) j hl).1
              rw [hcat] at this; exact this
      | beginScope n =>
        simp only [okStep] at hok
        have hn : n ∉ h.scopes := by rw [← hsts]; exact hok.1
        simp [hn]
        have := next_ok st.h (n :: st.s) (by rw [hok.2])
        rw [hsth, hsts] at this; exact this
      | endScope n =>
        simp only [okStep] at hok
        simp
        have := next_ok st.h (st.s.erase n) (by rw [hok])
        rw [hsth, hsts] at this; exact this
      | ret => simp
      | label n =>
        simp only [okStep] at hok
        simp
        have := next_ok st.h st.s (by rw [hok]); rw [hsth, hsts] at this; exact this
      | merge u =>
        simp only [okStep] at hok
        simp
        have := next_ok st.h st.s (by rw [hok]); rw [hsth, hsts] at this; exact this
      | waitHeads k =>
        simp only [okStep] at hok
        simp
        have := next_ok st.h st.s (by rw [hok]); rw [hsth, hsts] at this; exact this
      | assign b =>
        simp only [okStep] at hok
        simp
        have := next_ok st.h st.s (by rw [hok]); rw [hsth, hsts] at this; exact this
      | other k =>
        simp only [okStep] at hok
        simp
        have := next_ok st.h st.s (by rw [hok]); rw [hsth, hsts] at this; exact this
      | composite k =>
        simp only [okStep] at hok
        simp
        have := next_ok st.h st.s (by rw [hok]); rw [hsth, hsts] at this; exact this

/-- an annotated program whose annotation starts in `([], [])` never raises the scope error, on any execution -/
theorem annot_sound (ap : List (APrim L)) (ex : St L) (hch : Chain (LabSt ap) ap ex) (h0 : entryOf ap ex = ⟨[], []⟩)
    (h : Head L) (hr : Reach (ap.map Prod.fst) h) : StAt ap ex h ∧ ∀ c, step (ap.map Prod.fst) h c ≠ .scopeError := by
  have inv : StAt ap ex h := by
    induction hr with
    | start => exact ⟨Nat.zero_le _, by simpa using h0⟩
    | step x c hs y _ hstep hy ih => exact (annot_step ap ex hch x ih c).2 hs hstep y hy
  exact ⟨inv, fun c => (annot_step ap ex hch h inv c).1⟩

end NemoVerif.Closed
