/-
  C15 — lemmas about the repaired `LLMParams` transition system (Models/IsolationRepaired.lean):
  the invariant `InvR` (the registry has no duplicates; every attached open section has recorded the CONFIGURED
  values of what it alters, detached ones nothing; the shared object = configured values overridden by the attached
  open sections), its preservation by every step, what a call sees (`viewR_eq`), and the simulation between a
  schedule and its projection on one task (`sim_run`).
-/
import NemoVerif.Models.IsolationRepaired
namespace NemoVerif.Isolation.ParamsR
open NemoVerif.Isolation.Params (upd setAll Act)
variable {V : Type}

/-! ### dict lookups and pointwise descriptions of the folds -/

theorem upd_apply (f : Nat → V) (n : Nat) (v : V) (p : Nat) : upd f n v p = if p = n then v else f p := rfl

theorem lookup_map_const (cfg : Nat → V) (p : Nat) (l : List (Nat × V)) :
    lookup p (l.map fun pv => (pv.1, cfg pv.1)) = if (lookup p l).isSome then some (cfg p) else none := by
  induction l with
  | nil => simp [lookup]
  | cons a l ih =>
    obtain ⟨q, v⟩ := a
    simp only [List.map_cons, lookup]
    by_cases h : q = p
    · simp [h]
    · simp [h, ih]

theorem setAll_nil (σ : Nat → V) : setAll σ [] = σ := rfl
theorem setAll_cons (σ : Nat → V) (a : Nat × V) (l : List (Nat × V)) : setAll σ (a :: l) = setAll (upd σ a.1 a.2) l := rfl

theorem setAll_not_key (l : List (Nat × V)) (σ : Nat → V) (p : Nat) (h : lookup p l = none) : setAll σ l p = σ p := by
  induction l generalizing σ with
  | nil => rfl
  | cons a l ih =>
    obtain ⟨q, v⟩ := a
    simp only [lookup] at h
    by_cases hq : q = p
    · simp [hq] at h
    · simp only [hq, if_false] at h
      rw [setAll_cons, ih _ h, upd_apply]; simp [Ne.symm hq]

/-- with distinct keys (a dict) `setAll` is "the dict's value where it has the key" -/
theorem setAll_apply (l : List (Nat × V)) (hnd : (l.map (·.1)).Nodup) (σ : Nat → V) (p : Nat) :
    setAll σ l p = match lookup p l with | some v => v | none => σ p := by
  induction l generalizing σ with
  | nil => rfl
  | cons a l ih =>
    obtain ⟨q, v⟩ := a
    simp only [List.map_cons, List.nodup_cons] at hnd
    rw [setAll_cons]
    simp only [lookup]
    by_cases hq : q = p
    · subst hq
      have hnone : lookup q l = none := by
        have := hnd.1
        clear ih hnd
        induction l with
        | nil => rfl
        | cons b l ih2 =>
          obtain ⟨r, w⟩ := b
          simp only [List.map_cons, List.mem_cons, not_or] at this
          simp only [lookup]
          rw [if_neg (fun e => this.1 e.symm)]
          exact ih2 this.2
      rw [setAll_not_key l _ q hnone]; simp [upd_apply]
    · simp only [hq, if_false]
      rw [ih hnd.2]
      cases lookup p l with
      | some v' => rfl
      | none => simp [upd_apply, Ne.symm hq]

/-- writing a function of the key for every key of a list -/
theorem foldl_upd_fn (h : Nat → V) (l : List Nat) (σ : Nat → V) (p : Nat) :
    (l.foldl (fun σ' q => upd σ' q (h q)) σ) p = if p ∈ l then h p else σ p := by
  induction l generalizing σ with
  | nil => simp
  | cons q l ih =>
    simp only [List.foldl_cons, ih, List.mem_cons]
    by_cases hp : p ∈ l
    · simp [hp]
    · by_cases hq : p = q
      · simp [hq, upd_apply]
      · simp [hp, hq, upd_apply]

theorem mem_keys_iff (p : Nat) (l : List (Nat × V)) : p ∈ l.map (·.1) ↔ (lookup p l).isSome := by
  induction l with
  | nil => simp [lookup]
  | cons a l ih =>
    obtain ⟨q, v⟩ := a
    simp only [List.map_cons, List.mem_cons, lookup]
    by_cases hq : q = p
    · simp [hq]
    · simp [hq, ih, Ne.symm hq]

theorem applied_snoc (M : Mgrs V) (cfg : Nat → V) (secs : List Nat) (m : Nat) :
    applied M cfg (secs ++ [m]) = setAll (applied M cfg secs) (M.alt m) := by
  simp [applied, List.foldl_append]

/-- value of the most recently opened section among `rev` (newest first) that alters `p` -/
def newestAlt (M : Mgrs V) (p : Nat) : List Nat → Option V
  | [] => none
  | s :: r => match lookup p (M.alt s) with
    | some v => some v
    | none => newestAlt M p r

theorem newestAlt_append (M : Mgrs V) (p : Nat) (a b : List Nat) :
    newestAlt M p (a ++ b) = match newestAlt M p a with | some v => some v | none => newestAlt M p b := by
  induction a with
  | nil => rfl
  | cons s a ih =>
    simp only [List.cons_append, newestAlt]
    cases lookup p (M.alt s) with
    | some v => rfl
    | none => simpa using ih

theorem foldl_setAll_apply (M : Mgrs V) (hnd : ∀ m, ((M.alt m).map (·.1)).Nodup) (secs : List Nat) (σ : Nat → V) (p : Nat) :
    (secs.foldl (fun σ s => setAll σ (M.alt s)) σ) p
      = (newestAlt M p secs.reverse).getD (σ p) := by
  induction secs generalizing σ with
  | nil => rfl
  | cons s secs ih =>
    rw [List.foldl_cons, ih, List.reverse_cons, newestAlt_append]
    cases newestAlt M p secs.reverse with
    | some v => rfl
    | none =>
      simp only [newestAlt]
      rw [setAll_apply _ (hnd s)]
      cases lookup p (M.alt s) <;> rfl

theorem applied_apply (M : Mgrs V) (hnd : ∀ m, ((M.alt m).map (·.1)).Nodup) (cfg : Nat → V) (secs : List Nat) (p : Nat) :
    applied M cfg secs p = (newestAlt M p secs.reverse).getD (cfg p) :=
  foldl_setAll_apply M hnd secs cfg p

theorem newestAlt_filter (M : Mgrs V) (p m : Nat) (h : lookup p (M.alt m) = none) (l : List Nat) :
    newestAlt M p (l.filter (fun s => s ≠ m)) = newestAlt M p l := by
  induction l with
  | nil => rfl
  | cons s l ih =>
    simp only [ne_eq, decide_not] at ih ⊢
    by_cases hs : s = m
    · subst hs; simp [newestAlt, h, ih]
    · simp [hs, newestAlt, ih]


/-! ### the invariant -/

/-- the registry has no duplicates, every open section has recorded the CONFIGURED values of the parameters it
    alters, and the shared object carries the configured values overridden by the open sections, oldest first -/
structure Inv (M : Mgrs V) (cfg : Nat → V) (st : Sys V) : Prop where
  nodup : st.opn.Nodup
  orig_eq : ∀ s ∈ st.opn, st.orig s = (M.alt s).map (fun pv => (pv.1, cfg pv.1))
  store_eq : st.store = applied M cfg st.opn

theorem newestAlt_none (M : Mgrs V) (p : Nat) (l : List Nat) (h : ∀ s ∈ l, lookup p (M.alt s) = none) :
    newestAlt M p l = none := by
  induction l with
  | nil => rfl
  | cons s l ih =>
    simp only [newestAlt, h s (by simp)]
    exact ih (fun x hx => h x (by simp [hx]))

theorem recorded_spec (M : Mgrs V) (cfg : Nat → V) (orig : Nat → List (Nat × V)) (p : Nat) (l : List Nat)
    (h : ∀ s ∈ l, orig s = (M.alt s).map (fun pv => (pv.1, cfg pv.1))) :
    recorded orig p l = some (cfg p) ∨ (recorded orig p l = none ∧ ∀ s ∈ l, lookup p (M.alt s) = none) := by
  induction l with
  | nil => right; exact ⟨rfl, by simp⟩
  | cons s l ih =>
    simp only [recorded, h s (by simp), lookup_map_const]
    cases hl : lookup p (M.alt s) with
    | some v => left; simp
    | none =>
      simp only [Option.isSome_none, Bool.false_eq_true, if_false]
      rcases ih (fun x hx => h x (by simp [hx])) with h1 | ⟨h1, h2⟩
      · left; exact h1
      · right; refine ⟨h1, ?_⟩
        intro x hx
        simp only [List.mem_cons] at hx
        rcases hx with rfl | hx
        · exact hl
        · exact h2 x hx

theorem newestFrom_eq (M : Mgrs V) (cfg : Nat → V) (orig : Nat → List (Nat × V)) (p : Nat) (l : List Nat)
    (h : ∀ s ∈ l, orig s = (M.alt s).map (fun pv => (pv.1, cfg pv.1))) :
    newestFrom M orig p l = newestAlt M p l := by
  induction l with
  | nil => rfl
  | cons s l ih =>
    simp only [newestFrom, newestAlt, h s (by simp), lookup_map_const]
    cases hl : lookup p (M.alt s) with
    | some v => simp
    | none => simpa using ih (fun x hx => h x (by simp [hx]))

theorem enter_fold (orig : Nat → List (Nat × V)) (opn : List Nat) (cfg : Nat → V) (todo : List (Nat × V))
    (acc : (Nat → V) × List (Nat × V)) (hnd : (todo.map (·.1)).Nodup)
    (h : ∀ pv ∈ todo, recorded orig pv.1 opn = some (cfg pv.1) ∨ (recorded orig pv.1 opn = none ∧ acc.1 pv.1 = cfg pv.1)) :
    todo.foldl (enter1 orig opn) acc = (setAll acc.1 todo, acc.2 ++ todo.map (fun pv => (pv.1, cfg pv.1))) := by
  induction todo generalizing acc with
  | nil => simp [setAll_nil]
  | cons a todo ih =>
    obtain ⟨p, v⟩ := a
    simp only [List.map_cons, List.nodup_cons] at hnd
    have ho : (recorded orig p opn).getD (acc.1 p) = cfg p := by
      rcases h (p, v) (by simp) with h1 | ⟨h1, h2⟩
      · simp [h1]
      · simp [h1, h2]
    rw [List.foldl_cons]
    have e1 : enter1 orig opn acc (p, v) = (upd acc.1 p v, acc.2 ++ [(p, cfg p)]) := by
      simp only [enter1, ho]
    rw [e1, ih _ hnd.2]
    · simp [setAll_cons]
    · intro pv hpv
      rcases h pv (by simp [hpv]) with h1 | ⟨h1, h2⟩
      · left; exact h1
      · right; refine ⟨h1, ?_⟩
        have hne : pv.1 ≠ p := by
          intro e; apply hnd.1; rw [← e]; exact List.mem_map_of_mem hpv
        simp [upd_apply, hne, h2]


theorem inv_enter (M : Mgrs V) (hnd : ∀ m, ((M.alt m).map (·.1)).Nodup) (cfg : Nat → V) (st : Sys V) (m : Nat)
    (hi : Inv M cfg st) (hm : m ∉ st.opn) : Inv M cfg (enterA M st m) := by
  have hf := enter_fold st.orig st.opn cfg (M.alt m) (st.store, []) (hnd m) (by
    intro pv _
    rcases recorded_spec M cfg st.orig pv.1 st.opn hi.orig_eq with h1 | ⟨h1, h2⟩
    · left; exact h1
    · right; refine ⟨h1, ?_⟩
      show st.store pv.1 = cfg pv.1
      rw [hi.store_eq, applied_apply M hnd, newestAlt_none M pv.1 _ (by simpa using h2)]; rfl)
  refine ⟨?_, ?_, ?_⟩
  · show (st.opn ++ [m]).Nodup
    exact List.nodup_append.2 ⟨hi.nodup, by simp, by intro a ha b hb; simp at hb; subst hb; intro e; exact hm (e ▸ ha)⟩
  · intro s hs
    show upd st.orig m _ s = _
    have hs' : s ∈ st.opn ++ [m] := hs
    by_cases e : s = m
    · subst e; simp [upd_apply, hf]
    · simp only [upd_apply, e, if_false]
      apply hi.orig_eq
      simpa [e] using hs'
  · show ((M.alt m).foldl (enter1 st.orig st.opn) (st.store, [])).1 = applied M cfg (st.opn ++ [m])
    rw [hf, applied_snoc, hi.store_eq]

theorem exit_fold (M : Mgrs V) (orig : Nat → List (Nat × V)) (opn' : List Nat) (cfg : Nat → V) (l : List (Nat × V))
    (σ : Nat → V) (p : Nat) :
    ((l.map (fun pv => (pv.1, cfg pv.1))).foldl (exit1 M orig opn') σ) p
      = if (lookup p l).isSome then (newestFrom M orig p opn'.reverse).getD (cfg p) else σ p := by
  have e : (l.map (fun pv => (pv.1, cfg pv.1))).foldl (exit1 M orig opn') σ
      = (l.map (·.1)).foldl (fun σ' q => upd σ' q ((newestFrom M orig q opn'.reverse).getD (cfg q))) σ := by
    simp only [List.foldl_map, exit1]
  rw [e, foldl_upd_fn (fun q => (newestFrom M orig q opn'.reverse).getD (cfg q))]
  simp only [mem_keys_iff]

theorem inv_exit (M : Mgrs V) (hnd : ∀ m, ((M.alt m).map (·.1)).Nodup) (cfg : Nat → V) (st : Sys V) (m : Nat)
    (hi : Inv M cfg st) (hm : m ∈ st.opn) : Inv M cfg (exitR M st m) := by
  have hsub : ∀ s ∈ st.opn.filter (fun s => s ≠ m), s ∈ st.opn := fun s hs => (List.mem_filter.1 hs).1
  refine ⟨hi.nodup.filter _, fun s hs => hi.orig_eq s (hsub s hs), ?_⟩
  show (st.orig m).foldl (exit1 M st.orig (st.opn.filter (fun s => s ≠ m))) st.store = applied M cfg (st.opn.filter (fun s => s ≠ m))
  funext p
  rw [hi.orig_eq m hm, exit_fold, applied_apply M hnd]
  rw [newestFrom_eq M cfg st.orig p _ (by
    intro s hs; exact hi.orig_eq s (hsub s (by simpa using hs)))]
  cases hl : lookup p (M.alt m) with
  | some v => simp
  | none =>
    simp only [Option.isSome_none, Bool.false_eq_true, if_false]
    rw [hi.store_eq, applied_apply M hnd, ← List.filter_reverse, newestAlt_filter M p m hl]


/-! ### detached sections: the effective description -/

/-- a detached section alters nothing on the shared object -/
def Meff (M : Mgrs V) (det : Nat → Bool) : Mgrs V :=
  { owner := M.owner, alt := fun s => if det s then [] else M.alt s }

theorem Meff_nodup (M : Mgrs V) (hnd : ∀ m, ((M.alt m).map (·.1)).Nodup) (det : Nat → Bool) :
    ∀ m, (((Meff M det).alt m).map (·.1)).Nodup := by
  intro m; simp only [Meff]; split
  · simp
  · exact hnd m

theorem applied_congr (M M' : Mgrs V) (cfg : Nat → V) (secs : List Nat) (h : ∀ s ∈ secs, M.alt s = M'.alt s) :
    applied M cfg secs = applied M' cfg secs := by
  unfold applied
  induction secs generalizing cfg with
  | nil => rfl
  | cons s secs ih =>
    simp only [List.foldl_cons, h s (by simp)]
    exact ih _ (fun x hx => h x (by simp [hx]))

theorem inv_congr (M M' : Mgrs V) (cfg : Nat → V) (st : Sys V) (hi : Inv M cfg st)
    (h : ∀ s ∈ st.opn, M.alt s = M'.alt s) : Inv M' cfg st :=
  ⟨hi.nodup, fun s hs => by rw [hi.orig_eq s hs, h s hs], by rw [hi.store_eq, applied_congr M M' cfg _ h]⟩

/-- the invariant of the repaired system -/
def InvR (M : Mgrs V) (cfg : Nat → V) (st : Sys V) : Prop := Inv (Meff M st.det) cfg st

theorem invR_init (M : Mgrs V) (cfg : Nat → V) : InvR M cfg (initR cfg) :=
  ⟨List.nodup_nil, by simp [initR], rfl⟩

theorem applied_Meff (M : Mgrs V) (det : Nat → Bool) (cfg : Nat → V) (secs : List Nat) :
    applied (Meff M det) cfg secs = applied M cfg (secs.filter (fun s => !det s)) := by
  unfold applied
  induction secs generalizing cfg with
  | nil => rfl
  | cons s secs ih =>
    have ha : (Meff M det).alt s = if det s then [] else M.alt s := rfl
    simp only [List.foldl_cons, List.filter_cons, ha]
    cases hd : det s with
    | true => simpa [setAll_nil] using ih cfg
    | false => simpa using ih _

theorem upd_ne {α : Type} (f : Nat → α) (n : Nat) (v : α) (s : Nat) (h : s ≠ n) : upd f n v s = f s := by
  simp [upd, h]

theorem invR_enter (M : Mgrs V) (hnd : ∀ m, ((M.alt m).map (·.1)).Nodup) (cfg : Nat → V) (st : Sys V) (m : Nat)
    (hi : InvR M cfg st) (hm : m ∉ st.opn) : InvR M cfg (enterR M st m) := by
  unfold enterR
  split
  · -- detached
    have hc : Inv (Meff M (upd st.det m true)) cfg st := inv_congr _ _ cfg st hi (by
      intro s hs
      have : s ≠ m := fun e => hm (e ▸ hs)
      simp [Meff, upd_ne _ _ _ _ this])
    refine ⟨?_, ?_, ?_⟩
    · show (st.opn ++ [m]).Nodup
      exact List.nodup_append.2 ⟨hc.nodup, by simp, by intro a ha b hb; simp at hb; subst hb; intro e; exact hm (e ▸ ha)⟩
    · intro s hs
      have hs' : s ∈ st.opn ++ [m] := hs
      show upd st.orig m [] s = _
      by_cases e : s = m
      · subst e; simp [upd, Meff, enterD]
      · rw [upd_ne _ _ _ _ e]
        have := hc.orig_eq s (by simpa [e] using hs')
        simpa [enterD] using this
    · show st.store = applied (Meff M (upd st.det m true)) cfg (st.opn ++ [m])
      rw [applied_snoc, hc.store_eq]
      simp [Meff, upd, setAll_nil]
  · -- attached
    have hc : Inv (Meff M (upd st.det m false)) cfg st := inv_congr _ _ cfg st hi (by
      intro s hs
      have : s ≠ m := fun e => hm (e ▸ hs)
      simp [Meff, upd_ne _ _ _ _ this])
    have := inv_enter (Meff M (upd st.det m false)) (Meff_nodup M hnd _) cfg st m hc hm
    have e : enterA (Meff M (upd st.det m false)) st m = enterA M st m := by
      simp [enterA, Meff, upd]
    rw [e] at this
    exact this

theorem newestFrom_congr (M M' : Mgrs V) (orig : Nat → List (Nat × V)) (p : Nat) (l : List Nat)
    (h : ∀ s ∈ l, (lookup p (orig s)).isSome → M.alt s = M'.alt s) :
    newestFrom M orig p l = newestFrom M' orig p l := by
  induction l with
  | nil => rfl
  | cons s l ih =>
    simp only [newestFrom]
    split
    · next hs => rw [h s (by simp) hs]
    · exact ih (fun x hx => h x (by simp [hx]))

theorem exitR_Meff (M : Mgrs V) (cfg : Nat → V) (st : Sys V) (m : Nat) (hi : InvR M cfg st) :
    exitR M st m = exitR (Meff M st.det) st m := by
  unfold exitR
  have : exit1 M st.orig (st.opn.filter (fun s => s ≠ m)) = exit1 (Meff M st.det) st.orig (st.opn.filter (fun s => s ≠ m)) := by
    funext σ po
    simp only [exit1]
    rw [newestFrom_congr M (Meff M st.det)]
    intro s hs hsome
    have hs' : s ∈ st.opn := by
      have : s ∈ st.opn.filter (fun s => s ≠ m) := by simpa using hs
      exact (List.mem_filter.1 this).1
    have ho := hi.orig_eq s hs'
    simp only [Meff] at ho ⊢
    cases hd : st.det s with
    | true => rw [ho] at hsome; simp [hd, lookup] at hsome
    | false => simp
  simp only [this]

theorem invR_exit (M : Mgrs V) (hnd : ∀ m, ((M.alt m).map (·.1)).Nodup) (cfg : Nat → V) (st : Sys V) (m : Nat)
    (hi : InvR M cfg st) (hm : m ∈ st.opn) : InvR M cfg (exitR M st m) := by
  rw [exitR_Meff M cfg st m hi]
  exact inv_exit (Meff M st.det) (Meff_nodup M hnd _) cfg st m hi hm

theorem invR_step (M : Mgrs V) (hnd : ∀ m, ((M.alt m).map (·.1)).Nodup) (cfg : Nat → V) (st : Sys V) (l : Nat × Act)
    (hi : InvR M cfg st) : InvR M cfg (stepR M st l) := by
  obtain ⟨m, a⟩ := l
  cases a with
  | enter => simp only [stepR]; split; exact hi; exact invR_enter M hnd cfg st m hi ‹_›
  | call => simp only [stepR]; split; exact ⟨hi.nodup, hi.orig_eq, hi.store_eq⟩; exact hi
  | exit => simp only [stepR]; split; exact invR_exit M hnd cfg st m hi ‹_›; exact hi

theorem invR_run (M : Mgrs V) (hnd : ∀ m, ((M.alt m).map (·.1)).Nodup) (cfg : Nat → V) (sched : List (Nat × Act)) (st : Sys V)
    (hi : InvR M cfg st) : InvR M cfg (runR M st sched) := by
  induction sched generalizing st with
  | nil => exact hi
  | cons l sched ih => exact ih _ (invR_step M hnd cfg st l hi)


/-! ### what a call sees -/

theorem reset_apply (M : Mgrs V) (cfg : Nat → V) (orig : Nat → List (Nat × V)) (L : List Nat)
    (h : ∀ s ∈ L, orig s = (M.alt s).map (fun pv => (pv.1, cfg pv.1))) (σ : Nat → V) (p : Nat) :
    (L.foldl (fun σ s => setAll σ (orig s)) σ) p
      = if L.any (fun s => (lookup p (M.alt s)).isSome) then cfg p else σ p := by
  induction L generalizing σ with
  | nil => simp
  | cons s L ih =>
    rw [List.foldl_cons, ih (fun x hx => h x (by simp [hx])), h s (by simp)]
    have e : setAll σ ((M.alt s).map (fun pv => (pv.1, cfg pv.1))) p
        = if (lookup p (M.alt s)).isSome then cfg p else σ p := by
      have : setAll σ ((M.alt s).map (fun pv => (pv.1, cfg pv.1)))
          = ((M.alt s).map (·.1)).foldl (fun σ' q => upd σ' q (cfg q)) σ := by
        simp only [setAll, List.foldl_map]
      rw [this, foldl_upd_fn cfg]
      simp only [mem_keys_iff]
    rw [e]
    simp only [List.any_cons]
    by_cases h1 : (lookup p (M.alt s)).isSome = true
    · simp [h1]
    · simp [h1]

theorem newestAlt_none_of_any (M : Mgrs V) (p : Nat) (l : List Nat)
    (h : l.any (fun s => (lookup p (M.alt s)).isSome) = false) : newestAlt M p l = none := by
  apply newestAlt_none
  intro s hs
  have := List.any_eq_false.1 h s hs
  cases hl : lookup p (M.alt s) with
  | none => rfl
  | some v => simp [hl] at this

/-- what an LLM call made by the task of manager `m` runs with: the configured values overridden by the open
    sections of its OWN task, oldest first — nothing of any other task -/
theorem viewR_eq (M : Mgrs V) (hnd : ∀ m, ((M.alt m).map (·.1)).Nodup) (cfg : Nat → V) (st : Sys V) (m : Nat)
    (hi : InvR M cfg st) :
    viewR M st m = applied M cfg (st.opn.filter (fun s => M.owner s == M.owner m)) := by
  unfold viewR
  split
  · next hok =>
    rw [hi.store_eq, applied_Meff]
    congr 1
    apply List.filter_congr
    intro s hs
    have := List.all_eq_true.1 hok s hs
    simpa using this
  · funext p
    have hreset : (st.opn.reverse.foldl (fun σ s => setAll σ (st.orig s)) st.store) = cfg := by
      funext q
      rw [reset_apply (Meff M st.det) cfg st.orig st.opn.reverse (by
        intro s hs; exact hi.orig_eq s (by simpa using hs))]
      split
      · rfl
      · next hany =>
        rw [hi.store_eq, applied_apply (Meff M st.det) (Meff_nodup M hnd _),
          newestAlt_none_of_any _ _ _ (by simpa using hany)]
        rfl
    simp only [hreset]
    rfl

/-- **Whenever no section is open (no request in flight), the LLM object's parameters are the configured ones** -/
theorem idle_configured (M : Mgrs V) (cfg : Nat → V) (st : Sys V) (hi : InvR M cfg st) (hidle : st.opn = []) :
    st.store = cfg := by
  rw [hi.store_eq, hidle]; rfl


/-! ### the calls of a task do not depend on the other tasks -/

/-- the calls made by the managers of task `t` -/
def callsOf (M : Mgrs V) (t : Nat) (cs : List (Nat × (Nat → V))) : List (Nat × (Nat → V)) :=
  cs.filter (fun c => M.owner c.1 == t)

/-- the steps of task `t` in a schedule (= the schedule of `t` running alone) -/
def ofTask (M : Mgrs V) (t : Nat) (sched : List (Nat × Act)) : List (Nat × Act) :=
  sched.filter (fun l => M.owner l.1 == t)

theorem enterR_opn (M : Mgrs V) (st : Sys V) (m : Nat) : (enterR M st m).opn = st.opn ++ [m] := by
  unfold enterR; split <;> rfl
theorem enterR_calls (M : Mgrs V) (st : Sys V) (m : Nat) : (enterR M st m).calls = st.calls := by
  unfold enterR; split <;> rfl

theorem stepR_opn (M : Mgrs V) (st : Sys V) (m : Nat) (a : Act) :
    (stepR M st (m, a)).opn = match a with
      | .enter => if m ∈ st.opn then st.opn else st.opn ++ [m]
      | .call => st.opn
      | .exit => st.opn.filter (fun s => s ≠ m) := by
  cases a with
  | enter => simp only [stepR]; split; rfl; exact enterR_opn M st m
  | call => simp only [stepR]; split <;> rfl
  | exit =>
    simp only [stepR]; split
    · rfl
    · next hm =>
      symm; apply List.filter_eq_self.2
      intro s hs; simpa using (fun e : s = m => hm (e ▸ hs))

theorem stepR_calls (M : Mgrs V) (st : Sys V) (m : Nat) (a : Act) :
    (stepR M st (m, a)).calls = match a with
      | .call => if m ∈ st.opn then st.calls ++ [(m, viewR M st m)] else st.calls
      | _ => st.calls := by
  cases a with
  | enter => simp only [stepR]; split; rfl; exact enterR_calls M st m
  | call => simp only [stepR]; split <;> rfl
  | exit => simp only [stepR]; split <;> rfl

structure Sim (M : Mgrs V) (cfg : Nat → V) (t : Nat) (st st' : Sys V) : Prop where
  inv : InvR M cfg st
  inv' : InvR M cfg st'
  opn_eq : st'.opn = st.opn.filter (fun s => M.owner s == t)
  calls_eq : st'.calls = callsOf M t st.calls

theorem sim_step_own (M : Mgrs V) (hnd : ∀ m, ((M.alt m).map (·.1)).Nodup) (cfg : Nat → V) (t : Nat) (st st' : Sys V)
    (l : Nat × Act) (hl : M.owner l.1 = t) (h : Sim M cfg t st st') : Sim M cfg t (stepR M st l) (stepR M st' l) := by
  obtain ⟨m, a⟩ := l
  simp only at hl
  have hmem : (m ∈ st'.opn) = (m ∈ st.opn) := by
    rw [h.opn_eq, List.mem_filter]; simp [hl]
  have hv : viewR M st' m = viewR M st m := by
    rw [viewR_eq M hnd cfg st' m h.inv', viewR_eq M hnd cfg st m h.inv, h.opn_eq, List.filter_filter]
    congr 1
    apply List.filter_congr; intro s _; simp [hl]
  refine ⟨invR_step M hnd cfg st _ h.inv, invR_step M hnd cfg st' _ h.inv', ?_, ?_⟩
  · rw [stepR_opn, stepR_opn]
    cases a with
    | enter =>
      simp only [hmem]
      split
      · exact h.opn_eq
      · rw [List.filter_append, h.opn_eq]; simp [hl]
    | call => exact h.opn_eq
    | exit =>
      simp only [h.opn_eq, List.filter_filter]
      apply List.filter_congr; intro s _; simp [Bool.and_comm]
  · rw [stepR_calls, stepR_calls]
    cases a with
    | enter => exact h.calls_eq
    | call =>
      simp only [hmem, hv]
      split
      · simp only [callsOf, List.filter_append]
        have := h.calls_eq
        simp only [callsOf] at this
        simp [this, hl]
      · exact h.calls_eq
    | exit => exact h.calls_eq

theorem sim_step_other (M : Mgrs V) (hnd : ∀ m, ((M.alt m).map (·.1)).Nodup) (cfg : Nat → V) (t : Nat) (st st' : Sys V)
    (l : Nat × Act) (hl : M.owner l.1 ≠ t) (h : Sim M cfg t st st') : Sim M cfg t (stepR M st l) st' := by
  obtain ⟨m, a⟩ := l
  simp only at hl
  refine ⟨invR_step M hnd cfg st _ h.inv, h.inv', ?_, ?_⟩
  · rw [stepR_opn]
    cases a with
    | enter =>
      simp only
      split
      · exact h.opn_eq
      · rw [List.filter_append, h.opn_eq]; simp [hl]
    | call => exact h.opn_eq
    | exit =>
      simp only [List.filter_filter, h.opn_eq]
      apply List.filter_congr; intro s _
      by_cases e : s = m
      · subst e; simp [hl]
      · simp [e]
  · rw [stepR_calls]
    cases a with
    | enter => exact h.calls_eq
    | call =>
      simp only
      split
      · simp only [callsOf, List.filter_append]
        have := h.calls_eq
        simp only [callsOf] at this
        simp [this, hl]
      · exact h.calls_eq
    | exit => exact h.calls_eq

theorem sim_run (M : Mgrs V) (hnd : ∀ m, ((M.alt m).map (·.1)).Nodup) (cfg : Nat → V) (t : Nat) (sched : List (Nat × Act))
    (st st' : Sys V) (h : Sim M cfg t st st') :
    Sim M cfg t (runR M st sched) (runR M st' (ofTask M t sched)) := by
  induction sched generalizing st st' with
  | nil => exact h
  | cons l sched ih =>
    by_cases hl : M.owner l.1 = t
    · have : ofTask M t (l :: sched) = l :: ofTask M t sched := by simp [ofTask, hl]
      rw [this]
      exact ih _ _ (sim_step_own M hnd cfg t st st' l hl h)
    · have : ofTask M t (l :: sched) = ofTask M t sched := by simp [ofTask, hl]
      rw [this]
      exact ih _ _ (sim_step_other M hnd cfg t st st' l hl h)

end NemoVerif.Isolation.ParamsR
