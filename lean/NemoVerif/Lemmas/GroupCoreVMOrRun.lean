/-
  C07 (T2') — a pure or-group of single atoms of any size over EVERY event sequence and EVERY tie-break at the level of CoreVM's `slide`:
  `or_group_run` (nothing changes until the first matching event; then phase 1 and the merging loop, `or_group_event_all`).  The
  driver's outputs are the clause machine `Dnf.run` on the clauses `[a_1], …, [a_n]`.
-/
import NemoVerif.Lemmas.GroupCoreVMStart
set_option linter.unusedSimpArgs false
namespace NemoVerif.CoreVM
open NemoVerif NemoVerif.CoreIndex
open NemoVerif.GroupVM (Br p1Brs p1Br)

/-- all branch heads still on their `match` elements -/
def allSingle (c : List Nat) : List Br := c.map Br.single

theorem p1Brs_allSingle (e : Nat) : ∀ (c : List Nat) (k : Nat),
    (p1Brs e k (allSingle c)).1 = c.map fun a => if a == e then Br.merging else Br.single a := by
  intro c
  induction c with
  | nil => intro k; rfl
  | cons a c ih =>
    intro k
    simp only [allSingle, List.map_cons, p1Brs, p1Br] at ih ⊢
    rw [ih (k + 1)]
    split <;> rfl

theorem noMulti_allSingle (c : List Nat) : noMulti (allSingle c) = true := by
  induction c with
  | nil => rfl
  | cons a c ih => simpa [allSingle, noMulti] using ih

theorem p1Brs_allSingle_of_not_mem (e : Nat) (c : List Nat) (h : e ∉ c) (k : Nat) : (p1Brs e k (allSingle c)).1 = allSingle c := by
  rw [p1Brs_allSingle]
  simp only [allSingle]
  apply List.map_congr_left
  intro a ha
  have : (a == e) = false := by
    have : a ≠ e := fun e' => h (e' ▸ ha)
    simpa using this
  simp [this]

theorem matchingB_allSingle_of_not_mem (e : Nat) : ∀ (us : List (HUid × Nat)) (c : List Nat), e ∉ c → matchingB e us (allSingle c) = [] := by
  intro us
  induction us with
  | nil => intro c _; cases c <;> rfl
  | cons u us ih =>
    intro c h
    cases c with
    | nil => rfl
    | cons a c =>
      have h1 : (a == e) = false := by
        have : a ≠ e := fun e' => h (by simp [e'])
        simpa using this
      have h2 : e ∉ c := fun e' => h (by simp [e'])
      simp only [allSingle, List.map_cons, matchingB, h1, Bool.false_eq_true, if_false]
      exact ih c h2

theorem mergingUids_allSingle (us : List (HUid × Nat)) (c : List Nat) : mergingUids us (allSingle c) = [] := by
  induction us generalizing c with
  | nil => cases c <;> rfl
  | cons u us ih =>
    cases c with
    | nil => rfl
    | cons a c => simpa [allSingle, mergingUids] using ih c

/-- some branch matches: at least one MERGING head -/
theorem mergingUids_p1_nonempty (e : Nat) : ∀ (us : List (HUid × Nat)) (c : List Nat), us.length = c.length → e ∈ c →
    mergingUids us (c.map fun a => if a == e then Br.merging else Br.single a) ≠ [] := by
  intro us
  induction us with
  | nil => intro c hl hm; cases c <;> simp_all
  | cons u us ih =>
    intro c hl hm
    cases c with
    | nil => simp at hm
    | cons a c =>
      by_cases hae : a = e
      · simp [hae, mergingUids]
      · have h1 : (a == e) = false := by simpa using hae
        have hm' : e ∈ c := by
          rcases List.mem_cons.1 hm with h | h
          · exact absurd h.symm hae
          · exact h
        simp only [List.map_cons, h1, Bool.false_eq_true, if_false, mergingUids]
        exact ih c (by simpa using hl) hm'

theorem mergingUids_length_le : ∀ (us : List (HUid × Nat)) (brs : List Br), (mergingUids us brs).length ≤ us.length := by
  intro us
  induction us with
  | nil => intro brs; cases brs <;> simp [mergingUids]
  | cons u us ih =>
    intro brs
    cases brs with
    | nil => simp [mergingUids]
    | cons b brs =>
      have := ih brs
      cases b <;> simp only [mergingUids, List.length_cons] <;> omega

/-- the clause machine on single-atom clauses -/
theorem dnf_step_singles (e : Nat) (c : List Nat) :
    (Dnf.step { branches := c.map fun a => [a], done := false } e) =
      if e ∈ c then ({ branches := (c.map fun a => [a]).map (Dnf.stepBranch e), done := true }, true)
      else ({ branches := c.map fun a => [a], done := false }, false) := by
  have hany : ((c.map fun a => [a]).map (Dnf.stepBranch e)).any List.isEmpty = decide (e ∈ c) := by
    induction c with
    | nil => rfl
    | cons a c ih =>
      simp only [List.map_cons, List.any_cons, ih, Dnf.stepBranch, List.filter_cons, List.filter_nil]
      by_cases hae : a = e
      · simp [hae]
      · have : (a != e) = true := by simpa using hae
        simp [this, hae, Ne.symm hae]
  simp only [Dnf.step, Bool.false_eq_true, if_false, hany]
  by_cases hm : e ∈ c
  · simp [hm]
  · simp only [hm, decide_false, Bool.false_eq_true, if_false]
    congr 2
    rw [List.map_map]
    apply List.map_congr_left
    intro a ha
    have : a ≠ e := fun e' => hm (e' ▸ ha)
    simp [Dnf.stepBranch, this]


/-- the events of a sequence on a pure or-group of single atoms, driven at the level of `slide` -/
def orDriver (fuel : Nat) (f : FUid) (us : List (HUid × Nat)) : List Br → Bool → List Nat → M (List Bool)
  | _, _, [] => pure []
  | brs, true, _ :: es => do
    let r ← orDriver fuel f us brs true es
    pure (false :: r)
  | brs, false, e :: es => do
    runMembers (fuel + 2) f (matchingB e us brs)
    match mergingUids us (p1Brs e 0 brs).1 with
    | [] => do
      let r ← orDriver fuel f us (p1Brs e 0 brs).1 false es
      pure (false :: r)
    | h :: t => do
      let nh ← slideUntil (fuel + 4) f (h :: t)
      let r ← orDriver fuel f us (p1Brs e 0 brs).1 true es
      pure ((!nh.isEmpty) :: r)

theorem orDriver_done (fuel : Nat) (f : FUid) (us : List (HUid × Nat)) (brs : List Br) :
    ∀ (es : List Nat) (s : VM), orDriver fuel f us brs true es s = .ok (es.map fun _ => false) s := by
  intro es
  induction es with
  | nil => intro s; rfl
  | cons e es ih => intro s; simp only [orDriver, bind, EStateM.bind, ih, pure, EStateM.pure, List.map_cons]

/-- **A pure or-group of single atoms of any size, every event sequence, EVERY tie-break, at the level of CoreVM's `slide`.**  As long as
    no event matches an atom nothing changes; at the first matching event every branch head waiting for it becomes MERGING and the
    merging loop hands the forking head back, whatever `random.choice` returns (the recorded outcomes only have to be present and in
    range for up to `|us|` candidates).  The driver's outputs are the clause machine `Dnf.run` on the clauses `[a_1], …, [a_n]`. -/
theorem or_group_run (fuel : Nat) (f : FUid) (x : InstX) (cfg : FlowCfg) (l mu : String) (pe fp : Nat) (r : HUid)
    (us : List (HUid × Nat)) (c : List Nat) (sc0 : List Score) (hown : x.ctxOwner = none) (S : MembersShape cfg l pe us)
    (hlen : us.length = c.length) :
    ∀ (es : List Nat) (s : VM) (i : Inst),
      OrMergeInv s f i x cfg l mu pe fp r us (allSingle c) sc0 → (∀ n, n ≤ us.length → Adequate n s.r.choices) →
      ∃ s', orDriver fuel f us (allSingle c) false es s = .ok (Dnf.run { branches := c.map fun a => [a], done := false } es) s' := by
  intro es
  induction es with
  | nil => intro s i _ _; exact ⟨s, rfl⟩
  | cons e es ih =>
    intro s i I hadq
    simp only [orDriver, Dnf.run, dnf_step_singles]
    by_cases hm : e ∈ c
    · -- some branch matches: the group completes in this event
      have hp1 := p1Brs_allSingle e c 0
      have hne := mergingUids_p1_nonempty e us c hlen hm
      rw [← hp1] at hne
      obtain ⟨n, hn⟩ : ∃ n, (mergingUids us (p1Brs e 0 (allSingle c)).1).length = n + 1 := by
        cases hmu : mergingUids us (p1Brs e 0 (allSingle c)).1 with
        | nil => exact absurd hmu hne
        | cons h t => exact ⟨t.length, rfl⟩
      have hnle : n + 1 ≤ us.length := by rw [← hn]; exact mergingUids_length_le _ _
      obtain ⟨s1, i1, s2, i2, x2, hrun, _, _, hsl, _, _, _⟩ := or_group_event_all fuel s f i x cfg l mu pe fp e r us (allSingle c) sc0 n
        I hown S (noMulti_allSingle c) (by rw [hp1]; simp [allSingle]) hn (hadq _ hnle)
      cases hmu : mergingUids us (p1Brs e 0 (allSingle c)).1 with
      | nil => exact absurd hmu hne
      | cons h t =>
        rw [hmu] at hsl
        simp only [hm, if_true, bind, EStateM.bind, hrun, hmu, dnf_run_done]
        refine ⟨s2, ?_⟩
        show EStateM.bind (slideUntil (fuel + 4) f (h :: t)) _ s1 = _
        simp only [EStateM.bind, hsl, orDriver_done, pure, EStateM.pure, List.isEmpty_cons, Bool.not_false]
    · -- no branch matches: nothing changes
      have hp1 := p1Brs_allSingle_of_not_mem e c hm 0
      have hmb := matchingB_allSingle_of_not_mem e us c hm
      obtain ⟨s', hs'⟩ := ih s i I hadq
      simp only [hm, if_false, bind, EStateM.bind, hmb, runMembers, pure, EStateM.pure, hp1, mergingUids_allSingle]
      refine ⟨s', ?_⟩
      show EStateM.bind (orDriver fuel f us (allSingle c) false es) _ s = _
      simp only [EStateM.bind, hs', EStateM.pure]

end NemoVerif.CoreVM
