/-
  Lemmas for C12 (Colang 1.0, phase 5): `_load_flow_config` — the flow the runtime holds.
  Relative offsets are invariant under a shift of the whole flow, so the compilation of `meta :: rest` is the `meta`
  element followed by the compilation of `rest`.
-/
import NemoVerif.Models.V1Load
import NemoVerif.Lemmas.V1Compile
namespace NemoVerif.V1Compile

def shiftTbl (tbl : List (String × Nat)) : List (String × Nat) := tbl.map fun x => (x.1, x.2 + 1)

theorem lookup_shiftTbl (n : String) : ∀ (tbl : List (String × Nat)),
    List.lookup n (shiftTbl tbl) = (List.lookup n tbl).map (· + 1) := by
  intro tbl
  induction tbl with
  | nil => rfl
  | cons x r ih =>
    obtain ⟨a, b⟩ := x
    simp only [shiftTbl, List.map_cons, List.lookup_cons]
    cases h : (n == a) with
    | true => simp
    | false => simpa [shiftTbl] using ih

/-- first pass of `_resolve_gotos` on a flow that is placed one position later: the same table, every index one larger -/
theorem checkpoints_shift : ∀ (es : List Elem) (i : Nat) (acc : List (String × Nat)),
    checkpoints (i + 1) es (shiftTbl acc) = (checkpoints i es acc).map shiftTbl := by
  intro es
  induction es with
  | nil => intro i acc; simp [checkpoints, Except.map]
  | cons e r ih =>
    intro i acc
    simp only [checkpoints]
    split
    · cases hn : e.name with
      | none => simp [Except.map]
      | some n =>
        simp only [lookup_shiftTbl]
        cases hl : List.lookup n acc with
        | some k => simp [Except.map]
        | none =>
          simp only [Option.map_none, Option.isSome_none, Bool.false_eq_true, if_false]
          have := ih (i + 1) ((n, i) :: acc)
          simpa [shiftTbl] using this
    · exact ih (i + 1) acc

/-- second pass: `checkpoint_idx[name] - i` does not change when the flow is shifted -/
theorem resolveFrom_shift (tbl : List (String × Nat)) : ∀ (es : List Elem) (i : Nat),
    resolveFrom (shiftTbl tbl) (i + 1) es = resolveFrom tbl i es := by
  intro es
  induction es with
  | nil => intro i; rfl
  | cons e r ih =>
    intro i
    simp only [resolveFrom, ih (i + 1)]
    cases resolveFrom tbl (i + 1) r with
    | error m => rfl
    | ok r' =>
      simp only
      split
      · rfl
      · split
        · cases hn : e.name with
          | none => simp
          | some n =>
            simp only [Option.bind_some, lookup_shiftTbl]
            cases List.lookup n tbl with
            | none => simp
            | some k =>
              simp only [Option.map_some]
              have : ((k + 1 : Nat) : Int) - ((i + 1 : Nat) : Int) = (k : Int) - (i : Int) := by omega
              rw [this]
        · rfl

def metaElem : Elem := { kind := .simple "meta" }

theorem resolveGotos_meta_cons (cs : List Elem) :
    resolveGotos (metaElem :: cs) = (resolveGotos cs).map (metaElem :: ·) := by
  have hk1 : ¬ (metaElem.kind = Kind.label) := by decide
  have hk2 : ¬ (metaElem.kind = Kind.goto) := by decide
  unfold resolveGotos
  have hc : checkpoints 0 (metaElem :: cs) [] = (checkpoints 0 cs []).map shiftTbl := by
    simp only [checkpoints, hk1, if_false]
    exact checkpoints_shift cs 0 []
  rw [hc]
  cases checkpoints 0 cs [] with
  | error m => rfl
  | ok tbl =>
    simp only [Except.map, resolveFrom, hk1, hk2, if_false]
    rw [resolveFrom_shift tbl cs 0]
    cases resolveFrom tbl 0 cs <;> rfl

theorem processEllipsis_meta_cons (rs : List Elem) :
    processEllipsis (metaElem :: rs) = metaElem :: processEllipsis rs := by
  simp [processEllipsis, metaElem]

theorem compile_meta_cons (rest : List Item) : compile (.simple "meta" :: rest) = metaElem :: compile rest := by
  simp [compile, compileItem, metaElem]

/-- `parse_flow_elements` of a flow with a flow-level meta element = that element followed by `parse_flow_elements` of
    the rest: nothing in the rest refers to the position of the meta element -/
theorem compileFull_meta_cons (rest : List Item) :
    compileFull (.simple "meta" :: rest) = (compileFull rest).map (metaElem :: ·) := by
  unfold compileFull
  rw [compile_meta_cons, resolveGotos_meta_cons]
  cases resolveGotos (compile rest) with
  | error m => rfl
  | ok rs => simp [Except.map, processEllipsis_meta_cons]

/-- the first element of what `parse_flow_elements` returns is a `meta` element only if the first extracted element is -/
theorem compileFull_head (items : List Item) (c : Elem) (cs es : List Elem) (hc : compile items = c :: cs)
    (h : compileFull items = .ok es) : ∃ e r, es = e :: r ∧ (isMeta e = true → c.kind = metaKind) := by
  unfold compileFull at h
  rw [hc] at h
  cases hr : resolveGotos (c :: cs) with
  | error m => rw [hr] at h; cases h
  | ok rs =>
    rw [hr] at h
    cases h
    unfold resolveGotos at hr
    cases hcp : checkpoints 0 (c :: cs) [] with
    | error m => rw [hcp] at hr; cases hr
    | ok tbl =>
      rw [hcp] at hr
      simp only [resolveFrom] at hr
      cases hrr : resolveFrom tbl (0 + 1) cs with
      | error m => rw [hrr] at hr; cases hr
      | ok r' =>
        rw [hrr] at hr
        simp only at hr
        split at hr
        · cases hr
          refine ⟨_, _, by simp [processEllipsis]; exact ⟨rfl, rfl⟩, ?_⟩
          intro hm
          simp [isMeta, metaKind] at hm
        · split at hr
          · split at hr
            · cases hr
              refine ⟨_, _, by simp [processEllipsis]; exact ⟨rfl, rfl⟩, ?_⟩
              intro hm
              simp [isMeta, metaKind] at hm
            · cases hr
          · cases hr
            refine ⟨_, _, by simp [processEllipsis]; exact ⟨rfl, rfl⟩, ?_⟩
            intro hm
            simp only [isMeta, metaKind, beq_iff_eq] at hm
            split at hm
            · simp at hm
            · exact hm

/-- only the item `meta` puts a `meta` element at the head of the extracted elements -/
theorem compile_cons_head (it : Item) (rest : List Item) :
    ∃ c cs, compile (it :: rest) = c :: cs ∧ (c.kind = metaKind → it = .simple "meta") := by
  cases it with
  | simple k => exact ⟨_, _, by simp [compile, compileItem]; exact ⟨rfl, rfl⟩, by intro h; simp [metaKind] at h; simp [h]⟩
  | setEllipsis => exact ⟨_, _, by simp [compile, compileItem]; exact ⟨rfl, rfl⟩, by intro h; simp [metaKind] at h⟩
  | ret => exact ⟨_, _, by simp [compile, compileItem]; exact ⟨rfl, rfl⟩, by intro h; simp [metaKind] at h⟩
  | label n => exact ⟨_, _, by simp [compile, compileItem]; exact ⟨rfl, rfl⟩, by intro h; simp [metaKind] at h⟩
  | goto n => exact ⟨_, _, by simp [compile, compileItem]; exact ⟨rfl, rfl⟩, by intro h; simp [metaKind] at h⟩
  | ifS t f =>
    by_cases hf : (compile f).isEmpty = true
    · exact ⟨_, _, by simp [compile, compileItem, ifBlock, hf]; exact ⟨rfl, rfl⟩, by intro h; simp [metaKind] at h⟩
    · exact ⟨_, _, by simp [compile, compileItem, ifBlock, hf]; exact ⟨rfl, rfl⟩, by intro h; simp [metaKind] at h⟩
  | whileS b => exact ⟨_, _, by simp [compile, compileItem, whileBlock]; exact ⟨rfl, rfl⟩, by intro h; simp [metaKind] at h⟩
  | anyS cs => exact ⟨_, _, by simp [compile, compileItem]; exact ⟨rfl, rfl⟩, by intro h; simp [metaKind] at h⟩
  | branches bs => exact ⟨_, _, by simp [compile, compileItem, branchBlock]; exact ⟨rfl, rfl⟩, by intro h; simp [metaKind] at h⟩

end NemoVerif.V1Compile
