/-
  C01–C03 — lemmas about the `Pipeline` model.

  `gate v rails t` is the specification of a rail list: the calls it makes when every rail is shown
  the current text and the list stops at the first rail that does not let the text through.
  `railsV1_nf` / `railsOutV2_nf` / `railsInV2_nf` show that the model's rail loops compute exactly
  that (normal forms); the property theorems are consequences of the normal forms and of list facts
  about `gate`.
-/
import NemoVerif.Models.Pipeline

set_option linter.unusedSimpArgs false

namespace NemoVerif.Pipeline

/-! ## Observation functions on traces (used to state the properties) -/

/-- The rail invocations of one kind, in order: (rail id, text shown). -/
def railCalls (k : Kind) : List Step → List (Nat × Text)
  | [] => []
  | .rail k' id t :: tr => if k' = k then (id, t) :: railCalls k tr else railCalls k tr
  | _ :: tr => railCalls k tr

/-- A dialog / generation step: an LLM call or the custom action of a dialog flow. -/
def Step.isGen : Step → Bool
  | .llm _ _ => true
  | .act .dialog => true
  | _ => false

def Step.isLlm : Step → Bool
  | .llm _ _ => true
  | _ => false

/-- The rail lets the text through (possibly rewritten). -/
def Verdict.continues : Verdict → Bool
  | .accept => true
  | .rewrite _ => true
  | _ => false

/-- The text after the rail. -/
def Verdict.apply : Verdict → Text → Text
  | .rewrite t', _ => t'
  | _, t => t

/-- Specification of a rail list: every rail is shown the current text, in order, up to and
    including the first rail that does not let it through. -/
def gate (v : Nat → Text → Verdict) : List Nat → Text → List (Nat × Text)
  | [], _ => []
  | r :: rs, t => (r, t) :: (if (v r t).continues then gate v rs ((v r t).apply t) else [])

/-- The verdict that stopped the list (`none`: every rail let the text through). -/
def gateStop (v : Nat → Text → Verdict) : List Nat → Text → Option Verdict
  | [], _ => none
  | r :: rs, t => if (v r t).continues then gateStop v rs ((v r t).apply t) else some (v r t)

/-- The text after all rewrites. -/
def gateText (v : Nat → Text → Verdict) : List Nat → Text → Text
  | [], t => t
  | r :: rs, t => if (v r t).continues then gateText v rs ((v r t).apply t) else t

/-- Each call is shown the text the previous rail left. -/
def Chained (v : Nat → Text → Verdict) : Text → List (Nat × Text) → Prop
  | _, [] => True
  | t, (r, x) :: cs => x = t ∧ Chained v ((v r x).apply x) cs

def railSteps (k : Kind) (cs : List (Nat × Text)) : List Step := cs.map fun c => .rail k c.1 c.2

/-- Rail flows are well formed: in exception mode every rail stops after raising its exception. -/
def WF (cfg : Cfg) (k : Kind) : Prop := cfg.exc = true → ∀ r, cfg.stops k r = true

/-! ## Facts about `gate` -/

theorem gate_ids_prefix (v : Nat → Text → Verdict) : ∀ (rails : List Nat) (t : Text),
    (gate v rails t).map Prod.fst = rails.take (gate v rails t).length
  | [], _ => by simp [gate]
  | r :: rs, t => by
    by_cases h : (v r t).continues = true
    · simp [gate, h, gate_ids_prefix v rs]
    · simp [gate, h]

theorem gate_length_le (v : Nat → Text → Verdict) : ∀ (rails : List Nat) (t : Text),
    (gate v rails t).length ≤ rails.length
  | [], _ => by simp [gate]
  | r :: rs, t => by
    by_cases h : (v r t).continues = true
    · simp [gate, h]; exact gate_length_le v rs _
    · simp [gate, h]

theorem gate_full (v : Nat → Text → Verdict) : ∀ (rails : List Nat) (t : Text),
    gateStop v rails t = none → (gate v rails t).map Prod.fst = rails
  | [], _ => by simp [gate]
  | r :: rs, t => by
    by_cases h : (v r t).continues = true
    · simp [gate, gateStop, h]; exact gate_full v rs _
    · simp [gateStop, h]

theorem gate_chained (v : Nat → Text → Verdict) : ∀ (rails : List Nat) (t : Text), Chained v t (gate v rails t)
  | [], _ => by simp [gate, Chained]
  | r :: rs, t => by
    by_cases h : (v r t).continues = true
    · simp [gate, h, Chained]; exact gate_chained v rs _
    · simp [gate, h, Chained]

/-- Every call but the last one let the text through. -/
theorem gate_init_continue (v : Nat → Text → Verdict) : ∀ (rails : List Nat) (t : Text),
    ∀ c ∈ (gate v rails t).dropLast, (v c.1 c.2).continues = true
  | [], _ => by simp [gate]
  | r :: rs, t => by
    by_cases h : (v r t).continues = true
    · intro c hc
      simp only [gate, h, if_true] at hc
      cases hg : gate v rs ((v r t).apply t) with
      | nil => simp [hg] at hc
      | cons c' cs =>
        rw [hg, List.dropLast_cons_cons] at hc
        rcases List.mem_cons.mp hc with rfl | hc
        · exact h
        · have := gate_init_continue v rs ((v r t).apply t) c
          rw [hg] at this
          exact this hc
    · simp [gate, h]

/-- If the list was stopped, it was stopped by the verdict of the last call, which does not continue. -/
theorem gate_stop_last (v : Nat → Text → Verdict) : ∀ (rails : List Nat) (t : Text) (w : Verdict),
    gateStop v rails t = some w →
    ∃ r x, (gate v rails t).getLast? = some (r, x) ∧ v r x = w ∧ w.continues = false
  | [], _, _ => by simp [gateStop]
  | r :: rs, t, w => by
    by_cases h : (v r t).continues = true
    · intro hs
      simp only [gateStop, h, if_true] at hs
      obtain ⟨r', x', hl, hv, hw⟩ := gate_stop_last v rs _ w hs
      refine ⟨r', x', ?_, hv, hw⟩
      simp only [gate, h, if_true]
      cases hg : gate v rs ((v r t).apply t) with
      | nil => simp [hg] at hl
      | cons c cs => rw [hg] at hl; simpa [List.getLast?_cons_cons] using hl
    · intro hs
      simp only [gateStop, h] at hs
      have hw : w = v r t := by simpa using hs.symm
      subst hw
      exact ⟨r, t, by simp [gate, h], rfl, by simpa using h⟩

/-- If nothing stopped the list, every call let the text through. -/
theorem gate_all_continue (v : Nat → Text → Verdict) : ∀ (rails : List Nat) (t : Text),
    gateStop v rails t = none → ∀ c ∈ gate v rails t, (v c.1 c.2).continues = true
  | [], _ => by simp [gate]
  | r :: rs, t => by
    by_cases h : (v r t).continues = true
    · intro hs c hc
      simp only [gateStop, h, if_true] at hs
      simp only [gate, h, if_true] at hc
      rcases List.mem_cons.mp hc with rfl | hc
      · exact h
      · exact gate_all_continue v rs _ hs c hc
    · simp [gateStop, h]

/-- A call whose verdict does not let the text through is the last call. -/
theorem gate_block_is_last (v : Nat → Text → Verdict) (rails : List Nat) (t : Text) (c : Nat × Text)
    (hc : c ∈ gate v rails t) (hb : (v c.1 c.2).continues = false) :
    (gate v rails t).getLast? = some c := by
  cases hg : gate v rails t with
  | nil => simp [hg] at hc
  | cons c' cs =>
    have hne : gate v rails t ≠ [] := by simp [hg]
    have hsplit := List.dropLast_concat_getLast hne
    rw [hg] at hc
    have : c ∈ (gate v rails t).dropLast ++ [(gate v rails t).getLast hne] := by rw [hsplit, hg]; exact hc
    rcases List.mem_append.mp this with h1 | h1
    · have := gate_init_continue v rails t c h1
      rw [hb] at this; cases this
    · have h2 : c = (gate v rails t).getLast hne := by simpa using h1
      rw [← hg, List.getLast?_eq_getLast hne, h2]

/-- The stopping verdict is the verdict of an actual call. -/
theorem gateStop_is_verdict (v : Nat → Text → Verdict) (rails : List Nat) (t : Text) (w : Verdict)
    (h : gateStop v rails t = some w) : ∃ r x, (r, x) ∈ gate v rails t ∧ v r x = w := by
  obtain ⟨r, x, hl, hv, _⟩ := gate_stop_last v rails t w h
  exact ⟨r, x, List.mem_of_getLast? hl, hv⟩

/-! ## Facts about the observation functions -/

@[simp] theorem railCalls_append (k : Kind) : ∀ (a b : List Step), railCalls k (a ++ b) = railCalls k a ++ railCalls k b
  | [], b => by simp [railCalls]
  | s :: a, b => by
    cases s <;> simp [railCalls, railCalls_append k a b]
    split <;> simp

@[simp] theorem railCalls_railSteps_same (k : Kind) : ∀ cs, railCalls k (railSteps k cs) = cs
  | [] => by simp [railSteps, railCalls]
  | c :: cs => by
    have := railCalls_railSteps_same k cs
    simp [railSteps] at this
    simp [railSteps, railCalls, this]

theorem railCalls_railSteps_other (k k' : Kind) (h : k' ≠ k) : ∀ cs, railCalls k (railSteps k' cs) = []
  | [] => by simp [railSteps, railCalls]
  | c :: cs => by
    have := railCalls_railSteps_other k k' h cs
    simp [railSteps] at this
    simp [railSteps, railCalls, this, h]

@[simp] theorem utters_append : ∀ (a b : List Step), utters (a ++ b) = utters a ++ utters b
  | [], b => by simp [utters]
  | s :: a, b => by cases s <;> simp [utters, utters_append a b]

@[simp] theorem excs_append : ∀ (a b : List Step), excs (a ++ b) = excs a ++ excs b
  | [], b => by simp [excs]
  | s :: a, b => by cases s <;> simp [excs, excs_append a b]

@[simp] theorem utters_railSteps (k : Kind) : ∀ cs, utters (railSteps k cs) = []
  | [] => by simp [railSteps, utters]
  | c :: cs => by
    have := utters_railSteps k cs
    simp [railSteps] at this
    simp [railSteps, utters, this]

@[simp] theorem excs_railSteps (k : Kind) : ∀ cs, excs (railSteps k cs) = []
  | [] => by simp [railSteps, excs]
  | c :: cs => by
    have := excs_railSteps k cs
    simp [railSteps] at this
    simp [railSteps, excs, this]

theorem isGen_railSteps (k : Kind) (cs : List (Nat × Text)) : ∀ s ∈ railSteps k cs, s.isGen = false := by
  intro s hs
  simp [railSteps] at hs
  obtain ⟨a, b, _, rfl⟩ := hs
  rfl

/-! ## Colang 1.0: normal form of the rail loop -/

def stopStepsV1 (cfg : Cfg) (rf : Bool) (k : Kind) : Option Verdict → List Step
  | some .reject =>
    if cfg.exc then [.exc k] else if rf then [.act .retrieve, .utter internalError] else [.act .retrieve, .utter refusal]
  | some .fault => [.utter internalError]
  | _ => []

def stopResV1 (cfg : Cfg) (rf : Bool) (t' : Text) : Option Verdict → Res
  | none => .pass t'
  | some .reject => if cfg.exc then .blocked else if rf then .faulted else .blocked
  | some .fault => .faulted
  | some _ => .escaped

def stopSkipV1 (cfg : Cfg) (rf : Bool) (s : Bool) : Option Verdict → Bool
  | some .reject => if cfg.exc then s else if rf then s else false
  | _ => s

theorem railsV1_nf (cfg : Cfg) (rf : Bool) (k : Kind) (v : Nat → Text → Verdict) (hwf : WF cfg k) :
    ∀ (rails : List Nat) (t : Text) (s : Bool),
    railsV1 cfg rf k v rails t s =
      (railSteps k (gate v rails t) ++ stopStepsV1 cfg rf k (gateStop v rails t),
       stopResV1 cfg rf (gateText v rails t) (gateStop v rails t),
       stopSkipV1 cfg rf s (gateStop v rails t))
  | [], t, s => by simp [railsV1, gate, gateStop, gateText, railSteps, stopStepsV1, stopResV1, stopSkipV1]
  | r :: rs, t, s => by
    cases hv : v r t with
    | accept =>
      simp [railsV1, hv, gate, gateStop, gateText, Verdict.continues, Verdict.apply, railsV1_nf cfg rf k v hwf rs, railSteps]
    | rewrite t' =>
      simp [railsV1, hv, gate, gateStop, gateText, Verdict.continues, Verdict.apply, railsV1_nf cfg rf k v hwf rs, railSteps]
    | fault =>
      simp [railsV1, hv, gate, gateStop, gateText, Verdict.continues, railSteps, stopStepsV1, stopResV1, stopSkipV1]
    | escape =>
      simp [railsV1, hv, gate, gateStop, gateText, Verdict.continues, railSteps, stopStepsV1, stopResV1, stopSkipV1]
    | reject =>
      by_cases he : cfg.exc = true
      · have hs := hwf he r
        simp [railsV1, hv, gate, gateStop, gateText, Verdict.continues, railSteps, stopStepsV1, stopResV1, stopSkipV1, he, hs]
      · have he' : cfg.exc = false := by simpa using he
        cases rf <;>
          simp [railsV1, hv, gate, gateStop, gateText, Verdict.continues, railSteps, stopStepsV1, stopResV1, stopSkipV1, he']

/-- `$skip_output_rails` after a rail loop is either unchanged or reset. -/
theorem railsV1_skip (cfg : Cfg) (rf : Bool) (k : Kind) (v : Nat → Text → Verdict) :
    ∀ (rails : List Nat) (t : Text) (s : Bool),
    (railsV1 cfg rf k v rails t s).2.2 = s ∨ (railsV1 cfg rf k v rails t s).2.2 = false
  | [], t, s => by simp [railsV1]
  | r :: rs, t, s => by
    cases hv : v r t with
    | accept => simpa [railsV1, hv] using railsV1_skip cfg rf k v rs t s
    | rewrite t' => simpa [railsV1, hv] using railsV1_skip cfg rf k v rs t' s
    | fault => simp [railsV1, hv]
    | escape => simp [railsV1, hv]
    | reject =>
      by_cases he : cfg.exc = true
      · by_cases hs : cfg.stops k r = true
        · simp [railsV1, hv, he, hs]
        · have hs' : cfg.stops k r = false := by simpa using hs
          simpa [railsV1, hv, he, hs'] using railsV1_skip cfg rf k v rs t s
      · have he' : cfg.exc = false := by simpa using he
        cases rf <;> simp [railsV1, hv, he']

end NemoVerif.Pipeline

namespace NemoVerif.Pipeline

/-! ## Colang 1.0: the turn -/

/-- The `if $config.rails.input.flows` shortcut agrees with running the empty loop. -/
theorem inputPartV1_eq (cfg : Cfg) (h : HistV1) (t : Turn) :
    (if cfg.inRails.isEmpty then (([] : List Step), Res.pass t.user, h.skip)
     else railsV1 cfg t.retrFault .input t.vin cfg.inRails t.user h.skip)
    = railsV1 cfg t.retrFault .input t.vin cfg.inRails t.user h.skip := by
  cases hr : cfg.inRails with
  | nil => simp [railsV1]
  | cons r rs => simp

/-- What `process bot message` does with an LLM-generated text when `$skip_output_rails` is not set:
    steps after the output-rail calls, and how the turn ends. -/
def outTailV1 (cfg : Cfg) (rf : Bool) (final : Text) : Option Verdict → List Step × End
  | none => ([.utter final], .normal)
  | some .reject =>
    if cfg.exc then ([.exc .output], .normal)
    else if rf then ([.act .retrieve, .utter internalError], .hidden)
    else ([.act .retrieve, .utter refusal], .normal)
  | some .fault => ([.utter internalError], .hidden)
  | some _ => ([], .escaped)

theorem processBotV1_nf (cfg : Cfg) (t : Turn) (hwf : WF cfg .output) (text : Text) :
    processBotV1 cfg t false text =
      (railSteps .output (gate t.vout cfg.outRails text)
         ++ (outTailV1 cfg t.retrFault (gateText t.vout cfg.outRails text) (gateStop t.vout cfg.outRails text)).1,
       (outTailV1 cfg t.retrFault (gateText t.vout cfg.outRails text) (gateStop t.vout cfg.outRails text)).2,
       false) := by
  unfold processBotV1
  cases hr : cfg.outRails with
  | nil => simp [gate, gateStop, gateText, railSteps, outTailV1]
  | cons r rs =>
    have hnf := railsV1_nf cfg t.retrFault .output t.vout hwf (r :: rs) text false
    simp only [List.isEmpty_cons, Bool.false_eq_true, if_false]
    rw [hnf]
    cases hs : gateStop t.vout (r :: rs) text with
    | none => simp [stopStepsV1, stopResV1, stopSkipV1, outTailV1]
    | some w =>
      cases w with
      | accept => simp [stopStepsV1, stopResV1, stopSkipV1, outTailV1]
      | rewrite x => simp [stopStepsV1, stopResV1, stopSkipV1, outTailV1]
      | fault => simp [stopStepsV1, stopResV1, stopSkipV1, outTailV1]
      | escape => simp [stopStepsV1, stopResV1, stopSkipV1, outTailV1]
      | reject =>
        by_cases he : cfg.exc = true
        · simp [stopStepsV1, stopResV1, stopSkipV1, outTailV1, he]
        · have he' : cfg.exc = false := by simpa using he
          cases hrf : t.retrFault <;> simp [stopStepsV1, stopResV1, stopSkipV1, outTailV1, he', hrf]

/-- The dialog / generation steps that precede the bot message (none of them is a rail call). -/
def genPrefixV1 (cfg : Cfg) (t : Turn) (um : Text) : List Step :=
  if !cfg.dialog then [.llm .general um]
  else if cfg.singleCall then
    match t.intent with
    | .flow => [.llm .single um, .act .retrieve]
    | .free => [.llm .single um, .act .retrieve]
    | .act => [.llm .single um, .act .dialog, .act .retrieve]
  else match t.intent with
    | .flow => [.llm .userIntent um, .act .retrieve, .llm .botMessage um]
    | .free => [.llm .userIntent um, .llm .nextSteps um, .act .retrieve, .llm .botMessage um]
    | .act => [.llm .userIntent um, .act .dialog, .act .retrieve, .llm .botMessage um]

/-- Does a dialog-side action fault cut the turn short before any bot message is generated? -/
def genFaultV1 (cfg : Cfg) (t : Turn) : Bool :=
  cfg.dialog && (match t.intent with
    | .act => t.actFault || t.retrFault
    | _ => t.retrFault)

/-- The steps of a turn cut short by a dialog-side fault. -/
def genFaultStepsV1 (cfg : Cfg) (t : Turn) (um : Text) : List Step :=
  if cfg.singleCall then
    match t.intent with
    | .flow => [.llm .single um, .act .retrieve, .utter internalError]
    | .free => [.llm .single um, .act .retrieve, .utter internalError]
    | .act =>
      if t.actFault then [.llm .single um, .act .dialog, .utter internalError]
      else [.llm .single um, .act .dialog, .act .retrieve, .utter internalError]
  else
    match t.intent with
    | .flow => [.llm .userIntent um, .act .retrieve, .utter internalError]
    | .free => [.llm .userIntent um, .llm .nextSteps um, .act .retrieve, .utter internalError]
    | .act =>
      if t.actFault then [.llm .userIntent um, .act .dialog, .utter internalError]
      else [.llm .userIntent um, .act .dialog, .act .retrieve, .utter internalError]

theorem genV1_nf (cfg : Cfg) (t : Turn) (skip : Bool) (um : Text) :
    genV1 cfg t skip um =
      if genFaultV1 cfg t then (genFaultStepsV1 cfg t um, .hidden, skip)
      else (genPrefixV1 cfg t um ++ (processBotV1 cfg t skip t.bot).1,
            (processBotV1 cfg t skip t.bot).2.1, (processBotV1 cfg t skip t.bot).2.2) := by
  unfold genV1 genFaultV1 genPrefixV1 genFaultStepsV1
  cases hd : cfg.dialog <;> cases hsc : cfg.singleCall <;> cases hi : t.intent <;> cases ha : t.actFault <;> cases hr : t.retrFault <;> simp

theorem railCalls_genPrefixV1 (cfg : Cfg) (t : Turn) (um : Text) (k : Kind) : railCalls k (genPrefixV1 cfg t um) = [] := by
  unfold genPrefixV1
  cases cfg.dialog <;> cases cfg.singleCall <;> cases t.intent <;> simp [railCalls]

theorem railCalls_genFaultStepsV1 (cfg : Cfg) (t : Turn) (um : Text) (k : Kind) : railCalls k (genFaultStepsV1 cfg t um) = [] := by
  unfold genFaultStepsV1
  cases cfg.singleCall <;> cases t.intent <;> cases t.actFault <;> simp [railCalls]

theorem utters_genPrefixV1 (cfg : Cfg) (t : Turn) (um : Text) : utters (genPrefixV1 cfg t um) = [] := by
  unfold genPrefixV1
  cases cfg.dialog <;> cases cfg.singleCall <;> cases t.intent <;> simp [utters]

theorem excs_genPrefixV1 (cfg : Cfg) (t : Turn) (um : Text) : excs (genPrefixV1 cfg t um) = [] := by
  unfold genPrefixV1
  cases cfg.dialog <;> cases cfg.singleCall <;> cases t.intent <;> simp [excs]

theorem utters_genFaultStepsV1 (cfg : Cfg) (t : Turn) (um : Text) : utters (genFaultStepsV1 cfg t um) = [internalError] := by
  unfold genFaultStepsV1
  cases cfg.singleCall <;> cases t.intent <;> cases t.actFault <;> simp [utters]

theorem excs_genFaultStepsV1 (cfg : Cfg) (t : Turn) (um : Text) : excs (genFaultStepsV1 cfg t um) = [] := by
  unfold genFaultStepsV1
  cases cfg.singleCall <;> cases t.intent <;> cases t.actFault <;> simp [excs]

theorem llm_genPrefixV1 (cfg : Cfg) (t : Turn) (um : Text) : ∀ task u, Step.llm task u ∈ genPrefixV1 cfg t um → u = um := by
  unfold genPrefixV1
  cases cfg.dialog <;> cases cfg.singleCall <;> cases t.intent <;> simp <;> (intro task u h; (try rcases h with h | h | h) <;> simp_all)

theorem llm_genFaultStepsV1 (cfg : Cfg) (t : Turn) (um : Text) : ∀ task u, Step.llm task u ∈ genFaultStepsV1 cfg t um → u = um := by
  unfold genFaultStepsV1
  cases cfg.singleCall <;> cases t.intent <;> cases t.actFault <;> simp <;> (intro task u h; (try rcases h with h | h) <;> simp_all)

end NemoVerif.Pipeline

namespace NemoVerif.Pipeline

/-- Everything after the input rails let `um` through (closed form). -/
def afterInputV1 (cfg : Cfg) (t : Turn) (um : Text) : List Step × End :=
  if genFaultV1 cfg t then (genFaultStepsV1 cfg t um, .hidden)
  else
    (genPrefixV1 cfg t um ++ (railSteps .output (gate t.vout cfg.outRails t.bot)
        ++ (outTailV1 cfg t.retrFault (gateText t.vout cfg.outRails t.bot) (gateStop t.vout cfg.outRails t.bot)).1),
     (outTailV1 cfg t.retrFault (gateText t.vout cfg.outRails t.bot) (gateStop t.vout cfg.outRails t.bot)).2)

/-- The input part of the trace (closed form). -/
def inputTraceV1 (cfg : Cfg) (t : Turn) : List Step :=
  railSteps .input (gate t.vin cfg.inRails t.user)
    ++ stopStepsV1 cfg t.retrFault .input (gateStop t.vin cfg.inRails t.user)

/-- Closed form of a Colang 1.0 turn for well-formed rails, entered with `$skip_output_rails` unset. -/
def turnSpecV1 (cfg : Cfg) (h : HistV1) (t : Turn) : List Step × Reply × HistV1 :=
  match stopResV1 cfg t.retrFault (gateText t.vin cfg.inRails t.user) (gateStop t.vin cfg.inRails t.user) with
  | .pass um =>
    let a := afterInputV1 cfg t um
    (inputTraceV1 cfg t ++ a.1, replyV1 (inputTraceV1 cfg t ++ a.1) (a.2 == .escaped),
      { skip := false, texts := if a.2 == .normal then h.texts ++ um :: utters a.1 else h.texts })
  | .blocked => (inputTraceV1 cfg t, replyV1 (inputTraceV1 cfg t) false, { skip := false, texts := h.texts ++ utters (inputTraceV1 cfg t) })
  | .faulted => (inputTraceV1 cfg t, replyV1 (inputTraceV1 cfg t) false, { skip := false, texts := h.texts })
  | .escaped => (inputTraceV1 cfg t, replyV1 (inputTraceV1 cfg t) true, { skip := false, texts := h.texts })

theorem stopSkipV1_false (cfg : Cfg) (rf : Bool) (w : Option Verdict) : stopSkipV1 cfg rf false w = false := by
  cases w with
  | none => rfl
  | some v => cases v <;> simp [stopSkipV1]

theorem turnV1_eq_spec (cfg : Cfg) (h : HistV1) (t : Turn) (hi : WF cfg .input) (ho : WF cfg .output)
    (hs : h.skip = false) : turnV1 cfg h t = turnSpecV1 cfg h t := by
  unfold turnV1 turnSpecV1 inputTraceV1
  rw [inputPartV1_eq, railsV1_nf cfg t.retrFault .input t.vin hi, hs, stopSkipV1_false]
  simp only
  cases hres : stopResV1 cfg t.retrFault (gateText t.vin cfg.inRails t.user) (gateStop t.vin cfg.inRails t.user) with
  | pass um =>
    simp only
    rw [genV1_nf]
    unfold afterInputV1
    by_cases hf : genFaultV1 cfg t = true
    · simp [hf]
    · have hf' : genFaultV1 cfg t = false := by simpa using hf
      simp only [hf', Bool.false_eq_true, if_false]
      rw [processBotV1_nf cfg t ho]
  | blocked => simp
  | faulted => simp
  | escaped => simp

/-- `$skip_output_rails` is unset at the end of every turn that was entered with it unset
    (no well-formedness needed). -/
theorem turnV1_skip (cfg : Cfg) (h : HistV1) (t : Turn) (hs : h.skip = false) : (turnV1 cfg h t).2.2.skip = false := by
  unfold turnV1
  rw [inputPartV1_eq]
  have hsk := railsV1_skip cfg t.retrFault .input t.vin cfg.inRails t.user h.skip
  rw [hs] at hsk
  have hs1 : (railsV1 cfg t.retrFault .input t.vin cfg.inRails t.user h.skip).2.2 = false := by
    rw [hs]; rcases hsk with h1 | h1 <;> exact h1
  rcases hrr : railsV1 cfg t.retrFault .input t.vin cfg.inRails t.user h.skip with ⟨trIn, res, s1⟩
  rw [hrr] at hs1
  simp only at hs1
  subst hs1
  cases res with
  | blocked => rfl
  | faulted => rfl
  | escaped => rfl
  | pass um =>
    simp only
    rw [genV1_nf]
    by_cases hf : genFaultV1 cfg t = true
    · simp [hf]
    · have hf' : genFaultV1 cfg t = false := by simpa using hf
      simp only [hf', Bool.false_eq_true, if_false]
      unfold processBotV1
      simp only [Bool.false_eq_true, if_false]
      by_cases he : cfg.outRails.isEmpty = true
      · simp [he]
      · have he' : cfg.outRails.isEmpty = false := by simpa using he
        simp only [he', Bool.false_eq_true, if_false]
        have hso := railsV1_skip cfg t.retrFault .output t.vout cfg.outRails t.bot false
        rcases hro : railsV1 cfg t.retrFault .output t.vout cfg.outRails t.bot false with ⟨tr, r, s⟩
        rw [hro] at hso
        simp only at hso
        have : s = false := by rcases hso with h1 | h1 <;> exact h1
        subst this
        cases r <;> rfl

end NemoVerif.Pipeline

namespace NemoVerif.Pipeline

/-! ## Colang 1.0: consequences of the closed form -/

theorem railCalls_stopStepsV1 (cfg : Cfg) (rf : Bool) (k k' : Kind) (w : Option Verdict) :
    railCalls k' (stopStepsV1 cfg rf k w) = [] := by
  cases w with
  | none => simp [stopStepsV1, railCalls]
  | some v => cases v <;> simp [stopStepsV1, railCalls] <;> (split <;> (try split) <;> simp [railCalls])

theorem isGen_stopStepsV1 (cfg : Cfg) (rf : Bool) (k : Kind) (w : Option Verdict) :
    ∀ s ∈ stopStepsV1 cfg rf k w, s.isGen = false := by
  cases w with
  | none => simp [stopStepsV1]
  | some v =>
    cases v <;> simp [stopStepsV1, Step.isGen]
    split <;> (try split) <;> simp [Step.isGen]

theorem railCalls_outTailV1 (cfg : Cfg) (rf : Bool) (k : Kind) (x : Text) (w : Option Verdict) :
    railCalls k (outTailV1 cfg rf x w).1 = [] := by
  cases w with
  | none => simp [outTailV1, railCalls]
  | some v => cases v <;> simp [outTailV1, railCalls] <;> (split <;> (try split) <;> simp [railCalls])

theorem railCalls_input_inputTraceV1 (cfg : Cfg) (t : Turn) :
    railCalls .input (inputTraceV1 cfg t) = gate t.vin cfg.inRails t.user := by
  simp [inputTraceV1, railCalls_stopStepsV1]

theorem railCalls_output_inputTraceV1 (cfg : Cfg) (t : Turn) : railCalls .output (inputTraceV1 cfg t) = [] := by
  simp [inputTraceV1, railCalls_stopStepsV1, railCalls_railSteps_other .output .input (by decide)]

theorem railCalls_input_afterInputV1 (cfg : Cfg) (t : Turn) (um : Text) : railCalls .input (afterInputV1 cfg t um).1 = [] := by
  unfold afterInputV1
  split
  · exact railCalls_genFaultStepsV1 cfg t um .input
  · simp [railCalls_genPrefixV1, railCalls_outTailV1, railCalls_railSteps_other .input .output (by decide)]

theorem isGen_inputTraceV1 (cfg : Cfg) (t : Turn) : ∀ s ∈ inputTraceV1 cfg t, s.isGen = false := by
  intro s hs
  rcases List.mem_append.mp hs with h | h
  · exact isGen_railSteps _ _ s h
  · exact isGen_stopStepsV1 _ _ _ _ s h

theorem llm_afterInputV1 (cfg : Cfg) (t : Turn) (um : Text) :
    ∀ task u, Step.llm task u ∈ (afterInputV1 cfg t um).1 → u = um := by
  intro task u hm
  unfold afterInputV1 at hm
  split at hm
  · exact llm_genFaultStepsV1 cfg t um task u hm
  · simp only [List.mem_append] at hm
    rcases hm with h | h | h
    · exact llm_genPrefixV1 cfg t um task u h
    · simp [railSteps] at h
    · exfalso
      revert h
      cases gateStop t.vout cfg.outRails t.bot with
      | none => simp [outTailV1]
      | some v => cases v <;> simp [outTailV1] <;> (split <;> (try split) <;> simp)

theorem llm_inputTraceV1 (cfg : Cfg) (t : Turn) : ∀ task u, Step.llm task u ∉ inputTraceV1 cfg t := by
  intro task u hm
  have := isGen_inputTraceV1 cfg t _ hm
  simp [Step.isGen] at this

/-- the trace of the closed form, by how the input rails ended -/
theorem turnSpecV1_trace (cfg : Cfg) (h : HistV1) (t : Turn) :
    (turnSpecV1 cfg h t).1 =
      inputTraceV1 cfg t ++
        (match gateStop t.vin cfg.inRails t.user with
         | none => (afterInputV1 cfg t (gateText t.vin cfg.inRails t.user)).1
         | some _ => []) := by
  unfold turnSpecV1
  cases hs : gateStop t.vin cfg.inRails t.user with
  | none => simp [stopResV1]
  | some v =>
    cases v with
    | reject => by_cases he : cfg.exc = true <;> cases hrf : t.retrFault <;> simp [stopResV1, he, hrf]
    | accept => simp [stopResV1]
    | rewrite x => simp [stopResV1]
    | fault => simp [stopResV1]
    | escape => simp [stopResV1]

end NemoVerif.Pipeline

namespace NemoVerif.Pipeline

/-! ## Colang 1.0: utterances, exceptions, reply -/

theorem mem_utters : ∀ (tr : List Step) (x : Text), x ∈ utters tr ↔ Step.utter x ∈ tr
  | [], x => by simp [utters]
  | s :: tr, x => by
    cases s <;> simp [utters, mem_utters tr x]

theorem utter_mem_stopStepsV1 (cfg : Cfg) (rf : Bool) (k : Kind) (w : Option Verdict) (x : Text)
    (h : Step.utter x ∈ stopStepsV1 cfg rf k w) : x = refusal ∨ x = internalError := by
  cases w with
  | none => simp [stopStepsV1] at h
  | some v =>
    cases v <;> simp [stopStepsV1] at h
    · split at h
      · simp at h
      · split at h <;> simp at h <;> simp [h]
    · simp [h]

theorem utter_mem_outTailV1 (cfg : Cfg) (rf : Bool) (final : Text) (w : Option Verdict) (x : Text)
    (h : Step.utter x ∈ (outTailV1 cfg rf final w).1) : x = refusal ∨ x = internalError ∨ (w = none ∧ x = final) := by
  cases w with
  | none => simp [outTailV1] at h; simp [h]
  | some v =>
    cases v <;> simp [outTailV1] at h
    · split at h
      · simp at h
      · split at h <;> simp at h <;> simp [h]
    · simp [h]

theorem utter_mem_inputTraceV1 (cfg : Cfg) (t : Turn) (x : Text) (h : Step.utter x ∈ inputTraceV1 cfg t) :
    x = refusal ∨ x = internalError := by
  rcases List.mem_append.mp h with h1 | h1
  · simp [railSteps] at h1
  · exact utter_mem_stopStepsV1 _ _ _ _ x h1

theorem railCalls_output_afterInputV1 (cfg : Cfg) (t : Turn) (um : Text) :
    railCalls .output (afterInputV1 cfg t um).1 = (if genFaultV1 cfg t then [] else gate t.vout cfg.outRails t.bot) := by
  unfold afterInputV1
  split
  · exact railCalls_genFaultStepsV1 cfg t um .output
  · simp [railCalls_genPrefixV1, railCalls_outTailV1]

theorem utter_mem_afterInputV1 (cfg : Cfg) (t : Turn) (um : Text) (x : Text) (h : Step.utter x ∈ (afterInputV1 cfg t um).1) :
    x = refusal ∨ x = internalError ∨
      (genFaultV1 cfg t = false ∧ gateStop t.vout cfg.outRails t.bot = none ∧ x = gateText t.vout cfg.outRails t.bot) := by
  unfold afterInputV1 at h
  by_cases hf : genFaultV1 cfg t = true
  · simp only [hf, if_true] at h
    have := (mem_utters _ x).mpr h
    rw [utters_genFaultStepsV1] at this
    simp at this
    simp [this]
  · have hf' : genFaultV1 cfg t = false := by simpa using hf
    simp only [hf', Bool.false_eq_true, if_false, List.mem_append] at h
    rcases h with h | h | h
    · have := (mem_utters _ x).mpr h
      rw [utters_genPrefixV1] at this
      simp at this
    · simp [railSteps] at h
    · rcases utter_mem_outTailV1 _ _ _ _ x h with h1 | h1 | ⟨h1, h2⟩
      · exact Or.inl h1
      · exact Or.inr (Or.inl h1)
      · exact Or.inr (Or.inr ⟨hf', h1, h2⟩)

/-- the texts of a reply are uttered in the turn -/
theorem replyV1_texts_sub (tr : List Step) (raised : Bool) : ∀ x ∈ (replyV1 tr raised).texts, Step.utter x ∈ tr := by
  intro x hx
  unfold replyV1 at hx
  split at hx
  · simp at hx
  · split at hx
    · simp at hx
    · exact (mem_utters tr x).mp hx

theorem turnSpecV1_reply (cfg : Cfg) (h : HistV1) (t : Turn) :
    ∃ raised, (turnSpecV1 cfg h t).2.1 = replyV1 (turnSpecV1 cfg h t).1 raised := by
  unfold turnSpecV1
  split
  · exact ⟨_, rfl⟩
  · exact ⟨false, rfl⟩
  · exact ⟨false, rfl⟩
  · exact ⟨true, rfl⟩

theorem utters_stopStepsV1_none_or (cfg : Cfg) (rf : Bool) (k : Kind) : utters (stopStepsV1 cfg rf k none) = [] := by
  simp [stopStepsV1, utters]

theorem excs_genFaultOrPrefix (cfg : Cfg) (t : Turn) (um : Text) :
    excs (afterInputV1 cfg t um).1 = excs (outTailV1 cfg t.retrFault (gateText t.vout cfg.outRails t.bot) (gateStop t.vout cfg.outRails t.bot)).1
    ∨ excs (afterInputV1 cfg t um).1 = [] := by
  unfold afterInputV1
  split
  · right; exact excs_genFaultStepsV1 cfg t um
  · left; simp [excs_genPrefixV1]

end NemoVerif.Pipeline

namespace NemoVerif.Pipeline

/-! ## Dispatch: containment of action failures (C03) -/

theorem execute_contains {α : Type} (o : Option (Dispatch.Outcome α)) (h : o ≠ some .llmRaise) :
    ∃ r, Dispatch.execute o = .ok r := by
  cases o with
  | none => exact ⟨_, rfl⟩
  | some oc =>
    cases oc with
    | ret v => exact ⟨_, rfl⟩
    | raise e => exact ⟨_, rfl⟩
    | llmRaise => exact absurd rfl h

theorem execute_raise_failed {α : Type} (e : Dispatch.Exn) : Dispatch.execute (some (Dispatch.Outcome.raise e : Dispatch.Outcome α)) = .ok (none, .failed) := rfl

theorem run_raise_internalError {α : Type} (e : Dispatch.Exn) : Dispatch.run (some (Dispatch.Outcome.raise e : Dispatch.Outcome α)) = .ok .internalError := rfl

theorem verdictOf_run_escape (o : Option (Dispatch.Outcome RailRet)) :
    verdictOf (Dispatch.run o) = .escape ↔ o = some .llmRaise := by
  cases o with
  | none => simp [Dispatch.run, Dispatch.execute, Dispatch.runtimeResult, verdictOf, Except.map]
  | some oc =>
    cases oc with
    | ret v =>
      simp [Dispatch.run, Dispatch.execute, Dispatch.runtimeResult, verdictOf, Except.map]
      split <;> (try split) <;> simp
    | raise e => simp [Dispatch.run, Dispatch.execute, Dispatch.runtimeResult, verdictOf, Except.map]
    | llmRaise => simp [Dispatch.run, Dispatch.execute, verdictOf, Except.map]

theorem verdictOf_run_raise (e : Dispatch.Exn) : verdictOf (Dispatch.run (some (Dispatch.Outcome.raise e : Dispatch.Outcome RailRet))) = .fault := rfl

/-- a stopping verdict that is neither a rejection nor a fault is the forwarded LLM exception -/
theorem gateStop_escape (v : Nat → Text → Verdict) (rails : List Nat) (t : Text) (w : Verdict)
    (h : gateStop v rails t = some w) (hr : w ≠ .reject) (hf : w ≠ .fault) : w = .escape := by
  obtain ⟨_, _, _, _, hw⟩ := gate_stop_last v rails t w h
  cases w <;> simp_all [Verdict.continues]

end NemoVerif.Pipeline

namespace NemoVerif.Pipeline

/-! ## Colang 1.0: the input-rail invocations need no assumption about the output rails or the carried flag -/

theorem railCalls_other_railsV1 (cfg : Cfg) (rf : Bool) (k k' : Kind) (hk : k ≠ k') (v : Nat → Text → Verdict) :
    ∀ (rails : List Nat) (t : Text) (s : Bool), railCalls k' (railsV1 cfg rf k v rails t s).1 = []
  | [], t, s => by simp [railsV1, railCalls]
  | r :: rs, t, s => by
    cases hv : v r t with
    | accept => simp [railsV1, hv, railCalls, hk, railCalls_other_railsV1 cfg rf k k' hk v rs t s]
    | rewrite t' => simp [railsV1, hv, railCalls, hk, railCalls_other_railsV1 cfg rf k k' hk v rs t' s]
    | fault => simp [railsV1, hv, railCalls, hk]
    | escape => simp [railsV1, hv, railCalls, hk]
    | reject =>
      by_cases he : cfg.exc = true
      · by_cases hs : cfg.stops k r = true
        · simp [railsV1, hv, he, hs, railCalls, hk]
        · have hs' : cfg.stops k r = false := by simpa using hs
          simp [railsV1, hv, he, hs', railCalls, hk, railCalls_other_railsV1 cfg rf k k' hk v rs t s]
      · have he' : cfg.exc = false := by simpa using he
        cases rf <;> simp [railsV1, hv, he', railCalls, hk]

theorem railCalls_input_processBotV1 (cfg : Cfg) (t : Turn) (skip : Bool) (text : Text) :
    railCalls .input (processBotV1 cfg t skip text).1 = [] := by
  unfold processBotV1
  cases skip
  · by_cases he : cfg.outRails.isEmpty = true
    · simp [he, railCalls]
    · have he' : cfg.outRails.isEmpty = false := by simpa using he
      simp only [Bool.false_eq_true, if_false, he']
      have := railCalls_other_railsV1 cfg t.retrFault .output .input (by decide) t.vout cfg.outRails text false
      rcases hr : railsV1 cfg t.retrFault .output t.vout cfg.outRails text false with ⟨tr, res, s⟩
      rw [hr] at this
      simp only at this
      cases res <;> simp [this, railCalls]
  · simp [railCalls]

theorem railCalls_input_genV1 (cfg : Cfg) (t : Turn) (skip : Bool) (um : Text) :
    railCalls .input (genV1 cfg t skip um).1 = [] := by
  rw [genV1_nf]
  by_cases hf : genFaultV1 cfg t = true
  · simp [hf, railCalls_genFaultStepsV1]
  · have hf' : genFaultV1 cfg t = false := by simpa using hf
    simp [hf', railCalls_genPrefixV1, railCalls_input_processBotV1]

/-- The input-rail invocations of a Colang 1.0 turn are `gate` — assuming only that the *input* rail
    flows are well formed; nothing about the output rails or the state the turn starts from. -/
theorem turnV1_input_calls (cfg : Cfg) (h : HistV1) (t : Turn) (hi : WF cfg .input) :
    railCalls .input (turnV1 cfg h t).1 = gate t.vin cfg.inRails t.user := by
  unfold turnV1
  rw [inputPartV1_eq, railsV1_nf cfg t.retrFault .input t.vin hi]
  simp only
  cases hres : stopResV1 cfg t.retrFault (gateText t.vin cfg.inRails t.user) (gateStop t.vin cfg.inRails t.user) with
  | pass um =>
    simp only
    rcases hg : genV1 cfg t (stopSkipV1 cfg t.retrFault h.skip (gateStop t.vin cfg.inRails t.user)) um with ⟨tr, e, s2⟩
    have := railCalls_input_genV1 cfg t (stopSkipV1 cfg t.retrFault h.skip (gateStop t.vin cfg.inRails t.user)) um
    rw [hg] at this
    simp only at this
    simp [railCalls_stopStepsV1, this]
  | blocked => simp [railCalls_stopStepsV1]
  | faulted => simp [railCalls_stopStepsV1]
  | escaped => simp [railCalls_stopStepsV1]

end NemoVerif.Pipeline

namespace NemoVerif.Pipeline

/-! ## Colang 1.0 without any well-formedness assumption: a trace without exception events is the closed form -/

theorem railsV1_nf_of_no_exc (cfg : Cfg) (rf : Bool) (k : Kind) (v : Nat → Text → Verdict) :
    ∀ (rails : List Nat) (t : Text) (s : Bool),
    cfg.exc = true → excs (railsV1 cfg rf k v rails t s).1 = [] →
    railsV1 cfg rf k v rails t s =
      (railSteps k (gate v rails t) ++ stopStepsV1 cfg rf k (gateStop v rails t),
       stopResV1 cfg rf (gateText v rails t) (gateStop v rails t),
       stopSkipV1 cfg rf s (gateStop v rails t))
  | [], t, s, _, _ => by simp [railsV1, gate, gateStop, gateText, railSteps, stopStepsV1, stopResV1, stopSkipV1]
  | r :: rs, t, s, he, hx => by
    cases hv : v r t with
    | accept =>
      have hx' : excs (railsV1 cfg rf k v rs t s).1 = [] := by simpa [railsV1, hv, excs] using hx
      simp [railsV1, hv, gate, gateStop, gateText, Verdict.continues, Verdict.apply, railsV1_nf_of_no_exc cfg rf k v rs t s he hx', railSteps]
    | rewrite t' =>
      have hx' : excs (railsV1 cfg rf k v rs t' s).1 = [] := by simpa [railsV1, hv, excs] using hx
      simp [railsV1, hv, gate, gateStop, gateText, Verdict.continues, Verdict.apply, railsV1_nf_of_no_exc cfg rf k v rs t' s he hx', railSteps]
    | fault => simp [railsV1, hv, gate, gateStop, gateText, Verdict.continues, railSteps, stopStepsV1, stopResV1, stopSkipV1]
    | escape => simp [railsV1, hv, gate, gateStop, gateText, Verdict.continues, railSteps, stopStepsV1, stopResV1, stopSkipV1]
    | reject =>
      exfalso
      by_cases hs : cfg.stops k r = true
      · simp [railsV1, hv, he, hs, excs] at hx
      · have hs' : cfg.stops k r = false := by simpa using hs
        simp [railsV1, hv, he, hs', excs] at hx

/-- Without exception mode the rail flows always stop (`WF` holds vacuously). -/
theorem WF_of_not_exc (cfg : Cfg) (k : Kind) (he : cfg.exc = false) : WF cfg k := by
  intro h; rw [he] at h; cases h

end NemoVerif.Pipeline

namespace NemoVerif.Pipeline

theorem processBotV1_nf_of_no_exc (cfg : Cfg) (t : Turn) (he : cfg.exc = true) (text : Text)
    (hx : excs (processBotV1 cfg t false text).1 = []) :
    processBotV1 cfg t false text =
      (railSteps .output (gate t.vout cfg.outRails text)
         ++ (outTailV1 cfg t.retrFault (gateText t.vout cfg.outRails text) (gateStop t.vout cfg.outRails text)).1,
       (outTailV1 cfg t.retrFault (gateText t.vout cfg.outRails text) (gateStop t.vout cfg.outRails text)).2,
       false) := by
  unfold processBotV1 at hx ⊢
  cases hr : cfg.outRails with
  | nil => simp [gate, gateStop, gateText, railSteps, outTailV1]
  | cons r rs =>
    rw [hr] at hx
    simp only [List.isEmpty_cons, Bool.false_eq_true, if_false] at hx ⊢
    have hx' : excs (railsV1 cfg t.retrFault .output t.vout (r :: rs) text false).1 = [] := by
      rcases hrr : railsV1 cfg t.retrFault .output t.vout (r :: rs) text false with ⟨tr, res, s⟩
      rw [hrr] at hx
      cases res <;> simp at hx <;> simp [hx]
    have hnf := railsV1_nf_of_no_exc cfg t.retrFault .output t.vout (r :: rs) text false he hx'
    rw [hnf]
    cases hs : gateStop t.vout (r :: rs) text with
    | none => simp [stopStepsV1, stopResV1, stopSkipV1, outTailV1]
    | some w =>
      cases w with
      | accept => simp [stopStepsV1, stopResV1, stopSkipV1, outTailV1]
      | rewrite x => simp [stopStepsV1, stopResV1, stopSkipV1, outTailV1]
      | fault => simp [stopStepsV1, stopResV1, stopSkipV1, outTailV1]
      | escape => simp [stopStepsV1, stopResV1, stopSkipV1, outTailV1]
      | reject => simp [stopStepsV1, stopResV1, stopSkipV1, outTailV1, he]

/-- A Colang 1.0 turn in exception mode whose trace contains no exception event is the closed form,
    whatever the rail flows look like. -/
theorem turnV1_eq_spec_of_no_exc (cfg : Cfg) (h : HistV1) (t : Turn) (he : cfg.exc = true) (hs : h.skip = false)
    (hx : excs (turnV1 cfg h t).1 = []) : turnV1 cfg h t = turnSpecV1 cfg h t := by
  unfold turnV1 at hx ⊢
  rw [inputPartV1_eq] at hx ⊢
  have hin : excs (railsV1 cfg t.retrFault .input t.vin cfg.inRails t.user h.skip).1 = [] := by
    rcases hrr : railsV1 cfg t.retrFault .input t.vin cfg.inRails t.user h.skip with ⟨trIn, res, s1⟩
    rw [hrr] at hx
    cases res with
    | pass um =>
      simp only at hx
      rcases hg : genV1 cfg t s1 um with ⟨tr, e, s2⟩
      rw [hg] at hx
      simp only [excs_append, List.append_eq_nil_iff] at hx
      exact hx.1
    | blocked => simpa using hx
    | faulted => simpa using hx
    | escaped => simpa using hx
  have hnf := railsV1_nf_of_no_exc cfg t.retrFault .input t.vin cfg.inRails t.user h.skip he hin
  rw [hnf] at hx ⊢
  unfold turnSpecV1 inputTraceV1
  rw [hs, stopSkipV1_false] at hx ⊢
  simp only at hx ⊢
  cases hres : stopResV1 cfg t.retrFault (gateText t.vin cfg.inRails t.user) (gateStop t.vin cfg.inRails t.user) with
  | pass um =>
    rw [hres] at hx
    simp only at hx ⊢
    rw [genV1_nf] at hx ⊢
    unfold afterInputV1
    by_cases hf : genFaultV1 cfg t = true
    · simp [hf]
    · have hf' : genFaultV1 cfg t = false := by simpa using hf
      simp only [hf', Bool.false_eq_true, if_false] at hx ⊢
      have hpb : excs (processBotV1 cfg t false t.bot).1 = [] := by
        simp only [excs_append, List.append_eq_nil_iff] at hx
        exact hx.2.2
      rw [processBotV1_nf_of_no_exc cfg t he t.bot hpb]
  | blocked => simp
  | faulted => simp
  | escaped => simp

end NemoVerif.Pipeline

namespace NemoVerif.Pipeline

theorem utter_mem_turnSpecV1 (cfg : Cfg) (h : HistV1) (t : Turn) (x : Text) (hx : Step.utter x ∈ (turnSpecV1 cfg h t).1) :
    x = refusal ∨ x = internalError ∨
      (gateStop t.vout cfg.outRails t.bot = none ∧ x = gateText t.vout cfg.outRails t.bot) := by
  rw [turnSpecV1_trace] at hx
  rcases List.mem_append.mp hx with h1 | h1
  · rcases utter_mem_inputTraceV1 cfg t x h1 with h2 | h2
    · exact Or.inl h2
    · exact Or.inr (Or.inl h2)
  · cases hg : gateStop t.vin cfg.inRails t.user with
    | some w => rw [hg] at h1; simp at h1
    | none =>
      rw [hg] at h1
      rcases utter_mem_afterInputV1 cfg t _ x h1 with h2 | h2 | ⟨_, hso, hxe⟩
      · exact Or.inl h2
      · exact Or.inr (Or.inl h2)
      · exact Or.inr (Or.inr ⟨hso, hxe⟩)

theorem turnV1_reply (cfg : Cfg) (h : HistV1) (t : Turn) :
    ∃ raised, (turnV1 cfg h t).2.1 = replyV1 (turnV1 cfg h t).1 raised := by
  unfold turnV1
  rcases railsIn : (if cfg.inRails.isEmpty then (([] : List Step), Res.pass t.user, h.skip)
      else railsV1 cfg t.retrFault .input t.vin cfg.inRails t.user h.skip) with ⟨trIn, res, s1⟩
  cases res with
  | pass um =>
    simp only
    rcases genV1 cfg t s1 um with ⟨tr, e, s2⟩
    exact ⟨_, rfl⟩
  | blocked => exact ⟨false, rfl⟩
  | faulted => exact ⟨false, rfl⟩
  | escaped => exact ⟨true, rfl⟩

theorem replyV1_texts_nil_of_exc (tr : List Step) (raised : Bool) (hx : excs tr ≠ []) : (replyV1 tr raised).texts = [] := by
  unfold replyV1
  split
  · rfl
  · cases hl : (excs tr).getLast? with
    | none => simp [List.getLast?_eq_none_iff] at hl; exact absurd hl hx
    | some k => rfl

end NemoVerif.Pipeline

namespace NemoVerif.Pipeline

/-! ## Colang 1.0: what depends on the input rails only (no assumption on output rails or carried state) -/

theorem llm_not_mem_railsV1 (cfg : Cfg) (rf : Bool) (k : Kind) (v : Nat → Text → Verdict) (task : Task) (u : Text) :
    ∀ (rails : List Nat) (t : Text) (s : Bool), Step.llm task u ∉ (railsV1 cfg rf k v rails t s).1
  | [], t, s => by simp [railsV1]
  | r :: rs, t, s => by
    cases hv : v r t with
    | accept => simpa [railsV1, hv] using llm_not_mem_railsV1 cfg rf k v task u rs t s
    | rewrite t' => simpa [railsV1, hv] using llm_not_mem_railsV1 cfg rf k v task u rs t' s
    | fault => simp [railsV1, hv]
    | escape => simp [railsV1, hv]
    | reject =>
      by_cases he : cfg.exc = true
      · by_cases hs : cfg.stops k r = true
        · simp [railsV1, hv, he, hs]
        · have hs' : cfg.stops k r = false := by simpa using hs
          simpa [railsV1, hv, he, hs'] using llm_not_mem_railsV1 cfg rf k v task u rs t s
      · have he' : cfg.exc = false := by simpa using he
        cases rf <;> simp [railsV1, hv, he']

theorem llm_not_mem_processBotV1 (cfg : Cfg) (t : Turn) (skip : Bool) (text : Text) (task : Task) (u : Text) :
    Step.llm task u ∉ (processBotV1 cfg t skip text).1 := by
  unfold processBotV1
  cases skip
  · by_cases he : cfg.outRails.isEmpty = true
    · simp [he]
    · have he' : cfg.outRails.isEmpty = false := by simpa using he
      simp only [Bool.false_eq_true, if_false, he']
      have := llm_not_mem_railsV1 cfg t.retrFault .output t.vout task u cfg.outRails text false
      rcases hr : railsV1 cfg t.retrFault .output t.vout cfg.outRails text false with ⟨tr, res, s⟩
      rw [hr] at this
      simp only at this
      cases res <;> simp [this]
  · simp

/-- every dialog / generation LLM call of `genV1` is given `um` -/
theorem llm_genV1 (cfg : Cfg) (t : Turn) (skip : Bool) (um : Text) (task : Task) (u : Text)
    (hm : Step.llm task u ∈ (genV1 cfg t skip um).1) : u = um := by
  rw [genV1_nf] at hm
  by_cases hf : genFaultV1 cfg t = true
  · simp only [hf, if_true] at hm
    exact llm_genFaultStepsV1 cfg t um task u hm
  · have hf' : genFaultV1 cfg t = false := by simpa using hf
    simp only [hf', Bool.false_eq_true, if_false] at hm
    rcases List.mem_append.mp hm with h1 | h1
    · exact llm_genPrefixV1 cfg t um task u h1
    · exact absurd h1 (llm_not_mem_processBotV1 cfg t skip t.bot task u)

/-- A Colang 1.0 turn, with the input part in closed form — assuming only well-formed *input* rails. -/
theorem turnV1_input_nf (cfg : Cfg) (h : HistV1) (t : Turn) (hi : WF cfg .input) :
    turnV1 cfg h t =
      (match stopResV1 cfg t.retrFault (gateText t.vin cfg.inRails t.user) (gateStop t.vin cfg.inRails t.user) with
       | .pass um =>
         (inputTraceV1 cfg t ++ (genV1 cfg t (stopSkipV1 cfg t.retrFault h.skip (gateStop t.vin cfg.inRails t.user)) um).1,
          replyV1 (inputTraceV1 cfg t ++ (genV1 cfg t (stopSkipV1 cfg t.retrFault h.skip (gateStop t.vin cfg.inRails t.user)) um).1)
            ((genV1 cfg t (stopSkipV1 cfg t.retrFault h.skip (gateStop t.vin cfg.inRails t.user)) um).2.1 == .escaped),
          { skip := (genV1 cfg t (stopSkipV1 cfg t.retrFault h.skip (gateStop t.vin cfg.inRails t.user)) um).2.2,
            texts := if (genV1 cfg t (stopSkipV1 cfg t.retrFault h.skip (gateStop t.vin cfg.inRails t.user)) um).2.1 == .normal
              then h.texts ++ um :: utters (genV1 cfg t (stopSkipV1 cfg t.retrFault h.skip (gateStop t.vin cfg.inRails t.user)) um).1
              else h.texts })
       | .blocked =>
         (inputTraceV1 cfg t, replyV1 (inputTraceV1 cfg t) false,
          { skip := stopSkipV1 cfg t.retrFault h.skip (gateStop t.vin cfg.inRails t.user), texts := h.texts ++ utters (inputTraceV1 cfg t) })
       | .faulted =>
         (inputTraceV1 cfg t, replyV1 (inputTraceV1 cfg t) false,
          { skip := stopSkipV1 cfg t.retrFault h.skip (gateStop t.vin cfg.inRails t.user), texts := h.texts })
       | .escaped =>
         (inputTraceV1 cfg t, replyV1 (inputTraceV1 cfg t) true,
          { skip := stopSkipV1 cfg t.retrFault h.skip (gateStop t.vin cfg.inRails t.user), texts := h.texts })) := by
  unfold turnV1 inputTraceV1
  rw [inputPartV1_eq, railsV1_nf cfg t.retrFault .input t.vin hi]
  simp only
  cases stopResV1 cfg t.retrFault (gateText t.vin cfg.inRails t.user) (gateStop t.vin cfg.inRails t.user) <;> rfl

/-- if the input rails pass, the text they hand on is `gateText` -/
theorem stopResV1_pass (cfg : Cfg) (rf : Bool) (x um : Text) (w : Option Verdict) (h : stopResV1 cfg rf x w = .pass um) :
    w = none ∧ um = x := by
  cases w with
  | none => simp [stopResV1] at h; exact ⟨rfl, h.symm⟩
  | some v =>
    cases v <;> simp [stopResV1] at h
    split at h <;> (try split at h) <;> cases h

end NemoVerif.Pipeline
