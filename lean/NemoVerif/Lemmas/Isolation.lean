/-
  Helper lemmas for C15 (core Lean only).
    * injectivity of the length-prefixed key (`cacheKeyLP_injective`)
    * lookup in the shared cache vs. lookup among a conversation's own entries (`find_filter`)
    * the interleaving induction (`isolation_general`)
    * the save/set/restore stack invariant (`Params.nested_general`)
-/
import NemoVerif.Models.Isolation
set_option linter.unusedSectionVars false
namespace NemoVerif.Isolation


theorem digitChar_ne_sep : ∀ d : Fin 10, digitChar d.val ≠ ':' := by decide
theorem digitChar_inj : ∀ a b : Fin 10, digitChar a.val = digitChar b.val → a = b := by decide

theorem digits_ne_nil (n : Nat) : digits n ≠ [] := by
  rw [digits]; split <;> simp

theorem digits_no_sep (n : Nat) : ∀ c ∈ digits n, c ≠ ':' := by
  induction n using Nat.strongRecOn with
  | _ n ih =>
    rw [digits]
    split
    · rename_i h
      intro c hc
      simp at hc
      subst hc
      exact digitChar_ne_sep ⟨n, h⟩
    · rename_i h
      intro c hc
      simp at hc
      rcases hc with hc | hc
      · exact ih (n / 10) (by omega) c hc
      · subst hc
        exact digitChar_ne_sep ⟨n % 10, by omega⟩

theorem digits_inj : ∀ n m : Nat, digits n = digits m → n = m := by
  intro n
  induction n using Nat.strongRecOn with
  | _ n ih =>
    intro m h
    have en := digits.eq_1 n
    have em := digits.eq_1 m
    rw [en, em] at h
    split at h <;> split at h
    · rename_i h1 h2
      simp at h
      have := digitChar_inj ⟨n, h1⟩ ⟨m, h2⟩ h
      exact Fin.mk.inj this
    · rename_i h1 h2
      exfalso
      have hne := digits_ne_nil (m / 10)
      cases hd : digits (m / 10) with
      | nil => exact hne hd
      | cons x xs => rw [hd] at h; simp at h
    · rename_i h1 h2
      exfalso
      have hne := digits_ne_nil (n / 10)
      cases hd : digits (n / 10) with
      | nil => exact hne hd
      | cons x xs => rw [hd] at h; simp at h
    · rename_i h1 h2
      have h' := List.append_inj' h (by simp)
      obtain ⟨ha, hb⟩ := h'
      have e1 := ih (n / 10) (by omega) (m / 10) ha
      simp at hb
      have e2 := digitChar_inj ⟨n % 10, by omega⟩ ⟨m % 10, by omega⟩ hb
      have e2' : n % 10 = m % 10 := Fin.mk.inj e2
      omega

theorem split_at_sep : ∀ (xs ys X Y : List Char), (∀ c ∈ xs, c ≠ ':') → (∀ c ∈ ys, c ≠ ':') →
    xs ++ ':' :: X = ys ++ ':' :: Y → xs = ys ∧ X = Y := by
  intro xs
  induction xs with
  | nil =>
    intro ys X Y _ hy h
    cases ys with
    | nil => simp at h; exact ⟨rfl, h⟩
    | cons y ys =>
      simp at h
      exact absurd h.1.symm (hy y (by simp))
  | cons x xs ih =>
    intro ys X Y hx hy h
    cases ys with
    | nil =>
      simp at h
      exact absurd h.1 (hx x (by simp))
    | cons y ys =>
      simp at h
      obtain ⟨e, h⟩ := h
      have := ih ys X Y (fun c hc => hx c (by simp [hc])) (fun c hc => hy c (by simp [hc])) h
      exact ⟨by rw [e, this.1], this.2⟩

theorem lp_append_inj (s s' r r' : Str) (h : lp s ++ r = lp s' ++ r') : s = s' ∧ r = r' := by
  unfold lp at h
  simp only [List.append_assoc, List.cons_append] at h
  have := split_at_sep _ _ _ _ (digits_no_sep _) (digits_no_sep _) h
  have hl := digits_inj _ _ this.1
  exact List.append_inj this.2 hl

theorem lp_ne_nil (s : Str) : lp s ≠ [] := by
  unfold lp; simp

theorem cacheKeyLP_injective : ∀ a b : List Msg, cacheKeyLP a = cacheKeyLP b → a = b := by
  intro a
  induction a with
  | nil =>
    intro b h
    cases b with
    | nil => rfl
    | cons m r =>
      exfalso
      simp only [cacheKeyLP, encMsg] at h
      have := lp_ne_nil m.role
      cases hl : lp m.role with
      | nil => exact this hl
      | cons x xs => rw [hl] at h; simp at h
  | cons m r ih =>
    intro b h
    cases b with
    | nil =>
      exfalso
      simp only [cacheKeyLP, encMsg] at h
      have := lp_ne_nil m.role
      cases hl : lp m.role with
      | nil => exact this hl
      | cons x xs => rw [hl] at h; simp at h
    | cons m' r' =>
      simp only [cacheKeyLP, encMsg, List.append_assoc] at h
      obtain ⟨e1, h⟩ := lp_append_inj _ _ _ _ h
      obtain ⟨e2, h⟩ := lp_append_inj _ _ _ _ h
      have := ih r' h
      cases m; cases m'
      simp at e1 e2
      simp [e1, e2, this]


section
variable {K : Type} [DecidableEq K] {Ev : Type}

/-- tagged cache entries, newest first -/
abbrev TCache (K Ev : Type) := List (Nat × K × List Ev)
def untag (T : TCache K Ev) : Cache K Ev := T.map (·.2)
def ownT (c : Nat) (T : TCache K Ev) : TCache K Ev := T.filter (fun e => e.1 = c)

theorem find_own_of_all (c : Nat) (k : K) (v : List Ev) : ∀ T : TCache K Ev,
    (∃ e ∈ T, e.1 = c ∧ e.2.1 = k) →
    (∀ e ∈ T, e.1 = c → e.2.1 = k → e.2.2 = v) →
    find k (untag (ownT c T)) = some v := by
  intro T
  induction T with
  | nil => intro h; simp at h
  | cons e T ih =>
    intro hex hall
    obtain ⟨t, k', v'⟩ := e
    by_cases ht : t = c
    · by_cases hk : k' = k
      · have := hall (t, k', v') (by simp) ht hk
        simp [ownT, untag, ht, find, hk] at this ⊢
        exact this
      · have hex' : ∃ e ∈ T, e.1 = c ∧ e.2.1 = k := by
          obtain ⟨e, he, h1, h2⟩ := hex
          simp at he
          rcases he with he | he
          · subst he; exact absurd h2 hk
          · exact ⟨e, he, h1, h2⟩
        have := ih hex' (fun e he => hall e (by simp [he]))
        simp [ownT, untag, ht, find, hk] at this ⊢
        exact this
    · have hex' : ∃ e ∈ T, e.1 = c ∧ e.2.1 = k := by
        obtain ⟨e, he, h1, h2⟩ := hex
        simp at he
        rcases he with he | he
        · subst he; exact absurd h1 ht
        · exact ⟨e, he, h1, h2⟩
      have := ih hex' (fun e he => hall e (by simp [he]))
      simp [ownT, untag, ht] at this ⊢
      exact this

/-- looking a key up in the shared cache = looking it up among the own entries, provided every
    foreign entry under that key is backed by an own entry and all own entries agree with it -/
theorem find_filter (c : Nat) (k : K) : ∀ T : TCache K Ev,
    (∀ e ∈ T, e.1 ≠ c → e.2.1 = k →
      (∃ e0 ∈ T, e0.1 = c ∧ e0.2.1 = k) ∧ (∀ e0 ∈ T, e0.1 = c → e0.2.1 = k → e0.2.2 = e.2.2)) →
    find k (untag T) = find k (untag (ownT c T)) := by
  intro T
  induction T with
  | nil => intro _; rfl
  | cons e T ih =>
    intro h
    obtain ⟨t, k', v'⟩ := e
    by_cases hk : k' = k
    · by_cases ht : t = c
      · simp [ownT, untag, ht, find, hk]
      · obtain ⟨hex, hall⟩ := h (t, k', v') (by simp) ht hk
        have hex' : ∃ e ∈ T, e.1 = c ∧ e.2.1 = k := by
          obtain ⟨e, he, h1, h2⟩ := hex
          simp at he
          rcases he with he | he
          · subst he; exact absurd h1 ht
          · exact ⟨e, he, h1, h2⟩
        have := find_own_of_all c k v' T hex' (fun e he => hall e (by simp [he]))
        simp [ownT, untag, ht, find, hk] at this ⊢
        exact this.symm
    · have h' : ∀ e ∈ T, e.1 ≠ c → e.2.1 = k →
          (∃ e0 ∈ T, e0.1 = c ∧ e0.2.1 = k) ∧ (∀ e0 ∈ T, e0.1 = c → e0.2.1 = k → e0.2.2 = e.2.2) := by
        intro e he h1 h2
        obtain ⟨hex, hall⟩ := h e (by simp [he]) h1 h2
        refine ⟨?_, fun e0 he0 => hall e0 (by simp [he0])⟩
        obtain ⟨e0, he0, g1, g2⟩ := hex
        simp at he0
        rcases he0 with he0 | he0
        · subst he0; exact absurd g2 hk
        · exact ⟨e0, he0, g1, g2⟩
      have := ih h'
      by_cases ht : t = c
      · simp [ownT, untag, ht, find, hk] at this ⊢; exact this
      · simp [ownT, untag, ht, find, hk] at this ⊢; exact this

/-- `h` is `r[0:p]` for a `p` the lookup loop visits (`0 < p < len r`) -/
def ProperPrefix (h r : List Msg) : Prop := ∃ p, 0 < p ∧ p < r.length ∧ r.take p = h

/-- Families of isolated runs that the shared cache cannot confuse: whenever a history stored by
    another conversation `c'` is a proper prefix of a request of `c`, conversation `c` has itself
    stored that very history earlier, and with the same events. (Vacuous when no conversation's
    history is a proper prefix of another conversation's request.) -/
def Compatible (L : Nat → List (Nat × Step Ev)) : Prop :=
  ∀ c c', c' ≠ c → ∀ x' ∈ L c', ∀ pre x post, L c = pre ++ x :: post →
    ProperPrefix x'.2.hist x.2.req →
    (∃ x0 ∈ pre, x0.2.hist = x'.2.hist) ∧ (∀ x0 ∈ pre, x0.2.hist = x'.2.hist → x0.2.stored = x'.2.stored)

def tent (key : List Msg → K) (T : List (Nat × Step Ev)) : TCache K Ev :=
  (T.map fun x => (x.1, entry key x.2)).reverse

theorem untag_tent (key : List Msg → K) (T : List (Nat × Step Ev)) : untag (tent key T) = cacheOf key T := by
  simp [untag, tent, cacheOf, List.map_reverse]

theorem own_tent (key : List Msg → K) (c : Nat) (T : List (Nat × Step Ev)) :
    ownT c (tent key T) = tent key (ofConv c T) := by
  simp [ownT, tent, ofConv, List.filter_reverse, List.filter_map, Function.comp_def]

theorem mem_tent (key : List Msg → K) (T : List (Nat × Step Ev)) (e : Nat × K × List Ev) :
    e ∈ tent key T ↔ ∃ x ∈ T, e = (x.1, key x.2.hist, x.2.stored) := by
  simp [tent, entry]
  constructor
  · rintro ⟨a, b, h, rfl⟩; exact ⟨a, b, h, rfl⟩
  · rintro ⟨a, b, h, rfl⟩; exact ⟨a, b, h, rfl⟩

theorem cacheOf_snoc (key : List Msg → K) (T : List (Nat × Step Ev)) (x : Nat × Step Ev) :
    cacheOf key (T ++ [x]) = entry key x.2 :: cacheOf key T := by
  simp [cacheOf]

theorem lookupLongest_congr (key : List Msg → K) (C C' : Cache K Ev) (msgs : List Msg) :
    ∀ n, (∀ p, 0 < p → p ≤ n → find (key (msgs.take p)) C = find (key (msgs.take p)) C') →
      lookupLongest key C msgs n = lookupLongest key C' msgs n := by
  intro n
  induction n with
  | zero => intro _; rfl
  | succ n ih =>
    intro h
    simp only [lookupLongest]
    rw [h (n + 1) (by omega) (by omega)]
    rw [ih (fun p h1 h2 => h p h1 (by omega))]

theorem serveStep_congr (key : List Msg → K) (conv : List Msg → List Ev) (turn : List Ev → Msg × List Ev)
    (C C' : Cache K Ev) (msgs : List Msg)
    (h : ∀ p, 0 < p → p < msgs.length → find (key (msgs.take p)) C = find (key (msgs.take p)) C') :
    serveStep key conv turn C msgs = serveStep key conv turn C' msgs := by
  have : lookupLongest key C msgs (msgs.length - 1) = lookupLongest key C' msgs (msgs.length - 1) :=
    lookupLongest_congr key C C' msgs _ (fun p h1 h2 => h p h1 (by omega))
  simp only [serveStep, eventsFor, this]

/-- the key function does not confuse a stored history with a different looked-up prefix -/
def InjOn (key : List Msg → K) (L : Nat → List (Nat × Step Ev)) : Prop :=
  ∀ c x, x ∈ L c → ∀ c' x', x' ∈ L c' → ∀ p, 0 < p → p < x.2.req.length →
    key x'.2.hist = key (x.2.req.take p) → x'.2.hist = x.2.req.take p

theorem isolation_general (key : List Msg → K)
    (conv : List Msg → List Ev) (turn : List Ev → Msg × List Ev)
    (L : Nat → List (Nat × Step Ev)) (hinj : InjOn key L) (hL : Compatible L) :
    ∀ (s : List (Nat × List Msg)) (D : List (Nat × Step Ev)),
      (∀ c, L c = ofConv c D ++ runT key conv turn (cacheOf key (ofConv c D)) (ofConv c s)) →
      ∀ c, ofConv c (runT key conv turn (cacheOf key D) s)
            = runT key conv turn (cacheOf key (ofConv c D)) (ofConv c s) := by
  intro s
  induction s with
  | nil => intro D _ c; simp [runT, ofConv]
  | cons cr s ih =>
    intro D hD c
    obtain ⟨c0, r⟩ := cr
    -- the step taken on the shared instance equals the step of the isolated run
    have hst : serveStep key conv turn (cacheOf key D) r
        = serveStep key conv turn (cacheOf key (ofConv c0 D)) r := by
      apply serveStep_congr
      intro p hp0 hp1
      rw [← untag_tent key D, ← untag_tent key (ofConv c0 D), ← own_tent]
      apply find_filter
      intro e he hne hk
      obtain ⟨x', hx', rfl⟩ := (mem_tent key D e).1 he
      simp only at hne hk
      have hx'L : x' ∈ L x'.1 := by
        rw [hD x'.1]
        apply List.mem_append_left
        simp [ofConv, hx']
      have hdec := hD c0
      simp only [ofConv, List.filter_cons_of_pos, decide_true, runT] at hdec
      have hxin : (c0, serveStep key conv turn (cacheOf key (List.filter (fun x => decide (x.1 = c0)) D)) r) ∈ L c0 := by
        rw [hdec]; simp
      have hh : x'.2.hist = r.take p := hinj c0 _ hxin x'.1 x' hx'L p hp0 hp1 hk
      have hc := hL c0 x'.1 hne x' hx'L _ _ _ hdec ⟨p, hp0, hp1, hh.symm⟩
      constructor
      · obtain ⟨x0, hx0, hx0h⟩ := hc.1
        refine ⟨(x0.1, key x0.2.hist, x0.2.stored), ?_, ?_, ?_⟩
        · exact (mem_tent key D _).2 ⟨x0, (List.mem_filter.1 hx0).1, rfl⟩
        · have := (List.mem_filter.1 hx0).2; simpa using this
        · simp only; rw [hx0h, hh]
      · intro e0 he0 h1 h2
        obtain ⟨x0, hx0, rfl⟩ := (mem_tent key D e0).1 he0
        simp only at h1 h2 ⊢
        have hx0' : x0 ∈ List.filter (fun x => decide (x.1 = c0)) D := by
          simp [List.mem_filter, hx0, h1]
        have hx0L : x0 ∈ L x0.1 := by
          rw [hD x0.1]
          apply List.mem_append_left
          simp [ofConv, hx0]
        have : x0.2.hist = x'.2.hist := by rw [hh]; exact hinj c0 _ hxin x0.1 x0 hx0L p hp0 hp1 h2
        exact hc.2 x0 hx0' this
    -- re-establish the decomposition for D ++ [(c0, st)]
    have hD' : ∀ c, L c = ofConv c (D ++ [(c0, serveStep key conv turn (cacheOf key D) r)])
        ++ runT key conv turn (cacheOf key (ofConv c (D ++ [(c0, serveStep key conv turn (cacheOf key D) r)]))) (ofConv c s) := by
      intro c1
      have h1 := hD c1
      by_cases hc : c0 = c1
      · subst hc
        simp only [ofConv, List.filter_append, List.filter_cons_of_pos, decide_true, List.filter_nil, runT] at h1 ⊢
        have hst' := hst
        simp only [ofConv] at hst'
        rw [h1, hst']
        have := cacheOf_snoc key (List.filter (fun x => decide (x.1 = c0)) D) (c0, serveStep key conv turn (cacheOf key (List.filter (fun x => decide (x.1 = c0)) D)) r)
        simp only at this
        rw [this]
        simp
      · have hf : ofConv c1 ((c0, r) :: s) = ofConv c1 s := by simp [ofConv, hc]
        have hg : ofConv c1 (D ++ [(c0, serveStep key conv turn (cacheOf key D) r)]) = ofConv c1 D := by
          simp [ofConv, List.filter_append, hc]
        rw [hg, h1, hf]
    have hih := ih (D ++ [(c0, serveStep key conv turn (cacheOf key D) r)]) hD' c
    rw [cacheOf_snoc] at hih
    simp only at hih
    by_cases hc : c0 = c
    · subst hc
      simp only [runT, ofConv, List.filter_cons_of_pos, decide_true] at hih ⊢
      rw [hih]
      simp only [List.filter_append, List.filter_cons_of_pos, decide_true, List.filter_nil]
      have hst' := hst
      simp only [ofConv] at hst'
      rw [hst']
      have := cacheOf_snoc key (List.filter (fun x => decide (x.1 = c0)) D) (c0, serveStep key conv turn (cacheOf key (List.filter (fun x => decide (x.1 = c0)) D)) r)
      simp only at this
      rw [this]
    · have hf : ofConv c ((c0, r) :: s) = ofConv c s := by simp [ofConv, hc]
      have hg : ofConv c (D ++ [(c0, serveStep key conv turn (cacheOf key D) r)]) = ofConv c D := by
        simp [ofConv, List.filter_append, hc]
      rw [hg] at hih
      rw [hf, ← hih]
      simp [runT, ofConv, hc]

end

/-! ### turn-by-turn conversations are `Compatible` -/

section
variable {K : Type} [DecidableEq K] {Ev : Type}

/-- `lookupLongest` returns the LONGEST cached proper prefix not longer than `n` (or `(0, [])`) -/
theorem lookupLongest_spec (key : List Msg → K) (C : Cache K Ev) (msgs : List Msg) : ∀ n,
    let r := lookupLongest key C msgs n
    r.1 ≤ n ∧
    (r.1 = 0 → r.2 = []) ∧
    (0 < r.1 → find (key (msgs.take r.1)) C = some r.2) ∧
    (∀ q, r.1 < q → q ≤ n → find (key (msgs.take q)) C = none) := by
  intro n
  induction n with
  | zero =>
    simp only [lookupLongest]
    exact ⟨Nat.le_refl _, fun _ => trivial, fun h => absurd h (by omega), fun q h1 h2 => by omega⟩
  | succ n ih =>
    simp only [lookupLongest]
    cases hf : find (key (msgs.take (n + 1))) C with
    | some ev =>
      simp only
      exact ⟨Nat.le_refl _, fun h => by omega, fun _ => hf, fun q h1 h2 => by omega⟩
    | none =>
      simp only
      obtain ⟨i1, i2, i3, i4⟩ := ih
      refine ⟨by omega, i2, i3, ?_⟩
      intro q h1 h2
      by_cases hq : q = n + 1
      · subst hq; exact hf
      · exact i4 q h1 (by omega)

/-- steps of a sequential run without conversation tags -/
def runS (key : List Msg → K) (conv : List Msg → List Ev) (turn : List Ev → Msg × List Ev) :
    Cache K Ev → List (List Msg) → List (Step Ev)
  | _, [] => []
  | C, r :: rs =>
    let st := serveStep key conv turn C r
    st :: runS key conv turn (entry key st :: C) rs

theorem runT_steps (key : List Msg → K) (conv : List Msg → List Ev) (turn : List Ev → Msg × List Ev) :
    ∀ (s : List (Nat × List Msg)) (C : Cache K Ev),
      (runT key conv turn C s).map (·.2) = runS key conv turn C (s.map (·.2)) := by
  intro s
  induction s with
  | nil => intro C; rfl
  | cons x s ih => intro C; obtain ⟨c, r⟩ := x; simp [runT, runS, ih]

theorem runS_reqs (key : List Msg → K) (conv : List Msg → List Ev) (turn : List Ev → Msg × List Ev) :
    ∀ (R : List (List Msg)) (C : Cache K Ev), (runS key conv turn C R).map (·.req) = R := by
  intro R
  induction R with
  | nil => intro C; rfl
  | cons r R ih => intro C; simp [runS, ih, serveStep]

theorem runS_take (key : List Msg → K) (conv : List Msg → List Ev) (turn : List Ev → Msg × List Ev) :
    ∀ (R : List (List Msg)) (C : Cache K Ev) (n : Nat),
      (runS key conv turn C R).take n = runS key conv turn C (R.take n) := by
  intro R
  induction R with
  | nil => intro C n; simp [runS]
  | cons r R ih =>
    intro C n
    cases n with
    | zero => simp [runS]
    | succ n => simp [runS, ih]

/-- turn-by-turn conversation: every request is the previous request + the previous reply + one new message
    (`h` = the history before the first step; `[]` for a whole conversation) -/
def ChainedFrom : List Msg → List (Step Ev) → Prop
  | _, [] => True
  | h, x :: r => (∃ m, x.req = h ++ [m]) ∧ ChainedFrom x.hist r

theorem chained_req_length : ∀ (pre : List (Step Ev)) (h : List Msg) (x : Step Ev) (post : List (Step Ev)),
    ChainedFrom h (pre ++ x :: post) → x.req.length = h.length + 2 * pre.length + 1 := by
  intro pre
  induction pre with
  | nil =>
    intro h x post hc
    obtain ⟨⟨m, hm⟩, _⟩ := hc
    simp [hm]
  | cons y pre ih =>
    intro h x post hc
    obtain ⟨⟨m, hm⟩, hc'⟩ := hc
    have := ih y.hist x post hc'
    simp [Step.hist, hm] at this
    simp
    omega

theorem chained_prefix : ∀ (pre : List (Step Ev)) (h : List Msg) (x : Step Ev) (post : List (Step Ev)),
    ChainedFrom h (pre ++ x :: post) → h <+: x.req ∧ ∀ x0 ∈ pre, x0.hist <+: x.req := by
  intro pre
  induction pre with
  | nil =>
    intro h x post hc
    obtain ⟨⟨m, hm⟩, _⟩ := hc
    exact ⟨⟨[m], hm.symm⟩, fun _ h0 => by simp at h0⟩
  | cons y pre ih =>
    intro h x post hc
    obtain ⟨⟨m, hm⟩, hc'⟩ := hc
    obtain ⟨i1, i2⟩ := ih y.hist x post hc'
    have hy : h <+: y.hist := ⟨[m, y.reply], by simp [Step.hist, hm]⟩
    refine ⟨hy.trans i1, ?_⟩
    intro x0 hx0
    simp only [List.mem_cons] at hx0
    rcases hx0 with rfl | hx0
    · exact i1
    · exact i2 x0 hx0

/-- the requests before `x` in a chained run are determined by `x.req` -/
def prefixes : Nat → Nat → List Msg → List (List Msg)
  | _, 0, _ => []
  | n0, cnt + 1, r => r.take (n0 + 1) :: prefixes (n0 + 2) cnt r

theorem chained_reqs : ∀ (pre : List (Step Ev)) (h : List Msg) (x : Step Ev) (post : List (Step Ev)),
    ChainedFrom h (pre ++ x :: post) → pre.map (·.req) = prefixes h.length pre.length x.req := by
  intro pre
  induction pre with
  | nil => intro h x post _; rfl
  | cons y pre ih =>
    intro h x post hc
    have hp := (chained_prefix (y :: pre) h x post hc).2 y (by simp)
    obtain ⟨⟨m, hm⟩, hc'⟩ := hc
    have i := ih y.hist x post hc'
    have hyr : y.req <+: x.req := List.IsPrefix.trans (show y.req <+: y.hist from ⟨[y.reply], rfl⟩) hp
    have e1 : y.req = x.req.take (h.length + 1) := by
      have := List.prefix_iff_eq_take.1 hyr
      rw [this]; simp [hm]
    have e2 : y.hist.length = h.length + 2 := by simp [Step.hist, hm]
    simp only [List.map_cons, List.length_cons, prefixes]
    rw [i, e2, ← e1]

theorem chained_find : ∀ (pre : List (Step Ev)) (h : List Msg) (x : Step Ev) (post : List (Step Ev)) (a : Nat),
    ChainedFrom h (pre ++ x :: post) → a < pre.length →
    ∃ p1 x0 p2, pre = p1 ++ x0 :: p2 ∧ p1.length = a := by
  intro pre h x post a _ ha
  refine ⟨pre.take a, pre[a], pre.drop (a + 1), ?_, ?_⟩
  · simp
  · simp; omega

theorem chained_sub : ∀ (p1 : List (Step Ev)) (h : List Msg) (rest : List (Step Ev)),
    ChainedFrom h (p1 ++ rest) → ∃ h', ChainedFrom h' rest := by
  intro p1
  induction p1 with
  | nil => intro h rest hc; exact ⟨h, hc⟩
  | cons y p1 ih => intro h rest hc; exact ih y.hist rest hc.2

/-- a chained isolated run is determined, up to and including a step, by that step's history -/
theorem chained_determined (key : List Msg → K) (conv : List Msg → List Ev) (turn : List Ev → Msg × List Ev)
    (R R' : List (List Msg)) (pre pre' : List (Step Ev)) (x x' : Step Ev) (post post' : List (Step Ev))
    (hS : runS key conv turn [] R = pre ++ x :: post) (hS' : runS key conv turn [] R' = pre' ++ x' :: post')
    (hc : ChainedFrom [] (pre ++ x :: post)) (hc' : ChainedFrom [] (pre' ++ x' :: post'))
    (hh : x.hist = x'.hist) : x = x' := by
  have hreq : x.req = x'.req ∧ x.reply = x'.reply := by
    have := hh
    simp only [Step.hist] at this
    have hl : x.req.length = x'.req.length := by
      have := congrArg List.length this
      simp at this; exact this
    have := List.append_inj this hl
    exact ⟨this.1, by simpa using this.2⟩
  have l1 := chained_req_length pre [] x post hc
  have l2 := chained_req_length pre' [] x' post' hc'
  have hlen : pre.length = pre'.length := by
    have := congrArg List.length hreq.1
    simp at l1 l2
    omega
  have q1 := chained_reqs pre [] x post hc
  have q2 := chained_reqs pre' [] x' post' hc'
  -- the request lists agree up to this step
  have r1 := runS_reqs key conv turn R []
  have r2 := runS_reqs key conv turn R' []
  rw [hS] at r1
  rw [hS'] at r2
  have tk : ∀ (p q : List (Step Ev)) (y : Step Ev), (p ++ y :: q).take (p.length + 1) = p ++ [y] := by
    intro p q y
    rw [List.take_append]
    simp
    exact List.take_of_length_le (by omega)
  have t1 : (pre ++ x :: post).take (pre.length + 1) = pre ++ [x] := tk _ _ _
  have t2 : (pre' ++ x' :: post').take (pre.length + 1) = pre' ++ [x'] := by
    rw [hlen]; exact tk _ _ _
  have hR1 : R.take (pre.length + 1) = prefixes 0 pre.length x.req ++ [x.req] := by
    rw [← r1, ← List.map_take, t1]; simp [q1]
  have hR2 : R'.take (pre.length + 1) = prefixes 0 pre.length x.req ++ [x.req] := by
    rw [← r2, ← List.map_take, t2]; simp [q2, hlen, hreq.1]
  have k1 := runS_take key conv turn R [] (pre.length + 1)
  have k2 := runS_take key conv turn R' [] (pre.length + 1)
  rw [hS, t1, hR1] at k1
  rw [hS', t2, hR2] at k2
  have := k1.trans k2.symm
  have := List.append_inj' this (by simp)
  simpa using this.2

/-- every conversation of the schedule is turn-by-turn in its isolated replay -/
def TurnByTurn (L : Nat → List (Nat × Step Ev)) : Prop := ∀ c, ChainedFrom [] ((L c).map (·.2))

theorem compatible_of_turn_by_turn (key : List Msg → K) (conv : List Msg → List Ev) (turn : List Ev → Msg × List Ev)
    (s : List (Nat × List Msg))
    (htt : TurnByTurn (fun c => runT key conv turn [] (ofConv c s))) :
    Compatible (fun c => runT key conv turn [] (ofConv c s)) := by
  intro c c' _ x' hx' pre x post hdec hp
  obtain ⟨pre', post', hdec'⟩ := List.append_of_mem hx'
  simp only at hdec hdec'
  have hc := htt c
  have hc' := htt c'
  simp only [hdec, hdec', List.map_append, List.map_cons] at hc hc'
  have l1 := chained_req_length _ [] _ _ hc
  have l2 := chained_req_length _ [] _ _ hc'
  simp only [List.length_map, List.length_nil, Nat.zero_add] at l1 l2
  obtain ⟨p, hp0, hp1, hp2⟩ := hp
  have hlp : x'.2.hist.length = p := by rw [← hp2]; simp; omega
  have hhl : x'.2.hist.length = 2 * pre'.length + 2 := by simp [Step.hist, l2]
  have ha : pre'.length < pre.length := by omega
  -- own step with the same index
  have hsplit : pre = pre.take pre'.length ++ pre[pre'.length] :: pre.drop (pre'.length + 1) := by simp
  have hx0 : ∀ y ∈ pre, y.2.hist.length = x'.2.hist.length → y.2.hist = x'.2.hist := by
    intro y hy hl
    have hpre := (chained_prefix _ [] _ _ hc).2 y.2 (List.mem_map_of_mem hy)
    have e1 := List.prefix_iff_eq_take.1 hpre
    rw [e1, hl, hlp, hp2]
  constructor
  · refine ⟨pre[pre'.length], List.getElem_mem _, ?_⟩
    apply hx0 _ (List.getElem_mem _)
    have hc2 := hc
    rw [hsplit] at hc2
    simp only [List.map_append, List.map_cons, List.append_assoc, List.cons_append] at hc2
    have := chained_req_length _ [] _ _ hc2
    simp only [List.length_map, List.length_take, List.length_nil, Nat.zero_add] at this
    rw [hhl]
    simp [Step.hist, this]
    omega
  · intro y hy hyh
    obtain ⟨r1, r2, hr⟩ := List.append_of_mem hy
    have hS := runT_steps key conv turn (ofConv c s) []
    have hS' := runT_steps key conv turn (ofConv c' s) []
    rw [hdec, hr] at hS
    rw [hdec'] at hS'
    simp only [List.map_append, List.map_cons, List.append_assoc, List.cons_append] at hS hS'
    have hcy := hc
    rw [hr] at hcy
    simp only [List.map_append, List.map_cons, List.append_assoc, List.cons_append] at hcy
    have := chained_determined key conv turn _ _ _ _ _ _ _ _ hS.symm hS'.symm hcy hc' hyh
    rw [this]

end

/-! ### the safe region of the key of the current source -/

/-- alternating user / assistant messages whose texts do not contain the separator (`b` = a user message is expected next) -/
def altFrom : Bool → List Msg → Prop
  | _, [] => True
  | b, m :: r => m.role = (if b then rUser else rAssistant) ∧ (∀ ch ∈ m.text, ch ≠ ':') ∧ altFrom (!b) r

theorem altFrom_keyed : ∀ (l : List Msg) (b : Bool), altFrom b l → l.filter keyed = l := by
  intro l
  induction l with
  | nil => intro _ _; rfl
  | cons m r ih =>
    intro b h
    obtain ⟨h1, _, h3⟩ := h
    have hk : keyed m = true := by
      cases b <;> simp [keyed, h1, rUser, rAssistant]
    simp [List.filter, hk, ih _ h3]

theorem joinSep_inj : ∀ (xs ys : List Str), xs ≠ [] → ys ≠ [] →
    (∀ x ∈ xs, ∀ ch ∈ x, ch ≠ ':') → (∀ y ∈ ys, ∀ ch ∈ y, ch ≠ ':') → joinSep xs = joinSep ys → xs = ys := by
  intro xs
  induction xs with
  | nil => intro ys h; exact absurd rfl h
  | cons x xr ih =>
    intro ys _ hy hcx hcy h
    cases ys with
    | nil => exact absurd rfl hy
    | cons y yr =>
      cases xr with
      | nil =>
        cases yr with
        | nil => simp [joinSep] at h; rw [h]
        | cons y' yr' =>
          exfalso
          simp only [joinSep] at h
          have : ':' ∈ x := by rw [h]; simp
          exact hcx x (by simp) ':' this rfl
      | cons x' xr' =>
        cases yr with
        | nil =>
          exfalso
          simp only [joinSep] at h
          have : ':' ∈ y := by rw [← h]; simp
          exact hcy y (by simp) ':' this rfl
        | cons y' yr' =>
          simp only [joinSep] at h
          obtain ⟨e1, e2⟩ := split_at_sep x y _ _ (hcx x (by simp)) (hcy y (by simp)) h
          have := ih (y' :: yr') (by simp) (by simp) (fun z hz => hcx z (by simp [hz])) (fun z hz => hcy z (by simp [hz])) e2
          rw [e1, this]

theorem altFrom_texts : ∀ (a c : List Msg) (b : Bool), altFrom b a → altFrom b c →
    a.map (·.text) = c.map (·.text) → a = c := by
  intro a
  induction a with
  | nil => intro c b _ _ h; cases c with
    | nil => rfl
    | cons _ _ => simp at h
  | cons m r ih =>
    intro c b ha hc h
    cases c with
    | nil => simp at h
    | cons m' r' =>
      simp only [List.map_cons, List.cons.injEq] at h
      obtain ⟨a1, _, a3⟩ := ha
      obtain ⟨c1, _, c3⟩ := hc
      have := ih r' (!b) a3 c3 h.2
      cases m; cases m'
      simp at a1 c1 h
      simp [a1, c1, h.1, this]

theorem altFrom_colon_free : ∀ (l : List Msg) (b : Bool), altFrom b l → ∀ x ∈ l.map (·.text), ∀ ch ∈ x, ch ≠ ':' := by
  intro l
  induction l with
  | nil => intro _ _ x hx; simp at hx
  | cons m r ih =>
    intro b h x hx
    simp only [List.map_cons, List.mem_cons] at hx
    rcases hx with rfl | hx
    · exact h.2.1
    · exact ih _ h.2.2 x hx

/-- On non-empty, strictly alternating, separator-free histories the key of the current source IS injective. -/
theorem cacheKeyAsIs_inj_clean (a c : List Msg) (ha : altFrom true a) (hc : altFrom true c)
    (hna : a ≠ []) (hnc : c ≠ []) (h : cacheKeyAsIs a = cacheKeyAsIs c) : a = c := by
  simp only [cacheKeyAsIs, altFrom_keyed a true ha, altFrom_keyed c true hc] at h
  apply altFrom_texts a c true ha hc
  exact joinSep_inj _ _ (by simpa using hna) (by simpa using hnc)
    (altFrom_colon_free a true ha) (altFrom_colon_free c true hc) h

theorem altFrom_take : ∀ (l : List Msg) (b : Bool) (n : Nat), altFrom b l → altFrom b (l.take n) := by
  intro l
  induction l with
  | nil => intro b n _; simp [altFrom]
  | cons m r ih =>
    intro b n h
    cases n with
    | zero => simp [altFrom]
    | succ n => exact ⟨h.1, h.2.1, ih _ n h.2.2⟩

section
variable {Ev : Type}

/-- every history of every isolated replay alternates user / assistant (starting with the user) and no
    text contains ':' -/
def CleanRun (L : Nat → List (Nat × Step Ev)) : Prop := ∀ c, ∀ x ∈ L c, altFrom true x.2.hist

theorem injOn_of_clean (L : Nat → List (Nat × Step Ev)) (h : CleanRun L) : InjOn cacheKeyAsIs L := by
  intro c x hx c' x' hx' p hp0 hp1 hk
  have h1 := h c' x' hx'
  have h2 : altFrom true (x.2.req.take p) := by
    have := altFrom_take x.2.hist true x.2.req.length (h c x hx)
    simp only [Step.hist, List.take_left'] at this
    exact altFrom_take _ _ p this
  apply cacheKeyAsIs_inj_clean _ _ h1 h2
  · simp [Step.hist]
  · intro e
    rcases List.take_eq_nil_iff.1 e with h0 | h0
    · omega
    · rw [h0] at hp1; simp at hp1
  · exact hk

end

namespace Params

section
variable {V : Type}

theorem setAll_congr (kvs : List (Nat × V)) : ∀ (σ σ' : Nat → V), (∀ n, σ n = σ' n) → ∀ n, setAll σ kvs n = setAll σ' kvs n := by
  induction kvs with
  | nil => intro σ σ' h n; exact h n
  | cons p r ih =>
    intro σ σ' h n
    simp only [setAll, List.foldl_cons]
    apply ih
    intro m
    simp [upd, h m]

theorem setAll_not_mem (kvs : List (Nat × V)) : ∀ (σ : Nat → V) (n : Nat), n ∉ kvs.map (·.1) → setAll σ kvs n = σ n := by
  induction kvs with
  | nil => intro σ n _; rfl
  | cons p r ih =>
    intro σ n h
    simp only [List.map_cons, List.mem_cons, not_or] at h
    simp only [setAll, List.foldl_cons]
    have := ih (upd σ p.1 p.2) n h.2
    simp only [setAll] at this
    rw [this]
    simp [upd, h.1]

theorem setAll_const (n : Nat) (v : V) (kvs : List (Nat × V)) : ∀ (σ : Nat → V),
    (∀ p ∈ kvs, p.1 = n → p.2 = v) → (∃ p ∈ kvs, p.1 = n) → setAll σ kvs n = v := by
  induction kvs with
  | nil => intro σ _ h; simp at h
  | cons p r ih =>
    intro σ hall hex
    simp only [setAll, List.foldl_cons]
    by_cases hr : ∃ q ∈ r, q.1 = n
    · have := ih (upd σ p.1 p.2) (fun q hq => hall q (by simp [hq])) hr
      simpa [setAll] using this
    · have hn : n ∉ r.map (·.1) := by
        intro hm
        simp only [List.mem_map] at hm
        obtain ⟨q, hq, e⟩ := hm
        exact hr ⟨q, hq, e⟩
      have := setAll_not_mem r (upd σ p.1 p.2) n hn
      simp only [setAll] at this
      rw [this]
      obtain ⟨q, hq, e⟩ := hex
      simp only [List.mem_cons] at hq
      rcases hq with hq | hq
      · subst hq
        have := hall q (by simp) e
        simp [upd, e, this]
      · exact absurd ⟨q, hq, e⟩ hr

theorem nodup_functional (kvs : List (Nat × V)) (h : (kvs.map (·.1)).Nodup) :
    ∀ p ∈ kvs, ∀ q ∈ kvs, p.1 = q.1 → p = q := by
  induction kvs with
  | nil => intro p hp; simp at hp
  | cons a r ih =>
    simp only [List.map_cons, List.nodup_cons] at h
    intro p hp q hq e
    simp only [List.mem_cons] at hp hq
    rcases hp with hp | hp <;> rcases hq with hq | hq
    · rw [hp, hq]
    · exfalso; apply h.1; subst hp; rw [e]; exact List.mem_map_of_mem hq
    · exfalso; apply h.1; subst hq; rw [← e]; exact List.mem_map_of_mem hp
    · exact ih h.2 p hp q hq e

theorem setAll_own (kvs : List (Nat × V)) (h : (kvs.map (·.1)).Nodup) (σ : Nat → V) :
    ∀ p ∈ kvs, setAll σ kvs p.1 = p.2 := by
  intro p hp
  apply setAll_const
  · intro q hq e
    have := nodup_functional kvs h q hq p hp e
    rw [this]
  · exact ⟨p, hp, rfl⟩

theorem enterA_spec (alt : List (Nat × V)) : ∀ (σ : Nat → V) (o : List (Nat × V)), (alt.map (·.1)).Nodup →
    (alt.foldl (fun acc p => (upd acc.1 p.1 p.2, acc.2 ++ [(p.1, acc.1 p.1)])) (σ, o)).1 = setAll σ alt ∧
    (alt.foldl (fun acc p => (upd acc.1 p.1 p.2, acc.2 ++ [(p.1, acc.1 p.1)])) (σ, o)).2 = o ++ alt.map (fun p => (p.1, σ p.1)) := by
  induction alt with
  | nil => intro σ o _; simp [setAll]
  | cons p r ih =>
    intro σ o h
    simp only [List.map_cons, List.nodup_cons] at h
    simp only [List.foldl_cons]
    obtain ⟨i1, i2⟩ := ih (upd σ p.1 p.2) (o ++ [(p.1, σ p.1)]) h.2
    refine ⟨?_, ?_⟩
    · rw [i1]; simp [setAll]
    · rw [i2]
      simp only [List.map_cons, List.append_assoc, List.cons_append, List.nil_append]
      congr 2
      apply List.map_congr_left
      intro q hq
      have : q.1 ≠ p.1 := by
        intro e; apply h.1; rw [← e]; exact List.mem_map_of_mem hq
      simp [upd, this]

/-- the store obtained by stacking the sections of `stk` (innermost first) on the configured store -/
def layered (tasks : Nat → List (Nat × V)) (σ0 : Nat → V) : List Nat → (Nat → V)
  | [] => σ0
  | t :: stk => setAll (layered tasks σ0 stk) (tasks t)

def framesOK (tasks : Nat → List (Nat × V)) (σ0 : Nat → V) (saved : Nat → List (Nat × V)) : List Nat → Prop
  | [] => True
  | t :: stk => saved t = (tasks t).map (fun p => (p.1, layered tasks σ0 stk p.1)) ∧ framesOK tasks σ0 saved stk

theorem framesOK_upd (tasks : Nat → List (Nat × V)) (σ0 : Nat → V) (saved : Nat → List (Nat × V)) (t : Nat) (x : List (Nat × V)) :
    ∀ stk, t ∉ stk → framesOK tasks σ0 saved stk → framesOK tasks σ0 (upd saved t x) stk := by
  intro stk
  induction stk with
  | nil => intro _ _; trivial
  | cons a r ih =>
    intro hn h
    simp only [List.mem_cons, not_or] at hn
    refine ⟨?_, ih hn.2 h.2⟩
    have : a ≠ t := fun e => hn.1 e.symm
    simp [upd, this, h.1]

theorem restore_layer (alt : List (Nat × V)) (below : Nat → V) (σ : Nat → V) (hσ : ∀ n, σ n = setAll below alt n) :
    ∀ n, setAll σ (alt.map (fun p => (p.1, below p.1))) n = below n := by
  intro n
  by_cases hm : ∃ p ∈ alt, p.1 = n
  · apply setAll_const
    · intro q hq e
      simp only [List.mem_map] at hq
      obtain ⟨p, _, rfl⟩ := hq
      simp only at e ⊢
      rw [e]
    · obtain ⟨p, hp, e⟩ := hm
      exact ⟨(p.1, below p.1), List.mem_map_of_mem hp, e⟩
  · have h1 : n ∉ (alt.map (fun p => (p.1, below p.1))).map (·.1) := by
      intro h
      simp only [List.map_map, List.mem_map, Function.comp] at h
      obtain ⟨p, hp, e⟩ := h
      exact hm ⟨p, hp, e⟩
    rw [setAll_not_mem _ _ _ h1, hσ n]
    apply setAll_not_mem
    intro h
    simp only [List.mem_map] at h
    obtain ⟨p, hp, e⟩ := h
    exact hm ⟨p, hp, e⟩

theorem nested_general (tasks : Nat → List (Nat × V)) (hnd : ∀ t, ((tasks t).map (·.1)).Nodup) (σ0 : Nat → V) :
    ∀ (sched : List (Nat × Act)) (stk : List Nat) (st : Sys V),
      (∀ n, st.store n = layered tasks σ0 stk n) → framesOK tasks σ0 st.saved stk →
      (∀ c ∈ st.calls, c.2 = tasks c.1) → nestedOK stk sched = true →
      (∀ n, (runSched tasks st sched).store n = σ0 n) ∧ (∀ c ∈ (runSched tasks st sched).calls, c.2 = tasks c.1) := by
  intro sched
  induction sched with
  | nil =>
    intro stk st hs _ hc hn
    cases stk with
    | nil => exact ⟨hs, hc⟩
    | cons a r => simp [nestedOK] at hn
  | cons ta sched ih =>
    intro stk st hs hf hc hn
    obtain ⟨t, a⟩ := ta
    simp only [runSched, List.foldl_cons]
    cases a with
    | enter =>
      simp only [nestedOK, Bool.and_eq_true, Bool.not_eq_true', List.contains_eq_mem, decide_eq_false_iff_not] at hn
      obtain ⟨e1, e2⟩ := enterA_spec (tasks t) st.store [] (hnd t)
      apply ih (t :: stk)
      · intro n
        simp only [step, enterA]
        rw [e1]
        exact setAll_congr _ _ _ hs n
      · refine ⟨?_, ?_⟩
        · simp only [step, enterA, upd, if_true]
          rw [e2]
          simp only [List.nil_append]
          apply List.map_congr_left
          intro p _
          rw [hs]
        · exact framesOK_upd tasks σ0 st.saved t _ stk hn.1 hf
      · exact hc
      · exact hn.2
    | call =>
      cases stk with
      | nil => simp [nestedOK] at hn
      | cons t' stk =>
        simp only [nestedOK, Bool.and_eq_true, decide_eq_true_eq] at hn
        obtain ⟨rfl, hn⟩ := hn
        apply ih (t :: stk)
        · exact hs
        · exact hf
        · intro c hcm
          simp only [step, List.mem_append, List.mem_singleton] at hcm
          rcases hcm with hcm | hcm
          · exact hc c hcm
          · subst hcm
            simp only
            have : (tasks t).map (fun p => (p.1, st.store p.1)) = (tasks t).map (fun p => p) := by
              apply List.map_congr_left
              intro p hp
              rw [hs p.1]
              simp only [layered]
              rw [setAll_own (tasks t) (hnd t) _ p hp]
            rw [this]; simp
        · exact hn
    | exit =>
      cases stk with
      | nil => simp [nestedOK] at hn
      | cons t' stk =>
        simp only [nestedOK, Bool.and_eq_true, decide_eq_true_eq] at hn
        obtain ⟨rfl, hn⟩ := hn
        apply ih stk
        · intro n
          simp only [step]
          rw [hf.1]
          exact restore_layer (tasks t) (layered tasks σ0 stk) st.store hs n
        · exact hf.2
        · exact hc
        · exact hn

end

/-- abstraction of the LLM object: the value a call would run with (`None` when the parameter is unknown) -/
def absStore (σ : Store) : Nat → PVal := fun n => (σ.get n).getD none

def Present (σ : Store) (n : Nat) : Prop := (σ.get n).isSome = true

theorem enter1_present (σ : Store) (orig : List (Nat × PVal)) (p : Nat × PVal) (hp : Present σ p.1) :
    (∀ m, absStore (enter1 (σ, orig) p).1 m = upd (absStore σ) p.1 p.2 m) ∧
    (enter1 (σ, orig) p).2 = orig ++ [(p.1, absStore σ p.1)] ∧
    (∀ m, Present (enter1 (σ, orig) p).1 m ↔ Present σ m) := by
  unfold Present at *
  simp only [enter1]
  cases ha : σ.attr p.1 with
  | some old =>
    simp only
    refine ⟨?_, ?_, ?_⟩
    · intro m
      by_cases hm : m = p.1
      · subst hm; simp [absStore, Store.get, upd]
      · simp [absStore, Store.get, upd, hm]
    · simp [absStore, Store.get, ha]
    · intro m
      by_cases hm : m = p.1
      · subst hm; simp [Store.get, upd, ha]
      · simp [Store.get, upd, hm]
  | none =>
    cases hk : σ.kw with
    | none => simp [Store.get, ha, hk] at hp
    | some kw =>
      cases hv : kw p.1 with
      | none => simp [Store.get, ha, hk, hv] at hp
      | some w =>
        simp only
        refine ⟨?_, ?_, ?_⟩
        · intro m
          by_cases hm : m = p.1
          · subst hm; simp [absStore, Store.get, upd, ha]
          · simp [absStore, Store.get, upd, hm, hk]
        · simp [absStore, Store.get, ha, hk, hv]
        · intro m
          by_cases hm : m = p.1
          · subst hm; simp [Store.get, upd, ha, hk, hv]
          · simp [Store.get, upd, hm, hk]

theorem enter_refines : ∀ (alt : List (Nat × PVal)) (σ : Store) (orig : List (Nat × PVal)) (a : Nat → PVal),
    (∀ p ∈ alt, Present σ p.1) → (∀ m, absStore σ m = a m) →
    (∀ m, absStore (alt.foldl enter1 (σ, orig)).1 m
        = (alt.foldl (fun acc p => (upd acc.1 p.1 p.2, acc.2 ++ [(p.1, acc.1 p.1)])) (a, orig)).1 m) ∧
    (alt.foldl enter1 (σ, orig)).2
        = (alt.foldl (fun acc p => (upd acc.1 p.1 p.2, acc.2 ++ [(p.1, acc.1 p.1)])) (a, orig)).2 ∧
    (∀ m, Present (alt.foldl enter1 (σ, orig)).1 m ↔ Present σ m) := by
  intro alt
  induction alt with
  | nil => intro σ orig a _ h; exact ⟨h, rfl, fun _ => Iff.rfl⟩
  | cons p r ih =>
    intro σ orig a hp ha
    simp only [List.foldl_cons]
    obtain ⟨e1, e2, e3⟩ := enter1_present σ orig p (hp p (by simp))
    have hσ' : enter1 (σ, orig) p = ((enter1 (σ, orig) p).1, (enter1 (σ, orig) p).2) := rfl
    rw [ha p.1] at e2
    rw [hσ', e2]
    have := ih (enter1 (σ, orig) p).1 (orig ++ [(p.1, a p.1)]) (upd a p.1 p.2)
      (fun q hq => (e3 q.1).2 (hp q (by simp [hq])))
      (fun m => by rw [e1 m]; simp [upd, ha])
    obtain ⟨i1, i2, i3⟩ := this
    exact ⟨i1, i2, fun m => (i3 m).trans (e3 m)⟩

theorem exit1_present (σ : Store) (p : Nat × PVal) (hp : Present σ p.1) :
    (∀ m, absStore (exit1 σ p) m = upd (absStore σ) p.1 p.2 m) ∧ (∀ m, Present (exit1 σ p) m ↔ Present σ m) := by
  unfold Present at *
  cases ha : σ.attr p.1 with
  | some old =>
    refine ⟨?_, ?_⟩
    · intro m
      by_cases hm : m = p.1
      · subst hm; simp [exit1, ha, absStore, Store.get, upd]
      · simp [exit1, ha, absStore, Store.get, upd, hm]
    · intro m
      by_cases hm : m = p.1
      · subst hm; simp [exit1, ha, Store.get, upd]
      · simp [exit1, ha, Store.get, upd, hm]
  | none =>
    cases hk : σ.kw with
    | none => simp [Store.get, ha, hk] at hp
    | some kw =>
      cases hv : kw p.1 with
      | none => simp [Store.get, ha, hk, hv] at hp
      | some w =>
        refine ⟨?_, ?_⟩
        · intro m
          by_cases hm : m = p.1
          · subst hm; simp [exit1, ha, hk, hv, absStore, Store.get, upd]
          · simp [exit1, ha, hk, hv, absStore, Store.get, upd, hm]
        · intro m
          by_cases hm : m = p.1
          · subst hm; simp [exit1, ha, hk, hv, Store.get, upd]
          · simp [exit1, ha, hk, hv, Store.get, upd, hm]

theorem exit_refines : ∀ (orig : List (Nat × PVal)) (σ : Store) (a : Nat → PVal),
    (∀ p ∈ orig, Present σ p.1) → (∀ m, absStore σ m = a m) →
    (∀ m, absStore (exit orig σ) m = setAll a orig m) ∧ (∀ m, Present (exit orig σ) m ↔ Present σ m) := by
  intro orig
  induction orig with
  | nil => intro σ a _ h; exact ⟨h, fun _ => Iff.rfl⟩
  | cons p r ih =>
    intro σ a hp ha
    simp only [exit, setAll, List.foldl_cons]
    obtain ⟨e1, e3⟩ := exit1_present σ p (hp p (by simp))
    have := ih (exit1 σ p) (upd a p.1 p.2)
      (fun q hq => (e3 q.1).2 (hp q (by simp [hq])))
      (fun m => by rw [e1 m]; simp [upd, ha])
    obtain ⟨i1, i3⟩ := this
    exact ⟨i1, fun m => (i3 m).trans (e3 m)⟩


/-! ### the concrete system (real `LLMParams` objects on one shared LLM object) refines the abstract one -/

theorem enterA_names {V : Type} (alt : List (Nat × V)) : ∀ (σ : Nat → V) (o : List (Nat × V)) (q : Nat × V),
    q ∈ (alt.foldl (fun acc p => (upd acc.1 p.1 p.2, acc.2 ++ [(p.1, acc.1 p.1)])) (σ, o)).2 →
    q ∈ o ∨ ∃ p ∈ alt, p.1 = q.1 := by
  induction alt with
  | nil => intro σ o q h; exact Or.inl h
  | cons p r ih =>
    intro σ o q h
    simp only [List.foldl_cons] at h
    rcases ih _ _ q h with h | ⟨p', hp', e⟩
    · simp only [List.mem_append, List.mem_singleton] at h
      rcases h with h | h
      · exact Or.inl h
      · exact Or.inr ⟨p, by simp, by rw [h]⟩
    · exact Or.inr ⟨p', by simp [hp'], e⟩

/-- the two systems are in step -/
structure Rel (tasks : Nat → List (Nat × PVal)) (σ0 : Store) (c : CSys) (a : Sys PVal) : Prop where
  store : ∀ m, absStore c.store m = a.store m
  saved : ∀ t, c.saved t = a.saved t
  calls : c.calls = a.calls
  present : ∀ m, Present c.store m ↔ Present σ0 m
  names : ∀ t q, q ∈ a.saved t → ∃ p ∈ tasks t, p.1 = q.1

theorem cstep_refines (tasks : Nat → List (Nat × PVal)) (σ0 : Store)
    (hp : ∀ t, ∀ p ∈ tasks t, Present σ0 p.1) (c : CSys) (a : Sys PVal) (h : Rel tasks σ0 c a) (ta : Nat × Act) :
    Rel tasks σ0 (cstep tasks c ta) (step tasks a ta) := by
  obtain ⟨t, act⟩ := ta
  cases act with
  | enter =>
    obtain ⟨e1, e2, e3⟩ := enter_refines (tasks t) c.store [] a.store
      (fun p hp' => (h.present p.1).2 (hp t p hp')) h.store
    refine ⟨?_, ?_, ?_, ?_, ?_⟩
    · intro m; simpa [cstep, step, enter, enterA] using e1 m
    · intro t'
      by_cases ht : t' = t
      · subst ht; simpa [cstep, step, enter, enterA, upd] using e2
      · simp [cstep, step, upd, ht, h.saved t']
    · simpa [cstep, step] using h.calls
    · intro m; exact Iff.trans (by simpa [cstep, enter] using e3 m) (h.present m)
    · intro t' q hq
      by_cases ht : t' = t
      · subst ht
        simp only [step, enterA, upd, if_true] at hq
        rcases enterA_names (tasks t') a.store [] q hq with h' | h'
        · simp at h'
        · exact h'
      · simp only [step, upd, ht, if_false] at hq
        exact h.names t' q hq
  | call =>
    refine ⟨h.store, h.saved, ?_, h.present, h.names⟩
    have : (tasks t).map (fun p => (p.1, (c.store.get p.1).getD none)) = (tasks t).map (fun p => (p.1, a.store p.1)) := by
      apply List.map_congr_left
      intro p _
      have := h.store p.1
      simp only [absStore] at this
      rw [this]
    simp only [cstep, step, h.calls, this]
  | exit =>
    have hpres : ∀ p ∈ c.saved t, Present c.store p.1 := by
      intro p hp'
      rw [h.saved t] at hp'
      obtain ⟨p', hp'', e⟩ := h.names t p hp'
      rw [← e]
      exact (h.present p'.1).2 (hp t p' hp'')
    obtain ⟨e1, e3⟩ := exit_refines (c.saved t) c.store a.store hpres h.store
    refine ⟨?_, h.saved, h.calls, ?_, h.names⟩
    · intro m; simpa [cstep, step, h.saved t] using e1 m
    · intro m; exact Iff.trans (by simpa [cstep] using e3 m) (h.present m)

theorem runSchedC_refines (tasks : Nat → List (Nat × PVal)) (σ0 : Store)
    (hp : ∀ t, ∀ p ∈ tasks t, Present σ0 p.1) : ∀ (sched : List (Nat × Act)) (c : CSys) (a : Sys PVal),
    Rel tasks σ0 c a → Rel tasks σ0 (runSchedC tasks c sched) (runSched tasks a sched) := by
  intro sched
  induction sched with
  | nil => intro c a h; exact h
  | cons x r ih =>
    intro c a h
    simp only [runSchedC, runSched, List.foldl_cons]
    exact ih _ _ (cstep_refines tasks σ0 hp c a h x)


end Params

namespace Ctx

theorem runCtx_frame {V : Type} (t : Nat) : ∀ (ops : List (Nat × Op V)) (ctxs ctxs' : Nat → Nat → V)
    (log log' : List (Nat × Nat × V)), ctxs t = ctxs' t → log.filter (fun e => e.1 = t) = log' →
    (runCtx ctxs log ops).2.filter (fun e => e.1 = t) = (runCtx ctxs' log' (ops.filter fun o => o.1 = t)).2 := by
  intro ops
  induction ops with
  | nil => intro _ _ _ _ _ h; simpa [runCtx] using h
  | cons o ops ih =>
    intro ctxs ctxs' log log' hc hl
    obtain ⟨t', op⟩ := o
    by_cases ht : t' = t
    · subst ht
      cases op with
      | set x v =>
        simp only [runCtx, List.foldl_cons, stepCtx, List.filter_cons_of_pos, decide_true] at ih ⊢
        apply ih
        · simp [Params.upd, hc]
        · exact hl
      | get x =>
        simp only [runCtx, List.foldl_cons, stepCtx, List.filter_cons_of_pos, decide_true] at ih ⊢
        apply ih
        · exact hc
        · simp [List.filter_append, hl, hc]
    · have hf : (List.filter (fun o : Nat × Op V => decide (o.1 = t)) ((t', op) :: ops)) = List.filter (fun o => decide (o.1 = t)) ops := by
        simp [ht]
      rw [hf]
      cases op with
      | set x v =>
        simp only [runCtx, List.foldl_cons, stepCtx] at ih ⊢
        apply ih
        · have : t ≠ t' := fun e => ht e.symm
          simp [Params.upd, this, hc]
        · exact hl
      | get x =>
        simp only [runCtx, List.foldl_cons, stepCtx] at ih ⊢
        apply ih
        · exact hc
        · simp [List.filter_append, hl, ht]

end Ctx

end NemoVerif.Isolation
