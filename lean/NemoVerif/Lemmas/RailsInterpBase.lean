/-
  C16 phase 4 — shared facts for the whole-turn refinement: the remaining flows of the GENERATED llm_flows.co program
  by name (each `*_elems` is an `rfl` fact about the regenerated data: an edit of that flow in llm_flows.co breaks it and
  with it every transition lemma that uses it), and a general context look-up lemma across `Ctx.withEvent`.
-/
import NemoVerif.Lemmas.RailsInterp
namespace NemoVerif.RailsInterp
open NemoVerif.V1Interp


def plainKey (k : String) : Bool := !k.startsWith "event." && k != "last_user_message" && k != "last_bot_message"
def plainFor (ev : Event) (k : String) : Bool := plainKey k && (ev.props.lookup k).isNone

macro "plain_tac" : tactic => `(tactic| (show (plainKey _ && _) = true; rw [show plainKey _ = true from by decide +kernel]; rfl))

theorem get_withEvent_plain (σ : Ctx) (ev : Event) (k : String) (h : plainFor ev k = true) :
    (σ.withEvent ev).get k = σ.get k := by
  simp only [plainFor, plainKey, Bool.and_eq_true] at h
  obtain ⟨⟨⟨h1, h2⟩, h3⟩, h4⟩ := h
  have h2' : k ≠ "last_user_message" := bne_iff_ne.mp h2
  have h3' : k ≠ "last_bot_message" := bne_iff_ne.mp h3
  have h4' : ev.props.lookup k = none := by simpa using h4
  have key : ∀ τ : Ctx, τ.get k = σ.get k → Ctx.get (ev.props ++ τ.filter fun kv => !kv.1.startsWith "event.") k = σ.get k := by
    intro τ hτ
    rw [get_append_miss _ _ _ h4', get_filter_key (fun s => !s.startsWith "event.") τ k, if_pos h1, hτ]
  unfold Ctx.withEvent
  split
  · exact key _ (by rw [get_set, if_neg h2'])
  · exact key _ (by rw [get_set, if_neg h3'])
  · exact key _ rfl

macro "ctx_norm" : tactic => `(tactic| (repeat (first | rw [get_withEvent_plain _ _ _ (by plain_tac)] | (rw [get_set]; simp only [String.reduceEq, if_true, if_false, reduceIte]))))


/-! ### the other flows of the generated program -/

def guiCfg : FlowCfg := base[2]
def gnsCfg : FlowCfg := base[4]
def gbmCfg : FlowCfg := base[5]
def pbmCfg : FlowCfg := base[6]
def rorCfg : FlowCfg := base[7]
def rrrCfg : FlowCfg := base[8]

theorem base_ids : base.map (·.id) = ["process user input", "run dialog rails", "generate user intent", "run input rails",
    "generate next step", "generate bot message", "process bot message", "run output rails", "run retrieval rails"] := rfl
theorem base_eq : base = [puiCfg, rdrCfg, guiCfg, rirCfg, gnsCfg, gbmCfg, pbmCfg, rorCfg, rrrCfg] := rfl

theorem find_gui (rails : Cfgs) : Cfgs.find (base ++ rails) "generate user intent" = some guiCfg := by
  simp only [Cfgs.find, List.find?_append]; rfl
theorem find_gns (rails : Cfgs) : Cfgs.find (base ++ rails) "generate next step" = some gnsCfg := by
  simp only [Cfgs.find, List.find?_append]; rfl
theorem find_gbm (rails : Cfgs) : Cfgs.find (base ++ rails) "generate bot message" = some gbmCfg := by
  simp only [Cfgs.find, List.find?_append]; rfl
theorem find_pbm (rails : Cfgs) : Cfgs.find (base ++ rails) "process bot message" = some pbmCfg := by
  simp only [Cfgs.find, List.find?_append]; rfl
theorem find_ror (rails : Cfgs) : Cfgs.find (base ++ rails) "run output rails" = some rorCfg := by
  simp only [Cfgs.find, List.find?_append]; rfl
theorem find_rrr (rails : Cfgs) : Cfgs.find (base ++ rails) "run retrieval rails" = some rrrCfg := by
  simp only [Cfgs.find, List.find?_append]; rfl

theorem gui_elems : guiCfg.elems = [Elem.runAction "generate_user_intent" none "{}" none] := rfl
theorem gui_flags : guiCfg.isExtension = false ∧ guiCfg.isInterruptible = true ∧ guiCfg.prio = 100 ∧ guiCfg.isSubflow = true ∧
    guiCfg.allowMultiple = false ∧ guiCfg.id = "generate user intent" ∧ guiCfg.triggers = [] := ⟨rfl, rfl, rfl, rfl, rfl, rfl, rfl⟩

theorem gns_elems : gnsCfg.elems = [Elem.userIntent "...", Elem.runAction "generate_next_step" none "{}" none] := rfl
theorem gns_flags : gnsCfg.isExtension = false ∧ gnsCfg.isInterruptible = true ∧ gnsCfg.prio = 90 ∧ gnsCfg.isSubflow = false ∧
    gnsCfg.allowMultiple = false ∧ gnsCfg.id = "generate next step" ∧ gnsCfg.triggers = [] := ⟨rfl, rfl, rfl, rfl, rfl, rfl, rfl⟩

theorem gbm_elems : gbmCfg.elems = [
      Elem.runAction "utter" (some "...") "" none,
      Elem.runAction "retrieve_relevant_chunks" none "{}" none,
      Elem.ifE (Expr.var "config.rails.retrieval.flows") 3,
      Elem.ifE (Expr.bin BinOp.or (Expr.isNone (Expr.var "generation_options") false) (Expr.var "generation_options.rails.retrieval")) 2,
      Elem.flow "run retrieval rails",
      Elem.runAction "generate_bot_message" none "{}" none] := rfl
theorem gbm_flags : gbmCfg.isExtension = true ∧ gbmCfg.isInterruptible = true ∧ gbmCfg.prio = 10000 ∧ gbmCfg.isSubflow = false ∧
    gbmCfg.allowMultiple = true ∧ gbmCfg.id = "generate bot message" ∧ gbmCfg.triggers = [] := ⟨rfl, rfl, rfl, rfl, rfl, rfl, rfl⟩

theorem pbm_elems : pbmCfg.elems = [
      Elem.event "BotMessage" [],
      Elem.setE "bot_message" (Expr.var "event.text") 1,
      Elem.ifE (Expr.var "skip_output_rails") 3,
      Elem.setE "skip_output_rails" (Expr.lit (V.bool false)) 1,
      Elem.jump 8 false,
      Elem.ifE (Expr.var "config.rails.output.flows") 7,
      Elem.ifE (Expr.bin BinOp.or (Expr.isNone (Expr.var "generation_options") false) (Expr.var "generation_options.rails.output")) 6,
      Elem.runAction "create_event" none "{\"event\": {\"_type\": \"StartOutputRails\"}}" none,
      Elem.event "StartOutputRails" [],
      Elem.flow "run output rails",
      Elem.runAction "create_event" none "{\"event\": {\"_type\": \"OutputRailsFinished\"}}" none,
      Elem.event "OutputRailsFinished" [],
      Elem.runAction "create_event" none "{\"event\": {\"_type\": \"StartUtteranceBotAction\", \"script\": \"$bot_message\"}}" none] := rfl
theorem pbm_triggers : pbmCfg.triggers = ["StartOutputRails", "OutputRailsFinished", "StartUtteranceBotAction"] := rfl
theorem pbm_flags : pbmCfg.isExtension = true ∧ pbmCfg.isInterruptible = true ∧ pbmCfg.prio = 10000 ∧ pbmCfg.isSubflow = false ∧
    pbmCfg.allowMultiple = true ∧ pbmCfg.id = "process bot message" := ⟨rfl, rfl, rfl, rfl, rfl, rfl⟩

/-- `run output rails` as it stands in the generated program -/
theorem ror_elems : rorCfg.elems = [
      Elem.setE "i" (Expr.lit (V.int 0)) 1,
      Elem.setE "output_flows" (Expr.var "config.rails.output.flows") 1,
      Elem.whileE (Expr.bin BinOp.lt (Expr.var "i") (Expr.len (Expr.var "output_flows"))) 1 10,
      Elem.setE "triggered_output_rail" (Expr.index (Expr.var "output_flows") (Expr.var "i")) 1,
      Elem.runAction "create_event" none "{\"event\": {\"_type\": \"StartOutputRail\", \"flow_id\": \"$triggered_output_rail\"}}" none,
      Elem.event "StartOutputRail" [],
      Elem.flowE (Expr.index (Expr.var "output_flows") (Expr.var "i")),
      Elem.setE "i" (Expr.bin BinOp.add (Expr.var "i") (Expr.lit (V.int 1))) 1,
      Elem.runAction "create_event" none "{\"event\": {\"_type\": \"OutputRailFinished\", \"flow_id\": \"$triggered_output_rail\"}}" none,
      Elem.event "OutputRailFinished" [],
      Elem.setE "triggered_output_rail" (Expr.lit V.none) 1,
      Elem.jump (-9) false] := rfl
theorem ror_triggers : rorCfg.triggers = ["StartOutputRail", "OutputRailFinished"] := rfl
theorem ror_flags : rorCfg.isExtension = false ∧ rorCfg.isInterruptible = true ∧ rorCfg.prio = 100 ∧ rorCfg.isSubflow = true ∧ rorCfg.id = "run output rails" :=
  ⟨rfl, rfl, rfl, rfl, rfl⟩

theorem rrr_flags : rrrCfg.isSubflow = true ∧ rrrCfg.id = "run retrieval rails" := ⟨rfl, rfl⟩

end NemoVerif.RailsInterp
