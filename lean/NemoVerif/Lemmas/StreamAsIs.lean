/-
  C18 — the unpatched handler (`Models/StreamAsIs.lean`) coincides with the repaired one
  (`Models/Stream.lean`) for configurations without prefix and without stop sequences: the three
  defects all need a prefix or a stop sequence.
-/
import NemoVerif.Lemmas.Stream
import NemoVerif.Models.StreamAsIs
set_option linter.unusedSimpArgs false
namespace NemoVerif.StreamAsIs
open NemoVerif.Stream

/-- forget the `overflow` flag -/
def proj (s : StA) : St := ⟨s.pfx, s.cur, s.completion, s.out, s.finished⟩

def lift (t : St) (ov : Bool) : StA := ⟨t.pfx, t.cur, t.completion, t.out, t.finished, ov⟩

theorem processA_nostop {cfg : Cfg} (hs : cfg.stop = []) (fuel : Nat) (s : StA) (chunk : Option Str) :
    processA cfg fuel s chunk = lift (process cfg (proj s) chunk) s.overflow := by
  cases fuel <;> cases chunk with
  | none => simp [processA, processWith, process, proj, lift, forwardA, forward]
  | some c =>
    by_cases hc : c = [] <;>
      simp [processA, processWith, process, processStr, hs, cutStop_no_stops, proj, lift, forwardA, forward, hc]

theorem stripAtEnd_eq {cfg : Cfg} (hs : cfg.stop = []) (R cur : Str) : stripAtEnd cfg cur = removeSuffixAtEnd cfg R cur := by
  unfold stripAtEnd removeSuffixAtEnd
  rw [hs, cutStop_no_stops]
  by_cases h1 : cfg.suffix = []
  · simp [h1]
  · by_cases h2 : cfg.suffix.isSuffixOf cur = true
    · have : cur ≠ [] := by
        intro e; subst e
        exact h1 (List.suffix_nil.1 (List.isSuffixOf_iff_suffix.1 h2))
      simp [h1, h2, this]
    · simp [h1, h2]

theorem pushA_nostop {cfg : Cfg} (hs : cfg.stop = []) (fuel : Nat) (s : StA) (hp : s.pfx = []) (chunk : Option Str) :
    pushA cfg fuel s chunk = lift (push cfg (proj s) chunk) s.overflow := by
  obtain ⟨spfx, scur, scomp, sout, sfin, sov⟩ := s
  simp only at hp
  subst hp
  unfold pushA pushWith push
  cases sfin with
  | true => simp [proj, lift]
  | false =>
    simp only [Bool.false_eq_true, if_false, ne_eq, not_true_eq_false, proj]
    by_cases hm : cfg.suffix ≠ [] ∨ cfg.stop ≠ []
    · simp only [hm, if_true, pushBody]
      by_cases hh : holds (pats cfg) (scur ++ chunk.getD []) = true ∧ ¬ isEnd chunk = true
      · simp [hh, lift]
      · simp only [hh, if_false, release, processA_nostop hs, stripAtEnd_eq hs scomp]
        generalize (if isEnd chunk = true then removeSuffixAtEnd cfg scomp (scur ++ chunk.getD []) else scur ++ chunk.getD []) = x
        by_cases hx : x = [] <;> simp [lift, proj, process, processStr, hs, cutStop_no_stops, forward, hx]
    · simp only [hm, if_false, pushBody, processA_nostop hs, proj]

theorem processStr_pfx (cfg : Cfg) (s : St) (x : Str) : (processStr cfg s x).pfx = s.pfx := by
  cases h : cutStop cfg.stop (s.completion ++ x) with
  | some u =>
    simp only [processStr, h]
    by_cases h2 : (stripSuffix cfg.suffix u).length > s.completion.length <;> simp [h2, forward]
  | none =>
    simp only [processStr, h]
    by_cases h2 : x = [] <;> simp [h2, forward]

theorem push_pfx_nil (cfg : Cfg) (t : St) (hp : t.pfx = []) (chunk : Option Str) : (push cfg t chunk).pfx = [] := by
  unfold push
  by_cases hf : t.finished = true
  · simp [hf, hp]
  · simp only [hf, Bool.false_eq_true, if_false, hp, ne_eq, not_true_eq_false, pushBody]
    split
    · split
      · rfl
      · simp [release, processStr_pfx, hp]
    · cases chunk with
      | none => simp [process, forward, hp]
      | some c => simp [process, processStr_pfx, hp]

theorem endLlmA_nostop {cfg : Cfg} (hs : cfg.stop = []) (fuel : Nat) (s : StA) :
    endLlmA cfg fuel s = lift (endLlm cfg (proj s)) s.overflow := by
  obtain ⟨spfx, scur, scomp, sout, sfin, sov⟩ := s
  unfold endLlmA endLlm
  have e : ∀ cur : Str, (if cfg.suffix ≠ [] ∧ cfg.suffix.isSuffixOf cur = true then cur.take (cur.length - cfg.suffix.length) else cur)
      = removeSuffixAtEnd cfg scomp cur := by
    intro cur
    unfold removeSuffixAtEnd
    rw [hs, cutStop_no_stops]
    simp
  by_cases hc : scur = []
  · simp [hc, processA_nostop hs, proj, lift, process]
  · simp only [hc, ne_eq, not_false_eq_true, if_true, e, processA_nostop hs, proj, release, process]
    generalize removeSuffixAtEnd cfg scomp scur = x
    by_cases hx : x = [] <;> simp [lift, processStr, hs, cutStop_no_stops, forward, hx]

theorem feedA_nostop {cfg : Cfg} (hs : cfg.stop = []) (fuel : Nat) : ∀ (cs : List Str) (s : StA), s.pfx = [] →
    cs.foldl (fun s c => pushA cfg fuel s (some c)) s = lift (feed cfg (proj s) cs) s.overflow ∧ (feed cfg (proj s) cs).pfx = []
  | [], s, hp => by
    obtain ⟨spfx, scur, scomp, sout, sfin, sov⟩ := s
    exact ⟨rfl, hp⟩
  | c :: cs, s, hp => by
    have h1 := pushA_nostop hs fuel s hp (some c)
    have hp' : (pushA cfg fuel s (some c)).pfx = [] := by
      rw [h1]; exact push_pfx_nil cfg (proj s) hp (some c)
    obtain ⟨h2, h3⟩ := feedA_nostop hs fuel cs _ hp'
    simp only [List.foldl_cons, feed]
    rw [h2, h1]
    exact ⟨rfl, by rw [h1] at h3; exact h3⟩

/-- without prefix and without stop sequences the unpatched handler IS the repaired one -/
theorem runA_nostop {cfg : Cfg} (hp : cfg.pfx = []) (hs : cfg.stop = []) (fuel : Nat) (cs : List Str) (e : EndProto) :
    runA cfg fuel cs e = lift (run cfg cs e) false := by
  unfold runA run
  obtain ⟨h1, h2⟩ := feedA_nostop hs fuel cs (initA cfg) hp
  have hi : proj (initA cfg) = init cfg := rfl
  have ho : (initA cfg).overflow = false := rfl
  rw [hi, ho] at h1
  rw [hi] at h2
  rw [h1]
  generalize feed cfg (init cfg) cs = t at h2 ⊢
  have hl : (lift t false).pfx = [] := h2
  have hpj : proj (lift t false) = t := rfl
  cases e with
  | empty => simp only [finishA, finish]; rw [pushA_nostop hs fuel _ hl, hpj]; rfl
  | none => simp only [finishA, finish]; rw [pushA_nostop hs fuel _ hl, hpj]; rfl
  | llmEnd => simp only [finishA, finish]; rw [endLlmA_nostop hs, hpj]; rfl
  | emptyLlmEnd =>
    simp only [finishA, finish]
    rw [pushA_nostop hs fuel _ hl, hpj, endLlmA_nostop hs]
    rfl

end NemoVerif.StreamAsIs
