/-
  C07 (T2') — a pure and-group from its FIRST element to its completion over CoreVM's `slide`: `and_group_from_start` chains the fork
  segment (which also establishes what the later segments need: fork registration, HeadX records of the forking head and of the new
  heads, unique fresh uids) with `and_group_run`.
-/
import NemoVerif.Lemmas.GroupCoreVMRun
set_option linter.unusedSimpArgs false
namespace NemoVerif.CoreVM
open NemoVerif NemoVerif.CoreIndex
open NemoVerif.GroupVM (MLoc countWait p1Members QMs remMs)

/-- all members still on their `match` elements -/
def allAtMatch (c : List Nat) : List (Nat × MLoc) := c.map fun a => (a, MLoc.atMatch)

theorem remMs_allAtMatch (c : List Nat) : remMs (allAtMatch c) = c := by
  induction c with
  | nil => rfl
  | cons a c ih => simp only [allAtMatch, List.map_cons] at ih ⊢; rw [GroupVM.remMs_cons_match, ih]

theorem QMs_allAtMatch (c : List Nat) : QMs (allAtMatch c) := by
  intro m hm
  simp only [allAtMatch, List.mem_map] at hm
  obtain ⟨a, _, rfl⟩ := hm
  exact Or.inl rfl

/-- the new heads on their match elements, as `GroupVM` renders them -/
theorem newView_render (wp n : Nat) : ∀ (ps : List Nat) (c : List Nat), c.length = ps.length →
    (newView n ps).map (fun t => (t.1, t.2.1 + 1, t.2.2)) =
      renderU wp ((newsOf n ps).map fun q => (q.1, q.2 + 1)) (allAtMatch c) := by
  intro ps
  induction ps generalizing n with
  | nil => intro c hc; cases c <;> simp_all [newView, newsOf, renderU, allAtMatch]
  | cons p ps ih =>
    intro c hc
    cases c with
    | nil => simp at hc
    | cons a c =>
      have := ih (n + 1) c (by simpa using hc)
      simp only [newView, newsOf, List.map_cons, allAtMatch, renderU, List.zipWith_cons_cons, mlocCore] at this ⊢
      rw [this]

theorem newsOf_length (n : Nat) (ps : List Nat) : (newsOf n ps).length = ps.length := by
  induction ps generalizing n with
  | nil => rfl
  | cons p ps ih => simp [newsOf, ih]


/-- **A pure and-group from its first element to its completion, at the level of CoreVM's `slide`.**  The root head `h` is the only
    head of the flow instance and ACTIVE on `CatchPatternFailure fl; ForkHead mu [l_1 … l_n]`; every label is followed by
    `match <plain event>; goto l`, and at the end label come `WaitForHeads n; MergeHeads mu` (the and-template).  Then: `slide` forks
    `n` fresh heads, they are advanced onto their match elements, and for EVERY event sequence the driver hands the root head back
    exactly when the clause machine on the clause `c` (the atoms the members wait for) completes — at the first event after which
    all atoms have been received. -/
theorem and_group_from_start (fuel : Nat) (s : VM) (f : FUid) (h : HUid) (i : Inst) (x : InstX) (cfg : FlowCfg) (hd : Head)
    (fl mu l : String) (lps : List (String × Nat)) (c : List Nat) (pe : Nat) (a0 : HeadX)
    (H : HeadAt s f h i x cfg hd) (hact : hd.status = .active) (hlis : i.status.listening = true)
    (hcatch : cfg.elements[hd.pos]! = .catchFail (some fl)) (hsz : hd.pos + 1 < cfg.elements.size)
    (hfork : cfg.elements[hd.pos + 1]! = .fork mu (lps.map (·.1)))
    (hl : ∀ lp ∈ lps, cfg.label lp.1 = some lp.2 ∧ lp.2 ≠ 0 ∧ NotMatchAt cfg lp.2)
    (hnews : ∀ lp ∈ lps, lp.2 + 1 < cfg.elements.size ∧ ∃ spec b n, cfg.elements[lp.2 + 1]! = .matchOp spec b ∧ PlainSpec spec n)
    (hroot : hview i = [(h, hd.pos, HeadStatus.active)])
    (hfresh : ∀ m, m > s.r.nextUid → uidOf m ∉ i.headUids) (hown : x.ctxOwner = none)
    (ha0 : OMap.lookup (f, h) s.r.hx = some a0) (ha0c : a0.childHeadUids = [])
    (hfx0 : ∀ m, m > s.r.nextUid → OMap.lookup (f, uidOf m) s.r.hx = none)
    (hmu : ∀ m, uidOf m ≠ mu)
    (C : ClauseShape cfg l mu pe lps.length)
    (S : ∀ lp ∈ lps, cfg.elements[lp.2 + 1 + 1]! = .goto (.lit (.bool true)) l ∧ lp.2 + 1 + 1 < pe + 1)
    (hfp : hd.pos + 1 ≠ pe + 2) (hc : c.length = lps.length) (hcne : c ≠ []) (es : List Nat) :
    ∃ s1 s2 s3, slide (fuel + 2) f h s = .ok (newKeys f s.r.nextUid lps.length) s1 ∧
      runMembers (fuel + 1) f ((newKeys f s.r.nextUid lps.length).map (·.2)) s1 = .ok () s2 ∧
      andDriver fuel f ((newsOf s.r.nextUid (lps.map (·.2))).map fun q => (q.1, q.2 + 1)) lps.length (allAtMatch c) false es s2
        = .ok (Dnf.run { branches := [c], done := false } es) s3 := by
  have hnd : ((hview i).map (·.1)).Nodup := by rw [hroot]; simp
  obtain ⟨s1, s2, i2, x', hsl, hrun, F2, hown', hv2, hfux, hst2, hn2, _, hhxf⟩ :=
    fork_segment fuel s f h i x cfg hd fl mu lps H hact hlis hcatch hsz hfork hl hnews hnd hfresh
  obtain ⟨hch, hleaf⟩ := hhxf a0 ha0 hfx0
  -- the member heads
  let us := (newsOf s.r.nextUid (lps.map (·.2))).map fun q => (q.1, q.2 + 1)
  have hus_fst : us.map (·.1) = (newKeys f s.r.nextUid lps.length).map (·.2) := by
    simp only [us, List.map_map]
    rw [← List.length_map (f := fun (lp : String × Nat) => lp.2), newKeys_snd]
    rfl
  have huslen : us.length = lps.length := by simp [us, newsOf_length]
  have hv2' : hview i2 = (h, hd.pos + 1, HeadStatus.inactive) :: renderU (pe + 1) us (allAtMatch c) := by
    rw [hv2, hroot, newView_render (pe + 1) s.r.nextUid (lps.map (·.2)) c (by simpa using hc)]
    simp only [List.map_cons, List.map_nil, setCore, if_true, List.singleton_append]
    rfl
  have hndu : (h :: us.map (·.1)).Nodup := by
    rw [List.nodup_cons]
    constructor
    · intro hmem
      simp only [us, List.map_map] at hmem
      obtain ⟨q, hq, e⟩ := List.mem_map.1 hmem
      obtain ⟨⟨m, hm, e2⟩, _⟩ := newsOf_mem _ _ q hq
      have hmemh : h ∈ i.headUids := by
        simp only [Inst.headUids, List.mem_map]
        exact ⟨hd, List.mem_of_find?_eq_some H.hh, findHead_uid H.hh⟩
      have : uidOf m = h := by rw [← e2]; exact e
      exact hfresh m hm (this ▸ hmemh)
    · simp only [us, List.map_map]
      exact newsOf_nodup _ _
  have hS : MembersShape cfg l pe us := by
    intro u hu
    simp only [us, List.mem_map] at hu
    obtain ⟨q, hq, rfl⟩ := hu
    obtain ⟨_, hp⟩ := newsOf_mem _ _ q hq
    obtain ⟨lp, hlp, e⟩ := List.mem_map.1 hp
    have := S lp hlp
    rw [e] at this
    exact this
  have hmu' : mu ∉ us.map (·.1) := by
    intro hmem
    simp only [us, List.map_map] at hmem
    obtain ⟨q, hq, e⟩ := List.mem_map.1 hmem
    obtain ⟨⟨m, _, e2⟩, _⟩ := newsOf_mem _ _ q hq
    exact hmu m (by rw [← e2]; exact e)
  obtain ⟨s3, hs3⟩ := and_group_run fuel f x' cfg l mu pe (hd.pos + 1) h us lps.length (by rw [hown']; exact hown) C hS hndu
    (by rw [hfux, OMap.lookup_insert]; simp) hmu' hfp es s2 i2 (allAtMatch c) F2 (by simp [allAtMatch, hc]) huslen (QMs_allAtMatch c)
    (by rw [remMs_allAtMatch]; exact hcne) hv2'
    (by rw [hch, ha0c, hus_fst]; simp)
    (by
      intro k hk
      rw [hus_fst] at hk
      obtain ⟨key, hkey, rfl⟩ := List.mem_map.1 hk
      have hf : key.1 = f := by
        have : ∀ (n m : Nat) (key : Key), key ∈ newKeys f n m → key.1 = f := by
          intro n m
          induction m generalizing n with
          | zero => intro key hk; simp [newKeys] at hk
          | succ m ih =>
            intro key hk
            simp only [newKeys, List.mem_cons] at hk
            rcases hk with rfl | hk
            · rfl
            · exact ih _ key hk
        exact this _ _ key hkey
      have := hleaf key hkey
      rw [show key = (f, key.2) from by rw [← hf]] at this
      exact this.1)
  rw [remMs_allAtMatch] at hs3
  exact ⟨s1, s2, s3, hsl, hrun, hs3⟩

end NemoVerif.CoreVM
