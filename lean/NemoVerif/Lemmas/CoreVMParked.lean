/-
  C09 / CoreVM — `Parked` and the worklist invariant `PendingCovers` (DESIGN §5.2), as far as carried in Lean (phase 4):
  the definitions, `PendingCovers [] ↔ Parked` (what the exit of `run_to_completion` needs), `PendingCovers W` as a state
  invariant (`covInv W`: kept by every frame update of `Rest` and by the index operations `CovOp W`), and the
  preservation lemmas for `_abort_flow` and the two head setters.  NOT reached: `slideStep` per element kind,
  `_advance_head_front`, `_finish_flow` (main restart), `add_new_flow_instance`, `_resolve_action_conflicts`, the loops.
-/
import NemoVerif.Lemmas.CoreVMStop
open NemoVerif NemoVerif.CoreIndex
open Std.Do
set_option mvcgen.warning false
namespace NemoVerif.CoreVM


/-- the element at `pos` of the flow of instance `f` is a `match` or a wait-for-heads element -/
def ParkedAt (s : VM) (f : FUid) (pos : Nat) : Prop :=
  ∃ id cfg el, OMap.lookup f (flowIds s.r) = some id ∧ s.r.prog.find id = some cfg ∧ cfg.elements[pos]? = some el ∧
    (el.isMatch = true ∨ ∃ n, el = .waitHeads n)

/-- a head that the loops of `run_to_completion` still have to move: head of a listening instance, not INACTIVE, and not
    (ACTIVE on a match / wait-for-heads element) -/
def Loose (s : VM) (i : Inst) (hd : Head) : Prop :=
  i.status.listening = true ∧ hd.status ≠ .inactive ∧ ¬ (hd.status = .active ∧ ParkedAt s i.uid hd.pos)

/-- **`PendingCovers`** (DESIGN §5.2): every loose head is in the worklist `W` -/
def PendingCovers (W : List Key) (s : VM) : Prop :=
  ∀ i ∈ s.ixs.ix.insts, ∀ hd ∈ i.heads, Loose s i hd → (i.uid, hd.uid) ∈ W

/-- **`Parked`**: every non-INACTIVE head of every listening instance is ACTIVE on a match / wait-for-heads element -/
def Parked (s : VM) : Prop :=
  ∀ i ∈ s.ixs.ix.insts, i.status.listening = true → ∀ hd ∈ i.heads, hd.status ≠ .inactive →
    hd.status = .active ∧ ParkedAt s i.uid hd.pos

/-- with an empty worklist `PendingCovers` IS `Parked` (what the exit of `run_to_completion` needs) -/
theorem parked_iff_pendingCovers_nil (s : VM) : PendingCovers [] s ↔ Parked s := by
  constructor
  · intro h i hi hl hd hhd hne
    apply Classical.byContradiction
    intro hc
    exact absurd (h i hi hd hhd ⟨hl, hne, hc⟩) (by simp)
  · intro h i hi hd hhd ⟨hl, hne, hc⟩
    exact absurd (h i hi hl hd hhd hne) hc

theorem pendingCovers_mono {W W' : List Key} {s : VM} (h : PendingCovers W s) (hs : ∀ k ∈ W, k ∈ W') : PendingCovers W' s :=
  fun i hi hd hhd hl => hs _ (h i hi hd hhd hl)

/-- `ParkedAt` only reads the program and the flow ids: kept by every `RestFrame` update -/
theorem parkedAt_frame {s : VM} {g : Rest → Rest} (hg : RestFrame g) {f : FUid} {pos : Nat} (h : ParkedAt s f pos) :
    ParkedAt { s with r := g s.r } f pos := by
  obtain ⟨id, cfg, el, h1, h2, h3, h4⟩ := h
  exact ⟨id, cfg, el, (hg s.r).2 f id h1, by rw [(hg s.r).1]; exact h2, h3, h4⟩


/-- `PendingCovers W` is kept by every `RestFrame` update (a head can only become parked) -/
theorem pendingCovers_frame {W : List Key} {s : VM} {g : Rest → Rest} (hg : RestFrame g) (h : PendingCovers W s) :
    PendingCovers W { s with r := g s.r } := by
  intro i hi hd hhd ⟨hl, hne, hc⟩
  exact h i hi hd hhd ⟨hl, hne, fun hp => hc ⟨hp.1, parkedAt_frame hg hp.2⟩⟩

/-- the operations under which `PendingCovers W` is kept whatever the state: heads are only removed, instances only leave the
    listening statuses or disappear, and heads in `W` may move freely -/
def CovOp (W : List Key) : Op → Prop
  | .setPos f h _ _ => (f, h) ∈ W
  | .setStatus f h st _ => (f, h) ∈ W ∨ st = .inactive
  | .fork f h' _ _ _ => (f, h') ∈ W
  | .delHead _ _ => True
  | .dropHeads _ => True
  | .rmHead _ _ => True
  | .clearHeads _ => True
  | .setFlowStatus _ st => st.listening = false
  | .removeInst _ => True
  | .addInst _ _ _ => False
  | .mainRestart _ _ _ => False


/-! ### `PendingCovers` on the instance list, under the index operations -/

/-- `PendingCovers` with the parking predicate abstracted -/
def PCL (P : FUid → Nat → Prop) (W : List Key) (l : List Inst) : Prop :=
  ∀ i ∈ l, ∀ hd ∈ i.heads, i.status.listening = true → hd.status ≠ .inactive → ¬ (hd.status = .active ∧ P i.uid hd.pos) →
    (i.uid, hd.uid) ∈ W

theorem pendingCovers_iff_pcl (W : List Key) (s : VM) : PendingCovers W s ↔ PCL (ParkedAt s) W s.ixs.ix.insts := by
  constructor
  · intro h i hi hd hhd hl hne hc; exact h i hi hd hhd ⟨hl, hne, hc⟩
  · intro h i hi hd hhd ⟨hl, hne, hc⟩; exact h i hi hd hhd hl hne hc

theorem pcl_mapInst {P W l f} {g : Inst → Inst} (h : PCL P W l)
    (hg : ∀ i ∈ l, i.uid = f → (g i).uid = i.uid ∧ ((g i).status.listening = true → i.status.listening = true) ∧
      ∀ hd' ∈ (g i).heads, hd' ∈ i.heads ∨ (i.uid, hd'.uid) ∈ W ∨ hd'.status = .inactive) :
    PCL P W (mapInst l f g) := by
  intro i' hi' hd' hhd' hl hne hc
  obtain ⟨i, hi, e⟩ := mem_mapInst hi'
  subst e
  split at hhd' <;> rename_i hf
  · rw [if_pos hf] at hl hc ⊢
    obtain ⟨hu, hls, hh⟩ := hg i hi hf
    rw [hu] at hc ⊢
    rcases hh hd' hhd' with h1 | h1 | h1
    · exact h i hi hd' h1 (hls hl) hne hc
    · exact h1
    · exact absurd h1 hne
  · rw [if_neg hf] at hl hc ⊢
    exact h i hi hd' hhd' hl hne hc

theorem mem_modifyHead {i : Inst} {h : HUid} {g : Head → Head} {hd' : Head} (hm : hd' ∈ (i.modifyHead h g).heads) :
    hd' ∈ i.heads ∨ ∃ x ∈ i.heads, x.uid = h ∧ hd' = g x := by
  unfold Inst.modifyHead at hm
  simp only [List.mem_map] at hm
  obtain ⟨x, hx, e⟩ := hm
  split at e
  · rename_i hxu; exact Or.inr ⟨x, hx, hxu, e.symm⟩
  · subst e; exact Or.inl hx

theorem pcl_touchInsts {P W l f h} {g : Head → Head} (hp : PCL P W l) (hg : ∀ x, (g x).uid = x.uid)
    (hw : (f, h) ∈ W ∨ ∀ x, (g x).status = .inactive) : PCL P W (touchInsts l f h g) := by
  unfold touchInsts
  split
  · exact hp
  · split
    · exact hp
    · apply pcl_mapInst hp
      intro i hi hf
      refine ⟨rfl, fun hh => hh, ?_⟩
      intro hd' hm
      rcases mem_modifyHead hm with h1 | ⟨x, hx, hxu, e⟩
      · exact Or.inl h1
      · subst e
        rcases hw with hw | hw
        · exact Or.inr (Or.inl (by rw [hg x, hxu, hf]; exact hw))
        · exact Or.inr (Or.inr (hw x))

theorem pcl_step {P : FUid → Nat → Prop} {W : List Key} {l : List Inst} {op : Op} (h : PCL P W l) (hop : CovOp W op) :
    PCL P W (stepInsts l op) := by
  cases op with
  | addInst f hh nm0 => exact hop.elim
  | mainRestart f hh nm0 => exact hop.elim
  | setPos f hh p nm =>
    simp only [stepInsts]
    split
    · exact h
    · split
      · exact h
      · exact pcl_touchInsts (g := fun x => { x with pos := p, elem := nm }) h (fun _ => rfl) (Or.inl hop)
  | setStatus f hh st nm =>
    simp only [stepInsts]
    split
    · exact h
    · split
      · exact h
      · refine pcl_touchInsts (g := fun x => { x with status := st, elem := nm }) h (fun _ => rfl) ?_
        rcases hop with hop | hop
        · exact Or.inl hop
        · exact Or.inr (fun _ => hop)
  | fork f h' nm0 p nm =>
    simp only [stepInsts]
    have h1 : PCL P W (mapInst l f fun i => { i with heads := i.heads ++ [newHead h' nm0] }) := by
      apply pcl_mapInst h
      intro i hi hf
      refine ⟨rfl, fun hh => hh, ?_⟩
      intro hd' hm
      simp only [List.mem_append, List.mem_singleton] at hm
      rcases hm with hm | hm
      · exact Or.inl hm
      · subst hm; exact Or.inr (Or.inl (by rw [hf]; exact hop))
    split
    · exact h1
    · exact pcl_touchInsts (g := fun x => { x with pos := p, elem := nm }) h1 (fun _ => rfl) (Or.inl hop)
  | delHead f hh =>
    apply pcl_mapInst h
    intro i hi hf
    exact ⟨rfl, fun hh => hh, fun hd' hm => Or.inl (List.mem_filter.mp hm).1⟩
  | dropHeads f =>
    simp only [stepInsts]
    split
    · exact h
    · apply pcl_mapInst h
      intro i hi hf
      exact ⟨rfl, fun hh => hh, fun hd' hm => by cases hm⟩
  | rmHead f hh => exact h
  | clearHeads f =>
    apply pcl_mapInst h
    intro i hi hf
    exact ⟨rfl, fun hh => hh, fun hd' hm => by cases hm⟩
  | setFlowStatus f st =>
    apply pcl_mapInst h
    intro i hi hf
    refine ⟨rfl, fun hh => ?_, fun hd' hm => Or.inl hm⟩
    simp only [CovOp] at hop
    rw [hop] at hh; cases hh
  | removeInst f =>
    intro i hi hd hhd hl hne hc
    simp only [stepInsts, List.mem_filter] at hi
    exact h i hi.1 hd hhd hl hne hc

/-- **`PendingCovers W` as a state invariant** of the model: kept by every frame update of `Rest` and by the operations `CovOp W` -/
def covInv (W : List Key) : StInv where
  J s := PendingCovers W s
  okOp := CovOp W
  frame := fun _ _ h hg => pendingCovers_frame hg h
  step := fun s op hg h hop => by
    rw [pendingCovers_iff_pcl] at h ⊢
    show PCL (ParkedAt s) W (step s.ixs.ix op).insts
    rw [insts_step]
    exact pcl_step h hop


/-! ### preservation lemmas (function by function; the ones reached so far) -/

/-- the operations of `_abort_flow` -/
def AbortOp : Op → Prop
  | .dropHeads _ => True
  | .setFlowStatus _ st => st = .stopped
  | _ => False

section cov
attribute [local spec] forInL_keeps mapM_keeps getRest_keeps getIx_keeps pyRaise_keeps unsupported_keeps modifyRest_keeps freshUid_keeps getInst?_keeps getInst_keeps getInstX?_keeps getInstX_keeps modInstX_keeps ctxHolder_keeps getCtx_keeps setCtxVar_keeps getHead?_keeps getHeadX_keeps modHeadX_keeps getCfg_keeps cfgOfInst_keeps getAction?_keeps setAction_keeps pushEvent_keeps pushLeftEvent_keeps valueErr_keeps lookupVar_keeps attrOf_keeps evalExpr_keeps evalIn_keeps evalEmpty_keeps evalArgs_keeps
attribute [local spec] attemptPy_keeps instanceArguments_keeps flowObjOf_keeps flowStartEvent_keeps flowGetEvent_keeps actionGetEvent_keeps tempAction_keeps tempFlowObj_keeps resolveRef_keeps getEventName_keeps getEvent_keeps eventMatchingScore_keeps updateActionStatusByEvent_keeps generateUmimEvent_keeps releaseAction_keeps isReferenceActivated_keeps isChildActivated_keeps failedEvent_keeps restartActivated_keeps logActionOrIntents_keeps nameFor_keeps headScores_keeps headKeyScores_keeps labelPos_keeps pickChoice_keeps applyOp_keeps

/-- `_abort_flow` keeps every invariant that `dropHeads` and `status = STOPPED` keep -/
theorem abortFlow_keeps_abortOps (I : StInv) (hab : ∀ op, AbortOp op → I.okOp op) : ∀ fuel f sc d, Keeps I (abortFlow fuel f sc d)
  | 0, f, sc, d => by unfold abortFlow; mvcgen
  | fuel + 1, f, sc, d => by
    have ih := abortFlow_keeps_abortOps I hab fuel
    have h1 := fun f => setFlowStatus_keeps I f .stopped (hab _ rfl)
    unfold abortFlow dropHeads
    simp only [forIn_eq_forInL]
    mvcgen [ih, h1]
    all_goals (first | (intros; exact hab _ trivial) | rest_frame | (intros; simp))

/-- **`_abort_flow` keeps `PendingCovers W`** for every worklist `W`: heads are only removed, instances only leave the listening statuses -/
theorem abortFlow_pendingCovers (W : List Key) (fuel f sc d) : Keeps (covInv W) (abortFlow fuel f sc d) :=
  abortFlow_keeps_abortOps (covInv W) (by
    intro op h
    cases op <;> simp only [AbortOp] at h <;> simp only [covInv, CovOp]
    subst h; rfl) fuel f sc d

/-- `head.position = p` keeps `PendingCovers W` when the head is in the worklist -/
theorem setHeadPos_pendingCovers (W : List Key) (k : Key) (p : Nat) (hk : k ∈ W) : Keeps (covInv W) (setHeadPos k p) := by
  unfold setHeadPos; mvcgen
  all_goals (intros; exact hk)

/-- `head.status = st` keeps `PendingCovers W` when the head is in the worklist or becomes INACTIVE -/
theorem setHeadStatus_pendingCovers (W : List Key) (k : Key) (st : HeadStatus) (hk : k ∈ W ∨ st = .inactive) :
    Keeps (covInv W) (setHeadStatus k st) := by
  unfold setHeadStatus; mvcgen
  all_goals (intros; exact hk)

end cov
end NemoVerif.CoreVM
