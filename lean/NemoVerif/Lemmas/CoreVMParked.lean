/-
  C09 / CoreVM — `Parked` and the worklist invariant `PendingCovers` (DESIGN §5.2), as far as carried in Lean (phase 4):
  the definitions, `PendingCovers [] ↔ Parked` (what the exit of `run_to_completion` needs), `PendingCovers W` as a state
  invariant (`covInv W`: kept by every frame update of `Rest` and by the index operations `CovOp W`), and the
  preservation lemmas for `_abort_flow`, the two head setters and `slide` (confinement: loose heads stay in the worklist or in the
  sliding flow).  NOT reached: which heads of the sliding flow are loose after `slide` (per element kind), `_advance_head_front`, `_finish_flow` (main restart), `add_new_flow_instance`, `_resolve_action_conflicts`, the loops.
-/
import NemoVerif.Lemmas.CoreVMStop
import NemoVerif.Lemmas.CoreVMKeepsRun
open NemoVerif NemoVerif.CoreIndex
open Std.Do
set_option mvcgen.warning false
namespace NemoVerif.CoreVM


/-- the element at `pos` of the flow of instance `f` is a `match` or a wait-for-heads element -/
def ParkedAt (s : VM) (f : FUid) (pos : Nat) : Prop :=
  ∃ id cfg el, OMap.lookup f (flowIds s.r) = some id ∧ s.r.prog.find id = some cfg ∧ cfg.elements[pos]? = some el ∧
    (el.isMatch = true ∨ ∃ n, el = .waitHeads n)

/-- a head that the loops of `run_to_completion` still have to move: head of a listening instance, not INACTIVE, and not
    (ACTIVE on a match / wait-for-heads element) -/
def Loose (s : VM) (i : Inst) (hd : Head) : Prop :=
  i.status.listening = true ∧ hd.status ≠ .inactive ∧ ¬ (hd.status = .active ∧ ParkedAt s i.uid hd.pos)

/-- **`PendingCovers`** (DESIGN §5.2): every loose head is in the worklist `W` -/
def PendingCovers (W : List Key) (s : VM) : Prop :=
  ∀ i ∈ s.ixs.ix.insts, ∀ hd ∈ i.heads, Loose s i hd → (i.uid, hd.uid) ∈ W

/-- **`Parked`**: every non-INACTIVE head of every listening instance is ACTIVE on a match / wait-for-heads element -/
def Parked (s : VM) : Prop :=
  ∀ i ∈ s.ixs.ix.insts, i.status.listening = true → ∀ hd ∈ i.heads, hd.status ≠ .inactive →
    hd.status = .active ∧ ParkedAt s i.uid hd.pos

/-- with an empty worklist `PendingCovers` IS `Parked` (what the exit of `run_to_completion` needs) -/
theorem parked_iff_pendingCovers_nil (s : VM) : PendingCovers [] s ↔ Parked s := by
  constructor
  · intro h i hi hl hd hhd hne
    apply Classical.byContradiction
    intro hc
    exact absurd (h i hi hd hhd ⟨hl, hne, hc⟩) (by simp)
  · intro h i hi hd hhd ⟨hl, hne, hc⟩
    exact absurd (h i hi hl hd hhd hne) hc

theorem pendingCovers_mono {W W' : List Key} {s : VM} (h : PendingCovers W s) (hs : ∀ k ∈ W, k ∈ W') : PendingCovers W' s :=
  fun i hi hd hhd hl => hs _ (h i hi hd hhd hl)

/-- `ParkedAt` only reads the program and the flow ids: kept by every `RestFrame` update -/
theorem parkedAt_frame {s : VM} {g : Rest → Rest} (hg : RestFrame g) {f : FUid} {pos : Nat} (h : ParkedAt s f pos) :
    ParkedAt { s with r := g s.r } f pos := by
  obtain ⟨id, cfg, el, h1, h2, h3, h4⟩ := h
  exact ⟨id, cfg, el, (hg s.r).2 f id h1, by rw [(hg s.r).1]; exact h2, h3, h4⟩


/-- `PendingCovers W` is kept by every `RestFrame` update (a head can only become parked) -/
theorem pendingCovers_frame {W : List Key} {s : VM} {g : Rest → Rest} (hg : RestFrame g) (h : PendingCovers W s) :
    PendingCovers W { s with r := g s.r } := by
  intro i hi hd hhd ⟨hl, hne, hc⟩
  exact h i hi hd hhd ⟨hl, hne, fun hp => hc ⟨hp.1, parkedAt_frame hg hp.2⟩⟩

/-- the operations under which `PendingCovers W` is kept whatever the state: heads are only removed, instances only leave the
    listening statuses or disappear, and heads in `W` may move freely -/
def CovOpP (M : Key → Prop) : Op → Prop
  | .setPos f h _ _ => M (f, h)
  | .setStatus f h st _ => M (f, h) ∨ st = .inactive
  | .fork f h' _ _ _ => M (f, h')
  | .delHead _ _ => True
  | .dropHeads _ => True
  | .rmHead _ _ => True
  | .clearHeads _ => True
  | .setFlowStatus _ st => st.listening = false
  | .removeInst _ => True
  | .addInst _ _ _ => False
  | .mainRestart _ _ _ => False

/-- `CovOpP` for a worklist -/
abbrev CovOp (W : List Key) : Op → Prop := CovOpP (· ∈ W)


/-! ### `PendingCovers` on the instance list, under the index operations -/

/-- `PendingCovers` with the parking predicate abstracted -/
def PCL (P : FUid → Nat → Prop) (M : Key → Prop) (l : List Inst) : Prop :=
  ∀ i ∈ l, ∀ hd ∈ i.heads, i.status.listening = true → hd.status ≠ .inactive → ¬ (hd.status = .active ∧ P i.uid hd.pos) →
    M (i.uid, hd.uid)

theorem pendingCovers_iff_pcl (W : List Key) (s : VM) : PendingCovers W s ↔ PCL (ParkedAt s) (· ∈ W) s.ixs.ix.insts := by
  constructor
  · intro h i hi hd hhd hl hne hc; exact h i hi hd hhd ⟨hl, hne, hc⟩
  · intro h i hi hd hhd ⟨hl, hne, hc⟩; exact h i hi hd hhd hl hne hc

theorem pcl_mapInst {P} {W : Key → Prop} {l f} {g : Inst → Inst} (h : PCL P W l)
    (hg : ∀ i ∈ l, i.uid = f → (g i).uid = i.uid ∧ ((g i).status.listening = true → i.status.listening = true) ∧
      ∀ hd' ∈ (g i).heads, hd' ∈ i.heads ∨ W (i.uid, hd'.uid) ∨ hd'.status = .inactive) :
    PCL P W (mapInst l f g) := by
  intro i' hi' hd' hhd' hl hne hc
  obtain ⟨i, hi, e⟩ := mem_mapInst hi'
  subst e
  split at hhd' <;> rename_i hf
  · rw [if_pos hf] at hl hc ⊢
    obtain ⟨hu, hls, hh⟩ := hg i hi hf
    rw [hu] at hc ⊢
    rcases hh hd' hhd' with h1 | h1 | h1
    · exact h i hi hd' h1 (hls hl) hne hc
    · exact h1
    · exact absurd h1 hne
  · rw [if_neg hf] at hl hc ⊢
    exact h i hi hd' hhd' hl hne hc

theorem mem_modifyHead {i : Inst} {h : HUid} {g : Head → Head} {hd' : Head} (hm : hd' ∈ (i.modifyHead h g).heads) :
    hd' ∈ i.heads ∨ ∃ x ∈ i.heads, x.uid = h ∧ hd' = g x := by
  unfold Inst.modifyHead at hm
  simp only [List.mem_map] at hm
  obtain ⟨x, hx, e⟩ := hm
  split at e
  · rename_i hxu; exact Or.inr ⟨x, hx, hxu, e.symm⟩
  · subst e; exact Or.inl hx

theorem pcl_touchInsts {P} {W : Key → Prop} {l f h} {g : Head → Head} (hp : PCL P W l) (hg : ∀ x, (g x).uid = x.uid)
    (hw : W (f, h) ∨ ∀ x, (g x).status = .inactive) : PCL P W (touchInsts l f h g) := by
  unfold touchInsts
  split
  · exact hp
  · split
    · exact hp
    · apply pcl_mapInst hp
      intro i hi hf
      refine ⟨rfl, fun hh => hh, ?_⟩
      intro hd' hm
      rcases mem_modifyHead hm with h1 | ⟨x, hx, hxu, e⟩
      · exact Or.inl h1
      · subst e
        rcases hw with hw | hw
        · exact Or.inr (Or.inl (by rw [hg x, hxu, hf]; exact hw))
        · exact Or.inr (Or.inr (hw x))

theorem pcl_step {P : FUid → Nat → Prop} {W : Key → Prop} {l : List Inst} {op : Op} (h : PCL P W l) (hop : CovOpP W op) :
    PCL P W (stepInsts l op) := by
  cases op with
  | addInst f hh nm0 => exact hop.elim
  | mainRestart f hh nm0 => exact hop.elim
  | setPos f hh p nm =>
    simp only [stepInsts]
    split
    · exact h
    · split
      · exact h
      · exact pcl_touchInsts (g := fun x => { x with pos := p, elem := nm }) h (fun _ => rfl) (Or.inl hop)
  | setStatus f hh st nm =>
    simp only [stepInsts]
    split
    · exact h
    · split
      · exact h
      · refine pcl_touchInsts (g := fun x => { x with status := st, elem := nm }) h (fun _ => rfl) ?_
        rcases hop with hop | hop
        · exact Or.inl hop
        · exact Or.inr (fun _ => hop)
  | fork f h' nm0 p nm =>
    simp only [stepInsts]
    have h1 : PCL P W (mapInst l f fun i => { i with heads := i.heads ++ [newHead h' nm0] }) := by
      apply pcl_mapInst h
      intro i hi hf
      refine ⟨rfl, fun hh => hh, ?_⟩
      intro hd' hm
      simp only [List.mem_append, List.mem_singleton] at hm
      rcases hm with hm | hm
      · exact Or.inl hm
      · subst hm; exact Or.inr (Or.inl (by rw [hf]; exact hop))
    split
    · exact h1
    · exact pcl_touchInsts (g := fun x => { x with pos := p, elem := nm }) h1 (fun _ => rfl) (Or.inl hop)
  | delHead f hh =>
    apply pcl_mapInst h
    intro i hi hf
    exact ⟨rfl, fun hh => hh, fun hd' hm => Or.inl (List.mem_filter.mp hm).1⟩
  | dropHeads f =>
    simp only [stepInsts]
    split
    · exact h
    · apply pcl_mapInst h
      intro i hi hf
      exact ⟨rfl, fun hh => hh, fun hd' hm => by cases hm⟩
  | rmHead f hh => exact h
  | clearHeads f =>
    apply pcl_mapInst h
    intro i hi hf
    exact ⟨rfl, fun hh => hh, fun hd' hm => by cases hm⟩
  | setFlowStatus f st =>
    apply pcl_mapInst h
    intro i hi hf
    refine ⟨rfl, fun hh => ?_, fun hd' hm => Or.inl hm⟩
    simp only [CovOpP] at hop
    rw [hop] at hh; cases hh
  | removeInst f =>
    intro i hi hd hhd hl hne hc
    simp only [stepInsts, List.mem_filter] at hi
    exact h i hi.1 hd hhd hl hne hc

/-- **`PendingCovers W` as a state invariant** of the model: kept by every frame update of `Rest` and by the operations `CovOp W` -/
def covInv (W : List Key) : StInv where
  J s := PendingCovers W s
  okOp := CovOp W
  frame := fun _ _ h hg => pendingCovers_frame hg h
  step := fun s op hg h hop => by
    rw [pendingCovers_iff_pcl] at h ⊢
    show PCL (ParkedAt s) (· ∈ W) (step s.ixs.ix op).insts
    rw [insts_step]
    exact pcl_step h hop


/-- every loose head is in the worklist `W` **or belongs to flow `f`** (the flow whose head is sliding) -/
def CoversOrFlow (f : FUid) (W : List Key) (s : VM) : Prop :=
  ∀ i ∈ s.ixs.ix.insts, ∀ hd ∈ i.heads, Loose s i hd → i.uid = f ∨ (i.uid, hd.uid) ∈ W

theorem coversOrFlow_iff_pcl (f : FUid) (W : List Key) (s : VM) :
    CoversOrFlow f W s ↔ PCL (ParkedAt s) (fun k => k.1 = f ∨ k ∈ W) s.ixs.ix.insts := by
  constructor
  · intro h i hi hd hhd hl hne hc; exact h i hi hd hhd ⟨hl, hne, hc⟩
  · intro h i hi hd hhd ⟨hl, hne, hc⟩; exact h i hi hd hhd hl hne hc

theorem coversOrFlow_of_pendingCovers {f W s} (h : PendingCovers W s) : CoversOrFlow f W s :=
  fun i hi hd hhd hl => Or.inr (h i hi hd hhd hl)

/-- the operations `slide` emits for head(s) of flow `f`: moves / forks / deletions of heads of `f`, the `Abort` element's
    `status = STOPPING` for `f`, and the operations of `_abort_flow` for scope members -/
def SlideOp (f : FUid) : Op → Prop
  | .setPos f' _ _ _ => f' = f
  | .setStatus f' _ _ _ => f' = f
  | .fork f' _ _ _ _ => f' = f
  | .delHead f' _ => f' = f
  | .setFlowStatus f' st => (f' = f ∧ st = .stopping) ∨ st = .stopped
  | .dropHeads _ => True
  | _ => False

/-- "loose heads are confined to `W` and flow `f`" as a state invariant, kept by the operations of `slide` on `f` -/
def covFlowInv (f : FUid) (W : List Key) : StInv where
  J s := CoversOrFlow f W s
  okOp := SlideOp f
  frame := fun s g h hg => by
    intro i hi hd hhd ⟨hl, hne, hc⟩
    exact h i hi hd hhd ⟨hl, hne, fun hp => hc ⟨hp.1, parkedAt_frame hg hp.2⟩⟩
  step := fun s op hg h hop => by
    rw [coversOrFlow_iff_pcl] at h ⊢
    show PCL (ParkedAt s) (fun k => k.1 = f ∨ k ∈ W) (step s.ixs.ix op).insts
    rw [insts_step]
    apply pcl_step h
    cases op <;> simp only [SlideOp] at hop <;> simp only [CovOpP]
    · exact Or.inl hop
    · exact Or.inl (Or.inl hop)
    · exact Or.inl hop
    · rcases hop with ⟨_, h2⟩ | h2 <;> subst h2 <;> rfl

/-! ### preservation lemmas (function by function; the ones reached so far) -/

/-- the operations of `_abort_flow` -/
def AbortOp : Op → Prop
  | .dropHeads _ => True
  | .setFlowStatus _ st => st = .stopped
  | _ => False

section cov
attribute [local spec] forInL_keeps mapM_keeps getRest_keeps getIx_keeps pyRaise_keeps unsupported_keeps modifyRest_keeps freshUid_keeps getInst?_keeps getInst_keeps getInstX?_keeps getInstX_keeps modInstX_keeps ctxHolder_keeps getCtx_keeps setCtxVar_keeps getHead?_keeps getHeadX_keeps modHeadX_keeps getCfg_keeps cfgOfInst_keeps getAction?_keeps setAction_keeps pushEvent_keeps pushLeftEvent_keeps valueErr_keeps lookupVar_keeps attrOf_keeps evalExpr_keeps evalIn_keeps evalEmpty_keeps evalArgs_keeps
attribute [local spec] attemptPy_keeps instanceArguments_keeps flowObjOf_keeps flowStartEvent_keeps flowGetEvent_keeps actionGetEvent_keeps tempAction_keeps tempFlowObj_keeps resolveRef_keeps getEventName_keeps getEvent_keeps eventMatchingScore_keeps updateActionStatusByEvent_keeps generateUmimEvent_keeps releaseAction_keeps isReferenceActivated_keeps deactivatesRef_keeps isChildActivated_keeps failedEvent_keeps restartActivated_keeps logActionOrIntents_keeps nameFor_keeps headScores_keeps headKeyScores_keeps labelPos_keeps pickChoice_keeps applyOp_keeps

/-- `_abort_flow` keeps every invariant that `dropHeads` and `status = STOPPED` keep -/
theorem abortFlow_keeps_abortOps (I : StInv) (hab : ∀ op, AbortOp op → I.okOp op) : ∀ fuel f sc d, Keeps I (abortFlow fuel f sc d)
  | 0, f, sc, d => by unfold abortFlow; mvcgen
  | fuel + 1, f, sc, d => by
    have ih := abortFlow_keeps_abortOps I hab fuel
    have h1 := fun f => setFlowStatus_keeps I f .stopped (hab _ rfl)
    unfold abortFlow dropHeads
    simp only [forIn_eq_forInL]
    mvcgen [ih, h1]
    all_goals (first | (intros; exact hab _ trivial) | rest_frame | (intros; simp))

/-- **`_abort_flow` keeps `PendingCovers W`** for every worklist `W`: heads are only removed, instances only leave the listening statuses -/
theorem abortFlow_pendingCovers (W : List Key) (fuel f sc d) : Keeps (covInv W) (abortFlow fuel f sc d) :=
  abortFlow_keeps_abortOps (covInv W) (by
    intro op h
    cases op <;> simp only [AbortOp] at h <;> simp only [covInv, CovOp, CovOpP]
    subst h; rfl) fuel f sc d

/-- `head.position = p` keeps `PendingCovers W` when the head is in the worklist -/
theorem setHeadPos_pendingCovers (W : List Key) (k : Key) (p : Nat) (hk : k ∈ W) : Keeps (covInv W) (setHeadPos k p) := by
  unfold setHeadPos; mvcgen
  all_goals (intros; exact hk)

/-- `head.status = st` keeps `PendingCovers W` when the head is in the worklist or becomes INACTIVE -/
theorem setHeadStatus_pendingCovers (W : List Key) (k : Key) (st : HeadStatus) (hk : k ∈ W ∨ st = .inactive) :
    Keeps (covInv W) (setHeadStatus k st) := by
  unfold setHeadStatus; mvcgen
  all_goals (intros; exact hk)

end cov

/-! ### `slide`: loose heads are confined to the worklist and the sliding flow -/
section slideops
attribute [local spec] forInL_keeps mapM_keeps getRest_keeps getIx_keeps pyRaise_keeps unsupported_keeps modifyRest_keeps freshUid_keeps getInst?_keeps getInst_keeps getInstX?_keeps getInstX_keeps modInstX_keeps ctxHolder_keeps getCtx_keeps setCtxVar_keeps getHead?_keeps getHeadX_keeps modHeadX_keeps getCfg_keeps cfgOfInst_keeps getAction?_keeps setAction_keeps pushEvent_keeps pushLeftEvent_keeps valueErr_keeps lookupVar_keeps attrOf_keeps evalExpr_keeps evalIn_keeps evalEmpty_keeps evalArgs_keeps
attribute [local spec] attemptPy_keeps instanceArguments_keeps flowObjOf_keeps flowStartEvent_keeps flowGetEvent_keeps actionGetEvent_keeps tempAction_keeps tempFlowObj_keeps resolveRef_keeps getEventName_keeps getEvent_keeps eventMatchingScore_keeps updateActionStatusByEvent_keeps generateUmimEvent_keeps releaseAction_keeps isReferenceActivated_keeps deactivatesRef_keeps isChildActivated_keeps failedEvent_keeps restartActivated_keeps logActionOrIntents_keeps nameFor_keeps headScores_keeps headKeyScores_keeps labelPos_keeps pickChoice_keeps applyOp_keeps

variable (I : StInv) (f : FUid) (hops : ∀ op, SlideOp f op → I.okOp op)
include hops

theorem setHeadPos_keeps_flow (k : Key) (hk : k.1 = f) (p : Nat) : Keeps I (setHeadPos k p) := by
  unfold setHeadPos; mvcgen
  all_goals (intros; apply hops; exact hk)

theorem setHeadStatus_keeps_flow (k : Key) (hk : k.1 = f) (st : HeadStatus) : Keeps I (setHeadStatus k st) := by
  unfold setHeadStatus; mvcgen
  all_goals (intros; apply hops; exact hk)

set_option maxHeartbeats 4000000 in
/-- one step of `slide` for a head of `f` keeps every invariant that the operations `SlideOp f` keep -/
theorem slideStep_keeps_ops (fuel : Nat) (h : HUid) : Keeps I (slideStep fuel f h) := by
  have hab := fun fuel => abortFlow_keeps_abortOps I (fun op ho => hops op (by
    cases op <;> simp only [AbortOp] at ho <;> simp only [SlideOp]
    exact Or.inr ho)) fuel
  have hch := fun fuel => childHeadUids_keeps I fuel
  have hsp := fun k (hk : k.1 = f) p => setHeadPos_keeps_flow I f hops k hk p
  have hss := fun k (hk : k.1 = f) st => setHeadStatus_keeps_flow I f hops k hk st
  have hsf := setFlowStatus_keeps I f .stopping (hops _ (Or.inl ⟨rfl, rfl⟩))
  unfold slideStep
  simp only [forIn_eq_forInL]
  mvcgen [hab, hch, hsp, hss, hsf]
  all_goals (first
    | rfl
    | (intros; rfl)
    | (intros; apply hops; simp [SlideOp])
    | rest_frame
    | (intros; trivial)
    | skip)


theorem slideLoop_keeps_ops (h : HUid) : ∀ fuel acc, Keeps I (slideLoop fuel f h acc)
  | 0, acc => by unfold slideLoop; mvcgen
  | fuel + 1, acc => by
    have ih := slideLoop_keeps_ops h fuel
    have hs := slideStep_keeps_ops I f hops fuel h
    unfold slideLoop; mvcgen [ih, hs]

theorem slide_keeps_ops (fuel : Nat) (h : HUid) : Keeps I (slide fuel f h) := by
  unfold slide; exact slideLoop_keeps_ops I f hops h fuel []

end slideops

/-- **`slide` and `PendingCovers`**: while head `h` of flow `f` slides (any element kind, forks, merges, scope ends with their
    `_abort_flow`s, the `Abort` element), every loose head stays in the worklist `W` or belongs to `f` — on every outcome -/
theorem slide_coversOrFlow (f : FUid) (W : List Key) (fuel : Nat) (h : HUid) : Keeps (covFlowInv f W) (slide fuel f h) :=
  slide_keeps_ops (covFlowInv f W) f (fun _ ho => ho) fuel h


/-! ### new instances and the restarted main flow park on element 0 -/

theorem lookup_append_of_none {κ α} [DecidableEq κ] (k : κ) (v : α) (l : List (κ × α)) (h : OMap.lookup k l = none) :
    OMap.lookup k (l ++ [(k, v)]) = some v := by
  induction l with
  | nil => simp [OMap.lookup]
  | cons e rest ih =>
    obtain ⟨k', v'⟩ := e
    simp only [OMap.lookup, List.cons_append] at *
    split at h
    · cases h
    · rename_i hne; simp only [hne, if_false]; exact ih h

/-- `PendingCovers W` for a fixed program -/
def covProgInv (W : List Key) (p0 : Prog) : StInv where
  J s := s.r.prog = p0 ∧ PendingCovers W s
  okOp := CovOp W
  frame := fun s g h hg => ⟨by rw [(hg s.r).1]; exact h.1, pendingCovers_frame hg h.2⟩
  step := fun s op hg h hop => ⟨h.1, (covInv W).step s op hg h.2 hop⟩

/-- the new instance of `add_new_flow_instance` parks on element 0 (a `match`): `PendingCovers` is kept by the `addInst` operation
    once the instance's flow id is in place -/
theorem pendingCovers_addInst {W : List Key} {s : VM} {uid : FUid} {hu : HUid} {nm0 : Option String} {cfg : FlowCfg}
    {spec : Spec} {internal : Bool}
    (hg : (Op.addInst uid hu nm0).guard s.ixs.ix = true) (h : PendingCovers W s)
    (hid : OMap.lookup uid (flowIds s.r) = some cfg.id) (hp : s.r.prog.find cfg.id = some cfg)
    (h0 : cfg.elements[0]? = some (.matchOp spec internal)) :
    PendingCovers W { s with ixs := s.ixs.apply (.addInst uid hu nm0) hg } := by
  rw [pendingCovers_iff_pcl] at h ⊢
  show PCL (ParkedAt s) (· ∈ W) (step s.ixs.ix (.addInst uid hu nm0)).insts
  rw [insts_step]
  intro i hi hd hhd hl hne hc
  simp only [stepInsts, List.mem_append, List.mem_singleton] at hi
  rcases hi with hi | hi
  · exact h i hi hd hhd hl hne hc
  · subst hi
    simp only [List.mem_singleton] at hhd
    subst hhd
    exfalso
    apply hc
    exact ⟨rfl, cfg.id, cfg, _, hid, hp, h0, Or.inl rfl⟩


/-- the restarted main flow parks on element 0 as well -/
theorem pendingCovers_mainRestart {W : List Key} {s : VM} {f : FUid} {hu : HUid} {nm0 : Option String} {cfg : FlowCfg}
    {spec : Spec} {internal : Bool}
    (hg : (Op.mainRestart f hu nm0).guard s.ixs.ix = true) (h : PendingCovers W s)
    (hid : OMap.lookup f (flowIds s.r) = some cfg.id) (hp : s.r.prog.find cfg.id = some cfg)
    (h0 : cfg.elements[0]? = some (.matchOp spec internal)) :
    PendingCovers W { s with ixs := s.ixs.apply (.mainRestart f hu nm0) hg } := by
  rw [pendingCovers_iff_pcl] at h ⊢
  show PCL (ParkedAt s) (· ∈ W) (step s.ixs.ix (.mainRestart f hu nm0)).insts
  rw [insts_step]
  simp only [stepInsts]
  split
  · exact h
  · intro i' hi' hd hhd hl hne hc
    obtain ⟨i, hi, e⟩ := mem_mapInst hi'
    subst e
    split at hhd <;> rename_i hf
    · simp only [List.mem_singleton] at hhd
      subst hhd
      exfalso
      apply hc
      rw [if_pos hf]
      exact ⟨rfl, cfg.id, cfg, _, by rw [hf]; exact hid, hp, h0, Or.inl rfl⟩
    · rw [if_neg hf] at hl hc ⊢
      exact h i hi hd hhd hl hne hc

/-- appending the extras of a NEW instance (no entry under `uid` yet) keeps `PendingCovers` and puts its flow id in place -/
theorem covProg_append {W : List Key} {p0 : Prog} {s s' : VM} {uid : FUid} {x : InstX} {id : String}
    (h : (covProgInv W p0).J s) (hnone : ¬ (OMap.lookup uid s.r.fx).isSome = true)
    (hix : s'.ixs = s.ixs) (hprog : s'.r.prog = s.r.prog) (hfx : s'.r.fx = s.r.fx ++ [(uid, x)]) (hid : x.flowId = id) :
    (covProgInv W p0).J s' ∧ OMap.lookup uid (flowIds s'.r) = some id := by
  subst hid
  refine ⟨⟨by rw [hprog]; exact h.1, ?_⟩, ?_⟩
  · intro i hi hd hhd ⟨hl, hne, hc⟩
    rw [hix] at hi
    refine h.2 i hi hd hhd ⟨hl, hne, fun hp => hc ⟨hp.1, ?_⟩⟩
    obtain ⟨id, cfg, el, h1, h2, h3, h4⟩ := hp.2
    refine ⟨id, cfg, el, ?_, by rw [hprog]; exact h2, h3, h4⟩
    simp only [flowIds, hfx, List.map_append]
    exact lookup_append_of_some _ _ _ _ h1
  · simp only [flowIds, hfx, List.map_append, List.map_cons, List.map_nil]
    apply lookup_append_of_none
    rw [lookup_flowIds, Option.not_isSome_iff_eq_none.mp hnone]; rfl

theorem covProg_append_J {W : List Key} {p0 : Prog} {s s' : VM} {uid : FUid} {x : InstX}
    (h : (covProgInv W p0).J s) (hnone : ¬ (OMap.lookup uid s.r.fx).isSome = true)
    (hix : s'.ixs = s.ixs) (hprog : s'.r.prog = s.r.prog) (hfx : s'.r.fx = s.r.fx ++ [(uid, x)]) :
    (covProgInv W p0).J s' := (covProg_append h hnone hix hprog hfx rfl).1

section addnew
attribute [local spec] forInL_keeps mapM_keeps freshUid_keeps modInstX_keeps ctxHolder_keeps getCtx_keeps setCtxVar_keeps modHeadX_keeps getCfg_keeps valueErr_keeps lookupVar_keeps attrOf_keeps evalExpr_keeps evalIn_keeps evalEmpty_keeps evalArgs_keeps instanceArguments_keeps

set_option maxHeartbeats 4000000 in
/-- **`add_new_flow_instance` keeps `PendingCovers W`** when the flow's first element is a `match` (true of every flow after
    `expand_elements`) and the configuration is the program's -/
theorem addNewFlowInstance_pendingCovers (W : List Key) (p0 : Prog) (uid : FUid) (cfg : FlowCfg) (hp : String)
    (args : List (String × Val)) (hcfg : p0.find cfg.id = some cfg) (spec : Spec) (internal : Bool)
    (h0 : cfg.elements[0]? = some (.matchOp spec internal)) :
    Keeps (covProgInv W p0) (addNewFlowInstance uid cfg hp args) := by
  have hadd : ∀ hu nm0, ⦃fun s => ⌜(covProgInv W p0).J s ∧ OMap.lookup uid (flowIds s.r) = some cfg.id⌝⦄
      applyOp (.addInst uid hu nm0) ⦃post⟨fun _ s => ⌜(covProgInv W p0).J s⌝, fun _ s => ⌜(covProgInv W p0).J s⌝⟩⦄ := by
    intro hu nm0
    apply applyOp_wp
    · intro s hg ⟨⟨h1, h2⟩, h3⟩
      exact ⟨h1, pendingCovers_addInst hg h2 h3 (by rw [h1]; exact hcfg) h0⟩
    · intro s hh; exact hh.1
  unfold addNewFlowInstance
  mvcgen [hadd, getInstX?, getRest, modifyRest, pyRaise, unsupported]
  all_goals (first
    | (intros; trivial)
    | (rename_i t ; simp only [t]; first | (apply covProg_append (s := _) <;> first | assumption | rfl) | (apply covProg_append_J (s := _) <;> first | assumption | rfl))
    | (rename_i t _; simp only [t]; first | (apply covProg_append (s := _) <;> first | assumption | rfl) | (apply covProg_append_J (s := _) <;> first | assumption | rfl))
    | (rename_i t _ _; simp only [t]; first | (apply covProg_append (s := _) <;> first | assumption | rfl) | (apply covProg_append_J (s := _) <;> first | assumption | rfl))
    | (rename_i t _ _ _; simp only [t]; first | (apply covProg_append (s := _) <;> first | assumption | rfl) | (apply covProg_append_J (s := _) <;> first | assumption | rfl))
    | (rename_i t _ _ _ _; simp only [t]; first | (apply covProg_append (s := _) <;> first | assumption | rfl) | (apply covProg_append_J (s := _) <;> first | assumption | rfl))
    | (rename_i t _ _ _ _ _; simp only [t]; first | (apply covProg_append (s := _) <;> first | assumption | rfl) | (apply covProg_append_J (s := _) <;> first | assumption | rfl))
    | (rename_i t _ _ _ _ _ _; simp only [t]; first | (apply covProg_append (s := _) <;> first | assumption | rfl) | (apply covProg_append_J (s := _) <;> first | assumption | rfl))
    | (rename_i t _ _ _ _ _ _ _; simp only [t]; first | (apply covProg_append (s := _) <;> first | assumption | rfl) | (apply covProg_append_J (s := _) <;> first | assumption | rfl))
    | (rename_i t _ _ _ _ _ _ _ _; simp only [t]; first | (apply covProg_append (s := _) <;> first | assumption | rfl) | (apply covProg_append_J (s := _) <;> first | assumption | rfl))
    | (rename_i t _ _ _ _ _ _ _ _ _; simp only [t]; first | (apply covProg_append (s := _) <;> first | assumption | rfl) | (apply covProg_append_J (s := _) <;> first | assumption | rfl))
    | (rename_i t _ _ _ _ _ _ _ _ _ _; simp only [t]; first | (apply covProg_append (s := _) <;> first | assumption | rfl) | (apply covProg_append_J (s := _) <;> first | assumption | rfl))
    | (rename_i t _ _ _ _ _ _ _ _ _ _ _; simp only [t]; first | (apply covProg_append (s := _) <;> first | assumption | rfl) | (apply covProg_append_J (s := _) <;> first | assumption | rfl))
    | (rename_i t _ _ _ _ _ _ _ _ _ _ _ _; simp only [t]; first | (apply covProg_append (s := _) <;> first | assumption | rfl) | (apply covProg_append_J (s := _) <;> first | assumption | rfl))
    | skip)
end addnew



/-! ### `_finish_flow` -/

/-- every flow of the program starts with a `match` element (true after `expand_elements`: `match StartFlow(flow_id=…)`) -/
def FirstIsMatch (p : Prog) : Prop := ∀ cfg ∈ p.flows, ∃ sp i, cfg.elements[0]? = some (.matchOp sp i)

theorem find_mem {p : Prog} {id : String} {cfg : FlowCfg} (h : p.find id = some cfg) : cfg ∈ p.flows ∧ cfg.id = id := by
  unfold Prog.find at h
  exact ⟨List.mem_of_find?_eq_some h, by simpa using List.find?_some h⟩

/-- `cfgOfInst f`, precisely: the answer is the program's configuration of the flow id of `f` -/
theorem cfgOfInst_facts (W : List Key) (p0 : Prog) (f : FUid) :
    ⦃fun s => ⌜(covProgInv W p0).J s⌝⦄ cfgOfInst f
    ⦃post⟨fun cfg s => ⌜(covProgInv W p0).J s ∧ OMap.lookup f (flowIds s.r) = some cfg.id ∧ p0.find cfg.id = some cfg⌝,
          fun _ s => ⌜(covProgInv W p0).J s⌝⟩⦄ := by
  unfold cfgOfInst getInstX getInstX? getCfg
  mvcgen [getRest, pyRaise]
  rename_i s0 hs x hx cfg hcfg
  have hid := (find_mem hcfg).2
  refine ⟨hs, ?_, ?_⟩
  · simp only [flowIds, lookup_flowIds, hx, Option.map_some, hid]
  · rw [hid, ← hs.1]; exact hcfg


section fin
attribute [local spec] forInL_keeps mapM_keeps getRest_keeps getIx_keeps pyRaise_keeps unsupported_keeps modifyRest_keeps freshUid_keeps getInst?_keeps getInst_keeps getInstX?_keeps getInstX_keeps modInstX_keeps ctxHolder_keeps getCtx_keeps setCtxVar_keeps getHead?_keeps getHeadX_keeps modHeadX_keeps getCfg_keeps getAction?_keeps setAction_keeps pushEvent_keeps pushLeftEvent_keeps valueErr_keeps lookupVar_keeps attrOf_keeps evalExpr_keeps evalIn_keeps evalEmpty_keeps evalArgs_keeps
attribute [local spec] attemptPy_keeps instanceArguments_keeps flowObjOf_keeps flowStartEvent_keeps flowGetEvent_keeps actionGetEvent_keeps tempAction_keeps tempFlowObj_keeps resolveRef_keeps getEventName_keeps getEvent_keeps eventMatchingScore_keeps updateActionStatusByEvent_keeps generateUmimEvent_keeps releaseAction_keeps isReferenceActivated_keeps deactivatesRef_keeps isChildActivated_keeps failedEvent_keeps restartActivated_keeps logActionOrIntents_keeps nameFor_keeps headScores_keeps headKeyScores_keeps labelPos_keeps pickChoice_keeps

set_option maxHeartbeats 4000000 in
/-- **`_finish_flow` keeps `PendingCovers W`** (every worklist) in programs whose flows start with a `match`: the children are
    aborted, the heads dropped, the instance leaves the listening statuses — or, for the main flow, restarts parked on element 0 -/
theorem finishFlow_pendingCovers (W : List Key) (p0 : Prog) (hfirst : FirstIsMatch p0) (fuel : Nat) (f : FUid) (sc : List Score) (d : Bool) :
    Keeps (covProgInv W p0) (finishFlow fuel f sc d) := by
  have hab : ∀ op, AbortOp op → (covProgInv W p0).okOp op := by
    intro op h
    cases op <;> simp only [AbortOp] at h <;> simp only [covProgInv, CovOp, CovOpP]
    subst h; rfl
  have h1 := abortFlow_keeps_abortOps (covProgInv W p0) hab fuel
  have h2 := fun f => setFlowStatus_keeps (covProgInv W p0) f .finished (by simp only [covProgInv, CovOp, CovOpP]; rfl)
  have h3 := cfgOfInst_facts W p0
  have hmr : ∀ (cfg : FlowCfg) hu nm0, ⦃fun s => ⌜(covProgInv W p0).J s ∧ OMap.lookup f (flowIds s.r) = some cfg.id ∧ p0.find cfg.id = some cfg⌝⦄
      applyOp (.mainRestart f hu nm0) ⦃post⟨fun _ s => ⌜(covProgInv W p0).J s⌝, fun _ s => ⌜(covProgInv W p0).J s⌝⟩⦄ := by
    intro cfg hu nm0
    apply applyOp_wp
    · intro s hg ⟨⟨hp, hc⟩, hid, hfind⟩
      obtain ⟨sp, i, h0⟩ := hfirst cfg (find_mem hfind).1
      exact ⟨hp, pendingCovers_mainRestart hg hc hid (by rw [hp]; exact hfind) h0⟩
    · intro s hh; exact hh.1
  have hdrop : ∀ f, Keeps (covProgInv W p0) (applyOp (.dropHeads f)) := fun f => applyOp_keeps _ _ trivial
  unfold finishFlow dropHeads
  simp only [forIn_eq_forInL]
  mvcgen [h1, h2, h3, hmr, hdrop]
  all_goals (first | rest_frame | (intros; trivial) | (intros; simp) | skip)
end fin


/-! ### `_process_internal_events_without_default_matchers` -/

/-- `add_new_flow_instance` for a configuration of a program whose flows start with a `match` -/
theorem addNewFlowInstance_pendingCovers' (W : List Key) (p0 : Prog) (hfirst : FirstIsMatch p0) (uid : FUid) (cfg : FlowCfg)
    (hp : String) (args : List (String × Val)) (hcfg : p0.find cfg.id = some cfg) :
    Keeps (covProgInv W p0) (addNewFlowInstance uid cfg hp args) := by
  obtain ⟨sp, i, h0⟩ := hfirst cfg (find_mem hcfg).1
  exact addNewFlowInstance_pendingCovers W p0 uid cfg hp args hcfg sp i h0

/-- `getCfg`, precisely -/
theorem getCfg_facts (W : List Key) (p0 : Prog) (id : String) :
    ⦃fun s => ⌜(covProgInv W p0).J s⌝⦄ getCfg id
    ⦃post⟨fun cfg s => ⌜(covProgInv W p0).J s ∧ p0.find cfg.id = some cfg⌝, fun _ s => ⌜(covProgInv W p0).J s⌝⟩⦄ := by
  unfold getCfg getRest
  mvcgen [pyRaise]
  rename_i s0 hs cfg hcfg
  refine ⟨hs, ?_⟩
  rw [(find_mem hcfg).2, ← hs.1]; exact hcfg


section pie
attribute [local spec] forInL_keeps mapM_keeps getIx_keeps pyRaise_keeps unsupported_keeps modifyRest_keeps freshUid_keeps getInst?_keeps getInst_keeps getInstX?_keeps getInstX_keeps modInstX_keeps ctxHolder_keeps getCtx_keeps setCtxVar_keeps getHead?_keeps getHeadX_keeps modHeadX_keeps getAction?_keeps setAction_keeps pushEvent_keeps pushLeftEvent_keeps valueErr_keeps lookupVar_keeps attrOf_keeps evalExpr_keeps evalIn_keeps evalEmpty_keeps evalArgs_keeps
attribute [local spec] attemptPy_keeps instanceArguments_keeps flowObjOf_keeps flowStartEvent_keeps flowGetEvent_keeps actionGetEvent_keeps tempAction_keeps tempFlowObj_keeps resolveRef_keeps getEventName_keeps getEvent_keeps eventMatchingScore_keeps updateActionStatusByEvent_keeps generateUmimEvent_keeps releaseAction_keeps isReferenceActivated_keeps deactivatesRef_keeps isChildActivated_keeps failedEvent_keeps restartActivated_keeps logActionOrIntents_keeps nameFor_keeps headScores_keeps headKeyScores_keeps labelPos_keeps pickChoice_keeps argStr_keeps

set_option maxHeartbeats 8000000 in
/-- **`_process_internal_events_without_default_matchers` keeps `PendingCovers W`** (StartFlow: the new instance parks at once;
    FinishFlow / StopFlow by uid or by name: `_finish_flow` / `_abort_flow`) -/
theorem processInternalEvent_pendingCovers (W : List Key) (p0 : Prog) (hfirst : FirstIsMatch p0) (fuel : Nat) (e : Event) :
    Keeps (covProgInv W p0) (processInternalEvent fuel e) := by
  have hab : ∀ op, AbortOp op → (covProgInv W p0).okOp op := by
    intro op h
    cases op <;> simp only [AbortOp] at h <;> simp only [covProgInv, CovOp, CovOpP]
    subst h; rfl
  have h1 := abortFlow_keeps_abortOps (covProgInv W p0) hab fuel
  have h2 := finishFlow_pendingCovers W p0 hfirst fuel
  have h3 := addNewFlowInstance_pendingCovers' W p0 hfirst
  have h4 := getCfg_facts W p0
  have h5 := referenceActivatedInstance_keeps (covProgInv W p0)
  unfold processInternalEvent
  simp only [forIn_eq_forInL]
  mvcgen [h1, h2, h3, h4, h5, getRest]
  all_goals (first
    | rest_frame
    | (intros; trivial)
    | assumption
    | (rename_i hh ; first | exact hh.1 | exact hh.2)
    | (rename_i hh _; first | exact hh.1 | exact hh.2)
    | (rename_i hh _ _; first | exact hh.1 | exact hh.2)
    | (rename_i hh _ _ _; first | exact hh.1 | exact hh.2)
    | (rename_i hh _ _ _ _; first | exact hh.1 | exact hh.2)
    | (rename_i hh _ _ _ _ _; first | exact hh.1 | exact hh.2)
    | (rename_i hh _ _ _ _ _ _; first | exact hh.1 | exact hh.2)
    | (rename_i hh _ _ _ _ _ _ _; first | exact hh.1 | exact hh.2)
    | (intros; simp)
    | skip)
end pie

end NemoVerif.CoreVM
