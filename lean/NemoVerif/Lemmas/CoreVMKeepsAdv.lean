/-
  C09 / CoreVM — `_advance_head_front` keeps every state invariant that all index operations keep
  (e.g. `cfgInv`: the flow configuration of an instance never changes).
-/
import NemoVerif.Lemmas.CoreVMKeeps
open NemoVerif NemoVerif.CoreIndex
open Std.Do
set_option mvcgen.warning false
namespace NemoVerif.CoreVM


section adv
attribute [local spec] forInL_keeps mapM_keeps getRest_keeps getIx_keeps pyRaise_keeps unsupported_keeps modifyRest_keeps freshUid_keeps getInst?_keeps getInst_keeps getInstX?_keeps getInstX_keeps modInstX_keeps ctxHolder_keeps getCtx_keeps setCtxVar_keeps getHead?_keeps getHeadX_keeps modHeadX_keeps getCfg_keeps cfgOfInst_keeps getAction?_keeps setAction_keeps pushEvent_keeps pushLeftEvent_keeps valueErr_keeps lookupVar_keeps attrOf_keeps evalExpr_keeps evalIn_keeps evalEmpty_keeps evalArgs_keeps
attribute [local spec] attemptPy_keeps instanceArguments_keeps flowObjOf_keeps flowStartEvent_keeps flowGetEvent_keeps actionGetEvent_keeps tempAction_keeps tempFlowObj_keeps resolveRef_keeps getEventName_keeps getEvent_keeps eventMatchingScore_keeps updateActionStatusByEvent_keeps generateUmimEvent_keeps releaseAction_keeps isReferenceActivated_keeps deactivatesRef_keeps isChildActivated_keeps failedEvent_keeps restartActivated_keeps logActionOrIntents_keeps nameFor_keeps headScores_keeps headKeyScores_keeps labelPos_keeps pickChoice_keeps applyOp_keeps

variable (I : StInv) (hany : ∀ op, I.okOp op)
include hany

set_option maxHeartbeats 8000000 in
/-- `_advance_head_front` keeps every invariant that all operations keep -/
theorem advanceHeadFront_keeps : ∀ fuel heads, Keeps I (advanceHeadFront fuel heads)
  | 0, heads => by unfold advanceHeadFront; mvcgen
  | fuel + 1, heads => by
    have hall : ∀ op, NotStoppingOp op → I.okOp op := fun op _ => hany op
    have hend := hend_of_hall I hall
    have ih := advanceHeadFront_keeps fuel
    have h1 := abortFlow_keeps I hend fuel
    have h2 := finishFlow_keeps I hend fuel
    have h3 := fun f h => slide_keeps I hall fuel f h (hany _)
    have h4 := setHeadPos_keeps I hall
    have h5 := setHeadStatus_keeps I hall
    have h6 := fun f st => setFlowStatus_keeps I f st (hany _)
    unfold advanceHeadFront
    simp only [forIn_eq_forInL]
    mvcgen [ih, h1, h2, h3, h4, h5, h6]
    all_goals (first | keeps_side hall | skip)
end adv

end NemoVerif.CoreVM
