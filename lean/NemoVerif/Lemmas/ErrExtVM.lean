/-
  C10 on CoreVM: the relation `Ext` (nothing that is queued is lost, no instance disappears, the program is kept) through
  `_finish_flow`, `slide` (all element kinds) and `_advance_head_front` as a whole — in every outcome.
-/
import NemoVerif.Lemmas.ErrRestartVM
set_option linter.unusedSimpArgs false
set_option linter.unusedVariables false
namespace NemoVerif.CoreVM
open NemoVerif NemoVerif.CoreIndex

/-! ### `Ext` (nothing queued is lost, no instance disappears) through `slide` and `_advance_head_front` -/

/-- a write to `Rest` that keeps queue, `fx` and program -/
theorem Ext.modifyRest_keep (g : Rest → Rest) (hq : ∀ r, (g r).queue = r.queue) (hfx : ∀ r, (g r).fx = r.fx)
    (hp : ∀ r, (g r).prog = r.prog) : Pres Ext (CoreVM.modifyRest g) := by
  apply Ext.modifyRest
  · intro r; exact ⟨[], [], by simp [hq]⟩
  · intro r k h; rw [hfx]; exact h
  · exact hp

syntax "ext2_leaf" : tactic
macro_rules | `(tactic| ext2_leaf) => `(tactic| first
  | ext_leaf
  | (apply Pres.of_same Ext.uid; same_leaf)
  | exact Ext.applyOp _ (fun _ h => Op.noConfusion h)
  | (refine Ext.modifyRest_keep _ ?_ ?_ ?_ <;> (intro r; rfl)))

theorem Ext.setHeadPos (k : Key) (p : Nat) : Pres Ext (setHeadPos k p) := by
  unfold CoreVM.setHeadPos; pres_search Ext extPO (ext2_leaf)
theorem Ext.setHeadStatus (k : Key) (st : HeadStatus) : Pres Ext (setHeadStatus k st) := by
  unfold CoreVM.setHeadStatus; pres_search Ext extPO (ext2_leaf)
theorem Ext.modHeadX (k : Key) (u) : Pres Ext (modHeadX k u) := by
  unfold CoreVM.modHeadX; pres_search Ext extPO (ext2_leaf)
theorem Ext.setCtxVar (f : FUid) (key : String) (v : Val) : Pres Ext (setCtxVar f key v) := by
  unfold CoreVM.setCtxVar; pres_search Ext extPO (ext2_leaf)
macro_rules | `(tactic| ext2_leaf) => `(tactic| first
  | exact Ext.setHeadPos _ _ | exact Ext.setHeadStatus _ _ | exact Ext.modHeadX _ _ | exact Ext.setCtxVar _ _ _)
theorem Ext.pickChoice (n : Nat) : Pres Ext (pickChoice n) := by
  unfold CoreVM.pickChoice; pres_search Ext extPO (ext2_leaf)
theorem Ext.logActionOrIntents (fuel : Nat) (f : FUid) (sc) : Pres Ext (logActionOrIntents fuel f sc) := by
  unfold CoreVM.logActionOrIntents
  pres_search Ext extPO (first | ext2_leaf | exact Pres.of_same Ext.uid (Same.flowHierarchy _ _))
theorem Ext.finishFlow (fuel : Nat) (f : FUid) (sc) (d : Bool) : Pres Ext (finishFlow fuel f sc d) := by
  unfold CoreVM.finishFlow
  pres_search Ext extPO (first | ext2_leaf | exact Ext.logActionOrIntents _ _ _)

set_option maxHeartbeats 1000000 in
theorem Ext.slideStep (fuel : Nat) (f : FUid) (h : HUid) : Pres Ext (slideStep fuel f h) := by
  unfold CoreVM.slideStep
  pres_search Ext extPO (first | ext2_leaf | exact Ext.pickChoice _ | exact Pres.of_same Ext.uid (Same.childHeadUids _ _ _))


theorem Ext.slideLoop : ∀ (fuel : Nat) (f : FUid) (h : HUid) (acc : List Key), Pres Ext (slideLoop fuel f h acc)
  | 0, f, h, acc => by unfold CoreVM.slideLoop; exact Pres.throw extPO _
  | fuel + 1, f, h, acc => by
    unfold CoreVM.slideLoop
    have ih := Ext.slideLoop fuel
    pres_search Ext extPO (first | exact Ext.slideStep _ _ _ | exact ih _ _ _)
theorem Ext.slide (fuel : Nat) (f : FUid) (h : HUid) : Pres Ext (slide fuel f h) := Ext.slideLoop fuel f h []

set_option maxHeartbeats 4000000 in
/-- **`_advance_head_front` as a whole loses nothing that is queued, removes no instance, keeps the program** — in every outcome -/
theorem Ext.advanceHeadFront : ∀ (fuel : Nat) (heads : List Key), Pres Ext (advanceHeadFront fuel heads)
  | 0, heads => by unfold CoreVM.advanceHeadFront; exact Pres.throw extPO _
  | fuel + 1, heads => by
    unfold CoreVM.advanceHeadFront
    have ih := Ext.advanceHeadFront fuel
    pres_search Ext extPO (first | ext2_leaf | exact Ext.slide _ _ _ | exact ih _ | exact Ext.finishFlow _ _ _ _)

end NemoVerif.CoreVM
