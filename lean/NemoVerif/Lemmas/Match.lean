import NemoVerif.Models.Match

namespace NemoVerif.Match
open NemoVerif

theorem firstHit_ok {f : Val → Res} {as : List Val} {k : Int} {rest : List Val}
    (h : firstHit f as = (.ok k, rest)) :
    ∃ pre x, as = pre ++ x :: rest ∧ f x = .ok k ∧ ∀ y ∈ pre, f y = .no := by
  induction as with
  | nil => simp [firstHit] at h
  | cons a as ih =>
    unfold firstHit at h
    split at h
    · simp at h
    · rename_i k' hk
      simp at h
      obtain ⟨h1, h2⟩ := h
      subst h1; subst h2
      exact ⟨[], a, by simp, hk, by simp⟩
    · rename_i hk
      obtain ⟨pre, x, e, hx, hp⟩ := ih h
      refine ⟨a :: pre, x, by simp [e], hx, ?_⟩
      intro y hy
      cases hy with
      | head => exact hk
      | tail _ hy' => exact hp y hy'

theorem firstHit_no {f : Val → Res} {as : List Val} {rest : List Val}
    (h : firstHit f as = (.no, rest)) : ∀ y ∈ as, f y = .no := by
  induction as with
  | nil => simp
  | cons a as ih =>
    unfold firstHit at h
    split at h
    · simp at h
    · simp at h
    · rename_i hk
      intro y hy
      cases hy with
      | head => exact hk
      | tail _ hy' => exact ih h y hy'

mutual
theorem score_sound (f : List String) (rx : Rx) (a : Val) : (r : Val) → (k : Int) → score f rx a r = .ok k → Matches f rx a r
  | .regex id, k, h => by
    simp only [score] at h
    simp only [Matches]
    split at h
    · rename_i h1
      split at h
      · rename_i h2; exact Or.inl ⟨h1, h2⟩
      · simp at h
    · split at h
      · simp at h
      · split at h
        · rename_i h3
          right
          cases a <;> simp_all [Val.scalarEq]
        · simp at h
  | .cmp op rv, k, h => by
    simp only [score, cmpCompare] at h
    simp only [Matches]
    split at h
    · simp at h
    · rename_i h1
      split at h
      · rename_i x y hx hy
        split at h
        · rename_i hc
          exact ⟨by simpa using h1, x, y, hx, hy, hc⟩
        · simp at h
      · simp at h
  | .dict rkvs, k, h => by
    cases a with
    | dict akvs =>
      simp only [score] at h
      simp only [Matches]
      split at h
      · simp at h
      · rename_i hl
        split at h
        · rename_i k' hk
          exact ⟨akvs, rfl, by omega, scoreDict_sound f rx akvs rkvs k' hk⟩
        · rename_i r' hne
          cases r' <;> simp_all
    | _ => simp [score] at h
  | .list rs, k, h => by
    cases a with
    | list as =>
      simp only [score] at h
      simp only [Matches]
      split at h
      · simp at h
      · rename_i hl
        split at h
        · rename_i k' hk
          exact ⟨as, rfl, by omega, scoreList_sound f rx as rs k' hk⟩
        · rename_i r' hne
          cases r' <;> simp_all
    | _ => simp [score] at h
  | .set rs, k, h => by
    cases a with
    | set as =>
      simp only [score] at h
      simp only [Matches]
      split at h
      · simp at h
      · rename_i hl
        split at h
        · rename_i k' hk
          exact ⟨as, rfl, by omega, scoreSet_sound f rx as rs k' hk⟩
        · rename_i r' hne
          cases r' <;> simp_all
    | _ => simp [score] at h
  | .none, k, h => by
    simp only [score] at h
    simp only [Matches]
    cases a <;> simp_all [Val.scalarEq, Val.isInstanceOfTypeOf, Val.pyType, PyType.isSub]
  | .bool b, k, h => by
    simp only [score] at h
    simp only [Matches]
    split at h
    · rename_i hc; simpa using hc
    · simp at h
  | .int i, k, h => by
    simp only [score] at h
    simp only [Matches]
    split at h
    · rename_i hc; simpa using hc
    · simp at h
  | .flt m e, k, h => by
    simp only [score] at h
    simp only [Matches]
    split at h
    · rename_i hc; simpa using hc
    · simp at h
  | .str s, k, h => by
    simp only [score] at h
    simp only [Matches]
    cases a <;> simp_all [Val.scalarEq, Val.isInstanceOfTypeOf, Val.pyType, PyType.isSub]
    split at h <;> simp_all
  | .ref kk u, k, h => by
    simp only [score] at h
    simp only [Matches]
    cases a <;> simp_all [Val.scalarEq, Val.isInstanceOfTypeOf, Val.pyType, PyType.isSub]
    split at h
    · rename_i hc
      exact ⟨hc.1.symm, hc.2.2⟩
    · simp at h
theorem scoreDict_sound (f : List String) (rx : Rx) (akvs : List (String × Val)) : (rkvs : List (String × Val)) → (k : Int) → scoreDict f rx akvs rkvs = .ok k → DictOk f rx akvs rkvs
  | [], k, h => by simp [DictOk]
  | (key, r) :: rest, k, h => by
    simp only [scoreDict] at h
    simp only [DictOk]
    split at h
    · rename_i hf
      exact ⟨Or.inl hf, scoreDict_sound f rx akvs rest k h⟩
    · split at h
      · simp at h
      · rename_i av hav
        split at h
        · simp at h
        · simp at h
        · rename_i k1 hk1
          split at h
          · rename_i k2 hk2
            exact ⟨Or.inr ⟨av, hav, score_sound f rx av r k1 hk1⟩, scoreDict_sound f rx akvs rest k2 hk2⟩
          · rename_i r' hne
            cases r' <;> simp_all
theorem scoreList_sound (f : List String) (rx : Rx) (as : List Val) : (rs : List Val) → (k : Int) → scoreList f rx as rs = .ok k → Embeds f rx as rs
  | [], k, h => by simp [Embeds]
  | r :: rs, k, h => by
    simp only [scoreList] at h
    simp only [Embeds]
    split at h
    · simp at h
    · simp at h
    · rename_i k1 rest hfh
      obtain ⟨pre, x, e, hx, _⟩ := firstHit_ok hfh
      split at h
      · rename_i k2 hk2
        exact ⟨pre, x, rest, e, score_sound f rx x r k1 hx, scoreList_sound f rx rest rs k2 hk2⟩
      · rename_i r' hne
        cases r' <;> simp_all
theorem scoreSet_sound (f : List String) (rx : Rx) (as : List Val) : (rs : List Val) → (k : Int) → scoreSet f rx as rs = .ok k → AllFound f rx as rs
  | [], k, h => by simp [AllFound]
  | r :: rs, k, h => by
    simp only [scoreSet] at h
    simp only [AllFound]
    split at h
    · simp at h
    · simp at h
    · rename_i k1 rest hfh
      obtain ⟨pre, x, e, hx, _⟩ := firstHit_ok hfh
      split at h
      · rename_i k2 hk2
        exact ⟨⟨x, by simp [e], score_sound f rx x r k1 hx⟩, scoreSet_sound f rx as rs k2 hk2⟩
      · rename_i r' hne
        cases r' <;> simp_all
end

theorem firstHit_hit {f : Val → Res} {pre : List Val} {x : Val} {post : List Val}
    (hx : f x ≠ .no) :
    (firstHit f (pre ++ x :: post)).1 = .err ∨ ∃ k pre', firstHit f (pre ++ x :: post) = (.ok k, pre' ++ post) := by
  induction pre with
  | nil =>
    simp only [List.nil_append, firstHit]
    split
    · left; rfl
    · rename_i k hk; right; exact ⟨k, [], rfl⟩
    · rename_i hk; exact absurd hk hx
  | cons p pre ih =>
    simp only [List.cons_append, firstHit]
    split
    · left; rfl
    · rename_i k hk; right; exact ⟨k, pre ++ [x], by simp⟩
    · exact ih

theorem embeds_prefix (f : List String) (rx : Rx) (pre post : List Val) :
    (rs : List Val) → Embeds f rx post rs → Embeds f rx (pre ++ post) rs
  | [], _ => by simp [Embeds]
  | r :: rs, h => by
    simp only [Embeds] at h ⊢
    obtain ⟨p, x, q, e, hm, he⟩ := h
    exact ⟨pre ++ p, x, q, by simp [e], hm, he⟩

mutual
theorem score_complete (f : List String) (rx : Rx) (a : Val) : (r : Val) → Matches f rx a r → score f rx a r ≠ .no
  | .regex id, h => by
    simp only [Matches] at h
    simp only [score]
    rcases h with ⟨h1, h2⟩ | h
    · simp [h1, h2]
    · subst h; simp [isStrIntFloat, Val.isInstanceOfTypeOf, Val.pyType, PyType.isSub, Val.scalarEq]
  | .cmp op rv, h => by
    simp only [Matches] at h
    obtain ⟨h1, x, y, hx, hy, hc⟩ := h
    simp [score, cmpCompare, h1, hx, hy, hc]
  | .dict rkvs, h => by
    simp only [Matches] at h
    obtain ⟨akvs, rfl, hl, hd⟩ := h
    simp only [score]
    have := scoreDict_complete f rx akvs rkvs hd
    split
    · omega
    · split
      · simp
      · rename_i r' hne; cases r' <;> simp_all
  | .list rs, h => by
    simp only [Matches] at h
    obtain ⟨as, rfl, hl, hd⟩ := h
    simp only [score]
    have := scoreList_complete f rx as rs hd
    split
    · omega
    · split
      · simp
      · rename_i r' hne; cases r' <;> simp_all
  | .set rs, h => by
    simp only [Matches] at h
    obtain ⟨as, rfl, hl, hd⟩ := h
    simp only [score]
    have := scoreSet_complete f rx as rs hd
    split
    · omega
    · split
      · simp
      · rename_i r' hne; cases r' <;> simp_all
  | .none, h => by
    simp only [Matches] at h; subst h
    simp [score, Val.isInstanceOfTypeOf, Val.pyType, PyType.isSub, Val.scalarEq]
  | .bool b, h => by
    simp only [Matches] at h
    simp [score, h.1, h.2]
  | .int i, h => by
    simp only [Matches] at h
    simp [score, h.1, h.2]
  | .flt m e, h => by
    simp only [Matches] at h
    simp [score, h.1, h.2]
  | .str s, h => by
    simp only [Matches] at h; subst h
    simp [score, Val.isInstanceOfTypeOf, Val.pyType, PyType.isSub, Val.scalarEq]
  | .ref kk u, h => by
    simp only [Matches] at h; subst h
    simp [score, Val.isInstanceOfTypeOf, Val.pyType, PyType.isSub, Val.scalarEq]
theorem scoreDict_complete (f : List String) (rx : Rx) (akvs : List (String × Val)) : (rkvs : List (String × Val)) → DictOk f rx akvs rkvs → scoreDict f rx akvs rkvs ≠ .no
  | [], _ => by simp [scoreDict]
  | (key, r) :: rest, h => by
    simp only [DictOk] at h
    obtain ⟨h1, h2⟩ := h
    have ih := scoreDict_complete f rx akvs rest h2
    simp only [scoreDict]
    split
    · exact ih
    · rename_i hf
      rcases h1 with h1 | ⟨av, hav, hm⟩
      · exact absurd h1 hf
      · have := score_complete f rx av r hm
        simp only [hav]
        split
        · simp
        · rename_i hno; exact absurd hno this
        · split
          · simp
          · rename_i r' hne; cases r' <;> simp_all
theorem scoreList_complete (f : List String) (rx : Rx) (as : List Val) : (rs : List Val) → Embeds f rx as rs → scoreList f rx as rs ≠ .no
  | [], _ => by simp [scoreList]
  | r :: rs, h => by
    simp only [Embeds] at h
    obtain ⟨pre, x, post, e, hm, he⟩ := h
    subst e
    have hx := score_complete f rx x r hm
    simp only [scoreList]
    rcases firstHit_hit (f := fun a => score f rx a r) (pre := pre) (post := post) hx with h1 | ⟨k, pre', h2⟩
    · split
      · simp
      · rename_i heq; rw [heq] at h1; simp at h1
      · rename_i heq; rw [heq] at h1; simp at h1
    · rw [h2]
      have ih := scoreList_complete f rx (pre' ++ post) rs (embeds_prefix f rx pre' post rs he)
      simp only
      split
      · simp
      · rename_i r' hne; cases r' <;> simp_all
theorem scoreSet_complete (f : List String) (rx : Rx) (as : List Val) : (rs : List Val) → AllFound f rx as rs → scoreSet f rx as rs ≠ .no
  | [], _ => by simp [scoreSet]
  | r :: rs, h => by
    simp only [AllFound] at h
    obtain ⟨⟨x, hmem, hm⟩, he⟩ := h
    have hx := score_complete f rx x r hm
    obtain ⟨pre, post, e⟩ := List.append_of_mem hmem
    have ih := scoreSet_complete f rx as rs he
    simp only [scoreSet]
    rcases firstHit_hit (f := fun a => score f rx a r) (pre := pre) (post := post) hx with h1 | ⟨k, pre', h2⟩
    · rw [← e] at h1
      split
      · simp
      · rename_i heq; rw [heq] at h1; simp at h1
      · rename_i heq; rw [heq] at h1; simp at h1
    · rw [← e] at h2
      rw [h2]
      simp only
      split
      · simp
      · rename_i r' hne; cases r' <;> simp_all
end
mutual
theorem score_nonneg (f : List String) (rx : Rx) (a : Val) : (r : Val) → (k : Int) → score f rx a r = .ok k → 0 ≤ k
  | .regex id, k, h => by
    simp only [score] at h
    repeat' split at h
    all_goals simp_all
    all_goals omega
  | .cmp op rv, k, h => by
    simp only [score, cmpCompare] at h
    repeat' split at h
    all_goals simp_all
    all_goals omega
  | .dict rkvs, k, h => by
    cases a with
    | dict akvs =>
      simp only [score] at h
      split at h
      · simp at h
      · split at h
        · rename_i k' hk
          have := scoreDict_nonneg f rx akvs rkvs k' hk
          simp at h; omega
        · rename_i r' hne; cases r' <;> simp_all
    | _ => simp [score] at h
  | .list rs, k, h => by
    cases a with
    | list as =>
      simp only [score] at h
      split at h
      · simp at h
      · split at h
        · rename_i k' hk
          have := scoreList_nonneg f rx as rs k' hk
          simp at h; omega
        · rename_i r' hne; cases r' <;> simp_all
    | _ => simp [score] at h
  | .set rs, k, h => by
    cases a with
    | set as =>
      simp only [score] at h
      split at h
      · simp at h
      · split at h
        · rename_i k' hk
          have := scoreSet_nonneg f rx as rs k' hk
          simp at h; omega
        · rename_i r' hne; cases r' <;> simp_all
    | _ => simp [score] at h
  | .none, k, h => by simp only [score] at h; split at h <;> simp_all <;> omega
  | .bool b, k, h => by simp only [score] at h; split at h <;> simp_all <;> omega
  | .int i, k, h => by simp only [score] at h; split at h <;> simp_all <;> omega
  | .flt m e, k, h => by simp only [score] at h; split at h <;> simp_all <;> omega
  | .str s, k, h => by simp only [score] at h; split at h <;> simp_all <;> omega
  | .ref kk u, k, h => by simp only [score] at h; split at h <;> simp_all <;> omega
theorem scoreDict_nonneg (f : List String) (rx : Rx) (akvs : List (String × Val)) : (rkvs : List (String × Val)) → (k : Int) → scoreDict f rx akvs rkvs = .ok k → 0 ≤ k
  | [], k, h => by simp [scoreDict] at h; omega
  | (key, r) :: rest, k, h => by
    simp only [scoreDict] at h
    split at h
    · exact scoreDict_nonneg f rx akvs rest k h
    · split at h
      · simp at h
      · rename_i av hav
        split at h
        · simp at h
        · simp at h
        · rename_i k1 hk1
          split at h
          · rename_i k2 hk2
            have := score_nonneg f rx av r k1 hk1
            have := scoreDict_nonneg f rx akvs rest k2 hk2
            simp at h; omega
          · rename_i r' hne; cases r' <;> simp_all
theorem scoreList_nonneg (f : List String) (rx : Rx) (as : List Val) : (rs : List Val) → (k : Int) → scoreList f rx as rs = .ok k → 0 ≤ k
  | [], k, h => by simp [scoreList] at h; omega
  | r :: rs, k, h => by
    simp only [scoreList] at h
    split at h
    · simp at h
    · simp at h
    · rename_i k1 rest hfh
      obtain ⟨pre, x, e, hx, _⟩ := firstHit_ok hfh
      split at h
      · rename_i k2 hk2
        have := score_nonneg f rx x r k1 hx
        have := scoreList_nonneg f rx rest rs k2 hk2
        simp at h; omega
      · rename_i r' hne; cases r' <;> simp_all
theorem scoreSet_nonneg (f : List String) (rx : Rx) (as : List Val) : (rs : List Val) → (k : Int) → scoreSet f rx as rs = .ok k → 0 ≤ k
  | [], k, h => by simp [scoreSet] at h; omega
  | r :: rs, k, h => by
    simp only [scoreSet] at h
    split at h
    · simp at h
    · simp at h
    · rename_i k1 rest hfh
      obtain ⟨pre, x, e, hx, _⟩ := firstHit_ok hfh
      split at h
      · rename_i k2 hk2
        have := score_nonneg f rx x r k1 hx
        have := scoreSet_nonneg f rx as rs k2 hk2
        simp at h; omega
      · rename_i r' hne; cases r' <;> simp_all
end

/-- `AllFound` is the ∀∃ statement. -/
theorem allFound_iff (f : List String) (rx : Rx) (as : List Val) :
    (rs : List Val) → (AllFound f rx as rs ↔ ∀ r ∈ rs, ∃ x, x ∈ as ∧ Matches f rx x r)
  | [] => by simp [AllFound]
  | r :: rs => by
    simp only [AllFound, List.mem_cons, forall_eq_or_imp]
    rw [allFound_iff f rx as rs]

/-- element-wise relation between two lists of the same length -/
inductive Zip2 (P : Val → Val → Prop) : List Val → List Val → Prop
  | nil : Zip2 P [] []
  | cons {x r xs rs} : P x r → Zip2 P xs rs → Zip2 P (x :: xs) (r :: rs)

/-- `Embeds` says: some sublist of the received list matches the expected items one by one. -/
theorem embeds_iff_sublist (f : List String) (rx : Rx) :
    (rs : List Val) → (as : List Val) → (Embeds f rx as rs ↔ ∃ sub, List.Sublist sub as ∧ Zip2 (fun x r => Matches f rx x r) sub rs)
  | [], as => by
    simp only [Embeds, true_iff]
    exact ⟨[], List.nil_sublist as, Zip2.nil⟩
  | r :: rs, as => by
    simp only [Embeds]
    constructor
    · rintro ⟨pre, x, post, e, hm, he⟩
      obtain ⟨sub, hs, hf⟩ := (embeds_iff_sublist f rx rs post).1 he
      refine ⟨x :: sub, ?_, Zip2.cons hm hf⟩
      subst e
      exact List.Sublist.trans (List.Sublist.cons_cons x hs) (List.sublist_append_right pre (x :: post))
    · rintro ⟨sub, hs, hf⟩
      cases hf with
      | cons hm hf' =>
        rename_i x sub'
        -- x :: sub' is a sublist of as : split as at the position of x
        induction as with
        | nil => simp at hs
        | cons a as ih =>
          cases hs with
          | cons _ hs' =>
            obtain ⟨pre, y, post, e, hy, he⟩ := ih hs'
            exact ⟨a :: pre, y, post, by simp [e], hy, he⟩
          | cons_cons _ hs' =>
            exact ⟨[], x, as, rfl, hm, (embeds_iff_sublist f rx rs as).2 ⟨sub', hs', hf'⟩⟩

theorem dictOk_iff (f : List String) (rx : Rx) (akvs : List (String × Val)) :
    (rkvs : List (String × Val)) → (DictOk f rx akvs rkvs ↔ ∀ kr ∈ rkvs, kr.1 ∈ f ∨ ∃ av, lookup kr.1 akvs = some av ∧ Matches f rx av kr.2)
  | [] => by simp [DictOk]
  | (key, r) :: rest => by
    simp only [DictOk, List.mem_cons, forall_eq_or_imp]
    rw [dictOk_iff f rx akvs rest]

theorem lookup_append_some {k : String} {akvs extra : List (String × Val)} {v : Val}
    (h : lookup k akvs = some v) : lookup k (akvs ++ extra) = some v := by
  induction akvs with
  | nil => simp [lookup] at h
  | cons kv rest ih =>
    obtain ⟨k', v'⟩ := kv
    simp only [List.cons_append, lookup] at h ⊢
    split
    · rename_i hk; simpa [hk] using h
    · rename_i hk; simp only [hk, if_false] at h; exact ih h

mutual
theorem matches_filter_irrelevant (f : List String) (rx : Rx) : (r : Val) → NoReserved f r → ∀ a, (Matches f rx a r ↔ Matches [] rx a r)
  | .regex id, _, a => by simp only [Matches]
  | .cmp op rv, _, a => by simp only [Matches]
  | .dict rkvs, h, a => by
    simp only [NoReserved] at h
    simp only [Matches]
    have := dictOk_filter_irrelevant f rx rkvs h
    constructor
    · rintro ⟨akvs, e, hl, hd⟩; exact ⟨akvs, e, hl, (this akvs).1 hd⟩
    · rintro ⟨akvs, e, hl, hd⟩; exact ⟨akvs, e, hl, (this akvs).2 hd⟩
  | .list rs, h, a => by
    simp only [NoReserved] at h
    simp only [Matches]
    have := embeds_filter_irrelevant f rx rs h
    constructor
    · rintro ⟨as, e, hl, hd⟩; exact ⟨as, e, hl, (this as).1 hd⟩
    · rintro ⟨as, e, hl, hd⟩; exact ⟨as, e, hl, (this as).2 hd⟩
  | .set rs, h, a => by
    simp only [NoReserved] at h
    simp only [Matches]
    have := allFound_filter_irrelevant f rx rs h
    constructor
    · rintro ⟨as, e, hl, hd⟩; exact ⟨as, e, hl, (this as).1 hd⟩
    · rintro ⟨as, e, hl, hd⟩; exact ⟨as, e, hl, (this as).2 hd⟩
  | .none, _, a => by simp only [Matches]
  | .bool b, _, a => by simp only [Matches]
  | .int i, _, a => by simp only [Matches]
  | .flt m e, _, a => by simp only [Matches]
  | .str s, _, a => by simp only [Matches]
  | .ref kk u, _, a => by simp only [Matches]
theorem dictOk_filter_irrelevant (f : List String) (rx : Rx) : (rkvs : List (String × Val)) → NoReservedKvs f rkvs → ∀ akvs, (DictOk f rx akvs rkvs ↔ DictOk [] rx akvs rkvs)
  | [], _, akvs => by simp [DictOk]
  | (key, r) :: rest, h, akvs => by
    simp only [NoReservedKvs] at h
    obtain ⟨h1, h2, h3⟩ := h
    simp only [DictOk]
    have ih1 := matches_filter_irrelevant f rx r h2
    have ih2 := dictOk_filter_irrelevant f rx rest h3 akvs
    simp only [h1, false_or, List.not_mem_nil, ih2]
    constructor
    · rintro ⟨⟨av, e, hm⟩, hd⟩; exact ⟨⟨av, e, (ih1 av).1 hm⟩, hd⟩
    · rintro ⟨⟨av, e, hm⟩, hd⟩; exact ⟨⟨av, e, (ih1 av).2 hm⟩, hd⟩
theorem embeds_filter_irrelevant (f : List String) (rx : Rx) : (rs : List Val) → NoReservedList f rs → ∀ as, (Embeds f rx as rs ↔ Embeds [] rx as rs)
  | [], _, as => by simp [Embeds]
  | r :: rs, h, as => by
    simp only [NoReservedList] at h
    obtain ⟨h1, h2⟩ := h
    simp only [Embeds]
    have ih1 := matches_filter_irrelevant f rx r h1
    have ih2 := embeds_filter_irrelevant f rx rs h2
    constructor
    · rintro ⟨pre, x, post, e, hm, he⟩; exact ⟨pre, x, post, e, (ih1 x).1 hm, (ih2 post).1 he⟩
    · rintro ⟨pre, x, post, e, hm, he⟩; exact ⟨pre, x, post, e, (ih1 x).2 hm, (ih2 post).2 he⟩
theorem allFound_filter_irrelevant (f : List String) (rx : Rx) : (rs : List Val) → NoReservedList f rs → ∀ as, (AllFound f rx as rs ↔ AllFound [] rx as rs)
  | [], _, as => by simp [AllFound]
  | r :: rs, h, as => by
    simp only [NoReservedList] at h
    obtain ⟨h1, h2⟩ := h
    simp only [AllFound]
    have ih1 := matches_filter_irrelevant f rx r h1
    have ih2 := allFound_filter_irrelevant f rx rs h2 as
    constructor
    · rintro ⟨⟨x, hx, hm⟩, he⟩; exact ⟨⟨x, hx, (ih1 x).1 hm⟩, ih2.1 he⟩
    · rintro ⟨⟨x, hx, hm⟩, he⟩; exact ⟨⟨x, hx, (ih1 x).2 hm⟩, ih2.2 he⟩
end


end NemoVerif.Match
