/-
  Lemmas for C14: the compiled element list simulates the structured semantics.

  `Slides code st pos r` — the real `slide` loop started at `pos` (any `prev_head`) ends with the
  abstract result `r` (position + state, "finished", or "raised") for some amount of fuel.
  `exec_sound` / `execFrom_sound` — compiler correctness, by induction on the fuel of the
  structured run and case analysis on the program, one case per construct.
-/
import NemoVerif.Models.V1Struct
namespace NemoVerif.V1Struct
open NemoVerif.V1Interp

/-! ### sizes -/

theorem comp_length : ∀ (p : Prog) (lc : LC), (comp lc p).length = size p := by
  intro p
  induction p with
  | nil => intro lc; simp [comp, size]
  | step s r ih => intro lc; simp [comp, size, ih]; omega
  | set k e r ih => intro lc; simp [comp, size, ih]; omega
  | ite c t e r iht ihe ihr =>
    intro lc
    by_cases h : size e = 0
    · simp [comp, size, h, iht, ihr]; omega
    · simp [comp, size, h, iht, ihe, ihr]; omega
  | «while» c b r ihb ihr => intro lc; simp [comp, size, ihb, ihr]; omega
  | brk r ih => intro lc; simp [comp, size, ih]; omega
  | cont r ih => intro lc; simp [comp, size, ih]; omega

/-! ### abstract results of `slide` -/

inductive ARes where
  | at (st : SSt) (h : Int)
  | fin (st : SSt)
  | err
  deriving DecidableEq, Repr

def absRes : SRes → Option ARes
  | .at st h => some (.at st h)
  | .fin st _ => some (.fin st)
  | .err => some .err
  | .oof => none

def Slides (code : List Elem) (st : SSt) (pos : Int) (r : ARes) : Prop :=
  ∃ f, ∀ prev, absRes (slide f code st pos prev) = some r

theorem slides_step {code st pos st' pos' r} (hin : 0 ≤ pos ∧ pos < code.length)
    (hs : sstep code st pos = .next st' pos') (h : Slides code st' pos' r) : Slides code st pos r := by
  obtain ⟨f, hf⟩ := h
  refine ⟨f + 1, fun prev => ?_⟩
  have h1 : ¬ (pos = (code.length : Int) ∨ pos < 0) := by omega
  simp only [slide, h1, if_false, hs]
  exact hf pos

theorem slides_stop {code st pos} (hin : 0 ≤ pos ∧ pos < code.length)
    (hs : sstep code st pos = .stop) : Slides code st pos (.at st pos) := by
  refine ⟨1, fun prev => ?_⟩
  have h1 : ¬ (pos = (code.length : Int) ∨ pos < 0) := by omega
  simp [slide, h1, hs, absRes]

theorem slides_err {code st pos} (hin : 0 ≤ pos ∧ pos < code.length)
    (hs : sstep code st pos = .err) : Slides code st pos .err := by
  refine ⟨1, fun prev => ?_⟩
  have h1 : ¬ (pos = (code.length : Int) ∨ pos < 0) := by omega
  simp [slide, h1, hs, absRes]

theorem slides_end {code : List Elem} {st pos} (h : pos = (code.length : Int)) : Slides code st pos (.fin st) := by
  refine ⟨1, fun prev => ?_⟩
  simp [slide, h, absRes]

/-! ### reading the element at the start of an embedded block -/

theorem getElem_at {pre post : List Elem} {x : Elem} {rest : List Elem} {code : List Elem}
    (h : code = pre ++ (x :: rest) ++ post) : code[((pre.length : Int)).toNat]? = some x := by
  subst h
  simp

theorem in_range {pre post : List Elem} {x : Elem} {rest code : List Elem}
    (h : code = pre ++ (x :: rest) ++ post) : (0 : Int) ≤ pre.length ∧ (pre.length : Int) < code.length := by
  subst h
  simp
  omega

/-! ### what each outcome of a structured run means for the element list -/

/-- The claim about the element list for an outcome of running a block embedded at `pre.length`. -/
def Sound (code : List Elem) (st : SSt) (start : Int) (base : Nat) (lc : LC) (p : Prog) : Out → Prop
  | .fell st' => ∀ r, Slides code st' (base + size p) r → Slides code st start r
  | .brk st' => ∀ b c, lc = some (b, c) → ∀ r, Slides code st' (base + b) r → Slides code st start r
  | .cnt st' => ∀ b c, lc = some (b, c) → ∀ r, Slides code st' (base + c) r → Slides code st start r
  | .atStep st' a => Slides code st start (.at st' (base + off p a))
  | .err => Slides code st start .err
  | .oof => True
  | .bad => True


theorem slides_cast {code st r} {a b : Int} (h : a = b) (hs : Slides code st a r) : Slides code st b r := h ▸ hs

theorem size_eq_zero : ∀ {e : Prog}, size e = 0 → e = .nil := by
  intro e h
  cases e <;> simp [size] at h ⊢ <;> omega

theorem shift_some {b c : Int} {k : Nat} : LC.shift (some (b, c)) k = some (b - k, c - k) := rfl

/-- transport of a claim about the tail / a sub-block to the enclosing block -/
theorem sound_map {code st st' start start' base k lc lc' p q} {g : Addr → Addr} {out : Out}
    (hstep : ∀ r, Slides code st' start' r → Slides code st start r)
    (hoff : ∀ a, off p (g a) = k + off q a)
    (hsz : ∀ s, out = .fell s → size p = k + size q)
    (hlc : lc' = lc.shift k)
    (h : Sound code st' start' (base + k) lc' q out) : Sound code st start base lc p (out.mapAddr g) := by
  cases out with
  | fell s =>
    intro r hr
    have e := hsz s rfl
    exact hstep r (h r (slides_cast (by rw [e]; push_cast; omega) hr))
  | brk s =>
    intro b c hl r hr
    subst hl
    exact hstep r (h (b - k) (c - k) hlc r (slides_cast (by push_cast; omega) hr))
  | cnt s =>
    intro b c hl r hr
    subst hl
    exact hstep r (h (b - k) (c - k) hlc r (slides_cast (by push_cast; omega) hr))
  | atStep s a =>
    simp only [Out.mapAddr, Sound, hoff] at h ⊢
    push_cast at h ⊢
    simp only [Int.add_assoc] at h ⊢
    exact hstep _ h
  | err => exact hstep _ h
  | oof => trivial
  | bad => trivial


theorem getElem_at' {pre post : List Elem} {x : Elem} {rest code : List Elem} {n : Nat}
    (h : code = pre ++ (x :: rest) ++ post) (hn : pre.length = n) : code[((n : Int)).toNat]? = some x :=
  hn ▸ getElem_at h

theorem in_range' {pre post : List Elem} {x : Elem} {rest code : List Elem} {n : Nat}
    (h : code = pre ++ (x :: rest) ++ post) (hn : pre.length = n) : (0 : Int) ≤ n ∧ (n : Int) < code.length :=
  hn ▸ in_range h

/-- a claim holds from `start` if it holds from a position that `start` slides to -/
theorem sound_pre {code st st' start start' base lc p} {out : Out}
    (hstep : ∀ r, Slides code st' start' r → Slides code st start r)
    (h : Sound code st' start' base lc p out) : Sound code st start base lc p out := by
  cases out with
  | fell s => intro r hr; exact hstep r (h r hr)
  | brk s => intro b c hl r hr; exact hstep r (h b c hl r hr)
  | cnt s => intro b c hl r hr; exact hstep r (h b c hl r hr)
  | atStep s a => exact hstep _ h
  | err => exact hstep _ h
  | oof => trivial
  | bad => trivial

theorem sound_andThen {code st st' start start' base k1 lc p q} {g : Addr → Addr} {o : Out} {k : SSt → Out}
    (h1 : Sound code st' start' (base + k1) (lc.shift k1) q o)
    (hstep : ∀ r, Slides code st' start' r → Slides code st start r)
    (hoff : ∀ a, off p (g a) = k1 + off q a)
    (hk : ∀ s, o = .fell s → Sound code s ((base + k1 + size q : Nat) : Int) base lc p (k s)) :
    Sound code st start base lc p (o.andThen g k) := by
  cases o with
  | fell s =>
    simp only [Out.andThen]
    refine sound_pre (fun r hr => hstep r (h1 r (slides_cast (by push_cast; omega) hr))) (hk s rfl)
  | brk s => exact sound_map hstep hoff (by intro _ h; cases h) rfl h1
  | cnt s => exact sound_map hstep hoff (by intro _ h; cases h) rfl h1
  | atStep s a => exact sound_map hstep hoff (by intro _ h; cases h) rfl h1
  | err => exact sound_map (out := .err) hstep hoff (by intro _ h; cases h) rfl h1
  | oof => trivial
  | bad => trivial

theorem sound_loopThen {code st st' start start' base lc p b} {o : Out} {again leave : SSt → Out}
    (h1 : Sound code st' start' (base + 1) (some ((size b : Int) + 1, -1)) b o)
    (hstep : ∀ r, Slides code st' start' r → Slides code st start r)
    (hoff : ∀ a, off p (.body a) = 1 + off b a)
    (hjump : ∀ s r, Slides code s (base : Int) r → Slides code s ((base + 1 + size b : Nat) : Int) r)
    (hagain : ∀ s, Sound code s (base : Int) base lc p (again s))
    (hleave : ∀ s, Sound code s ((base + 1 + size b + 1 : Nat) : Int) base lc p (leave s)) :
    Sound code st start base lc p (o.loopThen again leave) := by
  cases o with
  | fell s =>
    simp only [Out.loopThen]
    exact sound_pre (fun r hr => hstep r (h1 r (slides_cast (by push_cast; omega) (hjump s r hr)))) (hagain s)
  | cnt s =>
    simp only [Out.loopThen]
    exact sound_pre (fun r hr => hstep r (h1 _ _ rfl r (slides_cast (by push_cast; omega) hr))) (hagain s)
  | brk s =>
    simp only [Out.loopThen]
    exact sound_pre (fun r hr => hstep r (h1 _ _ rfl r (slides_cast (by push_cast; omega) hr))) (hleave s)
  | atStep s a =>
    simp only [Out.loopThen, Out.mapAddr, Sound, hoff] at h1 ⊢
    push_cast at h1 ⊢
    simp only [Int.add_assoc] at h1 ⊢
    exact hstep _ h1
  | err => exact hstep _ h1
  | oof => trivial
  | bad => trivial

theorem step_to {code st st'} {pos : Int} {n : Nat} {tgt : Int} (hin : 0 ≤ pos ∧ pos < code.length)
    (hs : sstep code st pos = .next st' tgt) (he : tgt = (n : Int)) :
    ∀ r, Slides code st' (n : Int) r → Slides code st pos r :=
  fun _ h => slides_step hin hs (slides_cast he.symm h)

theorem sstep_step_elem {code st} {pos : Int} {s : Step} (hx : code[pos.toNat]? = some (elemOf s)) :
    sstep code st pos = .stop := by
  simp only [sstep, hx]
  cases s <;> rfl

/-- **Compiler correctness, running a block from its first statement.**  If the element list contains
    `comp lc p` at position `pre.length`, then whatever the structured run of `p` does — reach a step
    statement, fall off the end, `break`, `continue`, raise — the real `slide` loop started at that
    position does the same, with the same context and context updates. -/
theorem exec_sound : ∀ (f : Nat) (p : Prog) (lc : LC) (pre post code : List Elem) (st : SSt),
    code = pre ++ comp lc p ++ post → Sound code st pre.length pre.length lc p (exec f st p) := by
  intro f
  induction f with
  | zero => intro p lc pre post code st _; simp [exec, Sound]
  | succ f ih =>
    intro p lc pre post code st hcode
    cases p with
    | nil =>
      simp only [exec, Sound, size]
      intro r hr
      simpa using hr
    | step s r =>
      simp only [comp] at hcode
      have hx := getElem_at hcode
      have hin := in_range hcode
      simp only [exec, Sound, off]
      simpa using slides_stop hin (sstep_step_elem (st := st) hx)
    | set k e r =>
      simp only [comp] at hcode
      have hx := getElem_at hcode
      have hin := in_range hcode
      simp only [exec]
      cases hv : eval st.ctx e with
      | none =>
        simp only [Sound]
        exact slides_err hin (by simp only [sstep, hx, hv])
      | some v =>
        simp only []
        have hs : sstep code st pre.length = .next (assign st k v) ((pre.length : Int) + 1) := by
          simp only [sstep, hx, hv, assign]
        have hr := ih r (lc.shift 1) (pre ++ [Elem.setE k e 1]) post code (assign st k v) (by simp [hcode])
        simp only [List.length_append, List.length_cons, List.length_nil, Nat.zero_add] at hr
        exact sound_map (k := 1) (step_to hin hs (by push_cast; rfl)) (by intro a; simp [off, headSize, rest])
          (by intro _ _; simp [size]) rfl hr
    | ite c t e r =>
      simp only [exec]
      by_cases he : size e = 0
      · -- no `else` block
        have hcode0 := hcode
        simp only [comp, if_pos he] at hcode
        have hx := getElem_at hcode
        have hin := in_range hcode
        have hoffn : ∀ a, off (Prog.ite c t e r) (.next a) = (1 + size t) + off r a := by
          intro a; simp [off, headSize, rest, he]
        -- the rest `r` sits at pre.length + (1 + size t)
        have hrest : ∀ s, Sound code s ((pre.length + 1 + size t : Nat) : Int) pre.length lc (Prog.ite c t e r)
            ((exec f s r).mapAddr .next) := by
          intro s
          have hr := ih r (lc.shift (1 + size t)) (pre ++ Elem.ifE c (size t + 1) :: comp (lc.shift 1) t) post code s
            (by simp [hcode])
          have el : (pre ++ Elem.ifE c (size t + 1) :: comp (lc.shift 1) t).length = pre.length + (1 + size t) := by
            simp [comp_length]; omega
          rw [el] at hr
          exact sound_map (k := 1 + size t) (fun r' h => slides_cast (by push_cast; omega) h) hoffn
            (by intro _ _; simp [size, he] <;> omega) rfl hr
        cases hv : eval st.ctx c with
        | none =>
          simp only [Sound]
          exact slides_err hin (by simp only [sstep, hx, hv])
        | some v =>
          simp only []
          by_cases htr : v.truthy = true
          · simp only [htr, if_true]
            have hs : sstep code st pre.length = .next st ((pre.length : Int) + 1) := by
              simp only [sstep, hx, hv, htr, if_true]
            have ht := ih t (lc.shift 1) (pre ++ [Elem.ifE c (size t + 1)]) (comp (lc.shift (1 + size t)) r ++ post) code st
              (by simp [hcode])
            simp only [List.length_append, List.length_cons, List.length_nil, Nat.zero_add] at ht
            exact sound_andThen (k1 := 1) ht (step_to hin hs (by push_cast; rfl))
              (by intro a; simp [off]) (fun s _ => hrest s)
          · simp only [htr]
            have e0 := size_eq_zero he
            subst e0
            have hs : sstep code st pre.length = .next st ((pre.length : Int) + ((size t : Int) + 1)) := by
              simp only [sstep, hx, hv, htr]; simp
            cases f with
            | zero => simp [exec, Out.andThen, Out.mapAddr, Sound]
            | succ f' =>
              simp only [exec, Out.andThen]
              exact sound_pre (step_to hin hs (by push_cast; omega)) (hrest st)
      · -- with an `else` block
        have hcode0 := hcode
        simp only [comp, if_neg he] at hcode
        have hx := getElem_at hcode
        have hin := in_range hcode
        have hoffn : ∀ a, off (Prog.ite c t e r) (.next a) = (1 + size t + 1 + size e) + off r a := by
          intro a; simp [off, headSize, rest, he]; omega
        have hrest : ∀ s, Sound code s ((pre.length + (1 + size t + 1) + size e : Nat) : Int) pre.length lc (Prog.ite c t e r)
            ((exec f s r).mapAddr .next) := by
          intro s
          have hr := ih r (lc.shift (1 + size t + 1 + size e))
            (pre ++ Elem.ifE c (size t + 2) :: (comp (lc.shift 1) t ++ Elem.jump (size e + 1) false :: comp (lc.shift (1 + size t + 1)) e)) post code s
            (by simp [hcode])
          have el : (pre ++ Elem.ifE c (size t + 2) :: (comp (lc.shift 1) t ++ Elem.jump (size e + 1) false :: comp (lc.shift (1 + size t + 1)) e)).length
              = pre.length + (1 + size t + 1 + size e) := by
            simp [comp_length]; omega
          rw [el] at hr
          exact sound_map (k := 1 + size t + 1 + size e) (fun r' h => slides_cast (by push_cast; omega) h) hoffn
            (by intro _ _; simp [size, he] <;> omega) rfl hr
        -- the jump at the end of the `then` block
        have hxj := getElem_at' (pre := pre ++ Elem.ifE c (size t + 2) :: comp (lc.shift 1) t) (x := Elem.jump (size e + 1) false)
          (rest := comp (lc.shift (1 + size t + 1)) e ++ comp (lc.shift (1 + size t + 1 + size e)) r) (post := post) (code := code)
          (n := pre.length + 1 + size t) (by simp [hcode]) (by simp [comp_length]; omega)
        have hinj := in_range' (pre := pre ++ Elem.ifE c (size t + 2) :: comp (lc.shift 1) t) (x := Elem.jump (size e + 1) false)
          (rest := comp (lc.shift (1 + size t + 1)) e ++ comp (lc.shift (1 + size t + 1 + size e)) r) (post := post) (code := code)
          (n := pre.length + 1 + size t) (by simp [hcode]) (by simp [comp_length]; omega)
        cases hv : eval st.ctx c with
        | none =>
          simp only [Sound]
          exact slides_err hin (by simp only [sstep, hx, hv])
        | some v =>
          simp only []
          by_cases htr : v.truthy = true
          · simp only [htr, if_true]
            have hs : sstep code st pre.length = .next st ((pre.length : Int) + 1) := by
              simp only [sstep, hx, hv, htr, if_true]
            have ht := ih t (lc.shift 1) (pre ++ [Elem.ifE c (size t + 2)])
              (Elem.jump (size e + 1) false :: (comp (lc.shift (1 + size t + 1)) e ++ comp (lc.shift (1 + size t + 1 + size e)) r) ++ post) code st
              (by simp [hcode])
            simp only [List.length_append, List.length_cons, List.length_nil, Nat.zero_add] at ht
            refine sound_andThen (k1 := 1) ht (step_to hin hs (by push_cast; rfl)) (by intro a; simp [off]) (fun s _ => ?_)
            have hsj : ∀ s : SSt, sstep code s ((pre.length + 1 + size t : Nat) : Int) = .next s (((pre.length + 1 + size t : Nat) : Int) + ((size e : Int) + 1)) := by
              intro s; simp only [sstep, hxj]; simp
            exact sound_pre (step_to hinj (hsj s) (by push_cast; omega)) (hrest s)
          · simp only [htr]
            have hs : sstep code st pre.length = .next st ((pre.length : Int) + ((size t : Int) + 2)) := by
              simp only [sstep, hx, hv, htr]; simp
            have hee := ih e (lc.shift (1 + size t + 1)) (pre ++ Elem.ifE c (size t + 2) :: (comp (lc.shift 1) t ++ [Elem.jump (size e + 1) false]))
              (comp (lc.shift (1 + size t + 1 + size e)) r ++ post) code st (by simp [hcode])
            have el : (pre ++ Elem.ifE c (size t + 2) :: (comp (lc.shift 1) t ++ [Elem.jump (size e + 1) false])).length
                = pre.length + (1 + size t + 1) := by
              simp [comp_length]; omega
            rw [el] at hee
            exact sound_andThen (k1 := 1 + size t + 1) hee (step_to hin hs (by push_cast; omega))
              (by intro a; simp [off]) (fun s _ => hrest s)
    | «while» c b r =>
      have hcode0 := hcode
      simp only [comp] at hcode
      have hx := getElem_at hcode
      have hin := in_range hcode
      simp only [exec]
      have hoffn : ∀ a, off (Prog.while c b r) (.next a) = (1 + size b + 1) + off r a := by
        intro a; simp [off, headSize, rest]
      have hrest : ∀ s, Sound code s ((pre.length + 1 + size b + 1 : Nat) : Int) pre.length lc (Prog.while c b r)
          ((exec f s r).mapAddr .next) := by
        intro s
        have hr := ih r (lc.shift (1 + size b + 1))
          (pre ++ Elem.whileE c 1 (size b + 2) :: (comp (some ((size b : Int) + 1, -1)) b ++ [Elem.jump (-1 * ((size b : Int) + 1)) false])) post code s
          (by simp [hcode])
        have el : (pre ++ Elem.whileE c 1 (size b + 2) :: (comp (some ((size b : Int) + 1, -1)) b ++ [Elem.jump (-1 * ((size b : Int) + 1)) false])).length
            = pre.length + (1 + size b + 1) := by
          simp [comp_length]; omega
        rw [el] at hr
        exact sound_map (k := 1 + size b + 1) (fun r' h => slides_cast (by push_cast; omega) h) hoffn
          (by intro _ _; simp [size] <;> omega) rfl hr
      cases hv : eval st.ctx c with
      | none =>
        simp only [Sound]
        exact slides_err hin (by simp only [sstep, hx, hv])
      | some v =>
        simp only []
        by_cases htr : v.truthy = true
        · simp only [htr, if_true]
          have hs : sstep code st pre.length = .next st ((pre.length : Int) + 1) := by
            simp only [sstep, hx, hv, htr, if_true]
          have hb := ih b (some ((size b : Int) + 1, -1)) (pre ++ [Elem.whileE c 1 (size b + 2)])
            (Elem.jump (-1 * ((size b : Int) + 1)) false :: comp (lc.shift (1 + size b + 1)) r ++ post) code st
            (by simp [hcode])
          simp only [List.length_append, List.length_cons, List.length_nil, Nat.zero_add] at hb
          have hxj := getElem_at' (pre := pre ++ Elem.whileE c 1 (size b + 2) :: comp (some ((size b : Int) + 1, -1)) b)
            (x := Elem.jump (-1 * ((size b : Int) + 1)) false)
            (rest := comp (lc.shift (1 + size b + 1)) r) (post := post) (code := code)
            (n := pre.length + 1 + size b) (by simp [hcode]) (by simp [comp_length]; omega)
          have hinj := in_range' (pre := pre ++ Elem.whileE c 1 (size b + 2) :: comp (some ((size b : Int) + 1, -1)) b)
            (x := Elem.jump (-1 * ((size b : Int) + 1)) false)
            (rest := comp (lc.shift (1 + size b + 1)) r) (post := post) (code := code)
            (n := pre.length + 1 + size b) (by simp [hcode]) (by simp [comp_length]; omega)
          have hsj : ∀ s : SSt, sstep code s ((pre.length + 1 + size b : Nat) : Int)
              = .next s (((pre.length + 1 + size b : Nat) : Int) + (-1 * ((size b : Int) + 1))) := by
            intro s; simp only [sstep, hxj]; simp
          exact sound_loopThen hb (step_to hin hs (by push_cast; rfl)) (by intro a; simp [off])
            (fun s r' h => step_to hinj (hsj s) (by push_cast; omega) r' h)
            (fun s => ih (Prog.while c b r) lc pre post code s hcode0)
            (fun s => hrest s)
        · simp only [htr]
          have hs : sstep code st pre.length = .next st ((pre.length : Int) + ((size b : Int) + 2)) := by
            simp only [sstep, hx, hv, htr]; simp
          exact sound_pre (step_to hin hs (by push_cast; omega)) (hrest st)
    | brk r =>
      simp only [comp] at hcode
      have hx := getElem_at hcode
      have hin := in_range hcode
      simp only [exec, Sound]
      intro b c hl rr hrr
      subst hl
      exact slides_step hin (by simp only [sstep, hx]; rfl) hrr
    | cont r =>
      simp only [comp] at hcode
      have hx := getElem_at hcode
      have hin := in_range hcode
      simp only [exec, Sound]
      intro b c hl rr hrr
      subst hl
      exact slides_step hin (by simp only [sstep, hx]; rfl) hrr

/-! ### resuming after a step statement -/

theorem rest_sound_ite0 {c t e r lc pre post code} (he : size e = 0)
    (hcode : code = pre ++ comp lc (Prog.ite c t e r) ++ post) (f : Nat) (s : SSt) :
    Sound code s ((pre.length + 1 + size t : Nat) : Int) pre.length lc (Prog.ite c t e r) ((exec f s r).mapAddr .next) := by
  simp only [comp, if_pos he] at hcode
  have hoffn : ∀ a, off (Prog.ite c t e r) (.next a) = (1 + size t) + off r a := by
    intro a; simp [off, headSize, rest, he]
  have hr := exec_sound f r (lc.shift (1 + size t)) (pre ++ Elem.ifE c (size t + 1) :: comp (lc.shift 1) t) post code s
    (by simp [hcode])
  have el : (pre ++ Elem.ifE c (size t + 1) :: comp (lc.shift 1) t).length = pre.length + (1 + size t) := by
    simp [comp_length]; omega
  rw [el] at hr
  exact sound_map (k := 1 + size t) (fun r' h => slides_cast (by push_cast; omega) h) hoffn
    (by intro _ _; simp [size, he] <;> omega) rfl hr

theorem rest_sound_ite1 {c t e r lc pre post code} (he : ¬ size e = 0)
    (hcode : code = pre ++ comp lc (Prog.ite c t e r) ++ post) (f : Nat) (s : SSt) :
    Sound code s ((pre.length + (1 + size t + 1) + size e : Nat) : Int) pre.length lc (Prog.ite c t e r) ((exec f s r).mapAddr .next) := by
  simp only [comp, if_neg he] at hcode
  have hoffn : ∀ a, off (Prog.ite c t e r) (.next a) = (1 + size t + 1 + size e) + off r a := by
    intro a; simp [off, headSize, rest, he]; omega
  have hr := exec_sound f r (lc.shift (1 + size t + 1 + size e))
    (pre ++ Elem.ifE c (size t + 2) :: (comp (lc.shift 1) t ++ Elem.jump (size e + 1) false :: comp (lc.shift (1 + size t + 1)) e)) post code s
    (by simp [hcode])
  have el : (pre ++ Elem.ifE c (size t + 2) :: (comp (lc.shift 1) t ++ Elem.jump (size e + 1) false :: comp (lc.shift (1 + size t + 1)) e)).length
      = pre.length + (1 + size t + 1 + size e) := by
    simp [comp_length]; omega
  rw [el] at hr
  exact sound_map (k := 1 + size t + 1 + size e) (fun r' h => slides_cast (by push_cast; omega) h) hoffn
    (by intro _ _; simp [size, he] <;> omega) rfl hr

theorem jump_ite1 {c t e r lc pre post code} (he : ¬ size e = 0)
    (hcode : code = pre ++ comp lc (Prog.ite c t e r) ++ post) (s : SSt) :
    ∀ r', Slides code s ((pre.length + (1 + size t + 1) + size e : Nat) : Int) r' →
      Slides code s ((pre.length + 1 + size t : Nat) : Int) r' := by
  simp only [comp, if_neg he] at hcode
  have hxj := getElem_at' (pre := pre ++ Elem.ifE c (size t + 2) :: comp (lc.shift 1) t) (x := Elem.jump (size e + 1) false)
    (rest := comp (lc.shift (1 + size t + 1)) e ++ comp (lc.shift (1 + size t + 1 + size e)) r) (post := post) (code := code)
    (n := pre.length + 1 + size t) (by simp [hcode]) (by simp [comp_length]; omega)
  have hinj := in_range' (pre := pre ++ Elem.ifE c (size t + 2) :: comp (lc.shift 1) t) (x := Elem.jump (size e + 1) false)
    (rest := comp (lc.shift (1 + size t + 1)) e ++ comp (lc.shift (1 + size t + 1 + size e)) r) (post := post) (code := code)
    (n := pre.length + 1 + size t) (by simp [hcode]) (by simp [comp_length]; omega)
  have hsj : sstep code s ((pre.length + 1 + size t : Nat) : Int) = .next s (((pre.length + 1 + size t : Nat) : Int) + ((size e : Int) + 1)) := by
    simp only [sstep, hxj]; simp
  exact step_to hinj hsj (by push_cast; omega)

theorem rest_sound_while {c b r lc pre post code}
    (hcode : code = pre ++ comp lc (Prog.while c b r) ++ post) (f : Nat) (s : SSt) :
    Sound code s ((pre.length + 1 + size b + 1 : Nat) : Int) pre.length lc (Prog.while c b r) ((exec f s r).mapAddr .next) := by
  simp only [comp] at hcode
  have hoffn : ∀ a, off (Prog.while c b r) (.next a) = (1 + size b + 1) + off r a := by
    intro a; simp [off, headSize, rest]
  have hr := exec_sound f r (lc.shift (1 + size b + 1))
    (pre ++ Elem.whileE c 1 (size b + 2) :: (comp (some ((size b : Int) + 1, -1)) b ++ [Elem.jump (-1 * ((size b : Int) + 1)) false])) post code s
    (by simp [hcode])
  have el : (pre ++ Elem.whileE c 1 (size b + 2) :: (comp (some ((size b : Int) + 1, -1)) b ++ [Elem.jump (-1 * ((size b : Int) + 1)) false])).length
      = pre.length + (1 + size b + 1) := by
    simp [comp_length]; omega
  rw [el] at hr
  exact sound_map (k := 1 + size b + 1) (fun r' h => slides_cast (by push_cast; omega) h) hoffn
    (by intro _ _; simp [size] <;> omega) rfl hr

theorem jump_while {c b r lc pre post code}
    (hcode : code = pre ++ comp lc (Prog.while c b r) ++ post) (s : SSt) :
    ∀ r', Slides code s (pre.length : Int) r' → Slides code s ((pre.length + 1 + size b : Nat) : Int) r' := by
  simp only [comp] at hcode
  have hxj := getElem_at' (pre := pre ++ Elem.whileE c 1 (size b + 2) :: comp (some ((size b : Int) + 1, -1)) b)
    (x := Elem.jump (-1 * ((size b : Int) + 1)) false)
    (rest := comp (lc.shift (1 + size b + 1)) r) (post := post) (code := code)
    (n := pre.length + 1 + size b) (by simp [hcode]) (by simp [comp_length]; omega)
  have hinj := in_range' (pre := pre ++ Elem.whileE c 1 (size b + 2) :: comp (some ((size b : Int) + 1, -1)) b)
    (x := Elem.jump (-1 * ((size b : Int) + 1)) false)
    (rest := comp (lc.shift (1 + size b + 1)) r) (post := post) (code := code)
    (n := pre.length + 1 + size b) (by simp [hcode]) (by simp [comp_length]; omega)
  have hsj : sstep code s ((pre.length + 1 + size b : Nat) : Int)
      = .next s (((pre.length + 1 + size b : Nat) : Int) + (-1 * ((size b : Int) + 1))) := by
    simp only [sstep, hxj]; simp
  exact fun r' h => step_to hinj hsj (by push_cast; omega) r' h

theorem comp_split : ∀ (lc : LC) (p : Prog), p ≠ .nil →
    ∃ H, comp lc p = H ++ comp (lc.shift (headSize p)) (rest p) ∧ H.length = headSize p := by
  intro lc p hp
  cases p with
  | nil => exact absurd rfl hp
  | step s r => exact ⟨[elemOf s], by simp [comp, headSize, rest]⟩
  | set k e r => exact ⟨[Elem.setE k e 1], by simp [comp, headSize, rest]⟩
  | brk r => exact ⟨[Elem.breakE (lc.map (·.1))], by simp [comp, headSize, rest]⟩
  | cont r => exact ⟨[Elem.continueE (lc.map (·.2))], by simp [comp, headSize, rest]⟩
  | ite c t e r =>
    by_cases he : size e = 0
    · exact ⟨Elem.ifE c (size t + 1) :: comp (lc.shift 1) t, by simp [comp, headSize, rest, he, comp_length]; omega⟩
    · refine ⟨Elem.ifE c (size t + 2) :: (comp (lc.shift 1) t ++ Elem.jump (size e + 1) false :: comp (lc.shift (1 + size t + 1)) e), ?_⟩
      simp [comp, headSize, rest, he, comp_length]
      exact ⟨by congr 2; omega, by omega⟩
  | «while» c b r =>
    refine ⟨Elem.whileE c 1 (size b + 2) :: (comp (some ((size b : Int) + 1, -1)) b ++ [Elem.jump (-1 * ((size b : Int) + 1)) false]), ?_⟩
    simp [comp, headSize, rest, comp_length]
    omega

theorem size_split : ∀ (p : Prog), size p = headSize p + size (rest p) := by
  intro p; cases p <;> simp [size, headSize, rest] <;> omega

theorem execFrom_next {f st p a} (hp : p ≠ .nil) :
    execFrom (f + 1) st p (.next a) = (execFrom f st (rest p) a).mapAddr .next := by
  cases p <;> first | exact absurd rfl hp | simp [execFrom, rest]

/-- **Compiler correctness, resuming after the step statement at source address `a`.** -/
theorem execFrom_sound : ∀ (f : Nat) (p : Prog) (a : Addr) (lc : LC) (pre post code : List Elem) (st : SSt),
    code = pre ++ comp lc p ++ post →
    Sound code st ((pre.length + off p a + 1 : Nat) : Int) pre.length lc p (execFrom f st p a) := by
  intro f
  induction f with
  | zero => intro p a lc pre post code st _; simp [execFrom, Sound]
  | succ f ih =>
    intro p a lc pre post code st hcode
    cases a with
    | here =>
      cases p with
      | step s r =>
        simp only [execFrom, off]
        have hr := exec_sound f r (lc.shift 1) (pre ++ [elemOf s]) post code st (by simp [hcode, comp])
        simp only [List.length_append, List.length_cons, List.length_nil, Nat.zero_add] at hr
        exact sound_map (k := 1) (fun r' h => slides_cast (by push_cast; omega) h)
          (by intro a; simp [off, headSize, rest]) (by intro _ _; simp [size]) rfl hr
      | nil => simp [execFrom, Sound]
      | set k e r => simp [execFrom, Sound]
      | ite c t e r => simp [execFrom, Sound]
      | «while» c b r => simp [execFrom, Sound]
      | brk r => simp [execFrom, Sound]
      | cont r => simp [execFrom, Sound]
    | next a =>
      by_cases hp : p = .nil
      · subst hp; simp [execFrom, Sound]
      · rw [execFrom_next hp]
        obtain ⟨H, hH, hl⟩ := comp_split lc p hp
        have hr := ih (rest p) a (lc.shift (headSize p)) (pre ++ H) post code st (by simp [hcode, hH])
        simp only [List.length_append, hl] at hr
        exact sound_map (k := headSize p) (fun r' h => slides_cast (by simp [off]; omega) h)
          (by intro a; simp [off]) (by intro _ _; exact size_split p) rfl hr
    | thenB a =>
      cases p with
      | ite c t e r =>
        simp only [execFrom]
        by_cases he : size e = 0
        · have hcode0 := hcode
          simp only [comp, if_pos he] at hcode
          have ht := ih t a (lc.shift 1) (pre ++ [Elem.ifE c (size t + 1)]) (comp (lc.shift (1 + size t)) r ++ post) code st
            (by simp [hcode])
          simp only [List.length_append, List.length_cons, List.length_nil, Nat.zero_add] at ht
          exact sound_andThen (k1 := 1) ht (fun r' h => slides_cast (by simp [off]; omega) h)
            (by intro a; simp [off]) (fun s _ => rest_sound_ite0 he hcode0 f s)
        · have hcode0 := hcode
          simp only [comp, if_neg he] at hcode
          have ht := ih t a (lc.shift 1) (pre ++ [Elem.ifE c (size t + 2)])
            (Elem.jump (size e + 1) false :: (comp (lc.shift (1 + size t + 1)) e ++ comp (lc.shift (1 + size t + 1 + size e)) r) ++ post) code st
            (by simp [hcode])
          simp only [List.length_append, List.length_cons, List.length_nil, Nat.zero_add] at ht
          exact sound_andThen (k1 := 1) ht (fun r' h => slides_cast (by simp [off]; omega) h)
            (by intro a; simp [off]) (fun s _ => sound_pre (jump_ite1 he hcode0 s) (rest_sound_ite1 he hcode0 f s))
      | nil => simp [execFrom, Sound]
      | step s r => simp [execFrom, Sound]
      | set k e r => simp [execFrom, Sound]
      | «while» c b r => simp [execFrom, Sound]
      | brk r => simp [execFrom, Sound]
      | cont r => simp [execFrom, Sound]
    | elseB a =>
      cases p with
      | ite c t e r =>
        simp only [execFrom]
        by_cases he : size e = 0
        · have e0 := size_eq_zero he
          subst e0
          cases f with
          | zero => simp [execFrom, Out.andThen, Out.mapAddr, Sound]
          | succ f' => cases a <;> simp [execFrom, Out.andThen, Out.mapAddr, Sound]
        · have hcode0 := hcode
          simp only [comp, if_neg he] at hcode
          have hee := ih e a (lc.shift (1 + size t + 1)) (pre ++ Elem.ifE c (size t + 2) :: (comp (lc.shift 1) t ++ [Elem.jump (size e + 1) false]))
            (comp (lc.shift (1 + size t + 1 + size e)) r ++ post) code st (by simp [hcode])
          have el : (pre ++ Elem.ifE c (size t + 2) :: (comp (lc.shift 1) t ++ [Elem.jump (size e + 1) false])).length
              = pre.length + (1 + size t + 1) := by
            simp [comp_length]; omega
          rw [el] at hee
          exact sound_andThen (k1 := 1 + size t + 1) hee (fun r' h => slides_cast (by simp [off]; omega) h)
            (by intro a; simp [off]) (fun s _ => rest_sound_ite1 he hcode0 f s)
      | nil => simp [execFrom, Sound]
      | step s r => simp [execFrom, Sound]
      | set k e r => simp [execFrom, Sound]
      | «while» c b r => simp [execFrom, Sound]
      | brk r => simp [execFrom, Sound]
      | cont r => simp [execFrom, Sound]
    | body a =>
      cases p with
      | «while» c b r =>
        simp only [execFrom]
        have hcode0 := hcode
        simp only [comp] at hcode
        have hb := ih b a (some ((size b : Int) + 1, -1)) (pre ++ [Elem.whileE c 1 (size b + 2)])
          (Elem.jump (-1 * ((size b : Int) + 1)) false :: comp (lc.shift (1 + size b + 1)) r ++ post) code st
          (by simp [hcode])
        simp only [List.length_append, List.length_cons, List.length_nil, Nat.zero_add] at hb
        exact sound_loopThen hb (fun r' h => slides_cast (by simp [off]; omega) h) (by intro a; simp [off])
          (fun s r' h => jump_while hcode0 s r' h)
          (fun s => exec_sound f (Prog.while c b r) lc pre post code s hcode0)
          (fun s => rest_sound_while hcode0 f s)
      | nil => simp [execFrom, Sound]
      | step s r => simp [execFrom, Sound]
      | set k e r => simp [execFrom, Sound]
      | ite c t e r => simp [execFrom, Sound]
      | brk r => simp [execFrom, Sound]
      | cont r => simp [execFrom, Sound]

/-! ### the compiler as the code has it (`compile`: extract, then annotate) equals `comp none` -/

theorem annotate_append (n : Nat) : ∀ (l1 l2 : List Elem) (j : Nat),
    annotate n j (l1 ++ l2) = annotate n j l1 ++ annotate n (j + l1.length) l2 := by
  intro l1
  induction l1 with
  | nil => intro l2 j; simp [annotate]
  | cons x xs ih => intro l2 j; simp [annotate, ih]; congr 1; omega

theorem annotate_comp_some (n : Nat) : ∀ (p : Prog) (x : Int × Int) (j : Nat),
    annotate n j (comp (some x) p) = comp (some x) p := by
  intro p
  induction p with
  | nil => intro x j; simp [comp, annotate]
  | step s r ih => intro x j; cases s <;> simp [comp, annotate, annElem, elemOf, LC.shift, ih]
  | set k e r ih => intro x j; simp [comp, annotate, annElem, LC.shift, ih]
  | ite c t e r iht ihe ihr =>
    intro x j
    by_cases he : size e = 0
    · simp [comp, he, annotate, annElem, annotate_append, LC.shift, iht, ihr]
    · simp [comp, he, annotate, annElem, annotate_append, LC.shift, iht, ihe, ihr]
  | «while» c b r ihb ihr => intro x j; simp [comp, annotate, annElem, annotate_append, LC.shift, ihb, ihr]
  | brk r ih => intro x j; simp [comp, annotate, annElem, LC.shift, ih]
  | cont r ih => intro x j; simp [comp, annotate, annElem, LC.shift, ih]

def lcOf (n j : Nat) : LC := some ((n : Int) + 1 - j, -1 * (j : Int) - 1)

theorem lcOf_shift (n j k : Nat) : (lcOf n j).shift k = lcOf n (j + k) := by
  simp only [lcOf, LC.shift, Option.map]
  congr 2 <;> push_cast <;> omega

theorem none_shift (k : Nat) : LC.shift none k = none := rfl

theorem annotate_comp_none (n : Nat) : ∀ (p : Prog) (j : Nat),
    annotate n j (comp none p) = comp (lcOf n j) p := by
  intro p
  induction p with
  | nil => intro j; simp [comp, annotate]
  | step s r ih => intro j; cases s <;> simp [comp, annotate, annElem, elemOf, none_shift, lcOf_shift, ih]
  | set k e r ih => intro j; simp [comp, annotate, annElem, none_shift, lcOf_shift, ih]
  | ite c t e r iht ihe ihr =>
    intro j
    by_cases he : size e = 0
    · simp [comp, he, annotate, annElem, annotate_append, none_shift, lcOf_shift, iht, ihr, comp_length]
      congr 2; omega
    · simp [comp, he, annotate, annElem, annotate_append, none_shift, lcOf_shift, iht, ihe, ihr, comp_length]
      congr 2 <;> congr 1 <;> omega
  | «while» c b r ihb ihr =>
    intro j
    simp [comp, annotate, annElem, annotate_append, none_shift, lcOf_shift, annotate_comp_some, ihr, comp_length]
    congr 2; omega
  | brk r ih => intro j; simp only [comp, annotate, annElem, none_shift, ih, lcOf_shift]; simp [lcOf]
  | cont r ih => intro j; simp only [comp, annotate, annElem, none_shift, ih, lcOf_shift]; simp [lcOf]

/-- `compile` (the mirror of `_extract_elements`) and `comp none` (loop context passed down) agree. -/
theorem compile_eq_comp : ∀ p : Prog, compile p = comp none p := by
  intro p
  induction p with
  | nil => simp [compile, comp]
  | step s r ih => simp [compile, comp, none_shift, ih]
  | set k e r ih => simp [compile, comp, none_shift, ih]
  | ite c t e r iht ihe ihr =>
    by_cases he : size e = 0
    · simp [compile, comp, none_shift, iht, ihe, ihr, comp_length, he]
    · simp [compile, comp, none_shift, iht, ihe, ihr, comp_length, he]
  | «while» c b r ihb ihr =>
    simp [compile, comp, none_shift, ihb, ihr, comp_length, annotate_comp_none, lcOf]
  | brk r ih => simp [compile, comp, none_shift, ih]
  | cont r ih => simp [compile, comp, none_shift, ih]

/-! ### the element at the compiled position of a step statement; determinism of `slide` in the fuel -/

theorem stepAt_next {p : Prog} {a : Addr} (hp : p ≠ .nil) : stepAt p (.next a) = stepAt (rest p) a := by
  cases p <;> first | exact absurd rfl hp | simp [stepAt, rest]

theorem comp_at_off : ∀ (a : Addr) (p : Prog) (lc : LC) (pre post : List Elem) (s : Step),
    stepAt p a = some s → (pre ++ comp lc p ++ post)[pre.length + off p a]? = some (elemOf s) := by
  intro a
  induction a with
  | here =>
    intro p lc pre post s h
    cases p <;> simp [stepAt] at h
    subst h
    simp [comp, off]
  | next a ih =>
    intro p lc pre post s h
    by_cases hp : p = .nil
    · subst hp; simp [stepAt] at h
    · rw [stepAt_next hp] at h
      obtain ⟨H, hH, hl⟩ := comp_split lc p hp
      have := ih (rest p) (lc.shift (headSize p)) (pre ++ H) post s h
      simp only [List.length_append, hl] at this
      simp only [off, hH]
      simpa [Nat.add_assoc] using this
  | thenB a ih =>
    intro p lc pre post s h
    cases p <;> simp [stepAt] at h
    rename_i c t e r
    by_cases he : size e = 0
    · have := ih t (lc.shift 1) (pre ++ [Elem.ifE c (size t + 1)]) (comp (lc.shift (1 + size t)) r ++ post) s h
      simp only [List.length_append, List.length_cons, List.length_nil, Nat.zero_add] at this
      simp only [comp, if_pos he, off]
      simpa [Nat.add_assoc] using this
    · have := ih t (lc.shift 1) (pre ++ [Elem.ifE c (size t + 2)])
        (Elem.jump (size e + 1) false :: (comp (lc.shift (1 + size t + 1)) e ++ comp (lc.shift (1 + size t + 1 + size e)) r) ++ post) s h
      simp only [List.length_append, List.length_cons, List.length_nil, Nat.zero_add] at this
      simp only [comp, if_neg he, off]
      simpa [Nat.add_assoc] using this
  | elseB a ih =>
    intro p lc pre post s h
    cases p <;> simp [stepAt] at h
    rename_i c t e r
    by_cases he : size e = 0
    · have e0 := size_eq_zero he
      subst e0
      cases a <;> simp [stepAt] at h
    · have := ih e (lc.shift (1 + size t + 1)) (pre ++ Elem.ifE c (size t + 2) :: (comp (lc.shift 1) t ++ [Elem.jump (size e + 1) false]))
        (comp (lc.shift (1 + size t + 1 + size e)) r ++ post) s h
      have el : (pre ++ Elem.ifE c (size t + 2) :: (comp (lc.shift 1) t ++ [Elem.jump (size e + 1) false])).length
          = pre.length + (1 + size t + 1) := by
        simp [comp_length]; omega
      rw [el] at this
      simp only [comp, if_neg he, off]
      simpa [Nat.add_assoc] using this
  | body a ih =>
    intro p lc pre post s h
    cases p <;> simp [stepAt] at h
    rename_i c b r
    have := ih b (some ((size b : Int) + 1, -1)) (pre ++ [Elem.whileE c 1 (size b + 2)])
      (Elem.jump (-1 * ((size b : Int) + 1)) false :: comp (lc.shift (1 + size b + 1)) r ++ post) s h
    simp only [List.length_append, List.length_cons, List.length_nil, Nat.zero_add] at this
    simp only [comp, off]
    simpa [Nat.add_assoc] using this

theorem slide_det : ∀ (f1 f2 : Nat) (code : List Elem) (st : SSt) (pos prev1 prev2 : Int) (r1 r2 : ARes),
    absRes (slide f1 code st pos prev1) = some r1 → absRes (slide f2 code st pos prev2) = some r2 → r1 = r2 := by
  intro f1
  induction f1 with
  | zero => intro f2 code st pos p1 p2 r1 r2 h1; simp [slide, absRes] at h1
  | succ f1 ih =>
    intro f2 code st pos p1 p2 r1 r2 h1 h2
    cases f2 with
    | zero => simp [slide, absRes] at h2
    | succ f2 =>
      simp only [slide] at h1 h2
      by_cases hend : pos = (code.length : Int) ∨ pos < 0
      · simp only [hend, if_true, absRes] at h1 h2
        rw [← Option.some.inj h1, ← Option.some.inj h2]
      · simp only [hend, if_false] at h1 h2
        cases hs : sstep code st pos with
        | next st' h' =>
          simp only [hs] at h1 h2
          exact ih f2 code st' h' pos pos r1 r2 h1 h2
        | stop =>
          simp only [hs, absRes] at h1 h2
          rw [← Option.some.inj h1, ← Option.some.inj h2]
        | err =>
          simp only [hs, absRes] at h1 h2
          rw [← Option.some.inj h1, ← Option.some.inj h2]

/-- if the fuelled `slide` of the model did not run out of fuel, it returns what `Slides` says -/
theorem slides_agree {code st pos r} {F : Nat} {prev : Int} (h : Slides code st pos r)
    (hF : slide F code st pos prev ≠ .oof) : absRes (slide F code st pos prev) = some r := by
  obtain ⟨f, hf⟩ := h
  cases hr : slide F code st pos prev with
  | oof => exact absurd hr hF
  | «at» s h' =>
    have := slide_det F f code st pos prev prev (.at s h') r (by rw [hr]; rfl) (hf prev)
    rw [← this]; rfl
  | fin s h' =>
    have := slide_det F f code st pos prev prev (.fin s) r (by rw [hr]; rfl) (hf prev)
    rw [← this]; rfl
  | err =>
    have := slide_det F f code st pos prev prev .err r (by rw [hr]; rfl) (hf prev)
    rw [← this]; rfl

end NemoVerif.V1Struct
