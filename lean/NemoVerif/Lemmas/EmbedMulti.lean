/-
  Lemmas about the multi-index part of `Models/Embed.lean` (`IndexCfg`, `Stores`, `multiCall`, `mstep`):
  several `BasicEmbeddingsIndex` objects with their own embedding model, key generator and cache
  configuration in one process, the stores identified by location.
  Property theorems are in Theorems/C19.lean.
-/
import NemoVerif.Lemmas.Embed
set_option linter.unusedSectionVars false
set_option linter.unusedSimpArgs false
namespace NemoVerif.Embed

section Multi
variable {α κ β : Type} [DecidableEq α] [DecidableEq κ]

/-- the index really reads and writes the store at its location: cache enabled and the store object
    outlives the call (`filesystem`, shared stores; not `in_memory`, which is built empty per call) -/
def Live (ix : IndexCfg α κ β) : Prop := ix.cfg.enabled = true ∧ ix.cfg.persistent = true

instance (ix : IndexCfg α κ β) : Decidable (Live ix) := by unfold Live; exact inferInstance

/-- **the hypothesis**: whenever two indexes that both use the store at one location produce the SAME cache key
    (for texts `t`, `t'` in use), their models give the same vector.  It holds when the two indexes have the same
    model and key generator (then `InjOn` makes `t = t'`), and when the keys of different models can never
    coincide (model identity part of the key: the proposed repair).  It FAILS for the code as it is when two
    indexes with different models name one store location: the key is derived from the text only.
    The harness evaluates it on the real objects of every case: which configurations see each other's entries
    (`store identity`), the real key of every text through the real wrapper, the models' vectors. -/
def NoForeignShare (U : α → Prop) (ixs : List (IndexCfg α κ β)) : Prop :=
  ∀ a ∈ ixs, ∀ b ∈ ixs, a.loc = b.loc → Live a → Live b → ∀ t t', U t → U t' → a.g t = b.g t' → a.f t = b.f t'

/-- every store location holds only correct entries from the point of view of every index using it -/
def StoresOK (U : α → Prop) (ixs : List (IndexCfg α κ β)) (st : Stores κ β) : Prop :=
  ∀ a ∈ ixs, Live a → StoreOK U a.g a.f (storeAt st a.loc)

theorem storeAt_set (st : Stores κ β) (l l' : Nat) (d : Dict κ β) :
    storeAt (Dict.set st l d) l' = if l = l' then d else storeAt st l' := by
  unfold storeAt
  rw [Dict.get?_set]
  by_cases h : l = l' <;> simp [h]

/-- write-back of index (g, f) keeps the store correct from the point of view of (g', f') -/
theorem cacheSetList_foreign (U : α → Prop) (g g' : α → κ) (f f' : α → β)
    (hc : ∀ t t', U t → U t' → g t = g' t' → f t = f' t') (texts : List α) :
    ∀ (store : Dict κ β), (∀ t ∈ texts, U t) → StoreOK U g' f' store →
      StoreOK U g' f' (cacheSetList g store texts (texts.map f)) := by
  induction texts with
  | nil => intro store _ hs; simpa [cacheSetList] using hs
  | cons a r ih =>
    intro store hU hs
    rw [List.map_cons, cacheSetList_cons]
    apply ih _ (fun t ht => hU t (List.mem_cons_of_mem _ ht))
    intro t ht v hv
    rw [Dict.get?_set] at hv
    by_cases e : g a = g' t
    · simp only [e, if_true, Option.some.injEq] at hv
      rw [← hv]
      exact hc a t (hU a (by simp)) ht e
    · simp only [e, if_false] at hv
      exact hs t ht v hv

theorem endCall_foreign (cfg : CacheCfg) (U : α → Prop) (g g' : α → κ) (f f' : α → β)
    (hc : ∀ t t', U t → U t' → g t = g' t' → f t = f' t') (store : Dict κ β) (p : Pending α β)
    (hunc : ∀ t ∈ p.uncached, U t) (hs : StoreOK U g' f' store) :
    StoreOK U g' f' (endCall cfg g store p (p.uncached.map f)).1 := by
  unfold endCall
  by_cases he : cfg.enabled
  · by_cases hp : cfg.persistent
    · simp only [he, hp, if_true, view, callEnd]
      by_cases hem : p.uncached.isEmpty
      · simpa [hem] using hs
      · simp only [hem]
        exact cacheSetList_foreign U g g' f f' hc p.uncached store hunc hs
    · simpa [he, hp] using hs
  · simpa [he] using hs

theorem storesOK_nil (U : α → Prop) (ixs : List (IndexCfg α κ β)) : StoresOK U ixs ([] : Stores κ β) := by
  intro a _ _
  have : storeAt ([] : Stores κ β) a.loc = [] := by simp [storeAt, Dict.get?]
  rw [this]
  exact storeOK_nil U a.g a.f

/-- an index that is not `Live` neither reads nor changes the store -/
theorem beginCall_not_live (cfg : CacheCfg) (g : α → κ) (store : Dict κ β) (texts : List α)
    (h : ¬ (cfg.enabled = true ∧ cfg.persistent = true)) :
    beginCall cfg g store texts = beginCall cfg g [] texts := by
  unfold beginCall view
  by_cases he : cfg.enabled
  · have hp : cfg.persistent = false := by
      cases hpp : cfg.persistent
      · rfl
      · exact absurd ⟨he, hpp⟩ h
    simp [he, hp]
  · simp [he]

theorem endCall_not_live (cfg : CacheCfg) (g : α → κ) (store : Dict κ β) (p : Pending α β) (fresh : List β)
    (h : ¬ (cfg.enabled = true ∧ cfg.persistent = true)) :
    endCall cfg g store p fresh = (store, (endCall cfg g [] p fresh).2) := by
  unfold endCall view
  by_cases he : cfg.enabled
  · have hp : cfg.persistent = false := by
      cases hpp : cfg.persistent
      · rfl
      · exact absurd ⟨he, hpp⟩ h
    simp [he, hp]
  · simp [he]

/-- `cached_correct` for one index, usable from lemma files; for an index that is not `Live` nothing is
    assumed about the store -/
theorem cachedCall_spec (U : α → Prop) (ix : IndexCfg α κ β) (hinj : InjOn ix.g U) (store : Dict κ β) (texts : List α)
    (hs : Live ix → StoreOK U ix.g ix.f store) (hU : ∀ t ∈ texts, U t) :
    (cachedCall ix.cfg ix.g ix.f store texts).2 = texts.map (fun t => some (ix.f t)) ∧
    (¬ Live ix → (cachedCall ix.cfg ix.g ix.f store texts).1 = store) ∧
    (∀ (g' : α → κ) (f' : α → β), (∀ t t', U t → U t' → ix.g t = g' t' → ix.f t = f' t') →
      StoreOK U g' f' store → StoreOK U g' f' (cachedCall ix.cfg ix.g ix.f store texts).1) := by
  by_cases hl : Live ix
  · obtain ⟨hp, htx⟩ := beginCall_spec ix.cfg U ix.g ix.f store texts (hs hl) hU
    have := endCall_spec ix.cfg U ix.g ix.f hinj store _ (hs hl) hp (beginCall_shape ix.cfg ix.g store texts)
    rw [htx] at this
    unfold cachedCall
    exact ⟨this.1, fun h => absurd hl h,
      fun g' f' hc hs' => endCall_foreign ix.cfg U ix.g g' ix.f f' hc store _ hp.unc hs'⟩
  · have hb := beginCall_not_live ix.cfg ix.g store texts hl
    obtain ⟨hp, htx⟩ := beginCall_spec ix.cfg U ix.g ix.f [] texts (storeOK_nil U ix.g ix.f) hU
    have := endCall_spec ix.cfg U ix.g ix.f hinj [] _ (storeOK_nil U ix.g ix.f) hp (beginCall_shape ix.cfg ix.g [] texts)
    rw [htx] at this
    unfold cachedCall
    simp only [hb]
    rw [endCall_not_live ix.cfg ix.g store _ _ hl]
    exact ⟨this.1, fun _ => rfl, fun g' f' _ hs' => hs'⟩

/-- writing back the result of a call of index `ix` keeps every location correct for every index -/
theorem storesOK_set {U : α → Prop} {ixs : List (IndexCfg α κ β)}
    {st : Stores κ β} (hst : StoresOK U ixs st) {ix : IndexCfg α κ β} (d : Dict κ β)
    (h1 : Live ix → ∀ a ∈ ixs, Live a → a.loc = ix.loc → StoreOK U a.g a.f d) (h2 : ¬ Live ix → d = storeAt st ix.loc) :
    StoresOK U ixs (Dict.set st ix.loc d) := by
  intro a ha hla
  rw [storeAt_set]
  by_cases hloc : ix.loc = a.loc
  · simp only [hloc, if_true]
    by_cases hl : Live ix
    · exact h1 hl a ha hla hloc.symm
    · rw [h2 hl, hloc]; exact hst a ha hla
  · simp only [hloc, if_false]; exact hst a ha hla

theorem multiCall_spec (U : α → Prop) (ixs : List (IndexCfg α κ β)) (hinj : ∀ a ∈ ixs, InjOn a.g U)
    (hsh : NoForeignShare U ixs) (st : Stores κ β) (hst : StoresOK U ixs st) (i : Nat) (texts : List α)
    (hU : ∀ t ∈ texts, U t) (ix : IndexCfg α κ β) (hi : ixs[i]? = some ix) :
    (multiCall ixs st i texts).2 = texts.map (fun t => some (ix.f t)) ∧ StoresOK U ixs (multiCall ixs st i texts).1 := by
  have hmem : ix ∈ ixs := List.mem_of_getElem? hi
  obtain ⟨h1, h2, h3⟩ := cachedCall_spec U ix (hinj ix hmem) (storeAt st ix.loc) texts (fun hl => hst ix hmem hl) hU
  unfold multiCall
  simp only [hi]
  refine ⟨h1, storesOK_set hst _ ?_ h2⟩
  intro hl a ha hla hloc
  exact h3 a.g a.f (hsh ix hmem a ha hloc.symm hl hla) (hloc ▸ hst a ha hla)

/-! #### the two halves of the wrapper interleaved between indexes -/

def MLabelOK (U : α → Prop) : MLabel α → Prop
  | .begin _ texts => ∀ t ∈ texts, U t
  | .finish _ => True

/-- invariant of `mstep` -/
structure MInv (U : α → Prop) (ixs : List (IndexCfg α κ β)) (s : MState α κ β) : Prop where
  stores : StoresOK U ixs s.stores
  pending : ∀ e ∈ s.pending, ∃ ix, ixs[e.1]? = some ix ∧ PendingOK U ix.f e.2 ∧ PendingShape ix.cfg e.2
  returned : ∀ e ∈ s.returned, ∃ ix, ixs[e.1]? = some ix ∧ e.2.2 = e.2.1.map (fun t => some (ix.f t))

theorem minv_step {U : α → Prop} {ixs : List (IndexCfg α κ β)} (hinj : ∀ a ∈ ixs, InjOn a.g U)
    (hsh : NoForeignShare U ixs) {s s' : MState α κ β} (l : MLabel α) (hl : MLabelOK U l)
    (hI : MInv U ixs s) (h : mstep ixs s l = some s') : MInv U ixs s' := by
  cases l with
  | «begin» i texts =>
    simp only [mstep] at h
    cases hi : ixs[i]? with
    | none => simp [hi] at h
    | some ix =>
      simp only [hi, Option.some.injEq] at h
      subst h
      have hmem : ix ∈ ixs := List.mem_of_getElem? hi
      refine ⟨hI.stores, ?_, hI.returned⟩
      intro e he
      simp only [List.mem_append, List.mem_singleton] at he
      rcases he with he | he
      · exact hI.pending e he
      · subst he
        refine ⟨ix, hi, ?_, beginCall_shape ix.cfg ix.g _ texts⟩
        by_cases hlive : Live ix
        · exact (beginCall_spec ix.cfg U ix.g ix.f _ texts (hI.stores ix hmem hlive) hl).1
        · simp only []
          rw [beginCall_not_live ix.cfg ix.g _ texts hlive]
          exact (beginCall_spec ix.cfg U ix.g ix.f [] texts (storeOK_nil U ix.g ix.f) hl).1
  | finish k =>
    simp only [mstep] at h
    cases hk : s.pending[k]? with
    | none => simp [hk] at h
    | some e =>
      obtain ⟨i, p⟩ := e
      simp only [hk] at h
      obtain ⟨ix, hi, hp, hshape⟩ := hI.pending (i, p) (List.mem_of_getElem? hk)
      simp only [hi, Option.some.injEq] at h
      subst h
      have hmem : ix ∈ ixs := List.mem_of_getElem? hi
      have key : (endCall ix.cfg ix.g (storeAt s.stores ix.loc) p (p.uncached.map ix.f)).2 = p.texts.map (fun t => some (ix.f t)) ∧
          (¬ Live ix → (endCall ix.cfg ix.g (storeAt s.stores ix.loc) p (p.uncached.map ix.f)).1 = storeAt s.stores ix.loc) := by
        by_cases hlive : Live ix
        · have := endCall_spec ix.cfg U ix.g ix.f (hinj ix hmem) (storeAt s.stores ix.loc) p (hI.stores ix hmem hlive) hp hshape
          exact ⟨this.1, fun h => absurd hlive h⟩
        · have := endCall_spec ix.cfg U ix.g ix.f (hinj ix hmem) [] p (storeOK_nil U ix.g ix.f) hp hshape
          rw [endCall_not_live ix.cfg ix.g _ p _ hlive]
          exact ⟨this.1, fun _ => rfl⟩
      refine ⟨storesOK_set hI.stores _ ?_ key.2, ?_, ?_⟩
      · intro hlive a ha hla hloc
        exact endCall_foreign ix.cfg U ix.g a.g ix.f a.f (hsh ix hmem a ha hloc.symm hlive hla) _ p hp.unc
          (hloc ▸ hI.stores a ha hla)
      · intro e he
        exact hI.pending e (List.mem_of_mem_eraseIdx he)
      · intro e he
        simp only [List.mem_cons] at he
        rcases he with he | he
        · subst he; exact ⟨ix, hi, key.1⟩
        · exact hI.returned e he

theorem minv_run {U : α → Prop} {ixs : List (IndexCfg α κ β)} (hinj : ∀ a ∈ ixs, InjOn a.g U)
    (hsh : NoForeignShare U ixs) (ls : List (MLabel α)) : ∀ {s s' : MState α κ β}, (∀ l ∈ ls, MLabelOK U l) →
    MInv U ixs s → mrun ixs s ls = some s' → MInv U ixs s' := by
  induction ls with
  | nil => intro s s' _ hI h; simp only [mrun, Option.some.injEq] at h; subst h; exact hI
  | cons l ls ih =>
    intro s s' hl hI h
    simp only [mrun] at h
    cases hs : mstep ixs s l with
    | none => simp [hs] at h
    | some s1 =>
      simp only [hs] at h
      exact ih (fun l' h' => hl l' (List.mem_cons_of_mem _ h')) (minv_step hinj hsh l (hl l (by simp)) hI hs) h

end Multi
end NemoVerif.Embed
