/-
  Helper lemmas for `Models/Lifetime.lean` (property theorems live in `Theorems/C06.lean`).
-/
import NemoVerif.Models.Lifetime
namespace NemoVerif.Lifetime

/-! ### field projections of the primitive updates -/

@[simp] theorem setFlow_actions (s u f) : (setFlow s u f).actions = s.actions := rfl
@[simp] theorem setFlow_out (s u f) : (setFlow s u f).out = s.out := rfl
@[simp] theorem setFlow_queue (s u f) : (setFlow s u f).queue = s.queue := rfl
@[simp] theorem setFlow_order (s u f) : (setFlow s u f).order = s.order := rfl
@[simp] theorem setFlow_flows_same (s u f) : (setFlow s u f).flows u = some f := by simp [setFlow]
theorem setFlow_flows_ne (s u f v) (h : v ≠ u) : (setFlow s u f).flows v = s.flows v := by simp [setFlow, h]
theorem setFlow_flows (s u f v) : (setFlow s u f).flows v = if v = u then some f else s.flows v := rfl

@[simp] theorem setAction_flows (s a x) : (setAction s a x).flows = s.flows := rfl
@[simp] theorem setAction_out (s a x) : (setAction s a x).out = s.out := rfl
@[simp] theorem setAction_queue (s a x) : (setAction s a x).queue = s.queue := rfl
@[simp] theorem setAction_order (s a x) : (setAction s a x).order = s.order := rfl
@[simp] theorem setAction_actions_same (s a x) : (setAction s a x).actions a = some x := by simp [setAction]
theorem setAction_actions_ne (s a x b) (h : b ≠ a) : (setAction s a x).actions b = s.actions b := by simp [setAction, h]
theorem setAction_actions (s a x b) : (setAction s a x).actions b = if b = a then some x else s.actions b := rfl

@[simp] theorem push_flows (s e) : (push s e).flows = s.flows := rfl
@[simp] theorem push_actions (s e) : (push s e).actions = s.actions := rfl
@[simp] theorem push_out (s e) : (push s e).out = s.out := rfl
@[simp] theorem push_order (s e) : (push s e).order = s.order := rfl
@[simp] theorem push_queue (s e) : (push s e).queue = s.queue ++ [e] := rfl
@[simp] theorem pushLeft_flows (s e) : (pushLeft s e).flows = s.flows := rfl
@[simp] theorem pushLeft_actions (s e) : (pushLeft s e).actions = s.actions := rfl
@[simp] theorem pushLeft_out (s e) : (pushLeft s e).out = s.out := rfl
@[simp] theorem pushLeft_order (s e) : (pushLeft s e).order = s.order := rfl
@[simp] theorem pushLeft_queue (s e) : (pushLeft s e).queue = e :: s.queue := rfl
@[simp] theorem emit_flows (s e) : (emit s e).flows = s.flows := rfl
@[simp] theorem emit_actions (s e) : (emit s e).actions = s.actions := rfl
@[simp] theorem emit_out (s e) : (emit s e).out = s.out ++ [e] := rfl
@[simp] theorem emit_queue (s e) : (emit s e).queue = s.queue := rfl
@[simp] theorem emit_order (s e) : (emit s e).order = s.order := rfl

theorem modFlow_some (s u g f) (h : s.flows u = some f) : modFlow s u g = setFlow s u (g f) := by
  simp [modFlow, h]
theorem modFlow_none (s u g) (h : s.flows u = none) : modFlow s u g = s := by
  simp [modFlow, h]
@[simp] theorem modFlow_actions (s u g) : (modFlow s u g).actions = s.actions := by
  unfold modFlow; split <;> rfl
@[simp] theorem modFlow_out (s u g) : (modFlow s u g).out = s.out := by
  unfold modFlow; split <;> rfl
@[simp] theorem modFlow_queue (s u g) : (modFlow s u g).queue = s.queue := by
  unfold modFlow; split <;> rfl
@[simp] theorem modFlow_order (s u g) : (modFlow s u g).order = s.order := by
  unfold modFlow; split <;> rfl
theorem modFlow_flows_ne (s u g v) (h : v ≠ u) : (modFlow s u g).flows v = s.flows v := by
  unfold modFlow; split
  · exact setFlow_flows_ne _ _ _ _ h
  · rfl
theorem modFlow_flows_same (s u g) : (modFlow s u g).flows u = (s.flows u).map g := by
  unfold modFlow; split
  · next f h => simp [h]
  · next h => simp [h]

/-! ### `processEvent` / `_update_action_status_by_event` -/

theorem processEvent_idem (x : Action) (a : Nat) (e : AEv) :
    processEvent (processEvent x a e) a e = processEvent x a e := by
  unfold processEvent
  by_cases h : (e.isAction && e.uid == a) = true
  · simp only [h, if_true]
    by_cases h1 : e.started = true
    · simp [h1]
    · by_cases h2 : e.updated = true
      · simp [h1, h2]
      · by_cases h3 : e.finished = true
        · simp [h1, h2, h3]
        · by_cases h4 : e.start = true
          · simp [h1, h2, h3, h4]
          · by_cases h5 : e.stop = true
            · simp [h1, h2, h3, h4, h5]
            · simp [h1, h2, h3, h4, h5]
  · simp [h]

theorem processEvent_other (x : Action) (a : Nat) (e : AEv) (h : e.uid ≠ a) : processEvent x a e = x := by
  unfold processEvent
  have : (e.uid == a) = false := by simp [h]
  simp [this]

/-- pointwise description of a state reached from `s` by applying `process_event e` to some actions -/
def UpdRel (e : AEv) (s t : State) : Prop :=
  t.flows = s.flows ∧ t.out = s.out ∧ t.queue = s.queue ∧ t.order = s.order ∧
  ∀ b, t.actions b = s.actions b ∨
    ∃ x, s.actions b = some x ∧ x.status ≠ .finished ∧ t.actions b = some (processEvent x b e)

theorem UpdRel.refl (e : AEv) (s : State) : UpdRel e s s := ⟨rfl, rfl, rfl, rfl, fun _ => Or.inl rfl⟩

theorem updActs_rel (e : AEv) (s : State) : ∀ (l : List Nat) (t : State), UpdRel e s t → UpdRel e s (updActs e t l)
  | [], t, h => by simpa [updActs] using h
  | a :: as, t, h => by
    simp only [updActs]
    split
    · next y hy =>
      split
      · next hne =>
        apply updActs_rel e s as
        obtain ⟨h1, h2, h3, h4, h5⟩ := h
        refine ⟨by simpa using h1, by simpa using h2, by simpa using h3, by simpa using h4, ?_⟩
        intro b
        by_cases hb : b = a
        · subst hb
          have hne' : y.status ≠ .finished := by simpa using hne
          rcases h5 b with h5 | ⟨x, hx, hxf, hxt⟩
          · right
            exact ⟨y, by rw [← h5, hy], hne', by simp⟩
          · right
            refine ⟨x, hx, hxf, ?_⟩
            rw [hy] at hxt
            cases hxt
            simp [processEvent_idem]
        · rw [setAction_actions_ne _ _ _ _ hb]
          exact h5 b
      · exact updActs_rel e s as t h
    · exact updActs_rel e s as t h

theorem updFlows_rel (e : AEv) (s : State) : ∀ (l : List Nat) (t : State), UpdRel e s t → UpdRel e s (updFlows e t l)
  | [], t, h => by simpa [updFlows] using h
  | u :: us, t, h => by
    simp only [updFlows]
    split
    · split
      · exact updFlows_rel e s us _ (updActs_rel e s _ t h)
      · exact updFlows_rel e s us t h
    · exact updFlows_rel e s us t h

theorem update_rel (e : AEv) (s : State) : UpdRel e s (updateActionStatusByEvent s e) :=
  updFlows_rel e s s.order s (UpdRel.refl e s)


/-! ### the stop-actions loop -/

theorem processEvent_stopOf_self (x : Action) (a : Nat) (h : x.status = .stopping) :
    processEvent x a (AEv.stopOf a) = x := by
  cases x with
  | mk st c => simp at h; subst h; simp [processEvent, AEv.stopOf]

theorem update_stopOf_noop (s : State) (a : Nat) (x : Action) (hx : s.actions a = some x) (hst : x.status = .stopping) :
    let t := updateActionStatusByEvent s (AEv.stopOf a)
    t.flows = s.flows ∧ t.out = s.out ∧ t.queue = s.queue ∧ t.order = s.order ∧ ∀ b, t.actions b = s.actions b := by
  obtain ⟨h1, h2, h3, h4, h5⟩ := update_rel (AEv.stopOf a) s
  refine ⟨h1, h2, h3, h4, ?_⟩
  intro b
  rcases h5 b with h | ⟨y, hy, _, ht⟩
  · exact h
  · by_cases hb : b = a
    · subst hb
      rw [hx] at hy; cases hy
      rw [ht, processEvent_stopOf_self _ _ hst, hx]
    · rw [ht, processEvent_other _ _ _ (by simpa [AEv.stopOf] using fun h => hb h.symm), hy]

/-- exact description of one iteration of the "abort all started actions" loop -/
theorem stopAction1_spec (s : State) (a : Nat) (s' : State) (h : stopAction1 s a = .ok s') :
    ∃ x, s.actions a = some x ∧ s'.flows = s.flows ∧ s'.queue = s.queue ∧ s'.order = s.order ∧
      (∀ b, b ≠ a → s'.actions b = s.actions b) ∧
      ((x.status.running = false ∧ s'.actions a = some x ∧ s'.out = s.out) ∨
       (x.status.running = true ∧ x.count ≠ 1 ∧ s'.actions a = some { x with count := x.count - 1 } ∧ s'.out = s.out) ∨
       (x.status.running = true ∧ x.count = 1 ∧ s'.actions a = some ⟨.stopping, 0⟩ ∧ s'.out = s.out ++ [.stop a])) := by
  unfold stopAction1 at h
  split at h
  · cases h
  · next x hx =>
    refine ⟨x, hx, ?_⟩
    by_cases hr : x.status.running = true
    · simp only [hr, if_true] at h
      by_cases hc : x.count = 1
      · have : (x.count - 1 == 0) = true := by simp [hc]
        simp only [this, if_true] at h
        cases h
        have hs1 : (emit (setAction s a ⟨.stopping, x.count - 1⟩) (.stop a)).actions a = some ⟨.stopping, x.count - 1⟩ := by simp
        obtain ⟨h1, h2, h3, h4, h5⟩ := update_stopOf_noop _ a _ hs1 rfl
        simp only [generateUmim]
        refine ⟨by simpa using h1, by simpa using h3, by simpa using h4, ?_, Or.inr (Or.inr ⟨hr, hc, ?_, by simpa using h2⟩)⟩
        · intro b hb
          rw [h5 b]; simp [setAction_actions_ne _ _ _ _ hb]
        · rw [h5 a]; simp [hc]
      · have : (x.count - 1 == 0) = false := by
          simp; omega
        simp only [this] at h
        cases h
        refine ⟨rfl, rfl, rfl, fun b hb => setAction_actions_ne _ _ _ _ hb, Or.inr (Or.inl ⟨hr, hc, by simp, rfl⟩)⟩
    · simp only [hr] at h
      cases h
      exact ⟨rfl, rfl, rfl, fun _ _ => rfl, Or.inl ⟨by simpa using hr, hx, rfl⟩⟩


/-! ### every run of `_abort_flow` / `_finish_flow` / EndScope is a sequence of primitive steps -/

/-- what the flow-record updates inside the recursion may change: status only towards STOPPED/FINISHED,
    children only removed, `activated`, `heads`, `scopes` freely; everything else is kept -/
structure FlowUpd (f f' : Flow) : Prop where
  flowId : f'.flowId = f.flowId
  parent : f'.parent = f.parent
  nis : f.nis = true → f'.nis = true
  isMain : f'.isMain = f.isMain
  actionUids : f'.actionUids = f.actionUids
  status : f'.status = f.status ∨ f'.status = .stopped ∨ f'.status = .finished
  children : ∀ c, c ∈ f'.children → c ∈ f.children
  activated : f'.activated ≤ f.activated

theorem FlowUpd.rfl' (f : Flow) : FlowUpd f f := ⟨rfl, rfl, fun h => h, rfl, rfl, Or.inl rfl, fun _ h => h, by simp⟩

/-- `FlowFailed` / `FlowFinished`: the only internal events pushed (appended) inside the recursion -/
def IEv.isEnd : IEv → Bool
  | .flowFailed _ | .flowFinished _ => true
  | _ => false

/-- primitive steps; the ones guarded by `x = true` (restart of an activated flow: left-push + `new_instance_started`,
    restart of the main flow) only happen at the end of an OUTERMOST call -/
inductive Step (x : Bool) : State → State → Prop
  | flow {s : State} {u : Nat} {f f' : Flow} : s.flows u = some f → FlowUpd f f' → Step x s (setFlow s u f')
  | stopAct {s : State} {a : Nat} {s' : State} : stopAction1 s a = .ok s' → Step x s s'
  | push {s : State} (e : IEv) : e.isEnd = true → Step x s (push s e)
  | restart {s : State} {u : Nat} {s' : State} : x = true → restart s u false = .ok s' → Step x s s'
  | mainRestart {s : State} {u : Nat} {f : Flow} : x = true → s.flows u = some f →
      Step x s (setFlow s u { f with heads := 1, status := .waiting })
  /-- `in_progress.add(uid)` of the repaired recursion (Models/LifetimeV.lean): only the ghost field `busy` changes -/
  | busy {s : State} (b : List Nat) : Step x s { s with busy := b }

inductive Steps (x : Bool) : State → State → Prop
  | refl (s : State) : Steps x s s
  | cons {s t r : State} : Step x s t → Steps x t r → Steps x s r

theorem Steps.trans {x : Bool} {s t r : State} (h1 : Steps x s t) (h2 : Steps x t r) : Steps x s r := by
  induction h1 with
  | refl => exact h2
  | cons hs _ ih => exact .cons hs (ih h2)

theorem Steps.single {x : Bool} {s t : State} (h : Step x s t) : Steps x s t := .cons h (.refl _)

theorem Step.mono {s t : State} (h : Step false s t) : Step true s t := by
  cases h with
  | flow h1 h2 => exact .flow h1 h2
  | stopAct h => exact .stopAct h
  | push e he => exact .push e he
  | restart hx _ => cases hx
  | mainRestart hx _ => cases hx
  | busy b => exact .busy b

theorem Steps.mono {s t : State} (h : Steps false s t) : Steps true s t := by
  induction h with
  | refl => exact .refl _
  | cons hs _ ih => exact .cons hs.mono ih

theorem Steps.modFlow {x : Bool} (s : State) (u : Nat) (g : Flow → Flow) (hg : ∀ f, FlowUpd f (g f)) :
    Steps x s (modFlow s u g) := by
  unfold Lifetime.modFlow
  split
  · next f hf => exact .single (.flow hf (hg f))
  · exact .refl _

theorem stopActions_steps {x : Bool} : ∀ (l : List Nat) (s s' : State), stopActions s l = .ok s' → Steps x s s'
  | [], s, s', h => by simp [stopActions] at h; subst h; exact .refl _
  | a :: as, s, s', h => by
    simp only [stopActions] at h
    split at h
    · next s1 h1 => exact .cons (.stopAct h1) (stopActions_steps as s1 s' h)
    · cases h

theorem deactLoop_steps {x : Bool} (rec : State → Nat → Except Err State)
    (hrec : ∀ s c s', rec s c = .ok s' → Steps x s s') (fid : Nat) :
    ∀ (l : List Nat) (s s' : State), deactLoop rec fid s l = .ok s' → Steps x s s'
  | [], s, s', h => by simp [deactLoop] at h; subst h; exact .refl _
  | c :: cs, s, s', h => by
    simp only [deactLoop] at h
    split at h
    · cases h
    · split at h
      · split at h
        · next s1 h1 =>
          exact (hrec _ _ _ h1).trans
            ((Steps.modFlow s1 c (fun f => { f with activated := 0 }) (fun f => ⟨rfl, rfl, fun h => h, rfl, rfl, Or.inl rfl, fun _ h => h, by simp⟩)).trans
              (deactLoop_steps rec hrec fid cs _ s' h))
        · cases h
      · exact deactLoop_steps rec hrec fid cs s s' h

theorem childLoop_steps {x : Bool} (rec : State → Nat → Except Err State)
    (hrec : ∀ s c s', rec s c = .ok s' → Steps x s s') :
    ∀ (l : List Nat) (s s' : State), childLoop rec s l = .ok s' → Steps x s s'
  | [], s, s', h => by simp [childLoop] at h; subst h; exact .refl _
  | c :: cs, s, s', h => by
    simp only [childLoop] at h
    split at h
    · exact childLoop_steps rec hrec cs s s' h
    · split at h
      · split at h
        · next s1 h1 => exact (hrec _ _ _ h1).trans (childLoop_steps rec hrec cs s1 s' h)
        · cases h
      · exact childLoop_steps rec hrec cs s s' h

theorem scopeFlowLoop_steps {x : Bool} (rec : State → Nat → Except Err State)
    (hrec : ∀ s c s', rec s c = .ok s' → Steps x s s') :
    ∀ (l : List Nat) (s s' : State), scopeFlowLoop rec s l = .ok s' → Steps x s s'
  | [], s, s', h => by simp [scopeFlowLoop] at h; subst h; exact .refl _
  | c :: cs, s, s', h => by
    simp only [scopeFlowLoop] at h
    split at h
    · exact scopeFlowLoop_steps rec hrec cs s s' h
    · split at h
      · split at h
        · next s1 h1 => exact (hrec _ _ _ h1).trans (scopeFlowLoop_steps rec hrec cs s1 s' h)
        · cases h
      · exact scopeFlowLoop_steps rec hrec cs s s' h

theorem deactivatePhase_steps {x : Bool} (rec : State → Nat → Except Err State)
    (hrec : ∀ s c s', rec s c = .ok s' → Steps x s s') (s : State) (u : Nat) (d : Bool) (s1 : State) (b : Bool)
    (h : deactivatePhase rec s u d = .ok (s1, b)) : Steps x s s1 := by
  unfold deactivatePhase at h
  split at h
  · cases h
  · next f hf =>
    split at h
    · cases h
    · cases h; exact .refl _
    · dsimp only at h
      split at h
      · split at h
        · next s2 h2 =>
          cases h
          exact .cons (.flow (f' := { f with activated := f.activated - 1 }) hf ⟨rfl, rfl, fun h => h, rfl, rfl, Or.inl rfl, fun _ h => h, by simp⟩) (deactLoop_steps rec hrec _ _ _ _ h2)
        · cases h
      · cases h
        exact .single (.flow (f' := { f with activated := f.activated - 1 }) hf ⟨rfl, rfl, fun h => h, rfl, rfl, Or.inl rfl, fun _ h => h, by simp⟩)

theorem removeFromParent_steps {x : Bool} (s : State) (u : Nat) (s' : State) (h : removeFromParent s u = .ok s') :
    Steps x s s' := by
  unfold removeFromParent at h
  split at h
  · cases h
  · split at h
    · split at h
      · cases h; exact .refl _
      · split at h
        · cases h; exact .refl _
        · next pf hpf =>
          split at h
          · cases h
            exact .single (.flow (f' := { pf with children := pf.children.erase u }) hpf ⟨rfl, rfl, fun h => h, rfl, rfl, Or.inl rfl, fun c hc => List.mem_of_mem_erase hc, by simp⟩)
          · cases h
    · cases h; exact .refl _

theorem restart_true (s : State) (u : Nat) (s' : State) (h : restart s u true = .ok s') : s' = s := by
  unfold restart at h
  split at h
  · cases h
  · simp at h; exact h.symm

theorem markNoRestart_self (s : State) (u : Nat) (f : Flow) (hf : s.flows u = some f) :
    ∃ f0, (markNoRestart s u).flows u = some f0 ∧ f0.children = f.children ∧ f0.actionUids = f.actionUids ∧
      f0.status = f.status ∧ f0.activated = f.activated ∧ f0.flowId = f.flowId ∧ f0.parent = f.parent ∧ f0.isMain = f.isMain ∧
      (f.nis = true → f0.nis = true) ∧ (f.status = .starting → 0 < f.activated → f0.nis = true) ∧
      (markNoRestart s u = s ∨ markNoRestart s u = setFlow s u f0) := by
  unfold markNoRestart
  rw [hf]
  dsimp only
  split
  · next hc =>
    refine ⟨{ f with nis := true }, setFlow_flows_same _ _ _, rfl, rfl, rfl, rfl, rfl, rfl, rfl, fun _ => rfl, fun _ _ => rfl, Or.inr rfl⟩
  · next hc =>
    refine ⟨f, hf, rfl, rfl, rfl, rfl, rfl, rfl, rfl, fun h => h, ?_, Or.inl rfl⟩
    intro h1 h2
    exfalso; apply hc
    simp [h1, h2]

theorem markNoRestart_frame (s : State) (u : Nat) :
    (markNoRestart s u).actions = s.actions ∧ (markNoRestart s u).out = s.out ∧ (markNoRestart s u).queue = s.queue ∧
    (markNoRestart s u).order = s.order ∧ ∀ v, v ≠ u → (markNoRestart s u).flows v = s.flows v := by
  unfold markNoRestart
  split
  · split
    · exact ⟨rfl, rfl, rfl, rfl, fun v hv => setFlow_flows_ne _ _ _ _ hv⟩
    · exact ⟨rfl, rfl, rfl, rfl, fun _ _ => rfl⟩
  · exact ⟨rfl, rfl, rfl, rfl, fun _ _ => rfl⟩

theorem markNoRestart_steps {x : Bool} (s : State) (u : Nat) : Steps x s (markNoRestart s u) := by
  unfold markNoRestart
  split
  · next f hf =>
    split
    · exact .single (.flow (f' := { f with nis := true }) hf ⟨rfl, rfl, fun _ => rfl, rfl, rfl, Or.inl rfl, fun _ h => h, by simp⟩)
    · exact .refl _
  · exact .refl _

/-- `_abort_flow` after the deactivation block: a sequence of inner steps, then possibly the restart -/
theorem abortBody_steps {x : Bool} (rec : State → Nat → Except Err State)
    (hrec : ∀ s c s', rec s c = .ok s' → Steps x s s') (s : State) (u : Nat) (d : Bool) (s' : State)
    (h : abortBody rec s u d = .ok s') :
    s' = s ∨ ∃ s1, Steps x s s1 ∧ restart s1 u d = .ok s' := by
  unfold abortBody at h
  split at h
  · cases h
  · split at h
    · cases h; exact Or.inl rfl
    · split at h
      · cases h
      · next s1 h1 =>
        split at h
        · cases h
        · split at h
          · cases h
          · next s2 h2 =>
            dsimp only at h
            split at h
            · cases h
            · next s4 h4 =>
              right
              refine ⟨_, ?_, h⟩
              refine (markNoRestart_steps s u).trans ((childLoop_steps rec hrec _ _ _ h1).trans ((stopActions_steps _ _ _ h2).trans ?_))
              refine (Steps.modFlow s2 u (fun f => { f with heads := 0 }) (fun f => ⟨rfl, rfl, fun h => h, rfl, rfl, Or.inl rfl, fun _ h => h, by simp⟩)).trans ?_
              refine (removeFromParent_steps _ _ _ h4).trans ?_
              refine (Steps.modFlow s4 u (fun f => { f with status := .stopped }) (fun f => ⟨rfl, rfl, fun h => h, rfl, rfl, Or.inr (Or.inl rfl), fun _ h => h, by simp⟩)).trans ?_
              exact .single (.push _ rfl)

/-- every `_abort_flow(.., deactivate_flow=True)` call (all nested calls are of this kind) is a sequence of inner steps -/
theorem abortFlow_true_steps : ∀ (n : Nat) (s : State) (u : Nat) (s' : State),
    abortFlow n s u true = .ok s' → Steps false s s'
  | 0, _, _, _, h => by simp [abortFlow] at h
  | n + 1, s, u, s', h => by
    have hrec : ∀ s c s', (fun s c => abortFlow n s c true) s c = .ok s' → Steps false s s' :=
      fun s c s' h => abortFlow_true_steps n s c s' h
    simp only [abortFlow] at h
    split at h
    · cases h
    · next s1 h1 => cases h; exact deactivatePhase_steps _ hrec _ _ _ _ _ h1
    · next s1 h1 =>
      refine (deactivatePhase_steps _ hrec _ _ _ _ _ h1).trans ?_
      rcases abortBody_steps _ hrec _ _ _ _ h with rfl | ⟨s2, hs, hr⟩
      · exact .refl _
      · rw [restart_true _ _ _ hr]; exact hs

theorem abortFlow_rec_steps (n : Nat) : ∀ s c s', (fun s c => abortFlow n s c true) s c = .ok s' → Steps false s s' :=
  fun s c s' h => abortFlow_true_steps n s c s' h

/-- an outermost `_abort_flow` call: inner steps, then possibly the restart of the aborted instance -/
theorem abortFlow_outer (n : Nat) (s : State) (u : Nat) (d : Bool) (s' : State) (h : abortFlow n s u d = .ok s') :
    Steps false s s' ∨ ∃ s1, Steps false s s1 ∧ restart s1 u d = .ok s' := by
  cases n with
  | zero => simp [abortFlow] at h
  | succ n =>
    simp only [abortFlow] at h
    split at h
    · cases h
    · next s1 h1 => cases h; exact Or.inl (deactivatePhase_steps _ (abortFlow_rec_steps n) _ _ _ _ _ h1)
    · next s1 h1 =>
      have hd := deactivatePhase_steps _ (abortFlow_rec_steps n) _ _ _ _ _ h1
      rcases abortBody_steps _ (abortFlow_rec_steps n) _ _ _ _ h with rfl | ⟨s2, hs, hr⟩
      · exact Or.inl hd
      · exact Or.inr ⟨s2, hd.trans hs, hr⟩

theorem restart_steps (s : State) (u : Nat) (d : Bool) (s' : State) (h : restart s u d = .ok s') : Steps true s s' := by
  cases d with
  | true => rw [restart_true _ _ _ h]; exact .refl _
  | false => exact .single (.restart rfl h)

theorem abortFlow_steps (n : Nat) (s : State) (u : Nat) (d : Bool) (s' : State) (h : abortFlow n s u d = .ok s') :
    Steps true s s' := by
  rcases abortFlow_outer n s u d s' h with h | ⟨s1, hs, hr⟩
  · exact h.mono
  · exact hs.mono.trans (restart_steps _ _ _ _ hr)


theorem finishBody_steps (rec : State → Nat → Except Err State)
    (hrec : ∀ s c s', rec s c = .ok s' → Steps true s s') (s : State) (u : Nat) (d : Bool) (s' : State)
    (h : finishBody rec s u d = .ok s') : Steps true s s' := by
  unfold finishBody at h
  split at h
  · cases h
  · split at h
    · cases h; exact .refl _
    · split at h
      · cases h
      · next s1 h1 =>
        split at h
        · cases h
        · next f1 hf1 =>
          split at h
          · cases h
          · next s2 h2 =>
            dsimp only at h
            refine (childLoop_steps rec hrec _ _ _ h1).trans ((stopActions_steps _ _ _ h2).trans ?_)
            refine (Steps.modFlow s2 u (fun f => { f with heads := 0 }) (fun f => ⟨rfl, rfl, fun h => h, rfl, rfl, Or.inl rfl, fun _ h => h, by simp⟩)).trans ?_
            split at h
            · cases h
              generalize (modFlow s2 u fun f => { f with heads := 0 }) = s3
              unfold Lifetime.modFlow
              split
              · next f hf => exact .single (.mainRestart rfl hf)
              · exact .refl _
            · split at h
              · cases h
              · next s5 h5 =>
                refine (Steps.modFlow _ u (fun f => { f with status := .finished }) (fun f => ⟨rfl, rfl, fun h => h, rfl, rfl, Or.inr (Or.inr rfl), fun _ h => h, by simp⟩)).trans ?_
                refine (removeFromParent_steps _ _ _ h5).trans ?_
                exact (Steps.single (.push _ rfl)).trans (restart_steps _ _ _ _ h)

theorem finishFlow_steps (n : Nat) (s : State) (u : Nat) (d : Bool) (s' : State) (h : finishFlow n s u d = .ok s') :
    Steps true s s' := by
  have hrec : ∀ s c s', (fun s c => abortFlow n s c true) s c = .ok s' → Steps true s s' :=
    fun s c s' h => (abortFlow_true_steps n s c s' h).mono
  simp only [finishFlow] at h
  split at h
  · cases h
  · next s1 h1 => cases h; exact deactivatePhase_steps _ hrec _ _ _ _ _ h1
  · next s1 h1 => exact (deactivatePhase_steps _ hrec _ _ _ _ _ h1).trans (finishBody_steps _ hrec _ _ _ _ h)

theorem endScope_steps (n : Nat) (s : State) (u nm : Nat) (s' : State) (h : endScope n s u nm = .ok s') :
    Steps true s s' := by
  unfold endScope at h
  split at h
  · cases h
  · next f hf =>
    split at h
    · cases h
    · dsimp only at h
      split at h
      · cases h
      · next s2 h2 =>
        refine .cons (.flow (f' := { f with scopes := scopeErase nm f.scopes }) hf ⟨rfl, rfl, fun h => h, rfl, rfl, Or.inl rfl, fun _ h => h, by simp⟩) ?_
        exact (scopeFlowLoop_steps _ (fun s c s' h => abortFlow_steps n s c false s' h) _ _ _ h2).trans (stopActions_steps _ _ _ h)

/-! ### invariants of the primitive steps that only concern actions and outgoing events -/

theorem restart_frame (s : State) (u : Nat) (d : Bool) (s' : State) (h : restart s u d = .ok s') :
    s'.actions = s.actions ∧ s'.out = s.out ∧ s'.order = s.order := by
  unfold restart at h
  split at h
  · cases h
  · split at h
    · dsimp only at h
      split at h
      · cases h
      · cases h; simp
    · cases h; simp

/-- a step that is not a `stopAction1` iteration leaves actions and outgoing events alone -/
theorem Step.cases_actions {x : Bool} {s t : State} (h : Step x s t) :
    (t.actions = s.actions ∧ t.out = s.out) ∨ ∃ a, stopAction1 s a = .ok t := by
  cases h with
  | flow _ _ => exact Or.inl ⟨rfl, rfl⟩
  | stopAct h => exact Or.inr ⟨_, h⟩
  | push _ _ => exact Or.inl ⟨rfl, rfl⟩
  | restart _ h => exact Or.inl ⟨(restart_frame _ _ _ _ h).1, (restart_frame _ _ _ _ h).2.1⟩
  | mainRestart _ _ => exact Or.inl ⟨rfl, rfl⟩
  | busy _ => exact Or.inl ⟨rfl, rfl⟩

/-- number of `Stop` events for action `a` among the outgoing events -/
def stops (a : Nat) (out : List OEv) : Nat := out.count (.stop a)

theorem stops_append_stop (a b : Nat) (out : List OEv) :
    stops a (out ++ [.stop b]) = stops a out + if b = a then 1 else 0 := by
  unfold stops
  rw [List.count_append]
  by_cases h : b = a
  · subst h; simp
  · have : (OEv.stop b == OEv.stop a) = false := by simp [h]
    simp [h]

/-- once a `Stop` has been sent for an action: scope count ≤ 0 and the status is past STARTING -/
def StopInv (s : State) : Prop :=
  ∀ a, stops a s.out = 0 ∨
    (stops a s.out = 1 ∧ ∀ x, s.actions a = some x → x.count ≤ 0 ∧ x.status ≠ .initialized ∧ x.status ≠ .starting)

theorem StopInv.of_frame {s t : State} (hi : StopInv s) (ha : t.actions = s.actions) (ho : ∀ a, stops a t.out = stops a s.out) :
    StopInv t := by
  intro a
  rw [ho a, ha]
  exact hi a

theorem stopAction1_StopInv {s : State} {a : Nat} {t : State} (hi : StopInv s) (h : stopAction1 s a = .ok t) : StopInv t := by
  obtain ⟨x, hx, _, _, _, hne, hcase⟩ := stopAction1_spec s a t h
  intro b
  by_cases hb : b = a
  · subst hb
    rcases hcase with ⟨_, hxa, ho⟩ | ⟨hr, hc, hxa, ho⟩ | ⟨hr, hc, hxa, ho⟩
    · rw [ho, hxa, ← hx]; exact hi b
    · rw [ho]
      rcases hi b with h0 | ⟨h1, h2⟩
      · exact Or.inl h0
      · right
        refine ⟨h1, ?_⟩
        intro y hy
        rw [hxa] at hy; cases hy
        have := h2 x hx
        exact ⟨by simp; omega, this.2.1, this.2.2⟩
    · rcases hi b with h0 | ⟨h1, h2⟩
      · right
        rw [ho, stops_append_stop, h0]
        refine ⟨by simp, ?_⟩
        intro y hy
        rw [hxa] at hy; cases hy
        simp
      · have := (h2 x hx).1
        omega
  · rw [hne b hb]
    have : stops b t.out = stops b s.out := by
      rcases hcase with ⟨_, _, ho⟩ | ⟨_, _, _, ho⟩ | ⟨_, _, _, ho⟩
      · rw [ho]
      · rw [ho]
      · rw [ho, stops_append_stop]; simp; exact fun h => hb h.symm
    rw [this]
    exact hi b

theorem Step.StopInv {x : Bool} {s t : State} (hi : StopInv s) (h : Step x s t) : StopInv t := by
  rcases h.cases_actions with ⟨ha, ho⟩ | ⟨a, h⟩
  · exact hi.of_frame ha (fun a => by rw [ho])
  · exact stopAction1_StopInv hi h

theorem Steps.StopInv {x : Bool} {s t : State} (hi : StopInv s) (h : Steps x s t) : StopInv t := by
  induction h with
  | refl => exact hi
  | cons hs _ ih => exact ih (hs.StopInv hi)

/-- relative invariant for "no Stop unless the action was running": w.r.t. a start state `s0` -/
def RanInv (s0 s : State) : Prop :=
  ∀ a, (stops a s0.out < stops a s.out → ∃ x0, s0.actions a = some x0 ∧ x0.status.running = true ∧ 1 ≤ x0.count) ∧
    (∀ x, s.actions a = some x → x.status.running = true →
      ∃ x0, s0.actions a = some x0 ∧ x0.status.running = true ∧ x.count ≤ x0.count)

theorem RanInv.refl (s : State) : RanInv s s :=
  fun _ => ⟨fun h => absurd h (Nat.lt_irrefl _), fun x hx hr => ⟨x, hx, hr, Int.le_refl _⟩⟩

theorem stopAction1_RanInv {s0 s : State} {a : Nat} {t : State} (hi : RanInv s0 s) (h : stopAction1 s a = .ok t) :
    RanInv s0 t := by
  obtain ⟨x, hx, _, _, _, hne, hcase⟩ := stopAction1_spec s a t h
  intro b
  by_cases hb : b = a
  · subst hb
    obtain ⟨hi1, hi2⟩ := hi b
    rcases hcase with ⟨_, hxa, ho⟩ | ⟨hr, hc, hxa, ho⟩ | ⟨hr, hc, hxa, ho⟩
    · rw [ho, hxa, ← hx]; exact ⟨hi1, hi2⟩
    · rw [ho]
      refine ⟨hi1, ?_⟩
      intro y hy hyr
      rw [hxa] at hy; cases hy
      obtain ⟨x0, h0, h0r, hle⟩ := hi2 x hx hr
      exact ⟨x0, h0, h0r, by simp; omega⟩
    · obtain ⟨x0, h0, h0r, hle⟩ := hi2 x hx hr
      refine ⟨fun _ => ⟨x0, h0, h0r, by omega⟩, ?_⟩
      intro y hy hyr
      rw [hxa] at hy; cases hy
      simp [AStatus.running] at hyr
  · obtain ⟨hi1, hi2⟩ := hi b
    rw [hne b hb]
    have : stops b t.out = stops b s.out := by
      rcases hcase with ⟨_, _, ho⟩ | ⟨_, _, _, ho⟩ | ⟨_, _, _, ho⟩
      · rw [ho]
      · rw [ho]
      · rw [ho, stops_append_stop]; simp; exact fun h => hb h.symm
    rw [this]
    exact ⟨hi1, hi2⟩

theorem Steps.RanInv {x : Bool} {s0 s t : State} (hi : RanInv s0 s) (h : Steps x s t) : RanInv s0 t := by
  induction h with
  | refl => exact hi
  | cons hs _ ih =>
    apply ih
    rcases hs.cases_actions with ⟨ha, ho⟩ | ⟨a, h⟩
    · intro a
      rw [ho, ha]; exact hi a
    · exact stopAction1_RanInv hi h


/-! ### what the inner steps do to flow records and to the internal queue -/

theorem FlowUpd.trans {f g h : Flow} (h1 : FlowUpd f g) (h2 : FlowUpd g h) : FlowUpd f h where
  flowId := h2.flowId.trans h1.flowId
  parent := h2.parent.trans h1.parent
  nis := fun h => h2.nis (h1.nis h)
  isMain := h2.isMain.trans h1.isMain
  actionUids := h2.actionUids.trans h1.actionUids
  status := by
    rcases h2.status with e | e | e
    · rw [e]; exact h1.status
    · exact Or.inr (Or.inl e)
    · exact Or.inr (Or.inr e)
  children := fun c hc => h1.children c (h2.children c hc)
  activated := Nat.le_trans h2.activated h1.activated

theorem FlowUpd.not_listening {f g : Flow} (h : FlowUpd f g) (hn : f.status.listening = false) : g.status.listening = false := by
  rcases h.status with e | e | e <;> rw [e]
  · exact hn
  · rfl
  · rfl

theorem Step.flows_rel {s t : State} (h : Step false s t) :
    t.order = s.order ∧ (∀ v, s.flows v = none → t.flows v = none) ∧
    ∀ v f, s.flows v = some f → ∃ f', t.flows v = some f' ∧ FlowUpd f f' := by
  cases h with
  | @flow u f0 f0' h1 h2 =>
    refine ⟨rfl, ?_, ?_⟩
    · intro v hv
      rw [setFlow_flows]; split
      · next e => subst e; rw [hv] at h1; cases h1
      · exact hv
    · intro v f hv
      rw [setFlow_flows]; split
      · next e => subst e; rw [hv] at h1; cases h1; exact ⟨_, rfl, h2⟩
      · exact ⟨f, hv, FlowUpd.rfl' f⟩
  | stopAct h =>
    obtain ⟨x, _, hfl, _, ho, _⟩ := stopAction1_spec _ _ _ h
    rw [hfl]
    exact ⟨ho, fun v hv => hv, fun v f hv => ⟨f, hv, FlowUpd.rfl' f⟩⟩
  | push e _ => exact ⟨rfl, fun v hv => hv, fun v f hv => ⟨f, hv, FlowUpd.rfl' f⟩⟩
  | restart hx _ => cases hx
  | mainRestart hx _ => cases hx
  | busy _ => exact ⟨rfl, fun v hv => hv, fun v f hv => ⟨f, hv, FlowUpd.rfl' f⟩⟩

theorem Steps.flows_rel {s t : State} (h : Steps false s t) :
    t.order = s.order ∧ (∀ v, s.flows v = none → t.flows v = none) ∧
    ∀ v f, s.flows v = some f → ∃ f', t.flows v = some f' ∧ FlowUpd f f' := by
  induction h with
  | refl s => exact ⟨rfl, fun v hv => hv, fun v f hv => ⟨f, hv, FlowUpd.rfl' f⟩⟩
  | cons hs _ ih =>
    obtain ⟨a1, a2, a3⟩ := hs.flows_rel
    obtain ⟨b1, b2, b3⟩ := ih
    refine ⟨b1.trans a1, fun v hv => b2 v (a2 v hv), ?_⟩
    intro v f hv
    obtain ⟨f', hf', hu⟩ := a3 v f hv
    obtain ⟨f'', hf'', hu'⟩ := b3 v f' hf'
    exact ⟨f'', hf'', hu.trans hu'⟩

theorem Steps.queue_append {s t : State} (h : Steps false s t) :
    ∃ l, t.queue = s.queue ++ l ∧ ∀ e ∈ l, e.isEnd = true := by
  induction h with
  | refl s => exact ⟨[], by simp, by simp⟩
  | cons hs _ ih =>
    obtain ⟨l, hl, hle⟩ := ih
    cases hs with
    | flow _ _ => exact ⟨l, by simpa using hl, hle⟩
    | stopAct h =>
      obtain ⟨x, _, _, hq, _⟩ := stopAction1_spec _ _ _ h
      exact ⟨l, by rw [hl, hq], hle⟩
    | push e he =>
      refine ⟨e :: l, by simp [hl], ?_⟩
      intro e' he'
      rcases List.mem_cons.1 he' with rfl | h
      · exact he
      · exact hle _ h
    | restart hx _ => cases hx
    | mainRestart hx _ => cases hx
    | busy _ => exact ⟨l, by simpa using hl, hle⟩

theorem removeFromParent_flows (s : State) (u : Nat) (s' : State) (h : removeFromParent s u = .ok s') :
    s'.queue = s.queue ∧ s'.actions = s.actions ∧ s'.out = s.out ∧
    ∀ v, s'.flows v = s.flows v ∨ ∃ pf, s.flows v = some pf ∧ s'.flows v = some { pf with children := pf.children.erase u } := by
  unfold removeFromParent at h
  split at h
  · cases h
  · split at h
    · split at h
      · cases h; exact ⟨rfl, rfl, rfl, fun _ => Or.inl rfl⟩
      · next p _ =>
        split at h
        · cases h; exact ⟨rfl, rfl, rfl, fun _ => Or.inl rfl⟩
        · next pf hpf =>
          split at h
          · cases h
            refine ⟨rfl, rfl, rfl, ?_⟩
            intro v
            rw [setFlow_flows]
            split
            · next e => subst e; exact Or.inr ⟨pf, hpf, rfl⟩
            · exact Or.inl rfl
          · cases h
    · cases h; exact ⟨rfl, rfl, rfl, fun _ => Or.inl rfl⟩

/-- the instance the restarted flow is started from: the parent if it is an instance of the same flow
    (child-activated instance), otherwise the instance itself (reference instance) -/
def restartSource (s : State) (u : Nat) (f : Flow) : Nat :=
  match f.parent with
  | none => u
  | some p =>
    match s.flows p with
    | none => u
    | some pf => if pf.flowId == f.flowId then p else u

theorem restart_spec (s : State) (u : Nat) (d : Bool) (s' : State) (h : restart s u d = .ok s') :
    ∃ f, s.flows u = some f ∧
      ((d = false ∧ f.activated > 0 ∧ f.nis = false ∧
          s'.queue = .startFlow f.flowId (restartSource s u f) f.activated u :: s.queue ∧
          s'.flows u = some { f with nis := true } ∧ ∀ v, v ≠ u → s'.flows v = s.flows v) ∨
       (¬(d = false ∧ f.activated > 0 ∧ f.nis = false) ∧ s' = s)) := by
  unfold restart at h
  split at h
  · cases h
  · next f hf =>
    refine ⟨f, hf, ?_⟩
    split at h
    · next hc =>
      simp only [Bool.and_eq_true, Bool.not_eq_true', decide_eq_true_eq] at hc
      dsimp only at h
      split at h
      · cases h
      · next src hsrc =>
        cases h
        left
        refine ⟨hc.1.1, hc.1.2, hc.2, ?_, ?_, ?_⟩
        · have : src = restartSource s u f := by
            unfold restartSource
            split at hsrc
            · next hp => cases hsrc; simp [hp]
            · next p hp =>
              split at hsrc
              · cases hsrc
              · next pf hpf => cases hsrc; simp [hp, hpf]
          simp [this]
        · rw [modFlow_flows_same]; simp [hf]
        · intro v hv; rw [modFlow_flows_ne _ _ _ _ hv]; rfl
    · next hc =>
      cases h
      right
      refine ⟨?_, rfl⟩
      intro ⟨h1, h2, h3⟩
      apply hc
      simp [h1, h2, h3]


theorem stopActions_frame : ∀ (l : List Nat) (s s' : State), stopActions s l = .ok s' →
    s'.flows = s.flows ∧ s'.queue = s.queue ∧ s'.order = s.order
  | [], s, s', h => by simp [stopActions] at h; subst h; exact ⟨rfl, rfl, rfl⟩
  | a :: as, s, s', h => by
    simp only [stopActions] at h
    split at h
    · next s1 h1 =>
      obtain ⟨_, _, a1, a2, a3, _⟩ := stopAction1_spec _ _ _ h1
      obtain ⟨b1, b2, b3⟩ := stopActions_frame as s1 s' h
      exact ⟨b1.trans a1, b2.trans a2, b3.trans a3⟩
    · cases h

/-- structure of a proceeding `_abort_flow` body: children phase, own stop-actions loop, bookkeeping, restart -/
theorem abortBody_post (rec : State → Nat → Except Err State) (s : State) (u : Nat) (d : Bool) (s' : State) (f : Flow)
    (hf : s.flows u = some f) (hl : f.status.listening = true ∨ f.status = .stopping)
    (h : abortBody rec s u d = .ok s') :
    ∃ s1 f1 s2 s6 f6, childLoop rec (markNoRestart s u) f.children = .ok s1 ∧ s1.flows u = some f1 ∧
      stopActions s1 f1.actionUids = .ok s2 ∧
      s6.actions = s2.actions ∧ s6.out = s2.out ∧ s6.queue = s1.queue ++ [.flowFailed u] ∧
      s6.flows u = some f6 ∧ f6.status = .stopped ∧ f6.heads = 0 ∧ f6.activated = f1.activated ∧
      f6.nis = f1.nis ∧ f6.flowId = f1.flowId ∧ f6.parent = f1.parent ∧
      restart s6 u d = .ok s' := by
  unfold abortBody at h
  simp only [hf] at h
  have hg : ¬((!f.status.listening && f.status != .stopping) = true) := by
    rcases hl with hl | hl
    · simp [hl]
    · simp [hl]
  rw [if_neg hg] at h
  split at h
  · cases h
  · next s1 h1 =>
    split at h
    · cases h
    · next f1 hf1 =>
      split at h
      · cases h
      · next s2 h2 =>
        try dsimp only at h
        split at h
        · cases h
        · next s4 h4 =>
          obtain ⟨e1, e2, e3⟩ := stopActions_frame _ _ _ h2
          have hs2u : s2.flows u = some f1 := by rw [e1]; exact hf1
          have hs3 : (modFlow s2 u fun f => { f with heads := 0 }) = setFlow s2 u { f1 with heads := 0 } :=
            modFlow_some _ _ _ _ hs2u
          rw [hs3] at h4
          obtain ⟨q4, a4, o4, fl4⟩ := removeFromParent_flows _ _ _ h4
          have hs4u : ∃ f4, s4.flows u = some f4 ∧ f4.status = f1.status ∧ f4.heads = 0 ∧ f4.activated = f1.activated ∧
              f4.nis = f1.nis ∧ f4.flowId = f1.flowId ∧ f4.parent = f1.parent := by
            rcases fl4 u with e | ⟨pf, e, e'⟩
            · rw [setFlow_flows_same] at e
              exact ⟨_, e, rfl, rfl, rfl, rfl, rfl, rfl⟩
            · rw [setFlow_flows_same] at e
              cases e
              exact ⟨_, e', rfl, rfl, rfl, rfl, rfl, rfl⟩
          obtain ⟨f4, hf4, g1, g2, g3, g4, g5, g6⟩ := hs4u
          refine ⟨s1, f1, s2, _, { f4 with status := .stopped }, h1, hf1, h2, ?_, ?_, ?_, ?_, rfl, g2, g3, g4, g5, g6, h⟩
          · simp [a4]
          · simp [o4]
          · simp [q4, e2]
          · rw [push_flows, modFlow_flows_same, hf4]; rfl


/-- structure of a proceeding `_finish_flow` body of a flow other than `main` -/
theorem finishBody_post (rec : State → Nat → Except Err State) (s : State) (u : Nat) (d : Bool) (s' : State) (f : Flow)
    (hf : s.flows u = some f) (hl : f.status.listening = true) (h : finishBody rec s u d = .ok s') :
    ∃ s1 f1 s2, childLoop rec s f.children = .ok s1 ∧ s1.flows u = some f1 ∧
      stopActions s1 f1.actionUids = .ok s2 ∧
      ((f1.isMain = true ∧ s'.actions = s2.actions ∧ s'.out = s2.out ∧ s'.queue = s1.queue ∧
          s'.flows u = some { f1 with heads := 1, status := .waiting }) ∨
       (f1.isMain = false ∧ ∃ s6 f6, s6.actions = s2.actions ∧ s6.out = s2.out ∧ s6.queue = s1.queue ++ [.flowFinished u] ∧
          s6.flows u = some f6 ∧ f6.status = .finished ∧ f6.heads = 0 ∧ f6.activated = f1.activated ∧
          f6.nis = f1.nis ∧ f6.flowId = f1.flowId ∧ f6.parent = f1.parent ∧ restart s6 u d = .ok s')) := by
  unfold finishBody at h
  simp only [hf] at h
  have hg : ¬((!f.status.listening) = true) := by simp [hl]
  rw [if_neg hg] at h
  split at h
  · cases h
  · next s1 h1 =>
    split at h
    · cases h
    · next f1 hf1 =>
      split at h
      · cases h
      · next s2 h2 =>
        try dsimp only at h
        obtain ⟨e1, e2, e3⟩ := stopActions_frame _ _ _ h2
        have hs2u : s2.flows u = some f1 := by rw [e1]; exact hf1
        have hs3 : (modFlow s2 u fun f => { f with heads := 0 }) = setFlow s2 u { f1 with heads := 0 } :=
          modFlow_some _ _ _ _ hs2u
        rw [hs3] at h
        refine ⟨s1, f1, s2, h1, hf1, h2, ?_⟩
        split at h
        · next hm =>
          cases h
          left
          refine ⟨hm, by simp, by simp, by simp [e2], ?_⟩
          rw [modFlow_flows_same]; simp
        · next hm =>
          have hs4 : (modFlow (setFlow s2 u { f1 with heads := 0 }) u fun f => { f with status := .finished }) =
              setFlow (setFlow s2 u { f1 with heads := 0 }) u { f1 with heads := 0, status := .finished } :=
            modFlow_some _ _ _ _ (setFlow_flows_same _ _ _)
          rw [hs4] at h
          split at h
          · cases h
          · next s5 h5 =>
            right
            obtain ⟨q5, a5, o5, fl5⟩ := removeFromParent_flows _ _ _ h5
            have hs5u : ∃ f5, s5.flows u = some f5 ∧ f5.status = .finished ∧ f5.heads = 0 ∧ f5.activated = f1.activated ∧
                f5.nis = f1.nis ∧ f5.flowId = f1.flowId ∧ f5.parent = f1.parent := by
              rcases fl5 u with e | ⟨pf, e, e'⟩
              · rw [setFlow_flows_same] at e
                exact ⟨_, e, rfl, rfl, rfl, rfl, rfl, rfl⟩
              · rw [setFlow_flows_same] at e
                cases e
                exact ⟨_, e', rfl, rfl, rfl, rfl, rfl, rfl⟩
            obtain ⟨f5, hf5, g1, g2, g3, g4, g5, g6⟩ := hs5u
            refine ⟨by simpa using hm, _, f5, ?_, ?_, ?_, ?_, g1, g2, g3, g4, g5, g6, h⟩
            · simp [a5]
            · simp [o5]
            · simp [q5, e2]
            · simpa using hf5

/-! ### per-action effect of the stop-actions loop -/

theorem stopAction1_other (s : State) (b : Nat) (t : State) (h : stopAction1 s b = .ok t) (a : Nat) (hab : a ≠ b) :
    t.actions a = s.actions a ∧ stops a t.out = stops a s.out := by
  obtain ⟨x, _, _, _, _, hne, hcase⟩ := stopAction1_spec s b t h
  refine ⟨hne a hab, ?_⟩
  rcases hcase with ⟨_, _, ho⟩ | ⟨_, _, _, ho⟩ | ⟨_, _, _, ho⟩
  · rw [ho]
  · rw [ho]
  · rw [ho, stops_append_stop]; simp; exact fun h => hab h.symm

theorem stopActions_not_mem : ∀ (l : List Nat) (s s' : State), stopActions s l = .ok s' → ∀ a, a ∉ l →
    s'.actions a = s.actions a ∧ stops a s'.out = stops a s.out
  | [], s, s', h, a, _ => by simp [stopActions] at h; subst h; exact ⟨rfl, rfl⟩
  | b :: bs, s, s', h, a, ha => by
    simp only [stopActions] at h
    split at h
    · next s1 h1 =>
      have hab : a ≠ b := fun e => ha (by simp [e])
      obtain ⟨a1, a2⟩ := stopAction1_other _ _ _ h1 a hab
      obtain ⟨b1, b2⟩ := stopActions_not_mem bs s1 s' h a (fun hm => ha (List.mem_cons_of_mem _ hm))
      exact ⟨b1.trans a1, b2.trans a2⟩
    · cases h

/-- effect of the loop on an action that occurs (once) in the list -/
def StopEffect (a : Nat) (x : Action) (s s' : State) : Prop :=
  (x.status.running = false → s'.actions a = some x ∧ stops a s'.out = stops a s.out) ∧
  (x.status.running = true → x.count = 1 → s'.actions a = some ⟨.stopping, 0⟩ ∧ stops a s'.out = stops a s.out + 1) ∧
  (x.status.running = true → x.count ≠ 1 → s'.actions a = some { x with count := x.count - 1 } ∧ stops a s'.out = stops a s.out)

theorem stopActions_mem : ∀ (l : List Nat), l.Nodup → ∀ (s s' : State), stopActions s l = .ok s' → ∀ a, a ∈ l →
    ∃ x, s.actions a = some x ∧ StopEffect a x s s'
  | [], _, s, s', _, a, ha => by simp at ha
  | b :: bs, hnd, s, s', h, a, ha => by
    simp only [stopActions] at h
    split at h
    · next s1 h1 =>
      have hnd' := List.nodup_cons.1 hnd
      by_cases hab : a = b
      · subst hab
        obtain ⟨x, hx, _, _, _, _, hcase⟩ := stopAction1_spec s a s1 h1
        obtain ⟨r1, r2⟩ := stopActions_not_mem bs s1 s' h a hnd'.1
        refine ⟨x, hx, ?_, ?_, ?_⟩
        · intro hr
          rcases hcase with ⟨_, hxa, ho⟩ | ⟨hr', _⟩ | ⟨hr', _⟩
          · rw [r1, r2, hxa, ho]; exact ⟨rfl, rfl⟩
          · rw [hr] at hr'; cases hr'
          · rw [hr] at hr'; cases hr'
        · intro hr hc
          rcases hcase with ⟨hr', _⟩ | ⟨_, hc', _⟩ | ⟨_, _, hxa, ho⟩
          · rw [hr] at hr'; cases hr'
          · exact absurd hc hc'
          · rw [r1, r2, hxa, ho, stops_append_stop]; simp
        · intro hr hc
          rcases hcase with ⟨hr', _⟩ | ⟨_, _, hxa, ho⟩ | ⟨_, hc', _⟩
          · rw [hr] at hr'; cases hr'
          · rw [r1, r2, hxa, ho]; exact ⟨rfl, rfl⟩
          · exact absurd hc' hc
      · have ha' : a ∈ bs := by
          rcases List.mem_cons.1 ha with e | e
          · exact absurd e hab
          · exact e
        obtain ⟨a1, a2⟩ := stopAction1_other _ _ _ h1 a hab
        obtain ⟨x, hx, e1, e2, e3⟩ := stopActions_mem bs hnd'.2 s1 s' h a ha'
        refine ⟨x, by rw [← a1]; exact hx, ?_, ?_, ?_⟩
        · intro hr; rw [← a2]; exact e1 hr
        · intro hr hc; rw [← a2]; exact e2 hr hc
        · intro hr hc; rw [← a2]; exact e3 hr hc
    · cases h


/-! ### action events from outside -/

/-- the event is classified by `Action.process_event` as a `Start…` event -/
def AEv.isStartEvent (e : AEv) : Bool := !e.started && !e.updated && !e.finished && e.start

theorem processEvent_keeps (x : Action) (b : Nat) (e : AEv) (he : e.isStartEvent = false)
    (h : x.count ≤ 0 ∧ x.status ≠ .initialized ∧ x.status ≠ .starting) :
    (processEvent x b e).count ≤ 0 ∧ (processEvent x b e).status ≠ .initialized ∧ (processEvent x b e).status ≠ .starting := by
  unfold processEvent
  by_cases h0 : (e.isAction && e.uid == b) = true
  · simp only [h0, if_true]
    by_cases h1 : e.started = true
    · simp [h1, h.1]
    · by_cases h2 : e.updated = true
      · simp [h1, h2, h]
      · by_cases h3 : e.finished = true
        · simp [h1, h2, h3]
        · have h4 : e.start = false := by
            simp [AEv.isStartEvent] at he
            simp at h1 h2 h3
            cases hs : e.start
            · rfl
            · have := he h1 h2 h3; simp [hs] at this
          by_cases h5 : e.stop = true
          · simp [h1, h2, h3, h4, h5, h.1]
          · simp [h1, h2, h3, h4, h5, h]
  · simp [h0, h]

theorem update_StopInv {s : State} (hi : StopInv s) (e : AEv) (he : e.isStartEvent = false) :
    StopInv (updateActionStatusByEvent s e) := by
  obtain ⟨_, ho, _, _, ha⟩ := update_rel e s
  intro b
  rw [ho]
  rcases hi b with h0 | ⟨h1, h2⟩
  · exact Or.inl h0
  · right
    refine ⟨h1, ?_⟩
    intro y hy
    rcases ha b with e1 | ⟨x, hx, _, ht⟩
    · rw [e1] at hy; exact h2 y hy
    · rw [ht] at hy; cases hy
      exact processEvent_keeps x b e he (h2 x hx)

theorem stops_append_start (a b : Nat) (out : List OEv) : stops a (out ++ [.start b]) = stops a out := by
  unfold stops
  rw [List.count_append]
  simp

theorem startAction_StopInv {s : State} (hi : StopInv s) (a : Nat) (x : Action) (hx : s.actions a = some x)
    (hs : x.status = .initialized) : StopInv (generateUmim s (.start a) (AEv.startOf a)) := by
  unfold generateUmim
  obtain ⟨_, ho, _, _, ha⟩ := update_rel (AEv.startOf a) (emit s (.start a))
  intro b
  rw [ho]
  simp only [emit_out, stops_append_start]
  by_cases hb : b = a
  · subst hb
    rcases hi b with h0 | ⟨_, h2⟩
    · exact Or.inl h0
    · exact absurd hs (h2 x hx).2.1
  · rcases hi b with h0 | ⟨h1, h2⟩
    · exact Or.inl h0
    · right
      refine ⟨h1, ?_⟩
      intro y hy
      rcases ha b with e1 | ⟨z, hz, _, ht⟩
      · rw [e1] at hy; exact h2 y hy
      · rw [ht, processEvent_other _ _ _ (by simpa [AEv.startOf] using fun h => hb h.symm)] at hy
        cases hy
        exact h2 _ hz

end NemoVerif.Lifetime
