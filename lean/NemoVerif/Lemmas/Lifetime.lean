import NemoVerif.Models.Lifetime
namespace NemoVerif.Lifetime
end NemoVerif.Lifetime
