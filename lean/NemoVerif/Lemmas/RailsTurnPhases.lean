/-
  C16 phase 4 — the transitions of the interpreter on the GENERATED llm_flows.co program outside the two rail loops:
  entry into `process user input`, into / out of `run input rails`, `run dialog rails` (three branches by the option
  guards), `process bot message` (guards `$skip_output_rails`, `$config.rails.output.flows`, `$generation_options.rails.output`),
  into / out of `run output rails`, the final utterance.  Symbolic execution of `computeNextState` (context, uids, rail
  lists arbitrary).  NOTE for maintenance: never put `V.truthy` into a simp set when a guard value is symbolic.
-/
import NemoVerif.Lemmas.RailsTurn
namespace NemoVerif.RailsInterp
open NemoVerif.V1Interp
set_option linter.unusedSimpArgs false
set_option linter.unusedVariables false

def createStartRails : Elem := Elem.runAction "create_event" none "{\"event\": {\"_type\": \"StartInputRails\"}}" none
def createUserMessage : Elem := Elem.runAction "create_event" none "{\"event\": {\"_type\": \"UserMessage\", \"text\": \"$user_message\"}}" none

/-- a flow whose first element waits and matches the event starts: its state is appended with head 1 and slid on -/
theorem startOne_start (cfgs : Cfgs) (ev : Event) (ns : State) (cfg : FlowCfg) (el : Elem) (rest : List Elem)
    (he : cfg.elems = el :: rest) (hs : sstep (el :: rest) ⟨ns.ctx, ns.upd⟩ 0 = .stop) (hm : isMatch el ev = true)
    (hsub : cfg.isSubflow = false) (hmult : (!cfg.allowMultiple && (ns.flows.map (·.flowId)).contains cfg.id) = false) :
    startOne true cfgs ev ns cfg =
      (match slideWithSubflows true SUB_FUEL cfgs { ns with ctr := ns.ctr + 1, flows := ns.flows ++ [{ uid := ns.ctr, flowId := cfg.id, head := 1 }] }
          { uid := ns.ctr, flowId := cfg.id, head := 1 } with
       | .error e => .error e
       | .ok (ns', fs) => .ok { ns' with flows := setAt ns'.flows ns.flows.length (if fs.head < 0 then { fs with status := .completed } else fs) }) := by
  have h0 : ¬ ((0 : Int) = (rest.length : Int) + 1) := by omega
  have hsl : slide SLIDE_FUEL cfg.elems ⟨ns.ctx, ns.upd⟩ 0 (initPrev cfg.elems 0) = .at ⟨ns.ctx, ns.upd⟩ 0 := by
    simp [he, SLIDE_FUEL, slide, hs, h0]
  unfold startOne
  simp only [hsub, hmult, hsl, Bool.false_eq_true, if_false]
  simp [pyIndex, he, hm]
  try rfl

theorem truthy_bool (b : Bool) : (V.bool b).truthy = b := rfl
theorem set_nil (k : String) (v : V) : Ctx.set [] k v = [(k, v)] := rfl

set_option maxRecDepth 8000 in
theorem S_pui (rails : Cfgs) (σ : Ctx) (c : Nat) (user : String) (c1 c2 c3 : Bool)
    (h1 : (σ.get "config.rails.input.flows").truthy = c1) (h2 : (σ.get "generation_options" == V.none) = c2)
    (h3 : (σ.get "generation_options.rails.input").truthy = c3)
    (ge : σ.get "event.final_transcript" = .str user) :
    startOne true (base ++ rails) (.other "UtteranceUserActionFinished" [("final_transcript", .str user)])
      { ctx := σ, flows := [], next := none, upd := [], ctr := c } puiCfg
    = .ok { ctx := σ.set "user_message" (.str user),
            flows := [{ uid := c, flowId := "process user input", head := if c1 && (c2 || c3) then 4 else 9 }],
            next := some { elem := if c1 && (c2 || c3) then createStartRails else createUserMessage, uid := c, prio := 10000 },
            upd := [("user_message", .str user)], ctr := c + 1 } := by
  rw [startOne_start _ _ _ puiCfg _ _ pui_elems rfl (by simp [isMatch, WILDCARD]) pui_flags.2.2.2.1 (by simp [pui_flags])]
  cases c1 <;> cases c2 <;> cases c3 <;>
    simp [pui_elems, pui_flags, SLIDE_FUEL, slide, sstep, initPrev, pyIndex, find_pui, SUB_FUEL, slideWithSubflows,
      eval, get_set, ge, h1, h2, h3, recordNextStep, isActionable, setAt, truthy_bool, set_nil, createStartRails, createUserMessage]

set_option maxRecDepth 8000 in
theorem T_entry (rails : Cfgs) (hsub : ∀ r ∈ rails, r.isSubflow = true) (σ u : Ctx) (c : Nat) (nx : Option NextStep) (user : String)
    (c1 c2 c3 : Bool)
    (h1 : (σ.get "config.rails.input.flows").truthy = c1) (h2 : (σ.get "generation_options" == V.none) = c2)
    (h3 : (σ.get "generation_options.rails.input").truthy = c3) :
    computeNextState true (base ++ rails) { ctx := σ, flows := [], next := nx, upd := u, ctr := c }
      (.other "UtteranceUserActionFinished" [("final_transcript", .str user)])
    = .ok { ctx := (σ.withEvent (.other "UtteranceUserActionFinished" [("final_transcript", .str user)])).set "user_message" (.str user),
            flows := [{ uid := c, flowId := "process user input", head := if c1 && (c2 || c3) then 4 else 9 }],
            next := some { elem := if c1 && (c2 || c3) then createStartRails else createUserMessage, uid := c, prio := 10000 },
            upd := [("user_message", .str user)], ctr := c + 1 } := by
  have g1 := get_withEvent_plain σ (.other "UtteranceUserActionFinished" [("final_transcript", .str user)]) "config.rails.input.flows" (by plain_tac)
  have g2 := get_withEvent_plain σ (.other "UtteranceUserActionFinished" [("final_transcript", .str user)]) "generation_options" (by plain_tac)
  have g3 := get_withEvent_plain σ (.other "UtteranceUserActionFinished" [("final_transcript", .str user)]) "generation_options.rails.input" (by plain_tac)
  have ge : (σ.withEvent (.other "UtteranceUserActionFinished" [("final_transcript", .str user)])).get "event.final_transcript" = .str user := by
    simp [Ctx.withEvent, Event.props, Ctx.get, List.lookup]
  simp only [computeNextState, advanceAll, startNew_rails rails hsub, startNew_base_eq]
  rw [S_pui rails _ c user c1 c2 c3 (by rw [g1]; exact h1) (by rw [g2]; exact h2) (by rw [g3]; exact h3) ge]
  simp only [startOne_rdr_no _ _ _ (show isMatch el0rdr (.other "UtteranceUserActionFinished" [("final_transcript", .str user)]) = false from rfl), startOne_gns_no _ _ _ (show isMatch el0gns (.other "UtteranceUserActionFinished" [("final_transcript", .str user)]) = false from rfl),
    startOne_gbm_no _ _ _ (show isMatch el0gbm (.other "UtteranceUserActionFinished" [("final_transcript", .str user)]) = false from rfl), startOne_pbm_no _ _ _ (show isMatch el0pbm (.other "UtteranceUserActionFinished" [("final_transcript", .str user)]) = false from rfl)]
  cases c1 <;> cases c2 <;> cases c3 <;>
    simp [markInterrupted, extensionInterrupt, resumeLoop, resumePass, createStartRails, createUserMessage, find_pui, pui_flags]


macro "cns_simp" "[" ts:Lean.Parser.Tactic.simpLemma,* "]" : tactic =>
  `(tactic| (
    simp [computeNextState, advanceAll, advanceOne, find_pui, find_rir, find_rdr, find_gui, find_gbm, find_pbm, find_ror,
      SUB_FUEL, slideWithSubflows, SLIDE_FUEL, slide, sstep,
      rir_elems, rir_triggers, rir_flags, pui_elems, pui_triggers, pui_flags, rdr_elems, rdr_triggers, rdr_flags,
      gui_elems, gui_flags, gbm_elems, gbm_flags, pbm_elems, pbm_triggers, pbm_flags, ror_elems, ror_triggers, ror_flags,
      initPrev, recordNextStep, pyIndex, isActionable, isMatch, Event.triggers, eval, evalBin, truthy_bool, set_nil, V.pyLt, V.num?, pyLen, get_set, $ts,*] <;> try simp [markInterrupted, extensionInterrupt, reactivateAborted, resumeLoop, resumePass, setAt, find_pui, find_rir, find_rdr, find_gui, find_gbm, find_pbm, find_ror,
      SUB_FUEL, slideWithSubflows, SLIDE_FUEL, slide, sstep, initPrev, recordNextStep, pyIndex, isActionable, eval, evalBin, truthy_bool, set_nil, V.num?, V.pyLt, pyLen,
      rir_elems, rir_flags, pui_elems, pui_flags, rdr_elems, rdr_flags, gui_elems, gui_flags, gbm_elems, gbm_flags, pbm_elems, pbm_flags, ror_elems, ror_flags, get_set, $ts,*]))

theorem set_cons_ne (k' : String) (v' : V) (rest : Ctx) (k : String) (v : V) (h : (k' != k) = true) :
    Ctx.set ((k', v') :: rest) k v = (k, v) :: (k', v') :: rest.filter (fun kv => kv.1 != k) := by
  unfold Ctx.set
  simp only [List.filter, h]
theorem set3 (a b c : V) : (Ctx.set [("i", a)] "input_flows" b).set "triggered_input_rail" c =
    [("triggered_input_rail", c), ("input_flows", b), ("i", a)] := by
  rw [set_cons_ne _ _ _ _ _ (by decide), set_cons_ne _ _ _ _ _ (by decide)]
  simp only [List.filter, (by decide : ("i" != "triggered_input_rail") = true)]

theorem quiet_ce : Quiet (.actionFinished "create_event" true) = true := by decide

set_option maxRecDepth 8000 in
/-- `create event StartInputRails` finished: `process user input` waits for the event -/
theorem T_pui4 (rails : Cfgs) (hsub : ∀ r ∈ rails, r.isSubflow = true) (σ u : Ctx) (c u0 : Nat) (nx : Option NextStep) :
    computeNextState true (base ++ rails) { ctx := σ, flows := [{ uid := u0, flowId := "process user input", head := 4 }], next := nx, upd := u, ctr := c }
      (.actionFinished "create_event" true)
    = .ok { ctx := σ.withEvent (.actionFinished "create_event" true), flows := [{ uid := u0, flowId := "process user input", head := 5 }],
            next := none, upd := [], ctr := c } := by
  cns_simp [startNew_quiet rails hsub _ quiet_ce]


set_option maxRecDepth 8000 in
/-- the `StartInputRails` event: `process user input` calls `run input rails`, which initialises `$i`, `$input_flows`, enters
    the `while` (the list is not empty) and asks for the first `StartInputRail` marker: the head state of the loop -/
theorem T_startRails (rails : Cfgs) (hsub : ∀ r ∈ rails, r.isSubflow = true) (σ u : Ctx) (c u0 : Nat) (h0c : u0 < c) (nx : Option NextStep)
    (n0 : String) (ns : List String) (hcfg : σ.get "config.rails.input.flows" = .strs (n0 :: ns)) :
    computeNextState true (base ++ rails) { ctx := σ, flows := [{ uid := u0, flowId := "process user input", head := 5 }], next := nx, upd := u, ctr := c }
      (.other "StartInputRails" [])
    = .ok (headState ((((σ.withEvent (.other "StartInputRails" [])).set "i" (.int 0)).set "input_flows" (.strs (n0 :: ns))).set "triggered_input_rail" (.str n0))
        [("triggered_input_rail", .str n0), ("input_flows", .strs (n0 :: ns)), ("i", .int 0)] (c + 1) u0 c) := by
  have hq : Quiet (.other "StartInputRails" []) = true := rfl
  have g1 := get_withEvent_plain σ (.other "StartInputRails" []) "config.rails.input.flows" (by plain_tac)
  have b1 : (u0 == c) = false := beq_false_of_ne (by omega)
  have b2 : (c == u0) = false := beq_false_of_ne (by omega)
  have hlt : (0 : Int) < (ns.length : Int) + 1 := by omega
  cns_simp [startNew_quiet rails hsub _ hq, g1, hcfg, headState, fsRIR, fsPUIint, createStartRail, b1, b2, pyGet, hlt]
  exact set3 _ _ _

set_option maxRecDepth 8000 in
/-- `create event InputRailsFinished` finished (the completed `run input rails` is dropped) -/
theorem T_exit_a (rails : Cfgs) (hsub : ∀ r ∈ rails, r.isSubflow = true) (σ u : Ctx) (c u0 u1 : Nat) (nx : Option NextStep) (hd : Int) :
    computeNextState true (base ++ rails)
      { ctx := σ, flows := [{ uid := u1, flowId := "run input rails", head := hd, status := .completed }, { uid := u0, flowId := "process user input", head := 7 }],
        next := nx, upd := u, ctr := c } (.actionFinished "create_event" true)
    = .ok { ctx := σ.withEvent (.actionFinished "create_event" true), flows := [{ uid := u0, flowId := "process user input", head := 8 }],
            next := none, upd := [], ctr := c } := by
  cns_simp [startNew_quiet rails hsub _ quiet_ce]

set_option maxRecDepth 8000 in
/-- the `InputRailsFinished` event: `process user input` asks for `create event UserMessage(text=$user_message)` -/
theorem T_exit_b (rails : Cfgs) (hsub : ∀ r ∈ rails, r.isSubflow = true) (σ u : Ctx) (c u0 : Nat) (nx : Option NextStep) :
    computeNextState true (base ++ rails) { ctx := σ, flows := [{ uid := u0, flowId := "process user input", head := 8 }], next := nx, upd := u, ctr := c }
      (.other "InputRailsFinished" [])
    = .ok { ctx := σ.withEvent (.other "InputRailsFinished" []), flows := [{ uid := u0, flowId := "process user input", head := 9 }],
            next := some { elem := createUserMessage, uid := u0, prio := 10000 }, upd := [], ctr := c } := by
  have hq : Quiet (.other "InputRailsFinished" []) = true := rfl
  cns_simp [startNew_quiet rails hsub _ hq, createUserMessage]

set_option maxRecDepth 8000 in
/-- `create event UserMessage` finished: `process user input` completes -/
theorem T_um_a (rails : Cfgs) (hsub : ∀ r ∈ rails, r.isSubflow = true) (σ u : Ctx) (c u0 : Nat) (nx : Option NextStep) :
    computeNextState true (base ++ rails) { ctx := σ, flows := [{ uid := u0, flowId := "process user input", head := 9 }], next := nx, upd := u, ctr := c }
      (.actionFinished "create_event" true)
    = .ok { ctx := σ.withEvent (.actionFinished "create_event" true),
            flows := [{ uid := u0, flowId := "process user input", head := -10, status := .completed }],
            next := none, upd := [], ctr := c } := by
  cns_simp [startNew_quiet rails hsub _ quiet_ce]


def createSubaUser : Elem := Elem.runAction "create_event" none "{\"event\": {\"_type\": \"StartUtteranceBotAction\", \"script\": \"$user_message\"}}" none
def createBotMessage : Elem := Elem.runAction "create_event" none "{\"event\": {\"_type\": \"BotMessage\", \"text\": \"$bot_message\"}}" none
def guiAction : Elem := Elem.runAction "generate_user_intent" none "{}" none

/-- where `run dialog rails` goes on `UserMessage`, by its two option guards -/
inductive DlgBranch where
  | echo      -- dialog off, output off: `create event StartUtteranceBotAction(script=$user_message)`
  | botMsg    -- dialog off, output on: `create event BotMessage(text=$bot_message)`
  | dialog    -- `do generate user intent`
  deriving DecidableEq, Repr

def dlgBranch (goTruthy dialogIsFalse outputIsFalse : Bool) : DlgBranch :=
  if goTruthy && dialogIsFalse then (if outputIsFalse then .echo else .botMsg) else .dialog

def rdrState (σ : Ctx) (c : Nat) : DlgBranch → State
  | .echo => { ctx := σ, flows := [{ uid := c, flowId := "run dialog rails", head := 3 }],
               next := some { elem := createSubaUser, uid := c, prio := 10000 }, upd := [], ctr := c + 1 }
  | .botMsg => { ctx := σ, flows := [{ uid := c, flowId := "run dialog rails", head := 5 }],
                 next := some { elem := createBotMessage, uid := c, prio := 10000 }, upd := [], ctr := c + 1 }
  | .dialog => { ctx := σ, flows := [{ uid := c, flowId := "run dialog rails", head := 8, status := .interrupted, interruptedBy := some (c + 1) },
                                     { uid := c + 1, flowId := "generate user intent", head := 0 }],
                 next := some { elem := guiAction, uid := c + 1, prio := 10000 }, upd := [], ctr := c + 2 }

set_option maxRecDepth 8000 in
theorem S_rdr (rails : Cfgs) (σ : Ctx) (c : Nat) (v : V) (a b d : Bool)
    (h1 : (σ.get "generation_options").truthy = a) (h2 : (σ.get "generation_options.rails.dialog").pyEq (.bool false) = b)
    (h3 : (σ.get "generation_options.rails.output").pyEq (.bool false) = d) :
    startOne true (base ++ rails) (.other "UserMessage" [("text", v)]) { ctx := σ, flows := [], next := none, upd := [], ctr := c } rdrCfg
    = .ok (rdrState σ c (dlgBranch a b d)) := by
  rw [startOne_start _ _ _ rdrCfg _ _ rdr_elems rfl (by simp [isMatch, WILDCARD]) rdr_flags.2.2.2.1 (by simp [rdr_flags])]
  cases a <;> cases b <;> cases d <;>
    simp [rdr_elems, rdr_flags, gui_elems, gui_flags, SLIDE_FUEL, slide, sstep, initPrev, pyIndex, find_rdr, find_gui, SUB_FUEL, slideWithSubflows,
      eval, evalBin, get_set, h1, h2, h3, recordNextStep, isActionable, setAt, truthy_bool, set_nil, rdrState, dlgBranch, createSubaUser, createBotMessage, guiAction]

set_option maxRecDepth 8000 in
/-- the `UserMessage` event: (the completed `process user input` is dropped,) `run dialog rails` starts and takes one of
    its three branches -/
theorem T_um_b (rails : Cfgs) (hsub : ∀ r ∈ rails, r.isSubflow = true) (σ u : Ctx) (c u0 : Nat) (nx : Option NextStep) (v : V) (hd : Int) (a b d : Bool)
    (h1 : (σ.get "generation_options").truthy = a) (h2 : (σ.get "generation_options.rails.dialog").pyEq (.bool false) = b)
    (h3 : (σ.get "generation_options.rails.output").pyEq (.bool false) = d) :
    computeNextState true (base ++ rails)
      { ctx := σ, flows := [{ uid := u0, flowId := "process user input", head := hd, status := .completed }], next := nx, upd := u, ctr := c }
      (.other "UserMessage" [("text", v)])
    = .ok (rdrState (σ.withEvent (.other "UserMessage" [("text", v)])) c (dlgBranch a b d)) := by
  have g1 := get_withEvent_plain σ (.other "UserMessage" [("text", v)]) "generation_options" (by plain_tac)
  have g2 := get_withEvent_plain σ (.other "UserMessage" [("text", v)]) "generation_options.rails.dialog" (by plain_tac)
  have g3 := get_withEvent_plain σ (.other "UserMessage" [("text", v)]) "generation_options.rails.output" (by plain_tac)
  simp only [computeNextState, advanceAll, advanceOne, find_pui, startNew_rails rails hsub, startNew_base_eq]
  simp only [startOne_pui_no _ _ _ (show isMatch el0pui (.other "UserMessage" [("text", v)]) = false from rfl)]
  simp only [beq_self_eq_true, Bool.true_or, if_true]
  rw [S_rdr rails _ c v a b d (by rw [g1]; exact h1) (by rw [g2]; exact h2) (by rw [g3]; exact h3)]
  simp only [startOne_gns_no _ _ _ (show isMatch el0gns (.other "UserMessage" [("text", v)]) = false from rfl),
    startOne_gbm_no _ _ _ (show isMatch el0gbm (.other "UserMessage" [("text", v)]) = false from rfl),
    startOne_pbm_no _ _ _ (show isMatch el0pbm (.other "UserMessage" [("text", v)]) = false from rfl)]
  cases a <;> cases b <;> cases d <;>
    simp [rdrState, dlgBranch, markInterrupted, extensionInterrupt, resumeLoop, resumePass, find_rdr, find_gui, rdr_flags, gui_flags, guiAction]


/-! ### completed flows are dropped by the next event -/

def AllDone (cfgs : Cfgs) (fl : List FS) : Prop := ∀ f ∈ fl, f.status = .completed ∧ (cfgs.find f.flowId).isSome = true

theorem advanceAll_done (cfgs : Cfgs) (ev : Event) : ∀ (fl : List FS) (ns : State) (ext : Bool), AllDone cfgs fl →
    advanceAll true cfgs ev fl ns ext = .ok (ns, ext)
  | [], _, _, _ => rfl
  | f :: rest, ns, ext, h => by
    obtain ⟨hs, hf⟩ := h f (List.mem_cons_self ..)
    obtain ⟨cfg, hc⟩ := Option.isSome_iff_exists.mp hf
    simp only [advanceAll, advanceOne, hc, hs, beq_self_eq_true, Bool.true_or, if_true]
    exact advanceAll_done cfgs ev rest ns ext (fun x hx => h x (List.mem_cons_of_mem _ hx))

theorem quiet_suba (v : V) : Quiet (.other "StartUtteranceBotAction" [("script", v)]) = true := rfl

/-- the final `StartUtteranceBotAction` event when only completed flows are left: nothing more to do -/
theorem T_suba_done (rails : Cfgs) (hsub : ∀ r ∈ rails, r.isSubflow = true) (σ u : Ctx) (c : Nat) (nx : Option NextStep) (fl : List FS) (v : V)
    (hfl : AllDone (base ++ rails) fl) :
    computeNextState true (base ++ rails) { ctx := σ, flows := fl, next := nx, upd := u, ctr := c } (.other "StartUtteranceBotAction" [("script", v)])
    = .ok { ctx := σ.withEvent (.other "StartUtteranceBotAction" [("script", v)]), flows := [], next := none, upd := [], ctr := c } := by
  simp only [computeNextState, advanceAll_done _ _ fl _ _ hfl, startNew_quiet rails hsub _ (quiet_suba v)]
  simp [markInterrupted, extensionInterrupt, resumeLoop, resumePass]

set_option maxRecDepth 8000 in
/-- `run dialog rails` after its `create event …` (positions 3 and 5 both jump to the end): completed -/
theorem T_rdr_fin (rails : Cfgs) (hsub : ∀ r ∈ rails, r.isSubflow = true) (σ u : Ctx) (c u0 : Nat) (nx : Option NextStep) (hd : Int) (hhd : hd = 3 ∨ hd = 5) :
    computeNextState true (base ++ rails) { ctx := σ, flows := [{ uid := u0, flowId := "run dialog rails", head := hd }], next := nx, upd := u, ctr := c }
      (.actionFinished "create_event" true)
    = .ok { ctx := σ.withEvent (.actionFinished "create_event" true),
            flows := [{ uid := u0, flowId := "run dialog rails", head := -7, status := .completed }], next := none, upd := [], ctr := c } := by
  rcases hhd with rfl | rfl <;> cns_simp [startNew_quiet rails hsub _ quiet_ce]

set_option maxRecDepth 8000 in
/-- `generate_user_intent` finished: the sub-flow completes, `run dialog rails` resumes at its end and completes -/
theorem T_gui_fin (rails : Cfgs) (hsub : ∀ r ∈ rails, r.isSubflow = true) (σ u : Ctx) (c u0 : Nat) (nx : Option NextStep) :
    computeNextState true (base ++ rails)
      { ctx := σ, flows := [{ uid := u0, flowId := "run dialog rails", head := 8, status := .interrupted, interruptedBy := some (u0 + 1) },
                            { uid := u0 + 1, flowId := "generate user intent", head := 0 }], next := nx, upd := u, ctr := c }
      (.actionFinished "generate_user_intent" true)
    = .ok { ctx := σ.withEvent (.actionFinished "generate_user_intent" true),
            flows := [{ uid := u0, flowId := "run dialog rails", head := -8, status := .completed },
                      { uid := u0 + 1, flowId := "generate user intent", head := -1, status := .completed }], next := none, upd := [], ctr := c } := by
  have hq : Quiet (.actionFinished "generate_user_intent" true) = true := by decide
  cns_simp [startNew_quiet rails hsub _ hq]



def createStartOutRails : Elem := Elem.runAction "create_event" none "{\"event\": {\"_type\": \"StartOutputRails\"}}" none
def createSubaBot : Elem := Elem.runAction "create_event" none "{\"event\": {\"_type\": \"StartUtteranceBotAction\", \"script\": \"$bot_message\"}}" none

set_option maxRecDepth 8000 in
/-- `process bot message` starts on `BotMessage` with `$skip_output_rails` falsy: it runs the output rails iff flows are
    configured and the options select them, else it utters the message at once -/
theorem S_pbm (rails : Cfgs) (σ : Ctx) (c : Nat) (v : V) (fl : List FS) (c1 c2 c3 : Bool)
    (hsk : (σ.get "skip_output_rails").truthy = false)
    (h1 : (σ.get "config.rails.output.flows").truthy = c1) (h2 : (σ.get "generation_options" == V.none) = c2)
    (h3 : (σ.get "generation_options.rails.output").truthy = c3) (ge : σ.get "event.text" = v) :
    startOne true (base ++ rails) (.other "BotMessage" [("text", v)]) { ctx := σ, flows := [], next := none, upd := [], ctr := c } pbmCfg
    = .ok { ctx := σ.set "bot_message" v,
            flows := [{ uid := c, flowId := "process bot message", head := if c1 && (c2 || c3) then 7 else 12 }],
            next := some { elem := if c1 && (c2 || c3) then createStartOutRails else createSubaBot, uid := c, prio := 1000000 },
            upd := [("bot_message", v)], ctr := c + 1 } := by
  rw [startOne_start _ _ _ pbmCfg _ _ pbm_elems rfl (by simp [isMatch, WILDCARD]) pbm_flags.2.2.2.1 (by simp [pbm_flags])]
  cases c1 <;> cases c2 <;> cases c3 <;>
    simp [pbm_elems, pbm_flags, SLIDE_FUEL, slide, sstep, initPrev, pyIndex, find_pbm, SUB_FUEL, slideWithSubflows,
      eval, get_set, ge, hsk, h1, h2, h3, recordNextStep, isActionable, setAt, truthy_bool, set_nil, createStartOutRails, createSubaBot]

set_option maxRecDepth 8000 in
theorem T_bm (rails : Cfgs) (hsub : ∀ r ∈ rails, r.isSubflow = true) (σ u : Ctx) (c : Nat) (nx : Option NextStep) (v : V) (fl : List FS)
    (hfl : AllDone (base ++ rails) fl) (c1 c2 c3 : Bool)
    (hsk : (σ.get "skip_output_rails").truthy = false)
    (h1 : (σ.get "config.rails.output.flows").truthy = c1) (h2 : (σ.get "generation_options" == V.none) = c2)
    (h3 : (σ.get "generation_options.rails.output").truthy = c3) :
    computeNextState true (base ++ rails) { ctx := σ, flows := fl, next := nx, upd := u, ctr := c } (.other "BotMessage" [("text", v)])
    = .ok { ctx := (σ.withEvent (.other "BotMessage" [("text", v)])).set "bot_message" v,
            flows := [{ uid := c, flowId := "process bot message", head := if c1 && (c2 || c3) then 7 else 12 }],
            next := some { elem := if c1 && (c2 || c3) then createStartOutRails else createSubaBot, uid := c, prio := 1000000 },
            upd := [("bot_message", v)], ctr := c + 1 } := by
  have g0 := get_withEvent_plain σ (.other "BotMessage" [("text", v)]) "skip_output_rails" (by plain_tac)
  have g1 := get_withEvent_plain σ (.other "BotMessage" [("text", v)]) "config.rails.output.flows" (by plain_tac)
  have g2 := get_withEvent_plain σ (.other "BotMessage" [("text", v)]) "generation_options" (by plain_tac)
  have g3 := get_withEvent_plain σ (.other "BotMessage" [("text", v)]) "generation_options.rails.output" (by plain_tac)
  have ge : (σ.withEvent (.other "BotMessage" [("text", v)])).get "event.text" = v := by
    simp [Ctx.withEvent, Event.props, Ctx.get, List.lookup]
  simp only [computeNextState, advanceAll_done _ _ fl _ _ hfl, startNew_rails rails hsub, startNew_base_eq]
  simp only [startOne_pui_no _ _ _ (show isMatch el0pui (.other "BotMessage" [("text", v)]) = false from rfl),
    startOne_rdr_no _ _ _ (show isMatch el0rdr (.other "BotMessage" [("text", v)]) = false from rfl),
    startOne_gns_no _ _ _ (show isMatch el0gns (.other "BotMessage" [("text", v)]) = false from rfl),
    startOne_gbm_no _ _ _ (show isMatch el0gbm (.other "BotMessage" [("text", v)]) = false from rfl)]
  rw [S_pbm rails _ c v fl c1 c2 c3 (by rw [g0]; exact hsk) (by rw [g1]; exact h1) (by rw [g2]; exact h2) (by rw [g3]; exact h3) ge]
  cases c1 <;> cases c2 <;> cases c3 <;>
    simp [markInterrupted, extensionInterrupt, resumeLoop, resumePass, createStartOutRails, createSubaBot, find_pbm, pbm_flags]


set_option maxRecDepth 8000 in
theorem T_pbm7 (rails : Cfgs) (hsub : ∀ r ∈ rails, r.isSubflow = true) (σ u : Ctx) (c u0 : Nat) (nx : Option NextStep) :
    computeNextState true (base ++ rails) { ctx := σ, flows := [{ uid := u0, flowId := "process bot message", head := 7 }], next := nx, upd := u, ctr := c }
      (.actionFinished "create_event" true)
    = .ok { ctx := σ.withEvent (.actionFinished "create_event" true), flows := [{ uid := u0, flowId := "process bot message", head := 8 }],
            next := none, upd := [], ctr := c } := by
  cns_simp [startNew_quiet rails hsub _ quiet_ce]

theorem set3o (a b c : V) : (Ctx.set [("i", a)] "output_flows" b).set "triggered_output_rail" c =
    [("triggered_output_rail", c), ("output_flows", b), ("i", a)] := by
  rw [set_cons_ne _ _ _ _ _ (by decide), set_cons_ne _ _ _ _ _ (by decide)]
  simp only [List.filter, (by decide : ("i" != "triggered_output_rail") = true)]

set_option maxRecDepth 8000 in
/-- the `StartOutputRails` event: `process bot message` calls `run output rails`: the head state of the output loop -/
theorem T_startOutRails (rails : Cfgs) (hsub : ∀ r ∈ rails, r.isSubflow = true) (σ u : Ctx) (c u0 : Nat) (h0c : u0 < c) (nx : Option NextStep)
    (n0 : String) (ns : List String) (hcfg : σ.get "config.rails.output.flows" = .strs (n0 :: ns)) :
    computeNextState true (base ++ rails) { ctx := σ, flows := [{ uid := u0, flowId := "process bot message", head := 8 }], next := nx, upd := u, ctr := c }
      (.other "StartOutputRails" [])
    = .ok (headStateO ((((σ.withEvent (.other "StartOutputRails" [])).set "i" (.int 0)).set "output_flows" (.strs (n0 :: ns))).set "triggered_output_rail" (.str n0))
        [("triggered_output_rail", .str n0), ("output_flows", .strs (n0 :: ns)), ("i", .int 0)] (c + 1) u0 c) := by
  have hq : Quiet (.other "StartOutputRails" []) = true := rfl
  have g1 := get_withEvent_plain σ (.other "StartOutputRails" []) "config.rails.output.flows" (by plain_tac)
  have b1 : (u0 == c) = false := beq_false_of_ne (by omega)
  have b2 : (c == u0) = false := beq_false_of_ne (by omega)
  have hlt : (0 : Int) < (ns.length : Int) + 1 := by omega
  cns_simp [startNew_quiet rails hsub _ hq, g1, hcfg, headStateO, fsROR, fsPBMint, createStartOutRail, b1, b2, pyGet, hlt]
  exact set3o _ _ _

set_option maxRecDepth 8000 in
theorem T_exitO_a (rails : Cfgs) (hsub : ∀ r ∈ rails, r.isSubflow = true) (σ u : Ctx) (c u0 u1 : Nat) (nx : Option NextStep) (hd : Int) :
    computeNextState true (base ++ rails)
      { ctx := σ, flows := [{ uid := u1, flowId := "run output rails", head := hd, status := .completed }, { uid := u0, flowId := "process bot message", head := 10 }],
        next := nx, upd := u, ctr := c } (.actionFinished "create_event" true)
    = .ok { ctx := σ.withEvent (.actionFinished "create_event" true), flows := [{ uid := u0, flowId := "process bot message", head := 11 }],
            next := none, upd := [], ctr := c } := by
  cns_simp [startNew_quiet rails hsub _ quiet_ce]

set_option maxRecDepth 8000 in
theorem T_exitO_b (rails : Cfgs) (hsub : ∀ r ∈ rails, r.isSubflow = true) (σ u : Ctx) (c u0 : Nat) (nx : Option NextStep) :
    computeNextState true (base ++ rails) { ctx := σ, flows := [{ uid := u0, flowId := "process bot message", head := 11 }], next := nx, upd := u, ctr := c }
      (.other "OutputRailsFinished" [])
    = .ok { ctx := σ.withEvent (.other "OutputRailsFinished" []), flows := [{ uid := u0, flowId := "process bot message", head := 12 }],
            next := some { elem := createSubaBot, uid := u0, prio := 1000000 }, upd := [], ctr := c } := by
  have hq : Quiet (.other "OutputRailsFinished" []) = true := rfl
  cns_simp [startNew_quiet rails hsub _ hq, createSubaBot]

set_option maxRecDepth 8000 in
/-- `create event StartUtteranceBotAction(script=$bot_message)` finished: `process bot message` completes -/
theorem T_pbm12 (rails : Cfgs) (hsub : ∀ r ∈ rails, r.isSubflow = true) (σ u : Ctx) (c u0 : Nat) (nx : Option NextStep) :
    computeNextState true (base ++ rails) { ctx := σ, flows := [{ uid := u0, flowId := "process bot message", head := 12 }], next := nx, upd := u, ctr := c }
      (.actionFinished "create_event" true)
    = .ok { ctx := σ.withEvent (.actionFinished "create_event" true),
            flows := [{ uid := u0, flowId := "process bot message", head := -13, status := .completed }], next := none, upd := [], ctr := c } := by
  cns_simp [startNew_quiet rails hsub _ quiet_ce]


end NemoVerif.RailsInterp
