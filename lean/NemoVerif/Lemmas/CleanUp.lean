import NemoVerif.Models.CleanUp

namespace NemoVerif.CleanUp

/-- `g` is `f` with some of the uids in `rm` dropped from `child_flow_uids`; nothing else differs. -/
def Frame (rm : List String) (f g : Flow) : Prop :=
  g.uid = f.uid ∧ g.flowId = f.flowId ∧ g.parent = f.parent ∧ g.status = f.status ∧ g.updated = f.updated
  ∧ g.activated = f.activated ∧ g.actionUids = f.actionUids ∧ g.heads = f.heads
  ∧ g.children.Sublist f.children ∧ ∀ c ∈ f.children, c ∉ g.children → c ∈ rm

theorem Frame.refl (rm : List String) (f : Flow) : Frame rm f f :=
  ⟨rfl, rfl, rfl, rfl, rfl, rfl, rfl, rfl, List.Sublist.refl _, fun _ h hn => absurd h hn⟩

theorem Frame.trans {r1 r2 : List String} {f g h : Flow} (a : Frame r1 f g) (b : Frame r2 g h) :
    Frame (r1 ++ r2) f h := by
  obtain ⟨a1, a2, a3, a4, a5, a6, a7, a8, a9, a10⟩ := a
  obtain ⟨b1, b2, b3, b4, b5, b6, b7, b8, b9, b10⟩ := b
  refine ⟨b1.trans a1, b2.trans a2, b3.trans a3, b4.trans a4, b5.trans a5, b6.trans a6, b7.trans a7, b8.trans a8,
    b9.trans a9, ?_⟩
  intro c hc hn
  by_cases hg : c ∈ g.children
  · exact List.mem_append_right _ (b10 c hg hn)
  · exact List.mem_append_left _ (a10 c hc hg)

theorem dropChild_frame (p u : String) (g : Flow) : Frame [u] g (dropChild p u g) := by
  unfold dropChild
  split
  · refine ⟨rfl, rfl, rfl, rfl, rfl, rfl, rfl, rfl, List.erase_sublist, ?_⟩
    intro c hc hn
    by_cases e : c = u
    · simp [e]
    · exact absurd ((List.mem_erase_of_ne e).2 hc) hn
  · exact Frame.refl _ _

theorem dropChild_uid (p u : String) (g : Flow) : (dropChild p u g).uid = g.uid := by
  unfold dropChild; split <;> rfl

theorem removeOne_mem {α : Type} (s : St α) (u : String) (g : Flow) (h : g ∈ (removeOne s u).flows) :
    g.uid ≠ u ∧ ∃ f ∈ s.flows, Frame [u] f g := by
  unfold removeOne at h
  split at h
  · rename_i hnone
    refine ⟨?_, g, h, Frame.refl _ _⟩
    intro e
    have := List.find?_eq_none.1 hnone g h
    simp [e] at this
  · rename_i f hf
    simp only [List.mem_filter, bne_iff_ne, ne_eq] at h
    obtain ⟨hm, hne⟩ := h
    refine ⟨hne, ?_⟩
    split at hm
    · split at hm
      · obtain ⟨f0, hf0, rfl⟩ := List.mem_map.1 hm
        exact ⟨f0, hf0, dropChild_frame _ _ _⟩
      · exact ⟨g, hm, Frame.refl _ _⟩
    · exact ⟨g, hm, Frame.refl _ _⟩

theorem removeOne_uids {α : Type} (s : St α) (u : String) :
    (removeOne s u).flows.map (·.uid) = (s.flows.map (·.uid)).filter (· != u) := by
  unfold removeOne
  split
  · rename_i hnone
    symm
    apply List.filter_eq_self.2
    intro x hx
    obtain ⟨g, hg, rfl⟩ := List.mem_map.1 hx
    have := List.find?_eq_none.1 hnone g hg
    simpa using this
  · rename_i f hf
    have key : ∀ l : List Flow, (l.filter (·.uid != u)).map (·.uid) = (l.map (·.uid)).filter (· != u) := by
      intro l; induction l with
      | nil => rfl
      | cons a l ih => simp only [List.filter_cons, List.map_cons]; split <;> simp_all
    simp only
    rw [key]
    congr 1
    split
    · split
      · simp [List.map_map, Function.comp_def, dropChild_uid]
      · rfl
    · rfl

theorem removeOne_actions {α : Type} (s : St α) (u : String) : (removeOne s u).actions = s.actions := by
  unfold removeOne; split <;> rfl

theorem fold_mem {α : Type} : (rm : List String) → (s : St α) → (g : Flow) → g ∈ (rm.foldl removeOne s).flows →
    g.uid ∉ rm ∧ ∃ f ∈ s.flows, Frame rm f g
  | [], s, g, h => ⟨by simp, g, h, Frame.refl _ _⟩
  | u :: rm, s, g, h => by
    simp only [List.foldl_cons] at h
    obtain ⟨h1, f1, hf1, fr1⟩ := fold_mem rm (removeOne s u) g h
    obtain ⟨h2, f0, hf0, fr0⟩ := removeOne_mem s u f1 hf1
    refine ⟨?_, f0, hf0, by simpa using Frame.trans fr0 fr1⟩
    simp only [List.mem_cons, not_or]
    exact ⟨by rw [fr1.1]; exact h2, h1⟩

theorem fold_uids {α : Type} : (rm : List String) → (s : St α) →
    (rm.foldl removeOne s).flows.map (·.uid) = (s.flows.map (·.uid)).filter (fun x => !rm.contains x)
  | [], s => by
    simp only [List.foldl_nil, List.contains_nil, Bool.not_false]
    exact (List.filter_eq_self.2 (fun _ _ => rfl)).symm
  | u :: rm, s => by
    simp only [List.foldl_cons]
    rw [fold_uids rm (removeOne s u), removeOne_uids, List.filter_filter]
    congr 1
    funext x
    simp only [List.contains_cons, Bool.not_or, bne, Bool.and_comm]

theorem fold_actions {α : Type} : (rm : List String) → (s : St α) → (rm.foldl removeOne s).actions = s.actions
  | [], _ => rfl
  | u :: rm, s => by simp only [List.foldl_cons]; rw [fold_actions rm, removeOne_actions]

theorem eq_of_nodup_uids : (l : List Flow) → (l.map (·.uid)).Nodup → ∀ a ∈ l, ∀ b ∈ l, a.uid = b.uid → a = b
  | [], _, a, ha, _, _, _ => by cases ha
  | x :: l, hnd, a, ha, b, hb, e => by
    simp only [List.map_cons, List.nodup_cons, List.mem_map, not_exists, not_and] at hnd
    cases ha with
    | head =>
      cases hb with
      | head => rfl
      | tail _ hb' => exact absurd e.symm (hnd.1 b hb')
    | tail _ ha' =>
      cases hb with
      | head => exact absurd e (hnd.1 a ha')
      | tail _ hb' => exact eq_of_nodup_uids l hnd.2 a ha' b hb' e

theorem removable_clearScores (now age : Int) (f : Flow) : removable now age (clearScores f) = removable now age f := rfl

theorem lookupAll_ok {α : Type} (actions : List (String × α)) : (us : List String) → (r : List (String × α)) →
    lookupAll actions us = .ok r → r.map (·.1) = us ∧ ∀ a ∈ r, a ∈ actions
  | [], r, h => by simp [lookupAll] at h; subst h; simp
  | u :: us, r, h => by
    simp only [lookupAll, lookupAction, bind, Except.bind] at h
    split at h
    · simp at h
    · rename_i a ha
      split at ha
      · rename_i a' hfind
        simp at ha; subst ha
        split at h
        · simp at h
        · rename_i r' hr'
          simp [pure, Except.pure] at h; subst h
          obtain ⟨i1, i2⟩ := lookupAll_ok actions us r' hr'
          have hm := List.mem_of_find?_eq_some hfind
          have hk := List.find?_some hfind
          refine ⟨by simp [i1]; simpa using hk, ?_⟩
          intro b hb
          cases hb with
          | head => exact hm
          | tail _ hb' => exact i2 b hb'
      · simp at ha

theorem dropChild_flowId (p u : String) (g : Flow) : (dropChild p u g).flowId = g.flowId := by
  unfold dropChild; split <;> rfl

theorem filter_map_uid_comm' (l : List Flow) (u : String) :
    (l.filter (·.uid != u)).map (·.uid) = (l.map (·.uid)).filter (· != u) := by
  induction l with
  | nil => rfl
  | cons a l ih => simp only [List.filter_cons, List.map_cons]; split <;> simp_all

theorem nodup_removeOne {α : Type} (s : St α) (u : String) (h : (s.flows.map (·.uid)).Nodup) :
    ((removeOne s u).flows.map (·.uid)).Nodup := by
  rw [removeOne_uids]
  exact List.Nodup.sublist List.filter_sublist h

theorem idx_step_core {α : Type} (s : St α) (u : String) (f : Flow) (hfm : f ∈ s.flows) (hfu : f.uid = u)
    (hnd : (s.flows.map (·.uid)).Nodup) (h : IdxOk s) (fl' : List Flow)
    (hc : fl' = s.flows ∨ ∃ p, fl' = s.flows.map (dropChild p u)) :
    IdxOk ({ flows := fl'.filter (·.uid != u),
             idx := s.idx.map fun e => if e.1 == f.flowId then (e.1, e.2.erase u) else e,
             actions := s.actions } : St α) := by
  have key : ∀ (fl : List Flow) (fid : String),
      ((fl.filter (·.uid != u)).filter (fun g => g.flowId == fid)).map (·.uid)
        = ((fl.filter (fun g => g.flowId == fid)).map (·.uid)).filter (· != u) := by
    intro fl fid
    rw [← filter_map_uid_comm', List.filter_filter, List.filter_filter]
    congr 1
    apply List.filter_congr; intro g _; exact Bool.and_comm _ _
  have hmap : ∀ (p : String) (fid : String),
      (((s.flows.map (dropChild p u)).filter (·.uid != u)).filter (fun g => g.flowId == fid)).map (·.uid)
        = ((s.flows.filter (·.uid != u)).filter (fun g => g.flowId == fid)).map (·.uid) := by
    intro p fid
    induction s.flows with
    | nil => rfl
    | cons a l ih =>
      simp only [List.map_cons, List.filter_cons, dropChild_uid]
      split
      · simp only [List.filter_cons, dropChild_flowId]
        split <;> simp_all [dropChild_uid]
      · exact ih
  have hflows : ∀ fid : String,
      ((fl'.filter (·.uid != u)).filter (fun g => g.flowId == fid)).map (·.uid)
        = ((s.flows.filter (fun g => g.flowId == fid)).map (·.uid)).filter (· != u) := by
    intro fid
    rcases hc with rfl | ⟨p, rfl⟩
    · rw [key]
    · rw [hmap, key]
  intro e he
  simp only [List.mem_map] at he
  obtain ⟨e0, he0, rfl⟩ := he
  have h0 := h e0 he0
  have hnd' : ((s.flows.filter (fun g => g.flowId == e0.1)).map (·.uid)).Nodup :=
    List.Nodup.sublist (List.Sublist.map _ List.filter_sublist) hnd
  by_cases hc' : (e0.1 == f.flowId) = true
  · simp only [hc', if_true]
    rw [hflows, h0, List.Nodup.erase_eq_filter hnd']
  · have hc'' : (e0.1 == f.flowId) = false := by simpa using hc'
    simp only [hc'', Bool.false_eq_true, if_false]
    rw [hflows]
    have hself : ((s.flows.filter (fun g => g.flowId == e0.1)).map (·.uid)).filter (· != u)
        = (s.flows.filter (fun g => g.flowId == e0.1)).map (·.uid) := by
      apply List.filter_eq_self.2
      intro x hx
      obtain ⟨g, hg, rfl⟩ := List.mem_map.1 hx
      obtain ⟨hgm, hgf⟩ := List.mem_filter.1 hg
      simp only [bne_iff_ne, ne_eq]
      intro e
      have hgf' : g = f := eq_of_nodup_uids s.flows hnd g hgm f hfm (by rw [e, hfu])
      have hfid : e0.1 = g.flowId := (beq_iff_eq.1 hgf).symm
      rw [hgf'] at hfid
      exact hc' (beq_iff_eq.2 hfid)
    rw [hself]; exact h0

/-- one removal step keeps the index exact -/
theorem removeOne_idx {α : Type} (s : St α) (u : String) (hnd : (s.flows.map (·.uid)).Nodup) (h : IdxOk s) :
    IdxOk (removeOne s u) := by
  unfold removeOne
  split
  · exact h
  · rename_i f hf
    have hfm : f ∈ s.flows := List.mem_of_find?_eq_some hf
    have hfu : f.uid = u := by simpa using List.find?_some hf
    cases hp : f.parent with
    | none => exact idx_step_core s u f hfm hfu hnd h s.flows (Or.inl rfl)
    | some p =>
      by_cases hpe : p = ""
      · simpa [hpe] using idx_step_core s u f hfm hfu hnd h s.flows (Or.inl rfl)
      · simpa [hpe] using idx_step_core s u f hfm hfu hnd h (s.flows.map (dropChild p u)) (Or.inr ⟨p, rfl⟩)

theorem fold_idx {α : Type} : (rm : List String) → (s : St α) → (s.flows.map (·.uid)).Nodup → IdxOk s →
    IdxOk (rm.foldl removeOne s)
  | [], _, _, h => h
  | u :: rm, s, hnd, h => by
    simp only [List.foldl_cons]
    exact fold_idx rm (removeOne s u) (nodup_removeOne s u hnd) (removeOne_idx s u hnd h)

theorem sweep_idx {α : Type} (now age : Int) (s : St α) (hnd : (s.flows.map (·.uid)).Nodup) (h : IdxOk s) :
    IdxOk (sweep now age s) := by
  unfold sweep
  apply fold_idx
  · simpa [List.map_map, Function.comp_def, clearScores] using hnd
  · intro e he
    have := h e he
    simp only [List.filter_map, List.map_map, Function.comp_def]
    simpa [clearScores, Function.comp_def] using this


theorem dropChild_parent (p u : String) (g : Flow) : (dropChild p u g).parent = g.parent := by
  unfold dropChild; split <;> rfl

theorem dropChild_children_sub (p u : String) (g : Flow) : (dropChild p u g).children.Sublist g.children := by
  unfold dropChild; split
  · exact List.erase_sublist
  · exact List.Sublist.refl _

theorem removeOne_links {α : Type} (s : St α) (u : String) (hnd : (s.flows.map (·.uid)).Nodup) (h : LinksOk s) :
    LinksOk (removeOne s u) := by
  obtain ⟨hne, hl⟩ := h
  unfold removeOne
  split
  · exact ⟨hne, hl⟩
  · rename_i f hf
    have hfm : f ∈ s.flows := List.mem_of_find?_eq_some hf
    have hfu : f.uid = u := by simpa using List.find?_some hf
    -- the list after the optional child-drop: same uids / parents, children are sublists; and if `f.parent = some p`
    -- then `p`'s entry no longer lists `u`
    have core : ∀ fl' : List Flow,
        (∀ g' ∈ fl', ∃ g ∈ s.flows, g'.uid = g.uid ∧ g'.parent = g.parent ∧ g'.children.Sublist g.children
            ∧ (f.parent = some g.uid → u ∉ g'.children)) →
        (∀ g ∈ s.flows, ∃ g' ∈ fl', g'.uid = g.uid ∧ g'.parent = g.parent) →
        LinksOk ({ flows := fl'.filter (·.uid != u),
                   idx := s.idx.map fun e => if e.1 == f.flowId then (e.1, e.2.erase u) else e,
                   actions := s.actions } : St α) := by
      intro fl' hback hfwd
      refine ⟨?_, ?_⟩
      · intro g' hg'
        obtain ⟨g, hg, e1, _⟩ := hback g' (List.mem_filter.1 hg').1
        rw [e1]; exact hne g hg
      · intro g' hg'
        obtain ⟨hg'm, hg'u⟩ := List.mem_filter.1 hg'
        obtain ⟨g, hg, e1, e2, e3, e4⟩ := hback g' hg'm
        obtain ⟨hnd', hch⟩ := hl g hg
        refine ⟨List.Nodup.sublist e3 hnd', ?_⟩
        intro c hc
        have hcg : c ∈ g.children := e3.subset hc
        obtain ⟨k, hk, hku, hkp⟩ := hch c hcg
        have hcu : c ≠ u := by
          intro e
          subst e
          have : k = f := eq_of_nodup_uids s.flows hnd k hk f hfm (by rw [hku, hfu])
          subst this
          exact e4 hkp hc
        obtain ⟨k', hk', e5, e6⟩ := hfwd k hk
        refine ⟨k', List.mem_filter.2 ⟨hk', ?_⟩, by rw [e5, hku], by rw [e6, hkp, e1]⟩
        simp only [bne_iff_ne, ne_eq]
        rw [e5, hku]; exact hcu
    cases hp : f.parent with
    | none =>
      refine core s.flows ?_ ?_
      · intro g hg; exact ⟨g, hg, rfl, rfl, List.Sublist.refl _, by intro e; simp [hp] at e⟩
      · intro g hg; exact ⟨g, hg, rfl, rfl⟩
    | some p =>
      by_cases hpe : p = ""
      · have := core s.flows (by
            intro g hg
            refine ⟨g, hg, rfl, rfl, List.Sublist.refl _, ?_⟩
            intro e
            rw [hp] at e
            have : g.uid = "" := by rw [← hpe]; exact (Option.some.inj e).symm
            exact absurd this (hne g hg))
          (by intro g hg; exact ⟨g, hg, rfl, rfl⟩)
        simpa [hp, hpe] using this
      · have := core (s.flows.map (dropChild p u)) (by
            intro g' hg'
            obtain ⟨g, hg, rfl⟩ := List.mem_map.1 hg'
            refine ⟨g, hg, dropChild_uid _ _ _, dropChild_parent _ _ _, dropChild_children_sub _ _ _, ?_⟩
            intro e
            rw [hp] at e
            have hgp : g.uid = p := (Option.some.inj e).symm
            have hndc := (hl g hg).1
            unfold dropChild
            simp only [hgp, beq_self_eq_true, if_true]
            intro hmem
            have := (List.Nodup.mem_erase_iff hndc).1 hmem
            exact this.1 rfl)
          (by
            intro g hg
            exact ⟨dropChild p u g, List.mem_map.2 ⟨g, hg, rfl⟩, dropChild_uid _ _ _, dropChild_parent _ _ _⟩)
        simpa [hp, hpe] using this


theorem fold_links {α : Type} : (rm : List String) → (s : St α) → (s.flows.map (·.uid)).Nodup → LinksOk s →
    LinksOk (rm.foldl removeOne s)
  | [], _, _, h => h
  | u :: rm, s, hnd, h => by
    simp only [List.foldl_cons]
    exact fold_links rm (removeOne s u) (nodup_removeOne s u hnd) (removeOne_links s u hnd h)

theorem sweep_links {α : Type} (now age : Int) (s : St α) (hnd : (s.flows.map (·.uid)).Nodup) (h : LinksOk s) :
    LinksOk (sweep now age s) := by
  unfold sweep
  apply fold_links
  · simpa [List.map_map, Function.comp_def, clearScores] using hnd
  · obtain ⟨h1, h2⟩ := h
    refine ⟨?_, ?_⟩
    · intro f hf
      obtain ⟨f0, hf0, rfl⟩ := List.mem_map.1 hf
      exact h1 f0 hf0
    · intro p hp
      obtain ⟨p0, hp0, rfl⟩ := List.mem_map.1 hp
      obtain ⟨hn, hc⟩ := h2 p0 hp0
      refine ⟨hn, ?_⟩
      intro c hcm
      obtain ⟨k, hk, e1, e2⟩ := hc c hcm
      exact ⟨clearScores k, List.mem_map.2 ⟨k, hk, rfl⟩, e1, e2⟩

end NemoVerif.CleanUp
