import NemoVerif.Models.CleanUp

namespace NemoVerif.CleanUp

/-- `g` is `f` with some of the uids in `rm` dropped from `child_flow_uids` (and from its scope lists, see
    `sweep_scopes`); nothing else differs. -/
def Frame (rm : List String) (f g : Flow) : Prop :=
  g.uid = f.uid ∧ g.flowId = f.flowId ∧ g.parent = f.parent ∧ g.status = f.status ∧ g.updated = f.updated
  ∧ g.activated = f.activated ∧ g.actionUids = f.actionUids ∧ g.heads = f.heads
  ∧ g.children.Sublist f.children ∧ ∀ c ∈ f.children, c ∉ g.children → c ∈ rm

theorem Frame.refl (rm : List String) (f : Flow) : Frame rm f f :=
  ⟨rfl, rfl, rfl, rfl, rfl, rfl, rfl, rfl, List.Sublist.refl _, fun _ h hn => absurd h hn⟩

theorem Frame.trans {r1 r2 : List String} {f g h : Flow} (a : Frame r1 f g) (b : Frame r2 g h) :
    Frame (r1 ++ r2) f h := by
  obtain ⟨a1, a2, a3, a4, a5, a6, a7, a8, a9, a10⟩ := a
  obtain ⟨b1, b2, b3, b4, b5, b6, b7, b8, b9, b10⟩ := b
  refine ⟨b1.trans a1, b2.trans a2, b3.trans a3, b4.trans a4, b5.trans a5, b6.trans a6, b7.trans a7, b8.trans a8,
    b9.trans a9, ?_⟩
  intro c hc hn
  by_cases hg : c ∈ g.children
  · exact List.mem_append_right _ (b10 c hg hn)
  · exact List.mem_append_left _ (a10 c hc hg)

theorem adjust_uid (po : Option String) (u : String) (g : Flow) : (adjust po u g).uid = g.uid := rfl
theorem adjust_flowId (po : Option String) (u : String) (g : Flow) : (adjust po u g).flowId = g.flowId := rfl
theorem adjust_parent (po : Option String) (u : String) (g : Flow) : (adjust po u g).parent = g.parent := rfl
theorem adjust_activated (po : Option String) (u : String) (g : Flow) : (adjust po u g).activated = g.activated := rfl

theorem adjust_children_sub (po : Option String) (u : String) (g : Flow) :
    (adjust po u g).children.Sublist g.children := by
  simp only [adjust]; split
  · exact List.filter_sublist
  · exact List.Sublist.refl _

theorem adjust_frame (po : Option String) (u : String) (g : Flow) : Frame [u] g (adjust po u g) := by
  refine ⟨rfl, rfl, rfl, rfl, rfl, rfl, rfl, rfl, adjust_children_sub po u g, ?_⟩
  intro c hc hn
  simp only [adjust] at hn
  split at hn
  · by_cases e : c = u
    · simp [e]
    · exact absurd (List.mem_filter.2 ⟨hc, by simpa using e⟩) hn
  · exact absurd hc hn

theorem removeOne_mem {α : Type} (s : St α) (u : String) (g : Flow) (h : g ∈ (removeOne s u).flows) :
    g.uid ≠ u ∧ ∃ f ∈ s.flows, Frame [u] f g := by
  unfold removeOne at h
  split at h
  · rename_i hnone
    refine ⟨?_, g, h, Frame.refl _ _⟩
    intro e
    have := List.find?_eq_none.1 hnone g h
    simp [e] at this
  · rename_i f hf
    simp only [List.mem_filter, bne_iff_ne, ne_eq] at h
    obtain ⟨hm, hne⟩ := h
    obtain ⟨f0, hf0, rfl⟩ := List.mem_map.1 hm
    exact ⟨hne, f0, hf0, adjust_frame _ _ _⟩

theorem filter_map_uid_comm' (l : List Flow) (u : String) :
    (l.filter (·.uid != u)).map (·.uid) = (l.map (·.uid)).filter (· != u) := by
  induction l with
  | nil => rfl
  | cons a l ih => simp only [List.filter_cons, List.map_cons]; split <;> simp_all

theorem removeOne_uids {α : Type} (s : St α) (u : String) :
    (removeOne s u).flows.map (·.uid) = (s.flows.map (·.uid)).filter (· != u) := by
  unfold removeOne
  split
  · rename_i hnone
    symm
    apply List.filter_eq_self.2
    intro x hx
    obtain ⟨g, hg, rfl⟩ := List.mem_map.1 hx
    have := List.find?_eq_none.1 hnone g hg
    simpa using this
  · simp only [filter_map_uid_comm', List.map_map, Function.comp_def, adjust_uid]

theorem removeOne_actions {α : Type} (s : St α) (u : String) : (removeOne s u).actions = s.actions := by
  unfold removeOne; split <;> rfl

theorem fold_mem {α : Type} : (rm : List String) → (s : St α) → (g : Flow) → g ∈ (rm.foldl removeOne s).flows →
    g.uid ∉ rm ∧ ∃ f ∈ s.flows, Frame rm f g
  | [], s, g, h => ⟨by simp, g, h, Frame.refl _ _⟩
  | u :: rm, s, g, h => by
    simp only [List.foldl_cons] at h
    obtain ⟨h1, f1, hf1, fr1⟩ := fold_mem rm (removeOne s u) g h
    obtain ⟨h2, f0, hf0, fr0⟩ := removeOne_mem s u f1 hf1
    refine ⟨?_, f0, hf0, by simpa using Frame.trans fr0 fr1⟩
    simp only [List.mem_cons, not_or]
    exact ⟨by rw [fr1.1]; exact h2, h1⟩

theorem fold_uids {α : Type} : (rm : List String) → (s : St α) →
    (rm.foldl removeOne s).flows.map (·.uid) = (s.flows.map (·.uid)).filter (fun x => !rm.contains x)
  | [], s => by
    simp only [List.foldl_nil, List.contains_nil, Bool.not_false]
    exact (List.filter_eq_self.2 (fun _ _ => rfl)).symm
  | u :: rm, s => by
    simp only [List.foldl_cons]
    rw [fold_uids rm (removeOne s u), removeOne_uids, List.filter_filter]
    congr 1
    funext x
    simp only [List.contains_cons, Bool.not_or, bne, Bool.and_comm]

theorem fold_actions {α : Type} : (rm : List String) → (s : St α) → (rm.foldl removeOne s).actions = s.actions
  | [], _ => rfl
  | u :: rm, s => by simp only [List.foldl_cons]; rw [fold_actions rm, removeOne_actions]

theorem eq_of_nodup_uids : (l : List Flow) → (l.map (·.uid)).Nodup → ∀ a ∈ l, ∀ b ∈ l, a.uid = b.uid → a = b
  | [], _, a, ha, _, _, _ => by cases ha
  | x :: l, hnd, a, ha, b, hb, e => by
    simp only [List.map_cons, List.nodup_cons, List.mem_map, not_exists, not_and] at hnd
    cases ha with
    | head =>
      cases hb with
      | head => rfl
      | tail _ hb' => exact absurd e.symm (hnd.1 b hb')
    | tail _ ha' =>
      cases hb with
      | head => exact absurd e (hnd.1 a ha')
      | tail _ hb' => exact eq_of_nodup_uids l hnd.2 a ha' b hb' e

theorem removable_clearScores (now age : Int) (nd : List String) (f : Flow) :
    removable now age nd (clearScores f) = removable now age nd f := rfl

theorem neededParents_clearScores (fl : List Flow) : neededParents (fl.map clearScores) = neededParents fl := by
  induction fl with
  | nil => rfl
  | cons a l ih =>
    simp only [neededParents, List.map_cons, List.filter_cons] at ih ⊢
    have : (clearScores a).activated = a.activated := rfl
    rw [this]
    split
    · simp only [List.filterMap_cons]
      have : (clearScores a).parent = a.parent := rfl
      rw [this, ih]
    · exact ih

theorem lookupAll_ok {α : Type} (actions : List (String × α)) : (us : List String) → (r : List (String × α)) →
    lookupAll actions us = .ok r → r.map (·.1) = us ∧ ∀ a ∈ r, a ∈ actions
  | [], r, h => by simp [lookupAll] at h; subst h; simp
  | u :: us, r, h => by
    simp only [lookupAll, lookupAction, bind, Except.bind] at h
    split at h
    · simp at h
    · rename_i a ha
      split at ha
      · rename_i a' hfind
        simp at ha; subst ha
        split at h
        · simp at h
        · rename_i r' hr'
          simp [pure, Except.pure] at h; subst h
          obtain ⟨i1, i2⟩ := lookupAll_ok actions us r' hr'
          have hm := List.mem_of_find?_eq_some hfind
          have hk := List.find?_some hfind
          refine ⟨by simp [i1]; simpa using hk, ?_⟩
          intro b hb
          cases hb with
          | head => exact hm
          | tail _ hb' => exact i2 b hb'
      · simp at ha

theorem nodup_removeOne {α : Type} (s : St α) (u : String) (h : (s.flows.map (·.uid)).Nodup) :
    ((removeOne s u).flows.map (·.uid)).Nodup := by
  rw [removeOne_uids]
  exact List.Nodup.sublist List.filter_sublist h

/-! ### the helper index stays exact -/

/-- one removal step keeps the index exact -/
theorem removeOne_idx {α : Type} (s : St α) (u : String) (hnd : (s.flows.map (·.uid)).Nodup) (h : IdxOk s) :
    IdxOk (removeOne s u) := by
  unfold removeOne
  split
  · exact h
  · rename_i f hf
    have hfm : f ∈ s.flows := List.mem_of_find?_eq_some hf
    have hfu : f.uid = u := by simpa using List.find?_some hf
    have hflows : ∀ fid : String,
        (((s.flows.map (adjust (truthyParent f) u)).filter (·.uid != u)).filter (fun g => g.flowId == fid)).map (·.uid)
          = ((s.flows.filter (fun g => g.flowId == fid)).map (·.uid)).filter (· != u) := by
      intro fid
      induction s.flows with
      | nil => rfl
      | cons a l ih =>
        simp only [List.map_cons, List.filter_cons, adjust_uid, adjust_flowId]
        by_cases h1 : (a.uid != u) = true <;> by_cases h2 : (a.flowId == fid) = true <;>
          simp_all [List.filter_cons, adjust_uid, adjust_flowId]
    intro e he
    simp only [List.mem_map] at he
    obtain ⟨e0, he0, rfl⟩ := he
    have h0 := h e0 he0
    have hnd' : ((s.flows.filter (fun g => g.flowId == e0.1)).map (·.uid)).Nodup :=
      List.Nodup.sublist (List.Sublist.map _ List.filter_sublist) hnd
    by_cases hc' : (e0.1 == f.flowId) = true
    · simp only [hc', if_true]
      rw [hflows, h0, List.Nodup.erase_eq_filter hnd']
    · have hc'' : (e0.1 == f.flowId) = false := by simpa using hc'
      simp only [hc'', Bool.false_eq_true, if_false]
      rw [hflows]
      have hself : ((s.flows.filter (fun g => g.flowId == e0.1)).map (·.uid)).filter (· != u)
          = (s.flows.filter (fun g => g.flowId == e0.1)).map (·.uid) := by
        apply List.filter_eq_self.2
        intro x hx
        obtain ⟨g, hg, rfl⟩ := List.mem_map.1 hx
        obtain ⟨hgm, hgf⟩ := List.mem_filter.1 hg
        simp only [bne_iff_ne, ne_eq]
        intro e
        have hgf' : g = f := eq_of_nodup_uids s.flows hnd g hgm f hfm (by rw [e, hfu])
        have hfid : e0.1 = g.flowId := (beq_iff_eq.1 hgf).symm
        rw [hgf'] at hfid
        exact hc' (beq_iff_eq.2 hfid)
      rw [hself]; exact h0

theorem fold_idx {α : Type} : (rm : List String) → (s : St α) → (s.flows.map (·.uid)).Nodup → IdxOk s →
    IdxOk (rm.foldl removeOne s)
  | [], _, _, h => h
  | u :: rm, s, hnd, h => by
    simp only [List.foldl_cons]
    exact fold_idx rm (removeOne s u) (nodup_removeOne s u hnd) (removeOne_idx s u hnd h)

theorem sweep_idx {α : Type} (now age : Int) (s : St α) (hnd : (s.flows.map (·.uid)).Nodup) (h : IdxOk s) :
    IdxOk (sweep now age s) := by
  unfold sweep
  apply fold_idx
  · simpa [List.map_map, Function.comp_def, clearScores] using hnd
  · intro e he
    have := h e he
    simp only [List.filter_map, List.map_map, Function.comp_def]
    simpa [clearScores, Function.comp_def] using this

/-- the keys of the index never change (`flow_id in state.flow_id_states`) -/
theorem removeOne_idx_keys {α : Type} (s : St α) (u : String) : (removeOne s u).idx.map (·.1) = s.idx.map (·.1) := by
  unfold removeOne
  split
  · rfl
  · simp only [List.map_map, Function.comp_def]
    apply List.map_congr_left
    intro e _
    split <;> rfl

theorem fold_idx_keys {α : Type} : (rm : List String) → (s : St α) → (rm.foldl removeOne s).idx.map (·.1) = s.idx.map (·.1)
  | [], _ => rfl
  | u :: rm, s => by simp only [List.foldl_cons]; rw [fold_idx_keys rm, removeOne_idx_keys]

/-! ### links that the interpreter follows without an existence guard -/

theorem removeOne_links {α : Type} (s : St α) (u : String) (hnd : (s.flows.map (·.uid)).Nodup) (h : LinksOk s) :
    LinksOk (removeOne s u) := by
  obtain ⟨hne, hl⟩ := h
  unfold removeOne
  split
  · exact ⟨hne, hl⟩
  · rename_i f hf
    have hfm : f ∈ s.flows := List.mem_of_find?_eq_some hf
    have hfu : f.uid = u := by simpa using List.find?_some hf
    refine ⟨?_, ?_⟩
    · intro g' hg'
      obtain ⟨g, hg, rfl⟩ := List.mem_map.1 (List.mem_filter.1 hg').1
      exact hne g hg
    · intro g' hg' c hc
      obtain ⟨hg'm, _⟩ := List.mem_filter.1 hg'
      obtain ⟨g, hg, rfl⟩ := List.mem_map.1 hg'm
      have hcg : c ∈ g.children := (adjust_children_sub _ _ _).subset hc
      obtain ⟨k, hk, hku, hkp⟩ := hl g hg c hcg
      have hcu : c ≠ u := by
        intro e
        subst e
        have : k = f := eq_of_nodup_uids s.flows hnd k hk f hfm (by rw [hku, hfu])
        subst this
        have htp : truthyParent k = some g.uid := by
          simp [truthyParent, hkp, hne g hg]
        simp only [adjust, htp, if_true, List.mem_filter, bne_self_eq_false, Bool.false_eq_true, and_false] at hc
      refine ⟨adjust (truthyParent f) u k, List.mem_filter.2 ⟨List.mem_map.2 ⟨k, hk, rfl⟩, ?_⟩, hku, hkp⟩
      simp only [adjust_uid, bne_iff_ne, ne_eq, hku]; exact hcu

theorem fold_links {α : Type} : (rm : List String) → (s : St α) → (s.flows.map (·.uid)).Nodup → LinksOk s →
    LinksOk (rm.foldl removeOne s)
  | [], _, _, h => h
  | u :: rm, s, hnd, h => by
    simp only [List.foldl_cons]
    exact fold_links rm (removeOne s u) (nodup_removeOne s u hnd) (removeOne_links s u hnd h)

theorem sweep_links {α : Type} (now age : Int) (s : St α) (hnd : (s.flows.map (·.uid)).Nodup) (h : LinksOk s) :
    LinksOk (sweep now age s) := by
  unfold sweep
  apply fold_links
  · simpa [List.map_map, Function.comp_def, clearScores] using hnd
  · obtain ⟨h1, h2⟩ := h
    refine ⟨?_, ?_⟩
    · intro f hf
      obtain ⟨f0, hf0, rfl⟩ := List.mem_map.1 hf
      exact h1 f0 hf0
    · intro p hp c hcm
      obtain ⟨p0, hp0, rfl⟩ := List.mem_map.1 hp
      obtain ⟨k, hk, e1, e2⟩ := h2 p0 hp0 c hcm
      exact ⟨clearScores k, List.mem_map.2 ⟨k, hk, rfl⟩, e1, e2⟩

theorem removeOne_scopes {α : Type} (s : St α) (u : String) (h : ScopesOk s) : ScopesOk (removeOne s u) := by
  unfold removeOne
  split
  · exact h
  · rename_i f hf
    intro g' hg' l' hl' c hc
    obtain ⟨g, hg, rfl⟩ := List.mem_map.1 (List.mem_filter.1 hg').1
    simp only [adjust, List.mem_map] at hl'
    obtain ⟨l, hl, rfl⟩ := hl'
    obtain ⟨hcl, hcu⟩ := List.mem_filter.1 hc
    obtain ⟨k, hk, hku⟩ := h g hg l hl c hcl
    refine ⟨adjust (truthyParent f) u k, List.mem_filter.2 ⟨List.mem_map.2 ⟨k, hk, rfl⟩, ?_⟩, hku⟩
    simpa [adjust_uid, hku] using hcu

theorem fold_scopes {α : Type} : (rm : List String) → (s : St α) → ScopesOk s → ScopesOk (rm.foldl removeOne s)
  | [], _, h => h
  | u :: rm, s, h => by
    simp only [List.foldl_cons]
    exact fold_scopes rm (removeOne s u) (removeOne_scopes s u h)

theorem sweep_scopes {α : Type} (now age : Int) (s : St α) (h : ScopesOk s) : ScopesOk (sweep now age s) := by
  unfold sweep
  apply fold_scopes
  intro g hg l hl c hc
  obtain ⟨g0, hg0, rfl⟩ := List.mem_map.1 hg
  obtain ⟨k, hk, e⟩ := h g0 hg0 l hl c hc
  exact ⟨clearScores k, List.mem_map.2 ⟨k, hk, rfl⟩, e⟩

theorem mem_neededParents {fl : List Flow} {g : Flow} {p : String} (hg : g ∈ fl) (ha : g.activated > 0)
    (hp : g.parent = some p) : p ∈ neededParents fl := by
  simp only [neededParents, List.mem_filterMap, List.mem_filter, decide_eq_true_eq]
  exact ⟨g, ⟨hg, ha⟩, hp⟩

/-- the parent of every activated instance survives the sweep (repair fixes/C11-cleanup-dangling-parent.diff) -/
theorem sweep_activated_parents {α : Type} (now age : Int) (s : St α) (h : ActivatedParentsOk s) :
    ActivatedParentsOk (sweep now age s) := by
  intro g hg ha p hp
  unfold sweep at hg ⊢
  obtain ⟨_, f1, hf1, fr⟩ := fold_mem _ _ g hg
  obtain ⟨f, hf, rfl⟩ := List.mem_map.1 hf1
  have ha' : f.activated > 0 := by
    have : g.activated = f.activated := fr.2.2.2.2.2.1
    omega
  have hp' : f.parent = some p := by
    have : g.parent = f.parent := fr.2.2.1
    rw [← this]; exact hp
  obtain ⟨k, hk, hku⟩ := h f hf ha' p hp'
  -- `p` is needed, hence not in the removal list, hence still among the uids
  have hmem : p ∈ ((toRemove now age (s.flows.map clearScores)).foldl removeOne
      ({ s with flows := s.flows.map clearScores } : St α)).flows.map (·.uid) := by
    rw [fold_uids]
    simp only [List.mem_filter, List.mem_map, Bool.not_eq_true', List.map_map, Function.comp_def]
    refine ⟨⟨k, hk, by simpa [clearScores] using hku⟩, ?_⟩
    rw [Bool.eq_false_iff]
    intro hc
    simp only [toRemove, List.contains_eq_mem, List.mem_map, List.mem_filter, decide_eq_true_eq] at hc
    obtain ⟨r, ⟨_, hrr⟩, hru⟩ := hc
    have hn : p ∈ neededParents (s.flows.map clearScores) := by
      rw [neededParents_clearScores]; exact mem_neededParents hf ha' hp'
    simp only [removable, Bool.and_eq_true, Bool.not_eq_true'] at hrr
    have : (neededParents (s.flows.map clearScores)).contains r.uid = false := hrr.2
    rw [hru] at this
    simp [hn] at this
  obtain ⟨k', hk', e⟩ := List.mem_map.1 hmem
  exact ⟨k', hk', e⟩

end NemoVerif.CleanUp
