/-
  Lemmas about the `LlmText` model (C17).  Property theorems live in Theorems/C17.lean.
-/
import NemoVerif.Models.LlmText

namespace NemoVerif.LlmText
open NemoVerif.Py NemoVerif.Py.Str

/-! ### prefixes and stripped strings -/

theorem startsWith_append (s pre : Str) (h : startsWith s pre = true) : ∃ t, s = pre ++ t := by
  unfold startsWith at h
  rw [List.isPrefixOf_iff_prefix] at h
  obtain ⟨t, ht⟩ := h
  exact ⟨t, ht.symm⟩

/-- A stripped string that starts with a prefix ending in whitespace continues after the prefix. -/
theorem drop_prefix_ne_nil (x pre : Str) (c : Char) (hc : pre.getLast? = some c) (hws : isWs c = true)
    (hs : startsWith (strip x) pre = true) : (strip x).drop pre.length ≠ [] := by
  obtain ⟨t, ht⟩ := startsWith_append _ _ hs
  rw [ht]
  simp only [List.drop_left]
  intro htn
  subst htn
  simp only [List.append_nil] at ht
  have hl : (strip x).getLast? = some c := by rw [ht]; exact hc
  have := strip_last_not_ws x c hl
  simp_all

/-! ### get_first_nonempty_line -/

theorem first_line_some (s l : Str) (h : getFirstNonemptyLine s = some l) :
    l ≠ [] ∧ ∃ pre x post, splitOn '\n' s = pre ++ x :: post ∧ (∀ p ∈ pre, strip p = []) ∧ l = strip x := by
  unfold getFirstNonemptyLine at h
  split at h
  · simp at h
  · rw [List.find?_eq_some_iff_append] at h
    obtain ⟨hl, as, bs, heq, has⟩ := h
    have hl' : l ≠ [] := by
      intro hn; subst hn; simp at hl
    refine ⟨hl', ?_⟩
    rw [List.map_eq_append_iff] at heq
    obtain ⟨pre, rest, hsplit, hpre, hrest⟩ := heq
    rw [List.map_eq_cons_iff] at hrest
    obtain ⟨x, post, hrest', hx, _⟩ := hrest
    refine ⟨pre, x, post, ?_, ?_, hx.symm⟩
    · rw [hsplit, hrest']
    · intro p hp
      have : strip p ∈ as := by rw [← hpre]; exact List.mem_map_of_mem hp
      have := has _ this
      simpa using this

theorem first_line_none (s : Str) (h : getFirstNonemptyLine s = none) :
    ∀ x ∈ splitOn '\n' s, strip x = [] := by
  unfold getFirstNonemptyLine at h
  split at h
  · rename_i he
    have : s = [] := by simpa using he
    subst this
    intro x hx
    simp [splitOn] at hx
    subst hx
    simp [strip, stripBy, rstripBy, lstripBy]
  · rw [List.find?_eq_none] at h
    intro x hx
    have := h (strip x) (List.mem_map_of_mem hx)
    simpa using this

theorem first_line_stripped (s l : Str) (h : getFirstNonemptyLine s = some l) : ∃ x, l = strip x := by
  obtain ⟨_, _, x, _, _, _, hx⟩ := first_line_some s l h
  exact ⟨x, hx⟩

/-! ### filterE / get_top_k_nonempty_lines -/

theorem keepLine_ok (l : Str) : ∃ b, keepLine l = .ok b ∧ (b = true → l ≠ []) := by
  unfold keepLine
  split
  · rename_i h
    cases l with
    | nil => simp at h
    | cons c t => simp [idx0]
  · exact ⟨false, rfl, by simp⟩

theorem filterE_ok (ls : List Str) :
    ∃ r, filterE keepLine ls = .ok r ∧ ∀ x ∈ r, x ∈ ls ∧ x ≠ [] := by
  induction ls with
  | nil => exact ⟨[], rfl, by simp⟩
  | cons a t ih =>
    obtain ⟨r, hr, hmem⟩ := ih
    obtain ⟨b, hb, hbne⟩ := keepLine_ok a
    simp only [filterE, hb, hr]
    cases b with
    | true =>
      refine ⟨a :: r, rfl, ?_⟩
      intro x hx
      simp at hx
      rcases hx with rfl | hx
      · exact ⟨by simp, hbne rfl⟩
      · exact ⟨by simp [(hmem x hx).1], (hmem x hx).2⟩
    | false =>
      refine ⟨r, rfl, ?_⟩
      intro x hx
      exact ⟨by simp [(hmem x hx).1], (hmem x hx).2⟩

theorem topK_ok (s : Str) (k : Nat) :
    ∃ r, getTopKNonemptyLines s k = .ok r ∧ (r = none ↔ s = []) ∧
      ∀ ls, r = some ls → ls.length ≤ k ∧ ∀ l ∈ ls, l ≠ [] ∧ ∃ x, l = strip x := by
  unfold getTopKNonemptyLines
  split
  · rename_i he
    have : s = [] := by simpa using he
    exact ⟨none, rfl, by simp [this], by simp⟩
  · rename_i hne
    obtain ⟨r, hr, hmem⟩ := filterE_ok ((splitOn '\n' s).map strip)
    rw [hr]
    refine ⟨some (r.take k), rfl, ?_, ?_⟩
    · constructor
      · intro h; simp at h
      · intro h; subst h; simp at hne
    · intro ls hls
      simp at hls
      subst hls
      refine ⟨List.length_take_le _ _, ?_⟩
      intro l hl
      have hl' : l ∈ r := List.mem_of_mem_take hl
      obtain ⟨hin, hne'⟩ := hmem l hl'
      refine ⟨hne', ?_⟩
      rw [List.mem_map] at hin
      obtain ⟨x, _, hx⟩ := hin
      exact ⟨x, hx.symm⟩

/-! ### strip_quotes / get_multiline_response -/

theorem stripQuotes_ok (s : Str) : ∃ r, stripQuotes s = .ok r ∧ r.length ≤ s.length := by
  unfold stripQuotes
  split
  · exact ⟨s, rfl, Nat.le_refl _⟩
  · rename_i hne
    have hs : s ≠ [] := by
      intro h; subst h; simp at hne
    obtain ⟨c0, h0⟩ := idx0_ok_of_ne_nil s hs
    obtain ⟨cl, hl⟩ := idxLast_ok_of_ne_nil s hs
    rw [h0]
    simp only
    split
    · rw [hl]
      simp only
      split
      · refine ⟨slice1m1 s, rfl, ?_⟩
        simp [slice1m1]; omega
      · refine ⟨s.drop 1, rfl, ?_⟩
        simp
    · exact ⟨s, rfl, Nat.le_refl _⟩

theorem multiline_ok (s : Str) : ∃ r, getMultilineResponse s = .ok r := by
  unfold getMultilineResponse
  by_cases hc : contains nlUser s = true
  · obtain ⟨x, hx⟩ := first_splitStr_ok nlUser s
    simp [hc, hx]
  · simp [hc]

/-! ### clean / finish -/

theorem replaceAux_ne_nil (old new : Str) (hnew : new ≠ []) (s : Str) (hs : s ≠ []) :
    replaceAux old new 0 s ≠ [] := by
  cases s with
  | nil => exact absurd rfl hs
  | cons c cs =>
    simp only [replaceAux]
    split
    · intro h
      have := List.append_eq_nil_iff.1 h
      exact hnew this.1
    · simp

theorem cleanUtterance_ne_nil (u : Str) (h : u ≠ []) : cleanUtterance u ≠ [] := by
  unfold cleanUtterance
  split
  · exact replaceAux_ne_nil _ _ (by simp) u h
  · exact h

theorem finishBotMessage_ne_nil (u : Str) : finishBotMessage u ≠ [] := by
  unfold finishBotMessage
  split
  · rename_i h
    apply cleanUtterance_ne_nil
    intro hn; subst hn; simp at h
  · simp [notSure, lit]

/-! ### post-processing of the three dialog steps -/

theorem postUserIntent_ne_nil (p : Parser) (out : Str) : postUserIntent p out ≠ [] := by
  unfold postUserIntent
  cases hf : getFirstNonemptyLine (p.apply out) with
  | none =>
    simp only
    split
    · rename_i h
      simp [unknownMessage, lit, startsWith] at h
    · simp [unknownMessage, lit]
  | some l =>
    simp only
    obtain ⟨hne, _, x, _, _, _, hx⟩ := first_line_some _ l hf
    split
    · rename_i h
      simp only [Bool.and_eq_true] at h
      subst hx
      have := drop_prefix_ne_nil x (lit "user ") ' ' (by simp [lit]) (by decide) h.2
      simpa [lit] using this
    · exact hne

theorem postNextStep_ok (p : Parser) (out : Str) : ∃ i, postNextStep p out = .ok i := by
  unfold postNextStep
  cases hf : getFirstNonemptyLine (p.apply out) with
  | none => exact ⟨_, rfl⟩
  | some r =>
    simp only
    by_cases hb : (!r.isEmpty && startsWith r (lit "bot ")) = true
    · rw [if_pos hb]
      obtain ⟨a, ha⟩ := first_splitOn_ok '"' (r.drop 4)
      by_cases hq : contains ['"'] (r.drop 4) = true
      · rw [if_pos hq, ha]
        simp only [Except.map]
        obtain ⟨b, hb'⟩ := first_splitOn_ok ',' (strip a)
        by_cases hc : contains [','] (strip a) = true
        · rw [if_pos hc, hb']; exact ⟨_, rfl⟩
        · rw [if_neg hc]; exact ⟨_, rfl⟩
      · rw [if_neg hq]
        simp only
        obtain ⟨b, hb'⟩ := first_splitOn_ok ',' (r.drop 4)
        by_cases hc : contains [','] (r.drop 4) = true
        · rw [if_pos hc, hb']; exact ⟨_, rfl⟩
        · rw [if_neg hc]; exact ⟨_, rfl⟩
    · rw [if_neg hb]; exact ⟨_, rfl⟩

theorem postBotMessageRaw_ok (p : Parser) (out : Str) : ∃ t, postBotMessageRaw p out = .ok t := by
  unfold postBotMessageRaw
  obtain ⟨r, hr⟩ := multiline_ok (p.apply out)
  rw [hr]
  obtain ⟨q, hq, _⟩ := stripQuotes_ok r
  exact ⟨q, hq⟩

theorem postBotMessage_ok (p : Parser) (out : Str) : ∃ t, postBotMessage p out = .ok t ∧ t ≠ [] := by
  obtain ⟨t, ht⟩ := postBotMessageRaw_ok p out
  refine ⟨finishBotMessage t, ?_, finishBotMessage_ne_nil t⟩
  simp [postBotMessage, ht, Except.map]

theorem postValue_ok (p : Parser) (out : Str) : ∃ v, postValue p out = .ok v := by
  unfold postValue
  obtain ⟨x, hx⟩ := first_splitOn_ok '\n' (strip (p.apply out))
  rw [hx]
  exact ⟨_, rfl⟩

/-! ### generate_bot_message -/

theorem lookup_mem {β} (k : Str) (l : List (Str × β)) (v : β) (h : lookup k l = some v) : (k, v) ∈ l := by
  induction l with
  | nil => simp [lookup] at h
  | cons a t ih =>
    obtain ⟨k', v'⟩ := a
    simp only [lookup] at h
    split at h
    · rename_i hk
      have hk' : k' = k := by simpa using hk
      simp at h
      subst h; subst hk'
      simp
    · simp [ih h]

theorem generateBotMessage_rendered (render : Str → Str) (bms : List (Str × List Str)) (ctx : List (Str × CtxVal))
    (bi : Str) (pick : Nat) (t : Except PyErr Str) (o : BotMsgOut)
    (h : generateBotMessage render bms ctx bi pick t = .ok o) :
    ∀ r ∈ o.rendered, ∃ msgs, (bi, msgs) ∈ bms ∧ r ∈ msgs := by
  unfold generateBotMessage at h
  split at h
  · rename_i msgs hl
    split at h
    · cases h
    · rename_i m hm
      cases h
      intro r hr
      simp at hr
      subst hr
      exact ⟨msgs, lookup_mem _ _ _ hl, List.mem_of_getElem? hm⟩
  · split at h
    · cases h
    · split at h
      · cases h; simp
      · cases h
      · cases h; simp
      · split at h
        · cases h
        · cases h; simp

theorem generateBotMessage_render_irrelevant (r1 r2 : Str → Str) (bms : List (Str × List Str)) (ctx : List (Str × CtxVal))
    (bi : Str) (pick : Nat) (t : Except PyErr Str) (h : lookup bi bms = none) :
    generateBotMessage r1 bms ctx bi pick t = generateBotMessage r2 bms ctx bi pick t := by
  unfold generateBotMessage
  rw [h]

theorem generateBotMessage_text_ne_nil (render : Str → Str) (bms : List (Str × List Str)) (ctx : List (Str × CtxVal))
    (bi : Str) (pick : Nat) (t : Except PyErr Str) (o : BotMsgOut)
    (h : generateBotMessage render bms ctx bi pick t = .ok o) : o.text ≠ [] := by
  unfold generateBotMessage at h
  split at h
  · split at h
    · cases h
    · cases h; exact finishBotMessage_ne_nil _
  · split at h
    · cases h
    · split at h
      · cases h; exact finishBotMessage_ne_nil _
      · cases h
      · cases h; simp [notSure, lit]
      · split at h
        · cases h
        · cases h; exact finishBotMessage_ne_nil _

/-! ### single call -/

theorem singleCallBotMessage_ok (result : Str) (bi : Option Str) : ∃ bm, singleCallBotMessage result bi = .ok bm := by
  unfold singleCallBotMessage
  cases bi with
  | none => exact ⟨none, rfl⟩
  | some b =>
    simp only
    by_cases hb : (!b.isEmpty) = true
    · rw [if_pos hb]
      cases hf : find b result with
      | none => exact ⟨none, rfl⟩
      | some pos =>
        simp only
        obtain ⟨m, hm⟩ := multiline_ok (result.drop (pos + b.length))
        obtain ⟨q, hq, _⟩ := stripQuotes_ok m
        rw [hm]; simp only; rw [hq]
        exact ⟨_, rfl⟩
    · rw [if_neg hb]; exact ⟨none, rfl⟩

theorem singleCallUserIntent_ne_nil (ui : Option Str) (h : ∀ u, ui = some u → ∃ x, u = strip x) :
    singleCallUserIntent ui ≠ [] := by
  unfold singleCallUserIntent
  cases ui with
  | none => simp [unknownMessage, lit]
  | some u =>
    obtain ⟨x, hx⟩ := h u rfl
    simp only
    by_cases hne : (!u.isEmpty) = true
    · rw [if_pos hne]
      by_cases h1 : startsWith u (lit "user ") = true
      · rw [if_pos h1]
        subst hx
        have := drop_prefix_ne_nil x (lit "user ") ' ' (by simp [lit]) (by decide) h1
        simpa [lit] using this
      · rw [if_neg h1]
        by_cases h2 : startsWith u (lit "User intent: ") = true
        · rw [if_pos h2]
          subst hx
          have := drop_prefix_ne_nil x (lit "User intent: ") ' ' (by simp [lit]) (by decide) h2
          simpa [lit] using this
        · rw [if_neg h2]
          intro hn; subst hn; simp at hne
    · rw [if_neg hne]; simp [unknownMessage, lit]

theorem singleCallBotIntent_ne_nil (bi : Option Str) (h : ∀ u, bi = some u → ∃ x, u = strip x) :
    singleCallBotIntent bi ≠ [] := by
  unfold singleCallBotIntent
  cases bi with
  | none => simp [generalResponse, lit]
  | some b =>
    obtain ⟨x, hx⟩ := h b rfl
    simp only
    by_cases h1 : (!b.isEmpty && startsWith b (lit "bot ")) = true
    · rw [if_pos h1]
      simp only [Bool.and_eq_true] at h1
      subst hx
      have := drop_prefix_ne_nil x (lit "bot ") ' ' (by simp [lit]) (by decide) h1.2
      simpa [lit] using this
    · rw [if_neg h1]
      by_cases h2 : (!b.isEmpty && startsWith b (lit "Bot intent: ")) = true
      · rw [if_pos h2]
        simp only [Bool.and_eq_true] at h2
        subst hx
        have := drop_prefix_ne_nil x (lit "Bot intent: ") ' ' (by simp [lit]) (by decide) h2.2
        simpa [lit] using this
      · rw [if_neg h2]; simp [generalResponse, lit]

theorem singleCallFinalMessage_ne_nil (bm : Option Str) : singleCallFinalMessage bm ≠ [] := by
  unfold singleCallFinalMessage
  cases bm with
  | none => simp [notSure, lit]
  | some m =>
    simp only
    by_cases hm : (!m.isEmpty) = true
    · rw [if_pos hm]; intro hn; subst hn; simp at hm
    · rw [if_neg hm]; simp [notSure, lit]

theorem singleCall_fields (p : Parser) (out : Str) (hne : p.apply out ≠ []) :
    ∃ r, postSingleCall p out = .ok r ∧ r.userIntent ≠ [] ∧ r.botIntent ≠ [] ∧ r.botMessage ≠ [] := by
  unfold postSingleCall
  obtain ⟨top, htop, hnone, hsome⟩ := topK_ok (p.apply out) 2
  simp only [htop]
  cases top with
  | none => exact absurd (hnone.1 rfl) hne
  | some lines =>
    obtain ⟨_, hl⟩ := hsome lines rfl
    obtain ⟨bm, hbm⟩ := singleCallBotMessage_ok (p.apply out) lines[1]?
    simp only [hbm]
    refine ⟨_, rfl, ?_, ?_, singleCallFinalMessage_ne_nil bm⟩
    · exact singleCallUserIntent_ne_nil _ (fun u hu => (hl u (List.mem_of_getElem? hu)).2)
    · exact singleCallBotIntent_ne_nil _ (fun u hu => (hl u (List.mem_of_getElem? hu)).2)

theorem singleCall_empty (p : Parser) (out : Str) (h : p.apply out = []) : postSingleCall p out = .error .typeError := by
  unfold postSingleCall
  simp [h, getTopKNonemptyLines]

/-! ### 2.x user intent -/

theorem orUnknownIntent_ne_nil (z : Str) : orUnknownIntent z ≠ [] := by
  unfold orUnknownIntent
  by_cases h : (!z.isEmpty) = true
  · rw [if_pos h]; intro hn; subst hn; simp at h
  · rw [if_neg h]; simp [userUnknownIntent, lit]

theorem postUserIntentV2_ne_nil (p : Parser) (out : Str) : postUserIntentV2 p out ≠ [] := by
  unfold postUserIntentV2
  exact orUnknownIntent_ne_nil _

end NemoVerif.LlmText
